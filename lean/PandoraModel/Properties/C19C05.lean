/-
  C19 ∘ C05 / C17 — the configuration `main` saves is accepted again by `check_conf` and completes to
  itself, with the idempotence of the step checks *proved* (C05) instead of assumed.

  `Properties/C19.lean` states the replay of the saved configuration on the abstract configuration of
  `Model/Save.lean` (`SideCfg`, `Saved`), with the acceptance of the input section (`schemaOk`) and
  the idempotence of the step checks (`hidem` of `checkPipeline_fixpoint`) as hypotheses.
  `Properties/C05Whole.lean`, `C17Whole.lean`, `C05Conf.lean` prove, for the model of `check_conf` on
  Python dictionaries (`Model/Config.lean`, `Dict` / `JVal`) instantiated with the tables regenerated
  from the source, that `check_conf` is idempotent.  This file connects the two:

    1. `mainSavedDict`            what `main` does to the dictionary `check_conf` returned before
                                  `save_config` (the model of `Save.mainSaved`, on dictionaries)
       `saved_config_replays`     the saved dictionary is accepted by `checkConf` and completes to the
                                  first run's result — no hypothesis on the step checks; the only facts
                                  about `main` that are used are the two generated `mainFacts`
                                  (`source_saved_config_replays`)
       `saved_config_is_result_plus_margins`  the saved file = `check_conf`'s result followed by `margins`
       — these two for `main`'s own writes; `pandora.run`, called in between, overwrites the `indicator`
       of every confidence step in the same dictionary (`SaveConfig.runIndicators`); §3b/§3c:
       `saved_config_replays_run`  the dictionary `main` really saves is accepted and completes to *itself*
                                  (`runPipeline_checked`: the rewritten pipeline is again a fix-point of
                                  every class check, `construct_indicator`)
    2. the adapter `sideOfDict` / `savedOfDict` from dictionaries to `Save.SideCfg` / `Save.Saved`:
       `accepted_sides`           an input section accepted by `checkInputSection` reads as two `SideCfg`
                                  satisfying `Save.schemaOk` (C19's hypothesis `hacc`, discharged)
       `savedOfDict_mainSaved`    the adapter commutes with `main` (for both values of the facts)
       (§3c) `source_refeed_spec_of_checkConf`   C19's `specRefeed` holds of the saved configuration of every
                                  accepted run — hypothesis-free
       `refeed_models_agree`      C19's abstract `refeedInput` and the dictionary `checkConf` give the
                                  same input sections for the saved file
    3. `stepCheck`                the check of one step as a function `S → Option S` (the `chk` of
                                  `Save.checkPipeline`), `stepCheck_idempotent` (C19's `hidem`, proved from
                                  C05's `construct_idem`), `checkPipelineSection_checkPipeline` (the real
                                  pipeline section is an instance), `saved_pipeline_fixpoint`,
                                  `saved_pipeline_names`, `saved_pipeline_fixpoint_run` (§3b)
-/
import PandoraModel.Properties.C19
import PandoraModel.Properties.C05Conf
import PandoraModel.Model.SaveConfig

namespace Pandora.C19C05
open Pandora Pandora.Config Pandora.ConfigSpec Pandora.Save Pandora.SaveConfig Pandora.Generated.Schemas

/-! ### 1. `main` on dictionaries (`SaveConfig.mainSavedDict`, model in `Model/SaveConfig.lean`) -/

/-- `check_conf` reads the keys `input` and `pipeline` of the user's dictionary and nothing else -/
theorem checkConf_reads_two_keys (files : Files) (sch : InputSchemas) (fl : MachineFlags) (reg : List KindDesc)
    (u u' : Dict) (m : CState)
    (hi : Dict.lookup u' "input" = Dict.lookup u "input")
    (hp : Dict.lookup u' "pipeline" = Dict.lookup u "pipeline") :
    checkConf files sch fl reg u' m = checkConf files sch fl reg u m := by
  unfold checkConf getConfigInput getConfigPipeline
  rw [hi, hp]

theorem lookup_setKey_ne (d : Dict) (k k' : String) (v : JVal) (h : k ≠ k') :
    Dict.lookup (Dict.setKey d k v) k' = Dict.lookup d k' := by
  rw [Merge.lookup_setKey]
  simp [h]

/-- with the facts of the repaired `main`, the saved dictionary has the `input` and `pipeline` of
    `check_conf`'s result -/
theorem mainSavedDict_lookup (facts : MainFacts) (hw : facts.writesRightDisp = false) (cfg : Dict) (margins : JVal)
    (k : String) (hk : k ≠ "margins") :
    Dict.lookup (mainSavedDict facts cfg margins) k = Dict.lookup cfg k := by
  unfold mainSavedDict
  simp only [hw, Bool.false_eq_true, if_false]
  by_cases ha : facts.addsMargins = true
  · simp only [ha, if_true]
    exact lookup_setKey_ne _ _ _ _ (Ne.symm hk)
  · simp [ha]

/-- **The configuration `main` saves is accepted again and completes to the first run's result.**
    For every user configuration `check_conf` accepts (on a machine that carries no step over), the
    dictionary `main` saves — `check_conf`'s result with the machine's margins added, the derived right
    interval *not* written into it — is accepted by `check_conf` on a second (fresh) machine, and the
    result of that second check is the result of the first: same input section, same steps in the same
    order with the same parameters.  No hypothesis on the step checks: their idempotence is C05's
    theorem (`checkConf_idempotent`); `margins` may be any value (`check_conf` never reads it). -/
theorem saved_config_replays (files : Files) (fl : MachineFlags) (user kvs P : Dict) (m m' : CState) (out : Dict)
    (hin : Dict.lookup user "input" = some (.obj kvs)) (hpi : Dict.lookup user "pipeline" = some (.obj P))
    (hnd : C17W.NodupSection kvs) (hfresh : C05W.FreshFor fl m) (hwf : Merge.wfDict P = true)
    (h : checkConf files inputSchemas fl registry user m = .ok (out, m'))
    (facts : MainFacts) (hw : facts.writesRightDisp = false) (margins : JVal)
    (m2 : CState) (hfresh2 : C05W.FreshFor fl m2) :
    ∃ m2', checkConf files inputSchemas fl registry (mainSavedDict facts out margins) m2 = .ok (out, m2') := by
  obtain ⟨m2', h2⟩ := C05C.checkConf_idempotent files fl user kvs P m m' out hin hpi hnd hfresh hwf h m2 hfresh2
  refine ⟨m2', ?_⟩
  rw [checkConf_reads_two_keys files inputSchemas fl registry out (mainSavedDict facts out margins) m2
    (mainSavedDict_lookup facts hw out margins "input" (by decide))
    (mainSavedDict_lookup facts hw out margins "pipeline" (by decide))]
  exact h2

/-- the two facts about `main` the replay uses, as regenerated from `pandora/__init__.py` on this run:
    the derived right interval is not written into the saved configuration, the margins are -/
theorem source_main_facts :
    Pandora.Generated.mainFacts.writesRightDisp = false ∧ Pandora.Generated.mainFacts.addsMargins = true := by
  decide

/-- **`saved_config_replays` for the `main` of the source** and the `update_conf` / machine of the source
    (`machineFlags`): every machine is fresh (`check_conf` empties `pipeline_cfg`). -/
theorem source_saved_config_replays (files : Files) (user kvs P : Dict) (m m' : CState) (out : Dict)
    (hin : Dict.lookup user "input" = some (.obj kvs)) (hpi : Dict.lookup user "pipeline" = some (.obj P))
    (hnd : C17W.NodupSection kvs) (hwf : Merge.wfDict P = true)
    (h : checkConf files inputSchemas machineFlags registry user m = .ok (out, m'))
    (margins : JVal) (m2 : CState) :
    ∃ m2', checkConf files inputSchemas machineFlags registry
      (mainSavedDict Pandora.Generated.mainFacts out margins) m2 = .ok (out, m2') :=
  saved_config_replays files machineFlags user kvs P m m' out hin hpi hnd (Or.inr (by decide)) hwf h
    Pandora.Generated.mainFacts source_main_facts.1 margins m2 (Or.inr (by decide))

/-- the saved file is `check_conf`'s result followed by the `margins` entry -/
theorem saved_config_is_result_plus_margins (files : Files) (fl : MachineFlags) (user kvs P : Dict) (m m' : CState)
    (out : Dict) (hin : Dict.lookup user "input" = some (.obj kvs)) (hpi : Dict.lookup user "pipeline" = some (.obj P))
    (hnd : (Dict.keys kvs).Nodup) (hfresh : C05W.FreshFor fl m) (hwf : Merge.wfDict P = true)
    (h : checkConf files inputSchemas fl registry user m = .ok (out, m')) (margins : JVal) :
    ∃ L' R' M, out = [("input", .obj [("left", .obj L'), ("right", .obj R')]), ("pipeline", .obj M)] ∧
      mainSavedDict Pandora.Generated.mainFacts out margins =
        [("input", .obj [("left", .obj L'), ("right", .obj R')]), ("pipeline", .obj M), ("margins", margins)] := by
  obtain ⟨L', R', M, _, _, hout⟩ := (C05C.checkConf_ok_iff files fl user kvs P m m' out hin hpi hnd hfresh hwf).1 h
  refine ⟨L', R', M, hout, ?_⟩
  subst hout
  simp [mainSavedDict, source_main_facts.1, source_main_facts.2, Dict.setKey]

/-! ### 2. The adapter from dictionaries to `Save.SideCfg` / `Save.Saved` -/

/-- `nodata` of a completed side as `Save.NoData` (an integer, NaN, or anything else) -/
def noDataOfJ : JVal → NoData
  | .int i => .int i
  | .float .nan => .nan
  | _ => .other

/-- `mask` / `classif` / `segm`: `None` or a path; `none` = not representable in `Save.SideCfg` -/
def auxOfJ : JVal → Option (Option String)
  | .null => some none
  | .str s => some (some s)
  | _ => none

/-- the disparities of a side as `Save.DispCfg` -/
def dispOfJ : JVal → DispCfg
  | .null => .null
  | .str s => .path s
  | .list l =>
    match intsOfJ l with
    | some xs => .ints xs
    | none => .other
  | _ => .other

/-- one side of a completed `input` section read as `Save.SideCfg`: the six keys must be present,
    `img` a string, the auxiliary images `None` or strings -/
def sideOfDict (S : Dict) : Option SideCfg :=
  match Dict.lookup S "img", Dict.lookup S "nodata", Dict.lookup S "mask", Dict.lookup S "classif",
        Dict.lookup S "segm", Dict.lookup S "disp" with
  | some (.str img), some nd, some mk, some cl, some sg, some d =>
    match auxOfJ mk, auxOfJ cl, auxOfJ sg with
    | some mk', some cl', some sg' =>
      some { img := img, nodata := noDataOfJ nd, mask := mk', classif := cl', segm := sg', disp := dispOfJ d }
    | _, _, _ => none
  | _, _, _, _, _, _ => none

theorem sideOfDict_eq {S : Dict} {img : String} {nd mk cl sg d : JVal} {mk' cl' sg' : Option String}
    (h1 : Dict.lookup S "img" = some (.str img)) (h2 : Dict.lookup S "nodata" = some nd)
    (h3 : Dict.lookup S "mask" = some mk) (h4 : Dict.lookup S "classif" = some cl)
    (h5 : Dict.lookup S "segm" = some sg) (h6 : Dict.lookup S "disp" = some d)
    (a3 : auxOfJ mk = some mk') (a4 : auxOfJ cl = some cl') (a5 : auxOfJ sg = some sg') :
    sideOfDict S = some { img := img, nodata := noDataOfJ nd, mask := mk', classif := cl', segm := sg',
                          disp := dispOfJ d } := by
  simp [sideOfDict, h1, h2, h3, h4, h5, h6, a3, a4, a5]

theorem auxOk_aux {files : Files} {im : FileInfo} {x : Option JVal} (h : C17W.auxOk files im x = true) :
    ∃ v a, x = some v ∧ auxOfJ v = some a := by
  cases x with
  | none => simp [C17W.auxOk] at h
  | some v =>
    cases v <;> simp [C17W.auxOk] at h
    · exact ⟨_, none, rfl, rfl⟩
    · exact ⟨_, some _, rfl, rfl⟩

theorem nodataOk_adapter {v : JVal} (h : C17W.nodataOk v = true) : nodataOk (noDataOfJ v) = true := by
  cases v <;> simp [C17W.nodataOk] at h
  · rfl
  · rename_i f
    cases f <;> simp at h
    rfl

theorem sideBase_facts {files : Files} {S : Dict} {im : FileInfo} (h : C17W.sideBaseOk files S im = true) :
    ∃ nd mk cl sg mk' cl' sg', Dict.lookup S "nodata" = some nd ∧ nodataOk (noDataOfJ nd) = true ∧
      Dict.lookup S "mask" = some mk ∧ Dict.lookup S "classif" = some cl ∧ Dict.lookup S "segm" = some sg ∧
      auxOfJ mk = some mk' ∧ auxOfJ cl = some cl' ∧ auxOfJ sg = some sg' := by
  simp only [C17W.sideBaseOk, Bool.and_eq_true] at h
  obtain ⟨⟨⟨⟨_, hn⟩, hm⟩, hc⟩, hs⟩ := h
  obtain ⟨mk, mk', e3, a3⟩ := auxOk_aux hm
  obtain ⟨cl, cl', e4, a4⟩ := auxOk_aux hc
  obtain ⟨sg, sg', e5, a5⟩ := auxOk_aux hs
  cases hnd : Dict.lookup S "nodata" with
  | none => simp [hnd] at hn
  | some nd =>
    simp only [hnd] at hn
    exact ⟨nd, mk, cl, sg, mk', cl', sg', rfl, nodataOk_adapter hn, e3, e4, e5, a3, a4, a5⟩

theorem rangeOk_adapter {items : List JVal} (h : C17W.rangeOk (.list items) = true) :
    ∃ x y, dispOfJ (.list items) = .ints [x, y] ∧ x ≤ y := by
  match items with
  | [a, b] =>
    simp only [C17W.rangeOk] at h
    cases ha : intOf? a <;> cases hb : intOf? b <;> simp [ha, hb] at h
    exact ⟨_, _, by simp [dispOfJ, intsOfJ, ha, hb], h⟩
  | [] => simp [C17W.rangeOk] at h
  | [_] => simp [C17W.rangeOk] at h
  | _ :: _ :: _ :: _ => simp [C17W.rangeOk] at h

theorem dispsOk_adapter {files : Files} {iml imr : FileInfo} {x y : Option JVal}
    (h : C17W.dispsOk files iml imr x y = true) :
    ∃ ld rd, x = some ld ∧ y = some rd ∧ dispOk (dispOfJ ld) (dispOfJ rd) = true := by
  cases x with
  | none => simp [C17W.dispsOk] at h
  | some ld =>
    cases y with
    | none => cases ld <;> simp [C17W.dispsOk] at h
    | some rd =>
      refine ⟨ld, rd, rfl, rfl, ?_⟩
      cases ld with
      | list items =>
        cases rd <;> simp [C17W.dispsOk] at h
        obtain ⟨a, b, hd, hab⟩ := rangeOk_adapter h
        rw [hd]
        simp [dispOk, dispOfJ, hab]
      | str p => cases rd <;> simp [C17W.dispsOk] at h <;> simp [dispOk, dispOfJ]
      | _ => simp [C17W.dispsOk] at h

/-- **C19's hypothesis `hacc`, discharged**: the two sides of an input section in one of the documented
    forms (what `checkInputSection` accepts, `C17W.checkInputSection_ok_iff`) read as two `SideCfg` that
    satisfy `Save.schemaOk` -/
theorem accepted_sides {files : Files} {L R : Dict} (h : C17W.formOk files L R = true) :
    ∃ l r, sideOfDict L = some l ∧ sideOfDict R = some r ∧ schemaOk l r = true ∧
      (∃ ld rd, Dict.lookup L "disp" = some ld ∧ Dict.lookup R "disp" = some rd ∧
        l.disp = dispOfJ ld ∧ r.disp = dispOfJ rd) := by
  unfold C17W.formOk at h
  cases hl : C17W.imgOf files L with
  | none => simp [hl] at h
  | some iml =>
    cases hr : C17W.imgOf files R with
    | none => simp [hl, hr] at h
    | some imr =>
      simp only [hl, hr, Bool.and_eq_true] at h
      obtain ⟨⟨⟨_, hLb⟩, hRb⟩, hd⟩ := h
      obtain ⟨p, hp, _⟩ := (C17W.imgOf_some files L iml).1 hl
      obtain ⟨q, hq, _⟩ := (C17W.imgOf_some files R imr).1 hr
      obtain ⟨nd, mk, cl, sg, mk', cl', sg', l2, ln, l3, l4, l5, la3, la4, la5⟩ := sideBase_facts hLb
      obtain ⟨nd2, mk2, cl2, sg2, mk2', cl2', sg2', r2, rn, r3, r4, r5, ra3, ra4, ra5⟩ := sideBase_facts hRb
      obtain ⟨ld, rd, l6, r6, hdo⟩ := dispsOk_adapter hd
      refine ⟨_, _, sideOfDict_eq hp l2 l3 l4 l5 l6 la3 la4 la5, sideOfDict_eq hq r2 r3 r4 r5 r6 ra3 ra4 ra5, ?_,
        ld, rd, l6, r6, rfl, rfl⟩
      simp [schemaOk, ln, rn, hdo]

/-- a saved `cfg/config.json` read as `Save.Saved` (pipeline: the dictionary of steps; margins: the
    value under `margins`, if any) -/
def savedOfDict (d : Dict) : Option (Saved Dict JVal) :=
  match sideDict d "left", sideDict d "right", Dict.lookup d "pipeline" with
  | some L, some R, some (.obj M) =>
    match sideOfDict L, sideOfDict R with
    | some l, some r => some { left := l, right := r, pipeline := M, margins := Dict.lookup d "margins" }
    | _, _ => none
  | _, _, _ => none

theorem dispOfJ_derived (ld rd : JVal) : dispOfJ (derivedRightJ ld rd) = derivedRight (dispOfJ ld) (dispOfJ rd) := by
  cases rd with
  | null =>
    cases ld with
    | list l =>
      simp only [derivedRightJ, dispOfJ]
      cases hl : intsOfJ l with
      | none => simp [derivedRight]
      | some xs =>
        match xs with
        | [] => simp [derivedRight]
        | [_] => simp [derivedRight]
        | x :: y :: _ => simp [derivedRight, intsOfJ, intOf?]
    | _ => simp [derivedRightJ, dispOfJ, derivedRight]
  | list l =>
    simp only [derivedRightJ, dispOfJ]
    cases intsOfJ l <;> simp [derivedRight]
  | _ => simp [derivedRightJ, dispOfJ, derivedRight]

theorem sideOfDict_some {S : Dict} {s : SideCfg} (h : sideOfDict S = some s) :
    ∃ img nd mk cl sg d mk' cl' sg',
      Dict.lookup S "img" = some (.str img) ∧ Dict.lookup S "nodata" = some nd ∧
      Dict.lookup S "mask" = some mk ∧ Dict.lookup S "classif" = some cl ∧
      Dict.lookup S "segm" = some sg ∧ Dict.lookup S "disp" = some d ∧
      auxOfJ mk = some mk' ∧ auxOfJ cl = some cl' ∧ auxOfJ sg = some sg' ∧
      s = { img := img, nodata := noDataOfJ nd, mask := mk', classif := cl', segm := sg', disp := dispOfJ d } := by
  unfold sideOfDict at h
  split at h
  · rename_i img nd mk cl sg d h1 h2 h3 h4 h5 h6
    split at h
    · rename_i mk' cl' sg' a3 a4 a5
      simp only [Option.some.injEq] at h
      exact ⟨img, nd, mk, cl, sg, d, mk', cl', sg', h1, h2, h3, h4, h5, h6, a3, a4, a5, h.symm⟩
    · cases h
  · cases h

/-- `S["disp"] = v` on a side: only the disparities of the `SideCfg` change -/
theorem sideOfDict_setDisp (S : Dict) (v : JVal) (s : SideCfg) (hs : sideOfDict S = some s) :
    sideOfDict (Dict.setKey S "disp" v) = some { s with disp := dispOfJ v } := by
  obtain ⟨img, nd, mk, cl, sg, d, mk', cl', sg', h1, h2, h3, h4, h5, h6, a3, a4, a5, rfl⟩ := sideOfDict_some hs
  have hk : ∀ k, k ≠ "disp" → Dict.lookup (Dict.setKey S "disp" v) k = Dict.lookup S k := by
    intro k hk
    exact lookup_setKey_ne _ _ _ _ (Ne.symm hk)
  have hd : Dict.lookup (Dict.setKey S "disp" v) "disp" = some v := by
    rw [Merge.lookup_setKey]; simp
  exact sideOfDict_eq (by rw [hk _ (by decide)]; exact h1) (by rw [hk _ (by decide)]; exact h2)
    (by rw [hk _ (by decide)]; exact h3) (by rw [hk _ (by decide)]; exact h4) (by rw [hk _ (by decide)]; exact h5)
    hd a3 a4 a5

/-- **the adapter commutes with `main`** (for both values of both facts): the dictionary `main` saves,
    read as `Save.Saved`, is `Save.mainSaved` of the two sides read as `SideCfg` -/
theorem savedOfDict_mainSaved (facts : MainFacts) (L' R' M : Dict) (l r : SideCfg) (ld rd : JVal)
    (hl : sideOfDict L' = some l) (hr : sideOfDict R' = some r)
    (hld : Dict.lookup L' "disp" = some ld) (hrd : Dict.lookup R' "disp" = some rd)
    (hdl : l.disp = dispOfJ ld) (hdr : r.disp = dispOfJ rd) (margins : JVal) :
    savedOfDict (mainSavedDict facts
        [("input", .obj [("left", .obj L'), ("right", .obj R')]), ("pipeline", .obj M)] margins) =
      some (mainSaved facts l r M margins) := by
  have hR := sideOfDict_setDisp R' (derivedRightJ ld rd) r hr
  have heff : ({ r with disp := dispOfJ (derivedRightJ ld rd) } : SideCfg) = effectiveRight l r := by
    simp [effectiveRight, dispOfJ_derived, hdl, hdr]
  rw [heff] at hR
  obtain ⟨w, a⟩ := facts
  cases w <;> cases a <;>
    simp [mainSavedDict, writeDerived, setRightDisp, sideDict, savedOfDict, mainSaved, Dict.lookup, Dict.setKey,
      hl, hr, hld, hrd, hR]

/-! ### 3. The pipeline section as an instance of `Save.checkPipeline`; `hidem` proved -/

/-- **the check of one step of the pipeline section**, as a function `S → Option S` with
    `S = step name × step value` (the `chk` of `Save.checkPipeline`): the value is a JSON value without
    duplicate keys; with its magic strings rewritten (`update_conf`) it is a dictionary; the step name has
    a kind; `Abstract<Kind>(**step)` of the source's registry returns; the callback's own test passes.
    The result is the dictionary the class returned. -/
def stepCheck (o : Oracle) (fl : MachineFlags) (l r : ImgInfo) (s : String × JVal) : Option (String × JVal) :=
  if Merge.wfVal s.2 then
    match Machine.Kind.ofName? (Machine.kindOf s.1), Merge.deepRw s.2 with
    | some kind, .obj cfg =>
      match kindDesc? registry kind.name with
      | some kd =>
        match construct o kd l r cfg with
        | .ok out => if C05W.extraOk fl kind l r out then some (s.1, .obj out) else none
        | .error _ => none
      | none => none
    | _, _ => none
  else none

theorem stepCheck_intro {o : Oracle} {fl : MachineFlags} {l r : ImgInfo} {n : String} {v : JVal}
    {kind : Machine.Kind} {cfg out : Dict} {kd : KindDesc}
    (hw : Merge.wfVal v = true) (hk : Machine.Kind.ofName? (Machine.kindOf n) = some kind)
    (hv : Merge.deepRw v = .obj cfg) (hkd : kindDesc? registry kind.name = some kd)
    (hc : construct o kd l r cfg = .ok out) (he : C05W.extraOk fl kind l r out = true) :
    stepCheck o fl l r (n, v) = some (n, .obj out) := by
  simp [stepCheck, hw, hk, hv, hkd, hc, he]

theorem stepCheck_some {o : Oracle} {fl : MachineFlags} {l r : ImgInfo} {s s' : String × JVal}
    (h : stepCheck o fl l r s = some s') :
    Merge.wfVal s.2 = true ∧ ∃ kind cfg kd out, Machine.Kind.ofName? (Machine.kindOf s.1) = some kind ∧
      Merge.deepRw s.2 = .obj cfg ∧ kindDesc? registry kind.name = some kd ∧
      construct o kd l r cfg = .ok out ∧ C05W.extraOk fl kind l r out = true ∧ s' = (s.1, .obj out) := by
  unfold stepCheck at h
  split at h
  · rename_i hw
    refine ⟨hw, ?_⟩
    split at h
    · rename_i kind cfg hk hv
      split at h
      · rename_i kd hkd
        split at h
        · rename_i out hc
          split at h
          · rename_i he
            simp only [Option.some.injEq] at h
            exact ⟨kind, cfg, kd, out, hk, hv, hkd, hc, he, h.symm⟩
          · cases h
        · cases h
      · cases h
    · cases h
  · cases h

/-- **C19's hypothesis `hidem`, proved** (from C05's `construct_idem` / `construct_facts`): a step check
    applied to its own output returns that output -/
theorem stepCheck_idempotent (o : Oracle) (fl : MachineFlags) (l r : ImgInfo) :
    ∀ s s', stepCheck o fl l r s = some s' → stepCheck o fl l r s' = some s' := by
  intro s s' h
  obtain ⟨hw, kind, cfg, kd, out, hk, hv, hkd, hc, he, rfl⟩ := stepCheck_some h
  obtain ⟨cfgU, hsU, hcfg⟩ := C05W.deepRw_eq_obj hv
  have hwU : Merge.wfDict cfgU = true := by rw [hsU] at hw; simpa [Merge.wfVal] using hw
  have hcw : Merge.wfDict cfg = true := by rw [hcfg]; exact Merge.wfDict_deepRwD cfgU hwU
  have hcf : Merge.deepRwD cfg = cfg := by rw [hcfg]; exact Merge.deepRwD_idem cfgU
  have hkdm := (C05W.kindDesc_some hkd).1
  obtain ⟨_, _, _, _, _, _, _, _, _, how, hof⟩ := C05W.construct_facts hkdm hcw hcf hc
  exact stepCheck_intro (by simpa [Merge.wfVal] using how) hk (by simp [Merge.deepRw, hof]) hkd
    (C05W.construct_idem hkdm hcw hcf hc) he

/-- the steps of a pipeline dictionary in the form `Save.checkPipeline` takes (`S` = name × value) -/
def stepsOf (P : Dict) : List (String × (String × JVal)) := P.map (fun kv => (kv.1, kv))

theorem stepsOf_names (P : Dict) : (stepsOf P).map (·.1) = Dict.keys P := by
  simp [stepsOf, Dict.keys]

theorem checkPipeline_of_keys (f : String × JVal → Option (String × JVal)) :
    ∀ (P M : Dict), Dict.keys M = Dict.keys P → (Dict.keys P).Nodup →
      (∀ n v w, Dict.lookup P n = some v → Dict.lookup M n = some w → f (n, v) = some (n, w)) →
      checkPipeline f (stepsOf P) = some (stepsOf M) := by
  intro P
  induction P with
  | nil =>
    intro M hk _ _
    cases M with
    | nil => simp [checkPipeline, stepsOf]
    | cons a M => simp [Dict.keys] at hk
  | cons kv P ih =>
    intro M hk hnd hf
    obtain ⟨k, v⟩ := kv
    cases M with
    | nil => simp [Dict.keys] at hk
    | cons a M =>
      obtain ⟨k', w⟩ := a
      simp only [Dict.keys, List.map_cons, List.cons.injEq] at hk
      obtain ⟨rfl, hk2⟩ := hk
      simp only [Dict.keys, List.map_cons, List.nodup_cons] at hnd
      have hhead : f (k', v) = some (k', w) := hf k' v w (by simp [Dict.lookup]) (by simp [Dict.lookup])
      have htail := ih M hk2 hnd.2 (by
        intro n v' w' hP hM
        have hne : k' ≠ n := by
          intro e; subst e
          exact hnd.1 (Merge.mem_keys_of_lookup hP)
        exact hf n v' w' (by simp [Dict.lookup, hne, hP]) (by simp [Dict.lookup, hne, hM]))
      simp only [checkPipeline, stepsOf, List.mapM_map] at htail
      simp [checkPipeline, stepsOf, List.mapM_cons, hhead, htail]

/-- **the real pipeline section is an instance of `Save.checkPipeline`**: when `check_pipeline_section`
    (model of `Config.lean`, registry of the source) accepts the user's pipeline `P` and returns
    `{"pipeline": M}`, `Save.checkPipeline stepCheck` maps the steps of `P` to the steps of `M` -/
theorem checkPipelineSection_checkPipeline {o : Oracle} {fl : MachineFlags} {P : Dict} {l r : ImgInfo}
    {m m' : CState} {out : Dict} (hfresh : C05W.FreshFor fl m) (hwf : Merge.wfDict P = true)
    (h : checkPipelineSection o fl registry [("pipeline", .obj P)] l r m = .ok (out, m')) :
    checkPipeline (stepCheck o fl l r) (stepsOf P) = some (stepsOf m'.pipelineCfg) := by
  obtain ⟨_, hkeys, hsteps⟩ := C05W.checkPipelineSection_structure hfresh hwf h
  obtain ⟨_, hacc, _⟩ := (C05W.checkPipelineSection_ok_iff o fl P l r m hfresh hwf).1 ⟨out, m', h⟩
  apply checkPipeline_of_keys _ P _ hkeys (Merge.wfDict_keys_nodup P hwf)
  intro n v w hP hM
  obtain ⟨kind, cfgU, kd, outn, hkind, hP', hkd, hc, hM'⟩ := hsteps n (Merge.mem_keys_of_lookup hP)
  rw [hP] at hP'; cases hP'
  rw [hM] at hM'; cases hM'
  have hmem := Merge.mem_of_lookup P n _ hP
  obtain ⟨kind2, cfg2, kd2, out2, hkind2, hv2, hkd2, hc2, he2⟩ := hacc n _ hmem
  rw [hkind] at hkind2; cases hkind2
  rw [hkd] at hkd2; cases hkd2
  have hv : Merge.deepRw (JVal.obj cfgU) = .obj (Merge.deepRwD cfgU) := by simp [Merge.deepRw]
  rw [hv] at hv2; cases hv2
  rw [hc] at hc2; cases hc2
  exact stepCheck_intro (Merge.wfDict_mem hwf hmem) hkind hv hkd hc he2

/-- **the saved pipeline section completes to itself** — `C19.checkPipeline_fixpoint` with its
    hypothesis discharged: the steps `check_conf` returned (which `main` saves unchanged), checked again
    one by one, are returned unchanged -/
theorem saved_pipeline_fixpoint {o : Oracle} {fl : MachineFlags} {P : Dict} {l r : ImgInfo}
    {m m' : CState} {out : Dict} (hfresh : C05W.FreshFor fl m) (hwf : Merge.wfDict P = true)
    (h : checkPipelineSection o fl registry [("pipeline", .obj P)] l r m = .ok (out, m')) :
    checkPipeline (stepCheck o fl l r) (stepsOf m'.pipelineCfg) = some (stepsOf m'.pipelineCfg) :=
  C19.checkPipeline_fixpoint (stepCheck o fl l r) (stepCheck_idempotent o fl l r) _ _
    (checkPipelineSection_checkPipeline hfresh hwf h)

/-- … with the user's step names in the user's order (`C19.checkPipeline_names`) -/
theorem saved_pipeline_names {o : Oracle} {fl : MachineFlags} {P : Dict} {l r : ImgInfo}
    {m m' : CState} {out : Dict} (hfresh : C05W.FreshFor fl m) (hwf : Merge.wfDict P = true)
    (h : checkPipelineSection o fl registry [("pipeline", .obj P)] l r m = .ok (out, m')) :
    Dict.keys m'.pipelineCfg = Dict.keys P := by
  have := C19.checkPipeline_names (stepCheck o fl l r) _ _ (checkPipelineSection_checkPipeline hfresh hwf h)
  rwa [stepsOf_names, stepsOf_names] at this

/-! ### 3b. What `run` writes into the configuration (`SaveConfig.runIndicators`) keeps it a fix-point -/

theorem setKey_values (P : JVal → Prop) (d : Dict) (k : String) (v : JVal) (hnd : (Dict.keys d).Nodup)
    (hpres : Dict.lookup d k ≠ none) (hd : ∀ kv ∈ d, P kv.2) (hv : P v) :
    ∀ kv ∈ Dict.setKey d k v, P kv.2 := by
  intro kv hm
  have hk := Merge.keys_setKey_present d k v hpres
  have hl := Merge.lookup_of_mem _ kv.1 kv.2 (by rw [hk]; exact hnd) hm
  rw [Merge.lookup_setKey] at hl
  by_cases e : k = kv.1
  · simp only [e, if_true, Option.some.injEq] at hl
    rw [← hl]; exact hv
  · simp only [e, if_false] at hl
    exact hd _ (Merge.mem_of_lookup d kv.1 kv.2 hl)

/-- replacing the value of a present key by a leaf `update_conf` leaves alone keeps a dictionary in the
    form `update_conf` delivers -/
theorem wf_fixed_setKey (d : Dict) (k : String) (v : JVal) (hw : Merge.wfDict d = true) (hf : Merge.deepRwD d = d)
    (hpres : Dict.lookup d k ≠ none) (hleaf : v.isObj = false) (hfix : rewriteLeaf v = v) :
    Merge.wfDict (Dict.setKey d k v) = true ∧ Merge.deepRwD (Dict.setKey d k v) = Dict.setKey d k v := by
  have hnd := Merge.wfDict_keys_nodup d hw
  constructor
  · apply (Merge.wfDict_iff _).2
    refine ⟨by rw [Merge.keys_setKey_present d k v hpres]; exact hnd, ?_⟩
    exact setKey_values (fun x => Merge.wfVal x = true) d k v hnd hpres
      (fun kv hm => Merge.wfDict_mem hw (k := kv.1) (v := kv.2) hm) (Merge.wfVal_leaf v hleaf)
  · apply Merge.fixedDict_of_mem
    exact setKey_values Merge.fixedVal d k v hnd hpres
      (fun kv hm => Merge.fixedDict_mem hf (k := kv.1) (v := kv.2) hm) (Merge.fixedVal_of_leaf v hleaf hfix)

/-- the suffix `run` writes is `""` or starts with a dot: never one of the strings `update_conf` rewrites -/
theorem indicatorOf_fixed (n : String) : rewriteLeaf (.str (indicatorOf n)) = .str (indicatorOf n) := by
  have key : ∀ (l : List Char), (l.dropWhile (· != '.')) = [] ∨ ∃ t, (l.dropWhile (· != '.')) = '.' :: t := by
    intro l
    induction l with
    | nil => exact Or.inl rfl
    | cons c cs ih =>
      by_cases hc : c = '.'
      · subst hc; exact Or.inr ⟨cs, by simp⟩
      · have : ((c :: cs).dropWhile (· != '.')) = cs.dropWhile (· != '.') := by
          rw [List.dropWhile_cons]; simp [hc]
        rw [this]; exact ih
  have hne : ∀ (x : String), x.toList.head? = some 'N' ∨ x.toList.head? = some 'i' ∨ x.toList.head? = some '-' →
      indicatorOf n ≠ x := by
    intro x hx e
    have : (indicatorOf n).toList = n.toList.dropWhile (· != '.') := by simp [indicatorOf]
    rw [e] at this
    rcases key n.toList with h | ⟨t, h⟩ <;> rw [h] at this <;> rw [this] at hx <;> simp at hx
  unfold rewriteLeaf
  have h1 : indicatorOf n ≠ "NaN" := hne "NaN" (Or.inl (by decide))
  have h2 : indicatorOf n ≠ "inf" := hne "inf" (Or.inr (Or.inl (by decide)))
  have h3 : indicatorOf n ≠ "-inf" := hne "-inf" (Or.inr (Or.inr (by decide)))
  simp [h1, h2, h3]

/-- no guard, no refusal of grids in an action list -/
def guardFree (acts : List Action) : Bool :=
  acts.all fun a => match a with
    | .default _ _ => true
    | .defaultElifNaN _ _ => true
    | _ => false

/-- what the confidence classes of the source have in common, as far as `indicator` goes: a plain default,
    never NaN-rewritten, any string accepted, no guard in the class -/
def indicatorFacts (c : ClassDesc) : Bool :=
  C05.wfActions c.actions && guardFree c.actions &&
  (C05.defaultKeys c.actions).contains "indicator" && !(C05.nanKeys c.actions).contains "indicator" &&
  c.schema.all (fun e => e.1 != "indicator" || decide (e.2.2 = Schema.type .str))

theorem generated_indicator_facts :
    kind_cost_volume_confidence.classes.all indicatorFacts = true ∧
    kind_cost_volume_confidence.methodKey = "confidence_method" ∧
    kindDesc? registry "cost_volume_confidence" = some kind_cost_volume_confidence :=
  ⟨by decide, by decide, rfl⟩

theorem guardFree_compatible (l r : ImgInfo) (acts : List Action) (h : guardFree acts = true) (cfg : Dict) :
    C05.GuardsCompatible l r acts cfg := by
  simp only [guardFree, List.all_eq_true] at h
  constructor
  · intro k g e hm
    have := h _ hm
    simp at this
  · intro hm
    have := h _ hm
    simp at this

/-- **a class check that returned its argument returns it again after `indicator` is overwritten by a string** -/
theorem classCheck_indicator {o : Oracle} {c : ClassDesc} {l r : ImgInfo} {cfg : Dict} (s : String)
    (hfacts : indicatorFacts c = true) (hnd : (Dict.keys cfg).Nodup)
    (h : classCheck o c l r cfg = .ok cfg) :
    classCheck o c l r (Dict.setKey cfg "indicator" (.str s)) = .ok (Dict.setKey cfg "indicator" (.str s)) := by
  simp only [indicatorFacts, Bool.and_eq_true, Bool.not_eq_true', List.all_eq_true, Bool.or_eq_true,
    bne_iff_ne, ne_eq, decide_eq_true_eq] at hfacts
  obtain ⟨⟨⟨⟨hwf, hgf⟩, hdk⟩, hnk⟩, hsch⟩ := hfacts
  obtain ⟨hrun, hacc⟩ := C05.classCheck_ok h
  have hkeys := C05.runActions_keys l r c.actions cfg cfg hwf hrun
  have hlook := C05.runActions_lookup l r c.actions cfg cfg hwf hrun
  -- every defaulted key is present in `cfg`
  have hfil : (C05.defaultKeys c.actions).filter (fun k => !(Dict.keys cfg).contains k) = [] := by
    have : Dict.keys cfg ++ [] = Dict.keys cfg ++ (C05.defaultKeys c.actions).filter (fun k => !(Dict.keys cfg).contains k) := by
      rw [List.append_nil]; exact hkeys
    exact (List.append_cancel_left this).symm
  have hpres : Dict.lookup cfg "indicator" ≠ none := by
    intro hn
    have hnot := (Merge.lookup_none_iff cfg "indicator").1 hn
    have : "indicator" ∈ (C05.defaultKeys c.actions).filter (fun k => !(Dict.keys cfg).contains k) := by
      rw [List.mem_filter]
      exact ⟨by simpa using hdk, by simpa using hnot⟩
    rw [hfil] at this
    cases this
  obtain ⟨cfg', hcfg'⟩ : ∃ x, x = Dict.setKey cfg "indicator" (.str s) := ⟨_, rfl⟩
  rw [← hcfg']
  have hk' : Dict.keys cfg' = Dict.keys cfg := by rw [hcfg']; exact Merge.keys_setKey_present cfg _ _ hpres
  obtain ⟨out', hrun'⟩ := C05.runActions_succeeds l r c.actions cfg' hwf (guardFree_compatible l r _ hgf cfg')
  have hkeys' := C05.runActions_keys l r c.actions cfg' out' hwf hrun'
  have hlook' := C05.runActions_lookup l r c.actions cfg' out' hwf hrun'
  rw [hk', hfil, List.append_nil] at hkeys'
  have hout : out' = cfg' := by
    apply Merge.dict_ext out' cfg' (by rw [hkeys', hk']) (by rw [hkeys']; exact hnd)
    intro k
    rw [hlook' k, hcfg', Merge.lookup_setKey]
    by_cases e : "indicator" = k
    · subst e
      simp only [if_true]
      rw [C05.nanFix_of_not_mem _ _ _ (by simpa using hnk)]
    · simp only [e, if_false]
      have := hlook k
      cases hc : Dict.lookup cfg k with
      | none => simp only [hc] at this ⊢; exact this.symm
      | some u => simp only [hc] at this ⊢; exact this.symm
  rw [hout] at hrun'
  apply (C05.classCheck_ok_iff o c l r cfg' cfg').2
  refine ⟨hrun', ?_⟩
  obtain ⟨hent, hkk⟩ := (Merge.dict_accepts_iff o c.schema cfg).1 hacc
  apply (Merge.dict_accepts_iff o c.schema cfg').2
  constructor
  · intro e he
    rw [hcfg', Merge.lookup_setKey]
    by_cases ek : "indicator" = e.1
    · simp only [ek, if_true]
      rcases hsch e he with h1 | h1
      · exact absurd ek.symm h1
      · rw [h1]; simp [Schema.accepts, PyType.isInstance]
    · simp only [ek, if_false]
      exact hent e he
  · intro kv hkv
    have hin : kv.1 ∈ Dict.keys cfg := by rw [← hk']; exact List.mem_map_of_mem (f := (·.1)) hkv
    obtain ⟨kv0, hkv0, he⟩ := List.mem_map.1 hin
    obtain ⟨e, he1, he2⟩ := hkk kv0 hkv0
    exact ⟨e, he1, by rw [he2, he]⟩

/-- `AbstractCostVolumeConfidence(**cfg)` of the source: a fix-point stays one when `indicator` is overwritten -/
theorem construct_indicator {o : Oracle} {l r : ImgInfo} {cfg : Dict} (s : String) (hnd : (Dict.keys cfg).Nodup)
    (h : construct o kind_cost_volume_confidence l r cfg = .ok cfg) :
    construct o kind_cost_volume_confidence l r (Dict.setKey cfg "indicator" (.str s)) =
      .ok (Dict.setKey cfg "indicator" (.str s)) := by
  obtain ⟨hall, hmk, _⟩ := generated_indicator_facts
  obtain ⟨m, c, hm, hf, hcc⟩ := C05W.construct_ok h
  have hc := (C05W.findClass_some hf).1
  rw [List.all_eq_true] at hall
  have hcc' := classCheck_indicator s (hall c hc) hnd hcc
  unfold construct
  rw [hmk] at hm ⊢
  rw [lookup_setKey_ne _ _ _ _ (by decide), hm]
  simp only [hf]
  exact hcc'

/-- "`Q` is a checked pipeline": in the form `update_conf` delivers, its step names a path of the automaton,
    every step a fix-point of its class check that passes the callback's own test -/
def CheckedPipeline (o : Oracle) (fl : MachineFlags) (l r : ImgInfo) (Q : Dict) : Prop :=
  Merge.wfDict Q = true ∧ Merge.deepRwD Q = Q ∧ Machine.isPath .begin (Dict.keys Q) = true ∧
  (Machine.hasKind .validation (Dict.keys Q) = true → (r.dispSource.isStr && l.dispSource.isNull) = false) ∧
  ∀ n v, (n, v) ∈ Q → ∃ kind cfg kd, Machine.Kind.ofName? (Machine.kindOf n) = some kind ∧ v = .obj cfg ∧
    kindDesc? registry kind.name = some kd ∧ construct o kd l r cfg = .ok cfg ∧ C05W.extraOk fl kind l r cfg = true

/-- **a checked pipeline is returned unchanged by `check_pipeline_section`** (fresh machine) -/
theorem checkPipelineSection_of_checked {o : Oracle} {fl : MachineFlags} {l r : ImgInfo} {Q : Dict}
    (hQ : CheckedPipeline o fl l r Q) (m : CState) (hfresh : C05W.FreshFor fl m) :
    ∃ m', checkPipelineSection o fl registry [("pipeline", .obj Q)] l r m = .ok ([("pipeline", .obj Q)], m') := by
  obtain ⟨hw, hf, hpath, hmirror, hsteps⟩ := hQ
  have hnd := Merge.wfDict_keys_nodup Q hw
  have hvfix : ∀ n v, (n, v) ∈ Q → Merge.deepRw v = v := fun n v hm => Merge.fixedDict_mem hf hm
  obtain ⟨out, m', h⟩ := (C05W.checkPipelineSection_ok_iff o fl Q l r m hfresh hw).2 ⟨hpath, by
    intro n v hm
    obtain ⟨kind, cfg, kd, hk, hv, hkd, hc, he⟩ := hsteps n v hm
    rw [hvfix n v hm]
    exact ⟨kind, cfg, kd, cfg, hk, hv, hkd, hc, he⟩, hmirror⟩
  obtain ⟨hout, hkeys, hst⟩ := C05W.checkPipelineSection_structure hfresh hw h
  have hM : m'.pipelineCfg = Q := by
    apply Merge.dict_ext _ _ hkeys (by rw [hkeys]; exact hnd)
    intro k
    by_cases hk : k ∈ Dict.keys Q
    · obtain ⟨kind, cfgU, kd, outn, hkind, hP, hkd, hc, hM⟩ := hst k hk
      have hmem := Merge.mem_of_lookup Q k _ hP
      obtain ⟨kind2, cfg2, kd2, hkind2, hv2, hkd2, hc2, _⟩ := hsteps k _ hmem
      cases hv2
      rw [hkind] at hkind2; cases hkind2
      rw [hkd] at hkd2; cases hkd2
      have hfx : Merge.deepRwD cfgU = cfgU := by
        have := hvfix k _ hmem
        simpa [Merge.deepRw] using this
      rw [hfx, hc2] at hc
      cases hc
      rw [hM, hP]
    · rw [(Merge.lookup_none_iff _ k).2 (by rw [hkeys]; exact hk), (Merge.lookup_none_iff _ k).2 hk]
  exact ⟨m', by rw [h, hout, hM]⟩

/-- the pipeline `check_pipeline_section` returned is a checked pipeline -/
theorem checked_of_checkPipelineSection {o : Oracle} {fl : MachineFlags} {P : Dict} {l r : ImgInfo}
    {m m' : CState} {out : Dict} (hfresh : C05W.FreshFor fl m) (hwf : Merge.wfDict P = true)
    (h : checkPipelineSection o fl registry [("pipeline", .obj P)] l r m = .ok (out, m')) :
    CheckedPipeline o fl l r m'.pipelineCfg := by
  obtain ⟨hmach, _⟩ := C05W.checkPipelineSection_machine hfresh hwf h
  have hw' := Merge.wfDict_deepRwD P hwf
  have hnd' : (Dict.keys (Merge.deepRwD P)).Nodup := Merge.wfDict_keys_nodup _ hw'
  have hchecked := C05.machineCheck_fresh o fl registry (Merge.deepRwD P) l r m m' hfresh hnd' hmach
  obtain ⟨hMw, hMf⟩ := C05W.checked_wf hw' (Merge.deepRwD_idem P) hchecked
  obtain ⟨hkeys, hsteps⟩ := hchecked
  obtain ⟨hpath, hacc, hmirror⟩ :=
    (C05W.machineCheck_ok_iff o fl registry C05W.registry_noOptimization (Merge.deepRwD P) l r m).1 ⟨m', hmach⟩
  refine ⟨hMw, hMf, by rw [hkeys]; exact hpath, by rw [hkeys]; exact hmirror, ?_⟩
  intro n v hm
  have hndM : (Dict.keys m'.pipelineCfg).Nodup := Merge.wfDict_keys_nodup _ hMw
  have hl := Merge.lookup_of_mem _ n v hndM hm
  have hn : n ∈ Dict.keys (Merge.deepRwD P) := by rw [← hkeys]; exact Merge.mem_keys_of_lookup hl
  obtain ⟨kind, cfg, kd, outn, hkind, hP, hkd, hc, hM⟩ := hsteps n hn
  obtain ⟨kind', cfg', kd', out', hkind', hP', hkd', hc', hex'⟩ := hacc n hn
  rw [hP] at hP'; simp only [Option.getD_some, JVal.obj.injEq] at hP'; subst hP'
  rw [hkind] at hkind'; cases hkind'
  rw [hkd] at hkd'; cases hkd'
  rw [hc] at hc'; cases hc'
  rw [hl] at hM; cases hM
  have hmem := Merge.mem_of_lookup _ n _ hP
  have hcw : Merge.wfDict cfg = true := by simpa using Merge.wfDict_mem hw' hmem
  have hcf : Merge.deepRwD cfg = cfg := by
    have := Merge.fixedDict_mem (Merge.deepRwD_idem P) hmem
    unfold Merge.fixedVal at this; simpa using this
  exact ⟨kind, outn, kd, hkind, rfl, hkd, C05W.construct_idem (C05W.kindDesc_some hkd).1 hcw hcf hc, hex'⟩

theorem runPipeline_keys (M : Dict) : Dict.keys (runPipeline M) = Dict.keys M := by
  simp only [runPipeline, Dict.keys, List.map_map]
  apply List.map_congr_left
  intro kv _
  simp only [Function.comp, runStep]
  split
  · split <;> rfl
  · rfl

/-- **what `run` writes keeps the pipeline checked**: the `indicator` of every confidence step overwritten by
    the suffix of its name, the result is again a checked pipeline -/
theorem runPipeline_checked {o : Oracle} {fl : MachineFlags} {l r : ImgInfo} {M : Dict}
    (hM : CheckedPipeline o fl l r M) : CheckedPipeline o fl l r (runPipeline M) := by
  obtain ⟨hw, hf, hpath, hmirror, hsteps⟩ := hM
  have hnd := Merge.wfDict_keys_nodup M hw
  -- every step of the rewritten pipeline
  have hstep : ∀ n v, (n, v) ∈ runPipeline M → ∃ kind cfg kd, Machine.Kind.ofName? (Machine.kindOf n) = some kind ∧
      v = .obj cfg ∧ kindDesc? registry kind.name = some kd ∧ construct o kd l r cfg = .ok cfg ∧
      C05W.extraOk fl kind l r cfg = true ∧ Merge.wfDict cfg = true ∧ Merge.deepRwD cfg = cfg := by
    intro n v hm
    simp only [runPipeline, List.mem_map] at hm
    obtain ⟨kv, hkv, he⟩ := hm
    obtain ⟨kind, cfg, kd, hk, hv, hkd, hc, hex⟩ := hsteps kv.1 kv.2 hkv
    have hcw : Merge.wfDict cfg = true := by
      have := Merge.wfDict_mem hw (k := kv.1) (v := kv.2) hkv
      rw [hv] at this; simpa [Merge.wfVal] using this
    have hcf : Merge.deepRwD cfg = cfg := by
      have := Merge.fixedDict_mem hf (k := kv.1) (v := kv.2) hkv
      rw [hv] at this; unfold Merge.fixedVal at this; simpa using this
    unfold runStep at he
    by_cases hcvc : Machine.kindOf kv.1 = "cost_volume_confidence"
    · simp only [hcvc, if_true, hv] at he
      have hn : n = kv.1 := (Prod.mk.inj he).1.symm
      have hvv : v = .obj (Dict.setKey cfg "indicator" (.str (indicatorOf kv.1))) := (Prod.mk.inj he).2.symm
      have hkk : kind = .costVolumeConfidence := by
        rw [hcvc] at hk
        have : Machine.Kind.ofName? "cost_volume_confidence" = some .costVolumeConfidence := by decide
        rw [this] at hk; cases hk; rfl
      subst hkk
      have hkd' : kd = kind_cost_volume_confidence := by
        have := generated_indicator_facts.2.2
        have e : Machine.Kind.costVolumeConfidence.name = "cost_volume_confidence" := by decide
        rw [e, this] at hkd; cases hkd; rfl
      subst hkd'
      have hndc := Merge.wfDict_keys_nodup cfg hcw
      have hci := construct_indicator (o := o) (l := l) (r := r) (indicatorOf kv.1) hndc hc
      -- `indicator` is present in a dictionary a confidence class returned
      have hpres : Dict.lookup cfg "indicator" ≠ none := by
        obtain ⟨m, c, _, hfc, hcc⟩ := C05W.construct_ok hc
        have hall := generated_indicator_facts.1
        rw [List.all_eq_true] at hall
        have hfacts := hall c (C05W.findClass_some hfc).1
        simp only [indicatorFacts, Bool.and_eq_true, Bool.not_eq_true', List.all_eq_true] at hfacts
        obtain ⟨⟨⟨⟨hwfa, _⟩, hdk⟩, _⟩, _⟩ := hfacts
        have hkeys := C05.runActions_keys l r c.actions cfg cfg hwfa (C05.classCheck_ok hcc).1
        intro hn'
        have hnot := (Merge.lookup_none_iff cfg "indicator").1 hn'
        have hmem : "indicator" ∈ (C05.defaultKeys c.actions).filter (fun k => !(Dict.keys cfg).contains k) := by
          rw [List.mem_filter]; exact ⟨by simpa using hdk, by simpa using hnot⟩
        have hin : "indicator" ∈ Dict.keys cfg := by rw [hkeys]; exact List.mem_append_right _ hmem
        exact hnot hin
      obtain ⟨hw2, hf2⟩ := wf_fixed_setKey cfg "indicator" (.str (indicatorOf kv.1)) hcw hcf hpres rfl (indicatorOf_fixed kv.1)
      exact ⟨.costVolumeConfidence, _, kind_cost_volume_confidence, by rw [hn]; exact hk, hvv, hkd, hci,
        by simp [C05W.extraOk], hw2, hf2⟩
    · simp only [hcvc, if_false] at he
      have hn : n = kv.1 := by rw [he]
      have hvv : v = kv.2 := by rw [he]
      exact ⟨kind, cfg, kd, by rw [hn]; exact hk, by rw [hvv]; exact hv, hkd, hc, hex, hcw, hcf⟩
  have hkeys := runPipeline_keys M
  refine ⟨?_, ?_, by rw [hkeys]; exact hpath, by rw [hkeys]; exact hmirror, ?_⟩
  · apply (Merge.wfDict_iff _).2
    refine ⟨by rw [hkeys]; exact hnd, ?_⟩
    intro kv hm
    obtain ⟨_, cfg, _, _, hv, _, _, _, hcw, _⟩ := hstep kv.1 kv.2 hm
    rw [hv]; simpa [Merge.wfVal] using hcw
  · apply Merge.fixedDict_of_mem
    intro kv hm
    obtain ⟨_, cfg, _, _, hv, _, _, _, _, hcf⟩ := hstep kv.1 kv.2 hm
    rw [hv]; unfold Merge.fixedVal; simp [hcf]
  · intro n v hm
    obtain ⟨kind, cfg, kd, hk, hv, hkd, hc, hex, _, _⟩ := hstep n v hm
    exact ⟨kind, cfg, kd, hk, hv, hkd, hc, hex⟩

theorem runPipeline_idem (M : Dict) : runPipeline (runPipeline M) = runPipeline M := by
  simp only [runPipeline, List.map_map]
  apply List.map_congr_left
  intro kv _
  simp only [Function.comp]
  unfold runStep
  by_cases hcvc : Machine.kindOf kv.1 = "cost_volume_confidence"
  · simp only [hcvc, if_true]
    cases hv : kv.2 with
    | obj step =>
      simp only [hcvc, if_true]
      congr 2
      have : Dict.lookup (Dict.setKey step "indicator" (.str (indicatorOf kv.1))) "indicator" =
          some (.str (indicatorOf kv.1)) := by rw [Merge.lookup_setKey]; simp
      exact Merge.setKey_same _ _ _ this
    | _ => simp [hcvc, hv]
  · simp [hcvc]

/-- a checked pipeline is a fix-point of `Save.checkPipeline stepCheck` -/
theorem checkedPipeline_checkPipeline {o : Oracle} {fl : MachineFlags} {l r : ImgInfo} {Q : Dict}
    (hQ : CheckedPipeline o fl l r Q) :
    checkPipeline (stepCheck o fl l r) (stepsOf Q) = some (stepsOf Q) := by
  obtain ⟨hw, hf, _, _, hsteps⟩ := hQ
  apply checkPipeline_of_keys _ Q Q rfl (Merge.wfDict_keys_nodup Q hw)
  intro n v w hP hM
  rw [hP] at hM; cases hM
  have hmem := Merge.mem_of_lookup Q n v hP
  obtain ⟨kind, cfg, kd, hk, hv, hkd, hc, he⟩ := hsteps n v hmem
  have hfix : Merge.deepRw v = v := Merge.fixedDict_mem hf hmem
  subst hv
  exact stepCheck_intro (Merge.wfDict_mem hw hmem) hk hfix hkd hc he

/-- **the pipeline section `main` really saves (indicators written by `run`) completes to itself**, step by
    step, in `Save.checkPipeline`'s terms -/
theorem saved_pipeline_fixpoint_run {o : Oracle} {fl : MachineFlags} {P : Dict} {l r : ImgInfo}
    {m m' : CState} {out : Dict} (hfresh : C05W.FreshFor fl m) (hwf : Merge.wfDict P = true)
    (h : checkPipelineSection o fl registry [("pipeline", .obj P)] l r m = .ok (out, m')) :
    checkPipeline (stepCheck o fl l r) (stepsOf (runPipeline m'.pipelineCfg)) =
      some (stepsOf (runPipeline m'.pipelineCfg)) ∧
    Dict.keys (runPipeline m'.pipelineCfg) = Dict.keys P := by
  refine ⟨checkedPipeline_checkPipeline (runPipeline_checked (checked_of_checkPipelineSection hfresh hwf h)), ?_⟩
  rw [runPipeline_keys, saved_pipeline_names hfresh hwf h]

theorem runIndicators_shape (I : JVal) (M : Dict) :
    runIndicators [("input", I), ("pipeline", .obj M)] = [("input", I), ("pipeline", .obj (runPipeline M))] := by
  simp [runIndicators, Dict.lookup, Dict.setKey]

theorem runIndicators_idem (I : JVal) (M : Dict) :
    runIndicators (runIndicators [("input", I), ("pipeline", .obj M)]) = runIndicators [("input", I), ("pipeline", .obj M)] := by
  rw [runIndicators_shape, runIndicators_shape, runPipeline_idem]

/-- **The configuration `main` really saves — `check_conf`'s result, the indicators `run` wrote into it, the
    margins — is accepted again and completes to itself.**  As `saved_config_replays`, for the dictionary
    `main` holds when it calls `save_config`: between `check_conf` and `save_config`, `pandora.run` has
    overwritten the `indicator` of every confidence step (`SaveConfig.runIndicators`).  The second
    `check_conf` returns that dictionary (without `margins`): same input section, same steps, same
    parameters, the indicators `run` will write again. -/
theorem saved_config_replays_run (files : Files) (fl : MachineFlags) (user kvs P : Dict) (m m' : CState) (out : Dict)
    (hin : Dict.lookup user "input" = some (.obj kvs)) (hpi : Dict.lookup user "pipeline" = some (.obj P))
    (hnd : C17W.NodupSection kvs) (hfresh : C05W.FreshFor fl m) (hwf : Merge.wfDict P = true)
    (h : checkConf files inputSchemas fl registry user m = .ok (out, m'))
    (facts : MainFacts) (hw : facts.writesRightDisp = false) (margins : JVal)
    (m2 : CState) (hfresh2 : C05W.FreshFor fl m2) :
    ∃ m2', checkConf files inputSchemas fl registry (mainSavedDict facts (runIndicators out) margins) m2 =
      .ok (runIndicators out, m2') := by
  obtain ⟨L', R', M, hci, hcp, hout⟩ := (C05C.checkConf_ok_iff files fl user kvs P m m' out hin hpi hnd.1 hfresh hwf).1 h
  have hci2 := C17W.checkInputSection_idempotent hnd hci
  have hMeq : M = m'.pipelineCfg := by
    obtain ⟨hs, _, _⟩ := C05W.checkPipelineSection_structure hfresh hwf hcp
    simpa using hs
  have hchk := runPipeline_checked (checked_of_checkPipelineSection hfresh hwf hcp)
  rw [← hMeq] at hchk
  obtain ⟨m2', hcp2⟩ := checkPipelineSection_of_checked hchk m2 hfresh2
  refine ⟨m2', ?_⟩
  rw [checkConf_reads_two_keys files inputSchemas fl registry (runIndicators out)
    (mainSavedDict facts (runIndicators out) margins) m2
    (mainSavedDict_lookup facts hw _ margins "input" (by decide))
    (mainSavedDict_lookup facts hw _ margins "pipeline" (by decide))]
  rw [hout, runIndicators_shape]
  apply (C05C.checkConf_ok_iff files fl _ [("left", .obj L'), ("right", .obj R')] (runPipeline M) m2 m2' _
    (by simp [Dict.lookup]) (by simp [Dict.lookup]) (by simp [Dict.keys]) hfresh2 hchk.1).2
  exact ⟨L', R', runPipeline M, hci2, hcp2, rfl⟩

theorem source_saved_config_replays_run (files : Files) (user kvs P : Dict) (m m' : CState) (out : Dict)
    (hin : Dict.lookup user "input" = some (.obj kvs)) (hpi : Dict.lookup user "pipeline" = some (.obj P))
    (hnd : C17W.NodupSection kvs) (hwf : Merge.wfDict P = true)
    (h : checkConf files inputSchemas machineFlags registry user m = .ok (out, m'))
    (margins : JVal) (m2 : CState) :
    ∃ m2', checkConf files inputSchemas machineFlags registry
      (mainSavedDict Pandora.Generated.mainFacts (runIndicators out) margins) m2 = .ok (runIndicators out, m2') :=
  saved_config_replays_run files machineFlags user kvs P m m' out hin hpi hnd (Or.inr (by decide)) hwf h
    Pandora.Generated.mainFacts source_main_facts.1 margins m2 (Or.inr (by decide))

/-! #### for either value of the fact `runWritesIndicator` the translator reads off `state_machine.py` -/

theorem afterRun_shape (w : Bool) (I : JVal) (M : Dict) :
    afterRun w [("input", I), ("pipeline", .obj M)] = [("input", I), ("pipeline", .obj (afterRunPipeline w M))] := by
  cases w
  · rfl
  · simp [afterRun, afterRunPipeline, runIndicators_shape]

theorem afterRunPipeline_idem (w : Bool) (M : Dict) :
    afterRunPipeline w (afterRunPipeline w M) = afterRunPipeline w M := by
  cases w
  · rfl
  · simp [afterRunPipeline, runPipeline_idem]

theorem afterRunPipeline_keys (w : Bool) (M : Dict) : Dict.keys (afterRunPipeline w M) = Dict.keys M := by
  cases w
  · rfl
  · simp [afterRunPipeline, runPipeline_keys]

/-- **the saved configuration completes to itself, whatever the translator found in `run`**: with
    `w = Generated.runWritesIndicator` this is the statement about the `main` of the source -/
theorem saved_config_replays_any (w : Bool) (files : Files) (fl : MachineFlags) (user kvs P : Dict) (m m' : CState)
    (out : Dict) (hin : Dict.lookup user "input" = some (.obj kvs)) (hpi : Dict.lookup user "pipeline" = some (.obj P))
    (hnd : C17W.NodupSection kvs) (hfresh : C05W.FreshFor fl m) (hwf : Merge.wfDict P = true)
    (h : checkConf files inputSchemas fl registry user m = .ok (out, m'))
    (facts : MainFacts) (hw : facts.writesRightDisp = false) (margins : JVal)
    (m2 : CState) (hfresh2 : C05W.FreshFor fl m2) :
    ∃ m2', checkConf files inputSchemas fl registry (mainSavedDict facts (afterRun w out) margins) m2 =
      .ok (afterRun w out, m2') := by
  cases w
  · exact saved_config_replays files fl user kvs P m m' out hin hpi hnd hfresh hwf h facts hw margins m2 hfresh2
  · exact saved_config_replays_run files fl user kvs P m m' out hin hpi hnd hfresh hwf h facts hw margins m2 hfresh2

/-- the saved configuration of the source: `main` as regenerated (`mainFacts`), `run` as regenerated
    (`runWritesIndicator`), `update_conf` and machine of the source (`machineFlags`) -/
theorem source_saved_config_replays_any (files : Files) (user kvs P : Dict) (m m' : CState) (out : Dict)
    (hin : Dict.lookup user "input" = some (.obj kvs)) (hpi : Dict.lookup user "pipeline" = some (.obj P))
    (hnd : C17W.NodupSection kvs) (hwf : Merge.wfDict P = true)
    (h : checkConf files inputSchemas machineFlags registry user m = .ok (out, m'))
    (margins : JVal) (m2 : CState) :
    ∃ m2', checkConf files inputSchemas machineFlags registry
      (mainSavedDict Pandora.Generated.mainFacts (afterRun Pandora.Generated.runWritesIndicator out) margins) m2 =
        .ok (afterRun Pandora.Generated.runWritesIndicator out, m2') :=
  saved_config_replays_any _ files machineFlags user kvs P m m' out hin hpi hnd (Or.inr (by decide)) hwf h
    Pandora.Generated.mainFacts source_main_facts.1 margins m2 (Or.inr (by decide))

/-- today `run` does write the indicators (the model of §3b is the one in force) -/
theorem source_run_writes_indicator : Pandora.Generated.runWritesIndicator = true := by decide

/-- without a confidence step nothing is written by `run`: the saved pipeline is `check_conf`'s -/
theorem runPipeline_id_of_no_confidence (M : Dict)
    (h : ∀ kv ∈ M, Machine.kindOf kv.1 ≠ "cost_volume_confidence") : runPipeline M = M := by
  unfold runPipeline
  conv => rhs; rw [← List.map_id M]
  apply List.map_congr_left
  intro kv hkv
  simp [runStep, h kv hkv]

/-! ### 3c. C19's abstract replay specification on the configuration `main` really saves -/

/-- **C19's replay specification, hypothesis-free for the source**: for every configuration `check_conf`
    accepts, the dictionary `main` saves (indicators written by `run`, margins added) reads — through the
    adapter — as `Save.mainSaved` of two sides `l`, `r` and the rewritten pipeline, and all clauses of
    `Save.specRefeed` hold of it: accepted when fed back, completes to itself, the second run hands
    `create_dataset_from_inputs` the same sections, the margins are recorded.  `hacc` of `C19.refeed_spec`
    is discharged by C17's acceptance theorem, `hm` / `hw` by the generated `mainFacts`. -/
theorem source_refeed_spec_of_checkConf (files : Files) (fl : MachineFlags) (user kvs P : Dict) (m m' : CState)
    (out : Dict) (hin : Dict.lookup user "input" = some (.obj kvs)) (hpi : Dict.lookup user "pipeline" = some (.obj P))
    (hnd : (Dict.keys kvs).Nodup) (hfresh : C05W.FreshFor fl m) (hwf : Merge.wfDict P = true)
    (h : checkConf files inputSchemas fl registry user m = .ok (out, m')) (margins : JVal) :
    ∃ l r M, savedOfDict (mainSavedDict Pandora.Generated.mainFacts (runIndicators out) margins) =
        some (mainSaved Pandora.Generated.mainFacts l r (runPipeline M) margins) ∧
      Dict.lookup out "pipeline" = some (.obj M) ∧
      schemaOk l r = true ∧
      (specRefeed l r (mainSaved Pandora.Generated.mainFacts l r (runPipeline M) margins)).all (·.2) = true := by
  obtain ⟨L', R', M, hci, _, hout⟩ := (C05C.checkConf_ok_iff files fl user kvs P m m' out hin hpi hnd hfresh hwf).1 h
  obtain ⟨_, _, L2, R2, _, _, _, _, _, hform, hshape⟩ := (C17W.checkInputSection_ok_iff files fl kvs _ hnd).1 hci
  simp only [List.cons.injEq, Prod.mk.injEq, JVal.obj.injEq, true_and, and_true] at hshape
  obtain ⟨rfl, rfl⟩ := hshape
  obtain ⟨l, r, hl, hr, hacc, ld, rd, hld, hrd, hdl, hdr⟩ := accepted_sides hform
  refine ⟨l, r, M, ?_, by rw [hout]; simp [Dict.lookup], hacc, ?_⟩
  · rw [hout, runIndicators_shape]
    exact savedOfDict_mainSaved _ L' R' (runPipeline M) l r ld rd hl hr hld hrd hdl hdr margins
  · exact C19.source_refeed_spec l r (runPipeline M) margins hacc (fun hw => by rw [source_main_facts.1] at hw; cases hw)

/-- **the two models of feeding the saved file back agree**: C19's abstract `refeedInput` on the adapter's
    reading of the saved dictionary accepts and returns the adapter's reading of the input section the
    dictionary model `checkConf` returns for that same saved dictionary -/
theorem refeed_models_agree (files : Files) (fl : MachineFlags) (user kvs P : Dict) (m m' : CState)
    (out : Dict) (hin : Dict.lookup user "input" = some (.obj kvs)) (hpi : Dict.lookup user "pipeline" = some (.obj P))
    (hnd : C17W.NodupSection kvs) (hfresh : C05W.FreshFor fl m) (hwf : Merge.wfDict P = true)
    (h : checkConf files inputSchemas fl registry user m = .ok (out, m')) (margins : JVal)
    (m2 : CState) (hfresh2 : C05W.FreshFor fl m2) :
    ∃ s out2 m2' L2 R2,
      savedOfDict (mainSavedDict Pandora.Generated.mainFacts (runIndicators out) margins) = some s ∧
      checkConf files inputSchemas fl registry
        (mainSavedDict Pandora.Generated.mainFacts (runIndicators out) margins) m2 = .ok (out2, m2') ∧
      sideDict out2 "left" = some L2 ∧ sideDict out2 "right" = some R2 ∧
      refeedInput s = (sideOfDict L2).bind (fun l2 => (sideOfDict R2).map (fun r2 => (l2, r2))) ∧
      (refeedInput s).isSome = true := by
  obtain ⟨m2', h2⟩ := saved_config_replays_run files fl user kvs P m m' out hin hpi hnd hfresh hwf h
    Pandora.Generated.mainFacts source_main_facts.1 margins m2 hfresh2
  obtain ⟨L', R', M, hci, _, hout⟩ := (C05C.checkConf_ok_iff files fl user kvs P m m' out hin hpi hnd.1 hfresh hwf).1 h
  obtain ⟨_, _, L2, R2, _, _, _, _, _, hform, hshape⟩ := (C17W.checkInputSection_ok_iff files fl kvs _ hnd.1).1 hci
  simp only [List.cons.injEq, Prod.mk.injEq, JVal.obj.injEq, true_and, and_true] at hshape
  obtain ⟨rfl, rfl⟩ := hshape
  obtain ⟨l, r, hl, hr, hacc, ld, rd, hld, hrd, hdl, hdr⟩ := accepted_sides hform
  refine ⟨mainSaved Pandora.Generated.mainFacts l r (runPipeline M) margins, runIndicators out, m2', L', R', ?_, h2, ?_, ?_, ?_, ?_⟩
  · rw [hout, runIndicators_shape]
    exact savedOfDict_mainSaved _ L' R' (runPipeline M) l r ld rd hl hr hld hrd hdl hdr margins
  · rw [hout, runIndicators_shape]; simp [sideDict, Dict.lookup]
  · rw [hout, runIndicators_shape]; simp [sideDict, Dict.lookup]
  · simp [refeedInput, mainSaved, source_main_facts.1, C19.checkInput_asUser, hacc, hl, hr]
  · simp [refeedInput, mainSaved, source_main_facts.1, C19.checkInput_asUser, hacc]

/-! ### 4. Non-vacuity: a concrete run -/

/-- a user configuration with a `"NaN"` to rewrite, defaults to add on both sides and in every step, an
    integer interval (the case the former `main` broke) and a validation step (two checking rounds) -/
def exUser : Dict :=
  [("input", .obj [("left", .obj [("img", .str "l.tif"), ("disp", .list [.int (-3), .int 2]), ("nodata", .str "NaN")]),
                   ("right", .obj [("img", .str "r.tif")])]),
   ("pipeline", .obj C05W.userPipeline),
   ("comment", .str "not read by check_conf")]

def exOut : Dict :=
  [("input", .obj [
     ("left", .obj [("nodata", .float .nan), ("mask", .null), ("classif", .null), ("segm", .null),
                    ("img", .str "l.tif"), ("disp", .list [.int (-3), .int 2])]),
     ("right", .obj [("nodata", .int (-9999)), ("mask", .null), ("classif", .null), ("segm", .null),
                     ("disp", .null), ("img", .str "r.tif")])]),
   ("pipeline", .obj [
     ("matching_cost", .obj [("matching_cost_method", .str "zncc"), ("window_size", .int 7),
       ("subpix", .int 1), ("band", .null), ("step", .int 1)]),
     ("disparity", .obj [("invalid_disparity", .float .nan), ("disparity_method", .str "wta")]),
     ("filter", .obj [("filter_method", .str "median"), ("filter_size", .int 3)]),
     ("validation", .obj [("validation_method", .str "cross_checking_accurate"),
       ("cross_checking_threshold", .float (.num 1))])])]

def resultOf : Except Err (Dict × CState) → Option Dict
  | .ok (cfg, _) => some cfg
  | .error _ => none

/-- the hypotheses of `source_saved_config_replays` are satisfiable by a non-trivial input, and its
    conclusion is seen on it: the first run completes `exUser` to `exOut`; the file `main` saves is `exOut`
    plus margins; fed back it is accepted and completes to `exOut` -/
example :
    resultOf (checkConf C17.fs inputSchemas machineFlags registry exUser {}) = some exOut ∧
    Merge.wfDict C05W.userPipeline = true ∧
    mainSavedDict Pandora.Generated.mainFacts exOut (.str "margins") = exOut ++ [("margins", .str "margins")] ∧
    resultOf (checkConf C17.fs inputSchemas machineFlags registry
      (mainSavedDict Pandora.Generated.mainFacts exOut (.str "margins")) {}) = some exOut := by
  decide

example : C17W.NodupSection [("left", .obj [("img", .str "l.tif"), ("disp", .list [.int (-3), .int 2]), ("nodata", .str "NaN")]),
                            ("right", .obj [("img", .str "r.tif")])] := by
  refine ⟨by decide, ?_⟩
  intro k S h
  simp only [Dict.lookup] at h
  split at h
  · cases h; decide
  · split at h
    · cases h; decide
    · cases h

/-- the adapter on the concrete run: the saved dictionary reads as `Save.mainSaved` of the two sides, and
    C19's abstract refeed accepts it; with the former `main` (`writesRightDisp`) the dictionary model
    refuses the saved file, as C19's `refeed_rejected_when_written` says of the abstract one -/
example :
    (savedOfDict (mainSavedDict Pandora.Generated.mainFacts exOut .null)).map (fun s => (s.left, s.right)) =
      some ({ img := "l.tif", nodata := .nan, mask := none, classif := none, segm := none, disp := .ints [-3, 2] },
            { img := "r.tif", nodata := .int (-9999), mask := none, classif := none, segm := none, disp := .null }) ∧
    ((savedOfDict (mainSavedDict Pandora.Generated.mainFacts exOut .null)).bind refeedInput).isSome = true ∧
    ((savedOfDict (mainSavedDict { writesRightDisp := true, addsMargins := true } exOut .null)).map
      (fun s => s.right.disp)) = some (.ints [-2, 3]) ∧
    ((savedOfDict (mainSavedDict { writesRightDisp := true, addsMargins := true } exOut .null)).bind refeedInput) = none ∧
    resultOf (checkConf C17.fs inputSchemas machineFlags registry
      (mainSavedDict { writesRightDisp := true, addsMargins := true } exOut .null) {}) = none := by
  decide

/-- a suffixed confidence step: `check_conf` completes it with the placeholder `indicator: ""`, `run` writes
    `".amb"` into the dictionary `main` saves, and the saved dictionary completes to itself — not to the first
    `check_conf` result (`saved_config_replays_run`; cf. the real `pandora.main`, DESIGN_NOTES/C19.md) -/
example :
    let user : Dict :=
      [("input", .obj [("left", .obj [("img", .str "l.tif"), ("disp", .list [.int (-3), .int 2])]),
                       ("right", .obj [("img", .str "r.tif")])]),
       ("pipeline", .obj [("matching_cost", .obj [("matching_cost_method", .str "census")]),
                          ("cost_volume_confidence.amb", .obj [("confidence_method", .str "ambiguity")]),
                          ("disparity", .obj [("disparity_method", .str "wta")])])]
    let indicatorIn (d : Option Dict) : Option JVal :=
      d.bind fun d => (Dict.lookup d "pipeline").bind fun p =>
        match p with
        | .obj M => (Dict.lookup M "cost_volume_confidence.amb").bind fun st =>
            match st with | .obj c => Dict.lookup c "indicator" | _ => none
        | _ => none
    let first := resultOf (checkConf C17.fs inputSchemas machineFlags registry user {})
    let saved := first.map fun out => mainSavedDict Pandora.Generated.mainFacts (runIndicators out) .null
    indicatorIn first = some (.str "") ∧ indicatorIn saved = some (.str ".amb") ∧
    (saved.bind fun s => resultOf (checkConf C17.fs inputSchemas machineFlags registry s {})) = first.map runIndicators ∧
    first.map runIndicators ≠ first := by
  decide +kernel

/-- `stepCheck` on the concrete steps: the user's filter step completes, the completed step is a fix-point -/
example :
    stepCheck noOracle machineFlags C05.monoL C05.monoR ("filter", .obj [("filter_method", .str "median")]) =
      some ("filter", .obj [("filter_method", .str "median"), ("filter_size", .int 3)]) ∧
    stepCheck noOracle machineFlags C05.monoL C05.monoR
      ("filter", .obj [("filter_method", .str "median"), ("filter_size", .int 3)]) =
      some ("filter", .obj [("filter_method", .str "median"), ("filter_size", .int 3)]) ∧
    stepCheck noOracle machineFlags C05.monoL C05.monoR ("filter", .obj [("filter_method", .str "median"),
      ("filter_size", .int 4)]) = none := by
  decide

end Pandora.C19C05
