/-
  C19 ∘ C05 / C17 — the configuration `main` saves is accepted again by `check_conf` and completes to
  itself, with the idempotence of the step checks *proved* (C05) instead of assumed.

  `Properties/C19.lean` states the replay of the saved configuration on the abstract configuration of
  `Model/Save.lean` (`SideCfg`, `Saved`), with the acceptance of the input section (`schemaOk`) and
  the idempotence of the step checks (`hidem` of `checkPipeline_fixpoint`) as hypotheses.
  `Properties/C05Whole.lean`, `C17Whole.lean`, `C05Conf.lean` prove, for the model of `check_conf` on
  Python dictionaries (`Model/Config.lean`, `Dict` / `JVal`) instantiated with the tables regenerated
  from the source, that `check_conf` is idempotent.  This file connects the two:

    1. `mainSavedDict`            what `main` does to the dictionary `check_conf` returned before
                                  `save_config` (the model of `Save.mainSaved`, on dictionaries)
       `saved_config_replays`     the saved dictionary is accepted by `checkConf` and completes to the
                                  first run's result — no hypothesis on the step checks; the only facts
                                  about `main` that are used are the two generated `mainFacts`
                                  (`source_saved_config_replays`)
       `saved_config_is_result_plus_margins`  the saved file = `check_conf`'s result followed by `margins`
    2. the adapter `sideOfDict` / `savedOfDict` from dictionaries to `Save.SideCfg` / `Save.Saved`:
       `accepted_sides`           an input section accepted by `checkInputSection` reads as two `SideCfg`
                                  satisfying `Save.schemaOk` (C19's hypothesis `hacc`, discharged)
       `savedOfDict_mainSaved`    the adapter commutes with `main` (for both values of the facts)
       `source_refeed_spec_of_checkConf`   C19's `specRefeed` holds of the saved configuration of every
                                  accepted run — hypothesis-free
       `refeed_models_agree`      C19's abstract `refeedInput` and the dictionary `checkConf` give the
                                  same input sections for the saved file
    3. `stepCheck`                the check of one step as a function `S → Option S` (the `chk` of
                                  `Save.checkPipeline`), `stepCheck_idempotent` (C19's `hidem`, proved from
                                  C05's `construct_idem`), `checkPipelineSection_checkPipeline` (the real
                                  pipeline section is an instance), `saved_pipeline_fixpoint`,
                                  `saved_pipeline_names`
-/
import PandoraModel.Properties.C19
import PandoraModel.Properties.C05Conf

namespace Pandora.C19C05
open Pandora Pandora.Config Pandora.ConfigSpec Pandora.Save Pandora.Generated.Schemas

/-! ### 1. `main` on dictionaries -/

/-- a JSON list of integers (Python: bools are integers) -/
def intsOfJ : List JVal → Option (List Int)
  | [] => some []
  | a :: rest =>
    match intOf? a, intsOfJ rest with
    | some x, some xs => some (x :: xs)
    | _, _ => none

/-- Python `[-left[1], -left[0]]` when `right is None` and the left disparity is not a path
    (`-True` is `-1`; the list is one of integers in every configuration `check_conf` accepted);
    anything else: `right` unchanged -/
def derivedRightJ (ld rd : JVal) : JVal :=
  match rd, ld with
  | .null, .list l =>
    match intsOfJ l with
    | some (x :: y :: _) => .list [.int (-y), .int (-x)]
    | _ => rd
  | _, _ => rd

/-- `cfg["input"][side]` -/
def sideDict (cfg : Dict) (side : String) : Option Dict :=
  match Dict.lookup cfg "input" with
  | some (.obj I) =>
    match Dict.lookup I side with
    | some (.obj S) => some S
    | _ => none
  | _ => none

/-- `cfg["input"]["right"]["disp"] = v` -/
def setRightDisp (cfg : Dict) (v : JVal) : Dict :=
  match Dict.lookup cfg "input" with
  | some (.obj I) =>
    match Dict.lookup I "right" with
    | some (.obj R) => Dict.setKey cfg "input" (.obj (Dict.setKey I "right" (.obj (Dict.setKey R "disp" v))))
    | _ => cfg
  | _ => cfg

/-- what the former `main` wrote into the configuration it saved -/
def writeDerived (cfg : Dict) : Dict :=
  match sideDict cfg "left", sideDict cfg "right" with
  | some L, some R =>
    match Dict.lookup L "disp", Dict.lookup R "disp" with
    | some ld, some rd => setRightDisp cfg (derivedRightJ ld rd)
    | _, _ => cfg
  | _, _ => cfg

/-- **Model of `main` from `check_conf`'s result to `save_config`, on dictionaries**: the two things the
    translator reads off `pandora/__init__.py` (`Save.MainFacts`) -/
def mainSavedDict (facts : MainFacts) (cfg : Dict) (margins : JVal) : Dict :=
  let cfg1 := if facts.writesRightDisp then writeDerived cfg else cfg
  if facts.addsMargins then Dict.setKey cfg1 "margins" margins else cfg1

/-- `check_conf` reads the keys `input` and `pipeline` of the user's dictionary and nothing else -/
theorem checkConf_reads_two_keys (files : Files) (sch : InputSchemas) (fl : MachineFlags) (reg : List KindDesc)
    (u u' : Dict) (m : CState)
    (hi : Dict.lookup u' "input" = Dict.lookup u "input")
    (hp : Dict.lookup u' "pipeline" = Dict.lookup u "pipeline") :
    checkConf files sch fl reg u' m = checkConf files sch fl reg u m := by
  unfold checkConf getConfigInput getConfigPipeline
  rw [hi, hp]

theorem lookup_setKey_ne (d : Dict) (k k' : String) (v : JVal) (h : k ≠ k') :
    Dict.lookup (Dict.setKey d k v) k' = Dict.lookup d k' := by
  rw [Merge.lookup_setKey]
  simp [h]

/-- with the facts of the repaired `main`, the saved dictionary has the `input` and `pipeline` of
    `check_conf`'s result -/
theorem mainSavedDict_lookup (facts : MainFacts) (hw : facts.writesRightDisp = false) (cfg : Dict) (margins : JVal)
    (k : String) (hk : k ≠ "margins") :
    Dict.lookup (mainSavedDict facts cfg margins) k = Dict.lookup cfg k := by
  unfold mainSavedDict
  simp only [hw, Bool.false_eq_true, if_false]
  by_cases ha : facts.addsMargins = true
  · simp only [ha, if_true]
    exact lookup_setKey_ne _ _ _ _ (Ne.symm hk)
  · simp [ha]

/-- **The configuration `main` saves is accepted again and completes to the first run's result.**
    For every user configuration `check_conf` accepts (on a machine that carries no step over), the
    dictionary `main` saves — `check_conf`'s result with the machine's margins added, the derived right
    interval *not* written into it — is accepted by `check_conf` on a second (fresh) machine, and the
    result of that second check is the result of the first: same input section, same steps in the same
    order with the same parameters.  No hypothesis on the step checks: their idempotence is C05's
    theorem (`checkConf_idempotent`); `margins` may be any value (`check_conf` never reads it). -/
theorem saved_config_replays (files : Files) (fl : MachineFlags) (user kvs P : Dict) (m m' : CState) (out : Dict)
    (hin : Dict.lookup user "input" = some (.obj kvs)) (hpi : Dict.lookup user "pipeline" = some (.obj P))
    (hnd : C17W.NodupSection kvs) (hfresh : C05W.FreshFor fl m) (hwf : Merge.wfDict P = true)
    (h : checkConf files inputSchemas fl registry user m = .ok (out, m'))
    (facts : MainFacts) (hw : facts.writesRightDisp = false) (margins : JVal)
    (m2 : CState) (hfresh2 : C05W.FreshFor fl m2) :
    ∃ m2', checkConf files inputSchemas fl registry (mainSavedDict facts out margins) m2 = .ok (out, m2') := by
  obtain ⟨m2', h2⟩ := C05C.checkConf_idempotent files fl user kvs P m m' out hin hpi hnd hfresh hwf h m2 hfresh2
  refine ⟨m2', ?_⟩
  rw [checkConf_reads_two_keys files inputSchemas fl registry out (mainSavedDict facts out margins) m2
    (mainSavedDict_lookup facts hw out margins "input" (by decide))
    (mainSavedDict_lookup facts hw out margins "pipeline" (by decide))]
  exact h2

/-- the two facts about `main` the replay uses, as regenerated from `pandora/__init__.py` on this run:
    the derived right interval is not written into the saved configuration, the margins are -/
theorem source_main_facts :
    Pandora.Generated.mainFacts.writesRightDisp = false ∧ Pandora.Generated.mainFacts.addsMargins = true := by
  decide

/-- **`saved_config_replays` for the `main` of the source** and the `update_conf` / machine of the source
    (`machineFlags`): every machine is fresh (`check_conf` empties `pipeline_cfg`). -/
theorem source_saved_config_replays (files : Files) (user kvs P : Dict) (m m' : CState) (out : Dict)
    (hin : Dict.lookup user "input" = some (.obj kvs)) (hpi : Dict.lookup user "pipeline" = some (.obj P))
    (hnd : C17W.NodupSection kvs) (hwf : Merge.wfDict P = true)
    (h : checkConf files inputSchemas machineFlags registry user m = .ok (out, m'))
    (margins : JVal) (m2 : CState) :
    ∃ m2', checkConf files inputSchemas machineFlags registry
      (mainSavedDict Pandora.Generated.mainFacts out margins) m2 = .ok (out, m2') :=
  saved_config_replays files machineFlags user kvs P m m' out hin hpi hnd (Or.inr (by decide)) hwf h
    Pandora.Generated.mainFacts source_main_facts.1 margins m2 (Or.inr (by decide))

/-- the saved file is `check_conf`'s result followed by the `margins` entry -/
theorem saved_config_is_result_plus_margins (files : Files) (fl : MachineFlags) (user kvs P : Dict) (m m' : CState)
    (out : Dict) (hin : Dict.lookup user "input" = some (.obj kvs)) (hpi : Dict.lookup user "pipeline" = some (.obj P))
    (hnd : (Dict.keys kvs).Nodup) (hfresh : C05W.FreshFor fl m) (hwf : Merge.wfDict P = true)
    (h : checkConf files inputSchemas fl registry user m = .ok (out, m')) (margins : JVal) :
    ∃ L' R' M, out = [("input", .obj [("left", .obj L'), ("right", .obj R')]), ("pipeline", .obj M)] ∧
      mainSavedDict Pandora.Generated.mainFacts out margins =
        [("input", .obj [("left", .obj L'), ("right", .obj R')]), ("pipeline", .obj M), ("margins", margins)] := by
  obtain ⟨L', R', M, _, _, hout⟩ := (C05C.checkConf_ok_iff files fl user kvs P m m' out hin hpi hnd hfresh hwf).1 h
  refine ⟨L', R', M, hout, ?_⟩
  subst hout
  simp [mainSavedDict, source_main_facts.1, source_main_facts.2, Dict.setKey]

/-! ### 2. The adapter from dictionaries to `Save.SideCfg` / `Save.Saved` -/

/-- `nodata` of a completed side as `Save.NoData` (an integer, NaN, or anything else) -/
def noDataOfJ : JVal → NoData
  | .int i => .int i
  | .float .nan => .nan
  | _ => .other

/-- `mask` / `classif` / `segm`: `None` or a path; `none` = not representable in `Save.SideCfg` -/
def auxOfJ : JVal → Option (Option String)
  | .null => some none
  | .str s => some (some s)
  | _ => none

/-- the disparities of a side as `Save.DispCfg` -/
def dispOfJ : JVal → DispCfg
  | .null => .null
  | .str s => .path s
  | .list l =>
    match intsOfJ l with
    | some xs => .ints xs
    | none => .other
  | _ => .other

/-- one side of a completed `input` section read as `Save.SideCfg`: the six keys must be present,
    `img` a string, the auxiliary images `None` or strings -/
def sideOfDict (S : Dict) : Option SideCfg :=
  match Dict.lookup S "img", Dict.lookup S "nodata", Dict.lookup S "mask", Dict.lookup S "classif",
        Dict.lookup S "segm", Dict.lookup S "disp" with
  | some (.str img), some nd, some mk, some cl, some sg, some d =>
    match auxOfJ mk, auxOfJ cl, auxOfJ sg with
    | some mk', some cl', some sg' =>
      some { img := img, nodata := noDataOfJ nd, mask := mk', classif := cl', segm := sg', disp := dispOfJ d }
    | _, _, _ => none
  | _, _, _, _, _, _ => none

theorem sideOfDict_eq {S : Dict} {img : String} {nd mk cl sg d : JVal} {mk' cl' sg' : Option String}
    (h1 : Dict.lookup S "img" = some (.str img)) (h2 : Dict.lookup S "nodata" = some nd)
    (h3 : Dict.lookup S "mask" = some mk) (h4 : Dict.lookup S "classif" = some cl)
    (h5 : Dict.lookup S "segm" = some sg) (h6 : Dict.lookup S "disp" = some d)
    (a3 : auxOfJ mk = some mk') (a4 : auxOfJ cl = some cl') (a5 : auxOfJ sg = some sg') :
    sideOfDict S = some { img := img, nodata := noDataOfJ nd, mask := mk', classif := cl', segm := sg',
                          disp := dispOfJ d } := by
  simp [sideOfDict, h1, h2, h3, h4, h5, h6, a3, a4, a5]

theorem auxOk_aux {files : Files} {im : FileInfo} {x : Option JVal} (h : C17W.auxOk files im x = true) :
    ∃ v a, x = some v ∧ auxOfJ v = some a := by
  cases x with
  | none => simp [C17W.auxOk] at h
  | some v =>
    cases v <;> simp [C17W.auxOk] at h
    · exact ⟨_, none, rfl, rfl⟩
    · exact ⟨_, some _, rfl, rfl⟩

theorem nodataOk_adapter {v : JVal} (h : C17W.nodataOk v = true) : nodataOk (noDataOfJ v) = true := by
  cases v <;> simp [C17W.nodataOk] at h
  · rfl
  · rename_i f
    cases f <;> simp at h
    rfl

theorem sideBase_facts {files : Files} {S : Dict} {im : FileInfo} (h : C17W.sideBaseOk files S im = true) :
    ∃ nd mk cl sg mk' cl' sg', Dict.lookup S "nodata" = some nd ∧ nodataOk (noDataOfJ nd) = true ∧
      Dict.lookup S "mask" = some mk ∧ Dict.lookup S "classif" = some cl ∧ Dict.lookup S "segm" = some sg ∧
      auxOfJ mk = some mk' ∧ auxOfJ cl = some cl' ∧ auxOfJ sg = some sg' := by
  simp only [C17W.sideBaseOk, Bool.and_eq_true] at h
  obtain ⟨⟨⟨⟨_, hn⟩, hm⟩, hc⟩, hs⟩ := h
  obtain ⟨mk, mk', e3, a3⟩ := auxOk_aux hm
  obtain ⟨cl, cl', e4, a4⟩ := auxOk_aux hc
  obtain ⟨sg, sg', e5, a5⟩ := auxOk_aux hs
  cases hnd : Dict.lookup S "nodata" with
  | none => simp [hnd] at hn
  | some nd =>
    simp only [hnd] at hn
    exact ⟨nd, mk, cl, sg, mk', cl', sg', rfl, nodataOk_adapter hn, e3, e4, e5, a3, a4, a5⟩

theorem rangeOk_adapter {items : List JVal} (h : C17W.rangeOk (.list items) = true) :
    ∃ x y, dispOfJ (.list items) = .ints [x, y] ∧ x ≤ y := by
  match items with
  | [a, b] =>
    simp only [C17W.rangeOk] at h
    cases ha : intOf? a <;> cases hb : intOf? b <;> simp [ha, hb] at h
    exact ⟨_, _, by simp [dispOfJ, intsOfJ, ha, hb], h⟩
  | [] => simp [C17W.rangeOk] at h
  | [_] => simp [C17W.rangeOk] at h
  | _ :: _ :: _ :: _ => simp [C17W.rangeOk] at h

theorem dispsOk_adapter {files : Files} {iml imr : FileInfo} {x y : Option JVal}
    (h : C17W.dispsOk files iml imr x y = true) :
    ∃ ld rd, x = some ld ∧ y = some rd ∧ dispOk (dispOfJ ld) (dispOfJ rd) = true := by
  cases x with
  | none => simp [C17W.dispsOk] at h
  | some ld =>
    cases y with
    | none => cases ld <;> simp [C17W.dispsOk] at h
    | some rd =>
      refine ⟨ld, rd, rfl, rfl, ?_⟩
      cases ld with
      | list items =>
        cases rd <;> simp [C17W.dispsOk] at h
        obtain ⟨a, b, hd, hab⟩ := rangeOk_adapter h
        rw [hd]
        simp [dispOk, dispOfJ, hab]
      | str p => cases rd <;> simp [C17W.dispsOk] at h <;> simp [dispOk, dispOfJ]
      | _ => simp [C17W.dispsOk] at h

/-- **C19's hypothesis `hacc`, discharged**: the two sides of an input section in one of the documented
    forms (what `checkInputSection` accepts, `C17W.checkInputSection_ok_iff`) read as two `SideCfg` that
    satisfy `Save.schemaOk` -/
theorem accepted_sides {files : Files} {L R : Dict} (h : C17W.formOk files L R = true) :
    ∃ l r, sideOfDict L = some l ∧ sideOfDict R = some r ∧ schemaOk l r = true ∧
      (∃ ld rd, Dict.lookup L "disp" = some ld ∧ Dict.lookup R "disp" = some rd ∧
        l.disp = dispOfJ ld ∧ r.disp = dispOfJ rd) := by
  unfold C17W.formOk at h
  cases hl : C17W.imgOf files L with
  | none => simp [hl] at h
  | some iml =>
    cases hr : C17W.imgOf files R with
    | none => simp [hl, hr] at h
    | some imr =>
      simp only [hl, hr, Bool.and_eq_true] at h
      obtain ⟨⟨⟨_, hLb⟩, hRb⟩, hd⟩ := h
      obtain ⟨p, hp, _⟩ := (C17W.imgOf_some files L iml).1 hl
      obtain ⟨q, hq, _⟩ := (C17W.imgOf_some files R imr).1 hr
      obtain ⟨nd, mk, cl, sg, mk', cl', sg', l2, ln, l3, l4, l5, la3, la4, la5⟩ := sideBase_facts hLb
      obtain ⟨nd2, mk2, cl2, sg2, mk2', cl2', sg2', r2, rn, r3, r4, r5, ra3, ra4, ra5⟩ := sideBase_facts hRb
      obtain ⟨ld, rd, l6, r6, hdo⟩ := dispsOk_adapter hd
      refine ⟨_, _, sideOfDict_eq hp l2 l3 l4 l5 l6 la3 la4 la5, sideOfDict_eq hq r2 r3 r4 r5 r6 ra3 ra4 ra5, ?_,
        ld, rd, l6, r6, rfl, rfl⟩
      simp [schemaOk, ln, rn, hdo]

/-- a saved `cfg/config.json` read as `Save.Saved` (pipeline: the dictionary of steps; margins: the
    value under `margins`, if any) -/
def savedOfDict (d : Dict) : Option (Saved Dict JVal) :=
  match sideDict d "left", sideDict d "right", Dict.lookup d "pipeline" with
  | some L, some R, some (.obj M) =>
    match sideOfDict L, sideOfDict R with
    | some l, some r => some { left := l, right := r, pipeline := M, margins := Dict.lookup d "margins" }
    | _, _ => none
  | _, _, _ => none

theorem dispOfJ_derived (ld rd : JVal) : dispOfJ (derivedRightJ ld rd) = derivedRight (dispOfJ ld) (dispOfJ rd) := by
  cases rd with
  | null =>
    cases ld with
    | list l =>
      simp only [derivedRightJ, dispOfJ]
      cases hl : intsOfJ l with
      | none => simp [derivedRight]
      | some xs =>
        match xs with
        | [] => simp [derivedRight]
        | [_] => simp [derivedRight]
        | x :: y :: _ => simp [derivedRight, intsOfJ, intOf?]
    | _ => simp [derivedRightJ, dispOfJ, derivedRight]
  | list l =>
    simp only [derivedRightJ, dispOfJ]
    cases intsOfJ l <;> simp [derivedRight]
  | _ => simp [derivedRightJ, dispOfJ, derivedRight]

theorem sideOfDict_some {S : Dict} {s : SideCfg} (h : sideOfDict S = some s) :
    ∃ img nd mk cl sg d mk' cl' sg',
      Dict.lookup S "img" = some (.str img) ∧ Dict.lookup S "nodata" = some nd ∧
      Dict.lookup S "mask" = some mk ∧ Dict.lookup S "classif" = some cl ∧
      Dict.lookup S "segm" = some sg ∧ Dict.lookup S "disp" = some d ∧
      auxOfJ mk = some mk' ∧ auxOfJ cl = some cl' ∧ auxOfJ sg = some sg' ∧
      s = { img := img, nodata := noDataOfJ nd, mask := mk', classif := cl', segm := sg', disp := dispOfJ d } := by
  unfold sideOfDict at h
  split at h
  · rename_i img nd mk cl sg d h1 h2 h3 h4 h5 h6
    split at h
    · rename_i mk' cl' sg' a3 a4 a5
      simp only [Option.some.injEq] at h
      exact ⟨img, nd, mk, cl, sg, d, mk', cl', sg', h1, h2, h3, h4, h5, h6, a3, a4, a5, h.symm⟩
    · cases h
  · cases h

/-- `S["disp"] = v` on a side: only the disparities of the `SideCfg` change -/
theorem sideOfDict_setDisp (S : Dict) (v : JVal) (s : SideCfg) (hs : sideOfDict S = some s) :
    sideOfDict (Dict.setKey S "disp" v) = some { s with disp := dispOfJ v } := by
  obtain ⟨img, nd, mk, cl, sg, d, mk', cl', sg', h1, h2, h3, h4, h5, h6, a3, a4, a5, rfl⟩ := sideOfDict_some hs
  have hk : ∀ k, k ≠ "disp" → Dict.lookup (Dict.setKey S "disp" v) k = Dict.lookup S k := by
    intro k hk
    exact lookup_setKey_ne _ _ _ _ (Ne.symm hk)
  have hd : Dict.lookup (Dict.setKey S "disp" v) "disp" = some v := by
    rw [Merge.lookup_setKey]; simp
  exact sideOfDict_eq (by rw [hk _ (by decide)]; exact h1) (by rw [hk _ (by decide)]; exact h2)
    (by rw [hk _ (by decide)]; exact h3) (by rw [hk _ (by decide)]; exact h4) (by rw [hk _ (by decide)]; exact h5)
    hd a3 a4 a5

/-- **the adapter commutes with `main`** (for both values of both facts): the dictionary `main` saves,
    read as `Save.Saved`, is `Save.mainSaved` of the two sides read as `SideCfg` -/
theorem savedOfDict_mainSaved (facts : MainFacts) (L' R' M : Dict) (l r : SideCfg) (ld rd : JVal)
    (hl : sideOfDict L' = some l) (hr : sideOfDict R' = some r)
    (hld : Dict.lookup L' "disp" = some ld) (hrd : Dict.lookup R' "disp" = some rd)
    (hdl : l.disp = dispOfJ ld) (hdr : r.disp = dispOfJ rd) (margins : JVal) :
    savedOfDict (mainSavedDict facts
        [("input", .obj [("left", .obj L'), ("right", .obj R')]), ("pipeline", .obj M)] margins) =
      some (mainSaved facts l r M margins) := by
  have hR := sideOfDict_setDisp R' (derivedRightJ ld rd) r hr
  have heff : ({ r with disp := dispOfJ (derivedRightJ ld rd) } : SideCfg) = effectiveRight l r := by
    simp [effectiveRight, dispOfJ_derived, hdl, hdr]
  rw [heff] at hR
  obtain ⟨w, a⟩ := facts
  cases w <;> cases a <;>
    simp [mainSavedDict, writeDerived, setRightDisp, sideDict, savedOfDict, mainSaved, Dict.lookup, Dict.setKey,
      hl, hr, hld, hrd, hR]

/-- **C19's replay specification, hypothesis-free for the source**: for every configuration `check_conf`
    accepts, the dictionary `main` saves reads (through the adapter) as `Save.mainSaved` of two sides `l`,
    `r`, and all clauses of `Save.specRefeed` hold of it: accepted when fed back, completes to itself, the
    second run hands `create_dataset_from_inputs` the same sections, the margins are recorded.  `hacc` of
    `C19.refeed_spec` is discharged by C17's acceptance theorem, `hm` / `hw` by the generated `mainFacts`. -/
theorem source_refeed_spec_of_checkConf (files : Files) (fl : MachineFlags) (user kvs P : Dict) (m m' : CState)
    (out : Dict) (hin : Dict.lookup user "input" = some (.obj kvs)) (hpi : Dict.lookup user "pipeline" = some (.obj P))
    (hnd : (Dict.keys kvs).Nodup) (hfresh : C05W.FreshFor fl m) (hwf : Merge.wfDict P = true)
    (h : checkConf files inputSchemas fl registry user m = .ok (out, m')) (margins : JVal) :
    ∃ l r M, savedOfDict (mainSavedDict Pandora.Generated.mainFacts out margins) =
        some (mainSaved Pandora.Generated.mainFacts l r M margins) ∧
      Dict.lookup out "pipeline" = some (.obj M) ∧
      schemaOk l r = true ∧
      (specRefeed l r (mainSaved Pandora.Generated.mainFacts l r M margins)).all (·.2) = true := by
  obtain ⟨L', R', M, hci, _, hout⟩ := (C05C.checkConf_ok_iff files fl user kvs P m m' out hin hpi hnd hfresh hwf).1 h
  obtain ⟨_, _, L2, R2, _, _, _, _, _, hform, hshape⟩ := (C17W.checkInputSection_ok_iff files fl kvs _ hnd).1 hci
  simp only [List.cons.injEq, Prod.mk.injEq, JVal.obj.injEq, true_and, and_true] at hshape
  obtain ⟨rfl, rfl⟩ := hshape
  obtain ⟨l, r, hl, hr, hacc, ld, rd, hld, hrd, hdl, hdr⟩ := accepted_sides hform
  refine ⟨l, r, M, ?_, by rw [hout]; simp [Dict.lookup], hacc, ?_⟩
  · rw [hout]
    exact savedOfDict_mainSaved _ L' R' M l r ld rd hl hr hld hrd hdl hdr margins
  · exact C19.source_refeed_spec l r M margins hacc (fun hw => by rw [source_main_facts.1] at hw; cases hw)

/-- **the two models of feeding the saved file back agree**: C19's abstract `refeedInput` on the adapter's
    reading of the saved dictionary accepts and returns the adapter's reading of the input section the
    dictionary model `checkConf` returns for that same saved dictionary -/
theorem refeed_models_agree (files : Files) (fl : MachineFlags) (user kvs P : Dict) (m m' : CState)
    (out : Dict) (hin : Dict.lookup user "input" = some (.obj kvs)) (hpi : Dict.lookup user "pipeline" = some (.obj P))
    (hnd : C17W.NodupSection kvs) (hfresh : C05W.FreshFor fl m) (hwf : Merge.wfDict P = true)
    (h : checkConf files inputSchemas fl registry user m = .ok (out, m')) (margins : JVal)
    (m2 : CState) (hfresh2 : C05W.FreshFor fl m2) :
    ∃ s out2 m2' L2 R2,
      savedOfDict (mainSavedDict Pandora.Generated.mainFacts out margins) = some s ∧
      checkConf files inputSchemas fl registry (mainSavedDict Pandora.Generated.mainFacts out margins) m2 = .ok (out2, m2') ∧
      sideDict out2 "left" = some L2 ∧ sideDict out2 "right" = some R2 ∧
      refeedInput s = (sideOfDict L2).bind (fun l2 => (sideOfDict R2).map (fun r2 => (l2, r2))) ∧
      (refeedInput s).isSome = true := by
  obtain ⟨m2', h2⟩ := saved_config_replays files fl user kvs P m m' out hin hpi hnd hfresh hwf h
    Pandora.Generated.mainFacts source_main_facts.1 margins m2 hfresh2
  obtain ⟨L', R', M, hci, _, hout⟩ := (C05C.checkConf_ok_iff files fl user kvs P m m' out hin hpi hnd.1 hfresh hwf).1 h
  obtain ⟨_, _, L2, R2, _, _, _, _, _, hform, hshape⟩ := (C17W.checkInputSection_ok_iff files fl kvs _ hnd.1).1 hci
  simp only [List.cons.injEq, Prod.mk.injEq, JVal.obj.injEq, true_and, and_true] at hshape
  obtain ⟨rfl, rfl⟩ := hshape
  obtain ⟨l, r, hl, hr, hacc, ld, rd, hld, hrd, hdl, hdr⟩ := accepted_sides hform
  refine ⟨mainSaved Pandora.Generated.mainFacts l r M margins, out, m2', L', R', ?_, h2, ?_, ?_, ?_, ?_⟩
  · rw [hout]; exact savedOfDict_mainSaved _ L' R' M l r ld rd hl hr hld hrd hdl hdr margins
  · rw [hout]; simp [sideDict, Dict.lookup]
  · rw [hout]; simp [sideDict, Dict.lookup]
  · simp [refeedInput, mainSaved, source_main_facts.1, C19.checkInput_asUser, hacc, hl, hr]
  · simp [refeedInput, mainSaved, source_main_facts.1, C19.checkInput_asUser, hacc]

/-! ### 3. The pipeline section as an instance of `Save.checkPipeline`; `hidem` proved -/

/-- **the check of one step of the pipeline section**, as a function `S → Option S` with
    `S = step name × step value` (the `chk` of `Save.checkPipeline`): the value is a JSON value without
    duplicate keys; with its magic strings rewritten (`update_conf`) it is a dictionary; the step name has
    a kind; `Abstract<Kind>(**step)` of the source's registry returns; the callback's own test passes.
    The result is the dictionary the class returned. -/
def stepCheck (o : Oracle) (fl : MachineFlags) (l r : ImgInfo) (s : String × JVal) : Option (String × JVal) :=
  if Merge.wfVal s.2 then
    match Machine.Kind.ofName? (Machine.kindOf s.1), Merge.deepRw s.2 with
    | some kind, .obj cfg =>
      match kindDesc? registry kind.name with
      | some kd =>
        match construct o kd l r cfg with
        | .ok out => if C05W.extraOk fl kind l r out then some (s.1, .obj out) else none
        | .error _ => none
      | none => none
    | _, _ => none
  else none

theorem stepCheck_intro {o : Oracle} {fl : MachineFlags} {l r : ImgInfo} {n : String} {v : JVal}
    {kind : Machine.Kind} {cfg out : Dict} {kd : KindDesc}
    (hw : Merge.wfVal v = true) (hk : Machine.Kind.ofName? (Machine.kindOf n) = some kind)
    (hv : Merge.deepRw v = .obj cfg) (hkd : kindDesc? registry kind.name = some kd)
    (hc : construct o kd l r cfg = .ok out) (he : C05W.extraOk fl kind l r out = true) :
    stepCheck o fl l r (n, v) = some (n, .obj out) := by
  simp [stepCheck, hw, hk, hv, hkd, hc, he]

theorem stepCheck_some {o : Oracle} {fl : MachineFlags} {l r : ImgInfo} {s s' : String × JVal}
    (h : stepCheck o fl l r s = some s') :
    Merge.wfVal s.2 = true ∧ ∃ kind cfg kd out, Machine.Kind.ofName? (Machine.kindOf s.1) = some kind ∧
      Merge.deepRw s.2 = .obj cfg ∧ kindDesc? registry kind.name = some kd ∧
      construct o kd l r cfg = .ok out ∧ C05W.extraOk fl kind l r out = true ∧ s' = (s.1, .obj out) := by
  unfold stepCheck at h
  split at h
  · rename_i hw
    refine ⟨hw, ?_⟩
    split at h
    · rename_i kind cfg hk hv
      split at h
      · rename_i kd hkd
        split at h
        · rename_i out hc
          split at h
          · rename_i he
            simp only [Option.some.injEq] at h
            exact ⟨kind, cfg, kd, out, hk, hv, hkd, hc, he, h.symm⟩
          · cases h
        · cases h
      · cases h
    · cases h
  · cases h

/-- **C19's hypothesis `hidem`, proved** (from C05's `construct_idem` / `construct_facts`): a step check
    applied to its own output returns that output -/
theorem stepCheck_idempotent (o : Oracle) (fl : MachineFlags) (l r : ImgInfo) :
    ∀ s s', stepCheck o fl l r s = some s' → stepCheck o fl l r s' = some s' := by
  intro s s' h
  obtain ⟨hw, kind, cfg, kd, out, hk, hv, hkd, hc, he, rfl⟩ := stepCheck_some h
  obtain ⟨cfgU, hsU, hcfg⟩ := C05W.deepRw_eq_obj hv
  have hwU : Merge.wfDict cfgU = true := by rw [hsU] at hw; simpa [Merge.wfVal] using hw
  have hcw : Merge.wfDict cfg = true := by rw [hcfg]; exact Merge.wfDict_deepRwD cfgU hwU
  have hcf : Merge.deepRwD cfg = cfg := by rw [hcfg]; exact Merge.deepRwD_idem cfgU
  have hkdm := (C05W.kindDesc_some hkd).1
  obtain ⟨_, _, _, _, _, _, _, _, _, how, hof⟩ := C05W.construct_facts hkdm hcw hcf hc
  exact stepCheck_intro (by simpa [Merge.wfVal] using how) hk (by simp [Merge.deepRw, hof]) hkd
    (C05W.construct_idem hkdm hcw hcf hc) he

/-- the steps of a pipeline dictionary in the form `Save.checkPipeline` takes (`S` = name × value) -/
def stepsOf (P : Dict) : List (String × (String × JVal)) := P.map (fun kv => (kv.1, kv))

theorem stepsOf_names (P : Dict) : (stepsOf P).map (·.1) = Dict.keys P := by
  simp [stepsOf, Dict.keys]

theorem checkPipeline_of_keys (f : String × JVal → Option (String × JVal)) :
    ∀ (P M : Dict), Dict.keys M = Dict.keys P → (Dict.keys P).Nodup →
      (∀ n v w, Dict.lookup P n = some v → Dict.lookup M n = some w → f (n, v) = some (n, w)) →
      checkPipeline f (stepsOf P) = some (stepsOf M) := by
  intro P
  induction P with
  | nil =>
    intro M hk _ _
    cases M with
    | nil => simp [checkPipeline, stepsOf]
    | cons a M => simp [Dict.keys] at hk
  | cons kv P ih =>
    intro M hk hnd hf
    obtain ⟨k, v⟩ := kv
    cases M with
    | nil => simp [Dict.keys] at hk
    | cons a M =>
      obtain ⟨k', w⟩ := a
      simp only [Dict.keys, List.map_cons, List.cons.injEq] at hk
      obtain ⟨rfl, hk2⟩ := hk
      simp only [Dict.keys, List.map_cons, List.nodup_cons] at hnd
      have hhead : f (k', v) = some (k', w) := hf k' v w (by simp [Dict.lookup]) (by simp [Dict.lookup])
      have htail := ih M hk2 hnd.2 (by
        intro n v' w' hP hM
        have hne : k' ≠ n := by
          intro e; subst e
          exact hnd.1 (Merge.mem_keys_of_lookup hP)
        exact hf n v' w' (by simp [Dict.lookup, hne, hP]) (by simp [Dict.lookup, hne, hM]))
      simp only [checkPipeline, stepsOf, List.mapM_map] at htail
      simp [checkPipeline, stepsOf, List.mapM_cons, hhead, htail]

/-- **the real pipeline section is an instance of `Save.checkPipeline`**: when `check_pipeline_section`
    (model of `Config.lean`, registry of the source) accepts the user's pipeline `P` and returns
    `{"pipeline": M}`, `Save.checkPipeline stepCheck` maps the steps of `P` to the steps of `M` -/
theorem checkPipelineSection_checkPipeline {o : Oracle} {fl : MachineFlags} {P : Dict} {l r : ImgInfo}
    {m m' : CState} {out : Dict} (hfresh : C05W.FreshFor fl m) (hwf : Merge.wfDict P = true)
    (h : checkPipelineSection o fl registry [("pipeline", .obj P)] l r m = .ok (out, m')) :
    checkPipeline (stepCheck o fl l r) (stepsOf P) = some (stepsOf m'.pipelineCfg) := by
  obtain ⟨_, hkeys, hsteps⟩ := C05W.checkPipelineSection_structure hfresh hwf h
  obtain ⟨_, hacc, _⟩ := (C05W.checkPipelineSection_ok_iff o fl P l r m hfresh hwf).1 ⟨out, m', h⟩
  apply checkPipeline_of_keys _ P _ hkeys (Merge.wfDict_keys_nodup P hwf)
  intro n v w hP hM
  obtain ⟨kind, cfgU, kd, outn, hkind, hP', hkd, hc, hM'⟩ := hsteps n (Merge.mem_keys_of_lookup hP)
  rw [hP] at hP'; cases hP'
  rw [hM] at hM'; cases hM'
  have hmem := Merge.mem_of_lookup P n _ hP
  obtain ⟨kind2, cfg2, kd2, out2, hkind2, hv2, hkd2, hc2, he2⟩ := hacc n _ hmem
  rw [hkind] at hkind2; cases hkind2
  rw [hkd] at hkd2; cases hkd2
  have hv : Merge.deepRw (JVal.obj cfgU) = .obj (Merge.deepRwD cfgU) := by simp [Merge.deepRw]
  rw [hv] at hv2; cases hv2
  rw [hc] at hc2; cases hc2
  exact stepCheck_intro (Merge.wfDict_mem hwf hmem) hkind hv hkd hc he2

/-- **the saved pipeline section completes to itself** — `C19.checkPipeline_fixpoint` with its
    hypothesis discharged: the steps `check_conf` returned (which `main` saves unchanged), checked again
    one by one, are returned unchanged -/
theorem saved_pipeline_fixpoint {o : Oracle} {fl : MachineFlags} {P : Dict} {l r : ImgInfo}
    {m m' : CState} {out : Dict} (hfresh : C05W.FreshFor fl m) (hwf : Merge.wfDict P = true)
    (h : checkPipelineSection o fl registry [("pipeline", .obj P)] l r m = .ok (out, m')) :
    checkPipeline (stepCheck o fl l r) (stepsOf m'.pipelineCfg) = some (stepsOf m'.pipelineCfg) :=
  C19.checkPipeline_fixpoint (stepCheck o fl l r) (stepCheck_idempotent o fl l r) _ _
    (checkPipelineSection_checkPipeline hfresh hwf h)

/-- … with the user's step names in the user's order (`C19.checkPipeline_names`) -/
theorem saved_pipeline_names {o : Oracle} {fl : MachineFlags} {P : Dict} {l r : ImgInfo}
    {m m' : CState} {out : Dict} (hfresh : C05W.FreshFor fl m) (hwf : Merge.wfDict P = true)
    (h : checkPipelineSection o fl registry [("pipeline", .obj P)] l r m = .ok (out, m')) :
    Dict.keys m'.pipelineCfg = Dict.keys P := by
  have := C19.checkPipeline_names (stepCheck o fl l r) _ _ (checkPipelineSection_checkPipeline hfresh hwf h)
  rwa [stepsOf_names, stepsOf_names] at this

/-! ### 4. Non-vacuity: a concrete run -/

/-- a user configuration with a `"NaN"` to rewrite, defaults to add on both sides and in every step, an
    integer interval (the case the former `main` broke) and a validation step (two checking rounds) -/
def exUser : Dict :=
  [("input", .obj [("left", .obj [("img", .str "l.tif"), ("disp", .list [.int (-3), .int 2]), ("nodata", .str "NaN")]),
                   ("right", .obj [("img", .str "r.tif")])]),
   ("pipeline", .obj C05W.userPipeline),
   ("comment", .str "not read by check_conf")]

def exOut : Dict :=
  [("input", .obj [
     ("left", .obj [("nodata", .float .nan), ("mask", .null), ("classif", .null), ("segm", .null),
                    ("img", .str "l.tif"), ("disp", .list [.int (-3), .int 2])]),
     ("right", .obj [("nodata", .int (-9999)), ("mask", .null), ("classif", .null), ("segm", .null),
                     ("disp", .null), ("img", .str "r.tif")])]),
   ("pipeline", .obj [
     ("matching_cost", .obj [("matching_cost_method", .str "zncc"), ("window_size", .int 7),
       ("subpix", .int 1), ("band", .null), ("step", .int 1)]),
     ("disparity", .obj [("invalid_disparity", .float .nan), ("disparity_method", .str "wta")]),
     ("filter", .obj [("filter_method", .str "median"), ("filter_size", .int 3)]),
     ("validation", .obj [("validation_method", .str "cross_checking_accurate"),
       ("cross_checking_threshold", .float (.num 1))])])]

def resultOf : Except Err (Dict × CState) → Option Dict
  | .ok (cfg, _) => some cfg
  | .error _ => none

/-- the hypotheses of `source_saved_config_replays` are satisfiable by a non-trivial input, and its
    conclusion is seen on it: the first run completes `exUser` to `exOut`; the file `main` saves is `exOut`
    plus margins; fed back it is accepted and completes to `exOut` -/
example :
    resultOf (checkConf C17.fs inputSchemas machineFlags registry exUser {}) = some exOut ∧
    Merge.wfDict C05W.userPipeline = true ∧
    mainSavedDict Pandora.Generated.mainFacts exOut (.str "margins") = exOut ++ [("margins", .str "margins")] ∧
    resultOf (checkConf C17.fs inputSchemas machineFlags registry
      (mainSavedDict Pandora.Generated.mainFacts exOut (.str "margins")) {}) = some exOut := by
  decide

example : C17W.NodupSection [("left", .obj [("img", .str "l.tif"), ("disp", .list [.int (-3), .int 2]), ("nodata", .str "NaN")]),
                            ("right", .obj [("img", .str "r.tif")])] := by
  refine ⟨by decide, ?_⟩
  intro k S h
  simp only [Dict.lookup] at h
  split at h
  · cases h; decide
  · split at h
    · cases h; decide
    · cases h

/-- the adapter on the concrete run: the saved dictionary reads as `Save.mainSaved` of the two sides, and
    C19's abstract refeed accepts it; with the former `main` (`writesRightDisp`) the dictionary model
    refuses the saved file, as C19's `refeed_rejected_when_written` says of the abstract one -/
example :
    (savedOfDict (mainSavedDict Pandora.Generated.mainFacts exOut .null)).map (fun s => (s.left, s.right)) =
      some ({ img := "l.tif", nodata := .nan, mask := none, classif := none, segm := none, disp := .ints [-3, 2] },
            { img := "r.tif", nodata := .int (-9999), mask := none, classif := none, segm := none, disp := .null }) ∧
    ((savedOfDict (mainSavedDict Pandora.Generated.mainFacts exOut .null)).bind refeedInput).isSome = true ∧
    ((savedOfDict (mainSavedDict { writesRightDisp := true, addsMargins := true } exOut .null)).map
      (fun s => s.right.disp)) = some (.ints [-2, 3]) ∧
    ((savedOfDict (mainSavedDict { writesRightDisp := true, addsMargins := true } exOut .null)).bind refeedInput) = none ∧
    resultOf (checkConf C17.fs inputSchemas machineFlags registry
      (mainSavedDict { writesRightDisp := true, addsMargins := true } exOut .null) {}) = none := by
  decide

/-- `stepCheck` on the concrete steps: the user's filter step completes, the completed step is a fix-point -/
example :
    stepCheck noOracle machineFlags C05.monoL C05.monoR ("filter", .obj [("filter_method", .str "median")]) =
      some ("filter", .obj [("filter_method", .str "median"), ("filter_size", .int 3)]) ∧
    stepCheck noOracle machineFlags C05.monoL C05.monoR
      ("filter", .obj [("filter_method", .str "median"), ("filter_size", .int 3)]) =
      some ("filter", .obj [("filter_method", .str "median"), ("filter_size", .int 3)]) ∧
    stepCheck noOracle machineFlags C05.monoL C05.monoR ("filter", .obj [("filter_method", .str "median"),
      ("filter_size", .int 4)]) = none := by
  decide

end Pandora.C19C05
