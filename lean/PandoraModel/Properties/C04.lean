/-
  C04 — Validity flags, NaN costs and invalid disparities tell one coherent story.

  Part 1 (criteria): theorems about `Model/Criteria.lean` — the mask built by `criteria.py` with the cost
  volume satisfies every "before validation" clause of the specification, for all images, masks,
  intervals, windows and sub-pixel factors.
  Part 2 (later steps): theorems about `Model/FlagSteps.lean` — no undocumented bit for any pipeline
  whatever `+=` carries; each step changes only its own bits when the bit it adds is clear; therefore for
  every pipeline when the sites use `|=`, and for every pipeline without a repeated refinement or
  interpolation with the `+=` of the source today; counterexamples for the repeated ones.
  Part 3 (source): the flag sites regenerated from the source on this run are the documented ones; the
  theorems instantiated with the operators the source uses now.
-/
import PandoraModel.Lemmas.C04Criteria
import PandoraModel.Lemmas.C04Bits
import PandoraModel.Lemmas.C04Steps
import PandoraModel.Generated.Constants
import PandoraModel.Generated.FlagOps

namespace Pandora.C04
open Pandora.Criteria Pandora.Flags Pandora.FlagSteps

/-! ## Part 1 — the criteria mask -/

theorem hasBit_lit (f k : Nat) : hasBit f (2 ^ k) = decide (f / 2 ^ k % 2 = 1) := by
  rw [hasBit_two_pow, testBit_divmod]

theorem hasBit_1 (f : Nat) : hasBit f 1 = decide (f % 2 = 1) := by simpa using hasBit_lit f 0
theorem hasBit_2 (f : Nat) : hasBit f 2 = decide (f / 2 % 2 = 1) := by simpa using hasBit_lit f 1
theorem hasBit_4 (f : Nat) : hasBit f 4 = decide (f / 4 % 2 = 1) := by simpa using hasBit_lit f 2
theorem hasBit_8 (f : Nat) : hasBit f 8 = decide (f / 8 % 2 = 1) := by simpa using hasBit_lit f 3
theorem hasBit_16 (f : Nat) : hasBit f 16 = decide (f / 16 % 2 = 1) := by simpa using hasBit_lit f 4
theorem hasBit_32 (f : Nat) : hasBit f 32 = decide (f / 32 % 2 = 1) := by simpa using hasBit_lit f 5
theorem hasBit_64 (f : Nat) : hasBit f 64 = decide (f / 64 % 2 = 1) := by simpa using hasBit_lit f 6
theorem hasBit_128 (f : Nat) : hasBit f 128 = decide (f / 128 % 2 = 1) := by simpa using hasBit_lit f 7

theorem preInvalidBits_eq : preInvalidBits = 2 ^ 0 ||| (2 ^ 1 ||| (2 ^ 6 ||| 2 ^ 7)) := by decide

theorem isInvalidPre_eq (f : Nat) :
    isInvalidPre f = (decide (f % 2 = 1) || (decide (f / 2 % 2 = 1) || (decide (f / 64 % 2 = 1) || decide (f / 128 % 2 = 1)))) := by
  unfold isInvalidPre
  rw [preInvalidBits_eq]
  simp only [and_or_ne_zero, and_two_pow_ne_zero, testBit_divmod]
  simp

theorem maskInvalidVar_eq (a : Bool) (f : Nat) :
    maskInvalidVar a f = if a && !decide (f / 2 % 2 = 1) then f + 2 else f := by
  unfold maskInvalidVar
  have h := and_two_pow_eq_zero f 1
  rw [testBit_divmod] at h
  simp only [Nat.pow_one] at h
  simp only [rightNodataOrRangeMissing, h]
  cases a <;> simp


/-! ### closed form of the mask -/

/-- in-image pixel that `mask_border` does not overwrite -/
structure Interior (I : Input) (r c : Nat) : Prop where
  r1 : I.off ≤ r
  r2 : r + I.off < I.rows
  c1 : I.off ≤ c
  c2 : c + I.off < I.cols

theorem interior_of_not_border (I : Input) (r c : Nat) (hr : r < I.rows) (hc : c < I.cols)
    (hb : isBorder I r c = false) : Interior I r c := by
  unfold isBorder Criteria.inBorder at hb
  by_cases h0 : 0 < I.off
  · simp [h0] at hb
    exact ⟨by omega, by omega, by omega, by omega⟩
  · have : I.off = 0 := by omega
    exact ⟨by omega, by omega, by omega, by omega⟩

theorem not_border_of_interior (I : Input) (r c : Nat) (h : Interior I r c) : isBorder I r c = false := by
  obtain ⟨h1, h2, h3, h4⟩ := h
  unfold isBorder Criteria.inBorder
  by_cases h0 : 0 < I.off
  · simp [h0]; omega
  · simp [h0]

theorem Interior.col {I : Input} {r c : Nat} (h : Interior I r c) : ColInterior I c := ⟨h.c1, h.c2⟩

/-- the six indicators the criteria add, as 0/1 numbers -/
def leftDil (I : Input) (r c : Nat) : Bool := I.hasL && dilated I.rows I.cols I.off I.mL r c
def leftInv (I : Input) (r c : Nat) : Bool := I.hasL && (I.mL r c == Cls.invalid)

theorem stage1_eq (I : Input) (r c : Nat) (hd : I.dmin ≤ I.dmax) :
    stage1 I r c = 4 * (vmBit2 I c).toNat + 2 * (vmBit1 I c).toNat + (leftDil I r c).toNat
      + 64 * (leftInv I r c).toNat + 128 * (I.hasR && right7 I r c).toNat + 2 * (I.hasR && rightN I r c).toNat := by
  unfold stage1 vm1 allocLeft leftDil leftInv
  simp only [allocRight_eq _ _ _ _ hd, rightIncompleteRange, rightNodataOrRangeMissing, leftNodataOrBorder,
    inValidityMaskLeft, inValidityMaskRight]
  cases vmBit2 I c <;> cases vmBit1 I c <;> cases I.hasL <;> cases I.hasR <;>
    cases dilated I.rows I.cols I.off I.mL r c <;> cases (I.mL r c == Cls.invalid) <;>
    cases right7 I r c <;> cases rightN I r c <;> simp

theorem right7_excl (I : Input) (r c : Nat) : vmBit1 I c = true → right7 I r c = false := by
  intro h; simp [right7, h]
theorem rightN_excl (I : Input) (r c : Nat) : vmBit1 I c = true → rightN I r c = false := by
  intro h; simp [rightN, h]


/-! ### the NaN pattern: each cause of invalidity makes every cost of the pixel NaN -/

theorem sample_in_interval (J : CvInput) (j : Nat) (hj : j < nDisp J) :
    J.dmin ≤ J.dmin + ((j / J.subpix : Nat) : Int) ∧ J.dmin + ((j / J.subpix : Nat) : Int) ≤ J.dmax ∨ J.dmax < J.dmin := by
  unfold nDisp at hj
  by_cases hd : J.dmax < J.dmin
  · exact Or.inr hd
  · left
    have h1 : j / J.subpix ≤ (J.dmax - J.dmin).toNat := by
      apply Nat.div_le_of_le_mul
      rw [Nat.mul_comm]; omega
    have h2 : ((j / J.subpix : Nat) : Int) ≤ ((J.dmax - J.dmin).toNat : Int) := Int.ofNat_le.mpr h1
    have h3 : (0 : Int) ≤ ((j / J.subpix : Nat) : Int) := Int.natCast_nonneg _
    generalize ((j / J.subpix : Nat) : Int) = q at h2 h3 ⊢
    omega

theorem rightOk_false_of_not_inIdx (J : CvInput) (r c : Nat) (d : Int) (h : inIdx J.toInput c d = false) :
    rightOk J r ((c : Int) + d) = false := by
  unfold rightOk
  simp only [inIdx, decide_eq_false_iff_not] at h
  have : decide ((J.off : Int) ≤ (c : Int) + d ∧ (c : Int) + d + (J.off : Int) ≤ (J.cols : Int) - 1) = false := by
    simp only [decide_eq_false_iff_not]; omega
  simp [this]

theorem rightOk_false_of_sat7 (J : CvInput) (r c : Nat) (d : Int) (hR : J.hasR = true)
    (h : sat7 J.toInput r c d = true) : rightOk J r ((c : Int) + d) = false := by
  unfold sat7 at h
  by_cases hi : inIdx J.toInput c d = true
  · simp [hi] at h
    unfold rightOk; simp [hR, h]
  · exact rightOk_false_of_not_inIdx J r c d (by simpa using hi)

theorem rightOk_false_of_satN (J : CvInput) (r c : Nat) (d : Int) (hR : J.hasR = true)
    (h : satN J.toInput r c d = true) : rightOk J r ((c : Int) + d) = false := by
  unfold satN at h
  by_cases hi : inIdx J.toInput c d = true
  · simp [hi] at h
    unfold rightOk; simp [hR, h]
  · exact rightOk_false_of_not_inIdx J r c d (by simpa using hi)

theorem computable_false_of_rightOk (J : CvInput) (r c j : Nat)
    (h : rightOk J r ((c : Int) + (J.dmin + ((j / J.subpix : Nat) : Int))) = false) : computable J r c j = false := by
  unfold computable
  have e : (c : Int) + J.dmin + ((j / J.subpix : Nat) : Int) = (c : Int) + (J.dmin + ((j / J.subpix : Nat) : Int)) := by omega
  simp only [e, h]
  split <;> simp

theorem allNan_of_forall (J : CvInput) (r c : Nat) (h : ∀ j, j < nDisp J → computable J r c j = false) :
    allNanOf J r c = true := by
  unfold allNanOf
  simp only [List.all_eq_true, List.mem_range, Bool.not_eq_eq_eq_not, Bool.not_true]
  exact h

/-- every sample `j` of the pixel has its integer right position `⌊c + d⌋ = c + d'` with `d'` an integer
    disparity of the global interval: what is true of all integer disparities is true of all samples -/
theorem allNan_of_all_int (J : CvInput) (r c : Nat) (hd : J.dmin ≤ J.dmax)
    (h : ∀ d : Int, J.dmin ≤ d → d ≤ J.dmax → rightOk J r ((c : Int) + d) = false) : allNanOf J r c = true := by
  apply allNan_of_forall
  intro j hj
  apply computable_false_of_rightOk
  rcases sample_in_interval J j hj with ⟨h1, h2⟩ | h3
  · exact h _ h1 h2
  · omega

theorem allNan_of_vmBit1 (J : CvInput) (r c : Nat) (hd : J.dmin ≤ J.dmax)
    (hc : ColInterior J.toInput c) (h : vmBit1 J.toInput c = true) : allNanOf J r c = true := by
  have h0 := (inSet_eq_nil_iff J.toInput c).mp ((vmBit1_iff J.toInput c hc hd).mp h)
  exact allNan_of_all_int J r c hd fun d h1 h2 => rightOk_false_of_not_inIdx J r c d (h0 d h1 h2)

theorem allNan_of_right7 (J : CvInput) (r c : Nat) (hd : J.dmin ≤ J.dmax)
    (hR : J.hasR = true) (h : right7 J.toInput r c = true) : allNanOf J r c = true := by
  unfold right7 at h
  simp only [Bool.and_eq_true, List.all_eq_true] at h
  exact allNan_of_all_int J r c hd fun d h1 h2 =>
    rightOk_false_of_sat7 J r c d hR (h.2 d (mem_dispList.mpr ⟨h1, h2⟩))

theorem allNan_of_rightN (J : CvInput) (r c : Nat) (hd : J.dmin ≤ J.dmax)
    (hR : J.hasR = true) (h : rightN J.toInput r c = true) : allNanOf J r c = true := by
  unfold rightN at h
  simp only [Bool.and_eq_true, List.all_eq_true] at h
  exact allNan_of_all_int J r c hd fun d h1 h2 =>
    rightOk_false_of_satN J r c d hR (h.2 d (mem_dispList.mpr ⟨h1, h2⟩))

theorem allNan_of_leftDil (J : CvInput) (r c : Nat) (h : leftDil J.toInput r c = true) : allNanOf J r c = true := by
  apply allNan_of_forall; intro j _
  unfold leftDil at h
  simp only [Bool.and_eq_true] at h
  unfold computable; simp [h.1, h.2]

theorem allNan_of_leftInv (J : CvInput) (r c : Nat) (h : leftInv J.toInput r c = true) : allNanOf J r c = true := by
  apply allNan_of_forall; intro j _
  unfold leftInv at h
  simp only [Bool.and_eq_true] at h
  unfold computable; simp [h.1, h.2]

theorem allNan_of_not_interior (J : CvInput) (r c : Nat) (h : ¬ Interior J.toInput r c) : allNanOf J r c = true := by
  apply allNan_of_forall; intro j _
  have : winInside J.rows J.cols J.off r c = false := by
    unfold winInside
    simp only [decide_eq_false_iff_not]
    intro ⟨h1, h2, h3, h4⟩
    exact h ⟨h1, h2, h3, h4⟩
  unfold computable; simp [this]


/-! ### the bits of the mask after `cv_masked` -/

/-- arithmetic of the flag word: six indicators added once each (the `bit_1` columns excluded from the right
    mask), then `+ 2` for an all-NaN pixel whose bit 1 is clear — a complete case analysis on the Booleans -/
theorem final_bits (b2 b1 bd bi b7 bn a : Bool) (f : Nat)
    (hx : b1 = true → b2 = false ∧ b7 = false ∧ bn = false) (ha : (b1 || bn) = true → a = true)
    (hf : f = (if a && !decide ((4 * b2.toNat + 2 * b1.toNat + bd.toNat + 64 * bi.toNat + 128 * b7.toNat + 2 * bn.toNat) / 2 % 2 = 1)
                then 4 * b2.toNat + 2 * b1.toNat + bd.toNat + 64 * bi.toNat + 128 * b7.toNat + 2 * bn.toNat + 2
                else 4 * b2.toNat + 2 * b1.toNat + bd.toNat + 64 * bi.toNat + 128 * b7.toNat + 2 * bn.toNat)) :
    decide (f % 2 = 1) = bd ∧ decide (f / 2 % 2 = 1) = a ∧ decide (f / 4 % 2 = 1) = b2 ∧ decide (f / 64 % 2 = 1) = bi
      ∧ decide (f / 128 % 2 = 1) = b7 ∧ f < 256 ∧ f / 8 % 2 = 0 ∧ f / 16 % 2 = 0 ∧ f / 32 % 2 = 0 := by
  subst hf
  revert hx ha
  cases b2 <;> cases b1 <;> cases bd <;> cases bi <;> cases b7 <;> cases bn <;> cases a <;> decide

theorem modelMask_interior (J : CvInput) (r c : Nat) (h : Interior J.toInput r c) :
    modelMask J r c = maskInvalidVar (allNanOf J r c) (stage1 J.toInput r c) := by
  unfold modelMask finalMask maskBorder
  have hb := not_border_of_interior _ r c h
  unfold isBorder at hb
  by_cases h0 : 0 < J.off
  · simp [h0] at hb; simp [h0, hb]
  · simp [h0]

theorem specBit0_interior (I : Input) (r c : Nat) (h : Interior I r c) : specBit0 I r c = leftDil I r c := by
  unfold specBit0 leftDil
  rw [not_border_of_interior I r c h, dilated_eq_nodataInWindow]; simp

theorem specBit6_interior (I : Input) (r c : Nat) (h : Interior I r c) : specBit6 I r c = leftInv I r c := by
  unfold specBit6 leftInv
  rw [not_border_of_interior I r c h]; simp

theorem specBit2_interior (I : Input) (r c : Nat) (h : Interior I r c) (hd : I.dmin ≤ I.dmax) :
    specBit2 I r c = vmBit2 I c := by
  unfold specBit2
  rw [not_border_of_interior I r c h, Bool.eq_iff_iff, vmBit2_iff I c h.col hd]
  simp only [Bool.not_false, Bool.true_and, Bool.and_eq_true, Bool.not_eq_eq_eq_not, Bool.not_true,
    List.isEmpty_eq_false_iff, List.any_eq_true, ne_eq]
  constructor
  · rintro ⟨h1, d, hm, hf⟩
    exact ⟨h1, d, (mem_dispList.mp hm).1, (mem_dispList.mp hm).2, by simpa using hf⟩
  · rintro ⟨h1, d, a1, a2, hf⟩
    exact ⟨h1, d, mem_dispList.mpr ⟨a1, a2⟩, by simpa using hf⟩

theorem specBit7_interior (I : Input) (r c : Nat) (h : Interior I r c) (hd : I.dmin ≤ I.dmax) :
    specBit7 I r c = (I.hasR && right7 I r c) := by
  unfold specBit7 right7
  rw [not_border_of_interior I r c h, Bool.eq_iff_iff]
  have hv := vmBit1_iff I c h.col hd
  simp only [Bool.not_false, Bool.true_and, Bool.and_eq_true, Bool.not_eq_eq_eq_not, Bool.not_true,
    List.isEmpty_eq_false_iff, List.all_eq_true, ne_eq]
  have hv' : vmBit1 I c = false ↔ ¬ inSet I c = [] := by
    rw [← hv]; cases vmBit1 I c <;> simp
  constructor
  · rintro ⟨⟨hR, hne⟩, hall⟩
    refine ⟨hR, hv'.mpr hne, ?_⟩
    intro d hm
    unfold sat7
    by_cases hi : inIdx I c d = true
    · have : d ∈ inSet I c := by unfold inSet; exact List.mem_filter.mpr ⟨hm, hi⟩
      simp [hall d this]
    · simp [hi]
  · rintro ⟨hR, hb, hall⟩
    refine ⟨⟨hR, hv'.mp hb⟩, ?_⟩
    intro d hm
    unfold inSet at hm
    obtain ⟨hm1, hm2⟩ := List.mem_filter.mp hm
    have := hall d hm1
    unfold sat7 at this
    simpa [hm2] using this

theorem specBit1_interior (J : CvInput) (r c : Nat) (h : Interior J.toInput r c) : specBit1 J r c = allNanOf J r c := by
  unfold specBit1
  rw [not_border_of_interior _ r c h]; simp

/-- **Interior pixels**: every bit of the model's mask is raised exactly when its documented cause holds, the
    pixel carries an invalidating bit iff all its costs are NaN, and no other bit is ever set. -/
theorem criteria_interior (J : CvInput) (r c : Nat) (hd : J.dmin ≤ J.dmax) (h : Interior J.toInput r c) :
    hasBit (modelMask J r c) leftNodataOrBorder = specBit0 J.toInput r c
    ∧ hasBit (modelMask J r c) inValidityMaskLeft = specBit6 J.toInput r c
    ∧ hasBit (modelMask J r c) rightNodataOrRangeMissing = specBit1 J r c
    ∧ hasBit (modelMask J r c) rightIncompleteRange = specBit2 J.toInput r c
    ∧ hasBit (modelMask J r c) inValidityMaskRight = specBit7 J.toInput r c
    ∧ isInvalidPre (modelMask J r c) = allNanOf J r c
    ∧ modelMask J r c < 256 ∧ hasBit (modelMask J r c) 8 = false ∧ hasBit (modelMask J r c) 16 = false
    ∧ hasBit (modelMask J r c) 32 = false := by
  rw [specBit0_interior _ r c h, specBit6_interior _ r c h, specBit1_interior J r c h,
    specBit2_interior _ r c h hd, specBit7_interior _ r c h hd]
  have hx : vmBit1 J.toInput c = true → vmBit2 J.toInput c = false ∧ (J.hasR && right7 J.toInput r c) = false
      ∧ (J.hasR && rightN J.toInput r c) = false := by
    intro hb
    exact ⟨vmBit1_vmBit2_excl _ c hb, by simp [right7_excl _ r c hb], by simp [rightN_excl _ r c hb]⟩
  have ha : (vmBit1 J.toInput c || (J.hasR && rightN J.toInput r c)) = true → allNanOf J r c = true := by
    intro hb
    rcases (Bool.or_eq_true _ _).mp hb with h1 | h2
    · exact allNan_of_vmBit1 J r c hd h.col h1
    · simp only [Bool.and_eq_true] at h2
      exact allNan_of_rightN J r c hd h2.1 h2.2
  have key := final_bits (vmBit2 J.toInput c) (vmBit1 J.toInput c) (leftDil J.toInput r c) (leftInv J.toInput r c)
    (J.hasR && right7 J.toInput r c) (J.hasR && rightN J.toInput r c) (allNanOf J r c) (modelMask J r c) hx ha
    (by rw [modelMask_interior J r c h, maskInvalidVar_eq, stage1_eq _ r c hd])
  generalize modelMask J r c = f at key ⊢
  obtain ⟨k0, k1, k2, k6, k7, klt, k3, k4, k5⟩ := key
  simp only [leftNodataOrBorder, inValidityMaskLeft, rightNodataOrRangeMissing, rightIncompleteRange,
    inValidityMaskRight, hasBit_1, hasBit_2, hasBit_4, hasBit_8, hasBit_16, hasBit_32, hasBit_64, hasBit_128,
    isInvalidPre_eq]
  refine ⟨k0, k6, k1, k2, k7, ?_, klt, by simp [k3], by simp [k4], by simp [k5]⟩
  rw [k0, k1, k6, k7]
  -- invalid bit set <-> all NaN
  cases ha' : allNanOf J r c
  · -- not all NaN: none of the causes holds
    have n1 : leftDil J.toInput r c = false := by
      cases hq : leftDil J.toInput r c
      · rfl
      · rw [allNan_of_leftDil J r c hq] at ha'; cases ha'
    have n2 : leftInv J.toInput r c = false := by
      cases hq : leftInv J.toInput r c
      · rfl
      · rw [allNan_of_leftInv J r c hq] at ha'; cases ha'
    have n3 : (J.hasR && right7 J.toInput r c) = false := by
      cases hq : (J.hasR && right7 J.toInput r c)
      · rfl
      · simp only [Bool.and_eq_true] at hq
        rw [allNan_of_right7 J r c hd hq.1 hq.2] at ha'; cases ha'
    simp [n1, n2, n3]
  · simp


/-- **Border pixels** carry bit 0 only, and none of their costs is computable. -/
theorem criteria_border (J : CvInput) (r c : Nat) (hb : isBorder J.toInput r c = true) :
    modelMask J r c = leftNodataOrBorder ∧ allNanOf J r c = true := by
  constructor
  · unfold modelMask finalMask maskBorder
    unfold isBorder at hb
    simp only [Bool.and_eq_true, decide_eq_true_eq] at hb
    simp [hb.1, hb.2]
  · apply allNan_of_not_interior
    intro hI
    rw [not_border_of_interior _ r c hI] at hb
    cases hb

/-- what the disparity step may assume about `invalid_disparity`: NaN, or a value that is not one of the
    disparity samples (in particular any value outside the searched interval) -/
def InvalidNotSample (dmin : Int) (subpix n : Nat) (invalid : Val) : Prop :=
  ∀ j, j < n → sameVal (Val.num ((dmin : Rat) + ((j : Nat) : Rat) / ((subpix : Nat) : Rat))) invalid = false

theorem sameVal_refl (v : Val) : sameVal v v = true := by
  cases v <;> simp [sameVal]

theorem argBestAux_lt (isMax : Bool) (l : List Val) (i bi : Nat) (bv : Val) (h : bi < i) :
    argBestAux isMax l i bi bv < i + l.length := by
  induction l generalizing i bi bv with
  | nil => simpa [argBestAux] using h
  | cons v vs ih =>
    unfold argBestAux
    split
    · have := ih (i + 1) i v (by omega); simp only [List.length_cons]; omega
    · have := ih (i + 1) bi bv (by omega); simp only [List.length_cons]; omega

theorem argBest_lt (isMax : Bool) (costs : List Val) (h : costs ≠ []) : argBest isMax costs < costs.length := by
  cases costs with
  | nil => exact absurd rfl h
  | cons v vs =>
    unfold argBest
    have := argBestAux_lt isMax vs 1 0 v (by omega)
    simp only [List.length_cons]; omega

/-- the disparity of a pixel is the invalid value exactly when all its costs are NaN -/
theorem toDisp_invalid_iff (isMax : Bool) (dmin : Int) (subpix : Nat) (invalid : Val) (costs : List Val)
    (hinv : InvalidNotSample dmin subpix costs.length invalid) :
    sameVal (toDisp isMax dmin subpix invalid costs) invalid = costs.all Val.isNan := by
  unfold toDisp
  cases hall : costs.all Val.isNan
  · have hne : costs ≠ [] := by intro h0; simp [h0] at hall
    simp only [Bool.false_eq_true, if_false]
    exact hinv _ (argBest_lt isMax costs hne)
  · simp [sameVal_refl]

/-- **The specification holds of the model** (mask after `matching_cost`, NaN pattern, no disparity observed):
    for every in-image pixel no clause fails. -/
theorem criteria_spec (J : CvInput) (invalid : Val) (r c : Nat) (hd : J.dmin ≤ J.dmax)
    (hr : r < J.rows) (hc : c < J.cols) :
    failingClauses J invalid r c (modelMask J r c) (allNanOf J r c) none = [] := by
  unfold failingClauses
  cases hb : isBorder J.toInput r c
  · have hI := interior_of_not_border _ r c hr hc hb
    obtain ⟨k0, k6, k1, k2, k7, kinv, klt, k3, k4, k5⟩ := criteria_interior J r c hd hI
    simp [k0, k6, k1, k2, k7, kinv, klt, k3, k4, k5, hb]
  · obtain ⟨hm, hn⟩ := criteria_border J r c hb
    have e1 : isInvalidPre 1 = true := by decide
    have e0 : hasBit 1 1 = true := by decide
    have e2 : hasBit 1 2 = false := by decide
    have e4 : hasBit 1 4 = false := by decide
    have e8 : hasBit 1 8 = false := by decide
    have e16 : hasBit 1 16 = false := by decide
    have e32 : hasBit 1 32 = false := by decide
    have e64 : hasBit 1 64 = false := by decide
    have e128 : hasBit 1 128 = false := by decide
    simp [hm, hn, hb, specBit0, specBit6, specBit1, specBit2, specBit7, leftNodataOrBorder, inValidityMaskLeft,
      rightNodataOrRangeMissing, rightIncompleteRange, inValidityMaskRight, e0, e1, e2, e4, e8, e16, e32, e64, e128]

theorem failingClauses_some (J : CvInput) (invalid : Val) (r c f : Nat) (n : Bool) (d : Val) :
    failingClauses J invalid r c f n (some d) = [] ↔
      (failingClauses J invalid r c f n none = [] ∧ (sameVal d invalid == isInvalidPre f) = true) := by
  unfold failingClauses
  simp only [List.append_eq_nil_iff, List.append_nil]
  cases (sameVal d invalid == isInvalidPre f) <;> simp <;> grind

/-- ... and with the disparity map of the disparity step: the pixel carries an invalidating flag iff its
    disparity is `invalid_disparity`, for any cost values that are NaN exactly where not computable. -/
theorem criteria_spec_disp (J : CvInput) (invalid : Val) (isMax : Bool) (r c : Nat) (costs : List Val)
    (hd : J.dmin ≤ J.dmax) (hr : r < J.rows) (hc : c < J.cols)
    (hnan : costs.all Val.isNan = allNanOf J r c)
    (hinv : InvalidNotSample J.dmin J.subpix costs.length invalid) :
    failingClauses J invalid r c (modelMask J r c) (allNanOf J r c)
      (some (toDisp isMax J.dmin J.subpix invalid costs)) = [] := by
  rw [failingClauses_some]
  refine ⟨criteria_spec J invalid r c hd hr hc, ?_⟩
  have hdisp := toDisp_invalid_iff isMax J.dmin J.subpix invalid costs hinv
  have hinvalid : isInvalidPre (modelMask J r c) = allNanOf J r c := by
    cases hb : isBorder J.toInput r c
    · exact (criteria_interior J r c hd (interior_of_not_border _ r c hr hc hb)).2.2.2.2.2.1
    · obtain ⟨hm, hn⟩ := criteria_border J r c hb
      rw [hm, hn]; decide
  rw [hdisp, hnan, hinvalid]; simp


/-! ## Part 2 — the steps after the disparity step -/

/-- on a border pixel (flag 1) every step except a regularising `median_for_intervals` leaves the flag at 1 -/
theorem stepFlag_border_one (ops : Ops) (s : Step) (hs : s ≠ .filterIntervals true) :
    stepFlag ops true s leftNodataOrBorder = leftNodataOrBorder := by
  have hi : isInvalid 1 = true := by decide
  cases s with
  | refine st => simp [stepFlag, refinePix, leftNodataOrBorder, hi]
  | filter => rfl
  | filterIntervals reg => cases reg <;> simp_all [stepFlag]
  | crossCheck d => simp [stepFlag, borderPix]
  | interpMcCnn fo fm => simp [stepFlag, borderPix]
  | interpSgm near fm fo => simp [stepFlag, sgmPix, leftNodataOrBorder, occlusion, mismatch]

/-- the own bits are raised in the documented relation to each other (8 xor 9; 4 replaces 8, 5 replaces 9) -/
theorem replacementOK_of_clear (ops : Ops) (hreg : ops.reg = .or) (s : Step) (f : Nat) (h : RaiseClear ops s f) :
    replacementOK s f (stepFlag ops false s f) = true := by
  have hbit : ∀ j, (stepFlag ops false s f).testBit j = expectedBit s f j := fun j => stepFlag_testBit ops hreg s f j h
  have hv : isInvalid f = false → f.testBit 8 = false ∧ f.testBit 9 = false := by
    intro hv; rw [isInvalid_eq] at hv; simp only [Bool.or_eq_false_iff] at hv; exact ⟨hv.2.2.2.2.1, hv.2.2.2.2.2⟩
  cases s <;> simp only [replacementOK, hbit, expectedBit]
  · rename_i d
    cases hi : isInvalid f
    · obtain ⟨a, b⟩ := hv hi
      cases d <;> simp [a, b]
    · cases f.testBit 8 <;> cases f.testBit 9 <;> simp
  · rename_i fo fm
    cases f.testBit 4 <;> cases f.testBit 5 <;> cases f.testBit 8 <;> cases f.testBit 9 <;> cases fo <;> cases fm <;> decide
  · rename_i near fm fo
    cases f.testBit 4 <;> cases f.testBit 5 <;> cases f.testBit 8 <;> cases f.testBit 9 <;> cases near <;> cases fm <;>
      cases fo <;> decide

/-- **Each step changes only its own bits** (`later_steps_own_bits`, `bits_independent`,
    `no_undocumented_bit`, `border_bit0_only` for one step): whenever the bit the step adds with `+=` is
    currently clear — or the site uses `|=` — the observed transition satisfies the specification; a border
    pixel (flag 1) keeps flag 1 unless the step is a regularising `median_for_intervals`. -/
theorem stepOK_of_clear (ops : Ops) (hreg : ops.reg = .or) (border : Bool) (s : Step) (f : Nat) (hlt : f < 4096)
    (h : RaiseClear ops s f) (hb : border = true → f = leftNodataOrBorder ∧ s ≠ .filterIntervals true) :
    stepOK border s f (stepFlag ops border s f) = true := by
  unfold stepOK
  cases border
  · simp only [Bool.false_eq_true, if_false, Bool.and_eq_true]
    refine ⟨⟨⟨?_, replacementOK_of_clear ops hreg s f h⟩, ?_⟩, ?_⟩
    · unfold onlyOwnRaised
      rw [List.all_eq_true]
      intro k _
      cases hq : ((stepFlag ops false s f).testBit k && !f.testBit k)
      · simp
      · rw [stepFlag_testBit ops hreg s f k h] at hq
        simp [expected_raised_own s f k hq]
    · unfold nothingElseCleared
      rw [List.all_eq_true]
      intro k _
      cases hq : (f.testBit k && !(stepFlag ops false s f).testBit k)
      · simp
      · rw [stepFlag_testBit ops hreg s f k h] at hq
        simp [expected_cleared_may s f k hq]
    · unfold documentedOnly
      simpa using stepFlag_lt ops hreg false s f hlt
  · obtain ⟨hf, hs⟩ := hb rfl
    rw [hf, stepFlag_border_one ops s hs]
    simp

/-! ### any pipeline -/

def isRefine : Step → Bool
  | .refine _ => true
  | _ => false

def isFill : Step → Bool
  | .interpMcCnn _ _ => true
  | .interpSgm _ _ _ => true
  | _ => false

/-- a pipeline that runs at most one refinement and at most one interpolation (any number of filters and
    of cross-checkings) -/
def NoRepeat (steps : List Step) : Bool :=
  decide (steps.countP isRefine ≤ 1) && decide (steps.countP isFill ≤ 1)

/-- what the criteria mask guarantees to the later steps: below 256, bits 3, 4, 5 clear -/
def FlagInit (f : Nat) : Prop := f < 256 ∧ f.testBit 3 = false ∧ f.testBit 4 = false ∧ f.testBit 5 = false

/-- no regularising `median_for_intervals` step is applied to a border pixel -/
def BorderSafe (border : Bool) (steps : List Step) : Bool :=
  !border || steps.all fun s => s != .filterIntervals true

/-- the invariant: bit 3 is clear while a refinement is still to come, bits 4 and 5 while an interpolation is
    still to come, bits 8 and 9 are never both set, a border pixel carries exactly bit 0 -/
def FlagInv (border : Bool) (steps : List Step) (f : Nat) : Prop :=
  f < 4096 ∧ (f.testBit 8 && f.testBit 9) = false
  ∧ (1 ≤ steps.countP isRefine → f.testBit 3 = false)
  ∧ (1 ≤ steps.countP isFill → f.testBit 4 = false ∧ f.testBit 5 = false)
  ∧ steps.countP isRefine ≤ 1 ∧ steps.countP isFill ≤ 1
  ∧ (border = true → f = leftNodataOrBorder ∧ BorderSafe border steps = true)

theorem flagInv_of_init (border : Bool) (steps : List Step) (f : Nat) (h : FlagInit f) (hn : NoRepeat steps = true)
    (hb : border = true → f = leftNodataOrBorder ∧ BorderSafe border steps = true) :
    FlagInv border steps f := by
  obtain ⟨h1, h3, h4, h5⟩ := h
  unfold NoRepeat at hn
  simp only [Bool.and_eq_true, decide_eq_true_eq] at hn
  have h8 : f.testBit 8 = false := Nat.testBit_lt_two_pow (by omega)
  exact ⟨by omega, by simp [h8], fun _ => h3, fun _ => ⟨h4, h5⟩, hn.1, hn.2, hb⟩

theorem raiseClear_of_inv (ops : Ops) (border : Bool) (s : Step) (ss : List Step) (f : Nat)
    (h : FlagInv border (s :: ss) f) : RaiseClear ops s f := by
  obtain ⟨_, h89, h3, h45, _, _, _⟩ := h
  cases s <;> simp only [RaiseClear]
  · exact Or.inr (h3 (by simp [isRefine]))
  · have := h45 (by simp [isFill]); exact Or.inr this
  · have := h45 (by simp [isFill]); exact Or.inr ⟨this.1, this.2, h89⟩

theorem borderSafe_cons (border : Bool) (s : Step) (ss : List Step) (h : BorderSafe border (s :: ss) = true)
    (hb : border = true) : s ≠ .filterIntervals true ∧ BorderSafe border ss = true := by
  unfold BorderSafe at h ⊢
  subst hb
  simp only [Bool.not_true, Bool.false_or, List.all_cons, Bool.and_eq_true, bne_iff_ne, ne_eq] at h ⊢
  exact ⟨h.1, by simpa using h.2⟩

theorem expectedBit_3 (s : Step) (f : Nat) (h : isRefine s = false) : expectedBit s f 3 = f.testBit 3 := by
  cases s <;> simp [isRefine] at h <;> simp [expectedBit]

theorem expectedBit_45 (s : Step) (f : Nat) (h : isFill s = false) :
    expectedBit s f 4 = f.testBit 4 ∧ expectedBit s f 5 = f.testBit 5 := by
  cases s <;> simp [isFill] at h <;> simp [expectedBit]

theorem expectedBit_89 (s : Step) (f : Nat) (h89 : (f.testBit 8 && f.testBit 9) = false) :
    (expectedBit s f 8 && expectedBit s f 9) = false := by
  have hv : isInvalid f = false → f.testBit 8 = false ∧ f.testBit 9 = false := by
    intro hv; rw [isInvalid_eq] at hv; simp only [Bool.or_eq_false_iff] at hv; exact ⟨hv.2.2.2.2.1, hv.2.2.2.2.2⟩
  cases s <;> simp only [expectedBit]
  · simpa using h89
  · exact h89
  · simpa using h89
  · rename_i d
    cases hv' : isInvalid f
    · obtain ⟨a, b⟩ := hv hv'
      cases d <;> simp [a, b]
    · simpa using h89
  · rename_i fo fm
    cases a : f.testBit 8 <;> cases b : f.testBit 9 <;> cases fo <;> cases fm <;> simp_all
  · rename_i near fm fo
    cases a : f.testBit 8 <;> cases b : f.testBit 9 <;> cases near <;> cases fm <;> cases fo <;> simp_all

theorem flagInv_step (ops : Ops) (hreg : ops.reg = .or) (border : Bool) (s : Step) (ss : List Step) (f : Nat)
    (h : FlagInv border (s :: ss) f) : FlagInv border ss (stepFlag ops border s f) := by
  have hc := raiseClear_of_inv ops border s ss f h
  obtain ⟨hlt, h89, h3, h45, cR, cF, hB⟩ := h
  simp only [List.countP_cons] at h3 h45 cR cF
  cases border
  · have hbit : ∀ j, (stepFlag ops false s f).testBit j = expectedBit s f j := fun j => stepFlag_testBit ops hreg s f j hc
    refine ⟨stepFlag_lt ops hreg false s f hlt, ?_, ?_, ?_, ?_, ?_, ?_⟩
    · rw [hbit, hbit]; exact expectedBit_89 s f h89
    · intro hcnt
      have hs : isRefine s = false := by
        cases hq : isRefine s
        · rfl
        · simp only [hq, if_true] at cR; omega
      rw [hbit, expectedBit_3 s f hs]
      exact h3 (by simp only [hs]; omega)
    · intro hcnt
      have hs : isFill s = false := by
        cases hq : isFill s
        · rfl
        · simp only [hq, if_true] at cF; omega
      rw [hbit, hbit, (expectedBit_45 s f hs).1, (expectedBit_45 s f hs).2]
      exact h45 (by simp only [hs]; omega)
    · omega
    · omega
    · intro hb; cases hb
  · obtain ⟨hf, hsafe⟩ := hB rfl
    obtain ⟨hs, hsafe'⟩ := borderSafe_cons true s ss hsafe rfl
    rw [hf, stepFlag_border_one ops s hs]
    refine ⟨by simp [leftNodataOrBorder], by decide, fun _ => by decide, fun _ => by decide, by omega, by omega,
      fun _ => ⟨rfl, hsafe'⟩⟩

/-- **Pipelines without a repeated refinement or interpolation** (`…_partial`): with the `+=` of the source,
    from any flag the criteria can produce, every step of the run changes only its own bits, and a border pixel
    keeps exactly bit 0 as long as no regularising `median_for_intervals` touches it.
    (Full-strength statement — for *every* pipeline — is `run_ok_of_or` below; it needs `|=`.
    It is false for `+=`: `repeated_refinement_counterexample`, `repeated_interpolation_counterexample`;
    and false on the border after a regularisation: `border_regularized_counterexample`.) -/
theorem run_ok_partial (ops : Ops) (hreg : ops.reg = .or) (border : Bool) (steps : List Step) (f : Nat)
    (hinit : FlagInit f) (hn : NoRepeat steps = true)
    (hb : border = true → f = leftNodataOrBorder ∧ BorderSafe border steps = true) :
    runOK ops border steps f = true := by
  have hinv := flagInv_of_init border steps f hinit hn hb
  clear hinit hn hb
  induction steps generalizing f with
  | nil => rfl
  | cons s ss ih =>
    unfold runOK
    rw [Bool.and_eq_true]
    refine ⟨stepOK_of_clear ops hreg border s f hinv.1 (raiseClear_of_inv ops border s ss f hinv) ?_,
      ih _ (flagInv_step ops hreg border s ss f hinv)⟩
    intro hb
    obtain ⟨hf, hsafe⟩ := hinv.2.2.2.2.2.2 hb
    exact ⟨hf, (borderSafe_cons border s ss hsafe hb).1⟩

/-- **Every pipeline, when the sites raise their bits with `|=`** (`later_steps_own_bits`, `bits_independent`,
    `no_undocumented_bit` at full strength — the statement the proposed fix establishes). -/
theorem run_ok_of_or (ops : Ops) (h : ops.refine = .or ∧ ops.fill = .or ∧ ops.reg = .or) (border : Bool)
    (steps : List Step) (f : Nat) (hlt : f < 4096)
    (hb : border = true → f = leftNodataOrBorder ∧ BorderSafe border steps = true) :
    runOK ops border steps f = true := by
  induction steps generalizing f with
  | nil => rfl
  | cons s ss ih =>
    unfold runOK
    rw [Bool.and_eq_true]
    have hc : RaiseClear ops s f := by
      cases s <;> simp only [RaiseClear] <;> first | exact Or.inl h.1 | exact Or.inl h.2.1 | trivial
    have hb' : border = true → f = leftNodataOrBorder ∧ s ≠ .filterIntervals true := fun hbt =>
      ⟨(hb hbt).1, (borderSafe_cons border s ss (hb hbt).2 hbt).1⟩
    refine ⟨stepOK_of_clear ops h.2.2 border s f hlt hc hb', ih _ (stepFlag_lt ops h.2.2 border s f hlt) ?_⟩
    intro hbt
    obtain ⟨hf, hs⟩ := hb' hbt
    subst hbt
    rw [hf, stepFlag_border_one ops s hs]
    exact ⟨rfl, (borderSafe_cons true s ss (hb rfl).2 rfl).2⟩

/-- **Border pixels after a regularising `median_for_intervals`**: the step raises bit 11 on a border pixel it
    lists in `mask_regularization` — "image-border pixels carry bit 0 only" is then false until the next
    `mask_border` (cross-checking, mc-cnn interpolation). -/
theorem border_regularized_counterexample (ops : Ops) (h : ops.reg = .or) :
    stepFlag ops true (.filterIntervals true) leftNodataOrBorder = 2049
    ∧ stepOK true (.filterIntervals true) leftNodataOrBorder (stepFlag ops true (.filterIntervals true) leftNodataOrBorder) = false
    ∧ stepFlag ops true (.crossCheck .consistent) 2049 = leftNodataOrBorder := by
  obtain ⟨r, c, fl, g⟩ := ops
  simp only at h
  subst h
  cases r <;> cases c <;> cases fl <;> decide

/-- **The full-strength statement is false for `+=`**: a second refinement that stops again on the same pixel
    turns "stopped interpolation" (8) into "filled occlusion" (16) — bit 3 cleared, bit 4 raised. -/
theorem repeated_refinement_counterexample (ops : Ops) (h : ops.refine = .add) :
    runFlags ops false [.refine true, .refine true] 0 = 16
    ∧ runOK ops false [.refine true, .refine true] 0 = false
    ∧ NoRepeat [.refine true, .refine true] = false := by
  obtain ⟨r, c, fl, g⟩ := ops
  simp only at h
  subst h
  cases c <;> cases fl <;> cases g <;> decide

/-- ... and a second validation with interpolation on a pixel found occluded again turns "filled occlusion"
    (16) into "filled mismatch" (32). -/
theorem repeated_interpolation_counterexample (ops : Ops) (h : ops.cc = .add ∧ ops.fill = .add) :
    runFlags ops false [.crossCheck .occlusion, .interpMcCnn true true, .crossCheck .occlusion, .interpMcCnn true true] 0 = 32
    ∧ runOK ops false [.crossCheck .occlusion, .interpMcCnn true true, .crossCheck .occlusion, .interpMcCnn true true] 0 = false := by
  obtain ⟨r, c, fl, g⟩ := ops
  simp only at h
  obtain ⟨h1, h2⟩ := h
  subst h1 h2
  cases r <;> cases g <;> decide


/-! ## Part 3 — the source, as regenerated on this run -/

open Pandora.Generated.FlagOps in
/-- the functions whose bit-raising operator (`+=` or `|=`) is a parameter of the model -/
def laterStepFuncs : List String :=
  ["loop_refinement", "loop_approximate_refinement", "disparity_checking", "interpolate_occlusion_mc_cnn",
   "interpolate_mismatch_mc_cnn", "interpolate_occlusion_sgm", "interpolate_mismatch_sgm"]

/-- `+=` and `|=` of the later steps are both written "raise" (which one it is, is read by `sourceOps`) -/
def normSite (x : String × String × String) : String × String × String :=
  if laterStepFuncs.contains x.1 && (x.2.1 == "add" || x.2.1 == "or") then (x.1, "raise", x.2.2) else x

/-- what the model assumes of the source: every statement that updates a validity mask, in order -/
def documentedSites : List (String × String × String) := [
  ("validity_mask", "add", "cst.PANDORA_MSK_PIXEL_RIGHT_INCOMPLETE_DISPARITY_RANGE"),
  ("validity_mask", "add", "cst.PANDORA_MSK_PIXEL_RIGHT_INCOMPLETE_DISPARITY_RANGE"),
  ("validity_mask", "add", "cst.PANDORA_MSK_PIXEL_RIGHT_INCOMPLETE_DISPARITY_RANGE"),
  ("validity_mask", "add", "cst.PANDORA_MSK_PIXEL_RIGHT_NODATA_OR_DISPARITY_RANGE_MISSING"),
  ("allocate_left_mask", "add", "dil.astype(np.uint16) * cst.PANDORA_MSK_PIXEL_LEFT_NODATA_OR_BORDER"),
  ("allocate_left_mask", "add", "xr.where((r_mask != img_left.attrs['no_data_mask']) & (r_mask != img_left.attrs['valid_pixels']), cst.PANDORA_MSK_PIXEL_IN_VALIDITY_MASK_LEFT, 0).astype(np.uint16)"),
  ("allocate_right_mask", "add", "cst.PANDORA_MSK_PIXEL_IN_VALIDITY_MASK_RIGHT"),
  ("allocate_right_mask", "add", "cst.PANDORA_MSK_PIXEL_RIGHT_NODATA_OR_DISPARITY_RANGE_MISSING"),
  ("loop_refinement", "raise", "valid"),
  ("loop_refinement", "raise", "cst.PANDORA_MSK_PIXEL_STOPPED_INTERPOLATION"),
  ("loop_approximate_refinement", "raise", "valid"),
  ("loop_approximate_refinement", "raise", "cst.PANDORA_MSK_PIXEL_STOPPED_INTERPOLATION"),
  ("disparity_checking", "raise", "cst.PANDORA_MSK_PIXEL_OCCLUSION"),
  ("disparity_checking", "raise", "(cst.PANDORA_MSK_PIXEL_MISMATCH * comp).astype(np.uint16)"),
  ("disparity_checking", "sub", "(cst.PANDORA_MSK_PIXEL_OCCLUSION * comp).astype(np.uint16)"),
  ("interpolate_occlusion_mc_cnn", "sub", "cst.PANDORA_MSK_PIXEL_OCCLUSION * msk[arg_valid]"),
  ("interpolate_occlusion_mc_cnn", "raise", "cst.PANDORA_MSK_PIXEL_FILLED_OCCLUSION * msk[arg_valid]"),
  ("interpolate_occlusion_mc_cnn", "sub", "cst.PANDORA_MSK_PIXEL_OCCLUSION * msk[arg_valid]"),
  ("interpolate_occlusion_mc_cnn", "raise", "cst.PANDORA_MSK_PIXEL_FILLED_OCCLUSION * msk[arg_valid]"),
  ("interpolate_mismatch_mc_cnn", "sub", "cst.PANDORA_MSK_PIXEL_MISMATCH"),
  ("interpolate_mismatch_mc_cnn", "raise", "cst.PANDORA_MSK_PIXEL_FILLED_MISMATCH"),
  ("interpolate_occlusion_sgm", "sub", "cst.PANDORA_MSK_PIXEL_OCCLUSION"),
  ("interpolate_occlusion_sgm", "raise", "cst.PANDORA_MSK_PIXEL_FILLED_OCCLUSION"),
  ("interpolate_mismatch_sgm", "sub", "cst.PANDORA_MSK_PIXEL_MISMATCH"),
  ("interpolate_mismatch_sgm", "raise", "cst.PANDORA_MSK_PIXEL_OCCLUSION"),
  ("interpolate_mismatch_sgm", "sub", "cst.PANDORA_MSK_PIXEL_MISMATCH"),
  ("interpolate_mismatch_sgm", "raise", "cst.PANDORA_MSK_PIXEL_FILLED_MISMATCH"),
  ("filter_disparity", "or", "PANDORA_MSK_PIXEL_INTERVAL_REGULARIZED")
]

/-- The statements that update a validity mask in the source are the ones the model follows: same functions,
    same order, same constants; `+=` in criteria.py, `|=` in median_for_intervals.py. -/
theorem sites_documented : Generated.FlagOps.sites.map normSite = documentedSites := by decide +kernel

/-- the refinement methods return 0 or `PANDORA_MSK_PIXEL_STOPPED_INTERPOLATION` as the value added to the mask -/
theorem refinement_returns_documented :
    Generated.FlagOps.refinementReturns.all (fun x => x.2 == "0" || x.2 == "cst.PANDORA_MSK_PIXEL_STOPPED_INTERPOLATION") = true := by
  decide

/-- the constants of pandora/constants.py are the documented bits the model uses -/
theorem constants_documented :
    Generated.Constants.PANDORA_MSK_PIXEL_LEFT_NODATA_OR_BORDER = leftNodataOrBorder
    ∧ Generated.Constants.PANDORA_MSK_PIXEL_RIGHT_NODATA_OR_DISPARITY_RANGE_MISSING = rightNodataOrRangeMissing
    ∧ Generated.Constants.PANDORA_MSK_PIXEL_RIGHT_INCOMPLETE_DISPARITY_RANGE = rightIncompleteRange
    ∧ Generated.Constants.PANDORA_MSK_PIXEL_STOPPED_INTERPOLATION = stoppedInterpolation
    ∧ Generated.Constants.PANDORA_MSK_PIXEL_FILLED_OCCLUSION = filledOcclusion
    ∧ Generated.Constants.PANDORA_MSK_PIXEL_FILLED_MISMATCH = filledMismatch
    ∧ Generated.Constants.PANDORA_MSK_PIXEL_IN_VALIDITY_MASK_LEFT = inValidityMaskLeft
    ∧ Generated.Constants.PANDORA_MSK_PIXEL_IN_VALIDITY_MASK_RIGHT = inValidityMaskRight
    ∧ Generated.Constants.PANDORA_MSK_PIXEL_OCCLUSION = occlusion
    ∧ Generated.Constants.PANDORA_MSK_PIXEL_MISMATCH = mismatch
    ∧ Generated.Constants.PANDORA_MSK_PIXEL_INTERVAL_REGULARIZED = intervalRegularized
    ∧ Generated.Constants.PANDORA_MSK_PIXEL_INVALID = pixelInvalid := by decide

/-- `add` unless every bit-raising site of the group is written `|=` -/
def groupOp (funcs : List String) : AddOp :=
  let ops := (Generated.FlagOps.sites.filter fun x => funcs.contains x.1 && x.2.1 != "sub").map (·.2.1)
  if !ops.isEmpty && ops.all (· == "or") then .or else .add

/-- the operators the source uses now -/
def sourceOps : Ops :=
  { refine := groupOp ["loop_refinement", "loop_approximate_refinement"],
    cc := groupOp ["disparity_checking"],
    fill := groupOp ["interpolate_occlusion_mc_cnn", "interpolate_mismatch_mc_cnn", "interpolate_occlusion_sgm", "interpolate_mismatch_sgm"],
    reg := groupOp ["filter_disparity"] }

theorem source_reg_or : sourceOps.reg = .or := by decide

/-! ## Part 4 — the whole story, for the source as it is now -/

theorem flagInit_modelMask (J : CvInput) (r c : Nat) (hd : J.dmin ≤ J.dmax) (hr : r < J.rows) (hc : c < J.cols) :
    FlagInit (modelMask J r c) := by
  cases hb : isBorder J.toInput r c
  · obtain ⟨_, _, _, _, _, _, klt, k3, k4, k5⟩ := criteria_interior J r c hd (interior_of_not_border _ r c hr hc hb)
    have e3 := hasBit_two_pow (modelMask J r c) 3
    have e4 := hasBit_two_pow (modelMask J r c) 4
    have e5 := hasBit_two_pow (modelMask J r c) 5
    simp only [Nat.reducePow] at e3 e4 e5
    exact ⟨klt, by rw [← e3]; exact k3, by rw [← e4]; exact k4, by rw [← e5]; exact k5⟩
  · rw [(criteria_border J r c hb).1]
    exact ⟨by decide, by decide, by decide, by decide⟩

/-- **C04 for the code as it is** — for every image pair, mask layout, interval, window, sub-pixel factor,
    every in-image pixel, and every sequence of later steps with arbitrary decisions:
    (1) the mask built with the cost volume satisfies every "before validation" clause (`criteria_spec`);
    (2) no undocumented bit ever appears, whatever is repeated;
    (3) when no refinement and no interpolation is repeated (and no regularisation touches a border pixel),
        each step changes only its own bits and border pixels keep exactly bit 0;
    (4) were every site to use `|=`, (3) would hold for every pipeline. -/
theorem source_story (J : CvInput) (invalid : Val) (r c : Nat) (hd : J.dmin ≤ J.dmax) (hr : r < J.rows) (hc : c < J.cols)
    (steps : List Step) (hsafe : BorderSafe (isBorder J.toInput r c) steps = true) :
    failingClauses J invalid r c (modelMask J r c) (allNanOf J r c) none = []
    ∧ runFlags sourceOps (isBorder J.toInput r c) steps (modelMask J r c) < 4096
    ∧ (NoRepeat steps = true → runOK sourceOps (isBorder J.toInput r c) steps (modelMask J r c) = true)
    ∧ ((sourceOps.refine = .or ∧ sourceOps.fill = .or) →
        runOK sourceOps (isBorder J.toInput r c) steps (modelMask J r c) = true) := by
  have hinit := flagInit_modelMask J r c hd hr hc
  have hlt : modelMask J r c < 4096 := by have := hinit.1; omega
  have hb : isBorder J.toInput r c = true →
      modelMask J r c = leftNodataOrBorder ∧ BorderSafe (isBorder J.toInput r c) steps = true :=
    fun hbt => ⟨(criteria_border J r c hbt).1, hsafe⟩
  exact ⟨criteria_spec J invalid r c hd hr hc,
    run_lt_4096 sourceOps source_reg_or _ steps _ hlt,
    fun hn => run_ok_partial sourceOps source_reg_or _ steps _ hinit hn hb,
    fun h => run_ok_of_or sourceOps ⟨h.1, h.2, source_reg_or⟩ _ steps _ hlt hb⟩

/-- ... and, as long as the source raises bit 3 with `+=`, the repeated refinement really breaks the
    independence of the bits (this theorem stays true, vacuously, once the source is fixed). -/
theorem source_repeated_refinement :
    sourceOps.refine = .add →
      runFlags sourceOps false [.refine true, .refine true] 0 = 16
      ∧ runOK sourceOps false [.refine true, .refine true] 0 = false :=
  fun h => ⟨(repeated_refinement_counterexample sourceOps h).1, (repeated_refinement_counterexample sourceOps h).2.1⟩

/-! ### `invalid_disparity`: NaN or outside the searched interval is enough -/

theorem sample_ne_of_outside (dmin dmax : Int) (s j : Nat) (q : Rat) (hs : 0 < s)
    (hj : j ≤ (dmax - dmin).toNat * s) (hd : dmin ≤ dmax)
    (hq : q < (dmin : Rat) ∨ (dmax : Rat) < q) : (dmin : Rat) + (j : Rat) / (s : Rat) ≠ q := by
  have hs' : (0 : Rat) < (s : Rat) := Rat.natCast_pos.mpr hs
  have h0 : ¬ ((j : Rat) / (s : Rat) < 0) := by
    rw [Rat.div_lt_iff hs']
    have : (0 : Rat) ≤ (j : Rat) := Rat.natCast_nonneg
    grind
  have h1 : ¬ (((dmax - dmin).toNat : Rat) < (j : Rat) / (s : Rat)) := by
    rw [Rat.lt_div_iff hs', ← Rat.natCast_mul, Rat.not_lt, Rat.natCast_le_natCast]
    exact hj
  have h2 : ((dmax - dmin).toNat : Rat) = (dmax : Rat) - (dmin : Rat) := by
    have : ((dmax - dmin).toNat : Int) = dmax - dmin := by omega
    rw [← Rat.intCast_natCast, this]
    exact Rat.intCast_sub _ _
  rw [h2] at h1
  generalize (j : Rat) / (s : Rat) = x at h0 h1
  grind

/-- the quantifier of the property ("NaN or outside the searched interval") implies the hypothesis of
    `criteria_spec_disp` -/
theorem invalidNotSample_of_outside (J : CvInput) (invalid : Val) (hs : 0 < J.subpix) (hd : J.dmin ≤ J.dmax)
    (h : invalid = Val.nan ∨ ∃ q, invalid = Val.num q ∧ (q < (J.dmin : Rat) ∨ (J.dmax : Rat) < q)) :
    InvalidNotSample J.dmin J.subpix (nDisp J) invalid := by
  intro j hj
  rcases h with rfl | ⟨q, rfl, hq⟩
  · rfl
  · unfold sameVal
    have := sample_ne_of_outside J.dmin J.dmax J.subpix j q hs (by unfold nDisp at hj; omega) hd hq
    simpa using this

/-! ### non-vacuity: a concrete scene satisfies the hypotheses and exercises the clauses -/

/-- 3 × 7 scene, 3 × 3 window, interval [-2, 1], sub-pixel 2; a nodata cell in the left mask, two masked columns
    in the right mask -/
def exJ : CvInput :=
  { rows := 3, cols := 7, off := 1, col0 := 0, dmin := -2, dmax := 1, hasL := true,
    mL := fun r c => if r = 0 ∧ c = 5 then Cls.nodata else Cls.valid,
    hasR := true, mR := fun _ c => if c ≤ 2 then Cls.invalid else Cls.valid,
    subpix := 2, pixMin := fun _ _ => -2, pixMax := fun _ _ => 1 }

example : exJ.dmin ≤ exJ.dmax := by decide
example : (List.range 7).map (modelMask exJ 1) = [1, 134, 4, 0, 3, 7, 1] := by decide
example : failingClauses exJ (Val.num (-9999)) 1 1 (modelMask exJ 1 1) (allNanOf exJ 1 1) none = [] := by decide
/-- a wrong mask value is caught by the executable specification -/
example : failingClauses exJ (Val.num (-9999)) 1 1 4 (allNanOf exJ 1 1) none
    = ["invalid_iff_all_nan", "bit1_cause", "bit7_cause"] := by decide
example : InvalidNotSample exJ.dmin exJ.subpix (nDisp exJ) (Val.num (-9999)) :=
  invalidNotSample_of_outside exJ _ (by decide) (by decide) (Or.inr ⟨-9999, rfl, Or.inl (by decide)⟩)
example : NoRepeat [.refine true, .filter, .crossCheck .mismatch, .interpSgm false true true, .crossCheck .consistent] = true := by decide
example : runFlags Ops.current false [.refine true, .filter, .crossCheck .mismatch, .interpSgm false true true] 4 = 44 := by decide
example : sourceOps = Ops.current ∨ sourceOps.refine = .or ∨ sourceOps.fill = .or ∨ sourceOps.cc = .or := by decide

end Pandora.C04
