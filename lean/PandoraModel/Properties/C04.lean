/- C04 — theorems (work in progress). -/
import PandoraModel.Model.Criteria
import PandoraModel.Model.FlagSteps
import PandoraModel.Generated.Constants
import PandoraModel.Generated.FlagOps

namespace Pandora.C04
theorem wip : Pandora.Criteria.preInvalidBits = 195 := by decide
end Pandora.C04
