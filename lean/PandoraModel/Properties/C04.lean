/- C04 — theorems (placeholder until the property is built). -/
