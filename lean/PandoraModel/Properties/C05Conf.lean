/-
  C05 / C17 — `check_conf` as a whole: the input section (`Properties/C17Whole.lean`) followed by the
  pipeline section (`Properties/C05Whole.lean`) on the metadata of the two images the input section
  names, the two results concatenated.

    `checkConf_ok_iff`       `check_conf` returns normally iff both sections do; the result is
                             `{"input": completed input, "pipeline": completed pipeline}` and nothing else
                             (other top-level keys of the user's dictionary are dropped)
    `checkConf_idempotent`   checking the returned configuration again returns it unchanged
-/
import PandoraModel.Properties.C05Whole
import PandoraModel.Properties.C17Whole

namespace Pandora.C05C
open Pandora Pandora.Config Pandora.ConfigSpec Pandora.Generated.Schemas

/-- the image descriptions the pipeline checks read off a completed input section -/
def imagesOf (files : Files) (L' R' : Dict) : ImgInfo × ImgInfo :=
  (metadata files (.obj L'), metadata files (.obj R'))

/-- **`check_conf` = input section, then pipeline section on the images it names, concatenated** -/
theorem checkConf_ok_iff (files : Files) (fl : MachineFlags) (user kvs P : Dict) (m m' : CState) (out : Dict)
    (hin : Dict.lookup user "input" = some (.obj kvs)) (hpi : Dict.lookup user "pipeline" = some (.obj P))
    (hnd : (Dict.keys kvs).Nodup) (hfresh : C05W.FreshFor fl m) (hwf : Merge.wfDict P = true) :
    checkConf files inputSchemas fl registry user m = .ok (out, m') ↔
      ∃ L' R' M,
        checkInputSection files fl inputSchemas [("input", .obj kvs)] =
          .ok [("input", .obj [("left", .obj L'), ("right", .obj R')])] ∧
        checkPipelineSection (fileOracle files) fl registry [("pipeline", .obj P)]
          (imagesOf files L' R').1 (imagesOf files L' R').2 m = .ok ([("pipeline", .obj M)], m') ∧
        out = [("input", .obj [("left", .obj L'), ("right", .obj R')]), ("pipeline", .obj M)] := by
  unfold checkConf
  have hgi : getConfigInput user = [("input", .obj kvs)] := by simp [getConfigInput, hin]
  have hgp : getConfigPipeline user = [("pipeline", .obj P)] := by simp [getConfigPipeline, hpi]
  rw [hgi, hgp]
  have hlr : ("left" : String) = "right" ↔ False := by decide
  have hip : ("input" : String) = "pipeline" ↔ False := by decide
  constructor
  · intro h
    cases hci : checkInputSection files fl inputSchemas [("input", .obj kvs)] with
    | error e => simp [hci] at h
    | ok cfgInput =>
      obtain ⟨L, R, L', R', _, _, _, _, _, _, hout⟩ := (C17W.checkInputSection_ok_iff files fl kvs cfgInput hnd).1 hci
      subst hout
      simp only [hci, Dict.lookup, if_true, Option.getD_some, subscript, hlr, if_false] at h
      cases hcp : checkPipelineSection (fileOracle files) fl registry [("pipeline", .obj P)]
          (metadata files (.obj L')) (metadata files (.obj R')) m with
      | error e => simp [hcp] at h
      | ok res =>
        obtain ⟨cfgPipe, m1⟩ := res
        obtain ⟨hcp1, _, _⟩ := C05W.checkPipelineSection_structure hfresh hwf hcp
        subst hcp1
        simp only [hcp, List.foldl_cons, List.foldl_nil, Dict.setKey, Except.ok.injEq, Prod.mk.injEq, hip, if_false] at h
        obtain ⟨h1, h2⟩ := h
        subst h2
        exact ⟨L', R', m1.pipelineCfg, rfl, hcp, h1.symm⟩
  · intro ⟨L', R', M, hci, hcp, hout⟩
    simp only [imagesOf] at hcp
    simp only [hci, Dict.lookup, if_true, Option.getD_some, subscript, hlr, hip, if_false, hcp, List.foldl_cons,
      List.foldl_nil, Dict.setKey, hout]

/-- **`check_conf` is idempotent**: the configuration it returns, checked again on a machine that
    does not carry steps over, is returned unchanged -/
theorem checkConf_idempotent (files : Files) (fl : MachineFlags) (user kvs P : Dict) (m m' : CState) (out : Dict)
    (hin : Dict.lookup user "input" = some (.obj kvs)) (hpi : Dict.lookup user "pipeline" = some (.obj P))
    (hnd : C17W.NodupSection kvs) (hfresh : C05W.FreshFor fl m) (hwf : Merge.wfDict P = true)
    (h : checkConf files inputSchemas fl registry user m = .ok (out, m'))
    (m2 : CState) (hfresh2 : C05W.FreshFor fl m2) :
    ∃ m2', checkConf files inputSchemas fl registry out m2 = .ok (out, m2') := by
  obtain ⟨L', R', M, hci, hcp, hout⟩ := (checkConf_ok_iff files fl user kvs P m m' out hin hpi hnd.1 hfresh hwf).1 h
  have hci2 := C17W.checkInputSection_idempotent hnd hci
  obtain ⟨m2', hcp2⟩ := C05W.checkPipelineSection_idempotent hfresh hwf hcp m2 hfresh2
  -- the result of the first pipeline check is itself a well-formed pipeline
  obtain ⟨hmach, _⟩ := C05W.checkPipelineSection_machine hfresh hwf hcp
  have hw' := Merge.wfDict_deepRwD P hwf
  have hchecked := C05.machineCheck_fresh (fileOracle files) fl registry (Merge.deepRwD P) _ _ m m' hfresh
    (Merge.wfDict_keys_nodup _ hw') hmach
  obtain ⟨hMw, _⟩ := C05W.checked_wf hw' (Merge.deepRwD_idem P) hchecked
  have hMeq : M = m'.pipelineCfg := by
    obtain ⟨hs, _, _⟩ := C05W.checkPipelineSection_structure hfresh hwf hcp
    simpa using hs
  refine ⟨m2', ?_⟩
  apply (checkConf_ok_iff files fl out [("left", .obj L'), ("right", .obj R')] M m2 m2' out
    (by rw [hout]; simp [Dict.lookup]) (by rw [hout]; simp [Dict.lookup]) (by simp [Dict.keys]) hfresh2
    (by rw [hMeq]; exact hMw)).2
  exact ⟨L', R', M, hci2, hcp2, hout⟩

end Pandora.C05C
