/- C19 — theorems (placeholder until the property is built). -/
