/-
  C19 — Saved products equal the computed ones and the saved configuration replays.

  Theorems about the executable model `Model/Save.lean`, instantiated (section 5) with what the
  translator regenerated from `pandora/common.py`, `pandora/output_tree_design.py` and
  `pandora/__init__.py` on this run (`Generated/SaveTable.lean`), and with C01's model of the machine
  for "the right files exist iff the pipeline has a validation step".

  Proved for all products (any size, any number of indicators, any cell values incl. NaN), all
  pipelines and all input sections:
    * `bandLoop_eq`                the loop `range(1, depth + 1)` / `data[:, :, dsp - 1]` writes band k = slice k, named
                                   after indicator k, for every depth;
    * `saveResults_spec`           `save_results` driven by the documented table writes exactly the documented files
                                   (names, directory, dtype, band names, values, georeferencing; right files iff the right
                                   dataset is not empty; confidence file iff bands exist); `source_table_documented`
                                   (decide): the table and the output tree in the source are the documented ones;
    * `right_product_iff_validation` the right dataset is produced iff the accepted pipeline has a validation step;
    * `refeed_spec`                the saved configuration is accepted when fed back, completes to itself, and gives the
                                   second run the same input sections — when `main` does not write the derived right interval
                                   into it, or the disparities are grids; `checkPipeline_fixpoint` for the pipeline section
                                   given idempotent step checks (C05);
    * `refeed_rejected_when_written` (F13): today, for EVERY accepted integer-disparity configuration, the saved file is refused.
  Modelled, not verified: GeoTIFF encoding/decoding (rasterio/GDAL), json.dump/json.load, dtype casts; they are sampled by
  the correspondence through the real `pandora.main`.
-/
import PandoraModel.Model.Save
import PandoraModel.Generated.SaveTable
import PandoraModel.Properties.C01

namespace Pandora.C19
open Pandora.Save Pandora.Dataset

/-! ### 1. Bounded quantifiers, the band loop -/


theorem allB_iff (n : Nat) (f : Nat → Bool) : allB n f = true ↔ ∀ i, i < n → f i = true := by
  simp [allB, List.all_eq_true, List.mem_range]

theorem allRC_iff (rows cols : Nat) (f : Nat → Nat → Bool) :
    allRC rows cols f = true ↔ ∀ r, r < rows → ∀ c, c < cols → f r c = true := by
  simp [allRC, List.all_eq_true, List.mem_range]

theorem sameGrid_refl (rows cols : Nat) (a : Nat → Nat → FVal) : sameGrid rows cols a a = true := by
  simp [sameGrid, allRC_iff]

/-- **The band loop** `for dsp in range(1, depth + 1): write(data[:, :, dsp - 1], dsp)` writes, for
    every depth, band `k` (0-based) = slice `k`, named after the `k`-th name. -/
theorem bandLoop_eq (depth : Nat) (data : Nat → Nat → Nat → FVal) (names : Option (List String)) :
    bandLoop depth data names =
      (List.range depth).map fun k => { name := names.bind fun l => l[k]?, px := data k } := by
  unfold bandLoop
  rw [List.range'_eq_map_range, List.map_map]
  apply List.map_congr_left
  intro k _
  simp

theorem bandLoop_length (depth : Nat) (data) (names) : (bandLoop depth data names).length = depth := by
  simp [bandLoop]

theorem bandLoop_names (ind : List String) (data : Nat → Nat → Nat → FVal) :
    (bandLoop ind.length data (some ind)).map (·.name) = ind.map some := by
  rw [bandLoop_eq, List.map_map]
  apply List.ext_getElem
  · simp
  · intro i h1 h2
    simp at h1
    simp [h1]

theorem bandLoop_px (depth : Nat) (data : Nat → Nat → Nat → FVal) (names) (k : Nat) (hk : k < depth) :
    ((bandLoop depth data names)[k]?.getD default).px = data k := by
  rw [bandLoop_eq]
  simp [hk]

theorem bandLoop_grid (rows cols depth : Nat) (data : Nat → Nat → Nat → FVal) (names) (k : Nat) (hk : k < depth) :
    sameGrid rows cols ((bandLoop depth data names)[k]?.getD default).px (data k) = true := by
  rw [bandLoop_px _ _ _ k hk]
  exact sameGrid_refl _ _ _

theorem specConf_written (name : String) (p : Product) (ind : List String) (d3 : Nat → Nat → Nat → FVal)
    (hp : p.conf = some (ind, d3)) (files : List OutFile)
    (hf : findFile files name = some (writeDataArray "." name "float32" p.geo p.rows p.cols
            (.inr (ind.length, fun k r c => d3 r c k)) (some ind)))
    (hc : countFile files name = 1) :
    (specConf files name p).all (·.2) = true := by
  simp only [specConf, hp, hf, writeDataArray, hc]
  simp [bandLoop_names, bandLoop_length, allB_iff]
  intro k hk
  exact bandLoop_grid _ _ _ _ _ k hk

/-! ### 2. `save_results` -/

/-- **`save_results` with the documented table writes exactly the documented files**, for every
    pair of products: left disparity / validity always, a confidence file per side iff the side has
    confidence bands (one band per indicator, in order, named after it), the right files iff the right
    dataset is not empty; values, dtype, directory and georeferencing as specified. -/
theorem saveResults_spec (left right : Product) :
    specSave left right (saveResults documentedOtd documentedTable left right) = true := by
  obtain ⟨lne, lr, lc, ld, lv, lconf, lgeo⟩ := left
  obtain ⟨rne, rr, rc, rd, rv, rconf, rgeo⟩ := right
  cases rne <;> cases lconf <;> cases rconf <;>
    simp [specSave, specSaveClauses, saveResults, documentedTable, documentedOtd, runRow, otdDir, writeDataArray,
      specPlain, specConf, findFile, countFile, sameGrid_refl, leftNames, rightNames,
      bandLoop_names, bandLoop_length, allB_iff] <;>
    (try (first
      | (intro k hk; exact bandLoop_grid _ _ _ _ _ k hk)
      | exact ⟨fun k hk => bandLoop_grid _ _ _ _ _ k hk, fun k hk => bandLoop_grid _ _ _ _ _ k hk⟩))

/-- the table of `write_data_array` calls and the output tree in the source are the documented ones -/
theorem source_table_documented :
    Pandora.Generated.saveTable = documentedTable ∧ Pandora.Generated.otd = documentedOtd := by decide

theorem source_saveResults_spec (left right : Product) :
    specSave left right (saveResults Pandora.Generated.otd Pandora.Generated.saveTable left right) = true := by
  rw [source_table_documented.1, source_table_documented.2]
  exact saveResults_spec left right

/-! ### 3. The saved configuration fed back -/

theorem complete_asUser (isRight : Bool) (s : SideCfg) : complete isRight s.asUser = some s := by
  cases s; simp [complete, SideCfg.asUser]

theorem checkInput_asUser (l r : SideCfg) :
    checkInput l.asUser r.asUser = if schemaOk l r then some (l, r) else none := by
  simp [checkInput, complete_asUser]

/-- whether the derived right interval may be written into the saved configuration without harm:
    never for an integer interval -/
def leftIsPath (l : SideCfg) : Bool :=
  match l.disp with
  | .path _ => true
  | _ => false

theorem derivedRight_of_path (l r : DispCfg) (h : ∃ s, l = .path s) : derivedRight l r = r := by
  obtain ⟨s, rfl⟩ := h
  cases r <;> rfl

/-- **`config_refeed_accepted`, `config_refeed_same_rasters`, `config_has_margins`.**
    For every accepted input section, the configuration `main` saves is accepted when fed back,
    completes to itself and hands `create_dataset_from_inputs` the same two sections as the first
    run — provided `main` does not write the derived right interval into it, or the disparities are
    grids (nothing is derived then). -/
theorem refeed_spec {P M} (facts : MainFacts) (l r : SideCfg) (pipeline : P) (margins : M)
    (hacc : schemaOk l r = true) (hm : facts.addsMargins = true)
    (hw : facts.writesRightDisp = true → leftIsPath l = true) :
    (specRefeed l r (mainSaved facts l r pipeline margins)).all (·.2) = true := by
  have hsaved : (mainSaved facts l r pipeline margins).right = r := by
    simp only [mainSaved]
    cases hwr : facts.writesRightDisp with
    | false => simp
    | true =>
      have hp := hw hwr
      simp only [if_true, effectiveRight]
      unfold leftIsPath at hp
      cases hd : l.disp with
      | path s => rw [derivedRight_of_path _ _ ⟨s, rfl⟩]
      | null => rw [hd] at hp; cases hp
      | ints xs => rw [hd] at hp; cases hp
      | other => rw [hd] at hp; cases hp
  have hleft : (mainSaved facts l r pipeline margins).left = l := rfl
  simp only [specRefeed, specRefeedObs, refeedInput, hsaved, hleft, checkInput_asUser, hacc, if_true]
  simp [mainSaved, hm]

/-- **The saved file of every integer-disparity run is refused today** (F13): when `main` writes the
    derived interval, feeding `cfg/config.json` back fails for *every* accepted configuration whose
    disparity is an integer pair. -/
theorem refeed_rejected_when_written {P M} (facts : MainFacts) (l r : SideCfg) (pipeline : P) (margins : M)
    (hacc : schemaOk l r = true) (hwr : facts.writesRightDisp = true) (xs : List Int) (hd : l.disp = .ints xs) :
    refeedInput (mainSaved facts l r pipeline margins) = none := by
  simp only [refeedInput, mainSaved, hwr, if_true, checkInput_asUser]
  simp only [schemaOk, Bool.and_eq_true] at hacc
  obtain ⟨_, hdisp⟩ := hacc
  rw [hd] at hdisp
  simp only [dispOk, Bool.and_eq_true] at hdisp
  obtain ⟨hx, hr⟩ := hdisp
  have hrn : r.disp = .null := by
    cases hrd : r.disp <;> rw [hrd] at hr <;> simp at hr
  match xs, hx with
  | a :: b :: rest, _ =>
    simp [schemaOk, effectiveRight, derivedRight, hd, hrn, dispOk]

/-- **The pipeline section of the saved file completes to itself**, given that each step's check is
    idempotent on its own output (C05 `idempotent`): the second run executes the same steps with the
    same parameters. -/
theorem checkPipeline_fixpoint {S} (chk : S → Option S)
    (hidem : ∀ s s', chk s = some s' → chk s' = some s') :
    ∀ (steps out : List (String × S)), checkPipeline chk steps = some out → checkPipeline chk out = some out := by
  intro steps
  induction steps with
  | nil =>
    intro out h
    simp [checkPipeline] at h
    subst h
    simp [checkPipeline]
  | cons kv rest ih =>
    intro out h
    simp only [checkPipeline, List.mapM_cons] at h
    cases hc : chk kv.2 with
    | none => simp [hc] at h
    | some s' =>
      cases hr : checkPipeline chk rest with
      | none =>
        simp only [checkPipeline] at hr
        simp [hc, hr] at h
      | some out' =>
        have hr' := hr
        simp only [checkPipeline] at hr
        simp [hc, hr] at h
        subst h
        have := ih out' hr'
        simp only [checkPipeline] at this
        simp [checkPipeline, List.mapM_cons, hidem _ _ hc, this]

theorem checkPipeline_names {S} (chk : S → Option S) :
    ∀ (steps out : List (String × S)), checkPipeline chk steps = some out → out.map (·.1) = steps.map (·.1) := by
  intro steps
  induction steps with
  | nil => intro out h; simp [checkPipeline] at h; subst h; rfl
  | cons kv rest ih =>
    intro out h
    simp only [checkPipeline, List.mapM_cons] at h
    cases hc : chk kv.2 with
    | none => simp [hc] at h
    | some s' =>
      cases hr : checkPipeline chk rest with
      | none => simp only [checkPipeline] at hr; simp [hc, hr] at h
      | some out' =>
        have hr' := hr
        simp only [checkPipeline] at hr
        simp [hc, hr] at h
        subst h
        simp [ih out' hr']

/-! ### 4. The right products exist iff the pipeline has a validation step (with C01's machine model) -/

section Pipeline
open Pandora.Machine Pandora.C01


/-- the right disparity map is produced: `disparity_run` took effect on the right data -/
def rightDisparityRan (tr : Trace) : Bool :=
  tr.any fun e => match e with
    | .run cb _ _ right => cb == "disparity_run" && right
    | _ => false

def isRightEvent : Event → Bool
  | .run _ _ _ right => right
  | _ => false

theorem stepEvents_false_noRight (n : String) (s : Nat) : ∀ e ∈ stepEvents n s false, isRightEvent e = false := by
  intro e he
  unfold stepEvents at he
  split at he
  · split at he
    · cases he
    · simp [sideEvents] at he; subst he; rfl
  · simp only [List.mem_flatMap, sideEvents] at he
    obtain ⟨cb, _, hcb⟩ := he
    simp at hcb; subst hcb; rfl
  · cases he

theorem expectedRun_false_noRight (names : List String) (n : Nat) :
    ∀ e ∈ expectedRun names n false, isRightEvent e = false := by
  have hflat : ∀ (l : List String) (s : Nat), ∀ e ∈ l.flatMap (fun nm => stepEvents nm s false), isRightEvent e = false := by
    intro l s e he
    simp only [List.mem_flatMap] at he
    obtain ⟨nm, _, h⟩ := he
    exact stepEvents_false_noRight nm s e h
  have hcoarse : ∀ k, ∀ e ∈ expectedCoarse names false k, isRightEvent e = false := by
    intro k
    induction k with
    | zero => intro e he; cases he
    | succ k ih =>
      intro e he
      simp only [expectedCoarse, List.mem_append] at he
      rcases he with h | h
      · exact hflat _ _ e h
      · exact ih e h
  intro e he
  simp only [expectedRun, List.mem_append] at he
  rcases he with h | h
  · exact hcoarse _ e h
  · exact hflat _ _ e h

theorem rightDisparityRan_false_of_noRight (tr : Trace) (h : ∀ e ∈ tr, isRightEvent e = false) :
    rightDisparityRan tr = false := by
  unfold rightDisparityRan
  rw [List.any_eq_false]
  intro e he
  have := h e he
  cases e with
  | check => simp
  | run cb nm s r => simp [isRightEvent] at this; simp [this]

theorem rightDisparityRan_true (names : List String) (n : Nat) (hd : hasKind .disparity names = true) :
    rightDisparityRan (expectedRun names n true) = true := by
  simp only [hasKind, List.any_eq_true] at hd
  obtain ⟨nm, hmem, hk⟩ := hd
  have hk' : kindOf nm = Kind.disparity.name := by simpa using hk
  unfold rightDisparityRan
  rw [List.any_eq_true]
  refine ⟨Event.run "disparity_run" nm 0 true, ?_, by simp⟩
  simp only [expectedRun, List.mem_append, List.mem_flatMap]
  right
  refine ⟨nm, hmem, ?_⟩
  have : Kind.ofName? (kindOf nm) = some .disparity := by rw [hk']; decide
  simp only [stepEvents, this, runCbsOf, List.flatMap_cons, List.flatMap_nil, List.append_nil, sideEvents, if_true]
  have hs : Kind.disparity.name ++ "_run" = "disparity_run" := by decide
  rw [hs]
  simp

/-- **`right_files_iff_validation`, pipeline half.**  For an accepted pipeline that computes a
    disparity map, run on a machine that has checked it, `disparity_run` takes effect on the right
    data — the right dataset handed to `save_results` is not empty — exactly when the pipeline has a
    validation step. -/
theorem right_product_iff_validation (names : List String) (n : Nat)
    (hp : isPath .begin names = true) (hn : 1 ≤ n) (hms : 2 ≤ n → hasKind .multiscale names = true)
    (hd : hasKind .disparity names = true) :
    rightDisparityRan
      (runPipeline Pandora.Generated.transitionsRun names n { rightDispMap := hasKind .validation names } []).2.2
      = hasKind .validation names := by
  rw [run_accepts runTable_documented names n _ rfl rfl hp hn hms rfl]
  simp only
  cases hv : hasKind .validation names with
  | true => exact rightDisparityRan_true names n hd
  | false => exact rightDisparityRan_false_of_noRight _ (expectedRun_false_noRight names n)

end Pipeline

/-! ### 5. The source as regenerated on this run; non-vacuity -/

/-- `main` sets `cfg["margins"]` before saving -/
theorem source_adds_margins : Pandora.Generated.mainFacts.addsMargins = true := by decide

/-- the saved configuration of the source replays — unconditionally once `main` stops writing the derived
    right interval into it (`writesRightDisp = false` makes the last hypothesis vacuous); for grid
    disparities today -/
theorem source_refeed_spec {P M} (l r : SideCfg) (pipeline : P) (margins : M)
    (hacc : schemaOk l r = true)
    (hw : Pandora.Generated.mainFacts.writesRightDisp = true → leftIsPath l = true) :
    (specRefeed l r (mainSaved Pandora.Generated.mainFacts l r pipeline margins)).all (·.2) = true :=
  refeed_spec _ l r pipeline margins hacc source_adds_margins hw

/-- the repaired `main` (`proposed_fixes/C19-*.diff`): full-strength statement -/
theorem fixed_refeed_spec {P M} (l r : SideCfg) (pipeline : P) (margins : M) (hacc : schemaOk l r = true) :
    (specRefeed l r (mainSaved { writesRightDisp := false, addsMargins := true } l r pipeline margins)).all (·.2) = true :=
  refeed_spec _ l r pipeline margins hacc rfl (fun h => by cases h)

def exLeft : SideCfg := { img := "left.tif", nodata := .nan, mask := none, classif := none, segm := none, disp := .ints [-3, 2] }
def exRight : SideCfg := { img := "right.tif", nodata := .int (-9999), mask := some "m.tif", classif := none, segm := none, disp := .null }
def exLeftGrid : SideCfg := { exLeft with disp := .path "grid.tif" }

/-- F13 on a concrete configuration: accepted, saved with `right.disp = [-2, 3]`, refused when fed back;
    accepted with the repaired `main`, and with grids -/
theorem refeed_current_counterexample :
    schemaOk exLeft exRight = true ∧
    (mainSaved (P := Unit) (M := Unit) { writesRightDisp := true, addsMargins := true } exLeft exRight () ()).right.disp = .ints [-2, 3] ∧
    refeedInput (mainSaved (P := Unit) (M := Unit) { writesRightDisp := true, addsMargins := true } exLeft exRight () ()) = none ∧
    refeedInput (mainSaved (P := Unit) (M := Unit) { writesRightDisp := false, addsMargins := true } exLeft exRight () ()) = some (exLeft, exRight) ∧
    refeedInput (mainSaved (P := Unit) (M := Unit) { writesRightDisp := true, addsMargins := true } exLeftGrid exRight () ()) = some (exLeftGrid, exRight) := by
  decide

/-- non-vacuity of `refeed_spec`'s hypotheses -/
example : schemaOk exLeftGrid exRight = true ∧ leftIsPath exLeftGrid = true := by decide

/-- non-vacuity of `right_product_iff_validation` -/
example : Pandora.Machine.isPath .begin ["matching_cost", "disparity", "filter", "validation"] = true ∧
    Pandora.Machine.hasKind .disparity ["matching_cost", "disparity", "filter", "validation"] = true ∧
    Pandora.Machine.hasKind .validation ["matching_cost", "disparity", "filter", "validation"] = true ∧
    Pandora.Machine.hasKind .validation ["matching_cost", "disparity", "filter.1"] = false := by decide

def exProduct : Product :=
  { nonEmpty := true, rows := 2, cols := 2, disparity := fun r c => if r = c then .nan else .num (r - c : Int),
    validity := fun r c => .num (64 * r + c : Nat),
    conf := some (["confidence_from_ambiguity", "confidence_from_intensity_std"], fun r c k => .num (r + 2 * c + 3 * k : Nat)),
    geo := "EPSG:32631|0.5" }

/-- the specification discriminates: dropping the validity mask, or writing it as int16, is rejected -/
example : specSave exProduct Product.empty (saveResults documentedOtd documentedTable exProduct Product.empty) = true ∧
    specSave exProduct Product.empty ((saveResults documentedOtd documentedTable exProduct Product.empty).take 2) = false ∧
    specSave exProduct exProduct (saveResults documentedOtd documentedTable exProduct Product.empty) = false := by
  decide

end Pandora.C19
