/-
  C16 — the dataset construction of pandora/img_tools.py (`add_mask`, `add_no_data`, `add_disparity`, the nodata
  detection and the pipe wiring at the end of `create_dataset_from_inputs`), regenerated from the source
  (`Generated/KernelsDataset.lean`, written by `translator/gen_kernels_dataset.py`), equals the hand model
  `Model/Dataset.lean` with the repaired parameters (`Params.fixed`: `input_mask != 0`) — for every raster, band count,
  mask (ANY integer values: the raw raster is compared, whatever its width), nodata value (finite, NaN, ±inf), window.

  Dtype casts are explicit in the generated text (`PyArr.wrapInt`): the three constants stored into the int16 `msk`
  (0, 1, 2) are unchanged by the wrap (`decide`); a cast of the INPUT mask before the `!= 0` test would need
  `wrapInt 16 true v ≠ 0 ↔ v ≠ 0`, which is false (65536) — see `wrap_loses_the_mask`.
-/
import PandoraModel.Properties.C16
import PandoraModel.Generated.KernelsDataset

set_option linter.unusedSimpArgs false

namespace Pandora.C16KernelsDataset
open Pandora Pandora.Dataset Pandora.PyArr Pandora.Generated.KernelsDataset

/-- the detection chain of `create_dataset_from_inputs` is the model's `detect`, sample by sample -/
theorem noDataPixels_eq (nodata : FVal) (im : Nat → Nat → Nat → FVal) (b r c : Nat) :
    noDataPixels nodata im b r c = detect nodata (im b r c) := by
  unfold noDataPixels detect
  split
  · rfl
  · split <;> rfl

theorem anyIdx3_eq (nb rows cols : Nat) (m : Nat → Nat → Nat → Bool) :
    anyIdx3 nb rows cols m = anyRC rows cols (fun r c => anyB nb fun b => m b r c) := rfl

theorem pix2_eq (nb : Nat) (m : Nat → Nat → Nat → Bool) (r c : Nat) : pix2 nb m r c = anyB nb (fun b => m b r c) := rfl

theorem wrap16_consts : wrapInt 16 true 0 = 0 ∧ wrapInt 16 true 1 = 1 ∧ wrapInt 16 true (0 + 1 + 1) = 2 := by decide

/-- why the input mask must not be cast before it is tested: 65536 is a non-zero mask value that int16 reads as 0 -/
theorem wrap_loses_the_mask : (65536 : Int) ≠ 0 ∧ wrapInt 16 true 65536 = 0 := by decide

section Read
variable (inp : Input) (ro co rows cols : Nat)

/-- what `img_ds.read(out_dtype=float32, window=window)` hands to the tail -/
def windowed : Nat → Nat → Nat → FVal := fun b r c => inp.im b (r + ro) (c + co)

/-- what `rasterio_open(mask).read(1, window=window)` returns when there is a mask -/
def windowedMask : Option (Nat → Nat → Int) := inp.mask.map fun mf => fun r c => mf (r + ro) (c + co)

@[simp] theorem windowed_apply (b r c : Nat) : windowed inp ro co b r c = inp.im b (r + ro) (c + co) := rfl

/-- **`add_no_data` (+ the detection) regenerated = model**: image samples and `no_data_img` -/
theorem addNoData_generated :
    (datasetTail inp.nbands rows cols inp.nodata (windowed inp ro co) (windowedMask inp ro co)).1
        = (readDS Params.fixed inp ro co rows cols).im
    ∧ (datasetTail inp.nbands rows cols inp.nodata (windowed inp ro co) (windowedMask inp ro co)).2.1
        = (readDS Params.fixed inp ro co rows cols).noDataImg := by
  unfold datasetTail addNoData readDS
  simp only [anyIdx3_eq, noDataPixels_eq, windowed_apply, Params.fixed]
  by_cases h : (anyRC rows cols (fun r c => anyB inp.nbands fun b => detect inp.nodata (inp.im b (r + ro) (c + co)))
      && (inp.nodata.isNan || inp.nodata.isInf)) = true
  · simp only [h, if_true]
    refine ⟨?_, by first | rfl | trivial⟩
    funext b r c
    simp
  · simp only [h, Bool.false_eq_true, if_false]
    refine ⟨?_, by first | rfl | trivial⟩
    funext b r c
    simp

/-- **`add_mask` regenerated = model**: presence and every cell of `msk`, for any integer mask values -/
theorem addMask_generated :
    (datasetTail inp.nbands rows cols inp.nodata (windowed inp ro co) (windowedMask inp ro co)).2.2
        = (readDS Params.fixed inp ro co rows cols).msk := by
  unfold datasetTail addMask readDS
  simp only [anyIdx3_eq, noDataPixels_eq, windowed_apply, windowedMask]
  have hp : Generated.imgToolsParams.validPixels = 0 ∧ Generated.imgToolsParams.noDataMask = 1 := by decide
  obtain ⟨w0, w1, w2⟩ := wrap16_consts
  cases hm : inp.mask with
  | none =>
    simp only [Option.map_none, Option.isNone_none, Bool.true_and]
    split
    · rfl
    · congr 1
      funext r c
      simp [mskValue, hp.1, hp.2, w0, w1, pix2_eq, noDataPixels_eq, Params.fixed, windowed_apply]
  | some mf =>
    simp only [Option.map_some, Option.isNone_some, Bool.false_and, Bool.false_eq_true, if_false]
    congr 1
    funext r c
    simp only [mskValue, maskTest, Params.invalidValue, Params.fixed, hp.1, hp.2, w0, w1, w2, pix2_eq, noDataPixels_eq,
      windowed_apply]
    by_cases hh : anyB inp.nbands (fun b => detect inp.nodata (inp.im b (r + ro) (c + co))) = true
    · simp [hh]
    · by_cases hv : mf (r + ro) (c + co) = 0 <;> simp [hh, hv]

/-- **`add_disparity` regenerated = model** -/
theorem addDisparity_generated :
    addDisparity inp.disp ro co = (readDS Params.fixed inp ro co rows cols).disp := by
  unfold addDisparity readDS
  cases inp.disp <;> rfl

/-- the dataset assembled from the regenerated functions (the fields they do not produce taken from the model) -/
def generatedDS : DS :=
  { readDS Params.fixed inp ro co rows cols with
    im := (datasetTail inp.nbands rows cols inp.nodata (windowed inp ro co) (windowedMask inp ro co)).1
    noDataImg := (datasetTail inp.nbands rows cols inp.nodata (windowed inp ro co) (windowedMask inp ro co)).2.1
    msk := (datasetTail inp.nbands rows cols inp.nodata (windowed inp ro co) (windowedMask inp ro co)).2.2
    disp := addDisparity inp.disp ro co }

theorem generatedDS_eq : generatedDS inp ro co rows cols = readDS Params.fixed inp ro co rows cols := by
  unfold generatedDS
  rw [(addNoData_generated inp ro co rows cols).1, (addNoData_generated inp ro co rows cols).2,
    addMask_generated inp ro co rows cols, addDisparity_generated inp ro co rows cols]

/-- **C16 for the regenerated functions** (any window): `nan_inf_replaced`, `nodata_iff_equal`,
    `invalid_iff_mask_nonzero`, `valid_otherwise`, `no_mask_when_nothing`, `disparity_var` (and the other clauses of a
    read) hold of the dataset built by the generated `add_no_data`, `add_mask`, `add_disparity` — no hypothesis on the
    mask values. -/
theorem generated_read_spec :
    specRead (cropInput inp ro co rows cols) ro co (generatedDS inp ro co rows cols) = true := by
  rw [generatedDS_eq]
  exact C16.read_spec_window Params.fixed inp ro co rows cols rfl rfl

end Read

/-- the clause list really contains the six clauses named in the task -/
example : ["nan_inf_replaced", "nodata_iff_equal", "invalid_iff_mask_nonzero", "valid_otherwise", "no_mask_when_nothing",
    "disparity_var"].all (fun n => clauseNames.contains n) = true := by decide

end Pandora.C16KernelsDataset
