/-
  C08 — Right-image products equal the left products of the mirrored problem.

  The wiring of every run callback is regenerated from pandora/state_machine.py on every run
  (`Generated/Wiring.lean`).  It is proved (decide, over the generated table) that each callback
  repeats its left-data operations on the exchanged data with no interference between the two sides,
  and (for any meaning of the operations, any store, any sequence of callbacks — induction) that running
  on the exchanged store gives the exchanged result.
-/
import PandoraModel.Model.Wiring
import PandoraModel.Generated.Wiring

namespace Pandora.C08
open Pandora.Wiring

/-! ### 1. `swapName` is an involution -/

def names : List (String × String) → List String
  | [] => []
  | (a, b) :: ps => a :: b :: names ps

theorem swapIn_not_mem (ps : List (String × String)) (n : String) (h : n ∉ names ps) : swapIn ps n = n := by
  induction ps with
  | nil => rfl
  | cons p ps ih =>
    obtain ⟨a, b⟩ := p
    simp only [names, List.mem_cons, not_or] at h
    simp [swapIn, h.1, h.2.1, ih h.2.2]

theorem swapIn_mem (ps : List (String × String)) (n : String) (h : n ∈ names ps) : swapIn ps n ∈ names ps := by
  induction ps with
  | nil => simp [names] at h
  | cons p ps ih =>
    obtain ⟨a, b⟩ := p
    simp only [swapIn]
    by_cases h1 : n = a
    · simp [h1, names]
    · by_cases h2 : n = b
      · simp [h2, names]
      · simp only [h1, h2, if_false]
        simp only [names, List.mem_cons] at h ⊢
        rcases h with h | h | h
        · exact absurd h h1
        · exact absurd h h2
        · exact Or.inr (Or.inr (ih h))

theorem swapIn_invol (ps : List (String × String)) (hnd : (names ps).Nodup) (n : String) :
    swapIn ps (swapIn ps n) = n := by
  induction ps with
  | nil => rfl
  | cons p ps ih =>
    obtain ⟨a, b⟩ := p
    simp only [names, List.nodup_cons, List.mem_cons, not_or] at hnd
    obtain ⟨⟨hab, ha⟩, hb, hps⟩ := hnd
    by_cases h1 : n = a
    · subst h1; simp [swapIn, Ne.symm hab]
    · by_cases h2 : n = b
      · subst h2; simp [swapIn, h1]
      · have hr : swapIn ((a, b) :: ps) n = swapIn ps n := by simp [swapIn, h1, h2]
        rw [hr]
        have hne : swapIn ps n ≠ a ∧ swapIn ps n ≠ b := by
          by_cases hm : n ∈ names ps
          · have := swapIn_mem ps n hm
            exact ⟨fun h => ha (h ▸ this), fun h => hb (h ▸ this)⟩
          · rw [swapIn_not_mem ps n hm]; exact ⟨h1, h2⟩
        simp [swapIn, hne.1, hne.2, ih hps]

theorem swapName_invol (n : String) : swapName (swapName n) = n :=
  swapIn_invol swapPairs (by decide) n

theorem swapName_eq_iff (n t : String) : n = swapName t ↔ swapName n = t := by
  constructor
  · intro h; rw [h, swapName_invol]
  · intro h; rw [← h, swapName_invol]

theorem swapEffect_invol (e : Effect) : swapEffect (swapEffect e) = e := by
  cases e
  simp [swapEffect, List.map_map, Function.comp_def, swapName_invol]

theorem swapStore_invol {V : Type} (s : Store V) : swapStore (swapStore s) = s := by
  funext n; simp [swapStore, swapName_invol]

/-! ### 2. Executing the exchanged operation on the exchanged store -/

theorem assignFrom_swap {V : Type} (f : Nat → V) : ∀ (ts : List String) (i : Nat) (s : Store V),
    assignFrom (swapStore s) f i (ts.map swapName) = swapStore (assignFrom s f i ts) := by
  intro ts
  induction ts with
  | nil => intro i s; rfl
  | cons t ts ih =>
    intro i s
    simp only [List.map_cons, assignFrom]
    rw [← ih]
    congr 1
    funext n
    simp only [swapStore]
    by_cases h : n = swapName t
    · simp [h, swapName_invol]
    · have : ¬ swapName n = t := fun h' => h ((swapName_eq_iff n t).mpr h')
      simp [h, this]

theorem exec_swap {V : Type} (sem : Sem V) (e : Effect) (s : Store V) :
    exec sem (swapEffect e) (swapStore s) = swapStore (exec sem e s) := by
  unfold exec
  have hargs : (swapEffect e).args.map (swapStore s) = e.args.map s := by
    simp [swapEffect, List.map_map, Function.comp_def, swapStore, swapName_invol]
  simp only [hargs]
  exact assignFrom_swap _ e.targets 0 s

theorem execs_swap {V : Type} (sem : Sem V) : ∀ (es : List Effect) (s : Store V),
    execs sem (es.map swapEffect) (swapStore s) = swapStore (execs sem es s) := by
  intro es
  induction es with
  | nil => intro s; rfl
  | cons e es ih =>
    intro s
    simp only [List.map_cons, execs, List.foldl_cons]
    rw [exec_swap]
    exact ih _

/-! ### 3. Independent operations commute -/

theorem assignFrom_not_mem {V : Type} (f : Nat → V) : ∀ (ts : List String) (i : Nat) (s : Store V) (n : String),
    n ∉ ts → assignFrom s f i ts n = s n := by
  intro ts
  induction ts with
  | nil => intro i s n _; rfl
  | cons t ts ih =>
    intro i s n h
    simp only [List.mem_cons, not_or] at h
    simp only [assignFrom]
    rw [ih _ _ _ h.2]
    simp [h.1]

theorem assignFrom_mem {V : Type} (f : Nat → V) : ∀ (ts : List String) (i : Nat) (s s' : Store V) (n : String),
    n ∈ ts → assignFrom s f i ts n = assignFrom s' f i ts n := by
  intro ts
  induction ts with
  | nil => intro i s s' n h; simp at h
  | cons t ts ih =>
    intro i s s' n h
    simp only [assignFrom]
    by_cases hm : n ∈ ts
    · exact ih _ _ _ _ hm
    · rw [assignFrom_not_mem _ _ _ _ _ hm, assignFrom_not_mem _ _ _ _ _ hm]
      have : n = t := by simpa [hm] using h
      simp [this]

theorem exec_eq {V : Type} (sem : Sem V) (e : Effect) (s : Store V) :
    exec sem e s = assignFrom s (fun i => sem e.fn i (e.args.map s)) 0 e.targets := rfl

theorem exec_comm {V : Type} (sem : Sem V) (a b : Effect) (h : indep a b = true) (s : Store V) :
    exec sem a (exec sem b s) = exec sem b (exec sem a s) := by
  simp only [indep, Bool.and_eq_true, List.all_eq_true, Bool.not_eq_true', List.contains_eq_mem,
    decide_eq_false_iff_not] at h
  obtain ⟨hab, hba⟩ := h
  have hargsA : a.args.map (exec sem b s) = a.args.map s := by
    apply List.map_congr_left
    intro x hx
    unfold exec
    apply assignFrom_not_mem
    intro hxb
    exact (hba x hxb).1 hx
  have hargsB : b.args.map (exec sem a s) = b.args.map s := by
    apply List.map_congr_left
    intro x hx
    unfold exec
    apply assignFrom_not_mem
    intro hxa
    exact (hab x hxa).1 hx
  funext n
  rw [exec_eq sem a (exec sem b s), hargsA, exec_eq sem b (exec sem a s), hargsB]
  by_cases hna : n ∈ a.targets
  · have hnb : n ∉ b.targets := (hab n hna).2
    rw [assignFrom_mem _ _ _ (exec sem b s) s n hna, assignFrom_not_mem _ _ _ _ _ hnb]
    rfl
  · by_cases hnb : n ∈ b.targets
    · rw [assignFrom_not_mem _ _ _ _ _ hna, assignFrom_mem _ _ _ (exec sem a s) s n hnb]
      rfl
    · rw [assignFrom_not_mem _ _ _ _ _ hna, assignFrom_not_mem _ _ _ _ _ hnb,
        exec_eq, exec_eq, assignFrom_not_mem _ _ _ _ _ hnb, assignFrom_not_mem _ _ _ _ _ hna]

theorem exec_execs_comm {V : Type} (sem : Sem V) (x : Effect) : ∀ (ys : List Effect) (s : Store V),
    (∀ y ∈ ys, indep x y = true) → exec sem x (execs sem ys s) = execs sem ys (exec sem x s) := by
  intro ys
  induction ys with
  | nil => intro s _; rfl
  | cons y ys ih =>
    intro s h
    simp only [execs, List.foldl_cons]
    have := ih (exec sem y s) (fun z hz => h z (by simp [hz]))
    simp only [execs] at this
    rw [this, exec_comm sem x y (h y (by simp))]

theorem execs_comm {V : Type} (sem : Sem V) : ∀ (xs ys : List Effect) (s : Store V),
    crossIndep xs ys = true → execs sem ys (execs sem xs s) = execs sem xs (execs sem ys s) := by
  intro xs
  induction xs with
  | nil => intro ys s _; rfl
  | cons x xs ih =>
    intro ys s h
    simp only [crossIndep, List.all_cons, Bool.and_eq_true] at h
    have hx : ∀ y ∈ ys, indep x y = true := by simpa [List.all_eq_true] using h.1
    have hxs : crossIndep xs ys = true := h.2
    simp only [execs, List.foldl_cons]
    have e1 := ih ys (exec sem x s) hxs
    simp only [execs] at e1
    rw [e1]
    have e2 := exec_execs_comm sem x ys s hx
    simp only [execs] at e2
    rw [e2]

theorem execs_append {V : Type} (sem : Sem V) (a b : List Effect) (s : Store V) :
    execs sem (a ++ b) s = execs sem b (execs sem a s) := by
  simp [execs, List.foldl_append]

/-! ### 4. Symmetric blocks are equivariant -/

theorem neutral_execs_swap {V : Type} (sem : Sem V) : ∀ (zs : List Effect) (s : Store V),
    zs.all isNeutral = true → execs sem zs (swapStore s) = swapStore (execs sem zs s) := by
  intro zs
  induction zs with
  | nil => intro s _; rfl
  | cons z zs ih =>
    intro s h
    simp only [List.all_cons, Bool.and_eq_true] at h
    have hz : swapEffect z = z := by simpa [isNeutral] using h.1
    simp only [execs, List.foldl_cons]
    have := exec_swap sem z s
    rw [hz] at this
    rw [this]
    exact ih _ h.2

/-- `X ++ swap X ++ N` executed on the exchanged store gives the exchanged result -/
theorem xyz_equivariant {V : Type} (sem : Sem V) (x z : List Effect)
    (hci : crossIndep x (x.map swapEffect) = true) (hz : z.all isNeutral = true) (s : Store V) :
    execs sem (x ++ x.map swapEffect ++ z) (swapStore s)
      = swapStore (execs sem (x ++ x.map swapEffect ++ z) s) := by
  rw [execs_append, execs_append, execs_append, execs_append]
  -- X on the exchanged store = exchange of (swap X) on the store
  have h1 : execs sem x (swapStore s) = swapStore (execs sem (x.map swapEffect) s) := by
    have := execs_swap sem (x.map swapEffect) s
    simpa [List.map_map, Function.comp_def, swapEffect_invol] using this
  have h2 : ∀ t, execs sem (x.map swapEffect) (swapStore t) = swapStore (execs sem x t) :=
    fun t => execs_swap sem x t
  rw [h1, h2, neutral_execs_swap sem z _ hz, execs_comm sem x (x.map swapEffect) s hci]


/-- a list of effects whose execution commutes with the left/right exchange -/
def Equivariant {V : Type} (sem : Sem V) (es : List Effect) : Prop :=
  ∀ s : Store V, execs sem es (swapStore s) = swapStore (execs sem es s)

theorem Equivariant.append {V : Type} {sem : Sem V} {a b : List Effect}
    (ha : Equivariant sem a) (hb : Equivariant sem b) : Equivariant sem (a ++ b) := by
  intro s
  rw [execs_append, execs_append, ha, hb]

theorem Equivariant.nil {V : Type} (sem : Sem V) : Equivariant sem [] := fun _ => rfl

theorem symBlock_equivariant {V : Type} (sem : Sem V) (b : List Effect) (h : symBlock b = true) :
    Equivariant sem b := by
  unfold symBlock at h
  simp only [Bool.and_eq_true, decide_eq_true_eq] at h
  obtain ⟨⟨hy, hz⟩, hci⟩ := h
  generalize hk : (b.length - (b.filter isNeutral).length) / 2 = k at hy hz hci
  have hb : b = b.take k ++ (b.take k).map swapEffect ++ b.drop (2 * k) := by
    rw [← hy]
    have h1 : b = b.take k ++ b.drop k := (List.take_append_drop k b).symm
    have h2 : b.drop k = (b.drop k).take k ++ (b.drop k).drop k := (List.take_append_drop k _).symm
    have h3 : (b.drop k).drop k = b.drop (2 * k) := by rw [List.drop_drop]; congr 1; omega
    rw [h3] at h2
    calc b = b.take k ++ b.drop k := h1
      _ = b.take k ++ ((b.drop k).take k ++ b.drop (2 * k)) := by rw [← h2]
      _ = b.take k ++ (b.drop k).take k ++ b.drop (2 * k) := by rw [List.append_assoc]
  intro s
  rw [hb]
  have hci' : crossIndep (b.take k) ((b.take k).map swapEffect) = true := hy ▸ hci
  exact xyz_equivariant sem (b.take k) (b.drop (2 * k)) hci' hz s

/-! ### 5. The callbacks of the source -/

def nonOpt (cb : Callback) : List Effect := cb.right.filter (fun e => !e.optional)
def opt (cb : Callback) : List Effect := cb.right.filter (fun e => e.optional)

/-- the wiring of a callback is left/right symmetric: the right part repeats the left part on the
    exchanged data (then the optional operations, symmetric among themselves), the trailing part is
    symmetric, and the two sides never touch each other's data -/
def symCallback (cb : Callback) : Bool :=
  symBlock (cb.left ++ nonOpt cb) && symBlock (opt cb) && symBlock cb.after
    && decide (cb.right = nonOpt cb ++ opt cb)

theorem effectsOf_right (cb : Callback) (interp : Bool) (h : cb.right = nonOpt cb ++ opt cb) :
    effectsOf cb true interp = (cb.left ++ nonOpt cb) ++ (if interp then opt cb else []) ++ cb.after := by
  unfold effectsOf
  cases interp
  · simp only [if_true, Bool.or_false, Bool.false_eq_true, if_false, List.append_nil]
    rfl
  · have : cb.right.filter (fun e => !e.optional || true) = cb.right := by simp
    simp only [if_true, this]
    conv => lhs; rw [h]
    simp [List.append_assoc]

theorem symCallback_equivariant {V : Type} (sem : Sem V) (cb : Callback) (interp : Bool)
    (h : symCallback cb = true) : Equivariant sem (effectsOf cb true interp) := by
  unfold symCallback at h
  simp only [Bool.and_eq_true, decide_eq_true_eq] at h
  obtain ⟨⟨⟨h1, h2⟩, h3⟩, h4⟩ := h
  rw [effectsOf_right cb interp h4]
  apply Equivariant.append
  · apply Equivariant.append (symBlock_equivariant sem _ h1)
    cases interp
    · exact Equivariant.nil sem
    · exact symBlock_equivariant sem _ h2
  · exact symBlock_equivariant sem _ h3

/-- every run callback of the source, except the two discussed below, is left/right symmetric -/
theorem wiring_symmetric :
    (Generated.Wiring.callbacks.filter fun cb =>
        cb.name != "validation_run" && cb.name != "semantic_segmentation_run").all symCallback = true := by
  decide

/-- all eleven callbacks are present -/
theorem wiring_callbacks :
    Generated.Wiring.callbacks.map (·.name) =
      ["matching_cost_prepare", "matching_cost_run", "aggregation_run", "semantic_segmentation_run",
       "optimization_run", "disparity_run", "filter_run", "refinement_run", "validation_run",
       "run_multiscale", "cost_volume_confidence_run"] := by decide

/-- `run_prepare` derives the right interval as (-max, -min) -/
theorem prepare_mirrors_interval : Generated.Wiring.prepareRightIntervalNegatedSwapped = true := by decide

/-! ### 6. Validation: the right check reads the already-checked left map -/

def ccL : Effect := { targets := ["left_disparity"], fn := "disparity_checking", args := ["left_disparity", "right_disparity"] }
def interpL : Effect := { targets := ["left_disparity"], fn := "interpolated_disparity", args := ["left_disparity"], optional := true }

/-- the validation callback of the source has exactly this shape: cross-check left against right,
    then right against the (already checked) left, then — optionally — fill both -/
theorem validation_shape :
    (Generated.Wiring.callbacks.find? (·.name == "validation_run")).map
        (fun cb => (cb.left, cb.right, cb.after))
      = some ([ccL], [swapEffect ccL, interpL, swapEffect interpL], []) := by decide

/-- what C07 establishes about cross-checking, stated on the abstract semantics: the result depends on
    the other side only through its disparity map, and the disparity map of the checked side is kept -/
structure CrossCheckFacts {V W : Type} (sem : Sem V) (dispOf : V → W) : Prop where
  reads_disp_only : ∀ a b b', dispOf b = dispOf b' →
    sem "disparity_checking" 0 [a, b] = sem "disparity_checking" 0 [a, b']
  keeps_disp : ∀ a b, dispOf (sem "disparity_checking" 0 [a, b]) = dispOf a

theorem exec_single {V : Type} (sem : Sem V) (t fn : String) (args : List String) (o : Bool) (s : Store V) :
    exec sem { targets := [t], fn := fn, args := args, optional := o } s
      = fun n => if n = t then sem fn 0 (args.map s) else s n := by
  rfl

theorem validation_cc_equivariant {V W : Type} (sem : Sem V) (dispOf : V → W)
    (hcc : CrossCheckFacts sem dispOf) : Equivariant sem [ccL, swapEffect ccL] := by
  intro s
  have hL : swapName "left_disparity" = "right_disparity" := by decide
  have hR : swapName "right_disparity" = "left_disparity" := by decide
  have hsw : swapEffect ccL =
      { targets := ["right_disparity"], fn := "disparity_checking", args := ["right_disparity", "left_disparity"] } := by
    decide
  rw [hsw]
  simp only [execs, List.foldl_cons, List.foldl_nil, ccL, exec_single]
  funext n
  simp only [swapStore, List.map_cons, List.map_nil]
  have hne : ("right_disparity" : String) ≠ "left_disparity" := by decide
  have hne' : ("left_disparity" : String) ≠ "right_disparity" := by decide
  by_cases h1 : n = "right_disparity"
  · subst h1
    simp only [hR, hL, if_true, hne, if_false]
    -- mirrored run: right' = cc(s L, cc(s R, s L)) ; original left' = cc(s L, s R)
    exact hcc.reads_disp_only _ _ _ (hcc.keeps_disp _ _)
  · by_cases h2 : n = "left_disparity"
    · subst h2
      simp only [hL, hR, hne', if_false, if_true, hne]
      exact (hcc.reads_disp_only _ _ _ (hcc.keeps_disp _ _)).symm
    · have h3 : swapName n ≠ "right_disparity" := fun h => h2 (by rw [← swapName_invol n, h, hR])
      have h4 : swapName n ≠ "left_disparity" := fun h => h1 (by rw [← swapName_invol n, h, hL])
      simp [h1, h2, h3, h4]

theorem validation_equivariant {V W : Type} (sem : Sem V) (dispOf : V → W)
    (hcc : CrossCheckFacts sem dispOf) (cb : Callback)
    (hshape : (cb.left, cb.right, cb.after) = ([ccL], [swapEffect ccL, interpL, swapEffect interpL], []))
    (interp : Bool) : Equivariant sem (effectsOf cb true interp) := by
  simp only [Prod.mk.injEq] at hshape
  obtain ⟨hl, hr, ha⟩ := hshape
  have hopt : symBlock [interpL, swapEffect interpL] = true := by decide
  cases interp
  · have : effectsOf cb true false = [ccL, swapEffect ccL] ++ [] := by
      simp only [effectsOf, hl, hr, ha]; decide
    rw [this]
    exact Equivariant.append (validation_cc_equivariant sem dispOf hcc) (Equivariant.nil sem)
  · have : effectsOf cb true true = [ccL, swapEffect ccL] ++ [interpL, swapEffect interpL] := by
      simp only [effectsOf, hl, hr, ha]; decide
    rw [this]
    exact Equivariant.append (validation_cc_equivariant sem dispOf hcc) (symBlock_equivariant sem _ hopt)

/-! ### 7. Any sequence of callbacks: the mirrored run gives the mirrored products -/

/-- a run is a sequence of callback executions (which ones, and in which order, is C01's subject and
    does not depend on the data) -/
def runSeq {V : Type} (sem : Sem V) : List (Callback × Bool) → Store V → Store V
  | [], s => s
  | (cb, interp) :: rest, s => runSeq sem rest (runCb sem true interp cb s)

theorem runSeq_equivariant {V : Type} (sem : Sem V) :
    ∀ (seq : List (Callback × Bool)),
      (∀ p ∈ seq, Equivariant sem (effectsOf p.1 true p.2)) →
      ∀ s : Store V, runSeq sem seq (swapStore s) = swapStore (runSeq sem seq s) := by
  intro seq
  induction seq with
  | nil => intro _ s; rfl
  | cons p rest ih =>
    intro h s
    obtain ⟨cb, interp⟩ := p
    simp only [runSeq, runCb]
    rw [h (cb, interp) (by simp)]
    exact ih (fun q hq => h q (by simp [hq])) _

/-- **Mirror theorem.** For every meaning of the step operations that satisfies the cross-checking
    facts, every store and every sequence of callbacks of the source other than
    `semantic_segmentation_run`: running on the exchanged data (images, cost volumes, maps and
    intervals exchanged) produces exactly the exchanged products — the right products of a run are
    the left products of the mirrored run and conversely. -/
theorem mirror {V W : Type} (sem : Sem V) (dispOf : V → W) (hcc : CrossCheckFacts sem dispOf)
    (seq : List (Callback × Bool))
    (hsrc : ∀ p ∈ seq, p.1 ∈ Generated.Wiring.callbacks ∧ p.1.name ≠ "semantic_segmentation_run")
    (s : Store V) :
    runSeq sem seq (swapStore s) = swapStore (runSeq sem seq s) := by
  apply runSeq_equivariant
  intro p hp
  obtain ⟨hmem, hne⟩ := hsrc p hp
  by_cases hv : p.1.name = "validation_run"
  · have hshape := validation_shape
    have : (Generated.Wiring.callbacks.find? (·.name == "validation_run")) = some p.1 := by
      have hall : ∀ cb ∈ Generated.Wiring.callbacks, cb.name = "validation_run" →
          Generated.Wiring.callbacks.find? (·.name == "validation_run") = some cb := by decide
      exact hall p.1 hmem hv
    rw [this] at hshape
    simp only [Option.map_some, Option.some.injEq] at hshape
    exact validation_equivariant sem dispOf hcc p.1 hshape p.2
  · apply symCallback_equivariant
    have hall := wiring_symmetric
    simp only [List.all_eq_true, List.mem_filter, Bool.and_eq_true, bne_iff_ne, ne_eq, and_imp] at hall
    exact hall p.1 hmem hv hne

/-- the right products of a run are the left products of the mirrored run, and conversely -/
theorem right_eq_mirror_left {V W : Type} (sem : Sem V) (dispOf : V → W) (hcc : CrossCheckFacts sem dispOf)
    (seq : List (Callback × Bool))
    (hsrc : ∀ p ∈ seq, p.1 ∈ Generated.Wiring.callbacks ∧ p.1.name ≠ "semantic_segmentation_run")
    (s : Store V) :
    runSeq sem seq (swapStore s) "left_disparity" = runSeq sem seq s "right_disparity"
    ∧ runSeq sem seq (swapStore s) "right_disparity" = runSeq sem seq s "left_disparity"
    ∧ runSeq sem seq (swapStore s) "left_cv" = runSeq sem seq s "right_cv" := by
  rw [mirror sem dispOf hcc seq hsrc s]
  refine ⟨?_, ?_, ?_⟩ <;> simp only [swapStore] <;> congr 1

/-- the initial store of the mirrored problem is the exchanged initial store: images exchanged, interval
    negated and swapped (`neg` involutive) -/
def initStore {V : Type} (none : V) (neg : V → V) (left right dmin dmax : V) : Store V := fun n =>
  if n = "left_img" then left else if n = "right_img" then right
  else if n = "disp_min" then dmin else if n = "disp_max" then dmax
  else if n = "right_disp_min" then neg dmax else if n = "right_disp_max" then neg dmin
  else if n = "dmin_user" then dmin else if n = "dmax_user" then dmax
  else if n = "dmin_user_right" then neg dmax else if n = "dmax_user_right" then neg dmin
  else none

theorem initStore_mirror {V : Type} (none : V) (neg : V → V) (hneg : ∀ x, neg (neg x) = x)
    (left right dmin dmax : V) (n : String)
    (hn : n ∈ ["left_img", "right_img", "disp_min", "disp_max", "right_disp_min", "right_disp_max",
               "dmin_user", "dmax_user", "dmin_user_right", "dmax_user_right"]) :
    swapStore (initStore none neg left right dmin dmax) n
      = initStore none neg right left (neg dmax) (neg dmin) n := by
  simp only [List.mem_cons, List.mem_nil_iff, or_false] at hn
  have e1 : swapName "left_img" = "right_img" := by decide
  have e2 : swapName "right_img" = "left_img" := by decide
  have e3 : swapName "disp_min" = "right_disp_min" := by decide
  have e4 : swapName "disp_max" = "right_disp_max" := by decide
  have e5 : swapName "right_disp_min" = "disp_min" := by decide
  have e6 : swapName "right_disp_max" = "disp_max" := by decide
  have e7 : swapName "dmin_user" = "dmin_user_right" := by decide
  have e8 : swapName "dmax_user" = "dmax_user_right" := by decide
  have e9 : swapName "dmin_user_right" = "dmin_user" := by decide
  have e10 : swapName "dmax_user_right" = "dmax_user" := by decide
  rcases hn with h | h | h | h | h | h | h | h | h | h <;> subst h <;>
    simp [swapStore, initStore, hneg, e1, e2, e3, e4, e5, e6, e7, e8, e9, e10]

end Pandora.C08
