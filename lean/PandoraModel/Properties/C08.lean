/- C08 — theorems (placeholder until the property is built). -/
