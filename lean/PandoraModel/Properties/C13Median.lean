/-
  C13 — locality of the median filter (model of C10: `Filter.medianFilterDisparity`, the block loops of
  the source included).

  Seen on partial images, `MedianFilter.filter_disparity` is a *stencil*: the new disparity of a pixel
  is a function of the (disparity, flag) pairs at the offsets `[-fs/2, fs/2]²` from the pixel — a pixel of
  the window that is outside the image makes the pixel keep its disparity (the "edge" rule of the code).
  Hence: square cone of radius `filter_size / 2`, no dependence on absolute position, and a crop run
  equals the whole run on every pixel whose (clipped) cone is in the crop, wherever the crop starts.
-/
import PandoraModel.Properties.C13Util
import PandoraModel.Properties.C10

namespace Pandora.C13
open Pandora Pandora.Locality Pandora.Filter

/-- offsets of the `w × w` window whose pixel is `before` cells after the window's first cell, in the
    row-major order of `Filter.cells` -/
def winOffs (w before : Nat) : List Px :=
  (cells w).map fun p => ((p.1 : Int) - (before : Int), (p.2 : Int) - (before : Int))

/-- the masked value of a window cell (`nan` outside the image — never read then) -/
def maskedOpt (invalidMask : Nat) : Option (Val × Nat) → Val
  | some (d, f) => maskCell invalidMask f d
  | none => .nan

/-- what the median filter does with the pixel's own (disparity, flag) and its window -/
def medianG (invalidMask : Nat) : List (Option (Val × Nat)) → Option Val
  | [] => none
  | none :: _ => none
  | some (d, f) :: win =>
    some (if (maskCell invalidMask f d).isNum then
            (if win.all Option.isSome then nanmedian (win.map (maskedOpt invalidMask)) else d)
          else d)

/-- **The median-filter step on partial images**: a stencil over the pixel and its `fs × fs` window. -/
def medianStep (invalidMask fs : Nat) : Img (Val × Nat) → Img Val :=
  stencil ((0, 0) :: winOffs fs (fs / 2)) (medianG invalidMask)

theorem winOffs_in (w before : Nat) : OffsIn ⟨before, w - 1 - before, before, w - 1 - before⟩ (winOffs w before) := by
  intro d hd
  unfold winOffs at hd
  obtain ⟨p, hp, rfl⟩ := List.mem_map.1 hd
  have := (C10.mem_cells w p.1 p.2).1 hp
  simp only
  omega

theorem medianOffs_in (fs : Nat) : OffsIn (Cone.square (fs / 2)) ((0, 0) :: winOffs fs (fs / 2)) := by
  intro d hd
  rcases List.mem_cons.1 hd with rfl | hd
  · simp [Cone.square]; omega
  · have := winOffs_in fs (fs / 2) d hd
    simp only [Cone.square] at this ⊢
    omega

/-- **Median filter: local, square cone of radius `filter_size / 2`.** -/
theorem medianStep_local (invalidMask fs : Nat) : Local (Cone.square (fs / 2)) (medianStep invalidMask fs) :=
  stencil_local_of_bounds _ _ _ (medianOffs_in fs)

/-- **Median filter: no dependence on absolute position.** -/
theorem medianStep_equivariant (invalidMask fs : Nat) : Equivariant (medianStep invalidMask fs) :=
  stencil_equivariant _ _

/-- the stencil reads, for an interior pixel, exactly the cells of the code's window -/
theorem window_reads (ny nx fs : Nat) (flags : Nat → Nat → Nat) (disp : Filter.Img) (r c : Nat)
    (hi : interior (fs / 2) (fs / 2) ny nx r c = true) (hodd : fs % 2 = 1) :
    (winOffs fs (fs / 2)).map (fun d => toImg ny nx (zipArr disp flags) ((r : Int) + d.1, (c : Int) + d.2))
      = (cells fs).map (fun p => some (disp (r - fs / 2 + p.1) (c - fs / 2 + p.2),
                                       flags (r - fs / 2 + p.1) (c - fs / 2 + p.2))) := by
  unfold winOffs
  rw [List.map_map]
  apply List.map_congr_left
  intro p hp
  have hp' := (C10.mem_cells fs p.1 p.2).1 hp
  simp only [interior, Bool.and_eq_true, decide_eq_true_eq] at hi
  simp only [Function.comp]
  have e1 : (r : Int) + ((p.1 : Int) - ((fs / 2 : Nat) : Int)) = ((r - fs / 2 + p.1 : Nat) : Int) := by omega
  have e2 : (c : Int) + ((p.2 : Int) - ((fs / 2 : Nat) : Int)) = ((c - fs / 2 + p.2 : Nat) : Int) := by omega
  rw [e1, e2, toImg_some ny nx _ _ _ (by omega) (by omega)]
  rfl

/-- for a pixel that is not interior, some cell of the window is outside the image -/
theorem window_has_none (ny nx fs : Nat) (flags : Nat → Nat → Nat) (disp : Filter.Img) (r c : Nat)
    (hi : ¬ interior (fs / 2) (fs / 2) ny nx r c = true) (hodd : fs % 2 = 1) :
    ((winOffs fs (fs / 2)).map
      (fun d => toImg ny nx (zipArr disp flags) ((r : Int) + d.1, (c : Int) + d.2))).all Option.isSome = false := by
  rw [Bool.eq_false_iff]
  intro hall
  apply hi
  rw [List.all_eq_true] at hall
  simp only [interior, Bool.and_eq_true, decide_eq_true_eq]
  -- the four corners of the window
  have corner : ∀ a b : Nat, a < fs → b < fs →
      InImage ny nx ((r : Int) + ((a : Int) - ((fs / 2 : Nat) : Int)), (c : Int) + ((b : Int) - ((fs / 2 : Nat) : Int))) := by
    intro a b ha hb
    have hm : toImg ny nx (zipArr disp flags)
        ((r : Int) + ((a : Int) - ((fs / 2 : Nat) : Int)), (c : Int) + ((b : Int) - ((fs / 2 : Nat) : Int)))
        ∈ (winOffs fs (fs / 2)).map
            (fun d => toImg ny nx (zipArr disp flags) ((r : Int) + d.1, (c : Int) + d.2)) := by
      refine List.mem_map.2 ⟨((a : Int) - ((fs / 2 : Nat) : Int), (b : Int) - ((fs / 2 : Nat) : Int)), ?_, rfl⟩
      unfold winOffs
      exact List.mem_map.2 ⟨(a, b), (C10.mem_cells fs a b).2 ⟨ha, hb⟩, rfl⟩
    have hs := hall _ hm
    by_contra hn
    rw [toImg_none ny nx _ _ hn] at hs
    simp at hs
  have h0 := corner 0 0 (by omega) (by omega)
  have h1 := corner (fs - 1) (fs - 1) (by omega) (by omega)
  unfold InImage at h0 h1
  simp only at h0 h1
  omega

/-- **The model of `MedianFilter.filter_disparity` is the stencil `medianStep`**, for every block split
    whose offsets start at the radius (in particular the one read from the source), every odd filter
    size and every map at least as large as the window. -/
theorem medianFilterDisparity_is_medianStep (s : Blocks.Split) (invalidMask fs ny nx : Nat)
    (flags : Nat → Nat → Nat) (disp : Filter.Img)
    (hy : s.beginY = fs / 2) (hx : s.beginX = fs / 2) (hodd : fs % 2 = 1) (hny : fs ≤ ny) (hnx : fs ≤ nx) :
    toImg ny nx (medianFilterDisparity s invalidMask fs ny nx flags disp)
      = medianStep invalidMask fs (toImg ny nx (zipArr disp flags)) := by
  funext q
  by_cases hq : InImage ny nx q
  · obtain ⟨r, c, rfl, hr, hc⟩ : ∃ r c : Nat, q = ((r : Int), (c : Int)) ∧ r < ny ∧ c < nx := by
      unfold InImage at hq
      refine ⟨q.1.toNat, q.2.toNat, ?_, by omega, by omega⟩
      ext <;> simp <;> omega
    rw [toImg_some ny nx _ r c hr hc]
    unfold medianStep stencil
    simp only [List.map_cons, Int.add_zero]
    rw [toImg_some ny nx _ r c hr hc]
    have hz : zipArr disp flags r c = (disp r c, flags r c) := rfl
    rw [hz]
    simp only [medianG]
    congr 1
    unfold medianFilterDisparity
    rw [C10.medianFilter_eq_direct s fs ny nx _ hy hx hodd hny hnx]
    have hm : masked invalidMask flags disp r c = maskCell invalidMask (flags r c) (disp r c) := rfl
    rw [hm]
    by_cases hnum : (maskCell invalidMask (flags r c) (disp r c)).isNum = true
    · have hnan : (maskCell invalidMask (flags r c) (disp r c)).isNan = false := by
        simpa [Val.isNum] using hnum
      simp only [hnum, hnan, if_true, Bool.false_eq_true, if_false]
      by_cases hi : interior (fs / 2) (fs / 2) ny nx r c = true
      · have hw := window_reads ny nx fs flags disp r c hi hodd
        rw [if_pos hi, hw]
        have hall : ((cells fs).map (fun p => some (disp (r - fs / 2 + p.1) (c - fs / 2 + p.2),
            flags (r - fs / 2 + p.1) (c - fs / 2 + p.2)))).all Option.isSome = true := by
          simp [List.all_map]
        rw [if_pos hall, List.map_map]
        rfl
      · have hw := window_has_none ny nx fs flags disp r c hi hodd
        rw [if_neg hi, hw]
        simp only [Bool.false_eq_true, if_false]
        -- a numeric masked cell is the disparity itself
        unfold maskCell at hnum ⊢
        split
        · rename_i h; simp [h, Val.isNum, Val.isNan] at hnum
        · rfl
    · simp only [hnum, if_false, Bool.false_eq_true]
  · rw [toImg_none ny nx _ q hq]
    unfold medianStep stencil
    simp only [List.map_cons, Int.add_zero]
    rw [toImg_none ny nx _ q hq]
    rfl

/-- **Median filter: crop run = whole run.**  Filtering the `ny' × nx'` crop starting at `(r0, c0)` gives at
    crop pixel `(r, c)` exactly the disparity that filtering the whole `ny × nx` map gives at
    `(r + r0, c + c0)`, as soon as every pixel of the `filter_size / 2` cone of that pixel is in the crop or
    outside the image — wherever the crop starts, whatever the block splits of the two runs. -/
theorem median_crop_eq_whole (s s' : Blocks.Split) (invalidMask fs ny nx r0 c0 ny' nx' : Nat)
    (flags : Nat → Nat → Nat) (disp : Filter.Img)
    (hy : s.beginY = fs / 2) (hx : s.beginX = fs / 2) (hy' : s'.beginY = fs / 2) (hx' : s'.beginX = fs / 2)
    (hodd : fs % 2 = 1) (hny : fs ≤ ny') (hnx : fs ≤ nx') (hfit : r0 + ny' ≤ ny ∧ c0 + nx' ≤ nx)
    (r c : Nat) (hr : r < ny') (hc : c < nx')
    (hcone : ∀ q, inCone (Cone.square (fs / 2)) ((r : Int) + r0, (c : Int) + c0) q →
      InRect r0 c0 ny' nx' q ∨ ¬ InImage ny nx q) :
    medianFilterDisparity s' invalidMask fs ny' nx' (cropArr r0 c0 flags) (cropArr r0 c0 disp) r c
      = medianFilterDisparity s invalidMask fs ny nx flags disp (r + r0) (c + c0) := by
  have h1 := medianFilterDisparity_is_medianStep s' invalidMask fs ny' nx' (cropArr r0 c0 flags)
    (cropArr r0 c0 disp) hy' hx' hodd hny hnx
  have h2 := medianFilterDisparity_is_medianStep s invalidMask fs ny nx flags disp hy hx hodd
    (by omega) (by omega)
  have h3 := crop_run_eq_whole (medianStep_local invalidMask fs) (medianStep_equivariant invalidMask fs)
    ny nx r0 c0 ny' nx' (zipArr disp flags) hfit ((r : Int), (c : Int)) hcone
  rw [cropArr_zipArr, ← h1, ← h2, toImg_some ny' nx' _ r c hr hc] at h3
  have e : (((r : Int) + (r0 : Int), (c : Int) + (c0 : Int)) : Px) = (((r + r0 : Nat) : Int), ((c + c0 : Nat) : Int)) := by
    ext <;> simp
  rw [e, toImg_some ny nx _ (r + r0) (c + c0) (by omega) (by omega)] at h3
  exact Option.some.inj h3

/-! ### Non-vacuity: a 5×6 map, filter size 3, crop `[1,5) × [2,6)`; pixel (1,1) of the crop has its whole
    cone in the crop -/

example : (∀ q, inCone (Cone.square (3 / 2)) (((1 : Nat) : Int) + (1 : Nat), ((1 : Nat) : Int) + (2 : Nat)) q →
    InRect 1 2 4 4 q ∨ ¬ InImage 5 6 q) :=
  cone_in_crop_of_bounds (Cone.square (3 / 2)) 1 2 4 4 5 6 (((1 : Nat) : Int), ((1 : Nat) : Int)) (by decide)

end Pandora.C13
