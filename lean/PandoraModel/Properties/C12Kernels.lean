/-
  C12 — the per-pixel bodies of the confidence kernels REGENERATED from the Python source
  (`Generated/KernelsConf.lean`, written by translator/gen_kernels_conf.py with the vector sub-language of T14,
  translator/pyvec.py) are equal, for every cost curve, every eta grid and every pair of global extremes with
  `max_cost ≠ min_cost`, to the hand model of `Model/Confidence.lean` — and never meet a numpy shape error (`Res.ok`).

  `prange` is read as `range`: the per-pixel function is what is translated; that the parallel schedule cannot change the
  result (disjoint write sets) is the subject of C18 (translator T9), not of these theorems.
-/
import PandoraModel.Model.Confidence
import PandoraModel.Model.PyVec
import PandoraModel.Generated.KernelsConf
import PandoraModel.Lemmas.C12Layout
import PandoraModel.Lemmas.C12Risk
import Mathlib.Tactic.Linarith
import Mathlib.Tactic.Ring
import Mathlib.Tactic.FieldSimp

set_option linter.unusedSimpArgs false
set_option linter.unusedVariables false

namespace Pandora.C12Kernels
open Pandora Pandora.Confidence Pandora.PyLoops Pandora.PyVec Pandora.C12

/-! ## Encodings -/

/-- an optional rational as a float: `none` is NaN -/
def optNan : Option ℚ → Fl
  | none => .nan
  | some q => .fin q

/-- an optional rational as a float: `none` is −∞ (the kernels mask NaN costs to `-np.inf`) -/
def optNinf : Option ℚ → Fl
  | none => .ninf
  | some q => .fin q

/-- the pixel's cost curve as the kernels see it -/
def embedCurve (c : Curve) : List Fl := c.map Fl.ofVal
/-- a grid of finite numbers -/
def embedQ (l : List ℚ) : List Fl := l.map Fl.fin

/-! ## Scalars -/

@[simp] theorem sub_fin (a b : ℚ) : Fl.sub (.fin a) (.fin b) = .fin (a - b) := by
  simp [Fl.sub, Fl.neg, Fl.add, sub_eq_add_neg]

@[simp] theorem add_fin (a b : ℚ) : Fl.add (.fin a) (.fin b) = .fin (a + b) := rfl

@[simp] theorem sub_nan_left (x : Fl) : Fl.sub .nan x = .nan := by cases x <;> rfl

theorem fdiv_fin (a b : ℚ) (h : b ≠ 0) : fdiv (.fin a) (.fin b) = .fin (a / b) := by
  simp [fdiv, h]

@[simp] theorem fdiv_nan_left (x : Fl) : fdiv .nan x = .nan := by cases x <;> rfl

theorem le_fin (a b : ℚ) : Fl.le (.fin a) (.fin b) = decide (a ≤ b) := by
  simp only [Fl.le, Fl.lt, Fl.eq]
  by_cases h : a ≤ b
  · rcases lt_or_eq_of_le h with h1 | h1 <;> simp [h, h1]
  · have h1 : ¬ a < b := fun h' => h (le_of_lt h')
    have h2 : ¬ a = b := fun h' => h (le_of_eq h')
    simp [h, h1, h2]

theorem toNat_mul_cast (a b : Nat) : ((a : Int) * (b : Int)).toNat = a * b := by
  rw [← Nat.cast_mul, Int.toNat_natCast]

theorem lt_fin (a b : ℚ) : Fl.lt (.fin a) (.fin b) = decide (a < b) := rfl

theorem le_optNinf_fin (o : Option ℚ) (t : ℚ) : Fl.le (optNinf o) (.fin t) = leExt o t := by
  cases o with
  | none => rfl
  | some v => simp [optNinf, leExt, le_fin]

/-! ## Reductions -/

theorem nanminAux_embed (c : Curve) : nanminAux (embedCurve c) = (lmin (numsOf c)).map Fl.fin := by
  induction c with
  | nil => rfl
  | cons v c ih =>
    cases v with
    | nan =>
      have : numsOf (Val.nan :: c) = numsOf c := rfl
      rw [this, ← ih]
      simp only [embedCurve, List.map_cons, Fl.ofVal, nanminAux, Fl.isNan]
      cases nanminAux (List.map Fl.ofVal c) <;> rfl
    | num q =>
      have : numsOf (Val.num q :: c) = q :: numsOf c := rfl
      rw [this]
      simp only [embedCurve, List.map_cons, Fl.ofVal, nanminAux, lmin, Fl.isNan] at ih ⊢
      rw [ih]
      cases lmin (numsOf c) with
      | none => rfl
      | some m =>
        simp only [Option.map_some, le_fin, Bool.false_eq_true, if_false]
        by_cases h : q ≤ m <;> simp [h]

theorem nanmin_embed (c : Curve) : nanmin (embedCurve c) = optNan (lmin (numsOf c)) := by
  unfold nanmin
  rw [nanminAux_embed]
  cases lmin (numsOf c) <;> rfl

/-! ## Layout -/

theorem chunks_eq {α : Type} (k n : Nat) (l : List α) : PyVec.chunks k n l = Confidence.chunks k n l := by
  induction n generalizing l with
  | zero => rfl
  | succ n ih => simp [PyVec.chunks, Confidence.chunks, ih]

theorem repeatEach_eq {α : Type} (l : List α) (n : Nat) : repeatEach l (n : Int) = npRepeat l n := by
  simp [repeatEach, npRepeat]

theorem repeatEach_map {α β : Type} (f : α → β) (l : List α) (n : Int) :
    repeatEach (l.map f) n = (repeatEach l n).map f := by
  simp [repeatEach, List.flatMap_map, List.map_flatMap, List.map_replicate]

theorem length_repeatEach {α : Type} (l : List α) (n : Nat) : (repeatEach l (n : Int)).length = l.length * n := by
  rw [repeatEach_eq, length_npRepeat]

/-- `np.repeat(l, n).reshape((-1, n))`: one row of `n` copies per element -/
theorem reshapeRows_repeat {α : Type} (l : List α) (n : Nat) (h : 0 < n) :
    PyVec.reshapeRows (repeatEach l (n : Int)) (n : Int) = l.map (List.replicate n) := by
  unfold PyVec.reshapeRows
  rw [length_repeatEach, Int.toNat_natCast, Nat.mul_div_cancel _ h, chunks_eq, repeatEach_eq]
  exact chunks_flatMap l (List.replicate n) n (by simp)

/-- the transpose of `len(l)` constant rows of length `n` is `n` copies of `l` -/
theorem transpose_replicate_rows' {α : Type} (d : α) (l : List α) (n : Nat) :
    PyVec.transpose d (n : Int) (l.map (List.replicate n)) = List.replicate n l := by
  unfold PyVec.transpose PyVec.column
  rw [Int.toNat_natCast, List.map_congr_left (g := fun _ => l)]
  · rw [List.map_const', List.length_range]
  · intro j hj
    simp at hj
    rw [List.map_map]
    conv => rhs; rw [← List.map_id l]
    apply List.map_congr_left
    intro e _
    simp [List.getD_eq_getElem?_getD, hj]

/-- `np.repeat(l, n).reshape((-1, n)).T.flatten()` is `l` tiled `n` times (numba has no `np.tile`) -/
theorem tile_eq {α : Type} (d : α) (l : List α) (n : Nat) (h : 0 < n) :
    PyVec.flatten (PyVec.transpose d (n : Int) (PyVec.reshapeRows (repeatEach l (n : Int)) (n : Int)))
      = (List.replicate n l).flatten := by
  rw [reshapeRows_repeat l n h, transpose_replicate_rows']
  rfl

/-- the generated `two_dim_etas` is the hand model's -/
theorem twoDim_embed (etas : List ℚ) (nd : Nat) (h : 0 < nd) :
    PyVec.flatten (PyVec.transpose Fl.nan (nd : Int) (PyVec.reshapeRows (repeatEach (embedQ etas) (nd : Int)) (nd : Int)))
      = embedQ (twoDimEtas etas nd) := by
  rw [tile_eq _ _ _ h, twoDimEtas_eq etas nd h]
  simp [embedQ, List.map_flatten, List.map_replicate]

theorem length_twoDimEtas (etas : List ℚ) (nd : Nat) (h : 0 < nd) : (twoDimEtas etas nd).length = nd * etas.length := by
  rw [twoDimEtas_eq etas nd h, length_flatten_replicate]

theorem maskSet_self {α : Type} (v : List α) (p : α → Bool) (x : α) :
    maskSet v (v.map p) x = v.map (fun y => if p y then x else y) := by
  induction v with
  | nil => rfl
  | cons a v ih => simp only [maskSet] at ih ⊢; simp [ih]

/-- `normalized_cv` after `normalized_cv[np.isnan(normalized_cv)] = -np.inf` -/
theorem normalizedCv_embed (mn mx : ℚ) (c : Curve) (hr : mx ≠ mn) :
    maskSet (mapR fdiv (mapR Fl.sub (embedCurve c) (Fl.fin mn)) (Fl.fin (mx - mn)))
        (List.map Fl.isNan (mapR fdiv (mapR Fl.sub (embedCurve c) (Fl.fin mn)) (Fl.fin (mx - mn)))) Fl.ninf
      = (c.map (normNeg mn mx)).map optNinf := by
  rw [maskSet_self]
  simp only [mapR, embedCurve, List.map_map]
  apply List.map_congr_left
  intro v _
  have h0 : mx - mn ≠ 0 := sub_ne_zero.mpr hr
  cases v with
  | nan => simp [Fl.ofVal, normNeg, optNinf, Fl.isNan]
  | num q => simp [Fl.ofVal, normNeg, optNinf, Fl.isNan, fdiv_fin _ _ h0]

theorem full_fin (q : ℚ) (n : Nat) : full (Fl.fin q) (n : Int) = embedQ (List.replicate n q) := by
  simp [full, embedQ]

theorem zip2_add_embed (a b : List ℚ) : zip2 Fl.add (embedQ a) (embedQ b) = embedQ (List.zipWith (· + ·) a b) := by
  simp [zip2, embedQ, List.zipWith_map, List.map_zipWith]

theorem zip2_le_embed (a : List (Option ℚ)) (b : List ℚ) :
    zip2 Fl.le (a.map optNinf) (embedQ b) = List.zipWith leExt a b := by
  simp only [zip2, embedQ, List.zipWith_map]
  congr 1
  funext o t
  exact le_optNinf_fin o t

/-! ## `compute_ambiguity` -/

open Pandora.Generated.KernelsConf

/-- the comparison vector `normalized_cv <= normalized_min_cost + two_dim_etas` of the generated code is `pixelCmp` -/
theorem cmp_embed (mn mx : ℚ) (etas : List ℚ) (c : Curve) (m : ℚ) (hr : mx ≠ mn) (hc : 0 < c.length) :
    zip2 Fl.le
        (repeatEach ((c.map (normNeg mn mx)).map optNinf) (etas.length : Int))
        (zip2 Fl.add (full (Fl.fin ((m - mn) / (mx - mn))) (((c.length * etas.length : Nat)) : Int))
          (embedQ (twoDimEtas etas c.length)))
      = pixelCmp mn mx etas c m := by
  rw [repeatEach_map, repeatEach_eq, full_fin, zip2_add_embed, zip2_le_embed]
  rfl

/-- **`compute_ambiguity`: the generated per-pixel function is the hand model.**  For every cost curve (NaN holes
    included, at least one disparity), every eta grid and every pair of global extremes with `max_cost ≠ min_cost`
    (the property's quantifier: at least two distinct finite costs), the function the source defines today returns
    `pixelAmbiguity` — and `Res.ok`: no numpy operation meets operands of the wrong shape. -/
theorem computeAmbiguity_generated_eq (mn mx : ℚ) (etas : List ℚ) (c : Curve) (hr : mx ≠ mn) (hc : c ≠ []) :
    computeAmbiguityPx (embedCurve c) (Fl.fin mn) (Fl.fin mx) (embedQ etas)
      = .ok (Fl.fin ((pixelAmbiguity mn mx etas c : Nat) : ℚ)) := by
  have hlen : 0 < c.length := List.length_pos_iff.mpr hc
  have h0 : mx - mn ≠ 0 := sub_ne_zero.mpr hr
  have hnd : PyVec.len (embedCurve c) = (c.length : Int) := by simp [PyVec.len, embedCurve]
  have hne : PyVec.len (embedQ etas) = (etas.length : Int) := by simp [PyVec.len, embedQ]
  have hnonempty : nonEmpty (embedCurve c) = true := by
    cases c with
    | nil => exact absurd rfl hc
    | cons a l => rfl
  simp only [computeAmbiguityPx, hnd, hne, twoDim_embed etas c.length hlen, nanmin_embed, sub_fin, hnonempty]
  simp only [pixelAmbiguity, pixelBest]
  cases hm : lmin (numsOf c) with
  | none =>
    simp [optNan, Fl.isNan, reshapeRowsOk, length_repeatEach, embedQ, hlen, ofInt]
  | some m =>
    have e1 : ((c.length : Int) * (etas.length : Int)) = ((c.length * etas.length : Nat) : Int) := by push_cast; ring
    simp only [optNan, sub_fin, fdiv_fin _ _ h0, Fl.isNan, Bool.false_eq_true, if_false, hr, normalizedCv_embed mn mx c hr,
      e1, cmp_embed mn mx etas c m hr hlen]
    have hl1 : (pixelCmp mn mx etas c m).length = c.length * etas.length := by
      rw [pixelCmp_eq mn mx etas c m hlen]
      simp [List.length_flatMap, sum_map_const]
    simp [reshapeRowsOk, length_repeatEach, sameLen, full, embedQ, zip2, hlen, length_twoDimEtas, mapR, maskSet, ofInt,
      countTrue, Nat.mul_comm, toNat_mul_cast]


/-! ## `compute_risk` -/

def natFl (d : Nat) : Fl := .fin (d : ℚ)

/-- a cell of `disp_cv`: a disparity index, or NaN once discarded -/
def optNatFl : Option Nat → Fl
  | none => .nan
  | some d => .fin (d : ℚ)

theorem nanminAux_optNat (l : List (Option Nat)) :
    nanminAux (l.map optNatFl) = (lminNat (l.filterMap id)).map natFl := by
  induction l with
  | nil => rfl
  | cons v l ih =>
    cases v with
    | none =>
      have : (none :: l).filterMap id = l.filterMap id := rfl
      rw [this, ← ih]
      simp only [List.map_cons, optNatFl, nanminAux, Fl.isNan]
      cases nanminAux (List.map optNatFl l) <;> rfl
    | some d =>
      have : (some d :: l).filterMap id = d :: l.filterMap id := rfl
      rw [this]
      simp only [List.map_cons, optNatFl, nanminAux, lminNat, Fl.isNan] at ih ⊢
      rw [ih]
      cases lminNat (l.filterMap id) with
      | none => rfl
      | some m =>
        simp only [Option.map_some, natFl, le_fin, Bool.false_eq_true, if_false, Nat.cast_le]
        by_cases h : d ≤ m <;> simp [h]

theorem nanmaxAux_optNat (l : List (Option Nat)) :
    nanmaxAux (l.map optNatFl) = (lmaxNat (l.filterMap id)).map natFl := by
  induction l with
  | nil => rfl
  | cons v l ih =>
    cases v with
    | none =>
      have : (none :: l).filterMap id = l.filterMap id := rfl
      rw [this, ← ih]
      simp only [List.map_cons, optNatFl, nanmaxAux, Fl.isNan]
      cases nanmaxAux (List.map optNatFl l) <;> rfl
    | some d =>
      have : (some d :: l).filterMap id = d :: l.filterMap id := rfl
      rw [this]
      simp only [List.map_cons, optNatFl, nanmaxAux, lmaxNat, Fl.isNan] at ih ⊢
      rw [ih]
      cases lmaxNat (l.filterMap id) with
      | none => rfl
      | some m =>
        simp only [Option.map_some, natFl, le_fin, Bool.false_eq_true, if_false, Nat.cast_le]
        by_cases h : m ≤ d <;> simp [h]

/-- `max_disp[i] - min_disp[i]` of one column of `disp_cv` -/
theorem spread_embed (l : List (Option Nat)) :
    Fl.sub (nanmax (l.map optNatFl)) (nanmin (l.map optNatFl)) = optNan (spreadOpt (l.filterMap id)) := by
  unfold nanmax nanmin spreadOpt
  rw [nanminAux_optNat, nanmaxAux_optNat]
  cases lminNat (l.filterMap id) <;> cases lmaxNat (l.filterMap id) <;> simp [natFl, optNan, Fl.sub, Fl.neg, Fl.add, sub_eq_add_neg]

theorem sumFl_fin (xs : List ℚ) : sumFl (xs.map Fl.fin) = .fin (sumRat xs) := by
  induction xs with
  | nil => rfl
  | cons x xs ih => simp only [sumFl, sumRat, List.map_cons, List.foldr_cons] at ih ⊢; rw [ih]; rfl

theorem filter_optNan (l : List (Option ℚ)) :
    (l.map optNan).filter (fun x => !x.isNan) = (l.filterMap id).map Fl.fin := by
  induction l with
  | nil => rfl
  | cons v l ih =>
    cases v with
    | none =>
      have : (none :: l).filterMap id = l.filterMap id := rfl
      rw [this, ← ih]; rfl
    | some q =>
      have : (some q :: l).filterMap id = q :: l.filterMap id := rfl
      rw [this]
      show _ = Fl.fin q :: List.map Fl.fin (List.filterMap id l)
      rw [← ih]; rfl

/-- `np.nanmean` of a vector of finite numbers and NaNs -/
theorem nanmean_embed (l : List (Option ℚ)) : nanmean (l.map optNan) = Fl.ofVal (nanMean l) := by
  unfold nanmean nanMean
  simp only [filter_optNan]
  cases h : l.filterMap id with
  | nil => rfl
  | cons x xs =>
    have hne : (((x :: xs).length : Nat) : ℚ) ≠ 0 := by simp; positivity
    simp only [List.isEmpty_cons, Bool.false_eq_true, if_false, sumFl_fin, ofInt, PyVec.len, List.length_map,
      Int.cast_natCast, List.isEmpty_map]
    rw [fdiv_fin _ _ hne]
    rfl

theorem lt_fin_optNinf (o : Option ℚ) (t : ℚ) : Fl.lt (.fin t) (optNinf o) = !leExt o t := by
  cases o with
  | none => rfl
  | some v =>
    simp only [optNinf, leExt, lt_fin]
    by_cases h : v ≤ t
    · simp [h, not_lt.mpr h]
    · simp [h, lt_of_not_ge h]

theorem zip2_lt_embed (a : List (Option ℚ)) (b : List ℚ) :
    zip2 Fl.lt (embedQ b) (a.map optNinf) = (List.zipWith leExt a b).map (fun x => !x) := by
  induction a generalizing b with
  | nil => cases b <;> simp [zip2, embedQ]
  | cons o a ih =>
    cases b with
    | nil => simp [zip2, embedQ]
    | cons t b =>
      simp only [zip2, embedQ, List.map_cons, List.zipWith_cons_cons] at ih ⊢
      rw [ih, lt_fin_optNinf]

/-- the mask `normalized_cv > normalized_min_cost + two_dim_etas` is the negation of `pixelCmp` -/
theorem gt_embed (mn mx : ℚ) (etas : List ℚ) (c : Curve) (m : ℚ) (hr : mx ≠ mn) (hc : 0 < c.length) :
    zip2 Fl.lt
        (zip2 Fl.add (full (Fl.fin ((m - mn) / (mx - mn))) (((c.length * etas.length : Nat)) : Int))
          (embedQ (twoDimEtas etas c.length)))
        (repeatEach ((c.map (normNeg mn mx)).map optNinf) (etas.length : Int))
      = (pixelCmp mn mx etas c m).map (fun b => !b) := by
  rw [repeatEach_map, repeatEach_eq, full_fin, zip2_add_embed, zip2_lt_embed]
  rfl

/-- `np.arange(nb_disps) * 1.0` -/
theorem disp0_embed (nd : Nat) :
    mapR Fl.mul (intsToFl (PyVec.arange (nd : Int))) (Fl.fin 1) = (List.range nd).map natFl := by
  simp [mapR, intsToFl, PyVec.arange, ofInt, natFl, Fl.mul]

/-- the hand model's `disp_cv` (flat) -/
def dispCvHand (mn mx : ℚ) (etas : List ℚ) (c : Curve) (m : ℚ) : List (Option Nat) :=
  List.zipWith (fun d keep => if keep then some d else none) (npRepeat (List.range c.length) etas.length)
    (pixelCmp mn mx etas c m)

theorem disp2_embed (mn mx : ℚ) (etas : List ℚ) (c : Curve) (m : ℚ) :
    maskSet (repeatEach ((List.range c.length).map natFl) (etas.length : Int))
        ((pixelCmp mn mx etas c m).map (fun b => !b)) Fl.nan
      = (dispCvHand mn mx etas c m).map optNatFl := by
  rw [repeatEach_map, repeatEach_eq]
  simp only [maskSet, dispCvHand, List.zipWith_map, List.map_zipWith]
  congr 1
  funext d keep
  cases keep <;> rfl

theorem chunks_map {α β : Type} (f : α → β) (k n : Nat) (l : List α) :
    PyVec.chunks k n (l.map f) = (Confidence.chunks k n l).map (List.map f) := by
  induction n generalizing l with
  | zero => rfl
  | succ n ih => simp only [PyVec.chunks, Confidence.chunks, List.map_cons, ← List.map_drop, ← List.map_take, ih]

theorem length_chunks {α : Type} (k n : Nat) (l : List α) : (Confidence.chunks k n l).length = n := by
  induction n generalizing l with
  | zero => rfl
  | succ n ih => simp [Confidence.chunks, ih]

theorem column_map (M : List (List (Option Nat))) (i : Nat) :
    PyVec.column Fl.nan (M.map (List.map optNatFl)) (i : Int) = (Confidence.column none M i).map optNatFl := by
  simp only [PyVec.column, Confidence.column, List.map_map, Int.toNat_natCast]
  apply List.map_congr_left
  intro r _
  simp only [Function.comp, List.getD_eq_getElem?_getD, List.getElem?_map]
  cases r[i]? <;> rfl

theorem tabulate_eq {α : Type} (n : Nat) (f : Int → α) :
    tabulate (n : Int) f = (List.range n).map (fun (i : Nat) => f (i : Int)) := by
  unfold tabulate
  rw [Int.toNat_natCast]

/-- `max_disp - min_disp` -/
theorem spreads_embed (M : List (List (Option Nat))) (ne : Nat) :
    zip2 Fl.sub
        (tabulate (ne : Int) (fun i => nanmax (PyVec.column Fl.nan (M.map (List.map optNatFl)) i)))
        (tabulate (ne : Int) (fun i => nanmin (PyVec.column Fl.nan (M.map (List.map optNatFl)) i)))
      = ((List.range ne).map (fun i => spreadOpt ((Confidence.column none M i).filterMap id))).map optNan := by
  rw [tabulate_eq, tabulate_eq, zip2, zipWith_map_map, List.map_map]
  apply List.map_congr_left
  intro i _
  simp only [Function.comp, column_map, spread_embed]

theorem riskMin_embed (spread : List (Option ℚ)) (sampled : List Nat) :
    zip2 Fl.sub (mapL Fl.add (Fl.fin 1) (spread.map optNan)) (embedQ (sampled.map (fun (a : Nat) => (a : ℚ))))
      = (List.zipWith (fun s a => s.map (fun s => (1 + s) - ((a : Nat) : ℚ))) spread sampled).map optNan := by
  simp only [zip2, mapL, embedQ, List.map_map, List.zipWith_map, List.map_zipWith]
  congr 1
  funext s a
  cases s <;> simp [optNan, Fl.sub, Fl.neg, Fl.add, sub_eq_add_neg]

theorem length_pixelCmp (mn mx : ℚ) (etas : List ℚ) (c : Curve) (m : ℚ) (hc : 0 < c.length) :
    (pixelCmp mn mx etas c m).length = c.length * etas.length := by
  rw [pixelCmp_eq mn mx etas c m hc]
  simp [List.length_flatMap, sum_map_const]

theorem length_dispCvHand (mn mx : ℚ) (etas : List ℚ) (c : Curve) (m : ℚ) (hc : 0 < c.length) :
    (dispCvHand mn mx etas c m).length = c.length * etas.length := by
  simp [dispCvHand, length_pixelCmp mn mx etas c m hc, length_npRepeat]

/-- **`compute_risk`: the generated per-pixel function is the hand model.**  For every cost curve (at least one
    disparity), every eta grid, every sampled-ambiguity vector of the grid's length and every pair of global extremes
    with `max_cost ≠ min_cost`, the function the source defines today returns `(risk_max, risk_min) = pixelRisk` — and
    `Res.ok`. -/
theorem computeRisk_generated_eq (mn mx : ℚ) (etas : List ℚ) (c : Curve) (sampled : List Nat)
    (hr : mx ≠ mn) (hc : c ≠ []) (hs : sampled.length = etas.length) :
    computeRiskPx (embedCurve c) (embedQ (sampled.map (fun (a : Nat) => (a : ℚ)))) (Fl.fin mn) (Fl.fin mx) (embedQ etas)
      = .ok (Fl.ofVal (pixelRisk mn mx etas c sampled).1, Fl.ofVal (pixelRisk mn mx etas c sampled).2) := by
  have hlen : 0 < c.length := List.length_pos_iff.mpr hc
  have h0 : mx - mn ≠ 0 := sub_ne_zero.mpr hr
  have hnd : PyVec.len (embedCurve c) = (c.length : Int) := by simp [PyVec.len, embedCurve]
  have hne : PyVec.len (embedQ etas) = (etas.length : Int) := by simp [PyVec.len, embedQ]
  have hnonempty : nonEmpty (embedCurve c) = true := by
    cases c with
    | nil => exact absurd rfl hc
    | cons a l => rfl
  simp only [computeRiskPx, hnd, hne, twoDim_embed etas c.length hlen, nanmin_embed, sub_fin, hnonempty]
  simp only [pixelRisk, pixelBest]
  cases hm : lmin (numsOf c) with
  | none =>
    simp [optNan, Fl.isNan, reshapeRowsOk, length_repeatEach, embedQ, hlen, Fl.ofVal]
  | some m =>
    have e1 : ((c.length : Int) * (etas.length : Int)) = ((c.length * etas.length : Nat) : Int) := by push_cast; ring
    have hresh : reshape2 ((dispCvHand mn mx etas c m).map optNatFl) (c.length : Int) (etas.length : Int)
        = (Confidence.chunks etas.length c.length (dispCvHand mn mx etas c m)).map (List.map optNatFl) := by
      simp [reshape2, chunks_map]
    simp only [optNan, sub_fin, fdiv_fin _ _ h0, Fl.isNan, Bool.false_eq_true, if_false, hr, normalizedCv_embed mn mx c hr,
      e1, gt_embed mn mx etas c m hr hlen, disp0_embed, disp2_embed, hresh, spreads_embed, riskMin_embed, nanmean_embed]
    have hcol : ∀ i : Nat, nonEmpty (PyVec.column Fl.nan
        ((Confidence.chunks etas.length c.length (dispCvHand mn mx etas c m)).map (List.map optNatFl)) (i : Int)) = true := by
      intro i
      have : 0 < (Confidence.chunks etas.length c.length (dispCvHand mn mx etas c m)).length := by
        rw [length_chunks]; exact hlen
      cases hM : Confidence.chunks etas.length c.length (dispCvHand mn mx etas c m) with
      | nil => rw [hM] at this; simp at this
      | cons r M => rfl
    simp [reshapeRowsOk, reshapeOk, length_repeatEach, sameLen, full, embedQ, zip2, hlen, length_twoDimEtas, mapR, mapL, maskSet,
      length_pixelCmp mn mx etas c m hlen, length_dispCvHand mn mx etas c m hlen, Nat.mul_comm, toNat_mul_cast, allRange, hcol,
      inRange, tabulate, hs, length_npRepeat]
    exact ⟨rfl, rfl⟩

end Pandora.C12Kernels
