/-
  C13 — the pipeline `[matching cost; cross-based aggregation; wta; (refinement); (median); cross-checking]` with
  every ingredient concrete: aggregation `cbcaStep` (`C13CbcaStep.lean`: equal to `Cbca.aggregate` on arrays),
  flags `pipeFlags` (`C13Flags.lean`: equal to the criteria model), right map = the same pipeline on the swapped
  pair.  No locality hypothesis is left; the cone is the documented one
  (`w/2 + (armBound cbca_distance + 1) + filter_size/2`, columns extended by the interval, once more for
  cross-checking), obtained from the cone of the cost stage `costStage_cbca_local` (the cost rows are read within
  `armBound` only) through `C13PipelineCost.lean`.
-/
import PandoraModel.Properties.C13CbcaStep
import PandoraModel.Properties.C13PipelineCost

namespace Pandora.C13
open Pandora Pandora.Locality

/-- the cone of the left chain with cbca and the criteria flags -/
def cbcaFilterCone (C : PipeCfg) (Q : CbcaParams) (doMedian : Bool) : Cone :=
  filterConeOf C (cbcaCostCone C Q) (mcCone C.mc C.gmin C.gmax) doMedian

/-- the cone of the whole pipeline with cbca on both sides and the criteria flags -/
def cbcaPipeCone (C C' : PipeCfg) (Q Q' : CbcaParams) (doMedian : Bool) (CP : CrossCheck.Params) : Cone :=
  pipeConeOf C (cbcaCostCone C Q) (mcCone C.mc C.gmin C.gmax) (cbcaFilterCone C' Q' doMedian) doMedian CP

/-- **Crop run = whole run for the pipeline with cross-based aggregation, nothing left abstract**: aggregation
    `cbcaStep`, criteria flags, right map by the same pipeline (configuration `C'`, `Q'`: mirrored interval) on the
    swapped pair. -/
theorem pipeline_cbca_flags_crop_eq_whole (C C' : PipeCfg) (Q Q' : CbcaParams)
    (hsp : 0 < C.mc.sp) (hsp' : 0 < C'.mc.sp)
    (hn : ∀ j : Nat, j < C.n → C.gmin * (C.mc.sp : Int) + j ≤ C.gmax * (C.mc.sp : Int))
    (hn' : ∀ j : Nat, j < C'.n → C'.gmin * (C'.mc.sp : Int) + j ≤ C'.gmax * (C'.mc.sp : Int))
    (doRefine doMedian : Bool) (V : CrossCheck.Variant) (CP : CrossCheck.Params)
    (ny nx r0 c0 ny' nx' : Nat) (scene : Nat → Nat → McCell) (hfit : r0 + ny' ≤ ny ∧ c0 + nx' ≤ nx) (p : Px)
    (hcone : ∀ q, inCone (cbcaPipeCone C C' Q Q' doMedian CP) (p.1 + r0, p.2 + c0) q →
      InRect r0 c0 ny' nx' q ∨ ¬ InImage ny nx q) :
    ccStage C (cbcaStep Q) (pipeFlags C) doRefine doMedian
        (rightDisp C' (cbcaStep Q') (pipeFlags C') doRefine doMedian) V CP (toImg ny' nx' (cropArr r0 c0 scene)) p
      = ccStage C (cbcaStep Q) (pipeFlags C) doRefine doMedian
        (rightDisp C' (cbcaStep Q') (pipeFlags C') doRefine doMedian) V CP (toImg ny nx scene) (p.1 + r0, p.2 + c0) :=
  pipeline_crop_eq_whole_of_cost C (costStage_cbca_local C hsp hn Q) (cbcaStep_equivariant Q)
    (flagStep_local C.mc hsp C.gmin C.gmax C.n hn) (flagStep_equivariant C.mc C.gmin C.gmax C.n) doRefine doMedian
    (rightDisp_local_of_cost C' (costStage_cbca_local C' hsp' hn' Q')
      (flagStep_local C'.mc hsp' C'.gmin C'.gmax C'.n hn') doRefine doMedian)
    (rightDisp_equivariant C' (cbcaStep_equivariant Q') (flagStep_equivariant C'.mc C'.gmin C'.gmax C'.n)
      doRefine doMedian)
    V CP ny nx r0 c0 ny' nx' scene hfit p hcone

/-- … and for the filtered left disparity and flags (pipelines without cross-checking) -/
theorem filter_cbca_flags_crop_eq_whole (C : PipeCfg) (Q : CbcaParams) (hsp : 0 < C.mc.sp)
    (hn : ∀ j : Nat, j < C.n → C.gmin * (C.mc.sp : Int) + j ≤ C.gmax * (C.mc.sp : Int))
    (doRefine doMedian : Bool)
    (ny nx r0 c0 ny' nx' : Nat) (scene : Nat → Nat → McCell) (hfit : r0 + ny' ≤ ny ∧ c0 + nx' ≤ nx) (p : Px)
    (hcone : ∀ q, inCone (cbcaFilterCone C Q doMedian) (p.1 + r0, p.2 + c0) q →
      InRect r0 c0 ny' nx' q ∨ ¬ InImage ny nx q) :
    filterStage C (cbcaStep Q) (pipeFlags C) doRefine doMedian (toImg ny' nx' (cropArr r0 c0 scene)) p
      = filterStage C (cbcaStep Q) (pipeFlags C) doRefine doMedian (toImg ny nx scene) (p.1 + r0, p.2 + c0) :=
  filter_crop_eq_whole_of_cost C (costStage_cbca_local C hsp hn Q) (cbcaStep_equivariant Q)
    (flagStep_local C.mc hsp C.gmin C.gmax C.n hn) (flagStep_equivariant C.mc C.gmin C.gmax C.n) doRefine doMedian
    ny nx r0 c0 ny' nx' scene hfit p hcone

/-- the cost stage with cbca is inside the documented cost cone `mcCone + square (armBound + 1)` -/
theorem cbcaCostCone_le_costCone (C : PipeCfg) (Q : CbcaParams) (hoff : Q.off = MC.half C.mc.w)
    (hmin : Q.gmin = C.gmin) (hmax : Q.gmax = C.gmax) :
    Cone.le (cbcaCostCone C Q) (costCone C (Cone.square (armBound Q.dist + 1))) := by
  have h := cbcaCostCone_documented C Q hoff hmin hmax
  unfold Cone.le costCone mcCone Cone.add Cone.square at *
  simp only at *
  omega

/-- **The documented radii of the full pipeline with cbca**: `offset_row_col = w/2`, same window, filter size and
    `cbca_distance` on both sides, mirrored interval on the right, cross-checking without border offset:
    rows within `w/2 + (armBound + 1) + filter_size/2`; columns within that, extended by the interval once for the
    pipeline and once more for cross-checking. -/
theorem cbcaPipeCone_documented (C C' : PipeCfg) (Q Q' : CbcaParams) (CP : CrossCheck.Params) (hoff : CP.offset = 0)
    (hQ : Q.off = MC.half C.mc.w) (hQmin : Q.gmin = C.gmin) (hQmax : Q.gmax = C.gmax)
    (hQ' : Q'.off = MC.half C'.mc.w) (hQmin' : Q'.gmin = C'.gmin) (hQmax' : Q'.gmax = C'.gmax)
    (hw : MC.half C'.mc.w = MC.half C.mc.w) (hfs : C'.fs = C.fs) (hdist : Q'.dist = Q.dist)
    (hmin : C'.gmin = -C.gmax) (hmax : C'.gmax = -C.gmin) :
    Cone.le (cbcaPipeCone C C' Q Q' true CP)
      ⟨MC.half C.mc.w + (armBound Q.dist + 1) + C.fs / 2, MC.half C.mc.w + (armBound Q.dist + 1) + C.fs / 2,
       MC.half C.mc.w + (armBound Q.dist + 1) + C.fs / 2 + max (-C.gmin).toNat C.gmax.toNat + (-CP.dmin).toNat,
       MC.half C.mc.w + (armBound Q.dist + 1) + C.fs / 2 + max (-C.gmin).toNat C.gmax.toNat + CP.dmax.toNat⟩ := by
  have h1 := cbcaCostCone_le_costCone C Q hQ hQmin hQmax
  have h2 := cbcaCostCone_documented C' Q' hQ' hQmin' hQmax'
  apply pipeConeOf_documented C (armBound Q.dist + 1) CP hoff _ _ _ h1 (flagCone_le_costCone C _)
  unfold Cone.le cbcaFilterCone filterConeOf mcCone Cone.add Cone.sup Cone.square at *
  simp only [if_true] at *
  rw [hw, hfs, hdist, hmin, hmax] at *
  have e1 : (- -C.gmax).toNat = C.gmax.toNat := by rw [Int.neg_neg]
  rw [e1] at *
  omega

/-! ### Non-vacuity: `exCfg` (sad, window 3, subpix 2, interval [-1, 1], vfit, median 3) with `exQ`
    (`offset_row_col` 1, `cbca_distance` 3, the same five disparity samples) on both sides (the interval is its own
    mirror image): no hypothesis is left, for every scene array, crop and pixel whose clipped cone lies in the crop -/

theorem exCfg_samples : ∀ j : Nat, j < exCfg.n → exCfg.gmin * (exCfg.mc.sp : Int) + j ≤ exCfg.gmax * (exCfg.mc.sp : Int) := by
  intro j hj
  have h5 : j < 5 := hj
  show (-1 : Int) * ((2 : Nat) : Int) + (j : Int) ≤ 1 * ((2 : Nat) : Int)
  omega

example (ny nx r0 c0 ny' nx' : Nat) (scene : Nat → Nat → McCell) (hfit : r0 + ny' ≤ ny ∧ c0 + nx' ≤ nx) (p : Px)
    (hcone : ∀ q, inCone (cbcaPipeCone exCfg exCfg exQ exQ true C07.exParams) (p.1 + r0, p.2 + c0) q →
      InRect r0 c0 ny' nx' q ∨ ¬ InImage ny nx q) :
    ccStage exCfg (cbcaStep exQ) (pipeFlags exCfg) true true
        (rightDisp exCfg (cbcaStep exQ) (pipeFlags exCfg) true true) .ruleFix C07.exParams
        (toImg ny' nx' (cropArr r0 c0 scene)) p
      = ccStage exCfg (cbcaStep exQ) (pipeFlags exCfg) true true
        (rightDisp exCfg (cbcaStep exQ) (pipeFlags exCfg) true true) .ruleFix C07.exParams
        (toImg ny nx scene) (p.1 + r0, p.2 + c0) :=
  pipeline_cbca_flags_crop_eq_whole exCfg exCfg exQ exQ (by decide) (by decide) exCfg_samples exCfg_samples
    true true .ruleFix C07.exParams ny nx r0 c0 ny' nx' scene hfit p hcone

/-- its cone: `armBound 3 = 2`, cost stage `2 + max 1 1 = 3` (inside the documented `1 + 2 + 1 = 4`), median `+ 1`:
    rows 4; columns `4 + 1` for the interval, `+ 2 / + 3` for the interval of C07's example parameters (`[-2, 3]`) -/
example : cbcaPipeCone exCfg exCfg exQ exQ true C07.exParams = ⟨4, 4, 7, 8⟩ := by decide
example : cbcaCostCone exCfg exQ = ⟨3, 3, 4, 4⟩ ∧ (mcCone exCfg.mc exCfg.gmin exCfg.gmax).add (cbcaCone exQ) = ⟨4, 4, 6, 6⟩ := by
  decide

end Pandora.C13
