/-
  C13 — Results are local: a pixel depends on its neighbourhood, not on its position.

  The general theory, for every step, image, crop and offset (no bound):
    * steps that read their input at fixed offsets (stencils) are local, with the bounding cone of their
      offsets, and translation equivariant;
    * locality composes (cones add) and pairs (cones join);
    * a local step gives, on any crop containing the (clipped) cone of a pixel, the same value at that
      pixel as on the whole image, wherever the crop starts;
    * a stencil whose offsets are symmetric in the row direction commutes with the vertical flip.
  Which radii the real steps have is observed on the implementation by the whole-vs-crop differential
  (harness/props/C13.py).
-/
import PandoraModel.Model.Locality

namespace Pandora.C13
open Pandora.Locality

theorem inCone_mono {R S : Cone} (h : R.up ≤ S.up ∧ R.down ≤ S.down ∧ R.left ≤ S.left ∧ R.right ≤ S.right)
    {p q : Px} (hq : inCone R p q) : inCone S p q := by
  unfold inCone at *
  omega

theorem Local.mono {α β : Type} {R S : Cone} {f : Img α → Img β}
    (h : R.up ≤ S.up ∧ R.down ≤ S.down ∧ R.left ≤ S.left ∧ R.right ≤ S.right) (hf : Local R f) : Local S f :=
  fun a b p hab => hf a b p (fun q hq => hab q (inCone_mono h hq))

/-- **Locality composes: the cones add.** -/
theorem Local.comp {α β γ : Type} {R S : Cone} {f : Img α → Img β} {g : Img β → Img γ}
    (hf : Local R f) (hg : Local S g) : Local (R.add S) (g ∘ f) := by
  intro a b p hab
  apply hg
  intro q hq
  apply hf
  intro r hr
  apply hab
  unfold inCone Cone.add at *
  simp only at *
  omega

/-- two local steps run side by side (e.g. left and right products): the cones join -/
theorem Local.pair {α β γ : Type} {R S : Cone} {f : Img α → Img β} {g : Img α → Img γ}
    (hf : Local R f) (hg : Local S g) :
    Local (R.sup S) (fun a p => match f a p, g a p with
      | some x, some y => some (x, y)
      | _, _ => none) := by
  intro a b p hab
  have h1 := hf a b p (fun q hq => hab q (inCone_mono (by simp [Cone.sup]; omega) hq))
  have h2 := hg a b p (fun q hq => hab q (inCone_mono (by simp [Cone.sup]; omega) hq))
  simp only [h1, h2]

/-- a pointwise step (winner-takes-all on a pixel's costs, refinement of a pixel's disparity) has an
    empty cone -/
theorem pointwise_local {α β : Type} (F : Option α → Option β) :
    Local Cone.zero (fun (a : Img α) p => F (a p)) := by
  intro a b p hab
  have := hab p (by unfold inCone Cone.zero; omega)
  simp only [this]

theorem foldl_cone_ge (offs : List Px) (R : Cone) :
    let C := offs.foldl (fun R d => (⟨max R.up (-d.1).toNat, max R.down d.1.toNat, max R.left (-d.2).toNat, max R.right d.2.toNat⟩ : Cone)) R
    R.up ≤ C.up ∧ R.down ≤ C.down ∧ R.left ≤ C.left ∧ R.right ≤ C.right := by
  induction offs generalizing R with
  | nil => simp
  | cons d ds ih =>
    simp only [List.foldl_cons]
    have := ih ⟨max R.up (-d.1).toNat, max R.down d.1.toNat, max R.left (-d.2).toNat, max R.right d.2.toNat⟩
    simp only at this ⊢
    omega

theorem mem_coneOf (offs : List Px) (R : Cone) (d : Px) (hd : d ∈ offs) :
    let C := offs.foldl (fun R d => (⟨max R.up (-d.1).toNat, max R.down d.1.toNat, max R.left (-d.2).toNat, max R.right d.2.toNat⟩ : Cone)) R
    (-d.1).toNat ≤ C.up ∧ d.1.toNat ≤ C.down ∧ (-d.2).toNat ≤ C.left ∧ d.2.toNat ≤ C.right := by
  induction offs generalizing R with
  | nil => simp at hd
  | cons e es ih =>
    simp only [List.foldl_cons]
    simp only [List.mem_cons] at hd
    rcases hd with rfl | hd
    · have := foldl_cone_ge es ⟨max R.up (-d.1).toNat, max R.down d.1.toNat, max R.left (-d.2).toNat, max R.right d.2.toNat⟩
      simp only at this ⊢
      omega
    · exact ih _ hd

/-- **A stencil is local**, with the bounding cone of its offsets: window sums (offsets = the window),
    matching costs at a disparity (the window and the window displaced by the disparity), medians and
    weighted means over a filter window, cross-checking (the columns reachable through the interval). -/
theorem stencil_local {α β : Type} (offs : List Px) (G : List (Option α) → Option β) :
    Local (coneOf offs) (stencil offs G) := by
  intro a b p hab
  unfold stencil
  congr 1
  apply List.map_congr_left
  intro d hd
  apply hab
  have h := mem_coneOf offs Cone.zero d hd
  unfold coneOf inCone
  simp only at h ⊢
  omega

/-- **A stencil does not look at absolute positions.** -/
theorem stencil_equivariant {α β : Type} (offs : List Px) (G : List (Option α) → Option β) :
    Equivariant (stencil offs G) := by
  intro t a
  funext p
  unfold stencil shift
  congr 1
  apply List.map_congr_left
  intro d _
  congr 1
  ext <;> simp <;> omega

theorem Equivariant.comp {α β γ : Type} {f : Img α → Img β} {g : Img β → Img γ}
    (hf : Equivariant f) (hg : Equivariant g) : Equivariant (g ∘ f) := by
  intro t a
  simp only [Function.comp, hf t a, hg t (f a)]

/-- **Crop = whole.** If the part of the cone of `p` that lies in the image is inside the crop `S`,
    processing the crop gives at `p` exactly what processing the whole image gives. -/
theorem crop_eq_whole {α β : Type} {R : Cone} {f : Img α → Img β} (hf : Local R f)
    (S : Px → Prop) [DecidablePred S] (a : Img α) (p : Px)
    (hS : ∀ q, inCone R p q → S q ∨ a q = none) :
    f (restrict S a) p = f a p := by
  apply hf
  intro q hq
  unfold restrict
  rcases hS q hq with h | h
  · simp [h]
  · by_cases hs : S q <;> simp [hs, h]

/-- ... wherever the crop starts: re-indexing the crop so that its corner is the origin moves the result
    with it. -/
theorem crop_anywhere {α β : Type} {R : Cone} {f : Img α → Img β} (hf : Local R f) (he : Equivariant f)
    (S : Px → Prop) [DecidablePred S] (a : Img α) (t p : Px)
    (hS : ∀ q, inCone R (p.1 + t.1, p.2 + t.2) q → S q ∨ a q = none) :
    f (shift t (restrict S a)) p = f a (p.1 + t.1, p.2 + t.2) := by
  rw [he t (restrict S a)]
  exact crop_eq_whole hf S a _ hS

/-- **Vertical flip**: a stencil whose function gives the same result when the rows of its window are
    listed bottom-up (odd-sized windows centred on the pixel: sums, medians, extrema, counts) commutes
    with flipping the image. -/
theorem stencil_vflip {α β : Type} (offs : List Px) (G : List (Option α) → Option β)
    (hG : ∀ (a : Img α) (p : Px),
      G (offs.map fun d => a (p.1 + d.1, p.2 + d.2)) = G (offs.map fun d => a (p.1 - d.1, p.2 + d.2)))
    (a : Img α) : stencil offs G (vflip a) = vflip (stencil offs G a) := by
  funext p
  unfold stencil vflip
  simp only
  rw [hG a (-p.1, p.2)]
  congr 1
  apply List.map_congr_left
  intro d _
  congr 1
  ext <;> simp <;> omega

/-! ### Non-vacuity: a 3×3 window sum is a stencil with cone (1,1,1,1); a matching window displaced by a
    disparity range has its cone extended by the range on the column side -/

def win3 : List Px := [(-1, -1), (-1, 0), (-1, 1), (0, -1), (0, 0), (0, 1), (1, -1), (1, 0), (1, 1)]
example : coneOf win3 = ⟨1, 1, 1, 1⟩ := by decide
example : coneOf (win3 ++ win3.map fun d => (d.1, d.2 + 3)) = ⟨1, 1, 1, 4⟩ := by decide

end Pandora.C13
