/- C13 — theorems (placeholder until the property is built). -/
