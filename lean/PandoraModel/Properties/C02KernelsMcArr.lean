/-
  C02 — the array functions of pandora/img_tools.py the measures are built on, REGENERATED from the source
  (`Generated/KernelsMcArr.lean`, translator/gen_kernels_mc_arr.py), are the model's.

  (1) census_transform
    * `censusTransform_eq`        the two loops threading `(census, shift)` over the strided window view = `MC.censusBits`, for
                                  EVERY window size, image and position (bit order, `>`, centre compared with itself, border)
    * `censusShape_eq`            the census image has `n − 2·half w` rows / columns (odd `w`)
    * `census_generated_window3/5`  generated cost ∘ generated transform of two images = number of neighbour-vs-centre
                                  comparisons that differ — no hand-modelled link left
  (2) compute_mean_raster
    * `meanRasterPx_eq_model`, `meanRasterPx_eq_mean`   the cumulative-sum pipeline = `MC.meanRaster` = the block mean (any raster, any `w`)
    * `stdRadicandPx_eq_model`    `compute_std_raster`'s radicand on top of it = `MC.varRaster` (`abs` of `E[x²]` irrelevant: `C02KernelsMcCost.meanRaster_nonneg`)
  (3) shift_right_img
    * `shift_eq_model`            zoom arguments, column selection and count = the indexing of `MC.shiftRight`
-/
import PandoraModel.Model.MatchingCost
import PandoraModel.Model.PyExpr
import PandoraModel.Generated.KernelsMcArr
import PandoraModel.Properties.C02KernelsMc
import PandoraModel.Properties.C02KernelsMcCost
import PandoraModel.Properties.C02Zncc
import Mathlib.Tactic.Linarith
import Mathlib.Tactic.Ring
import Mathlib.Tactic.SplitIfs
import Mathlib.Tactic.Positivity

set_option linter.unusedSimpArgs false
set_option linter.unusedVariables false
set_option linter.unreachableTactic false
set_option linter.unusedTactic false
set_option linter.unnecessarySeqFocus false

namespace Pandora.C02KernelsMcArr
open Pandora Pandora.MC Pandora.PyExpr
open Pandora.Generated

/-! ## (1) census_transform -/

theorem foldl_congr_mem {α β : Type} (f g : α → β → α) (l : List β) (h : ∀ x ∈ l, ∀ a, f a x = g a x) :
    ∀ a, l.foldl f a = l.foldl g a := by
  induction l with
  | nil => intro a; rfl
  | cons x l ih =>
    intro a
    simp only [List.foldl_cons]
    rw [h x (List.mem_cons_self ..) a]
    exact ih (fun y hy => h y (List.mem_cons_of_mem _ hy)) _

/-- a loop that threads `(acc, shift)` with `shift -= 1`: the shift at iteration `col` is `S − col` -/
theorem foldl_pair (t : Nat → Int → Nat) (n : Nat) : ∀ (acc : Nat) (S : Int),
    (List.range n).foldl (fun (st : Nat × Int) (col : Nat) => (st.1 + t col st.2, st.2 - 1)) (acc, S)
      = ((List.range n).foldl (fun a col => a + t col (S - col)) acc, S - n) := by
  induction n with
  | zero => intro acc S; simp
  | succ n ih =>
    intro acc S
    rw [List.range_succ, List.foldl_append, List.foldl_append, ih]
    simp only [List.foldl_cons, List.foldl_nil]
    refine Prod.ext rfl ?_
    simp only
    push_cast
    ring

theorem foldl_pair2 (t : Nat → Nat → Int → Nat) (w m : Nat) : ∀ (acc : Nat) (S : Int),
    (List.range m).foldl (fun (st : Nat × Int) (row : Nat) =>
        (List.range w).foldl (fun (st : Nat × Int) (col : Nat) => (st.1 + t row col st.2, st.2 - 1)) st) (acc, S)
      = ((List.range m).foldl (fun a row => (List.range w).foldl (fun a col => a + t row col (S - row * w - col)) a) acc,
          S - m * w) := by
  induction m with
  | zero => intro acc S; simp
  | succ m ih =>
    intro acc S
    rw [List.range_succ, List.foldl_append, List.foldl_append, ih]
    simp only [List.foldl_cons, List.foldl_nil]
    rw [foldl_pair (t m) w]
    refine Prod.ext rfl ?_
    simp only
    push_cast
    ring

theorem censusBorder_eq (w : Nat) : KernelsMcArr.censusBorder (w : Int) = ((half w : Nat) : Int) := by
  unfold KernelsMcArr.censusBorder half
  cases w with
  | zero => decide +kernel
  | succ n =>
    have e : (((n + 1 : Nat) : Int) - 1) = ((n : Nat) : Int) := by push_cast; ring
    rw [e, C02KernelsMc.rtrunc_half n]
    simp only [Nat.add_sub_cancel]
    omega

theorem shift_index (w a b : Nat) (ha : a < w) (hb : b < w) :
    ((KernelsMcArr.censusShift0 (w : Int)) - (a : Int) * (w : Int) - (b : Int)).toNat = w * w - 1 - (a * w + b) := by
  unfold KernelsMcArr.censusShift0
  have h1 : (a + 1) * w ≤ w * w := Nat.mul_le_mul_right w ha
  have h2 : (a + 1) * w = a * w + w := by ring
  have e1 : ((w : Int) * (w : Int)) = ((w * w : Nat) : Int) := by push_cast; ring
  have e2 : ((a : Int) * (w : Int)) = ((a * w : Nat) : Int) := by push_cast; ring
  rw [e1, e2]
  generalize a * w = P at *
  generalize w * w = Q at *
  omega

/-- **`census_transform`, regenerated, is the model's census bit string** — every window size, image and position -/
theorem censusTransform_eq (w : Nat) (img : Img) (i j : Int) :
    KernelsMcArr.censusTransformPx (w : Int) img.px i j = censusBits w img i j := by
  unfold KernelsMcArr.censusTransformPx KernelsMcArr.censusRange0 KernelsMcArr.censusRange1 censusBits
  simp only [Int.toNat_natCast]
  rw [foldl_pair2 (fun row col s => (if img.px (i + (row : Int)) (j + (col : Int)) >
      img.px (i + KernelsMcArr.censusBorder (w : Int)) (j + KernelsMcArr.censusBorder (w : Int)) then (1 : Nat) else 0) <<< s.toNat) w w]
  simp only
  rw [censusBorder_eq]
  apply foldl_congr_mem
  intro a ha acc
  apply foldl_congr_mem
  intro b hb acc'
  rw [shift_index w a b (List.mem_range.mp ha) (List.mem_range.mp hb)]

/-- size of the census image (odd window): what the model crops to -/
theorem censusShape_eq (w : Nat) (hw : w % 2 = 1) (ny nx : Int) :
    KernelsMcArr.censusShape0 (w : Int) ny nx = ny - 2 * ((half w : Nat) : Int)
    ∧ KernelsMcArr.censusShape1 (w : Int) ny nx = nx - 2 * ((half w : Nat) : Int) := by
  unfold KernelsMcArr.censusShape0 KernelsMcArr.censusShape1 half
  constructor <;> omega

/-- **census, end to end, 3×3**: the regenerated cost of the regenerated census images of `A` and `B` at the window centred on
    `(r, c)` is the number of neighbours whose comparison with the centre differs between the two images -/
theorem census_generated_window3 (A B : Img) (r c : Int) :
    KernelsMcCost.censusCost (KernelsMcArr.censusTransformPx ((3 : Nat) : Int) A.px (r - 1) (c - 1))
        (KernelsMcArr.censusTransformPx ((3 : Nat) : Int) B.px (r - 1) (c - 1)) =
      winCount 1 (fun a b => decide (A.px a b > A.px r c) != decide (B.px a b > B.px r c)) r c := by
  rw [censusTransform_eq 3 A, censusTransform_eq 3 B]
  exact C02KernelsMcCost.censusCost_window3 A B r c

/-- 5×5 -/
theorem census_generated_window5 (A B : Img) (r c : Int) :
    KernelsMcCost.censusCost (KernelsMcArr.censusTransformPx ((5 : Nat) : Int) A.px (r - 2) (c - 2))
        (KernelsMcArr.censusTransformPx ((5 : Nat) : Int) B.px (r - 2) (c - 2)) =
      winCount 2 (fun a b => decide (A.px a b > A.px r c) != decide (B.px a b > B.px r c)) r c := by
  rw [censusTransform_eq 5 A, censusTransform_eq 5 B]
  exact C02KernelsMcCost.censusCost_window5 A B r c

/-- non-vacuity: centre 5, neighbours above it at offsets (0,1) and (2,2) of a 3×3 window: bits 7 and 0 -/
example : KernelsMcArr.censusTransformPx 3 (fun r c => if (r, c) = (0, 1) ∨ (r, c) = (2, 2) then 9 else 5) 0 0 = 129 := by decide +kernel

/-! ## (2) compute_mean_raster -/

/-- cumulative sum of a raster with a leading zero: the prefix sum -/
theorem prefix_zero (g : Int → ℚ) (n : Nat) :
    sumZ (0 : ℚ) (fun k => if k = 0 then 0 else g (k - 1)) 0 (n + 1) = sumZ (0 : ℚ) g 0 n := by
  induction n with
  | zero => simp [sumZ]
  | succ n ih =>
    rw [sumZ, ih, sumZ]
    have h : ¬ ((0 : Int) + ((n + 1 : Nat) : Int) = 0) := by omega
    rw [if_neg h]
    congr 2
    push_cast
    ring

theorem cum_row (f : Int → Int → ℚ) (i j : Int) (hi : 0 ≤ i) :
    KernelsMcArr.cumsum0 (KernelsMcArr.zeroRow f) i j = sumZ (0 : ℚ) (fun i' => f i' j) 0 i.toNat := by
  obtain ⟨n, rfl⟩ := Int.eq_ofNat_of_zero_le hi
  unfold KernelsMcArr.cumsum0 KernelsMcArr.zeroRow
  have e : ((n : Int) + 1).toNat = n + 1 := by omega
  rw [e]
  simpa using prefix_zero (fun i' => f i' j) n

theorem cum_col (g : Int → Int → ℚ) (i j : Int) (hj : 0 ≤ j) :
    KernelsMcArr.cumsum1 (KernelsMcArr.zeroCol g) i j = sumZ (0 : ℚ) (fun j' => g i j') 0 j.toNat := by
  obtain ⟨n, rfl⟩ := Int.eq_ofNat_of_zero_le hj
  unfold KernelsMcArr.cumsum1 KernelsMcArr.zeroCol
  have e : ((n : Int) + 1).toNat = n + 1 := by omega
  rw [e]
  simpa using prefix_zero (fun j' => g i j') n

/-- **`compute_mean_raster`, regenerated statement by statement, is the model's `meanRaster`** (any raster, any window size,
    any cell of the result) -/
theorem meanRasterPx_eq_model (w : Nat) (f : Int → Int → ℚ) (i j : Int) (hi : 0 ≤ i) (hj : 0 ≤ j) :
    KernelsMcArr.meanRasterPx w f i j = meanRaster w f i j := by
  unfold KernelsMcArr.meanRasterPx meanRaster KernelsMcArr.meanDen
  simp only [KernelsMcArr.diff1]
  rw [cum_col _ i (j + w) (by omega), cum_col _ i j hj]
  have hrow : ∀ j' : Int, KernelsMcArr.diff0 w (KernelsMcArr.cumsum0 (KernelsMcArr.zeroRow f)) i j'
      = sumZ (0 : ℚ) (fun i' => f i' j') 0 (i + w).toNat - sumZ (0 : ℚ) (fun i' => f i' j') 0 i.toNat := by
    intro j'
    unfold KernelsMcArr.diff0
    rw [cum_row f (i + w) j' (by omega), cum_row f i j' hi]
  simp only [hrow]
  push_cast
  rfl

/-- … hence the block mean `Σ_{window} f / w²`: the statement C12's `std_intensity` (same two functions) can reuse -/
theorem meanRasterPx_eq_mean (w : Nat) (f : Int → Int → ℚ) (i j : Int) (hi : 0 ≤ i) (hj : 0 ≤ j) :
    KernelsMcArr.meanRasterPx w f i j = C02.mean w w f i j := by
  rw [meanRasterPx_eq_model w f i j hi hj]; exact C02.meanRaster_eq_mean w f i j hi hj

/-! `compute_std_raster` on top: radicand and the 1e-15 rule -/

/-- the radicand of `compute_std_raster` computed from the REGENERATED mean rasters is the model's `varRaster`; written so
    that it holds whether or not the source takes `abs` of `mean_power_two` (it is never negative) -/
theorem stdRadicandPx_eq_model (w : Nat) (f : Int → Int → ℚ) (i j : Int) (hi : 0 ≤ i) (hj : 0 ≤ j) :
    varRaster w f i j = C02KernelsMcCost.stdRadicand (KernelsMcArr.meanRasterPx w (fun r c => f r c * f r c) i j)
      (KernelsMcArr.meanRasterPx w f i j) := by
  rw [meanRasterPx_eq_model w _ i j hi hj, meanRasterPx_eq_model w f i j hi hj]
  exact C02KernelsMcCost.stdRadicand_eq_model w f i j

/-! ## (3) shift_right_img -/

/-- the number of columns kept by `[:, ind::subpix]` out of the zoomed width `nx·sp − (sp − 1)` is `nx − 1` -/
theorem shiftedCols_eq (nx ind sp : Int) (hs : 0 < sp) (h1 : 1 ≤ ind) (h2 : ind < sp) :
    KernelsMcArr.shiftedCols nx ind sp = nx - 1 := by
  unfold KernelsMcArr.shiftedCols KernelsMcArr.zoomedCols KernelsMcArr.shiftFirst KernelsMcArr.shiftStep
  have e : nx * sp - (sp - 1) - ind + sp - 1 = (sp - ind) + (nx - 1) * sp := by ring
  rw [e, Int.add_mul_ediv_right _ _ (ne_of_gt hs), Int.ediv_eq_zero_of_lt (by omega) (by omega)]
  ring

/-- **`shift_right_img` indexes the zoomed image as the model does**: the zoom is called on the selected band with factors
    `(1, (nx·sp − (sp − 1)) / nx)` and `order=1` (what `zoom` computes stays the modelled primitive: linear interpolation at
    `kk / sp`, `MC.zoomCol`); image number `i ≥ 1` of the list takes zoomed columns `i, i + sp, i + 2·sp, …`, `nx − 1` of them; number
    0 is the image itself -/
theorem shift_eq_model (R : Img) (sp i : Nat) (hs : 0 < sp) (hi1 : 1 ≤ i) (hi2 : i < sp) (hc : 1 ≤ R.cols) (r j : Int) :
    KernelsMcArr.zoomOrder = 1
    ∧ KernelsMcArr.zoomFactorRows (R.cols : Int) (sp : Int) = 1
    ∧ KernelsMcArr.zoomedCols (R.cols : Int) (sp : Int) = ((R.cols : Int) - 1) * sp + 1
    ∧ (shiftRight R sp i).px r j = zoomCol R sp r (KernelsMcArr.shiftedCol (i : Int) (sp : Int) j)
    ∧ ((shiftRight R sp i).cols : Int) = KernelsMcArr.shiftedCols (R.cols : Int) (i : Int) (sp : Int)
    ∧ shiftRight R sp 0 = R := by
  have hi0 : ¬ (i = 0) := by omega
  refine ⟨rfl, rfl, ?_, ?_, ?_, ?_⟩
  · unfold KernelsMcArr.zoomedCols; ring
  · unfold shiftRight KernelsMcArr.shiftedCol KernelsMcArr.shiftFirst KernelsMcArr.shiftStep
    rw [if_neg hi0]
  · rw [shiftedCols_eq _ _ _ (by exact_mod_cast hs) (by exact_mod_cast hi1) (by exact_mod_cast hi2)]
    unfold shiftRight
    rw [if_neg hi0]
    simp only
    omega
  · unfold shiftRight; rw [if_pos rfl]

/-- the last zoomed column is the last image column: positions `0, 1/sp, …, nx − 1` -/
example : KernelsMcArr.zoomedCols 5 4 = 17 ∧ KernelsMcArr.shiftedCols 5 3 4 = 4 ∧ KernelsMcArr.shiftedCol 3 4 2 = 11 := by decide +kernel

end Pandora.C02KernelsMcArr
