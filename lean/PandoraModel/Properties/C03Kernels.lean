/-
  C03 — the numpy glue of winner-takes-all (`WinnerTakesAll.to_disp`, `argmin_split`, `argmax_split`), regenerated from
  the source (`Generated/KernelsWta.lean`, written by `translator/gen_kernels_wta.py`), equals the hand model
  `Model/Wta.lean` — for every cost volume (any shape, any NaN pattern), both measure types, every disparity
  coordinate, invalid value and store.

  * `toDisp_generated`: the map the generated `to_disp` returns is `Wta.toDisp` with the split literals T8 reads in the
    same source; the cost volume is handed back with its original content (for ANY content, ±inf included);
    no other array of either store is written.
  * `toDisp_generated_spec`: hence C03's per-pixel specification holds of the generated function.
-/
import PandoraModel.Properties.C03
import PandoraModel.Properties.C10Kernels
import PandoraModel.Generated.KernelsWta

namespace Pandora.C03Kernels
open Pandora Pandora.PyArr Pandora.PyLoops Pandora.Wta Pandora.C10Kernels

/-! ### rows -/

theorem zipWith_maps {α β γ δ : Type} (f : β → γ → δ) (g : α → β) (h : α → γ) :
    ∀ l : List α, List.zipWith f (l.map g) (l.map h) = l.map (fun x => f (g x) (h x))
  | [] => rfl
  | x :: xs => by simp [zipWith_maps f g h xs]

/-- the order-preserving embedding of the model's substituted costs into floats -/
def emb : Ext → Fl
  | .negInf => .ninf
  | .fin q => .fin q
  | .posInf => .pinf

theorem lt_emb (a b : Ext) : Fl.lt (emb a) (emb b) = Ext.lt a b := by
  cases a <;> cases b <;> rfl

theorem argFirstAux_map {α β : Type} (lt1 : α → α → Bool) (lt2 : β → β → Bool) (f : α → β)
    (h : ∀ a b, lt2 (f a) (f b) = lt1 a b) :
    ∀ (l : List α) (x : α), argFirstAux lt2 (f x) (l.map f) = ((argFirstAux lt1 x l).1, f (argFirstAux lt1 x l).2)
  | [], x => rfl
  | y :: ys, x => by
    simp only [List.map_cons, argFirstAux]
    rw [argFirstAux_map lt1 lt2 f h ys y]
    simp only [h]
    split <;> rfl

theorem argFirst_map {α β : Type} (lt1 : α → α → Bool) (lt2 : β → β → Bool) (f : α → β)
    (h : ∀ a b, lt2 (f a) (f b) = lt1 a b) (l : List α) : argFirst lt2 (l.map f) = argFirst lt1 l := by
  cases l with
  | nil => rfl
  | cons x xs => simp [argFirst, argFirstAux_map lt1 lt2 f h xs x]

theorem emb_not_nan (e : Ext) : (emb e).isNan = false := by cases e <;> rfl

theorem firstNan_emb (l : List Ext) : firstNan (l.map emb) = none := by
  unfold firstNan
  rw [List.findIdx?_eq_none_iff]
  intro x hx
  obtain ⟨e, _, rfl⟩ := List.mem_map.1 hx
  simp [emb_not_nan]

/-- the row `np.argmin` / `np.argmax` sees: the pixel's costs with NaN replaced by `+inf` / `-inf` -/
theorem substituted_row (isMax : Bool) (costs : List Val) :
    List.zipWith (fun b x => if b then (if isMax then Fl.ninf else Fl.pinf) else x)
        ((costs.map Fl.ofVal).map Fl.isNan) (costs.map Fl.ofVal)
      = (costs.map (if isMax then substMax else substMin)).map emb := by
  have h := zipWith_maps (fun b x => if b then (if isMax then Fl.ninf else Fl.pinf) else x) Fl.isNan
    (fun x : Fl => x) (costs.map Fl.ofVal)
  rw [List.map_id'] at h
  rw [h, List.map_map, List.map_map]
  apply List.map_congr_left
  intro v _
  cases v <;> cases isMax <;> rfl

/-- **one pixel**: numpy's `argmin` / `argmax` of the substituted row is the model's winner index -/
theorem arg_substituted (isMax : Bool) (costs : List Val) :
    (if isMax then argmaxFl ((costs.map substMax).map emb) else argminFl ((costs.map substMin).map emb))
      = winnerIdx isMax costs := by
  cases isMax
  · simp only [Bool.false_eq_true, if_false, argminFl, firstNan_emb, winnerIdx]
    exact argFirst_map Ext.lt Fl.lt emb lt_emb _
  · simp only [if_true, argmaxFl, firstNan_emb, winnerIdx]
    exact argFirst_map gtExt (fun a b => Fl.lt b a) emb (fun a b => lt_emb b a) _

theorem all3_isNan (costs : List Val) : (((costs.map Fl.ofVal).map Fl.isNan).all id) = allNan costs := by
  unfold allNan
  rw [List.map_map, List.all_map]
  congr 1
  funext v
  cases v <;> rfl

/-- restoring NaN where it was gives the row back — for any row -/
theorem restored_row (v : Fl) (row : List Fl) :
    List.zipWith (fun b x => if b then Fl.nan else x) (row.map Fl.isNan)
        (List.zipWith (fun b x => if b then v else x) (row.map Fl.isNan) row) = row := by
  have h1 : List.zipWith (fun b x => if b then v else x) (row.map Fl.isNan) row
      = row.map (fun x => if x.isNan then v else x) := by
    have := zipWith_maps (fun b x => if b then v else x) Fl.isNan (fun x : Fl => x) row
    simpa using this
  rw [h1, zipWith_maps]
  conv => rhs; rw [← List.map_id row]
  apply List.map_congr_left
  intro x _
  cases x <;> rfl

theorem blocked_num (p : Blocks.Plan) (f : Nat → Nat → Rat) :
    Blocks.blocked p (fun r c => Val.num (f r c)) (fun _ _ => Val.num 0)
      = fun r c => Val.num (Blocks.blocked p f (fun _ _ => 0) r c) := by
  rw [Blocks.blocked_eq_direct, Blocks.blocked_eq_direct]
  funext r c
  simp only [Blocks.direct]
  split <;> rfl

/-! ### the split functions -/

theorem argSplit_generated (isMax : Bool) (s : Blocks.Split) (x : Input) (hm : x.isMax = isMax) (cv : Nat)
    (c : Store (List Fl)) (m0 : Store Val)
    (hc : c.arr cv = fun r c' => ((x.cv r c').map (if isMax then substMax else substMin)).map emb) :
    (m0.alloc (fun _ _ => Val.num 0)).1.set m0.next
        (Blocks.blocked (s.plan x.rows x.cols [x.rows, x.cols, x.disps.length]) (argKernel isMax x.disps (c.arr cv))
          (fun _ _ => Val.num 0))
      = (m0.alloc (fun _ _ => Val.num 0)).1.set m0.next (fun r c' => Val.num (argSplit s x r c')) := by
  congr 1
  rw [hc]
  have : argKernel isMax x.disps (fun r c' => ((x.cv r c').map (if isMax then substMax else substMin)).map emb)
      = fun r c' => Val.num (dispAt x.disps (winnerIdx x.isMax (x.cv r c'))) := by
    funext r c'
    have h := arg_substituted isMax (x.cv r c')
    unfold argKernel
    rw [hm]
    cases isMax <;> simp_all
  rw [this, blocked_num]
  rfl

theorem argminSplit_eq (ny nx nd : Nat) (disps : List Rat) (cv : Nat) (c : Store (List Fl)) (m0 : Store Val) :
    Generated.KernelsWta.argminSplit ny nx nd disps cv c m0 =
      ((m0.alloc (fun _ _ => Val.num 0)).1.set m0.next
        (Blocks.blocked (Generated.Blocks.wtaArgmin.plan ny nx [ny, nx, nd]) (argKernel false disps (c.arr cv))
          (fun _ _ => Val.num 0)), m0.next) := by
  unfold Generated.KernelsWta.argminSplit
  simp [Store.alloc]

theorem argmaxSplit_eq (ny nx nd : Nat) (disps : List Rat) (cv : Nat) (c : Store (List Fl)) (m0 : Store Val) :
    Generated.KernelsWta.argmaxSplit ny nx nd disps cv c m0 =
      ((m0.alloc (fun _ _ => Val.num 0)).1.set m0.next
        (Blocks.blocked (Generated.Blocks.wtaArgmax.plan ny nx [ny, nx, nd]) (argKernel true disps (c.arr cv))
          (fun _ _ => Val.num 0)), m0.next) := by
  unfold Generated.KernelsWta.argmaxSplit
  simp [Store.alloc]

/-- the tail of `to_disp` on the map store: fresh map, invalid pixels overwritten, then deep-copied into
    `cv["disp_indices"]` -/
theorem map_tail (m0 : Store Val) (z f : Nat → Nat → Val) (mk : Mask) (v : Val) :
    (((((m0.alloc z).1.set m0.next f).maskFill m0.next mk v).copy m0.next).1.arr m0.next
        = fun r c => if mk r c then v else f r c)
    ∧ ∀ k, k < m0.next →
        ((((m0.alloc z).1.set m0.next f).maskFill m0.next mk v).copy m0.next).1.arr k = m0.arr k := by
  constructor
  · simp [Store.copy, Store.alloc, Store.maskFill, Store.set]
  · intro k hk
    have hk1 : k ≠ m0.next := by omega
    have hk2 : k ≠ m0.next + 1 := by omega
    simp [Store.copy, Store.alloc, Store.maskFill, Store.set, hk1, hk2]

/-! ### `to_disp` -/

/-- **`to_disp` regenerated = model.** -/
theorem toDisp_generated (x : Input) (cv : Nat) (c0 : Store (List Fl)) (m0 : Store Val)
    (hcv : c0.arr cv = fun r c => (x.cv r c).map Fl.ofVal) :
    (Generated.KernelsWta.toDisp x.isMax x.rows x.cols x.disps.length x.disps x.invalid cv c0 m0).2.2 = m0.next
    ∧ (Generated.KernelsWta.toDisp x.isMax x.rows x.cols x.disps.length x.disps x.invalid cv c0 m0).2.1.arr m0.next
        = Wta.toDisp (if x.isMax then Generated.Blocks.wtaArgmax else Generated.Blocks.wtaArgmin) x
    ∧ (∀ k, k < m0.next →
        (Generated.KernelsWta.toDisp x.isMax x.rows x.cols x.disps.length x.disps x.invalid cv c0 m0).2.1.arr k
          = m0.arr k) := by
  have hsub : ∀ isMax : Bool, (c0.maskFill3 cv (mask3Of Fl.isNan (c0.arr cv)) (if isMax then Fl.ninf else Fl.pinf)).arr cv
      = fun r c' => ((x.cv r c').map (if isMax then substMax else substMin)).map emb := by
    intro isMax
    simp only [Store.maskFill3, set_arr_self, mask3Of, hcv]
    funext r c'
    exact substituted_row isMax (x.cv r c')
  have hall : all3 (mask3Of Fl.isNan (c0.arr cv)) = fun r c => allNan (x.cv r c) := by
    funext r c
    simp only [all3, mask3Of, hcv]
    exact all3_isNan _
  unfold Generated.KernelsWta.toDisp
  cases hm : x.isMax
  · have h := argSplit_generated false Generated.Blocks.wtaArgmin x hm cv _ m0 (hsub false)
    simp only [Bool.false_eq_true, if_false] at h
    simp only [Bool.false_eq_true, if_false, argminSplit_eq, h, hall]
    obtain ⟨h1, h2⟩ := map_tail m0 (fun _ _ => Val.num 0)
      (fun r c' => Val.num (argSplit Generated.Blocks.wtaArgmin x r c')) (fun r c => allNan (x.cv r c)) x.invalid
    exact ⟨trivial, by rw [h1]; rfl, h2⟩
  · have h := argSplit_generated true Generated.Blocks.wtaArgmax x hm cv _ m0 (hsub true)
    simp only [if_true] at h
    simp only [if_true, argmaxSplit_eq, h, hall]
    obtain ⟨h1, h2⟩ := map_tail m0 (fun _ _ => Val.num 0)
      (fun r c' => Val.num (argSplit Generated.Blocks.wtaArgmax x r c')) (fun r c => allNan (x.cv r c)) x.invalid
    exact ⟨trivial, by rw [h1]; rfl, h2⟩

/-- **`cv_unchanged` for the regenerated `to_disp`**: the cost volume is handed back with the content it had —
    whatever that content (NaN, ±inf), both measure types — and no other 3-D array is written. -/
theorem toDisp_generated_cv (isMax : Bool) (ny nx nd : Nat) (disps : List Rat) (invalid : Val) (cv : Nat)
    (c0 : Store (List Fl)) (m0 : Store Val) :
    (Generated.KernelsWta.toDisp isMax ny nx nd disps invalid cv c0 m0).1.arr = c0.arr := by
  unfold Generated.KernelsWta.toDisp
  funext k
  by_cases hk : k = cv
  · subst hk
    cases isMax <;>
    · simp only [Bool.false_eq_true, if_false, if_true, Store.maskFill3, set_arr_self, mask3Of]
      funext r c
      exact restored_row _ _
  · cases isMax <;> simp [Store.maskFill3, set_arr_ne _ hk]

/-- **C03 for the regenerated `to_disp`**: every pixel of the map it returns satisfies the per-pixel specification. -/
theorem toDisp_generated_spec (x : Input) (cv : Nat) (c0 : Store (List Fl)) (m0 : Store Val)
    (hcv : c0.arr cv = fun r c => (x.cv r c).map Fl.ofVal) (lo hi : Nat → Nat → Rat)
    (hwf : ∀ r c, r < x.rows → c < x.cols → wfPixel x.disps (lo r c) (hi r c) (x.cv r c) = true)
    (r c : Nat) (hr : r < x.rows) (hc : c < x.cols) :
    specPixel x.isMax x.disps (lo r c) (hi r c) (x.cv r c) x.invalid
      ((Generated.KernelsWta.toDisp x.isMax x.rows x.cols x.disps.length x.disps x.invalid cv c0 m0).2.1.arr m0.next r c)
      = true := by
  rw [(toDisp_generated x cv c0 m0 hcv).2.1]
  exact C03.source_blocks_spec x lo hi hwf r c hr hc

/-! ### the returned dataset: carried fields as arrays of their own stores -/

/-- the cost volume and the map of `toDispDataset` are those of `toDisp` (the same statements) -/
theorem toDispDataset_core (isMax hasConf : Bool) (ny nx nd : Nat) (disps : List Rat) (invalid : Val)
    (cv conf mask : Nat) (c0 : Store (List Fl)) (m0 : Store Val) (b0 : Store (List Val)) (f0 : Store Nat) :
    (Generated.KernelsWta.toDispDataset isMax hasConf ny nx nd disps invalid cv conf mask c0 m0 b0 f0).cvs
        = (Generated.KernelsWta.toDisp isMax ny nx nd disps invalid cv c0 m0).1
    ∧ (Generated.KernelsWta.toDispDataset isMax hasConf ny nx nd disps invalid cv conf mask c0 m0 b0 f0).maps
        = (Generated.KernelsWta.toDisp isMax ny nx nd disps invalid cv c0 m0).2.1
    ∧ (Generated.KernelsWta.toDispDataset isMax hasConf ny nx nd disps invalid cv conf mask c0 m0 b0 f0).disparity_map
        = (Generated.KernelsWta.toDisp isMax ny nx nd disps invalid cv c0 m0).2.2 :=
  ⟨rfl, rfl, rfl⟩

/-- **Frame of `to_disp`** (`cv_unchanged`, `bands_carried`, `flags_carried`): after the call every cost volume holds
    what it held; the confidence bands are handed over as the SAME array and no band array is written; the flags of the
    result are a FRESH array holding the cost volume's flags, and no flag array that existed is written. -/
theorem toDispDataset_frame (isMax hasConf : Bool) (ny nx nd : Nat) (disps : List Rat) (invalid : Val)
    (cv conf mask : Nat) (c0 : Store (List Fl)) (m0 : Store Val) (b0 : Store (List Val)) (f0 : Store Nat) :
    (Generated.KernelsWta.toDispDataset isMax hasConf ny nx nd disps invalid cv conf mask c0 m0 b0 f0).cvs.arr = c0.arr
    ∧ (Generated.KernelsWta.toDispDataset isMax hasConf ny nx nd disps invalid cv conf mask c0 m0 b0 f0).bands = b0
    ∧ (Generated.KernelsWta.toDispDataset isMax hasConf ny nx nd disps invalid cv conf mask c0 m0 b0 f0).confidence_measure
        = (if hasConf then some conf else none)
    ∧ (Generated.KernelsWta.toDispDataset isMax hasConf ny nx nd disps invalid cv conf mask c0 m0 b0 f0).validity_mask
        = f0.next
    ∧ (Generated.KernelsWta.toDispDataset isMax hasConf ny nx nd disps invalid cv conf mask c0 m0 b0 f0).flags.arr f0.next
        = f0.arr mask
    ∧ ∀ k, k ≠ f0.next →
        (Generated.KernelsWta.toDispDataset isMax hasConf ny nx nd disps invalid cv conf mask c0 m0 b0 f0).flags.arr k
          = f0.arr k := by
  refine ⟨?_, rfl, rfl, rfl, ?_, ?_⟩
  · rw [(toDispDataset_core isMax hasConf ny nx nd disps invalid cv conf mask c0 m0 b0 f0).1]
    exact toDisp_generated_cv isMax ny nx nd disps invalid cv c0 m0
  · unfold Generated.KernelsWta.toDispDataset
    simp
  · intro k hk
    unfold Generated.KernelsWta.toDispDataset
    simp [hk]

/-- **No write through the result reaches the cost-volume dataset.**  Whatever is later stored into the returned
    validity mask (the validation and filter steps write flags there), the cost volume's flags keep their content;
    whatever is later stored into the returned disparity map, `cv["disp_indices"]` keeps the map it saved. -/
theorem toDispDataset_private (isMax hasConf : Bool) (ny nx nd : Nat) (disps : List Rat) (invalid : Val)
    (cv conf mask : Nat) (c0 : Store (List Fl)) (m0 : Store Val) (b0 : Store (List Val)) (f0 : Store Nat)
    (hmask : mask < f0.next) (g : Arr Nat) (gm : Arr Val) :
    ((Generated.KernelsWta.toDispDataset isMax hasConf ny nx nd disps invalid cv conf mask c0 m0 b0 f0).flags.set
        (Generated.KernelsWta.toDispDataset isMax hasConf ny nx nd disps invalid cv conf mask c0 m0 b0 f0).validity_mask g).arr mask
      = f0.arr mask
    ∧ ((Generated.KernelsWta.toDispDataset isMax hasConf ny nx nd disps invalid cv conf mask c0 m0 b0 f0).maps.set
        (Generated.KernelsWta.toDispDataset isMax hasConf ny nx nd disps invalid cv conf mask c0 m0 b0 f0).disparity_map gm).arr
          (Generated.KernelsWta.toDispDataset isMax hasConf ny nx nd disps invalid cv conf mask c0 m0 b0 f0).disp_indices
      = (Generated.KernelsWta.toDispDataset isMax hasConf ny nx nd disps invalid cv conf mask c0 m0 b0 f0).maps.arr
          (Generated.KernelsWta.toDispDataset isMax hasConf ny nx nd disps invalid cv conf mask c0 m0 b0 f0).disp_indices := by
  obtain ⟨_, _, _, hv, _, hold⟩ := toDispDataset_frame isMax hasConf ny nx nd disps invalid cv conf mask c0 m0 b0 f0
  constructor
  · rw [hv, set_arr_ne _ (by omega : mask ≠ f0.next), hold mask (by omega)]
  · apply set_arr_ne
    unfold Generated.KernelsWta.toDispDataset
    cases isMax <;>
      simp [argminSplit_eq, argmaxSplit_eq, Store.copy, Store.alloc, Store.maskFill, Store.set]

/-- how the fields the model does not hold are handed to the result, as read in the source on this run: the validity
    mask is a DEEP copy (later steps write flags into the disparity dataset's mask; the cost volume's must not follow),
    the confidence bands are the cost volume's own -/
theorem carried_fields :
    Generated.KernelsWta.carried.lookup "validity_mask" = some "deepcopy"
    ∧ Generated.KernelsWta.carried.lookup "confidence_measure" = some "alias" := by decide

end Pandora.C03Kernels
