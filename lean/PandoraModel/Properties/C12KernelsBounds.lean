/-
  C12 — `IntervalBounds.compute_interval_bounds` REGENERATED from the Python source
  (`Generated/KernelsConf.lean: computeIntervalBoundsPx`, written by translator/gen_kernels_conf.py) is equal, for every
  cost curve, every disparity list, threshold, type factor and pair of global extremes with `max_cost ≠ min_cost`, and
  for EVERY `np.argsort` that returns a permutation of the indices, to the hand model `Confidence.pixelBounds`.

  `np.argsort` is uninterpreted in the generated definition (a function parameter): numba's argsort is not stable and
  the place of NaNs / ties is unspecified.  The theorems only assume `IsArgsort sort` (the result is a permutation of
  `0 … n-1`): the kernel uses the sorted indices only through `nanmin/nanmax(argsorted_poss[mask])`, i.e. as a set.
-/
import PandoraModel.Properties.C12Kernels
import PandoraModel.Lemmas.C12Bounds
import Mathlib.Tactic.Linarith
import Mathlib.Tactic.Ring

set_option linter.unusedSimpArgs false
set_option linter.unusedVariables false

namespace Pandora.C12Kernels
open Pandora Pandora.Confidence Pandora.PyLoops Pandora.PyVec Pandora.C12
open Pandora.Generated.KernelsConf

/-! ## The hypothesis on `np.argsort` -/

/-- all that is assumed of `np.argsort`: it returns a permutation of the indices `0 … len(v)-1` -/
def IsArgsort (sort : List Fl → List Int) : Prop := ∀ v, List.Perm (sort v) (PyVec.arange (PyVec.len v))

/-- the identity "sort" of the generated `example`s -/
theorem isArgsort_id : IsArgsort (fun v => PyVec.arange (PyVec.len v)) := fun _ => List.Perm.refl _

/-- numpy's order on the reversed list is another instance: the hypothesis does not fix an order -/
theorem isArgsort_reverse : IsArgsort (fun v => (PyVec.arange (PyVec.len v)).reverse) :=
  fun _ => List.reverse_perm _

/-! ## Scalars and element-wise operations on embedded vectors -/

@[simp] theorem mul_fin (a b : ℚ) : Fl.mul (.fin a) (.fin b) = .fin (a * b) := rfl

theorem mul_comm_fl (a b : Fl) : Fl.mul a b = Fl.mul b a := by
  cases a <;> cases b <;> simp [Fl.mul, mul_comm]

theorem add_comm_fl (a b : Fl) : Fl.add a b = Fl.add b a := by
  cases a <;> cases b <;> simp [Fl.add, add_comm]

/-- `v * s` is `s * v` (commuted operands in the source do not change the reading) -/
theorem mapR_mul_comm (v : List Fl) (s : Fl) : mapR Fl.mul v s = mapL Fl.mul s v := by
  simp [mapR, mapL, mul_comm_fl]

/-- `s + v` is `v + s` -/
theorem mapL_add_comm (v : List Fl) (s : Fl) : mapL Fl.add s v = mapR Fl.add v s := by
  simp [mapR, mapL, add_comm_fl]

theorem eq_ofVal_one (v : Val) : Fl.eq (Fl.ofVal v) (Fl.fin 1) = isOne v := by
  cases v <;> simp [Fl.ofVal, Fl.eq, isOne]

/-- `1 == x` is `x == 1` -/
theorem one_eq_ofVal (v : Val) : Fl.eq (Fl.fin 1) (Fl.ofVal v) = isOne v := by
  cases v <;> simp [Fl.ofVal, Fl.eq, isOne, eq_comm]

theorem le_fin_ofVal (thr : ℚ) (v : Val) : Fl.le (Fl.fin thr) (Fl.ofVal v) = geThr thr v := by
  cases v with
  | nan => rfl
  | num p => simp [Fl.ofVal, geThr, le_fin]

/-- `type_factor * ((cv - min_cost) / (max_cost - min_cost))` -/
theorem tfNorm_embed (mn mx tf : ℚ) (c : Curve) (hr : mx ≠ mn) :
    mapL Fl.mul (Fl.fin tf) (mapR fdiv (mapR Fl.sub (embedCurve c) (Fl.fin mn)) (Fl.fin (mx - mn)))
      = (tfNorm mn mx tf c).map Fl.ofVal := by
  have h0 : mx - mn ≠ 0 := sub_ne_zero.mpr hr
  simp only [mapL, mapR, embedCurve, tfNorm, List.map_map]
  apply List.map_congr_left
  intro v _
  cases v with
  | nan => simp [Fl.ofVal, hr, Fl.mul, Val.map]
  | num q => simp [Fl.ofVal, hr, Val.map, fdiv_fin _ _ h0]

theorem nanmaxAux_ofVal (l : List Val) : nanmaxAux (l.map Fl.ofVal) = (lmax (numsOf l)).map Fl.fin := by
  induction l with
  | nil => rfl
  | cons v l ih =>
    cases v with
    | nan =>
      have : numsOf (Val.nan :: l) = numsOf l := rfl
      rw [this, ← ih]
      simp only [List.map_cons, Fl.ofVal, nanmaxAux, Fl.isNan]
      cases nanmaxAux (List.map Fl.ofVal l) <;> rfl
    | num q =>
      have : numsOf (Val.num q :: l) = q :: numsOf l := rfl
      rw [this]
      simp only [List.map_cons, Fl.ofVal, nanmaxAux, lmax, Fl.isNan] at ih ⊢
      rw [ih]
      cases lmax (numsOf l) with
      | none => rfl
      | some m =>
        simp only [Option.map_some, le_fin, Bool.false_eq_true, if_false]
        by_cases h : m ≤ q <;> simp [h]

/-- `np.nanmax` of a vector of finite numbers and NaNs -/
theorem nanmax_ofVal (l : List Val) : nanmax (l.map Fl.ofVal) = optNan (lmax (numsOf l)) := by
  unfold nanmax
  rw [nanmaxAux_ofVal]
  cases lmax (numsOf l) <;> rfl

/-- `t + 1 - np.nanmax(t)` is the hand model's possibility vector -/
theorem possibility_embed (mn mx tf : ℚ) (c : Curve) :
    mapR Fl.sub (mapR Fl.add ((tfNorm mn mx tf c).map Fl.ofVal) (Fl.fin 1)) (optNan (lmax (numsOf (tfNorm mn mx tf c))))
      = (possibility mn mx tf c).map Fl.ofVal := by
  unfold possibility
  simp only [mapR, List.map_map]
  cases lmax (numsOf (tfNorm mn mx tf c)) with
  | none =>
    simp only [List.map_map]
    apply List.map_congr_left
    intro v _
    cases v <;> simp [Fl.ofVal, optNan, Fl.sub, Fl.neg, Fl.add]
  | some M =>
    simp only [List.map_map]
    apply List.map_congr_left
    intro v _
    cases v <;> simp [Fl.ofVal, optNan, Val.map, Fl.sub, Fl.neg, Fl.add, sub_eq_add_neg]

theorem length_possibility (mn mx tf : ℚ) (c : Curve) : (possibility mn mx tf c).length = c.length := by
  have ht : (tfNorm mn mx tf c).length = c.length := by simp [tfNorm]
  simp only [possibility]
  split <;> simp [ht]

/-! ## Indices: gather, mask, select -/

theorem getAt_ofVal (P : List Val) (i : Nat) : getAt Fl.nan (P.map Fl.ofVal) (i : Int) = Fl.ofVal (P.getD i .nan) := by
  simp only [getAt, Int.toNat_natCast, List.getD_eq_getElem?_getD, List.getElem?_map]
  cases P[i]? <;> rfl

theorem getAt_embedQ (d : List ℚ) (i : Nat) (h : i < d.length) :
    getAt Fl.nan (embedQ d) (i : Int) = Fl.fin (d.getD i 0) := by
  simp [getAt, embedQ, List.getD_eq_getElem?_getD, List.getElem?_map, List.getElem?_eq_getElem h]

theorem inRange_cast (n i : Nat) : inRange (n : Int) (i : Int) = decide (i < n) := by
  simp [inRange]

/-- `x[mask]` when the mask is computed from `x` itself -/
theorem select_self {α : Type} (v : List α) (p : α → Bool) : select v (v.map p) = v.filter p := by
  induction v with
  | nil => rfl
  | cons a v ih =>
    simp only [select, List.map_cons, List.zipWith_cons_cons, List.filterMap_cons, List.filter_cons] at ih ⊢
    cases p a <;> simp [ih]

theorem countTrue_map {α : Type} (v : List α) (p : α → Bool) : countTrue (v.map p) = ((v.filter p).length : Int) := by
  induction v with
  | nil => rfl
  | cons a v ih =>
    simp only [countTrue, List.map_cons, List.filter_cons, List.count_cons] at ih ⊢
    cases p a <;> simp [ih]

/-- the selection predicate on an index of the sorted vector -/
def keepIdx (thr : ℚ) (P : List Val) (i : Int) : Bool := geThr thr (P.getD i.toNat .nan)

/-- `possibility_threshold <= possibility[argsorted_poss]` as a mask over the sorted indices -/
theorem mask_embed (thr : ℚ) (P : List Val) (s : List Int) :
    mapL Fl.le (Fl.fin thr) (gather Fl.nan (P.map Fl.ofVal) s) = s.map (keepIdx thr P) := by
  simp only [mapL, gather, List.map_map]
  apply List.map_congr_left
  intro i _
  simp only [Function.comp, keepIdx, getAt, List.getD_eq_getElem?_getD, List.getElem?_map]
  cases P[i.toNat]? with
  | none => rfl
  | some v => exact le_fin_ofVal thr v

theorem arange_cast (n : Nat) : PyVec.arange (n : Int) = (List.range n).map (fun (i : Nat) => (i : Int)) := by
  simp [PyVec.arange]

/-- whatever the order of the sorted indices, the selected ones are the hand model's `selIdx`, as a multiset -/
theorem filter_perm_selIdx (thr : ℚ) (P : List Val) (s : List Int)
    (hs : s.Perm (PyVec.arange (P.length : Int))) :
    (s.filter (keepIdx thr P)).Perm ((selIdx thr P).map (fun (i : Nat) => (i : Int))) := by
  refine (hs.filter _).trans ?_
  rw [arange_cast, selIdx, List.filter_map]
  apply List.Perm.of_eq
  congr 1

theorem gatherOk_perm {α : Type} (v : List α) (s : List Int) (hs : s.Perm (PyVec.arange (PyVec.len v))) :
    gatherOk v s = true := by
  unfold gatherOk
  rw [List.all_eq_true]
  intro i hi
  have := hs.mem_iff.1 hi
  simp only [PyVec.arange, PyVec.len, Int.toNat_natCast, List.mem_map, List.mem_range] at this
  obtain ⟨k, hk, rfl⟩ := this
  simp [inRange, PyVec.len, hk]

/-! ## `np.nanmin` / `np.nanmax` of an integer vector only depend on its elements -/

theorem iminL_spec (l : List Int) (h : l ≠ []) : iminL l ∈ l ∧ ∀ x ∈ l, iminL l ≤ x := by
  induction l with
  | nil => exact absurd rfl h
  | cons a l ih =>
    cases l with
    | nil => simp [iminL]
    | cons b l =>
      obtain ⟨h1, h2⟩ := ih (by simp)
      have e : iminL (a :: b :: l) = if a ≤ iminL (b :: l) then a else iminL (b :: l) := rfl
      rw [e]
      by_cases hle : a ≤ iminL (b :: l)
      · simp only [hle, if_true]
        refine ⟨by simp, ?_⟩
        intro x hx
        rcases List.mem_cons.1 hx with rfl | hx
        · exact le_refl _
        · exact le_trans hle (h2 x hx)
      · simp only [hle, if_false]
        refine ⟨List.mem_cons_of_mem _ h1, ?_⟩
        intro x hx
        rcases List.mem_cons.1 hx with rfl | hx
        · exact le_of_lt (not_le.1 hle)
        · exact h2 x hx

theorem imaxL_spec (l : List Int) (h : l ≠ []) : imaxL l ∈ l ∧ ∀ x ∈ l, x ≤ imaxL l := by
  induction l with
  | nil => exact absurd rfl h
  | cons a l ih =>
    cases l with
    | nil => simp [imaxL]
    | cons b l =>
      obtain ⟨h1, h2⟩ := ih (by simp)
      have e : imaxL (a :: b :: l) = if imaxL (b :: l) ≤ a then a else imaxL (b :: l) := rfl
      rw [e]
      by_cases hle : imaxL (b :: l) ≤ a
      · simp only [hle, if_true]
        refine ⟨by simp, ?_⟩
        intro x hx
        rcases List.mem_cons.1 hx with rfl | hx
        · exact le_refl _
        · exact le_trans (h2 x hx) hle
      · simp only [hle, if_false]
        refine ⟨List.mem_cons_of_mem _ h1, ?_⟩
        intro x hx
        rcases List.mem_cons.1 hx with rfl | hx
        · exact le_of_lt (not_le.1 hle)
        · exact h2 x hx

/-- characterised by membership and being a lower bound: invariant under permutation -/
theorem iminL_eq_of (l : List Int) (m : Int) (hmem : m ∈ l) (hlb : ∀ x ∈ l, m ≤ x) : iminL l = m := by
  have hne : l ≠ [] := by intro h; rw [h] at hmem; simp at hmem
  obtain ⟨h1, h2⟩ := iminL_spec l hne
  exact le_antisymm (h2 m hmem) (hlb _ h1)

theorem imaxL_eq_of (l : List Int) (m : Int) (hmem : m ∈ l) (hub : ∀ x ∈ l, x ≤ m) : imaxL l = m := by
  have hne : l ≠ [] := by intro h; rw [h] at hmem; simp at hmem
  obtain ⟨h1, h2⟩ := imaxL_spec l hne
  exact le_antisymm (hub _ h1) (h2 m hmem)

theorem imax_pred (lo : Nat) : PyExpr.imax 0 ((lo : Int) - 1) = ((lo - 1 : Nat) : Int) := by
  unfold PyExpr.imax
  split <;> omega

theorem imin_succ (n hi : Nat) (hn : 0 < n) :
    PyExpr.imin ((n : Int) - 1) ((hi : Int) + 1) = ((min (n - 1) (hi + 1) : Nat) : Int) := by
  unfold PyExpr.imin
  split <;> omega

/-- `max(min_idx - 1, 0)` is `max(0, min_idx - 1)` -/
theorem imax_pred' (lo : Nat) : PyExpr.imax ((lo : Int) - 1) 0 = ((lo - 1 : Nat) : Int) := by
  unfold PyExpr.imax
  split <;> omega

theorem imin_succ' (n hi : Nat) (hn : 0 < n) :
    PyExpr.imin ((hi : Int) + 1) ((n : Int) - 1) = ((min (n - 1) (hi + 1) : Nat) : Int) := by
  unfold PyExpr.imin
  split <;> omega

/-! ## `compute_interval_bounds` -/

/-- what the two final subscripts `disp_interval[min_idx]`, `disp_interval[max_idx]` give: the two disparities, or a
    shape error when `disp_interval` is too short for one of the indices -/
def boundsRes (disp : List ℚ) : Option (Nat × Nat) → PyVec.Res (Fl × Fl)
  | none => .ok (.nan, .nan)
  | some (lo, hi) =>
    if lo < disp.length ∧ hi < disp.length then .ok (.fin (disp.getD lo 0), .fin (disp.getD hi 0)) else .shapeError

/-- **`compute_interval_bounds`, every input length.**  For every argsort that returns a permutation, every non-empty
    cost curve, every `disp_interval` (of ANY length), threshold, type factor and extremes with `max_cost ≠ min_cost`:
    the function the source defines today selects the hand model's two indices `boundIdx` and returns the two
    disparities — or `shapeError` exactly when `disp_interval` is too short for one of the two indices. -/
theorem computeIntervalBounds_generated_run (sort : List Fl → List Int) (hsort : IsArgsort sort)
    (mn mx tf thr : ℚ) (disp : List ℚ) (c : Curve) (hr : mx ≠ mn) (hc : c ≠ []) :
    computeIntervalBoundsPx sort (embedCurve c) (embedQ disp) (Fl.fin thr) (Fl.fin tf) (Fl.fin mn) (Fl.fin mx)
      = boundsRes disp (boundIdx thr (possibility mn mx tf c)) := by
  have hlen : 0 < c.length := List.length_pos_iff.mpr hc
  have hnd : PyVec.len (embedCurve c) = (c.length : Int) := by simp [PyVec.len, embedCurve]
  have hPlen : (possibility mn mx tf c).length = c.length := length_possibility mn mx tf c
  simp only [computeIntervalBoundsPx, hnd, sub_fin, mapR_mul_comm, mapL_add_comm, tfNorm_embed mn mx tf c hr,
    nanmax_ofVal, possibility_embed]
  generalize hP : possibility mn mx tf c = P at hPlen ⊢
  generalize hs : sort (P.map Fl.ofVal) = s
  have hperm : s.Perm (PyVec.arange (P.length : Int)) := by
    rw [← hs]; simpa [PyVec.len] using hsort (P.map Fl.ofVal)
  have hgo : gatherOk (P.map Fl.ofVal) s = true := gatherOk_perm _ _ (by simpa [PyVec.len] using hperm)
  simp only [mask_embed, select_self, countTrue_map, hgo]
  have hLperm := filter_perm_selIdx thr P s hperm
  have hne1 : nonEmpty (List.map Fl.ofVal (tfNorm mn mx tf c)) = true := by
    cases c with
    | nil => exact absurd rfl hc
    | cons a l => rfl
  have hsame : sameLen s (List.map (keepIdx thr P) s) = true := by simp [sameLen]
  have hmem : ∀ j, j ∈ selIdx thr P ↔ j < P.length ∧ geThr thr (P.getD j .nan) = true := by
    intro j; unfold selIdx; rw [List.mem_filter]; simp
  generalize hL : List.filter (keepIdx thr P) s = L at hLperm ⊢
  cases hsel : selIdx thr P with
  | nil =>
    rw [hsel] at hLperm
    have : L = [] := by simp at hLperm; exact hLperm
    have hb : boundIdx thr P = none := by unfold boundIdx; simp [hsel, lminNat]
    subst this
    simp [hb, boundsRes, hne1]
  | cons w rest =>
    have hw : w ∈ selIdx thr P := by rw [hsel]; simp
    obtain ⟨hwlt, hwok⟩ := (hmem w).1 hw
    obtain ⟨lo, hi, hlo, hhi, hlow, hwhi, oklo, okhi, hbelow, habove, hbi⟩ := boundIdx_some thr P w hwlt hwok
    have hmemL : ∀ x, x ∈ L ↔ ∃ j : Nat, j ∈ selIdx thr P ∧ (j : Int) = x := by
      intro x; rw [hLperm.mem_iff, List.mem_map]
    have hmin : iminL L = (lo : Int) := by
      apply iminL_eq_of
      · exact (hmemL _).2 ⟨lo, (hmem lo).2 ⟨hlo, oklo⟩, rfl⟩
      · intro x hx
        obtain ⟨j, hj, rfl⟩ := (hmemL x).1 hx
        have := (hmem j).1 hj
        by_contra hcon
        have hjl : j < lo := by omega
        rw [hbelow j hjl] at this
        exact absurd this.2 (by simp)
    have hmax : imaxL L = (hi : Int) := by
      apply imaxL_eq_of
      · exact (hmemL _).2 ⟨hi, (hmem hi).2 ⟨hhi, okhi⟩, rfl⟩
      · intro x hx
        obtain ⟨j, hj, rfl⟩ := (hmemL x).1 hx
        have := (hmem j).1 hj
        exact_mod_cast habove j this.1 this.2
    have hLne : L ≠ [] := by
      intro h; rw [h, hsel] at hLperm; simp at hLperm
    have hLlen : ((L.length : Int) ≠ 0) := by
      cases L with
      | nil => exact absurd rfl hLne
      | cons a l => simp; omega
    have hLnonempty : nonEmpty L = true := by
      cases L with
      | nil => exact absurd rfl hLne
      | cons a l => rfl
    simp only [hmin, hmax, hLlen, hLnonempty, hsame, hne1, getAt_ofVal, eq_ofVal_one, one_eq_ofVal, imax_pred, imax_pred',
      imin_succ _ _ hlen, imin_succ' _ _ hlen,
      PyVec.len, List.length_map, inRange_cast, hlo, hhi, hbi, boundsRes]
    have hlook : ∀ a b : Nat,
        (if (inRange (((embedQ disp).length : Nat) : Int) (a : Int) && inRange (((embedQ disp).length : Nat) : Int) (b : Int)) = true
          then PyVec.Res.ok (getAt Fl.nan (embedQ disp) (a : Int), getAt Fl.nan (embedQ disp) (b : Int))
          else PyVec.Res.shapeError)
        = if a < disp.length ∧ b < disp.length then PyVec.Res.ok (Fl.fin (disp.getD a 0), Fl.fin (disp.getD b 0))
          else PyVec.Res.shapeError := by
      intro a b
      have e : (embedQ disp).length = disp.length := by simp [embedQ]
      rw [e, inRange_cast, inRange_cast]
      by_cases ha : a < disp.length <;> by_cases hb : b < disp.length <;>
        simp [ha, hb, getAt_embedQ]
    -- the two subscripts may be tested in either order
    have hlook' : ∀ a b : Nat,
        (if (inRange (((embedQ disp).length : Nat) : Int) (b : Int) && inRange (((embedQ disp).length : Nat) : Int) (a : Int)) = true
          then PyVec.Res.ok (getAt Fl.nan (embedQ disp) (a : Int), getAt Fl.nan (embedQ disp) (b : Int))
          else PyVec.Res.shapeError)
        = if a < disp.length ∧ b < disp.length then PyVec.Res.ok (Fl.fin (disp.getD a 0), Fl.fin (disp.getD b 0))
          else PyVec.Res.shapeError := by
      intro a b; rw [Bool.and_comm]; exact hlook a b
    have hd : decide ((L.length : Int) ≠ 0) = true := by simpa using hLlen
    cases h1 : isOne (P.getD lo Val.nan) <;> cases h2 : isOne (P.getD hi Val.nan) <;>
      simp only [hd, hPlen, Bool.false_eq_true, if_false, if_true, decide_true, Bool.and_true, Bool.true_and] <;>
      first | exact hlook _ _ | exact hlook' _ _

/-- the two indices of the hand model are inside the curve and ordered -/
theorem boundIdx_lt (thr : ℚ) (P : List Val) (lo hi : Nat) (h : boundIdx thr P = some (lo, hi)) :
    lo < P.length ∧ hi < P.length ∧ lo ≤ hi := by
  have hmem : ∀ j, j ∈ selIdx thr P ↔ j < P.length ∧ geThr thr (P.getD j .nan) = true := by
    intro j; unfold selIdx; rw [List.mem_filter]; simp
  cases hsel : selIdx thr P with
  | nil =>
    have : boundIdx thr P = none := by unfold boundIdx; simp [hsel, lminNat]
    rw [this] at h; exact absurd h (by simp)
  | cons w rest =>
    have hw : w ∈ selIdx thr P := by rw [hsel]; simp
    obtain ⟨hwlt, hwok⟩ := (hmem w).1 hw
    obtain ⟨l, u, hl, hu, hlw, hwu, _, _, _, _, hbi⟩ := boundIdx_some thr P w hwlt hwok
    rw [hbi] at h
    simp only [Option.some.injEq, Prod.mk.injEq] at h
    obtain ⟨rfl, rfl⟩ := h
    refine ⟨?_, ?_, ?_⟩
    · split <;> omega
    · split <;> omega
    · split <;> split <;> omega

/-- **`compute_interval_bounds`: the generated per-pixel function is the hand model.**  For every argsort returning a
    permutation of the indices, every cost curve (NaN holes included, at least one disparity), every disparity list at
    least as long as the curve (in particular: of the same length — `computeIntervalBounds_generated_eq`), every
    threshold, type factor and pair of global extremes with `max_cost ≠ min_cost`, the function the source defines today
    returns `(interval_inf, interval_sup) = pixelBounds` — and `Res.ok`. -/
theorem computeIntervalBounds_generated_eq_of_le (sort : List Fl → List Int) (hsort : IsArgsort sort)
    (mn mx tf thr : ℚ) (disp : List ℚ) (c : Curve) (hr : mx ≠ mn) (hc : c ≠ []) (hd : c.length ≤ disp.length) :
    computeIntervalBoundsPx sort (embedCurve c) (embedQ disp) (Fl.fin thr) (Fl.fin tf) (Fl.fin mn) (Fl.fin mx)
      = .ok (Fl.ofVal (pixelBounds mn mx tf thr disp c).1, Fl.ofVal (pixelBounds mn mx tf thr disp c).2) := by
  rw [computeIntervalBounds_generated_run sort hsort mn mx tf thr disp c hr hc]
  unfold pixelBounds
  cases hb : boundIdx thr (possibility mn mx tf c) with
  | none => rfl
  | some p =>
    obtain ⟨lo, hi⟩ := p
    obtain ⟨h1, h2, _⟩ := boundIdx_lt thr _ lo hi hb
    rw [length_possibility] at h1 h2
    have : lo < disp.length ∧ hi < disp.length := ⟨by omega, by omega⟩
    simp only [boundsRes, this, and_self, if_true, Fl.ofVal]

theorem computeIntervalBounds_generated_eq (sort : List Fl → List Int) (hsort : IsArgsort sort)
    (mn mx tf thr : ℚ) (disp : List ℚ) (c : Curve) (hr : mx ≠ mn) (hc : c ≠ []) (hd : disp.length = c.length) :
    computeIntervalBoundsPx sort (embedCurve c) (embedQ disp) (Fl.fin thr) (Fl.fin tf) (Fl.fin mn) (Fl.fin mx)
      = .ok (Fl.ofVal (pixelBounds mn mx tf thr disp c).1, Fl.ofVal (pixelBounds mn mx tf thr disp c).2) :=
  computeIntervalBounds_generated_eq_of_le sort hsort mn mx tf thr disp c hr hc (by omega)

/-- an empty curve is a shape error (`np.nanmax` of an empty slice raises) -/
theorem computeIntervalBounds_generated_empty (sort : List Fl → List Int) (hsort : IsArgsort sort)
    (mn mx tf thr : Fl) (disp : List Fl) :
    computeIntervalBoundsPx sort [] disp thr tf mn mx = .shapeError := by
  have hs : sort [] = [] := by
    have := hsort []
    simpa [PyVec.arange, PyVec.len] using this
  simp [computeIntervalBoundsPx, mapR, mapL, hs, gather, nonEmpty, countTrue]

/-- **shape error ⇔ a subscript of `disp_interval` is out of range.**  The source never compares the length of
    `disp_interval` with `n_disp`; what it does is subscript it with the two final indices.  So the generated function
    returns `shapeError` exactly when the curve is empty or `disp_interval` is too short for the larger of the two
    indices the hand model selects — a longer `disp_interval` is silently accepted, a shorter one too as long as the
    indices stay inside (see the `example`s below). -/
theorem computeIntervalBounds_generated_shapeError_iff (sort : List Fl → List Int) (hsort : IsArgsort sort)
    (mn mx tf thr : ℚ) (disp : List ℚ) (c : Curve) (hr : mx ≠ mn) :
    computeIntervalBoundsPx sort (embedCurve c) (embedQ disp) (Fl.fin thr) (Fl.fin tf) (Fl.fin mn) (Fl.fin mx)
        = .shapeError
      ↔ c = [] ∨ ∃ lo hi, boundIdx thr (possibility mn mx tf c) = some (lo, hi) ∧ disp.length ≤ hi := by
  by_cases hc : c = []
  · subst hc
    simp [embedCurve, computeIntervalBounds_generated_empty sort hsort]
  · rw [computeIntervalBounds_generated_run sort hsort mn mx tf thr disp c hr hc]
    cases hb : boundIdx thr (possibility mn mx tf c) with
    | none => simp [boundsRes, hc]
    | some p =>
      obtain ⟨lo, hi⟩ := p
      obtain ⟨_, _, hle⟩ := boundIdx_lt thr _ lo hi hb
      simp only [boundsRes, hc, false_or, Option.some.injEq, Prod.mk.injEq]
      constructor
      · intro h
        refine ⟨lo, hi, ⟨rfl, rfl⟩, ?_⟩
        by_contra hcon
        have : lo < disp.length ∧ hi < disp.length := ⟨by omega, by omega⟩
        simp [this] at h
      · rintro ⟨lo', hi', ⟨rfl, rfl⟩, h⟩
        have : ¬ (lo < disp.length ∧ hi < disp.length) := by omega
        simp [this]

/-- **shape mismatch**: a `disp_interval` shorter than the index of the upper bound is a shape error, a matching or
    longer one never is -/
theorem computeIntervalBounds_generated_no_shapeError (sort : List Fl → List Int) (hsort : IsArgsort sort)
    (mn mx tf thr : ℚ) (disp : List ℚ) (c : Curve) (hr : mx ≠ mn) (hc : c ≠ []) (hd : c.length ≤ disp.length) :
    computeIntervalBoundsPx sort (embedCurve c) (embedQ disp) (Fl.fin thr) (Fl.fin tf) (Fl.fin mn) (Fl.fin mx)
      ≠ .shapeError := by
  rw [computeIntervalBounds_generated_eq_of_le sort hsort mn mx tf thr disp c hr hc hd]
  simp

/-- **the all-NaN pixel**: `(NaN, NaN)`, whatever the disparity list (its length is not even looked at), threshold,
    type factor and argsort -/
theorem computeIntervalBounds_generated_all_nan (sort : List Fl → List Int) (hsort : IsArgsort sort)
    (mn mx tf thr : ℚ) (disp : List ℚ) (c : Curve) (hr : mx ≠ mn) (hc : c ≠ []) (hall : ∀ v ∈ c, v = Val.nan) :
    computeIntervalBoundsPx sort (embedCurve c) (embedQ disp) (Fl.fin thr) (Fl.fin tf) (Fl.fin mn) (Fl.fin mx)
      = .ok (Fl.nan, Fl.nan) := by
  rw [computeIntervalBounds_generated_run sort hsort mn mx tf thr disp c hr hc, possibility_all_nan _ _ _ _ hall,
    boundIdx_none]
  · rfl
  · intro i _
    simp only [List.getD_eq_getElem?_getD, List.getElem?_map]
    cases c[i]? <;> rfl

/-- conversely a pixel with a finite cost and a threshold `≤ 1` gets two finite bounds -/
theorem computeIntervalBounds_generated_finite (sort : List Fl → List Int) (hsort : IsArgsort sort) (isMax : Bool)
    (mn mx thr : ℚ) (disp : List ℚ) (c : Curve) (hlt : mn < mx) (hthr : thr ≤ 1) (hd : disp.length = c.length)
    (b : ℚ) (hb : Spec.best isMax c = some b) :
    ∃ lo hi : ℚ, computeIntervalBoundsPx sort (embedCurve c) (embedQ disp) (Fl.fin thr) (Fl.fin (typeFactor isMax))
      (Fl.fin mn) (Fl.fin mx) = .ok (Fl.fin lo, Fl.fin hi) := by
  have hc : c ≠ [] := by
    intro h; subst h; simp [Spec.best, numsOf, lmin, lmax] at hb
  rw [computeIntervalBounds_generated_eq sort hsort mn mx _ thr disp c (ne_of_gt hlt) hc hd]
  unfold pixelBounds
  rw [possibility_eq isMax mn mx c hlt b hb]
  obtain ⟨w, hw, hcw⟩ := best_index isMax c b hb
  have hokw : geThr thr ((c.map (Spec.poss isMax mn mx b)).getD w .nan) = true := by
    rw [getD_map_poss, hcw, poss_best]; simp [geThr, hthr]
  obtain ⟨lo, hi, _, _, _, _, _, _, _, _, hbi⟩ := boundIdx_some thr _ w (by simpa using hw) hokw
  rw [hbi]
  exact ⟨_, _, rfl⟩

/-! ## Transfer: C12's clauses `bounds_def`, `bounds_bracket_wta` stated about the GENERATED definition -/

/-- **bounds_def, on the regenerated source** (pixel level): what `compute_interval_bounds` as written today returns at a
    pixel satisfies the specification `Spec.boundsOk` — both measure types, `mn < mx`, threshold `≤ 1`, any argsort -/
theorem bounds_def_generated (sort : List Fl → List Int) (hsort : IsArgsort sort) (isMax : Bool)
    (mn mx thr : ℚ) (disp : List ℚ) (c : Curve) (hlt : mn < mx) (hthr : thr ≤ 1) (hc : c ≠ [])
    (hd : disp.length = c.length) :
    ∃ inf sup : Val,
      computeIntervalBoundsPx sort (embedCurve c) (embedQ disp) (Fl.fin thr) (Fl.fin (typeFactor isMax))
        (Fl.fin mn) (Fl.fin mx) = .ok (Fl.ofVal inf, Fl.ofVal sup) ∧
      Spec.boundsOk isMax mn mx thr disp c inf sup = true :=
  ⟨_, _, computeIntervalBounds_generated_eq sort hsort mn mx _ thr disp c (ne_of_gt hlt) hc hd,
    pixelBounds_def isMax mn mx thr disp c hlt hthr⟩

/-- **bounds_bracket_wta, on the regenerated source** (pixel level): the winner-takes-all disparity of the later
    disparity step lies between the `inf` and `sup` that `compute_interval_bounds` as written today returns -/
theorem bounds_bracket_wta_generated (sort : List Fl → List Int) (hsort : IsArgsort sort) (isMax : Bool)
    (mn mx thr : ℚ) (disp : List ℚ) (c : Curve) (hlt : mn < mx) (hthr : thr ≤ 1)
    (hdisp : disp.Pairwise (· ≤ ·)) (hd : disp.length = c.length) (w : Nat) (hw : wtaIdx isMax c = some w) :
    ∃ inf sup : Val,
      computeIntervalBoundsPx sort (embedCurve c) (embedQ disp) (Fl.fin thr) (Fl.fin (typeFactor isMax))
        (Fl.fin mn) (Fl.fin mx) = .ok (Fl.ofVal inf, Fl.ofVal sup) ∧
      Spec.bracket inf sup (disp.getD w 0) = true := by
  obtain ⟨hwlt, b, hb, hcw⟩ := wtaIdx_best isMax c w hw
  have hc : c ≠ [] := by intro h; subst h; simp at hwlt
  exact ⟨_, _, computeIntervalBounds_generated_eq sort hsort mn mx _ thr disp c (ne_of_gt hlt) hc hd,
    pixelBounds_bracket isMax mn mx thr disp c hlt hthr hdisp hd b hb w hwlt hcw⟩

/-! ## Non-vacuity -/

-- the hypotheses are satisfiable together, with an argsort that is not the identity, NaN holes, a tie at the best
example : IsArgsort (fun v => (PyVec.arange (PyVec.len v)).reverse) := isArgsort_reverse
example :
    computeIntervalBoundsPx (fun v => (PyVec.arange (PyVec.len v)).reverse)
      (embedCurve [.num 4, .num 2, .nan, .num 0, .num 0, .num 3]) (embedQ [-3, -2, -1, 0, 1, 2])
      (Fl.fin (3 / 4)) (Fl.fin (-1)) (Fl.fin 0) (Fl.fin 4) = .ok (Fl.fin (-1), Fl.fin 2) := by
  rw [computeIntervalBounds_generated_eq _ isArgsort_reverse 0 4 (-1) (3 / 4) _ _ (by decide) (by decide) (by decide)]
  decide +kernel
-- a `disp_interval` shorter than the curve: an error when the upper index needs the missing cell, silently accepted otherwise
example : computeIntervalBoundsPx (fun v => PyVec.arange (PyVec.len v)) (embedCurve [.num 1, .num 2]) (embedQ [0])
    (Fl.fin 0) (Fl.fin (-1)) (Fl.fin 1) (Fl.fin 2) = .shapeError := by decide +kernel
example : computeIntervalBoundsPx (fun v => PyVec.arange (PyVec.len v)) (embedCurve [.num 1, .num 2, .num 2, .num 2]) (embedQ [0, 1])
    (Fl.fin 1) (Fl.fin (-1)) (Fl.fin 1) (Fl.fin 2) = .ok (Fl.fin 0, Fl.fin 1) := by decide +kernel

end Pandora.C12Kernels
