/-
  C03 — Winner-takes-all picks each pixel's best cost inside its disparity interval.

  Theorems about the executable model `Model/Wta.lean` (+ `Model/Blocks.lean`), for cost volumes of any
  shape, any NaN pattern, ties, min- and max-type measures, any `invalid_disparity` (NaN included) and
  any split of the image into processing blocks; the block literals of the source are instantiated
  from `Generated/Blocks.lean` (regenerated from disparity.py on every run).
-/
import PandoraModel.Model.Wta
import PandoraModel.Lemmas.Blocks
import PandoraModel.Generated.Blocks
import Mathlib.Algebra.Order.Field.Rat
import Mathlib.Tactic.Linarith

namespace Pandora.C03
open Pandora Pandora.Wta

/-! ### 1. `np.argmin` / `np.argmax` as first occurrence of the extremum -/

/-- strict weak order (what `<` on floats without NaN is) -/
structure StrictWeak {α : Type} (lt : α → α → Bool) : Prop where
  irrefl : ∀ a, lt a a = false
  trans : ∀ a b c, lt a b = true → lt b c = true → lt a c = true
  negTrans : ∀ a b c, lt a b = false → lt b c = false → lt a c = false

theorem StrictWeak.asymm {α : Type} {lt : α → α → Bool} (h : StrictWeak lt) {a b : α}
    (hab : lt a b = true) : lt b a = false := by
  cases hba : lt b a with
  | false => rfl
  | true => have := h.trans a b a hab hba; rw [h.irrefl] at this; exact absurd this (by decide)

theorem extLt_strictWeak : StrictWeak Ext.lt where
  irrefl a := by cases a <;> simp [Ext.lt]
  trans a b c := by
    cases a <;> cases b <;> cases c <;> simp [Ext.lt]
    exact fun h1 h2 => lt_trans h1 h2
  negTrans a b c := by
    cases a <;> cases b <;> cases c <;> simp [Ext.lt]
    exact fun h1 h2 => le_trans h2 h1

theorem gtExt_strictWeak : StrictWeak gtExt where
  irrefl a := extLt_strictWeak.irrefl a
  trans a b c h1 h2 := extLt_strictWeak.trans c b a h2 h1
  negTrans a b c h1 h2 := extLt_strictWeak.negTrans c b a h2 h1

/-- the scan returns (index, element) of the first least element -/
theorem argFirstAux_spec {α : Type} {lt : α → α → Bool} (h : StrictWeak lt) :
    ∀ (xs : List α) (x : α),
      (x :: xs)[(argFirstAux lt x xs).1]? = some (argFirstAux lt x xs).2
      ∧ (∀ y ∈ x :: xs, lt y (argFirstAux lt x xs).2 = false)
      ∧ (∀ j y, j < (argFirstAux lt x xs).1 → (x :: xs)[j]? = some y → lt (argFirstAux lt x xs).2 y = true)
  | [], x => by
    refine ⟨by simp [argFirstAux], ?_, ?_⟩
    · intro y hy; simp at hy; subst hy; simpa [argFirstAux] using h.irrefl y
    · intro j y hj; simp [argFirstAux] at hj
  | y :: ys, x => by
    obtain ⟨ih1, ih2, ih3⟩ := argFirstAux_spec h ys y
    by_cases hlt : lt (argFirstAux lt y ys).2 x = true
    · have e : argFirstAux lt x (y :: ys) = ((argFirstAux lt y ys).1 + 1, (argFirstAux lt y ys).2) := by
        simp [argFirstAux, hlt]
      rw [e]
      refine ⟨by simpa using ih1, ?_, ?_⟩
      · intro z hz
        rcases List.mem_cons.1 hz with rfl | hz
        · exact h.asymm hlt
        · exact ih2 z hz
      · intro j z hj hz
        cases j with
        | zero => simp at hz; subst hz; exact hlt
        | succ j => exact ih3 j z (by simpa using hj) (by simpa using hz)
    · have hlt' : lt (argFirstAux lt y ys).2 x = false := by simpa using hlt
      have e : argFirstAux lt x (y :: ys) = (0, x) := by simp [argFirstAux, hlt']
      rw [e]
      refine ⟨by simp, ?_, ?_⟩
      · intro z hz
        rcases List.mem_cons.1 hz with rfl | hz
        · exact h.irrefl _
        · exact h.negTrans z _ _ (ih2 z hz) hlt'
      · intro j z hj; simp at hj

/-- index form: in range, nothing is strictly better, everything before is strictly worse -/
theorem argFirst_spec {α : Type} {lt : α → α → Bool} (h : StrictWeak lt) (xs : List α) (hne : xs ≠ []) :
    ∃ m, xs[argFirst lt xs]? = some m
      ∧ (∀ (j : Nat) y, xs[j]? = some y → lt y m = false)
      ∧ (∀ (j : Nat) y, j < argFirst lt xs → xs[j]? = some y → lt m y = true) := by
  cases xs with
  | nil => exact absurd rfl hne
  | cons x xs =>
    obtain ⟨h1, h2, h3⟩ := argFirstAux_spec h xs x
    refine ⟨(argFirstAux lt x xs).2, h1, ?_, h3⟩
    intro j y hy
    exact h2 y (List.mem_of_getElem? hy)

/-! ### 2. One pixel -/

def sub (isMax : Bool) : Val → Ext := if isMax then substMax else substMin
def ord (isMax : Bool) : Ext → Ext → Bool := if isMax then gtExt else Ext.lt

theorem winnerIdx_eq (isMax : Bool) (costs : List Val) :
    winnerIdx isMax costs = argFirst (ord isMax) (costs.map (sub isMax)) := by
  cases isMax <;> rfl

theorem ord_strictWeak (isMax : Bool) : StrictWeak (ord isMax) := by
  cases isMax
  · exact extLt_strictWeak
  · exact gtExt_strictWeak

/-- a computable cost beats the substituted NaN -/
theorem ord_num_nan (isMax : Bool) (q : Rat) : ord isMax (sub isMax (.num q)) (sub isMax .nan) = true := by
  cases isMax <;> rfl

/-- nothing is worse than the substituted NaN -/
theorem ord_nan_any (isMax : Bool) (v : Val) : ord isMax (sub isMax .nan) (sub isMax v) = false := by
  cases isMax <;> cases v <;> rfl

theorem ord_num_num (isMax : Bool) (a b : Rat) :
    ord isMax (sub isMax (.num a)) (sub isMax (.num b)) = false ↔ asGood isMax b a = true := by
  cases isMax <;> simp [ord, sub, gtExt, Ext.lt, substMin, substMax, asGood]

theorem costAt_eq_getElem? (costs : List Val) (k : Nat) (hk : k < costs.length) :
    costs[k]? = some (costAt costs k) := by
  simp [costAt, List.getD, List.getElem?_eq_getElem hk]

theorem hasCost_iff (costs : List Val) :
    hasCost costs = true ↔ ∃ k q, k < costs.length ∧ costAt costs k = .num q := by
  constructor
  · intro h
    obtain ⟨v, hv, hnum⟩ := List.any_eq_true.1 h
    obtain ⟨k, hk, rfl⟩ := List.mem_iff_getElem.1 hv
    cases e : costs[k] with
    | nan => rw [e] at hnum; simp [Val.isNum, Val.isNan] at hnum
    | num q => exact ⟨k, q, hk, by simp [costAt, List.getD, List.getElem?_eq_getElem hk, e]⟩
  · rintro ⟨k, q, hk, e⟩
    refine List.any_eq_true.2 ⟨costs[k], List.getElem_mem hk, ?_⟩
    have : costs[k] = .num q := by
      simpa [costAt, List.getD, List.getElem?_eq_getElem hk] using e
    rw [this]; rfl

theorem allNan_eq_not_hasCost (costs : List Val) : allNan costs = !hasCost costs := by
  induction costs with
  | nil => rfl
  | cons v vs ih =>
    simp only [allNan, hasCost, List.all_cons, List.any_cons] at ih ⊢
    rw [ih]; cases v <;> simp [Val.isNum, Val.isNan]

theorem strictlyIncreasing_getD : ∀ (ds : List Rat), strictlyIncreasing ds = true →
    ∀ i j, i ≤ j → j < ds.length → dispAt ds i ≤ dispAt ds j
  | [], _, _, _, _, hj => by simp at hj
  | [a], _, i, j, hij, hj => by
    have : j = 0 := by simpa using hj
    have : i = 0 := by omega
    subst_vars; exact le_refl _
  | a :: b :: rest, h, i, j, hij, hj => by
    simp only [strictlyIncreasing, Bool.and_eq_true, decide_eq_true_eq] at h
    have ih := strictlyIncreasing_getD (b :: rest) h.2
    cases i with
    | zero =>
      cases j with
      | zero => exact le_refl _
      | succ j =>
        have h0 : dispAt (a :: b :: rest) 0 = a := rfl
        have hj' : dispAt (a :: b :: rest) (j + 1) = dispAt (b :: rest) j := rfl
        have hb : dispAt (b :: rest) 0 = b := rfl
        have := ih 0 j (Nat.zero_le _) (by simpa using hj)
        rw [h0, hj']; rw [hb] at this; exact le_trans (le_of_lt h.1) this
    | succ i =>
      cases j with
      | zero => omega
      | succ j =>
        exact ih i j (by omega) (by simpa using hj)

/-- everything the scan guarantees about the winner of a pixel with at least one computable cost -/
theorem winner_facts (isMax : Bool) (costs : List Val) (hc : hasCost costs = true) :
    winnerIdx isMax costs < costs.length
    ∧ isBestIdx isMax costs (winnerIdx isMax costs) = true
    ∧ (∀ j, j < costs.length → isBestIdx isMax costs j = true → winnerIdx isMax costs ≤ j) := by
  obtain ⟨k0, q0, hk0, e0⟩ := (hasCost_iff costs).1 hc
  have hne : costs.map (sub isMax) ≠ [] := by
    intro h; rw [List.map_eq_nil_iff] at h; subst h; simp at hk0
  obtain ⟨m, hm, hbest, hfirst⟩ := argFirst_spec (ord_strictWeak isMax) _ hne
  rw [← winnerIdx_eq] at hm hfirst
  set i := winnerIdx isMax costs with hi
  have hilt : i < costs.length := by
    have := (List.getElem?_eq_some_iff.1 hm).1
    simpa using this
  have hmi : m = sub isMax (costAt costs i) := by
    have := costAt_eq_getElem? costs i hilt
    rw [List.getElem?_map, this] at hm
    simpa using hm.symm
  have at_j : ∀ j, j < costs.length → (costs.map (sub isMax))[j]? = some (sub isMax (costAt costs j)) := by
    intro j hj; rw [List.getElem?_map, costAt_eq_getElem? costs j hj]; rfl
  -- the winner's cost is computable
  obtain ⟨c, hcI⟩ : ∃ c, costAt costs i = .num c := by
    cases e : costAt costs i with
    | num c => exact ⟨c, rfl⟩
    | nan =>
      have := hbest k0 _ (at_j k0 hk0)
      rw [hmi, e, e0, ord_num_nan] at this
      exact absurd this (by decide)
  have best_i : isBestIdx isMax costs i = true := by
    unfold isBestIdx; rw [hcI]
    refine List.all_eq_true.2 ?_
    intro j hj
    have hj : j < costs.length := by simpa [idxs] using hj
    cases e : costAt costs j with
    | nan => rfl
    | num c' =>
      have := hbest j _ (at_j j hj)
      rw [hmi, hcI, e] at this
      exact (ord_num_num isMax c' c).1 this
  refine ⟨hilt, best_i, ?_⟩
  intro j hj hbj
  by_contra hlt
  have hlt : j < i := by omega
  have h1 := hfirst j _ hlt (at_j j hj)
  rw [hmi, hcI] at h1
  -- j is best too: its cost is as good as the winner's
  unfold isBestIdx at hbj
  cases e : costAt costs j with
  | nan => rw [e] at hbj; simp at hbj
  | num c' =>
    rw [e] at hbj h1
    have := List.all_eq_true.1 hbj i (by simpa [idxs] using hilt)
    rw [hcI] at this
    have h2 := (ord_num_num isMax c c').2 this
    rw [h2] at h1; exact absurd h1 (by decide)

/-- **Per-pixel theorem.**  For well-formed pixel data the value written by the model satisfies every
    clause of the specification: sampled disparity, best cost, lowest disparity among ties, inside the
    pixel's interval; `invalid_disparity` (NaN included) when no cost is computable. -/
theorem wtaPixel_spec (isMax : Bool) (disps : List Rat) (lo hi : Rat) (costs : List Val) (invalid : Val)
    (wf : wfPixel disps lo hi costs = true) :
    specPixel isMax disps lo hi costs invalid (wtaPixel isMax disps costs invalid) = true := by
  simp only [wfPixel, Bool.and_eq_true, beq_iff_eq] at wf
  obtain ⟨⟨hlen, hinc⟩, hint⟩ := wf
  cases hc : hasCost costs with
  | false =>
    have : wtaPixel isMax disps costs invalid = invalid := by
      simp [wtaPixel, allNan_eq_not_hasCost, hc]
    simp [specPixel, clauseIsSample, clauseIsBest, clauseTieLowest, clauseInInterval, clauseAllNan, hc, this]
  | true =>
    obtain ⟨hi1, hi2, hi3⟩ := winner_facts isMax costs hc
    have hout : wtaPixel isMax disps costs invalid = .num (dispAt disps (winnerIdx isMax costs)) := by
      simp [wtaPixel, allNan_eq_not_hasCost, hc]
    rw [hout]
    have hmem : winnerIdx isMax costs ∈ idxs costs := by simpa [idxs] using hi1
    simp only [specPixel, clauseIsSample, clauseIsBest, clauseTieLowest, clauseInInterval, clauseAllNan,
      hc, Bool.not_true, Bool.false_or, Bool.true_or, Bool.and_true, Bool.and_eq_true]
    refine ⟨⟨⟨?_, ?_⟩, ?_⟩, ?_⟩
    · exact List.any_eq_true.2 ⟨_, hmem, by simp⟩
    · exact List.any_eq_true.2 ⟨_, hmem, by simp [hi2]⟩
    · refine List.all_eq_true.2 ?_
      intro j hj
      have hj' : j < costs.length := by simpa [idxs] using hj
      cases hb : isBestIdx isMax costs j with
      | false => rfl
      | true =>
        have := strictlyIncreasing_getD disps hinc _ j (hi3 j hj' hb) (by omega)
        simpa using this
    · have := List.all_eq_true.1 hint _ hmem
      have hnum : (costAt costs (winnerIdx isMax costs)).isNan = false := by
        unfold isBestIdx at hi2
        cases e : costAt costs (winnerIdx isMax costs) with
        | nan => rw [e] at hi2; simp at hi2
        | num c => rfl
      rw [hnum] at this
      simpa using this

/-! ### 3. The whole map: block independence and the specification -/

/-- **Block independence** (`argmin_split` / `argmax_split`): inside the image the blocked loops give
    every pixel the value of its own cost row — for every split `np.arange(start, n, step)` (any start,
    any step, any stop), provided the offsets start at 0 as in the source. -/
theorem argSplit_eq_direct (s : Blocks.Split) (h0 : s.beginY = 0 ∧ s.beginX = 0) (x : Input) (r c : Nat)
    (hr : r < x.rows) (hc : c < x.cols) :
    argSplit s x r c = dispAt x.disps (winnerIdx x.isMax (x.cv r c)) := by
  unfold argSplit
  rw [Blocks.blocked_eq_direct]
  simp [Blocks.direct, Blocks.Split.plan, hr, hc, h0.1, h0.2]

theorem toDisp_eq_pixel (s : Blocks.Split) (h0 : s.beginY = 0 ∧ s.beginX = 0) (x : Input) (r c : Nat)
    (hr : r < x.rows) (hc : c < x.cols) :
    toDisp s x r c = wtaPixel x.isMax x.disps (x.cv r c) x.invalid := by
  unfold toDisp wtaPixel
  rw [argSplit_eq_direct s h0 x r c hr hc]

/-- the result does not depend on how the image is split into processing blocks -/
theorem toDisp_block_independent (s s' : Blocks.Split) (hy : s.beginY = s'.beginY) (hx : s.beginX = s'.beginX)
    (x : Input) : toDisp s x = toDisp s' x := by
  funext r c
  unfold toDisp argSplit
  rw [Blocks.blocked_eq_direct, Blocks.blocked_eq_direct]
  simp [Blocks.direct, Blocks.Split.plan, hy, hx]

/-- **C03, main theorem.**  Every pixel of the disparity map computed by the model satisfies the
    per-pixel specification, whatever the image size and the block split. -/
theorem toDisp_spec (s : Blocks.Split) (h0 : s.beginY = 0 ∧ s.beginX = 0) (x : Input) (lo hi : Nat → Nat → Rat)
    (wf : ∀ r c, r < x.rows → c < x.cols → wfPixel x.disps (lo r c) (hi r c) (x.cv r c) = true) :
    ∀ r c, r < x.rows → c < x.cols →
      specPixel x.isMax x.disps (lo r c) (hi r c) (x.cv r c) x.invalid (toDisp s x r c) = true := by
  intro r c hr hc
  rw [toDisp_eq_pixel s h0 x r c hr hc]
  exact wtaPixel_spec _ _ _ _ _ _ (wf r c hr hc)

/-- the main theorem for the loop literals found in disparity.py on this run (`argmin_split` and
    `argmax_split`): fails to build if an initial offset is no longer 0 -/
theorem source_blocks_spec (x : Input) (lo hi : Nat → Nat → Rat)
    (wf : ∀ r c, r < x.rows → c < x.cols → wfPixel x.disps (lo r c) (hi r c) (x.cv r c) = true) :
    ∀ r c, r < x.rows → c < x.cols →
      specPixel x.isMax x.disps (lo r c) (hi r c) (x.cv r c) x.invalid
        (toDisp (if x.isMax then Generated.Blocks.wtaArgmax else Generated.Blocks.wtaArgmin) x r c) = true := by
  have h1 : Generated.Blocks.wtaArgmax.beginY = 0 ∧ Generated.Blocks.wtaArgmax.beginX = 0 := by decide
  have h2 : Generated.Blocks.wtaArgmin.beginY = 0 ∧ Generated.Blocks.wtaArgmin.beginX = 0 := by decide
  cases hm : x.isMax
  · simpa [hm] using toDisp_spec _ h2 x lo hi wf
  · simpa [hm] using toDisp_spec _ h1 x lo hi wf

/-- `cv_unchanged`: substitution followed by the restore from `indices_nan` gives back every cell -/
theorem cvAfter_eq (x : Input) : cvAfter x = x.cv := by
  funext r c
  unfold cvAfter
  conv => rhs; rw [← List.map_id (x.cv r c)]
  apply List.map_congr_left
  intro v _
  cases v <;> cases x.isMax <;> simp [restoreCell, substMin, substMax, Val.isNan]

/-! ### 4. Non-vacuity -/

/-- a pixel with a tie, a NaN and an interval narrower than the sampled range -/
example : wfPixel [-2, -1, 0, 1, 2] (-1) 1 [.nan, .num 3, .num 1, .num 1, .nan] = true := by decide
example : wtaPixel false [-2, -1, 0, 1, 2] [.nan, .num 3, .num 1, .num 1, .nan] (.num (-9999)) = .num 0 := by
  decide
example : wtaPixel true [-2, -1, 0, 1, 2] [.nan, .num 3, .num 1, .num 1, .nan] (.num (-9999)) = .num (-1) := by
  decide
example : wtaPixel false [-2, -1] [.nan, .nan] .nan = .nan := by decide
/-- the specification is not trivially true: it rejects the higher disparity of the tie -/
example : specPixel false [-2, -1, 0, 1, 2] (-1) 1 [.nan, .num 3, .num 1, .num 1, .nan] (.num (-9999)) (.num 1)
    = false := by decide
example : specPixel false [-2, -1, 0, 1, 2] (-1) 1 [.nan, .num 3, .num 1, .num 1, .nan] (.num (-9999)) (.num 0)
    = true := by decide

end Pandora.C03
