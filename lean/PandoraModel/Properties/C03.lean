/- C03 — theorems (placeholder until the property is built). -/
