/-
  C13 — the composed run of the step models WITH cross-based aggregation:
      matching cost (`MC.costVolume`) → `Cbca.aggregate` (C11) → `Wta.toDisp` → (refinement) → (median filter)
      → the same chain on the swapped pair → cross-checking,
  with the criteria flags computed from the matching cost's own volume (before aggregation, as `cv_masked` does).
  `costRows_cbca`: the aggregated cost rows of the model are what the cost stage `[matching cost; cbcaStep]` of the
  composed function computes; hence (`C13Run.lean`, `runR_crop_eq_whole`) **`runCbca_crop_eq_whole`**: for the models'
  arrays the run on a crop equals the run on the whole pair on every pixel whose clipped cone lies in the crop.
-/
import PandoraModel.Model.PipelineRun
import PandoraModel.Properties.C13Run
import PandoraModel.Properties.C13PipelineCbca
import Mathlib.Algebra.Order.Field.Basic
import Mathlib.Data.Rat.Floor

namespace Pandora.C13
open Pandora Pandora.Locality Pandora.MC

/-! ### the step does not read the interval fields of the scene cells -/

/-- a cell without its disparity-interval fields -/
def stripCell (c : CbcaCell) : CbcaCell := (⟨c.1.l, c.1.r, c.1.ml, c.1.mr, 0, 0⟩, c.2)

theorem isSome_of_map_strip {v w : Option CbcaCell} (h : v.map stripCell = w.map stripCell) : v.isSome = w.isSome := by
  have := congrArg Option.isSome h
  simpa using this

theorem cbcaAt_strip (Q : CbcaParams) (v w : View) (h : ∀ di dj, (v di dj).map stripCell = (w di dj).map stripCell) :
    cbcaAt Q v = cbcaAt Q w := by
  have hs : ∀ di dj, (v di dj).isSome = (w di dj).isSome := fun di dj => isSome_of_map_strip (h di dj)
  have hu : vUp Q v = vUp Q w := by unfold vUp; simp only [hs]
  have hd : vDn Q v = vDn Q w := by unfold vDn; simp only [hs]
  have hl : vLf Q v = vLf Q w := by unfold vLf; simp only [hs]
  have hr : vRt Q v = vRt Q w := by unfold vRt; simp only [hs]
  unfold cbcaAt windowInput
  rw [hu, hd, hl, hr]
  generalize vUp Q w = u
  generalize vDn Q w = dn
  generalize vLf Q w = l
  generalize vRt Q w = r
  have hcell : ∀ i j, (winCell v u l (u + 1 + dn) (l + 1 + r) i j).map stripCell
      = (winCell w u l (u + 1 + dn) (l + 1 + r) i j).map stripCell := by
    intro i j
    unfold winCell
    by_cases hg : i < u + 1 + dn ∧ j < l + 1 + r
    · rw [if_pos hg, if_pos hg]; exact h _ _
    · rw [if_neg hg, if_neg hg]
  have hcv : winCv v u l (u + 1 + dn) (l + 1 + r) = winCv w u l (u + 1 + dn) (l + 1 + r) := by
    funext i j dsp
    unfold winCv
    have := hcell i j
    cases hv : winCell v u l (u + 1 + dn) (l + 1 + r) i j <;> cases hw : winCell w u l (u + 1 + dn) (l + 1 + r) i j <;>
      simp only [hv, hw, Option.map_some, Option.map_none, Option.some.injEq, reduceCtorEq] at this ⊢
    have h2 := congrArg Prod.snd this
    simp only [stripCell] at h2
    rw [h2]
  have hin : mkInp Q (u + 1 + dn) (l + 1 + r) (winScene v u l (u + 1 + dn) (l + 1 + r))
        (winCv v u l (u + 1 + dn) (l + 1 + r))
      = mkInp Q (u + 1 + dn) (l + 1 + r) (winScene w u l (u + 1 + dn) (l + 1 + r))
        (winCv w u l (u + 1 + dn) (l + 1 + r)) := by
    rw [hcv]
    unfold mkInp
    have hf : ∀ i j, (winScene v u l (u + 1 + dn) (l + 1 + r) i j).l = (winScene w u l (u + 1 + dn) (l + 1 + r) i j).l
        ∧ (winScene v u l (u + 1 + dn) (l + 1 + r) i j).r = (winScene w u l (u + 1 + dn) (l + 1 + r) i j).r
        ∧ (winScene v u l (u + 1 + dn) (l + 1 + r) i j).ml = (winScene w u l (u + 1 + dn) (l + 1 + r) i j).ml
        ∧ (winScene v u l (u + 1 + dn) (l + 1 + r) i j).mr = (winScene w u l (u + 1 + dn) (l + 1 + r) i j).mr := by
      intro i j
      unfold winScene
      have := hcell i j
      cases hv : winCell v u l (u + 1 + dn) (l + 1 + r) i j <;> cases hw : winCell w u l (u + 1 + dn) (l + 1 + r) i j <;>
        simp only [hv, hw, Option.map_some, Option.map_none, Option.some.injEq, reduceCtorEq] at this ⊢
      · trivial
      · have h1 := congrArg Prod.fst this
        simp only [stripCell, McCell.mk.injEq] at h1
        exact ⟨h1.1, h1.2.1, h1.2.2.1, h1.2.2.2.1⟩
    have e1 : (fun i j => (winScene v u l (u + 1 + dn) (l + 1 + r) i j).l)
        = (fun i j => (winScene w u l (u + 1 + dn) (l + 1 + r) i j).l) := by funext i j; exact (hf i j).1
    have e2 : (fun i j => (winScene v u l (u + 1 + dn) (l + 1 + r) i j).r)
        = (fun i j => (winScene w u l (u + 1 + dn) (l + 1 + r) i j).r) := by funext i j; exact (hf i j).2.1
    have e3 : (fun i j => (winScene v u l (u + 1 + dn) (l + 1 + r) i j).ml)
        = (fun i j => (winScene w u l (u + 1 + dn) (l + 1 + r) i j).ml) := by funext i j; exact (hf i j).2.2.1
    have e4 : (fun i j => (winScene v u l (u + 1 + dn) (l + 1 + r) i j).mr)
        = (fun i j => (winScene w u l (u + 1 + dn) (l + 1 + r) i j).mr) := by funext i j; exact (hf i j).2.2.2
    rw [e1, e2, e3, e4]
  rw [hin]

/-- **cross-based aggregation does not read the disparity-interval fields of the scene** -/
theorem cbcaStep_strip (Q : CbcaParams) (a b : Locality.Img CbcaCell)
    (h : ∀ q, (a q).map stripCell = (b q).map stripCell) : cbcaStep Q a = cbcaStep Q b := by
  funext p
  unfold cbcaStep
  have hp := h p
  have hat : cbcaAt Q (view a p) = cbcaAt Q (view b p) := cbcaAt_strip Q _ _ (fun di dj => h _)
  rw [hat]
  cases ha : a p <;> cases hb : b p <;> simp [ha, hb] at hp ⊢

/-! ### the aggregation of the run -/

/-- the configuration of `cbcaStep` for the run -/
def cbcaQ (K : RunCfg) (G : AggCfg) (x : MC.Input) : CbcaParams :=
  cbcaParamsOf (cbcaInputOf K G x) (nOf x) (gminOf x) (gmaxOf x)

/-- C11's hypothesis on the input of cbca: the costs are NaN where the disparity has no facing right column -/
def NanOutsideOK (K : RunCfg) (G : AggCfg) (x : MC.Input) : Prop :=
  ∀ dsp, dsp < nOf x → Cbca.nanOutside ((cbcaInputOf K G x).plane dsp) = true

theorem disp_in_interval (K : RunCfg) (G : AggCfg) (x : MC.Input) (hx : McOK x) (dsp : Nat) (hd : dsp < nOf x) :
    ((gminOf x : Int) : ℚ) ≤ (cbcaInputOf K G x).disp dsp ∧ (cbcaInputOf K G x).disp dsp ≤ ((gmaxOf x : Int) : ℚ) := by
  have hsh := C02.shape_of_wf x hx.wf
  have hle := run_samples_le K x hx dsp hd
  have hle' : gminOf x * (x.sp : Int) + dsp ≤ gmaxOf x * (x.sp : Int) := hle
  have hs : (0 : ℚ) < ((x.sp : Int) : ℚ) := by exact_mod_cast hsh.sp_pos
  show ((gminOf x : Int) : ℚ) ≤ (((gminOf x * (x.sp : Int) + (dsp : Int) : Int)) : ℚ) / ((x.sp : Int) : ℚ)
    ∧ (((gminOf x * (x.sp : Int) + (dsp : Int) : Int)) : ℚ) / ((x.sp : Int) : ℚ) ≤ ((gmaxOf x : Int) : ℚ)
  constructor
  · rw [le_div_iff₀ hs]
    have : gminOf x * (x.sp : Int) ≤ gminOf x * (x.sp : Int) + (dsp : Int) := by omega
    exact_mod_cast this
  · rw [div_le_iff₀ hs]
    exact_mod_cast hle'

/-- **The aggregated cost rows of the model are those of the cost stage `[matching cost; cbcaStep]`.** -/
theorem costRows_cbca (K : RunCfg) (G : AggCfg) (x : MC.Input) (hx : McOK x) (hN : NanOutsideOK K G x) :
    CostRows K x (cbcaStep (cbcaQ K G x)) (aggRow K G x) := by
  unfold CostRows costStage
  rw [pairStep_toImg _ _ _ _ _ (mcScene x) (costRow K x) rfl (mcStage_run K x hx)]
  have h := aggregate_is_cbcaStep (cbcaInputOf K G x) (nOf x) (gminOf x) (gmaxOf x) hN
    (fun dsp hd => disp_in_interval K G x hx dsp hd)
  show _ = toImg (cbcaInputOf K G x).H (cbcaInputOf K G x).W (aggRow K G x)
  unfold aggRow
  rw [h]
  apply cbcaStep_strip
  intro q
  show (toImg x.L.rows x.L.cols _ q).map stripCell = (toImg x.L.rows x.L.cols _ q).map stripCell
  rw [map_toImg, map_toImg]
  rfl

/-! ### C11's hypothesis `nanOutside` is a theorem about the matching-cost model -/

theorem iRight_of_dvd (sp : Nat) (hs : 0 < sp) (k : Int) (h : k % (sp : Int) = 0) :
    Cbca.iRight sp ((k : ℚ) / ((sp : Int) : ℚ)) = 0 := by
  have hsQ : ((sp : Int) : ℚ) ≠ 0 := by
    have : (0 : ℚ) < ((sp : Int) : ℚ) := by exact_mod_cast hs
    exact ne_of_gt this
  obtain ⟨m, hm⟩ : ∃ m : Int, k = m * (sp : Int) := ⟨k / (sp : Int), by
    have := Int.emod_add_mul_ediv k (sp : Int)
    rw [h, Int.zero_add, Int.mul_comm] at this
    exact this.symm⟩
  have hd : (k : ℚ) / ((sp : Int) : ℚ) = (m : ℚ) := by
    rw [hm]; push_cast; field_simp
  unfold Cbca.iRight
  rw [hd]
  have : ((m : ℚ)).floor = m := by
    show ⌊(m : ℚ)⌋ = m
    exact Int.floor_intCast m
  rw [this]
  have e : ((m : ℚ) - ((m : Int) : ℚ)) * (sp : ℚ) = 0 := by simp
  rw [e]
  have : (0 : ℚ).floor = 0 := by
    show ⌊(0 : ℚ)⌋ = 0
    exact Int.floor_zero
  rw [this]
  rfl

/-- the facing right column exists as soon as the right window(s) of the matching cost lie in the right image -/
theorem rightCol_isSome_of_rightInside (sp : Nat) (hs : 0 < sp) (k : Int) (xa o W : Nat)
    (h1 : (o : Int) ≤ ((xa + o : Nat) : Int) + k / (sp : Int))
    (h2 : ((xa + o : Nat) : Int) + k / (sp : Int) + (o : Int) + fracBit k sp < (W : Int)) :
    (Cbca.rightCol ((k : ℚ) / ((sp : Int) : ℚ))
      ((if Cbca.iRight sp ((k : ℚ) / ((sp : Int) : ℚ)) = 0 then W else W - 1) - 2 * o) xa).isSome = true := by
  have hfl : ((k : ℚ) / ((sp : Int) : ℚ)).floor = k / (sp : Int) := by
    show ⌊(k : ℚ) / ((sp : Int) : ℚ)⌋ = k / (sp : Int)
    have := Rat.floor_intCast_div_natCast k sp
    simpa using this
  have hle : (((k / (sp : Int) : Int)) : ℚ) ≤ (k : ℚ) / ((sp : Int) : ℚ) := by
    rw [← hfl]; exact Rat.floor_le _
  have hlt : (k : ℚ) / ((sp : Int) : ℚ) < (((k / (sp : Int) : Int)) : ℚ) + 1 := by
    have := Rat.lt_floor_add_one ((k : ℚ) / ((sp : Int) : ℚ))
    rw [hfl] at this
    exact_mod_cast this
  generalize hd : (k : ℚ) / ((sp : Int) : ℚ) = d at *
  generalize hD : k / (sp : Int) = D at *
  unfold Cbca.rightCol
  have h0 : (0 : ℚ) ≤ (xa : ℚ) + d := by
    have : (0 : Int) ≤ (xa : Int) + D := by omega
    have : (0 : ℚ) ≤ ((xa : Int) : ℚ) + (D : ℚ) := by exact_mod_cast this
    push_cast at this
    linarith
  have hW : (xa : ℚ) + d < (((if Cbca.iRight sp d = 0 then W else W - 1) - 2 * o : Nat) : ℚ) := by
    by_cases hk : k % (sp : Int) = 0
    · have hi : Cbca.iRight sp d = 0 := by rw [← hd]; exact iRight_of_dvd sp hs k hk
      have hf : fracBit k sp = 0 := by unfold fracBit; rw [if_pos hk]
      rw [if_pos hi]
      have hdD : d = (D : ℚ) := by
        rw [← hd, ← hD]
        have hsQ : ((sp : Int) : ℚ) ≠ 0 := by
          have : (0 : ℚ) < ((sp : Int) : ℚ) := by exact_mod_cast hs
          exact ne_of_gt this
        have := Int.emod_add_mul_ediv k (sp : Int)
        rw [hk, Int.zero_add] at this
        rw [div_eq_iff hsQ]
        have h5 : k = k / (sp : Int) * (sp : Int) := by rw [Int.mul_comm]; exact this.symm
        exact_mod_cast h5
      have : (xa : Int) + D < ((W - 2 * o : Nat) : Int) := by omega
      have : ((xa : Int) : ℚ) + (D : ℚ) < (((W - 2 * o : Nat) : Int) : ℚ) := by exact_mod_cast this
      push_cast at this ⊢
      rw [hdD]
      linarith
    · have hf : fracBit k sp = 1 := by unfold fracBit; rw [if_neg hk]
      have hge : W - 1 - 2 * o ≤ (if Cbca.iRight sp d = 0 then W else W - 1) - 2 * o := by split <;> omega
      have : (xa : Int) + D + 1 ≤ ((W - 1 - 2 * o : Nat) : Int) := by omega
      have h3 : ((xa : Int) : ℚ) + (D : ℚ) + 1 ≤ (((W - 1 - 2 * o : Nat) : Int) : ℚ) := by exact_mod_cast this
      have h4 : (((W - 1 - 2 * o : Nat)) : ℚ) ≤ (((if Cbca.iRight sp d = 0 then W else W - 1) - 2 * o : Nat) : ℚ) := by
        exact_mod_cast hge
      push_cast at h3
      linarith
  simp only [h0, hW, and_self, if_true, Option.isSome_some]

/-- **C11's hypothesis holds of the matching-cost model's volume**: where a disparity has no facing right column the
    right window of the matching cost leaves the right image, and the cost is NaN (any measure; `ev` keeps NaN). -/
theorem nanOutsideOK_of_mc (K : RunCfg) (G : AggCfg) (x : MC.Input) (h : Shape x)
    (hg : gridMin x.dminG x.L.rows x.L.cols ≤ gridMax x.dmaxG x.L.rows x.L.cols) (hev : K.ev .nan = .nan) :
    NanOutsideOK K G x := by
  intro dsp hd
  unfold Cbca.nanOutside
  simp only [List.all_eq_true, List.mem_range, Bool.or_eq_true]
  intro y _ xa _
  by_cases hR : RightInside x ((xa + MC.half x.w : Nat) : Int) (gminOf x * (x.sp : Int) + (dsp : Int))
  · left
    obtain ⟨h1, h2⟩ := hR
    rw [h.cols_eq] at h2
    exact rightCol_isSome_of_rightInside x.sp h.sp_pos _ xa (MC.half x.w) x.L.cols h1 h2
  · right
    have hnan : (costVolume x ((y + MC.half x.w : Nat) : Int) ((xa + MC.half x.w : Nat) : Int) dsp).isNan = true := by
      rw [C04C02.nan_iff_not_computable x h hg (y + MC.half x.w) (xa + MC.half x.w) dsp hd]
      have hc := C04C02.computable_iff_cause x h (y + MC.half x.w) (xa + MC.half x.w) dsp
      cases hcomp : Criteria.computable (C04C02.toCv x) (y + MC.half x.w) (xa + MC.half x.w) dsp
      · rfl
      · exact absurd ((cause_computable_iff x _ _ _).1 (hc.1 hcomp)).2.2.1 hR
    show (K.ev (costVolume x ((y + MC.half x.w : Nat) : Int) ((xa + MC.half x.w : Nat) : Int) dsp)).isNan = true
    cases hcv : costVolume x ((y + MC.half x.w : Nat) : Int) ((xa + MC.half x.w : Nat) : Int) dsp with
    | nan => rw [hev]; rfl
    | num q => rw [hcv] at hnan; cases hnan
    | zn a b => rw [hcv] at hnan; cases hnan

/-! ### crop run = whole run with aggregation -/

theorem cbcaQ_crop (K : RunCfg) (G : AggCfg) {x x' : MC.Input} (hp : paramsOf x' = paramsOf x)
    (h1 : gminOf x' = gminOf x) (h2 : gmaxOf x' = gmaxOf x) : cbcaQ K G x' = cbcaQ K G x := by
  simp only [paramsOf, McParams.mk.injEq] at hp
  obtain ⟨_, p2, p3, p4, p5, _, p7, p8, _⟩ := hp
  unfold gminOf at h1
  unfold gmaxOf at h2
  unfold cbcaQ cbcaParamsOf cbcaInputOf nOf gminOf gmaxOf
  simp only [p2, p3, p4, p5, p7, p8, h1, h2]

/-- the cone of the run with aggregation -/
def runCbcaCone (K K' : RunCfg) (G : AggCfg) (CP : CrossCheck.Params) (x : MC.Input) : Cone :=
  pipeConeOf (cfgOf K x) (cbcaCostCone (cfgOf K x) (cbcaQ K G x))
    (mcCone (cfgOf K x).mc (cfgOf K x).gmin (cfgOf K x).gmax)
    (filterConeOf (cfgOf K' (swapInput x)) (cbcaCostCone (cfgOf K' (swapInput x)) (cbcaQ K' G (swapInput x)))
      (mcCone (cfgOf K' (swapInput x)).mc (cfgOf K' (swapInput x)).gmin (cfgOf K' (swapInput x)).gmax) K'.doMedian)
    K.doMedian CP

/-- **Crop run = whole run for the arrays of the models, with cross-based aggregation.**  Hypotheses of
    `run_crop_eq_whole`; C11's `nanOutside` is discharged by `nanOutsideOK_of_mc` (the float reading `ev` of a cost cell
    keeps NaN). -/
theorem runCbca_crop_eq_whole (K K' : RunCfg) (G : AggCfg) (V : CrossCheck.Variant) (CP : CrossCheck.Params)
    (x x' : MC.Input) (r0 c0 : Nat) (hc : CropRun x x' r0 c0) (ok : RunOK K K' x) (ok' : RunOK K K' x')
    (hev : K.ev .nan = .nan) (hev' : K'.ev .nan = .nan)
    (out out' : Nat → Nat → CrossCheck.PixOut)
    (hout : fullRunCbca K K' G V CP x = some out) (hout' : fullRunCbca K K' G V CP x' = some out')
    (hin : ∀ A, afterFilterR K x (aggRow K G x) = some A → LeftInInterval CP x.L.rows x.L.cols A)
    (hin' : ∀ A, afterFilterR K x' (aggRow K G x') = some A → LeftInInterval CP x'.L.rows x'.L.cols A)
    (r c : Nat) (hr : r < x'.L.rows) (hcl : c < x'.L.cols)
    (hcone : ∀ q, inCone (runCbcaCone K K' G CP x) ((r : Int) + r0, (c : Int) + c0) q →
      InRect r0 c0 x'.L.rows x'.L.cols q ∨ ¬ InImage x.L.rows x.L.cols q) :
    out' r c = out (r + r0) (c + c0) := by
  have hsh := C02.shape_of_wf x ok.mc.wf
  have hshR := C02.shape_of_wf (swapInput x) ok.mcR.wf
  have hN := nanOutsideOK_of_mc K G x hsh (C02.gridOK_of_wf x ok.mc.wf) hev
  have hNs := nanOutsideOK_of_mc K' G (swapInput x) hshR (C02.gridOK_of_wf _ ok.mcR.wf) hev'
  have hN' := nanOutsideOK_of_mc K G x' (C02.shape_of_wf x' ok'.mc.wf) (C02.gridOK_of_wf x' ok'.mc.wf) hev
  have hNs' := nanOutsideOK_of_mc K' G (swapInput x') (C02.shape_of_wf _ ok'.mcR.wf) (C02.gridOK_of_wf _ ok'.mcR.wf) hev'
  have hRx := costRows_cbca K G x' ok'.mc hN'
  have hRx' := costRows_cbca K' G (swapInput x') ok'.mcR hNs'
  rw [cbcaQ_crop K G hc.params hc.gmin hc.gmax] at hRx
  rw [cbcaQ_crop K' G (paramsOf_swap_congr hc.params) hc.gminR hc.gmaxR] at hRx'
  exact runR_crop_eq_whole K K' V CP x x' r0 c0 hc ok ok'
    (costStage_cbca_local (cfgOf K x) hsh.sp_pos (run_samples_le K x ok.mc) (cbcaQ K G x))
    (cbcaStep_equivariant _)
    (costStage_cbca_local (cfgOf K' (swapInput x)) hshR.sp_pos (run_samples_le K' (swapInput x) ok.mcR)
      (cbcaQ K' G (swapInput x)))
    (cbcaStep_equivariant _)
    (costRows_cbca K G x ok.mc hN) (costRows_cbca K' G (swapInput x) ok.mcR hNs) hRx hRx'
    out out' hout hout' hin hin' r c hr hcl hcone

/-! ### Non-vacuity: a 3 × 11 sad pair (window 3, interval [-1, 0], `cbca_distance` 2, vfit, median 3, source block
    splits) and its 3 × 10 crop starting at column 1: both runs return, every hypothesis of `runCbca_crop_eq_whole`
    holds at crop pixel (1, 5) — (1, 6) of the whole — whose clipped cone (5 columns to the left, 4 to the right) lies
    in the crop -/

namespace RunCbcaExample
open RunExample

def exL : MC.Img := { rows := 3, cols := 11, px := fun r c => ((r * c + 2 * c + (c / 4) * 7 : Int) : Rat) }
def exR : MC.Img := { rows := 3, cols := 11, px := fun r c => ((r * c + 2 * c + (c / 4) * 7 + r - 2 : Int) : Rat) }

def exWhole : MC.Input where
  meas := .sad
  w := 3
  sp := 1
  L := exL
  R := exR
  mL := noMask
  mR := noMask
  dminG := fun _ _ => -1
  dmaxG := fun _ _ => 0

def exCrop : MC.Input :=
  { exWhole with
    L := { rows := 3, cols := 10, px := fun r c => exL.px r (c + 1) }
    R := { rows := 3, cols := 10, px := fun r c => exR.px r (c + 1) } }

def exG : AggCfg := { dist := 2, I := 5, mr := .loopVar }

theorem exCropRun : CropRun exWhole exCrop 0 1 := by
  refine ⟨rfl, ?_, by decide, by decide +kernel, by decide +kernel, by decide +kernel, by decide +kernel⟩
  intro r c _ _
  simp only [mcScene, exCrop, exWhole, exL, exR, noMask, Nat.add_zero]
  push_cast
  rfl

theorem exCone : runCbcaCone exK exK' exG exCP exWhole = ⟨3, 3, 5, 4⟩ := by decide +kernel

/-- both runs return -/
example : (fullRunCbca exK exK' exG .asIs exCP exWhole).isSome = true
    ∧ (fullRunCbca exK exK' exG .asIs exCP exCrop).isSome = true := by
  constructor <;> decide +kernel

theorem exIn : (afterFilterR exK exWhole (aggRow exK exG exWhole)).all (leftInIntervalB exCP 3 11) = true
    ∧ (afterFilterR exK exCrop (aggRow exK exG exCrop)).all (leftInIntervalB exCP 3 10) = true := by
  constructor <;> decide +kernel

example (out out' : Nat → Nat → CrossCheck.PixOut)
    (hout : fullRunCbca exK exK' exG .asIs exCP exWhole = some out)
    (hout' : fullRunCbca exK exK' exG .asIs exCP exCrop = some out') :
    out' 1 5 = out (1 + 0) (5 + 1) :=
  runCbca_crop_eq_whole exK exK' exG .asIs exCP exWhole exCrop 0 1 exCropRun
    (exOK exWhole rfl (by decide) (by decide) ⟨by decide, by decide⟩ ⟨by decide, by decide⟩)
    (exOK exCrop rfl (by decide) (by decide) ⟨by decide, by decide⟩ ⟨by decide, by decide⟩)
    rfl rfl out out' hout hout'
    (fun A hA => leftInInterval_of_B _ _ _ A (by have := exIn.1; rw [hA] at this; exact this))
    (fun A hA => leftInInterval_of_B _ _ _ A (by have := exIn.2; rw [hA] at this; exact this))
    1 5 (by decide) (by decide)
    (by
      intro q hq
      rw [exCone] at hq
      unfold inCone at hq
      unfold InRect InImage
      simp only [exCrop, exWhole, exL] at *
      omega)

end RunCbcaExample

end Pandora.C13
