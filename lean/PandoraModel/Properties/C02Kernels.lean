/-
  C02 — `AbstractMatchingCost.point_interval` REGENERATED from the Python source (`Generated/KernelsGlue.lean`,
  written by translator/gen_kernels_glue.py with translator/pyexpr.py) is equal, for every pair of widths and every
  rational disparity, to the hand-written `MC.pointInterval` (which carries the disparity `k/sp` as its numerator
  over the fixed denominator and does all index arithmetic on integers: `ceil` / `floor` of a rational become
  `cdiv` / `fdiv`), followed by the collapse of empty intervals to `(0, 0), (0, 0)` that the source performs
  ("the disparity reaches past the images: nothing can be compared").

    * `pointInterval_eq`          generated (k/sp) = collapse (MC.pointInterval … k sp)        all nxL nxR k, sp > 0
    * `pointInterval_eq_rat`      the same for an arbitrary `d : ℚ` (k = d.num, sp = d.den)
    * `pointInterval_eq_nonempty` where both model intervals are non-empty the two are equal as they stand
    * `dspIndex_eq`, `dspIndex_toNat`  the sample index `dsp = int((disp - dmin) * self._subpix)` of cv_masked, regenerated
      the same way, is the model's `(k - gmin * sp).toNat`
    * `pointInterval_mem_p` / `pointInterval_q_of_p`  what the model USES of the interval (membership of a left
      column, the right column facing it — `pixelWise`, `rawCensus`, `rawZncc`) is the same with or without the
      collapse, whenever the right interval is non-empty as well
-/
import PandoraModel.Model.MatchingCost
import PandoraModel.Model.PyExpr
import PandoraModel.Generated.KernelsGlue
import PandoraModel.Generated.KernelsGlueSelfTest  -- the translator's own glue test functions, checked by evaluation
import PandoraModel.Lemmas.MCIndex
import Mathlib.Data.Rat.Floor
import Mathlib.Tactic.Linarith
import Mathlib.Tactic.Ring
import Mathlib.Tactic.FieldSimp
import Mathlib.Tactic.SplitIfs
import Mathlib.Algebra.Order.Field.Basic

set_option linter.unusedSimpArgs false
set_option linter.unusedVariables false
set_option linter.unreachableTactic false
set_option linter.unusedTactic false

namespace Pandora.C02Kernels
open Pandora Pandora.MC Pandora.PyExpr

/-- the source returns `(0, 0), (0, 0)` when one of the two intervals is empty -/
def collapse (pq : PQ) : PQ := if pq.p1 ≤ pq.p0 ∨ pq.q1 ≤ pq.q0 then ⟨0, 0, 0, 0⟩ else pq

/-- `(point_p, point_q)` flattened -/
def encPQ (pq : PQ) : Int × Int × Int × Int := (pq.p0, pq.p1, pq.q0, pq.q1)

/-! ### `math.floor` / `math.ceil` of `a / s` are the integer divisions of the model -/

theorem rfloor_div (a : Int) (s : Nat) : rfloor ((a : ℚ) / (s : ℚ)) = fdiv a s :=
  Rat.floor_intCast_div_natCast a s

theorem rceil_div (a : Int) (s : Nat) : rceil ((a : ℚ) / (s : ℚ)) = cdiv a s := by
  unfold rceil cdiv
  rw [Rat.ceil_eq_neg_floor_neg]
  have h : -((a : ℚ) / (s : ℚ)) = ((-a : Int) : ℚ) / (s : ℚ) := by push_cast; ring
  rw [h]
  exact congrArg Neg.neg (Rat.floor_intCast_div_natCast (-a) s)

theorem rmax_div (x y : ℚ) (a b : Int) (s : Nat) (hs : 0 < s) (hx : x = (a : ℚ) / (s : ℚ)) (hy : y = (b : ℚ) / (s : ℚ)) :
    rmax x y = ((max a b : Int) : ℚ) / (s : ℚ) := by
  have hs' : (0 : ℚ) < (s : ℚ) := by exact_mod_cast hs
  subst hx hy
  unfold rmax
  have hiff : ((a : ℚ) / (s : ℚ) < (b : ℚ) / (s : ℚ)) ↔ a < b := by
    rw [div_lt_div_iff_of_pos_right hs', Int.cast_lt]
  split_ifs with h
  · rw [max_eq_right (le_of_lt (hiff.mp h))]
  · rw [max_eq_left (not_lt.mp (fun h' => h (hiff.mpr h')))]

theorem rmin_div (x y : ℚ) (a b : Int) (s : Nat) (hs : 0 < s) (hx : x = (a : ℚ) / (s : ℚ)) (hy : y = (b : ℚ) / (s : ℚ)) :
    rmin x y = ((min a b : Int) : ℚ) / (s : ℚ) := by
  have hs' : (0 : ℚ) < (s : ℚ) := by exact_mod_cast hs
  subst hx hy
  unfold rmin
  have hiff : ((b : ℚ) / (s : ℚ) < (a : ℚ) / (s : ℚ)) ↔ b < a := by
    rw [div_lt_div_iff_of_pos_right hs', Int.cast_lt]
  split_ifs with h
  · rw [min_eq_right (le_of_lt (hiff.mp h))]
  · rw [min_eq_left (not_lt.mp (fun h' => h (hiff.mpr h')))]

theorem div_neg_iff (k : Int) (s : Nat) (hs : 0 < s) : ((k : ℚ) / (s : ℚ) < 0) ↔ k < 0 := by
  have hs' : (0 : ℚ) < (s : ℚ) := by exact_mod_cast hs
  rw [div_lt_iff₀ hs', zero_mul, Int.cast_lt_zero]

/-! ### the equality -/

open Generated.KernelsGlue in
/-- **the translated `point_interval` is the hand model** (then the collapse of empty intervals), for every pair of
    widths — positive or not — and every disparity `k / sp` -/
theorem pointInterval_eq (nxL nxR k : Int) (sp : Nat) (hs : 0 < sp) :
    Generated.KernelsGlue.pointInterval nxL nxR ((k : ℚ) / (sp : ℚ))
      = encPQ (collapse (MC.pointInterval nxL nxR k sp)) := by
  have hs' : (sp : ℚ) ≠ 0 := by exact_mod_cast (Nat.pos_iff_ne_zero.mp hs)
  have e0 : (0 : ℚ) = ((0 : Int) : ℚ) / (sp : ℚ) := by simp
  have p0 := rmax_div ((0 : ℚ) - (k : ℚ) / (sp : ℚ)) 0 (0 - k) 0 sp hs (by push_cast; ring) e0
  have p1 := rmin_div ((nxL : ℚ) - (k : ℚ) / (sp : ℚ)) nxL (nxL * sp - k) (nxL * sp) sp hs
    (by push_cast; field_simp) (by push_cast; field_simp)
  have q0 := rmax_div ((0 : ℚ) + (k : ℚ) / (sp : ℚ)) 0 (0 + k) 0 sp hs (by push_cast; ring) e0
  have q1 := rmin_div ((nxR : ℚ) + (k : ℚ) / (sp : ℚ)) nxR (nxR * sp + k) (nxR * sp) sp hs
    (by push_cast; field_simp) (by push_cast; field_simp)
  -- the same four facts for the other ways of writing these operands (`-disp`, `disp`, swapped arguments): a rewrite of
  -- the source that only does this keeps the proof; unused instances are harmless
  have p0a := rmax_div (-((k : ℚ) / (sp : ℚ))) 0 (0 - k) 0 sp hs (by push_cast; ring) e0
  have p0b := rmax_div 0 ((0 : ℚ) - (k : ℚ) / (sp : ℚ)) 0 (0 - k) sp hs e0 (by push_cast; ring)
  have p0c := rmax_div 0 (-((k : ℚ) / (sp : ℚ))) 0 (0 - k) sp hs e0 (by push_cast; ring)
  have p1a := rmin_div (nxL : ℚ) ((nxL : ℚ) - (k : ℚ) / (sp : ℚ)) (nxL * sp) (nxL * sp - k) sp hs
    (by push_cast; field_simp) (by push_cast; field_simp)
  have q0a := rmax_div ((k : ℚ) / (sp : ℚ)) 0 (0 + k) 0 sp hs (by push_cast; ring) e0
  have q0b := rmax_div 0 ((0 : ℚ) + (k : ℚ) / (sp : ℚ)) 0 (0 + k) sp hs e0 (by push_cast; ring)
  have q0c := rmax_div 0 ((k : ℚ) / (sp : ℚ)) 0 (0 + k) sp hs e0 (by push_cast; ring)
  have q1a := rmin_div (nxR : ℚ) ((nxR : ℚ) + (k : ℚ) / (sp : ℚ)) (nxR * sp) (nxR * sp + k) sp hs
    (by push_cast; field_simp) (by push_cast; field_simp)
  have hneg := div_neg_iff k sp hs
  have hge : ((k : ℚ) / (sp : ℚ) ≥ 0) ↔ ¬ k < 0 := by rw [ge_iff_le, ← not_lt, hneg]
  have hgt : ((0 : ℚ) > (k : ℚ) / (sp : ℚ)) ↔ k < 0 := hneg
  have mc (a b : Int) : min a b = min b a := Int.min_comm a b
  have xc (a b : Int) : max a b = max b a := Int.max_comm a b
  unfold Generated.KernelsGlue.pointInterval MC.pointInterval
  simp only [p0, p1, q0, q1, p0a, p0b, p0c, p1a, q0a, q0b, q0c, q1a, rceil_div, rfloor_div, hneg, hge, hgt]
  by_cases hk : k < 0
  · simp only [hk, not_true_eq_false, decide_true, decide_false, if_true, if_false, collapse, encPQ, Bool.or_eq_true,
      decide_eq_true_eq, Bool.false_eq_true, ite_true, ite_false]
    split_ifs <;> first | rfl | (simp only [mc (nxL * sp), mc (nxR * sp), xc 0] at * <;> first | rfl | contradiction)
  · simp only [hk, not_false_eq_true, decide_true, decide_false, if_true, if_false, collapse, encPQ, Bool.or_eq_true,
      decide_eq_true_eq, Bool.false_eq_true, ite_true, ite_false]
    split_ifs <;> first | rfl | (simp only [mc (nxL * sp), mc (nxR * sp), xc 0] at * <;> first | rfl | contradiction)

/-- for an arbitrary rational disparity (the model is called on its reduced numerator and denominator) -/
theorem pointInterval_eq_rat (nxL nxR : Int) (d : ℚ) :
    Generated.KernelsGlue.pointInterval nxL nxR d = encPQ (collapse (MC.pointInterval nxL nxR d.num d.den)) := by
  have h := pointInterval_eq nxL nxR d.num d.den d.den_pos
  rwa [Rat.num_div_den] at h

/-- where both intervals of the model are non-empty the two functions agree as they stand -/
theorem pointInterval_eq_nonempty (nxL nxR k : Int) (sp : Nat) (hs : 0 < sp)
    (hp : (MC.pointInterval nxL nxR k sp).p0 < (MC.pointInterval nxL nxR k sp).p1)
    (hq : (MC.pointInterval nxL nxR k sp).q0 < (MC.pointInterval nxL nxR k sp).q1) :
    Generated.KernelsGlue.pointInterval nxL nxR ((k : ℚ) / (sp : ℚ)) = encPQ (MC.pointInterval nxL nxR k sp) := by
  rw [pointInterval_eq nxL nxR k sp hs, collapse, if_neg (by omega)]

/-- a collapsed interval contains no column: membership in the left range is unchanged by the collapse as soon as
    the right range is not empty (`pixelWise`, `rawCensus`, `rawZncc` read the interval only through this test) -/
theorem pointInterval_mem_p (nxL nxR k : Int) (sp : Nat) (hs : 0 < sp) (c : Int)
    (hq : (MC.pointInterval nxL nxR k sp).q0 < (MC.pointInterval nxL nxR k sp).q1) :
    ((Generated.KernelsGlue.pointInterval nxL nxR ((k : ℚ) / (sp : ℚ))).1 ≤ c
        ∧ c < (Generated.KernelsGlue.pointInterval nxL nxR ((k : ℚ) / (sp : ℚ))).2.1)
      ↔ ((MC.pointInterval nxL nxR k sp).p0 ≤ c ∧ c < (MC.pointInterval nxL nxR k sp).p1) := by
  rw [pointInterval_eq nxL nxR k sp hs]
  unfold collapse encPQ
  split_ifs with h
  · simp only; omega
  · simp only

/-- … and on such a column the facing right column is the model's -/
theorem pointInterval_q_of_p (nxL nxR k : Int) (sp : Nat) (hs : 0 < sp) (c : Int)
    (hq : (MC.pointInterval nxL nxR k sp).q0 < (MC.pointInterval nxL nxR k sp).q1)
    (hc : (MC.pointInterval nxL nxR k sp).p0 ≤ c ∧ c < (MC.pointInterval nxL nxR k sp).p1) :
    (Generated.KernelsGlue.pointInterval nxL nxR ((k : ℚ) / (sp : ℚ))).2.2.1
        + (c - (Generated.KernelsGlue.pointInterval nxL nxR ((k : ℚ) / (sp : ℚ))).1)
      = (MC.pointInterval nxL nxR k sp).q0 + (c - (MC.pointInterval nxL nxR k sp).p0) := by
  rw [pointInterval_eq_nonempty nxL nxR k sp hs (by omega) hq]
  rfl

/-! ### the sample index of `cv_masked`: `dsp = int((disp - dmin) * self._subpix)` -/

theorem rtrunc_intCast (z : Int) : rtrunc (z : ℚ) = z := by
  unfold rtrunc
  split_ifs
  · exact Rat.ceil_intCast z
  · exact Rat.floor_intCast z

/-- **the translated sample index is the model's** (`cvMaskedLoop`: `dsp = (k - gmin * sp).toNat`): for the disparity
    `k / sp` and an integer first disparity `gmin` the product is the integer `k - gmin * sp` exactly, which `int()`
    leaves alone (no rounding is involved on the dyadic disparities of a cost volume) -/
theorem dspIndex_eq (k gmin : Int) (sp : Nat) (hs : 0 < sp) :
    Generated.KernelsGlue.dspIndex ((k : ℚ) / (sp : ℚ)) (gmin : ℚ) (sp : Int) = k - gmin * sp := by
  have hs' : (sp : ℚ) ≠ 0 := by exact_mod_cast (Nat.pos_iff_ne_zero.mp hs)
  have h : ((k : ℚ) / (sp : ℚ) - (gmin : ℚ)) * (((sp : Int) : ℚ)) = ((k - gmin * sp : Int) : ℚ) := by
    push_cast; field_simp
  unfold Generated.KernelsGlue.dspIndex
  rw [h, rtrunc_intCast]

theorem dspIndex_toNat (k gmin : Int) (sp : Nat) (hs : 0 < sp) (h : gmin * sp ≤ k) :
    Generated.KernelsGlue.dspIndex ((k : ℚ) / (sp : ℚ)) (gmin : ℚ) (sp : Int) = ((k - gmin * sp).toNat : Int) := by
  rw [dspIndex_eq k gmin sp hs]; omega

/-- non-vacuity: half-pixel disparities of both signs, different widths, a disparity past the image -/
example : Generated.KernelsGlue.pointInterval 5 6 ((3 : ℚ) / 2) = (0, 3, 1, 6) := by decide +kernel
example : encPQ (collapse (MC.pointInterval 5 6 3 2)) = (0, 3, 1, 6) := by decide
example : encPQ (collapse (MC.pointInterval 6 5 (-3) 2)) = (2, 6, 0, 4) := by decide
example : encPQ (collapse (MC.pointInterval 4 4 7 1)) = (0, 0, 0, 0) := by decide
example : encPQ (MC.pointInterval 4 4 7 1) = (0, -3, 7, 4) := by decide

end Pandora.C02Kernels
