/-
  C09, second half — pipeline-level composition.

  "In a single-scale run every valid pixel's final disparity lies within the requested global interval whatever
  refinement, filtering or occlusion/mismatch filling followed, and within its own per-pixel interval right after
  the disparity and refinement steps."

  The steps are the models of C06 (refinement), C10 (filters), C07 (cross-checking), C14 (filling) and the
  winner-takes-all of C09, composed in `Model/PipelineBound.lean` over one map representation (`Interp.DMap`).
  The preservation lemmas live in `Lemmas/Pipe*.lean`; each is derived from the theorem that carries the step's own
  property, no step algorithm is re-proved:

    refinement       `refineStep_bounded`, `refineStep_oneFlag`      from `C06.refinePixel_spec` (+ `mapRes_all2`, `sample_facts`)
    median           `medianStep_bounded`                            from `C10.medianFilterDisparity_spec`
    bilateral        `bilateralStep_bounded`                         from `C10.bilateralFilterDisparity_spec`, `bilateralFilter_eq_direct`
    cross-checking   `crossCheckStep_bounded`, `…_oneFlag`, `…_borderClean`   from `C07.check_pix`, `check_disp_unchanged`,
                                                                     `ccPixel_invalid`, `ccPixel_never_both`
    filling          `interpolate_bounded`, `interpolate_oneFlag`    from `C14.outcome`, `C14.betweenValid_iff`
    disparity        `wtaMap_in_pixel_interval`, `wtaMap_refineReady` from `C09.wta_in_pixel_interval`, `outside_pixel_interval_nan`

  This file: the invariant, the induction over the tail, the per-pixel statements, the tie to the documented
  automaton, the shape that is excluded (refinement of a map that is no longer on the sample grid, finding C06-F5)
  with its counterexample, and non-vacuity examples.
-/
import PandoraModel.Lemmas.PipeFilter
import PandoraModel.Lemmas.PipeInterp
import PandoraModel.Lemmas.PipeRefine
import PandoraModel.Lemmas.PipeWta
import PandoraModel.Generated.Interp
import PandoraModel.Generated.Blocks

namespace Pandora.C09P
open Pandora Pandora.Pipeline

/-! ## 1. One step -/

/-- what every step of the tail keeps: valid pixels carry a number of `[lo, hi]`, and no flag word has both
    bit 8 and bit 9 (needed by the filling step, established by the cross-checking) -/
def Inv (lo hi : Rat) (m : DMap) : Prop := BoundedValid lo hi m ∧ OneFlag m

theorem runStep_dims (s : Step) (m m' : DMap) (h : runStep s m = some m') : m'.rows = m.rows ∧ m'.cols = m.cols := by
  cases s with
  | refine D => exact refineStep_dims D m m' h
  | median s fs => simp only [runStep, Option.some.injEq] at h; subst h; exact ⟨rfl, rfl⟩
  | bilateral s wts w => simp only [runStep, Option.some.injEq] at h; subst h; exact ⟨rfl, rfl⟩
  | validation V P other fill =>
    simp only [runStep, Option.some.injEq] at h; subst h
    exact ⟨validationStep_rows V P other fill m, validationStep_cols V P other fill m⟩
  | multiscale => simp only [runStep, Option.some.injEq] at h; subst h; exact ⟨rfl, rfl⟩

/-- **Every step preserves the invariant** (refinement: from the hypothesis on the map it receives). -/
theorem runStep_inv (lo hi : Rat) (s : Step) (m m' : DMap) (hp : s.paramsOK m) (he : s.entryOK lo hi m)
    (hi' : Inv lo hi m) (h : runStep s m = some m') : Inv lo hi m' := by
  obtain ⟨hb, ho⟩ := hi'
  cases s with
  | refine D =>
    obtain ⟨hready, hlo, hhi⟩ := he
    refine ⟨?_, refineStep_oneFlag D m m' hready h ho⟩
    exact BoundedBy.mono (refineStep_bounded_global D m m' hready h) (fun _ _ _ _ => hlo) (fun _ _ _ _ => hhi)
  | median s fs =>
    simp only [runStep, Option.some.injEq] at h; subst h
    exact ⟨medianStep_bounded s fs lo hi m hp hb, ho⟩
  | bilateral s wts w =>
    simp only [runStep, Option.some.injEq] at h; subst h
    exact ⟨bilateralStep_bounded s wts w lo hi m hp hb, ho⟩
  | validation V P other fill =>
    simp only [runStep, Option.some.injEq] at h; subst h
    exact validationStep_inv V P other fill lo hi m hp hb ho
  | multiscale =>
    simp only [runStep, Option.some.injEq] at h; subst h
    exact ⟨hb, ho⟩

/-! ## 2. The tail: induction on the list of steps -/

/-- **Composition.**  Along every legal tail the invariant is kept. -/
theorem runSteps_inv (lo hi : Rat) : ∀ (steps : List Step) (m m' : DMap), Legal lo hi steps m → Inv lo hi m →
    runSteps steps m = some m' → Inv lo hi m' := by
  intro steps
  induction steps with
  | nil =>
    intro m m' _ hinv h
    simp only [runSteps, Option.some.injEq] at h
    subst h; exact hinv
  | cons s ss ih =>
    intro m m' hl hinv h
    obtain ⟨hp, he, hnext⟩ := hl
    simp only [runSteps] at h
    cases hs : runStep s m with
    | none => rw [hs] at h; cases h
    | some m1 =>
      rw [hs] at h
      exact ih m1 m' (hnext m1 hs) (runStep_inv lo hi s m m1 hp he hinv hs) h

/--
  **C09, final disparity — partial.**  Whatever tail of refinement, median / bilateral filter, validation
  (cross-checking, optional mc-cnn / sgm filling) and (last-scale) multiscale steps follows the disparity step — any
  order, any length —, if the map the disparity step left has every valid pixel in `[lo, hi]`, then so has the final
  map, **provided** every step has sound parameters and every refinement step receives a map that is still on the
  sample grid of its cost volume with every valid pixel inside its own interval (`Legal`: `refineReadyB`, evaluated
  on the real intermediate maps by the check).

  Full-strength statement (false of the code: `filter_then_refine_counterexample`, finding C06-F5): the same for
  every tail with sound parameters, without the hypothesis on the maps entering refinement.
-/
theorem final_in_global_interval_partial (lo hi : Rat) (steps : List Step) (m m' : DMap)
    (hlegal : Legal lo hi steps m) (hb : BoundedValid lo hi m) (ho : OneFlag m) (hrun : runSteps steps m = some m') :
    BoundedValid lo hi m' :=
  (runSteps_inv lo hi steps m m' hlegal ⟨hb, ho⟩ hrun).1

/-! ## 3. A purely syntactic sufficient condition: refinement first -/

theorem paramsOK_congr (s : Step) (m m' : DMap) (hr : m'.rows = m.rows) (hc : m'.cols = m.cols) (h : s.paramsOK m) :
    s.paramsOK m' := by
  cases s with
  | refine D => trivial
  | median s fs => simp only [Step.paramsOK] at h ⊢; rw [hr, hc]; exact h
  | bilateral s wts w => simp only [Step.paramsOK] at h ⊢; rw [hr, hc]; exact h
  | validation V P other fill =>
    simp only [Step.paramsOK, otherShapeOK] at h ⊢; rw [hr]; exact h
  | multiscale => trivial

/-- a tail without refinement is legal as soon as the parameters of its steps are sound for the size of the map -/
theorem legal_of_noRefine (lo hi : Rat) : ∀ (steps : List Step) (m : DMap),
    (∀ s ∈ steps, s.isRefine = false ∧ s.paramsOK m) → Legal lo hi steps m := by
  intro steps
  induction steps with
  | nil => intro m _; trivial
  | cons s ss ih =>
    intro m hall
    obtain ⟨hnr, hp⟩ := hall s (List.mem_cons_self ..)
    refine ⟨hp, ?_, ?_⟩
    · cases s with
      | refine D => simp [Step.isRefine] at hnr
      | _ => trivial
    · intro m1 hs
      obtain ⟨hr, hc⟩ := runStep_dims s m m1 hs
      apply ih
      intro s' hs'
      obtain ⟨hnr', hp'⟩ := hall s' (List.mem_cons_of_mem _ hs')
      exact ⟨hnr', paramsOK_congr s' m m1 hr hc hp'⟩

/-- refinement right after the disparity step, then any tail without refinement -/
theorem legal_refine_first (lo hi : Rat) (D : RefineData) (tail : List Step) (m : DMap)
    (hready : refineReadyB D m = true) (hlo : lo ≤ D.P.dmin) (hhi : D.P.dmax ≤ hi)
    (htail : ∀ s ∈ tail, s.isRefine = false ∧ s.paramsOK m) : Legal lo hi (.refine D :: tail) m := by
  refine ⟨trivial, ⟨hready, hlo, hhi⟩, ?_⟩
  intro m1 hs
  obtain ⟨hr, hc⟩ := runStep_dims _ m m1 hs
  apply legal_of_noRefine
  intro s hs'
  obtain ⟨hnr, hp⟩ := htail s hs'
  exact ⟨hnr, paramsOK_congr s m m1 hr hc hp⟩

/-! ## 4. The whole single-scale run: disparity step, then the tail -/

section Run
variable (x : MC.Input) (better : MC.Cell → MC.Cell → Bool) (flags : Nat → Nat → Nat) (invalid : Val)

/-- the requested global interval -/
def gminQ : Rat := ((MC.gridMin x.dminG x.L.rows x.L.cols : Int) : Rat)
def gmaxQ : Rat := ((MC.gridMax x.dmaxG x.L.rows x.L.cols : Int) : Rat)

/-- **Right after the disparity step**: every valid pixel lies in its own interval. -/
theorem after_disparity_in_pixel_interval (hsp : 0 < x.sp) (hflags : FlagsCoverAllNan x better flags) :
    BoundedBy (fun r c => ((x.dminG (r : Int) (c : Int) : Int) : Rat)) (fun r c => ((x.dmaxG (r : Int) (c : Int) : Int) : Rat))
      (wtaMap x better flags invalid) :=
  wtaMap_in_pixel_interval x better flags invalid hsp hflags

/-- **Right after (disparity; refinement)**: every valid pixel lies in its own interval — for both methods, both
    kinds of measure, any reading `val` of the cost cells as floats that keeps NaN; when the step returns
    (`quadratic` raises on three equal costs, C06-F2). -/
theorem after_refinement_in_pixel_interval (val : MC.Cell → Val) (method : Refinement.Method) (isMax : Bool)
    (variant : Refinement.Variant) (m' : DMap)
    (hsp : 0 < x.sp) (hg : MC.gridMin x.dminG x.L.rows x.L.cols ≤ MC.gridMax x.dmaxG x.L.rows x.L.cols)
    (hval : val .nan = .nan) (hflags : FlagsCoverAllNan x better flags)
    (hbit3 : ∀ r c, r < x.L.rows → c < x.L.cols → variant.fixOr = true ∨ Refinement.bitAt (flags r c) 3 = 0)
    (hrun : refineStep (refineDataOf x val method isMax variant) (wtaMap x better flags invalid) = some m') :
    BoundedBy (fun r c => ((x.dminG (r : Int) (c : Int) : Int) : Rat)) (fun r c => ((x.dmaxG (r : Int) (c : Int) : Int) : Rat)) m' :=
  refineStep_bounded _ _ m'
    (wtaMap_refineReady x better flags invalid val method isMax variant hsp hg hval hflags hbit3) hrun

/--
  **C09, final disparity of a single-scale run — partial.**  `matching_cost … disparity` (the C02 cost volume and the
  C09 winner-takes-all), then any legal tail: every valid pixel of the final map lies in the requested global
  interval `[gmin, gmax]`.  `Legal` is the proviso of `final_in_global_interval_partial`.
-/
theorem single_scale_final_in_global_partial (steps : List Step) (m' : DMap)
    (hsp : 0 < x.sp) (hflags : FlagsCoverAllNan x better flags)
    (hone : OneFlag (wtaMap x better flags invalid))
    (hlegal : Legal (gminQ x) (gmaxQ x) steps (wtaMap x better flags invalid))
    (hrun : runSteps steps (wtaMap x better flags invalid) = some m') :
    BoundedValid (gminQ x) (gmaxQ x) m' :=
  final_in_global_interval_partial _ _ steps _ m' hlegal
    (wtaMap_in_global_interval x better flags invalid hsp hflags) hone hrun

/--
  **The same with hypotheses on the inputs only**: refinement (either method) right after the disparity step — or no
  refinement at all —, then filters and validations in any order and number: no proviso on intermediate maps.
-/
theorem single_scale_refine_first (val : MC.Cell → Val) (method : Refinement.Method) (isMax : Bool)
    (variant : Refinement.Variant) (tail : List Step) (m' : DMap)
    (hsp : 0 < x.sp) (hg : MC.gridMin x.dminG x.L.rows x.L.cols ≤ MC.gridMax x.dmaxG x.L.rows x.L.cols)
    (hval : val .nan = .nan) (hflags : FlagsCoverAllNan x better flags)
    (hbit3 : ∀ r c, r < x.L.rows → c < x.L.cols → variant.fixOr = true ∨ Refinement.bitAt (flags r c) 3 = 0)
    (hone : OneFlag (wtaMap x better flags invalid))
    (htail : ∀ s ∈ tail, s.isRefine = false ∧ s.paramsOK (wtaMap x better flags invalid))
    (hrun : runSteps (.refine (refineDataOf x val method isMax variant) :: tail) (wtaMap x better flags invalid) = some m') :
    BoundedValid (gminQ x) (gmaxQ x) m' := by
  apply single_scale_final_in_global_partial x better flags invalid _ m' hsp hflags hone _ hrun
  exact legal_refine_first _ _ _ tail _
    (wtaMap_refineReady x better flags invalid val method isMax variant hsp hg hval hflags hbit3)
    (le_refl _) (le_refl _) htail

theorem single_scale_no_refinement (tail : List Step) (m' : DMap)
    (hsp : 0 < x.sp) (hflags : FlagsCoverAllNan x better flags)
    (hone : OneFlag (wtaMap x better flags invalid))
    (htail : ∀ s ∈ tail, s.isRefine = false ∧ s.paramsOK (wtaMap x better flags invalid))
    (hrun : runSteps tail (wtaMap x better flags invalid) = some m') :
    BoundedValid (gminQ x) (gmaxQ x) m' :=
  single_scale_final_in_global_partial x better flags invalid tail m' hsp hflags hone
    (legal_of_noRefine _ _ tail _ htail) hrun

end Run

/-! ## 5. The tails are those of the documented automaton -/

/-- every tail is accepted by the documented machine from `disp_map` … -/
theorem tail_accepted : ∀ steps : List Step, acceptedFrom .dispMap (steps.map Step.kind) = true := by
  intro steps
  induction steps with
  | nil => rfl
  | cons s ss ih =>
    cases s <;> simpa [acceptedFrom, Step.kind, Machine.documented] using ih

/-- … and every kind the machine accepts in `disp_map` is the kind of a step, and leads back to `disp_map` -/
theorem tail_complete (k : Machine.Kind) (st : Machine.St) (h : Machine.documented .dispMap k = some st) :
    st = .dispMap ∧ (k = .filter ∨ k = .refinement ∨ k = .validation ∨ k = .multiscale) := by
  cases k <;> simp [Machine.documented] at h <;> simp [h]

/-- the filling kernels of the source as it is now are the guarded `|=` ones the validation step asks for
    (`Generated/Interp.lean`, regenerated on every run) -/
theorem source_fill_ok : C14.sourceVariant.guard = true ∧ C14.sourceVariant.op = .or := by decide

/-! ## 6. The excluded shape: refinement of a map that is no longer on the sample grid (C06-F5) -/

namespace Counterexample

/-- 3 × 3 valid pixels carrying samples of `[-1, 1]` (step 1/2): 1 everywhere, 1/2 in the centre -/
def m0 : DMap :=
  { rows := 3, cols := 3, disp := fun r c => if r = 1 ∧ c = 1 then .num (1 / 2) else .num 1, flag := fun _ _ => 0 }

/-- `vfit`, dissimilarity measure, subpix 2, cost volume over `[-1, 1]`, the cost row of C06's
    `offgrid_past_end_counterexample` at every pixel, every pixel interval = the global one; `v`: the text of the
    refinement step (as it was / with the three repairs of C06 applied, which is the source today) -/
def D (v : Refinement.Variant) : RefineData :=
  { P := { variant := v, method := .vfit, isMax := false, subpix := 2, dmin := -1, dmax := 1 },
    costs := fun _ _ => [.num 9, .num 9, .num 5, .num 1, .num 1], pmin := fun _ _ => -1, pmax := fun _ _ => 1 }

def repaired : Refinement.Variant := { fixFlat := true, fixOr := true, fixEnds := true }

def W : Filter.Weights := { spatial := fun _ _ => 1, range := fun _ => 1 }

/-- a bilateral filter, then refinement: a tail the machine accepts -/
def steps (v : Refinement.Variant) : List Step := [.bilateral (Generated.Blocks.bilateral 3) W 3, .refine (D v)]

theorem weightsOK : WeightsOK W 3 := ⟨fun _ _ => by simp [W], fun _ => by simp [W], by simp [W]⟩

theorem run_values (v : Refinement.Variant) (hv : v = {} ∨ v = repaired) :
    (runSteps (steps v) m0).map (fun m' => (m'.rows, m'.cols, m'.flag 1 1, m'.disp 1 1)) = some (3, 3, 0, .num (43 / 36))
    ∧ refineReadyB (D v) m0 = true
    ∧ refineReadyB (D v) (bilateralStep (Generated.Blocks.bilateral 3) W 3 m0) = false := by
  rcases hv with rfl | rfl <;> decide +kernel

/--
  **The full-strength composition statement is false** (finding C06-F5 at pipeline level), of the refinement step as
  it was and as it is with the three repairs of C06.  The tail `filter; refinement` is accepted by the machine, the
  parameters of both steps are sound, the map the disparity step left is on the sample grid, ready for refinement and
  inside `[-1, 1]`; the filter keeps it inside `[-1, 1]` (centre: 17/18) but off the grid, so that the map entering
  refinement is not `refineReadyB`; refinement then moves the centre pixel — still flagged valid — to
  43/36 > 1 = `dmax`.
-/
theorem filter_then_refine_counterexample (v : Refinement.Variant) (hv : v = {} ∨ v = repaired) :
    acceptedFrom .dispMap ((steps v).map Step.kind) = true
    ∧ (∀ s ∈ steps v, s.paramsOK m0)
    ∧ BoundedValid (-1) 1 m0 ∧ OneFlag m0 ∧ refineReadyB (D v) m0 = true
    ∧ refineReadyB (D v) (bilateralStep (Generated.Blocks.bilateral 3) W 3 m0) = false
    ∧ ∃ m', runSteps (steps v) m0 = some m' ∧ Flags.isInvalid (m'.flag 1 1) = false ∧ m'.disp 1 1 = .num (43 / 36)
        ∧ ¬ BoundedValid (-1) 1 m' := by
  obtain ⟨hrun, hready, hnot⟩ := run_values v hv
  refine ⟨by simp [steps, acceptedFrom, Step.kind, Machine.documented], ?_,
    (boundedValidB_iff _ _ _).1 (by decide +kernel), (oneFlag_iff _).1 (by decide +kernel), hready, hnot, ?_⟩
  · intro s hs
    simp only [steps, List.mem_cons, List.not_mem_nil, or_false] at hs
    rcases hs with rfl | rfl
    · exact ⟨rfl, rfl, by decide, by decide, by decide, weightsOK⟩
    · trivial
  · cases hm : runSteps (steps v) m0 with
    | none => rw [hm] at hrun; cases hrun
    | some m' =>
      rw [hm] at hrun
      simp only [Option.map_some, Option.some.injEq, Prod.mk.injEq] at hrun
      obtain ⟨hrows, hcols, hflag, hdisp⟩ := hrun
      refine ⟨m', rfl, by rw [hflag]; decide, hdisp, ?_⟩
      intro hb
      obtain ⟨q, hq, -, hle⟩ := hb 1 1 (by omega) (by omega) (by rw [hflag]; decide)
      rw [hdisp] at hq
      cases hq
      norm_num at hle

end Counterexample

/-! ## 7. Non-vacuity: concrete non-trivial inputs satisfy the hypotheses -/

namespace Example

def P : Refinement.Params := { method := .vfit, isMax := false, subpix := 2, dmin := -1, dmax := 1 }

/-- 3 × 4 map as winner-takes-all leaves it: samples of `[-1, 1]` at step 1/2; pixel (0,3) invalid (bit 6) with NaN;
    pixel (1,0) carries information bit 2; pixel (2,0) has the narrower interval `[0, 1]` -/
def m0 : DMap :=
  { rows := 3, cols := 4,
    disp := fun r c =>
      if r = 0 ∧ c = 3 then .nan else if r = 2 ∧ c = 0 then .num (1 / 2)
      else if (r + c) % 3 = 0 then .num 0 else if (r + c) % 3 = 1 then .num (-1 / 2) else .num (1 / 2),
    flag := fun r c => if r = 0 ∧ c = 3 then 64 else if r = 1 ∧ c = 0 then 4 else 0 }

def D : RefineData :=
  { P := P,
    costs := fun r c =>
      if r = 2 ∧ c = 0 then [.nan, .nan, .num 6, .num 2, .num 3]
      else if (r + c) % 3 = 0 then [.num 7, .num 4, .num 1, .num 2, .num 5]
      else if (r + c) % 3 = 1 then [.num 5, .num 1, .num 3, .num 6, .num 8]
      else [.num 9, .num 7, .num 4, .num 2, .num 3],
    pmin := fun r c => if r = 2 ∧ c = 0 then 0 else -1,
    pmax := fun _ _ => 1 }

def W : Filter.Weights :=
  { spatial := fun a b => if a = 1 ∧ b = 1 then 2 else 1, range := fun d => if d = 0 then 1 else 1 / 2 }

theorem weightsOK : WeightsOK W 3 := by
  refine ⟨fun a b => ?_, fun d => ?_, ?_⟩
  · simp only [W]; split <;> norm_num
  · simp only [W]; split <;> norm_num
  · simp [W]

def other : Grid Val :=
  [[.num 0, .num 1, .num 0, .num 0], [.num (1 / 2), .num 0, .num (-1 / 2), .num 2], [.num 0, .num 0, .nan, .num 0]]

def cc : CrossCheck.Params := { threshold := 1, dmin := -1, dmax := 1, offset := 0 }

/-- refinement, median, validation with mc-cnn filling, bilateral, validation with sgm filling, multiscale -/
def tail : List Step :=
  [.median (Generated.Blocks.median 3) 3,
   .validation .asIs cc other (some ⟨C14.sourceVariant, .mccnn⟩),
   .bilateral (Generated.Blocks.bilateral 3) W 3,
   .validation .asIs cc other (some ⟨C14.sourceVariant, .sgm⟩),
   .multiscale]

theorem tail_ok : ∀ s ∈ tail, s.isRefine = false ∧ s.paramsOK m0 := by
  intro s hs
  simp only [tail, List.mem_cons, List.not_mem_nil, or_false] at hs
  rcases hs with rfl | rfl | rfl | rfl | rfl
  · exact ⟨rfl, rfl, rfl, by decide, by decide, by decide⟩
  · exact ⟨rfl, by decide, fun f hf => by cases hf; exact source_fill_ok⟩
  · exact ⟨rfl, rfl, rfl, by decide, by decide, by decide, weightsOK⟩
  · exact ⟨rfl, by decide, fun f hf => by cases hf; exact source_fill_ok⟩
  · exact ⟨rfl, trivial⟩

/-- the hypotheses of `final_in_global_interval_partial` hold of this input … -/
theorem legal : Legal (-1) 1 (.refine D :: tail) m0 :=
  legal_refine_first (-1) 1 D tail m0 (by decide +kernel) (by norm_num [D, P]) (by norm_num [D, P]) tail_ok

example : BoundedValid (-1) 1 m0 := (boundedValidB_iff _ _ _).1 (by decide +kernel)
example : OneFlag m0 := (oneFlag_iff _).1 (by decide +kernel)

/-- … the run returns, pixels are refined off the grid (1/6), occlusions are raised and filled (flag 16), … -/
example : (runSteps (.refine D :: tail) m0).map (fun m' => (m'.disp 0 0, m'.flag 1 3, m'.disp 1 3, m'.disp 1 1))
    = some (.num (1 / 6), 16, .num (5 / 8), .num (41 / 256)) := by decide +kernel

/-- … and the theorem applies -/
example : ∀ m', runSteps (.refine D :: tail) m0 = some m' → BoundedValid (-1) 1 m' := fun m' h =>
  final_in_global_interval_partial (-1) 1 _ m0 m' legal ((boundedValidB_iff _ _ _).1 (by decide +kernel))
    ((oneFlag_iff _).1 (by decide +kernel)) h

/-! a whole run: matching cost (sad, window 1, subpix 2, per-pixel grids, one nodata pixel), winner-takes-all,
    refinement, median filter, validation with filling -/

def noMask : MC.Mask := { present := false, code := fun _ _ => 0, valid := 0, nodata := 1 }
def lMask : MC.Mask := { present := true, code := fun r c => if r = 1 ∧ c = 2 then 1 else 0, valid := 0, nodata := 1 }

def x : MC.Input where
  meas := .sad
  w := 1
  sp := 2
  L := { rows := 3, cols := 4, px := fun r c => ((3 * c + r * r : Int) : Rat) }
  R := { rows := 3, cols := 4, px := fun r c => ((3 * c + r * r + 2 : Int) : Rat) }
  mL := lMask
  mR := noMask
  dminG := fun _ c => if c = 0 then 0 else -1
  dmaxG := fun _ _ => 1

/-- the flag words of the matching-cost step: nodata pixel (bit 0), incomplete range in the last column (bit 2) -/
def flags : Nat → Nat → Nat := fun r c => if r = 1 ∧ c = 2 then 1 else if c = 3 then 4 else 0

def valOf : MC.Cell → Val
  | .num q => .num q
  | _ => .nan

def runTail : List Step :=
  [.median (Generated.Blocks.median 3) 3, .validation .asIs cc other (some ⟨C14.sourceVariant, .sgm⟩)]

theorem gmin_eq : MC.gridMin x.dminG x.L.rows x.L.cols = -1 := by decide +kernel
theorem gmax_eq : MC.gridMax x.dmaxG x.L.rows x.L.cols = 1 := by decide +kernel

example : ∀ m', runSteps (.refine (refineDataOf x valOf .vfit false {}) :: runTail) (wtaMap x IntervalWta.numLt flags .nan) = some m' →
    BoundedValid (gminQ x) (gmaxQ x) m' := fun m' h =>
  single_scale_refine_first x IntervalWta.numLt flags .nan valOf .vfit false {} runTail m' (by decide)
    (by rw [gmin_eq, gmax_eq]; decide) rfl (flagsCover_of_B _ _ _ (by decide +kernel))
    (fun r c _ _ => Or.inr (by simp only [flags]; split <;> [rfl; (split <;> rfl)]))
    ((oneFlag_iff _).1 (by decide +kernel))
    (by
      intro s hs
      simp only [runTail, List.mem_cons, List.not_mem_nil, or_false] at hs
      rcases hs with rfl | rfl
      · exact ⟨rfl, rfl, rfl, by decide, by decide, by decide⟩
      · exact ⟨rfl, by decide, fun f hf => by cases hf; exact source_fill_ok⟩)
    h

/-- the run returns; the winner of pixel (0,1) (sample -1/2) is refined to -2/3; the nodata pixel stays invalid -/
example : (runSteps (.refine (refineDataOf x valOf .vfit false {}) :: runTail) (wtaMap x IntervalWta.numLt flags .nan)).map
    (fun m' => (m'.disp 0 1, m'.flag 1 2)) = some (.num (-2 / 3), 1) := by decide +kernel

end Example

end Pandora.C09P
