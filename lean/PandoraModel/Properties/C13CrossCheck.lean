/-
  C13 — locality of cross-checking (model of C07: `CrossCheck.ccPixel`, `CrossCheck.check`).

  A pixel `(r, c)` of `disparity_checking(left, right)` reads
    * its own left disparity and flag,
    * the right disparity at `c + rint(dL)` (its correspondent) and at `c + d` for every `d` of the
      interval `[int dmin, int dmax]` (the mismatch search), "outside the image" included,
    * and, when `offset_row_col > 0`, whether it is closer than the offset to an image edge (`mask_border`).
  When the rounded left disparity of every valid pixel lies in the interval (hypothesis `InInterval`:
  what the disparity step guarantees, C09), the correspondent is one of the `c + d`, and the step is a
  *stencil* on the pixel's own row, columns `c + dmin … c + dmax` (plus the four `mask_border` probes at
  distance `offset`).  Hence: locality with that cone, no dependence on absolute position, crop = whole.
-/
import PandoraModel.Properties.C13Util
import PandoraModel.Properties.C07

namespace Pandora.C13
open Pandora Pandora.Locality Pandora.CrossCheck

/-! ### the per-pixel function written relative to the pixel -/

/-- `np.rint(disp_right(c + d)) == -d`, the right row being given relative to the pixel
    (`rd d` = the right disparity at column `c + d`, `none` outside the image) -/
def matchRel (rd : Int → Option Val) (d : Int) : Bool :=
  match rd d with
  | some (.num v) => rint v == -d
  | _ => false

def compRel (rd : Int → Option Val) (range : List Int) : Nat :=
  let n := (range.filter (matchRel rd)).length
  if n > 1 then 1 else n

def ccOutsideRel (V : Variant) (P : Params) (rd : Int → Option Val) (flag : Nat) : PixOut :=
  match V with
  | .asIs => ⟨flag, .nan⟩
  | .orFix => ⟨flag + Flags.occlusion, .nan⟩
  | .ruleFix =>
    let k := compRel rd (arange P.dmin P.dmax)
    ⟨flag + Flags.occlusion + Flags.mismatch * k - Flags.occlusion * k, .nan⟩

/-- `ccPixel` with the right row given relative to the pixel -/
def ccPixelRel (V : Variant) (P : Params) (rd : Int → Option Val) (dl : Val) (flag : Nat) : PixOut :=
  if Flags.isInvalid flag then ⟨flag, .nan⟩
  else
    match dl with
    | .nan => ccOutsideRel V P rd flag
    | .num v =>
      match rd (rint v) with
      | none => ccOutsideRel V P rd flag
      | some dr =>
        let conf := absSum (nanToInf dr) (nanToInf dl)
        if conf.gt P.threshold then
          let k := compRel rd (arange P.dmin P.dmax)
          ⟨flag + Flags.occlusion + Flags.mismatch * k - Flags.occlusion * k, conf.toConf⟩
        else ⟨flag, conf.toConf⟩

theorem matchAt_eq_rel (ncol : Nat) (dR : List Val) (c : Nat) (d : Int) :
    matchAt ncol dR c d = matchRel (fun d => dispRightAt ncol dR ((c : Int) + d)) d := rfl

theorem comp_eq_rel (ncol : Nat) (dR : List Val) (c : Nat) (range : List Int) :
    comp ncol dR c range = compRel (fun d => dispRightAt ncol dR ((c : Int) + d)) range := rfl

theorem ccOutside_eq_rel (V : Variant) (P : Params) (ncol : Nat) (dR : List Val) (c flag : Nat) (q : Option Int) :
    ccOutside V P ncol dR c flag q = ccOutsideRel V P (fun d => dispRightAt ncol dR ((c : Int) + d)) flag := by
  cases V with
  | asIs => simp [ccOutside, ccOutsideRel, C07.outside_never]
  | orFix => rfl
  | ruleFix => rfl

/-- **The per-pixel function of the model reads the right row relative to the pixel.** -/
theorem ccPixel_eq_rel (V : Variant) (P : Params) (ncol : Nat) (dL dR : List Val) (c flag : Nat) :
    ccPixel V P ncol dL dR c flag
      = ccPixelRel V P (fun d => dispRightAt ncol dR ((c : Int) + d)) (dL.getD c .nan) flag := by
  unfold ccPixel ccPixelRel
  by_cases hinv : Flags.isInvalid flag = true
  · simp [hinv]
  · simp only [hinv, Bool.false_eq_true, if_false]
    cases hdl : dL.getD c .nan with
    | nan =>
      simp only [colRight, insideRight, Bool.false_eq_true, if_false]
      exact ccOutside_eq_rel V P ncol dR c flag none
    | num v =>
      simp only [colRight, insideRight]
      by_cases hin : (0 : Int) ≤ (c : Int) + rint v ∧ (c : Int) + rint v < (ncol : Int)
      · have h1 : (decide ((0 : Int) ≤ (c : Int) + rint v) && decide ((c : Int) + rint v < (ncol : Int))) = true := by
          simp [hin.1, hin.2]
        have h2 : dispRightAt ncol dR ((c : Int) + rint v) = some (dR.getD ((c : Int) + rint v).toNat .nan) := by
          unfold dispRightAt; rw [if_pos hin]
        simp only [h1, if_true, h2]
        unfold ccInside
        simp only [hdl, ← comp_eq_rel]
      · have h1 : (decide ((0 : Int) ≤ (c : Int) + rint v) && decide ((c : Int) + rint v < (ncol : Int))) = false := by
          by_contra hcon
          simp only [Bool.not_eq_false, Bool.and_eq_true, decide_eq_true_eq] at hcon
          exact hin hcon
        have h2 : dispRightAt ncol dR ((c : Int) + rint v) = none := by
          unfold dispRightAt; rw [if_neg hin]
        simp only [h1, Bool.false_eq_true, if_false, h2]
        exact ccOutside_eq_rel V P ncol dR c flag _

/-- the rounded left disparity lies in the interval of the search (or there is nothing to look up) -/
def DispInInterval (P : Params) (dl : Val) (flag : Nat) : Prop :=
  Flags.isInvalid flag = true ∨ dl = .nan ∨ ∃ v, dl = .num v ∧ P.dmin ≤ rint v ∧ rint v ≤ P.dmax

theorem compRel_congr (rd rd' : Int → Option Val) (lo hi : Int) (h : ∀ d, lo ≤ d → d ≤ hi → rd d = rd' d) :
    compRel rd (arange lo hi) = compRel rd' (arange lo hi) := by
  unfold compRel
  have : (arange lo hi).filter (matchRel rd) = (arange lo hi).filter (matchRel rd') := by
    apply List.filter_congr
    intro d hd
    have := (C07.mem_arange lo hi d).1 hd
    unfold matchRel
    rw [h d this.1 this.2]
  rw [this]

/-- **One pixel only reads the right row inside the interval.** -/
theorem ccPixelRel_congr (V : Variant) (P : Params) (rd rd' : Int → Option Val) (dl : Val) (flag : Nat)
    (h : ∀ d, P.dmin ≤ d → d ≤ P.dmax → rd d = rd' d) (hin : DispInInterval P dl flag) :
    ccPixelRel V P rd dl flag = ccPixelRel V P rd' dl flag := by
  have hc := compRel_congr rd rd' P.dmin P.dmax h
  have ho : ccOutsideRel V P rd flag = ccOutsideRel V P rd' flag := by
    cases V <;> simp only [ccOutsideRel, hc]
  unfold ccPixelRel
  rcases hin with hinv | hnan | ⟨v, hv, h1, h2⟩
  · simp [hinv]
  · subst hnan; simp only [ho]
  · subst hv
    simp only [ho, hc, h (rint v) h1 h2]

/-! ### the step on partial images -/

/-- a pixel of the scene the step reads: left disparity, left flag, right disparity -/
abbrev CcCell := Val × Nat × Val

/-- offsets read by a pixel: itself, the four `mask_border` probes, the columns of the interval -/
def ccOffs (P : Params) : List Px :=
  (0, 0) :: (-(P.offset : Int), 0) :: ((P.offset : Int), 0) :: (0, -(P.offset : Int)) :: (0, (P.offset : Int))
    :: (arange P.dmin P.dmax).map fun d => ((0 : Int), d)

/-- the right row relative to the pixel, read from the values at the interval's columns -/
def rdOf (P : Params) (rs : List (Option CcCell)) (d : Int) : Option Val :=
  if P.dmin ≤ d ∧ d ≤ P.dmax then (rs.getD (d - P.dmin).toNat none).map fun x => x.2.2 else none

def ccG (V : Variant) (P : Params) : List (Option CcCell) → Option PixOut
  | some (dl, flag, _) :: b1 :: b2 :: b3 :: b4 :: rs =>
    let o := ccPixelRel V P (rdOf P rs) dl flag
    some ⟨if P.offset > 0 ∧ (b1.isNone ∨ b2.isNone ∨ b3.isNone ∨ b4.isNone) then Flags.leftNodataOrBorder else o.flag,
          o.conf⟩
  | _ => none

/-- **The cross-checking step on partial images**: a stencil on the pixel's row. -/
def ccStep (V : Variant) (P : Params) : Img CcCell → Img PixOut := stencil (ccOffs P) (ccG V P)

/-- the cone of cross-checking: the columns of the interval on the pixel's own row, widened by the
    `mask_border` offset in the four directions -/
def ccCone (P : Params) : Cone :=
  ⟨P.offset, P.offset, max P.offset (-P.dmin).toNat, max P.offset P.dmax.toNat⟩

theorem ccOffs_in (P : Params) : OffsIn (ccCone P) (ccOffs P) := by
  intro d hd
  unfold ccOffs at hd
  simp only [List.mem_cons, List.mem_map] at hd
  unfold ccCone
  simp only
  rcases hd with rfl | rfl | rfl | rfl | rfl | ⟨k, hk, rfl⟩
  · simp
  · simp
  · simp
  · simp
  · simp; omega
  · have := (C07.mem_arange P.dmin P.dmax k).1 hk
    simp only
    omega

/-- **Cross-checking: local**, cone = the pixel's row, columns `c + dmin … c + dmax` (and the `mask_border`
    offset in the four directions). -/
theorem ccStep_local (V : Variant) (P : Params) : Local (ccCone P) (ccStep V P) :=
  stencil_local_of_bounds _ _ _ (ccOffs_in P)

theorem arange_map_getD {β : Type} (lo hi d : Int) (g : Int → Option β) (h1 : lo ≤ d) (h2 : d ≤ hi) :
    ((arange lo hi).map g).getD (d - lo).toNat none = g d := by
  unfold arange
  have hlt : (d - lo).toNat < (hi + 1 - lo).toNat := by omega
  have he : lo + (((d - lo).toNat : Nat) : Int) = d := by omega
  simp [List.getD_eq_getElem?_getD, hlt]
  congr 1
  omega

/-- **What a pixel reads, exactly**: its own cell, and from the other cells of its cone only the right
    disparity (and whether the cell is in the image). -/
theorem ccStep_congr (V : Variant) (P : Params) (a b : Img CcCell) (p : Px) (h0 : a p = b p)
    (h : ∀ q, inCone (ccCone P) p q → (a q).map (fun x => x.2.2) = (b q).map (fun x => x.2.2)) :
    ccStep V P a p = ccStep V P b p := by
  have hnone : ∀ q, inCone (ccCone P) p q → (a q).isNone = (b q).isNone := by
    intro q hq
    have := congrArg Option.isNone (h q hq)
    simpa using this
  have hin : ∀ d ∈ ccOffs P, inCone (ccCone P) p (p.1 + d.1, p.2 + d.2) := by
    intro d hd
    have := ccOffs_in P d hd
    unfold inCone
    simp only
    omega
  unfold ccStep stencil
  have hoffs : ccOffs P = (0, 0) :: (-(P.offset : Int), 0) :: ((P.offset : Int), 0) :: (0, -(P.offset : Int))
      :: (0, (P.offset : Int)) :: (arange P.dmin P.dmax).map fun d => ((0 : Int), d) := rfl
  have m1 : (-(P.offset : Int), (0 : Int)) ∈ ccOffs P := by rw [hoffs]; simp
  have m2 : ((P.offset : Int), (0 : Int)) ∈ ccOffs P := by rw [hoffs]; simp
  have m3 : ((0 : Int), -(P.offset : Int)) ∈ ccOffs P := by rw [hoffs]; simp
  have m4 : ((0 : Int), (P.offset : Int)) ∈ ccOffs P := by rw [hoffs]; simp
  have hrd : rdOf P (List.map ((fun d => a (p.1 + d.1, p.2 + d.2)) ∘ fun d => ((0 : Int), d)) (arange P.dmin P.dmax))
      = rdOf P (List.map ((fun d => b (p.1 + d.1, p.2 + d.2)) ∘ fun d => ((0 : Int), d)) (arange P.dmin P.dmax)) := by
    funext d
    unfold rdOf
    by_cases hd : P.dmin ≤ d ∧ d ≤ P.dmax
    · rw [if_pos hd, if_pos hd, arange_map_getD P.dmin P.dmax d _ hd.1 hd.2,
        arange_map_getD P.dmin P.dmax d _ hd.1 hd.2]
      simp only [Function.comp]
      apply h
      apply hin ((0 : Int), d)
      rw [hoffs]
      simp only [List.mem_cons, List.mem_map]
      right; right; right; right; right
      exact ⟨d, (C07.mem_arange P.dmin P.dmax d).2 hd, rfl⟩
    · rw [if_neg hd, if_neg hd]
  rw [hoffs]
  simp only [List.map_cons, List.map_map, Int.add_zero]
  rw [h0]
  cases hb : b p with
  | none => simp [ccG]
  | some x =>
    obtain ⟨dl, flag, dr⟩ := x
    simp only [ccG]
    have e1 := hnone _ (hin _ m1)
    have e2 := hnone _ (hin _ m2)
    have e3 := hnone _ (hin _ m3)
    have e4 := hnone _ (hin _ m4)
    simp only [Int.add_zero] at e1 e2 e3 e4
    rw [hrd, e1, e2, e3, e4]

/-- with no border offset the cone is the interval on the pixel's own row -/
theorem ccCone_offset_zero (P : Params) (h : P.offset = 0) :
    ccCone P = Cone.row (-P.dmin).toNat P.dmax.toNat := by
  unfold ccCone Cone.row
  rw [h]
  simp

/-- **Cross-checking: no dependence on absolute position.** -/
theorem ccStep_equivariant (V : Variant) (P : Params) : Equivariant (ccStep V P) :=
  stencil_equivariant _ _

/-! ### the model is that step -/

/-- the two datasets are `ny × nx` rectangles -/
def RectShapes (ny nx : Nat) (A B : Dataset) : Prop :=
  A.disp.length = ny ∧ ∀ r, r < ny → ∃ (dL dR : List Val) (mL : List Nat),
    A.disp[r]? = some dL ∧ B.disp[r]? = some dR ∧ A.mask[r]? = some mL ∧
    dL.length = nx ∧ dR.length = nx ∧ mL.length = nx

/-- the scene of `disparity_checking(A, B)` as an array of cells -/
def ccScene (A B : Dataset) : Nat → Nat → CcCell := fun r c =>
  ((A.disp.getD r []).getD c .nan, (A.mask.getD r []).getD c 0, (B.disp.getD r []).getD c .nan)

/-- every valid pixel's rounded disparity lies in the interval -/
def InInterval (P : Params) (ny nx : Nat) (A : Dataset) : Prop :=
  ∀ r c, r < ny → c < nx →
    DispInInterval P ((A.disp.getD r []).getD c .nan) ((A.mask.getD r []).getD c 0)

/-- **The model of `disparity_checking` is the stencil `ccStep`** (flag word and confidence cell of every
    pixel), for rectangular maps of any size whose valid pixels have their rounded disparity in the
    interval of the search. -/
theorem check_is_ccStep (V : Variant) (P : Params) (ny nx : Nat) (A B : Dataset)
    (hs : RectShapes ny nx A B) (hin : InInterval P ny nx A) :
    toImg ny nx (fun r c => C07.outPix (check V P A B) r c) = ccStep V P (toImg ny nx (ccScene A B)) := by
  funext q
  by_cases hq : InImage ny nx q
  · obtain ⟨r, c, rfl, hr, hc⟩ : ∃ r c : Nat, q = ((r : Int), (c : Int)) ∧ r < ny ∧ c < nx := by
      unfold InImage at hq
      refine ⟨q.1.toNat, q.2.toNat, ?_, by omega, by omega⟩
      ext <;> simp <;> omega
    obtain ⟨hlen, hrows⟩ := hs
    obtain ⟨dL, dR, mL, hA, hB, hM, hlL, hlR, hlM⟩ := hrows r hr
    rw [toImg_some ny nx _ r c hr hc, C07.check_pix V P A B r c dL dR mL hA hB hM (by omega)]
    unfold ccStep stencil ccOffs
    simp only [List.map_cons, List.map_map, Int.add_zero]
    rw [toImg_some ny nx _ r c hr hc]
    have hrowA : A.disp.getD r [] = dL := by simp [List.getD_eq_getElem?_getD, hA]
    have hrowB : B.disp.getD r [] = dR := by simp [List.getD_eq_getElem?_getD, hB]
    have hrowM : A.mask.getD r [] = mL := by simp [List.getD_eq_getElem?_getD, hM]
    have hsc : ccScene A B r c = (dL.getD c .nan, mL.getD c 0, dR.getD c .nan) := by
      simp only [ccScene, hrowA, hrowB, hrowM]
    rw [hsc]
    simp only [ccG]
    -- the right row read through the stencil is the right row of the model, inside the interval
    have hrd : ∀ d, P.dmin ≤ d → d ≤ P.dmax →
        rdOf P (List.map ((fun d => toImg ny nx (ccScene A B) ((r : Int) + d.1, (c : Int) + d.2)) ∘ fun d => ((0 : Int), d))
          (arange P.dmin P.dmax)) d = dispRightAt dL.length dR ((c : Int) + d) := by
      intro d h1 h2
      unfold rdOf
      rw [if_pos ⟨h1, h2⟩, arange_map_getD P.dmin P.dmax d _ h1 h2]
      simp only [Function.comp, Int.add_zero]
      unfold dispRightAt
      by_cases hd : (0 : Int) ≤ (c : Int) + d ∧ (c : Int) + d < (dL.length : Int)
      · rw [if_pos hd]
        have e : ((c : Int) + d) = (((c : Int) + d).toNat : Int) := by omega
        rw [e, toImg_some ny nx _ r _ hr (by omega)]
        simp only [ccScene, hrowB, Option.map_some, Int.toNat_natCast]
      · rw [if_neg hd, toImg_none ny nx _ _ (by unfold InImage; simp only; omega)]
        rfl
    have hdi : DispInInterval P (dL.getD c .nan) (mL.getD c 0) := by
      have := hin r c hr hc
      rwa [hrowA, hrowM] at this
    rw [ccPixel_eq_rel V P dL.length dL dR c (mL.getD c 0),
      ccPixelRel_congr V P _ _ _ _ (fun d h1 h2 => (hrd d h1 h2).symm) hdi]
    congr 2
    -- the border test
    have hb : (P.offset > 0 ∧ isBorder P.offset A.disp.length dL.length r c = true) ↔
        (P.offset > 0 ∧ ((toImg ny nx (ccScene A B) ((r : Int) + -(P.offset : Int), (c : Int))).isNone = true ∨
          (toImg ny nx (ccScene A B) ((r : Int) + (P.offset : Int), (c : Int))).isNone = true ∨
          (toImg ny nx (ccScene A B) ((r : Int), (c : Int) + -(P.offset : Int))).isNone = true ∨
          (toImg ny nx (ccScene A B) ((r : Int), (c : Int) + (P.offset : Int))).isNone = true)) := by
      simp only [Option.isNone_iff_eq_none, toImg_eq_none_iff, InImage, isBorder, Bool.or_eq_true,
        decide_eq_true_eq, hlen, hlL]
      omega
    by_cases hbb : P.offset > 0 ∧ isBorder P.offset A.disp.length dL.length r c = true
    · rw [if_pos hbb, if_pos (hb.1 hbb)]
    · rw [if_neg hbb, if_neg (fun h => hbb (hb.2 h))]
  · rw [toImg_none ny nx _ q hq]
    unfold ccStep stencil ccOffs
    simp only [List.map_cons, Int.add_zero]
    rw [toImg_none ny nx _ q hq]
    rfl

/-- **Cross-checking: crop run = whole run.**  `A'`, `B'` are `ny' × nx'` datasets whose cells are the cells
    `(r + r0, c + c0)` of the `ny × nx` datasets `A`, `B`.  The flag word and confidence cell of crop pixel
    `(r, c)` are those of pixel `(r + r0, c + c0)` of the whole run, as soon as every pixel of its cone
    (own row, columns of the interval; `offset` in the four directions) is in the crop or outside the image. -/
theorem cc_crop_eq_whole (V : Variant) (P : Params) (ny nx r0 c0 ny' nx' : Nat) (A B A' B' : Dataset)
    (hs : RectShapes ny nx A B) (hs' : RectShapes ny' nx' A' B')
    (hin : InInterval P ny nx A) (hin' : InInterval P ny' nx' A')
    (hcrop : ∀ r c, r < ny' → c < nx' → ccScene A' B' r c = ccScene A B (r + r0) (c + c0))
    (hfit : r0 + ny' ≤ ny ∧ c0 + nx' ≤ nx) (r c : Nat) (hr : r < ny') (hc : c < nx')
    (hcone : ∀ q, inCone (ccCone P) ((r : Int) + r0, (c : Int) + c0) q →
      InRect r0 c0 ny' nx' q ∨ ¬ InImage ny nx q) :
    C07.outPix (check V P A' B') r c = C07.outPix (check V P A B) (r + r0) (c + c0) := by
  have h1 := check_is_ccStep V P ny' nx' A' B' hs' hin'
  have h2 := check_is_ccStep V P ny nx A B hs hin
  have h3 := crop_run_eq_whole (ccStep_local V P) (ccStep_equivariant V P)
    ny nx r0 c0 ny' nx' (ccScene A B) hfit ((r : Int), (c : Int)) hcone
  have h4 : toImg ny' nx' (ccScene A' B') = toImg ny' nx' (cropArr r0 c0 (ccScene A B)) :=
    toImg_congr ny' nx' _ _ hcrop
  rw [← h4, ← h1, ← h2, toImg_some ny' nx' _ r c hr hc] at h3
  have e : (((r : Int) + (r0 : Int), (c : Int) + (c0 : Int)) : Px) = (((r + r0 : Nat) : Int), ((c + c0 : Nat) : Int)) := by
    ext <;> simp
  rw [e, toImg_some ny nx _ (r + r0) (c + c0) (by omega) (by omega)] at h3
  exact Option.some.inj h3

/-! ### Non-vacuity: the 1 × 5 pair of C07 (interval `[-2, 3]`, one half-integer disparity, one invalid pixel) -/

example : RectShapes 1 5 C07.exA C07.exB := by
  refine ⟨rfl, ?_⟩
  intro r hr
  have : r = 0 := by omega
  subst this
  exact ⟨_, _, _, rfl, rfl, rfl, rfl, rfl, rfl⟩

example : InInterval C07.exParams 1 5 C07.exA := by
  intro r c hr hc
  have : r = 0 := by omega
  subst this
  have hcases : c = 0 ∨ c = 1 ∨ c = 2 ∨ c = 3 ∨ c = 4 := by omega
  rcases hcases with rfl | rfl | rfl | rfl | rfl
  · exact Or.inr (Or.inr ⟨0, rfl, by decide +kernel, by decide +kernel⟩)
  · exact Or.inr (Or.inr ⟨1, rfl, by decide +kernel, by decide +kernel⟩)
  · exact Or.inr (Or.inr ⟨-1, rfl, by decide +kernel, by decide +kernel⟩)
  · exact Or.inr (Or.inr ⟨1 / 2, rfl, by decide +kernel, by decide +kernel⟩)
  · exact Or.inl (by decide)

end Pandora.C13
