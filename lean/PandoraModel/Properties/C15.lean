/-
  C15 — A multiscale step really processes num_scales scales, coarse to fine.

  * counts and order: corollaries of C01's trace theorem (`run_accepts`) on the tables of the source;
  * sizes and interval arithmetic: algebra over Nat / Rat for every size, factor and number of scales;
  * per-pixel interval of a finer level: the parent chosen by `zoom(order=0)` is at most one pixel away
    from the geometric parent, and the upsampled grid always covers the finer image.
  The per-pixel rule itself (window min/max ± marge, user interval for invalid/border parents) is compared
  between implementation, model (`nextLevelGrids`) and specification (`specInterval`) by the harness.
-/
import PandoraModel.Model.Multiscale
import PandoraModel.Properties.C01
import Mathlib.Tactic.Linarith
import Mathlib.Tactic.FieldSimp
import Mathlib.Tactic.Ring
import Mathlib.Algebra.Order.Field.Rat

namespace Pandora.C15
open Pandora.Multiscale Pandora.Machine

/-! ### 1. Sizes of the levels -/

theorem levelSizesFine_length (n f : Nat) : ∀ k, (levelSizesFine n f k).length = k := by
  intro k
  induction k generalizing n with
  | zero => rfl
  | succ k ih => simp [levelSizesFine, ih]

/-- exactly `num_scales` levels -/
theorem levelSizes_length (n f k : Nat) : (levelSizes n f k).length = k := by
  simp [levelSizes, levelSizesFine_length]

/-- the last level processed has the original size -/
theorem levelSizes_last (n f k : Nat) : (levelSizes n f (k + 1)).getLast? = some n := by
  simp [levelSizes, levelSizesFine]

theorem ceilDiv_le (n f : Nat) (hf : 1 ≤ f) : ceilDiv n f ≤ n := by
  unfold ceilDiv
  rw [Nat.div_le_iff_le_mul_add_pred (by omega : 0 < f)]
  have : n ≤ f * n := Nat.le_mul_of_pos_left n hf
  omega

/-- each level is the ceiling of the finer one divided by the factor; sizes never grow when going coarser -/
theorem levelSizesFine_step (n f k : Nat) :
    levelSizesFine n f (k + 2) = n :: ceilDiv n f :: levelSizesFine (ceilDiv (ceilDiv n f) f) f k := by
  simp [levelSizesFine]

/-- the grid upsampled by the factor always covers the finer level (the crop done by `cv_masked` is well
    defined): `n ≤ f * ceil(n / f)` -/
theorem zoom_covers (n f : Nat) (hf : 1 ≤ f) : n ≤ f * ceilDiv n f := by
  unfold ceilDiv
  have h := Nat.div_add_mod (n + f - 1) f
  have hm := Nat.mod_lt (n + f - 1) (by omega : f > 0)
  omega

/-! ### 2. Interval arithmetic of run_prepare / matching_cost_prepare / run_multiscale -/

/-- after `k` multiplications by the factor the stored bound is `user / factor^(num_scales - k)` -/
theorem boundAfter_eq (user : Rat) (f ns k : Nat) (hf : f ≠ 0) (hk : k ≤ ns) :
    boundAfter user f ns k = user / ((f : Rat) ^ (ns - k)) := by
  unfold boundAfter prepareBound
  have hf' : (f : Rat) ≠ 0 := by exact_mod_cast hf
  have hsplit : (f : Rat) ^ ns = (f : Rat) ^ (ns - k) * (f : Rat) ^ k := by
    rw [← pow_add]; congr 1; omega
  rw [hsplit]
  field_simp

/-- the coarsest level searches the user interval divided by `factor^(num_scales - 1)` -/
theorem coarsest_interval (user : Rat) (f ns : Nat) (hf : f ≠ 0) (hns : 1 ≤ ns) :
    boundAfter user f ns 1 = user / ((f : Rat) ^ (ns - 1)) := boundAfter_eq user f ns 1 hf hns

/-- the user interval handed to `disparity_range` after the level of scale `s` (the `(ns - s)`-th
    multiplication) is the user interval of that level: `user / factor^s` -/
theorem user_interval_at_scale (user : Rat) (f ns s : Nat) (hf : f ≠ 0) (hs : s ≤ ns) :
    boundAfter user f ns (ns - s) = user / ((f : Rat) ^ s) := by
  rw [boundAfter_eq user f ns (ns - s) hf (by omega)]
  congr 2; omega

/-- at the original resolution the whole user interval is back -/
theorem finest_interval (user : Rat) (f ns : Nat) (hf : f ≠ 0) : boundAfter user f ns ns = user := by
  rw [boundAfter_eq user f ns ns hf (le_refl _)]; simp

/-! ### 3. The parent chosen by `zoom(order=0)` -/

/-- facts shared by the two theorems below, without truncating subtraction:
    `n = m + 1`, `f * n = D + 1`, `i ≤ D`, `f * m ≤ D`, `D = f * m + (f - 1)` -/
theorem zoomIndex_eq (m f i D : Nat) (hD : f * (m + 1) = D + 1) (hD1 : 1 ≤ D) :
    zoomIndex (m + 1) f i = (2 * (i * m) + D) / (2 * D) := by
  unfold zoomIndex
  have h1 : ¬ f * (m + 1) ≤ 1 := by omega
  simp only [h1, if_false, Nat.add_sub_cancel]
  have h2 : f * (m + 1) - 1 = D := by omega
  rw [h2, Nat.mul_assoc]

/-- the coarse sample copied into fine index `i` exists ... -/
theorem zoomIndex_lt (n f i : Nat) (hn : 1 ≤ n) (hf : 1 ≤ f) (hi : i < f * n) : zoomIndex n f i < n := by
  obtain ⟨m, rfl⟩ : ∃ m, n = m + 1 := ⟨n - 1, by omega⟩
  by_cases h : f * (m + 1) ≤ 1
  · simp [zoomIndex, h]
  · obtain ⟨D, hD⟩ : ∃ D, f * (m + 1) = D + 1 := ⟨f * (m + 1) - 1, by omega⟩
    have hD1 : 1 ≤ D := by omega
    rw [zoomIndex_eq m f i D hD hD1, Nat.div_lt_iff_lt_mul (by omega : 0 < 2 * D)]
    have hiD : i ≤ D := by omega
    have h1 : i * m ≤ D * m := Nat.mul_le_mul_right m hiD
    have e : (m + 1) * (2 * D) = 2 * (D * m) + 2 * D := by ring
    omega

/-- ... and is at most one pixel away from the geometric parent `i / f` -/
theorem parent_near (n f i : Nat) (hn : 1 ≤ n) (hf : 1 ≤ f) (hi : i < f * n) : parentNear n f i = true := by
  obtain ⟨m, rfl⟩ : ∃ m, n = m + 1 := ⟨n - 1, by omega⟩
  unfold parentNear
  simp only [Bool.and_eq_true, decide_eq_true_eq]
  by_cases h : f * (m + 1) ≤ 1
  · have hf1 : f * (m + 1) = 1 := by
      have : 1 ≤ f * (m + 1) := Nat.mul_pos (by omega) (by omega)
      omega
    have hi0 : i = 0 := by omega
    subst hi0
    simp [zoomIndex, h]
  · obtain ⟨D, hD⟩ : ∃ D, f * (m + 1) = D + 1 := ⟨f * (m + 1) - 1, by omega⟩
    have hD1 : 1 ≤ D := by omega
    rw [zoomIndex_eq m f i D hD hD1]
    have hiD : i ≤ D := by omega
    have hfm : f * m + f = D + 1 := by rw [← hD]; ring
    -- g = i / f :  g * f ≤ i < (g + 1) * f
    obtain ⟨g, hg⟩ : ∃ g, g = i / f := ⟨_, rfl⟩
    rw [← hg]
    have hdm := Nat.div_add_mod i f
    have hml := Nat.mod_lt i (by omega : f > 0)
    rw [← hg] at hdm
    have hgl : g * f ≤ i := by
      have e : g * f = f * g := Nat.mul_comm g f
      omega
    have hgu : i < (g + 1) * f := by
      have e : (g + 1) * f = f * g + f := by ring
      omega
    -- products as atoms
    have hA : f * (i * m) = i * (f * m) := by ring
    have hB : i * (f * m) + i * f = i * D + i := by
      have : i * (f * m + f) = i * (D + 1) := by rw [hfm]
      calc i * (f * m) + i * f = i * (f * m + f) := by ring
        _ = i * (D + 1) := this
        _ = i * D + i := by ring
    constructor
    · -- zoomIndex ≤ g + 1   ⇐   i * m < (g + 1) * D
      have h1 : f * (i * m) < f * ((g + 1) * D) := by
        have e1 : f * (i * m) ≤ i * D := by
          -- i * (f m) ≤ i * D  since f m ≤ D
          have : f * m ≤ D := by omega
          calc f * (i * m) = i * (f * m) := hA
            _ ≤ i * D := Nat.mul_le_mul_left i this
        have e2 : i * D < (g + 1) * f * D := Nat.mul_lt_mul_of_pos_right hgu (by omega)
        calc f * (i * m) ≤ i * D := e1
          _ < (g + 1) * f * D := e2
          _ = f * ((g + 1) * D) := by ring
      have h2 : i * m < (g + 1) * D := Nat.lt_of_mul_lt_mul_left h1
      have : (2 * (i * m) + D) / (2 * D) < g + 2 := by
        rw [Nat.div_lt_iff_lt_mul (by omega : 0 < 2 * D)]
        have e : (g + 2) * (2 * D) = 2 * ((g + 1) * D) + 2 * D := by ring
        omega
      exact Nat.lt_succ_iff.mp this
    · -- g ≤ zoomIndex + 1
      by_cases hg0 : g = 0
      · subst hg0; exact Nat.zero_le _
      · obtain ⟨g', rfl⟩ : ∃ g', g = g' + 1 := ⟨g - 1, by omega⟩
        have hq : g' ≤ (2 * (i * m) + D) / (2 * D) := by
          rw [Nat.le_div_iff_mul_le (by omega : 0 < 2 * D)]
          -- g' * D ≤ i * m  :  (g'+1) f D ≤ i D = i f m + i (f - 1) ≤ f (i m) + f D
          have h3 : (g' + 1) * f * D ≤ i * D := Nat.mul_le_mul_right D hgl
          have h4 : i * f ≤ D * f + i := by
            have := Nat.mul_le_mul_right f hiD
            omega
          have h5 : f * (g' * D) ≤ f * (i * m) := by
            have e1 : (g' + 1) * f * D = f * (g' * D) + f * D := by ring
            have e2 : D * f = f * D := Nat.mul_comm D f
            omega
          have h6 : g' * D ≤ i * m := Nat.le_of_mul_le_mul_left h5 (by omega)
          have e : g' * (2 * D) = 2 * (g' * D) := by ring
          omega
        exact Nat.succ_le_succ hq

/-! ### 4. Counts and order (corollaries of C01 on the tables of the source) -/

/-- the executions of the matching cost step on the left data, with their scales -/
def mcScales (tr : Trace) : List Nat :=
  tr.filterMap fun e =>
    match e with
    | Event.run cb _ scale false => if cb == "matching_cost_run" then some scale else none
    | _ => none

theorem mcScales_append (a b : Trace) : mcScales (a ++ b) = mcScales a ++ mcScales b := by
  simp [mcScales, List.filterMap_append]

theorem mcScales_sideEvents (cb n : String) (s : Nat) (r : Bool) :
    mcScales (sideEvents cb n s r) = if cb == "matching_cost_run" then [s] else [] := by
  unfold sideEvents mcScales
  cases r <;> by_cases h : cb = "matching_cost_run" <;> simp [h]

theorem mcScales_stepEvents (n : String) (s : Nat) (r : Bool) (k : Kind)
    (hk : Kind.ofName? (kindOf n) = some k) :
    mcScales (stepEvents n s r) = if k = Kind.matchingCost then [s] else [] := by
  unfold stepEvents
  rw [hk]
  cases k
  case multiscale =>
    simp only [reduceCtorEq, if_false]
    split
    · rfl
    · rw [mcScales_sideEvents]; rfl
  all_goals
    simp only [runCbsOf, Kind.name, List.flatMap_cons, List.flatMap_nil, List.append_nil,
      mcScales_append, mcScales_sideEvents, reduceCtorEq, if_false, if_true]
    rfl

/-- from `cost_volume` or `disp_map` no matching cost step can follow -/
theorem isPath_no_mc : ∀ (names : List String) (st : St), st ≠ St.begin → isPath st names = true →
    ∀ m ∈ names, Kind.ofName? (kindOf m) ≠ some Kind.matchingCost := by
  intro names
  induction names with
  | nil => intro _ _ _ m hm; simp at hm
  | cons n ns ih =>
    intro st hst hp m hm
    simp only [isPath] at hp
    cases hk : Kind.ofName? (kindOf n) with
    | none => simp [hk] at hp
    | some k =>
      simp only [hk] at hp
      cases hd : documented st k with
      | none => simp [hd] at hp
      | some st' =>
        simp only [hd] at hp
        have hst' : st' ≠ St.begin := by
          cases st <;> cases k <;> simp [documented] at hd <;> subst hd <;> simp
        simp only [List.mem_cons] at hm
        rcases hm with rfl | hm
        · rw [hk]
          intro h
          have : k = Kind.matchingCost := by simpa using h
          subst this
          cases st <;> simp [documented] at hd
          exact hst rfl
        · exact ih st' hst' hp m hm

theorem mcScales_flatMap_none (names : List String) (s : Nat) (r : Bool)
    (hk : ∀ m ∈ names, ∃ k, Kind.ofName? (kindOf m) = some k ∧ k ≠ Kind.matchingCost) :
    mcScales (names.flatMap fun n => stepEvents n s r) = [] := by
  induction names with
  | nil => rfl
  | cons n ns ih =>
    obtain ⟨k, hkk, hne⟩ := hk n (by simp)
    simp only [List.flatMap_cons, mcScales_append, mcScales_stepEvents n s r k hkk, hne, if_false,
      List.nil_append]
    exact ih (fun m hm => hk m (by simp [hm]))

theorem isPath_kinds : ∀ (names : List String) (st : St), isPath st names = true →
    ∀ m ∈ names, ∃ k, Kind.ofName? (kindOf m) = some k := by
  intro names
  induction names with
  | nil => intro _ _ m hm; simp at hm
  | cons n ns ih =>
    intro st hp m hm
    simp only [isPath] at hp
    cases hk : Kind.ofName? (kindOf n) with
    | none => simp [hk] at hp
    | some k =>
      simp only [hk] at hp
      cases hd : documented st k with
      | none => simp [hd] at hp
      | some st' =>
        simp only [hd] at hp
        simp only [List.mem_cons] at hm
        rcases hm with rfl | hm
        · exact ⟨k, hk⟩
        · exact ih st' hp m hm

theorem uptoMultiscale_subset (names : List String) : ∀ m ∈ uptoMultiscale names, m ∈ names := by
  induction names with
  | nil => intro m hm; simp [uptoMultiscale] at hm
  | cons n ns ih =>
    intro m hm
    simp only [uptoMultiscale] at hm
    split at hm
    · simp at hm; simp [hm]
    · simp only [List.mem_cons] at hm
      rcases hm with rfl | hm
      · simp
      · simp [ih m hm]

theorem uptoMultiscale_cons_ne (n : String) (ns : List String) (h : (kindOf n == Kind.multiscale.name) = false) :
    uptoMultiscale (n :: ns) = n :: uptoMultiscale ns := by
  simp [uptoMultiscale, h]

/-- in one scale block (the steps up to the multiscale step, or the whole pipeline) of an accepted
    pipeline, the matching cost step is executed exactly once -/
theorem mcScales_block (n : String) (rest sub : List String) (s : Nat) (r : Bool)
    (hp : isPath .begin (n :: rest) = true) (hsub : ∀ m ∈ sub, m ∈ rest) :
    mcScales ((n :: sub).flatMap fun x => stepEvents x s r) = [s] := by
  simp only [isPath] at hp
  cases hk : Kind.ofName? (kindOf n) with
  | none => simp [hk] at hp
  | some k =>
    simp only [hk] at hp
    cases hd : documented .begin k with
    | none => simp [hd] at hp
    | some st' =>
      simp only [hd] at hp
      have hkmc : k = Kind.matchingCost := by cases k <;> simp [documented] at hd <;> rfl
      have hst' : st' ≠ St.begin := by
        subst hkmc; simp [documented] at hd; subst hd; simp
      have hno := isPath_no_mc rest st' hst' hp
      have hkinds := isPath_kinds rest st' hp
      simp only [List.flatMap_cons, mcScales_append, mcScales_stepEvents n s r k hk, hkmc, if_true]
      rw [mcScales_flatMap_none sub s r]
      · rfl
      · intro m hm
        obtain ⟨km, hkm⟩ := hkinds m (hsub m hm)
        exact ⟨km, hkm, fun h => hno m (hsub m hm) (h ▸ hkm)⟩

/-- `[k, k-1, …, 1]` -/
def countdown : Nat → List Nat
  | 0 => []
  | k + 1 => (k + 1) :: countdown k

/-- **The matching cost step is executed once per scale, from the coarsest scale down to 0**, in the
    trace C01 proves for every accepted pipeline containing a multiscale step (`run_accepts`). -/
theorem scales_executed (n : String) (rest : List String) (numScales : Nat) (r : Bool)
    (hp : isPath .begin (n :: rest) = true) (hn : 1 ≤ numScales) :
    mcScales (expectedRun (n :: rest) numScales r) = countdown (numScales - 1) ++ [0] := by
  unfold expectedRun
  rw [mcScales_append]
  have hlast : mcScales ((n :: rest).flatMap fun x => stepEvents x 0 r) = [0] :=
    mcScales_block n rest rest 0 r hp (fun m hm => hm)
  rw [hlast]
  congr 1
  have hn_ne : (kindOf n == Kind.multiscale.name) = false := by
    simp only [isPath] at hp
    cases hk : Kind.ofName? (kindOf n) with
    | none => simp [hk] at hp
    | some k =>
      simp only [hk] at hp
      have hkn := C01.ofName_some hk
      cases k <;> simp [documented] at hp <;> (rw [hkn]; decide)
  generalize numScales - 1 = c
  induction c with
  | zero => rfl
  | succ c ih =>
    simp only [expectedCoarse, mcScales_append, countdown]
    rw [uptoMultiscale_cons_ne n rest hn_ne]
    rw [mcScales_block n rest (uptoMultiscale rest) (c + 1) r hp (uptoMultiscale_subset rest), ih]
    rfl

/-- the steps configured after the (first) multiscale step take effect at scale 0 only: every coarse
    scale block contains the steps up to the multiscale step and nothing else -/
theorem coarse_blocks_stop_at_multiscale (names : List String) (r : Bool) (c : Nat) :
    expectedCoarse names r (c + 1) =
      (uptoMultiscale names).flatMap (fun n => stepEvents n (c + 1) r) ++ expectedCoarse names r c := rfl

/-! ### Non-vacuity -/

example : levelSizes 17 2 3 = [5, 9, 17] := by decide
example : isPath .begin ["matching_cost", "disparity", "multiscale", "filter"] = true := by decide
example : mcScales (expectedRun ["matching_cost", "disparity", "multiscale", "filter"] 3 true) = [2, 1, 0] := by decide
example : parentNear 4 3 2 = true ∧ zoomIndex 4 3 2 = 1 ∧ 2 / 3 = 0 := by decide

end Pandora.C15
