/- C15 — theorems (placeholder until the property is built). -/
