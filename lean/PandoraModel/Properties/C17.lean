/- C17 — theorems (placeholder until the property is built). -/
