/-
  C17 — Malformed inputs are refused up front; well-formed inputs never are.

  Theorems about the executable model `Model/Config.lean` (`checkDataset(s)`, the schema entries and
  the custom checks of `checkInputSection`, with the schemas the translator regenerated from
  `pandora/check_configuration.py`) and the hand-written specification `Model/InputSpec.lean`.

    1. `check_datasets` accepts a pair iff it is well-formed (every requirement by sub-identifier);
       which exception class a refusal carries
    2. the schema entries of the input section against the documented forms, for ALL values
    3. `check_disparities_from_input` / `check_images`: accepted iff the documented conditions
    4. findings (counterexamples) and non-vacuity examples
-/
import PandoraModel.Model.InputSpec
import PandoraModel.Generated.Schemas

namespace Pandora.C17
open Pandora Pandora.Config Pandora.ConfigSpec Pandora.InputSpec

/-! ### 1. Datasets -/

/-- the requirements on one dataset as one conjunction -/
def featuresOk (isLeft : Bool) (f : DsFeatures) : Bool :=
  f.hasIm && !f.allNan && f.bandNamesStr && f.sameGrid && f.attrs && (!isLeft || f.hasDisp) &&
  (!f.hasDisp || f.dispBands) && (!f.hasDisp || !f.minGtMax)

theorem datasetClauses_all (isLeft : Bool) (d : DsDesc) :
    (datasetClauses isLeft d).all (·.2) = featuresOk isLeft d.features := by
  simp [datasetClauses, featuresOk, Bool.and_assoc]

/-- the sequence of tests of `check_dataset` accepts exactly the conjunction of the requirements
    (a disparity is not mandatory at this level) -/
theorem checkFeatures_ok_iff (f : DsFeatures) :
    checkFeatures f = .ok () ↔ featuresOk false f = true := by
  obtain ⟨a, b, c, d, e, g, h, i⟩ := f
  cases a <;> cases b <;> cases c <;> cases d <;> cases e <;> cases g <;> cases h <;> cases i <;>
    simp [checkFeatures, featuresOk]

theorem checkDataset_ok_iff (d : DsDesc) :
    checkDataset d = .ok () ↔ (datasetClauses false d).all (·.2) = true := by
  rw [datasetClauses_all]; exact checkFeatures_ok_iff d.features

/-- a refusal of `check_dataset` is one of three exception classes, each naming a group of
    requirements: `TypeError` ⇒ band names; `ValueError` ⇒ all-NaN image or a variable off the image
    grid; `AttributeError` ⇒ image / disparity bands / min ≤ max / attributes -/
theorem checkFeatures_error_class (f : DsFeatures) (e : Err) (h : checkFeatures f = .error e) :
    (e = .type ∧ f.bandNamesStr = false) ∨
    (e = .value ∧ (f.allNan = true ∨ f.sameGrid = false)) ∨
    (e = .attr ∧ (f.hasIm = false ∨ (f.hasDisp = true ∧ (f.dispBands = false ∨ f.minGtMax = true)) ∨
      f.attrs = false)) := by
  obtain ⟨a, b, c, d, e', g, h', i⟩ := f
  cases a <;> cases b <;> cases c <;> cases d <;> cases e' <;> cases g <;> cases h' <;> cases i <;>
    simp [checkFeatures] at h <;> subst h <;> simp

theorem featuresOk_left (f : DsFeatures) : featuresOk true f = (featuresOk false f && f.hasDisp) := by
  obtain ⟨a, b, c, d, e, g, h, i⟩ := f
  cases a <;> cases b <;> cases c <;> cases d <;> cases e <;> cases g <;> cases h <;> cases i <;>
    simp [featuresOk]

theorem featuresOk_hasIm (f : DsFeatures) (h : featuresOk false f = true) : f.hasIm = true := by
  obtain ⟨a, b, c, d, e, g, h', i⟩ := f
  cases a <;> simp_all [featuresOk]

/-- the "same size" requirement, as the code tests it -/
theorem sameSize_eq (l r : DsDesc) (hl : l.features.hasIm = true) (hr : r.features.hasIm = true) :
    sameSize l r = !(((l.shapeOf "im").map lastTwo) != ((r.shapeOf "im").map lastTwo)) := by
  simp only [DsDesc.features] at hl hr
  unfold sameSize
  cases ha : l.shapeOf "im" with
  | none => simp [ha] at hl
  | some a =>
    cases hb : r.shapeOf "im" with
    | none => simp [hb] at hr
    | some b => by_cases hab : lastTwo a = lastTwo b <;> simp [hab, bne]

theorem checkDatasets_ok_iff_parts (l r : DsDesc) :
    checkDatasets l r = .ok () ↔
      checkFeatures l.features = .ok () ∧ checkFeatures r.features = .ok () ∧ l.features.hasDisp = true ∧
      (((l.shapeOf "im").map lastTwo) != ((r.shapeOf "im").map lastTwo)) = false := by
  unfold checkDatasets checkDataset
  cases h1 : checkFeatures l.features with
  | error e => simp
  | ok u =>
    cases h2 : checkFeatures r.features with
    | error e => simp
    | ok u2 =>
      cases hd : l.features.hasDisp
      · simp
      · cases hne : (((l.shapeOf "im").map lastTwo) != ((r.shapeOf "im").map lastTwo)) <;> simp

/-- **dataset_accept_iff_wf**: `check_datasets` accepts a left/right pair if and only if each has
    an image that is not entirely NaN, string band names, every other variable on the image's
    row/column grid, the five mandatory attributes, a disparity variable (mandatory on the left)
    with min and max bands and no pixel with min > max, and both images the same size. -/
theorem checkDatasets_ok_iff_wellFormed (l r : DsDesc) :
    checkDatasets l r = .ok () ↔ datasetsWellFormed l r = true := by
  rw [checkDatasets_ok_iff_parts, checkFeatures_ok_iff, checkFeatures_ok_iff]
  simp only [datasetsWellFormed, pairClauses, List.all_append, List.all_map, Function.comp_def]
  have e1 : ((datasetClauses true l).all fun c => c.2) = featuresOk true l.features :=
    datasetClauses_all true l
  have e2 : ((datasetClauses false r).all fun c => c.2) = featuresOk false r.features :=
    datasetClauses_all false r
  simp only [e1, e2, featuresOk_left]
  constructor
  · intro ⟨h1, h2, h3, h4⟩
    have := sameSize_eq l r (featuresOk_hasIm _ h1) (featuresOk_hasIm _ h2)
    simp [h1, h2, h3, this, h4]
  · intro h
    simp only [List.all_cons, List.all_nil, Bool.and_true, Bool.and_eq_true] at h
    obtain ⟨⟨⟨h1, h3⟩, h2⟩, h4⟩ := h
    have := sameSize_eq l r (featuresOk_hasIm _ h1) (featuresOk_hasIm _ h2)
    rw [this] at h4
    refine ⟨h1, h2, h3, ?_⟩
    simpa using h4

deriving instance DecidableEq for Except

/-- non-vacuity: a well-formed pair (multi-band left image with mask and disparity) is accepted … -/
def goodLeft : DsDesc :=
  { vars := [("im", [3, 4, 5]), ("msk", [4, 5]), ("disparity", [2, 4, 5])],
    bandIm := some [true, true, true], bandDisp := some ["min", "max"],
    attrs := ["no_data_img", "valid_pixels", "no_data_mask", "crs", "transform", "disparity_source"] }

def goodRight : DsDesc :=
  { vars := [("im", [3, 4, 5])], bandIm := some [true, true, true],
    attrs := ["crs", "transform", "no_data_img", "valid_pixels", "no_data_mask"] }

example : checkDatasets goodLeft goodRight = .ok () ∧ datasetsWellFormed goodLeft goodRight = true := by
  decide

/-- … and each single violation is refused, with the class the code raises -/
example : checkDatasets { goodLeft with imAllNan := true } goodRight = .error .value := by decide
example : checkDatasets { goodLeft with dispMinGtMax := true } goodRight = .error .attr := by decide
example : checkDatasets { goodLeft with bandIm := some [true, false, true] } goodRight = .error .type := by decide
example : checkDatasets { goodLeft with vars := [("im", [3, 4, 5]), ("msk", [5, 5]), ("disparity", [2, 4, 5])] }
    goodRight = .error .value := by decide
example : checkDatasets goodRight goodRight = .error .attr := by decide       -- no disparity on the left
example : checkDatasets goodLeft { goodRight with vars := [("im", [3, 4, 6])] } = .error .attr := by decide
example : failingClauses (pairClauses goodLeft { goodRight with attrs := ["crs"] }) = ["right.attrs"] := by
  decide

/-! ### 2. The schema entries of the input section, for all values -/

open Pandora.Generated.Schemas

/-- what "the check agrees with the documentation on this value" means -/
def Agrees (b : Bool) : Dom → Prop
  | .accept => b = true
  | .reject => b = false
  | .undecided => True

def entryOf (es : List (String × Bool × Schema)) (k : String) : Schema :=
  match es.find? (fun e => e.1 == k) with
  | some e => e.2.2
  | none => .any []

macro "input_simp" : tactic => `(tactic|
  simp [entryOf, List.find?, inputSchemas, Schema.accepts, Schema.acceptsAll, Schema.acceptsAny, Schema.keptByOr,
    Schema.acceptsZip, PyType.isInstance, PyType.isExactly, Expr.holds, Expr.eval, JVal.truthy, JVal.isNull,
    JVal.isList, JVal.isObj, fileOracle, npIsnanTruth, npArray, fIsNan, npIsscalarVal, Agrees, ofBool, pyCmp,
    pyEq, JVal.toNum?, Num.eq,
    nodataVerdict, fileOf])

/-- left and right sides are described by the same base schema -/
theorem base_sides_equal : inputSchemas.baseLeft = inputSchemas.baseRight := by decide

/-- `img`: a string naming a file rasterio can open -/
theorem img_entry (files : Files) (v : JVal) :
    Schema.accepts (fileOracle files) (entryOf inputSchemas.baseLeft "img") v =
      (match v with | .str p => (files p).isSome | _ => false) := by
  cases v <;> input_simp

/-- `mask` / `classif` / `segm`: `None`, or a string that is `"none"` or names a readable file
    (`"none"` passes the schema and is refused later by `check_images`: rasterio cannot open it) -/
theorem aux_entry (files : Files) (k : String) (hk : k = "mask" ∨ k = "classif" ∨ k = "segm") (v : JVal) :
    Schema.accepts (fileOracle files) (entryOf inputSchemas.baseLeft k) v =
      (match v with | .null => true | .str p => p == "none" || (files p).isSome | _ => false) := by
  rcases hk with rfl | rfl | rfl <;> cases v <;> input_simp

/-- `nodata`: "integer or NaN".  Full-strength statement (FALSE of the code, `nodata_nan_list_counterexample`):
    for all `v`.  Proved: for every value that is not a list. -/
theorem nodata_entry_partial (files : Files) (v : JVal) (hv : v.isList = false) :
    Agrees (Schema.accepts (fileOracle files) (entryOf inputSchemas.baseLeft "nodata") v)
      (nodataVerdict (some v)) := by
  cases v <;> input_simp
  · rename_i f; cases f <;> simp
  all_goals simp [JVal.isList] at hv

/-- the integer-disparity schema `[int, int]` accepts exactly the non-empty lists of ints (bools
    included): the length is not checked (finding `disp_list_longer_than_two`) -/
def allInts : List JVal → Bool
  | [] => true
  | x :: xs => (match x with | .int _ => true | .bool _ => true | _ => false) && allInts xs

theorem acceptsEach_int (o : Oracle) (items : List JVal) :
    items.all (fun x => Schema.accepts o (.type .int) x) = allInts items := by
  induction items with
  | nil => simp [allInts]
  | cons x xs ih =>
    simp only [List.all_cons, ih, allInts]
    cases x <;> simp [Schema.accepts, PyType.isInstance]

theorem accepts_int_int (o : Oracle) (items : List JVal) :
    Schema.accepts o (.listOf [.type .int, .type .int]) (.list items) = (!items.isEmpty && allInts items) := by
  unfold Schema.accepts
  cases items with
  | nil => simp
  | cons a rest =>
    cases rest with
    | nil =>
      have := acceptsEach_int o [a]
      simp at this ⊢
      simpa [allInts] using this
    | cons b rest2 =>
      cases rest2 with
      | nil =>
        have e1 := acceptsEach_int o [a]
        have e2 := acceptsEach_int o [b]
        simp [allInts] at e1 e2
        simp [Schema.acceptsZip, allInts, e1, e2]
      | cons c rest3 =>
        have := acceptsEach_int o (a :: b :: c :: rest3)
        simp only [List.all_cons] at this
        simp [allInts] at this ⊢
        simpa [Bool.and_assoc] using this

/-- the integer-disparity entry of the source accepts every documented `[min, max]` pair of
    integers and refuses everything that is not a list (whatever the list-length policy of the
    source: this statement also holds after the proposed fix) -/
theorem integer_disp_entry (files : Files) :
    (∀ a b : Int, Schema.accepts (fileOracle files) (entryOf inputSchemas.integerLeft "disp")
      (.list [.int a, .int b]) = true) ∧
    (∀ v : JVal, v.isList = false →
      Schema.accepts (fileOracle files) (entryOf inputSchemas.integerLeft "disp") v = false) := by
  constructor
  · intro a b
    input_simp
    try (unfold Schema.accepts; simp [Schema.acceptsZip, Schema.accepts, PyType.isInstance])
  · intro v hv
    cases v <;> input_simp
    all_goals first
      | (simp [JVal.isList] at hv)
      | (unfold Schema.accepts; simp)

/-- a right disparity must be `None` unless both are grids -/
theorem none_disp_entry (files : Files) (v : JVal) :
    Schema.accepts (fileOracle files) (entryOf inputSchemas.integerRight "disp") v = v.isNull ∧
    Schema.accepts (fileOracle files) (entryOf inputSchemas.gridNoneRight "disp") v = v.isNull := by
  cases v <;> input_simp

/-- a disparity grid: a string that is `"none"` or names a readable file (the content is checked
    by `check_disparities_from_input`) -/
theorem grid_disp_entry (files : Files) (v : JVal) :
    Schema.accepts (fileOracle files) (entryOf inputSchemas.gridNoneLeft "disp") v =
      (match v with | .str p => p == "none" || (files p).isSome | _ => false) ∧
    inputSchemas.gridGridLeft = inputSchemas.gridNoneLeft ∧
    inputSchemas.gridGridRight = inputSchemas.gridNoneLeft := by
  refine ⟨?_, by decide, by decide⟩
  cases v <;> input_simp

/-! ### 3. The custom checks -/

/-- `[min, max]` with exactly two integers: accepted iff `min ≤ max` -/
theorem checkDisparities_range (files : Files) (a b : Int) (img : JVal) :
    checkDisparitiesFromInput files (.list [.int a, .int b]) img = .ok () ↔ a ≤ b := by
  simp [checkDisparitiesFromInput, JVal.toNum?, Num.lt]

/-- a one-element list passes the schema and dies with `IndexError` (still a refusal) -/
theorem checkDisparities_singleton (files : Files) (a : JVal) (img : JVal) :
    checkDisparitiesFromInput files (.list [a]) img = .error .index := by
  simp [checkDisparitiesFromInput]

/-- a grid given for a readable image: accepted iff readable, two bands, the size of the image and
    no pixel with min > max -/
theorem checkDisparities_grid (files : Files) (p ip : String) :
    checkDisparitiesFromInput files (.str p) (.str ip) = .ok () ↔
      ((files ip).isSome ∧ gridOk files (files ip) p = true) := by
  unfold checkDisparitiesFromInput gridOk
  cases hi : files ip with
  | none => simp [hi]
  | some im =>
    cases hg : files p with
    | none => simp [hi, hg]
    | some g =>
      by_cases h1 : g.count = 2 <;> by_cases h2 : g.width = im.width <;> by_cases h3 : g.height = im.height <;>
        by_cases h4 : g.minGtMax = true <;> simp [hi, hg, h1, h2, h3, h4]

/-- no disparity: nothing to check -/
theorem checkDisparities_none (files : Files) (img : JVal) :
    checkDisparitiesFromInput files .null img = .ok () := by
  simp [checkDisparitiesFromInput]

/-- an auxiliary image (`mask`, `classif`, `segm`) of a side whose image is `im`: accepted iff absent,
    `None`, or readable with the size of `im` -/
theorem checkAux_ok_iff (files : Files) (im : FileInfo) (kvs : Dict) (key : String) :
    checkAux files im (.obj kvs) key = .ok () ↔
      (match Dict.lookup kvs key with
       | none => True
       | some .null => True
       | some (.str p) => ∃ a, files p = some a ∧ a.width = im.width ∧ a.height = im.height
       | some _ => False) := by
  unfold checkAux
  cases hl : Dict.lookup kvs key with
  | none => simp [hl]
  | some v =>
    cases v <;> simp [hl]
    rename_i p
    cases hf : files p with
    | none => simp [hf]
    | some a =>
      by_cases h1 : a.width = im.width <;> by_cases h2 : a.height = im.height <;> simp [hf, h1, h2]

/-! ### 4. Findings and examples -/

/-- the nodata entry as written in the tree the finding was made on -/
def bareNodataEntry : Schema := .any [.type .int, .func (.npIsnan .var)]

/-- Finding `nan_in_list` (input section): `nodata: [NaN]` passes although only an integer or NaN
    is documented -/
theorem nodata_nan_list_counterexample :
    Schema.accepts noOracle bareNodataEntry (.list [.float .nan]) = true ∧
    nodataVerdict (some (.list [.float .nan])) = Dom.reject := by decide

/-- Finding `disp_list_longer_than_two`: `[1, 2, 3]` passes the schema `[int, int]` and the
    min ≤ max test (which reads the first two elements); the documentation says `[min, max]` -/
theorem disp_list_counterexample :
    Schema.accepts noOracle (.listOf [.type .int, .type .int]) (.list [.int 1, .int 2, .int 3]) = true ∧
    checkDisparitiesFromInput (fun _ => none) (.list [.int 1, .int 2, .int 3]) (.str "left.tif") = .ok () ∧
    leftDispVerdict (fun _ => none) none (some (.list [.int 1, .int 2, .int 3])) = Dom.reject := by decide

/-- a small file system: two 5x6 images, a mask, a 2-band grid, a grid with min > max somewhere -/
def fs : Files := fun p =>
  if p = "l.tif" then some { width := 6, height := 5, count := 1 }
  else if p = "r.tif" then some { width := 6, height := 5, count := 1 }
  else if p = "small.tif" then some { width := 6, height := 4, count := 1 }
  else if p = "grid.tif" then some { width := 6, height := 5, count := 2 }
  else if p = "bad_grid.tif" then some { width := 6, height := 5, count := 2, minGtMax := true }
  else none

def userOf (left right : Dict) : Dict := [("input", .obj [("left", .obj left), ("right", .obj right)])]

def okOf {α} : Except Err α → Bool
  | .ok _ => true
  | .error _ => false

/-- documented forms are accepted and completed with the documented defaults (nodata −9999, mask /
    classif / segm None, right disparity None; `"NaN"` becomes the float) -/
example :
    checkInputSection fs {} inputSchemas
      (userOf [("img", .str "l.tif"), ("disp", .list [.int (-2), .int 2]), ("nodata", .str "NaN")]
              [("img", .str "r.tif")]) =
    .ok [("input", .obj [
      ("left", .obj [("nodata", .float .nan), ("mask", .null), ("classif", .null), ("segm", .null),
                     ("img", .str "l.tif"), ("disp", .list [.int (-2), .int 2])]),
      ("right", .obj [("nodata", .int (-9999)), ("mask", .null), ("classif", .null), ("segm", .null),
                      ("disp", .null), ("img", .str "r.tif")])])] := by decide

example : okOf (checkInputSection fs {} inputSchemas
    (userOf [("img", .str "l.tif"), ("disp", .str "grid.tif")] [("img", .str "r.tif"), ("disp", .str "grid.tif")])) = true := by
  decide

/-- single violations are refused, each with the exception the code raises -/
example : checkInputSection fs {} inputSchemas
    (userOf [("img", .str "l.tif"), ("disp", .list [.int 2, .int (-2)])] [("img", .str "r.tif")]) = .error .value := by decide
example : checkInputSection fs {} inputSchemas
    (userOf [("img", .str "l.tif"), ("disp", .list [.int (-2), .int 2])] [("img", .str "small.tif")]) = .error .attr := by decide
example : checkInputSection fs {} inputSchemas
    (userOf [("img", .str "nowhere.tif"), ("disp", .list [.int (-2), .int 2])] [("img", .str "r.tif")]) = .error .checker := by
  decide
example : checkInputSection fs {} inputSchemas
    (userOf [("img", .str "l.tif"), ("disp", .str "bad_grid.tif")] [("img", .str "r.tif")]) = .error .value := by decide
example : checkInputSection fs {} inputSchemas
    (userOf [("img", .str "l.tif"), ("disp", .list [.int (-2), .int 2])] [("img", .str "r.tif"), ("disp", .str "grid.tif")]) =
    .error .checker := by decide
example : checkInputSection fs {} inputSchemas
    (userOf [("img", .str "l.tif")] [("img", .str "r.tif")]) = .error .key := by decide
example : checkInputSection fs {} inputSchemas
    (userOf [("img", .str "l.tif"), ("disp", .list [.int (-2), .int 2]), ("mask", .str "small.tif")] [("img", .str "r.tif")]) =
    .error .attr := by decide
example : okOf (checkInputSection fs {} inputSchemas
    (userOf [("img", .str "l.tif"), ("disp", .list [.int 5])] [("img", .str "r.tif")])) = false := by decide

end Pandora.C17
