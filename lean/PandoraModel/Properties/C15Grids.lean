/-
  C15 — the per-pixel interval of a finer level: model = specification, and the block loop of
  `disparity_range`.
-/
import PandoraModel.Model.Multiscale
import PandoraModel.Model.MultiscaleBlocks
import PandoraModel.Properties.C15
import PandoraModel.Lemmas.Blocks
import PandoraModel.Lemmas.Median
import PandoraModel.Generated.Blocks
import Mathlib.Tactic.Linarith
import Mathlib.Tactic.Ring
import Mathlib.Algebra.Order.Field.Rat

namespace Pandora.C15
open Pandora.Multiscale

/-! ### 1. Lookups in tabulated grids -/

/-- reading a cell of a grid given by a formula -/
theorem get_tab {α} [Inhabited α] (R C : Nat) (h : Nat → Nat → α) (r c : Nat) (hr : r < R) (hc : c < C) :
    Multiscale.Grid.get ((List.range R).map fun r => (List.range C).map fun c => h r c) r c = h r c := by
  simp [Multiscale.Grid.get, List.getD, hr, hc]

theorem rows_tab {α} (R C : Nat) (h : Nat → Nat → α) :
    Multiscale.Grid.rows ((List.range R).map fun r => (List.range C).map fun c => h r c) = R := by
  simp [Multiscale.Grid.rows]

theorem cols_tab {α} (R C : Nat) (h : Nat → Nat → α) (hR : 0 < R) :
    Multiscale.Grid.cols ((List.range R).map fun r => (List.range C).map fun c => h r c) = C := by
  obtain ⟨R', rfl⟩ : ∃ R', R = R' + 1 := ⟨R - 1, by omega⟩
  simp [Multiscale.Grid.cols, List.getD, List.range_succ_eq_map]

/-! ### 2. `np.nanmin` / `np.nanmax` of a window = min / max of its numeric entries -/

/-- the numeric entries of a list of cells -/
def numOf : Val → Option Rat
  | Val.num q => some q
  | Val.nan => none

def nums (vs : List Val) : List Rat := vs.filterMap numOf

theorem nums_cons_nan (vs : List Val) : nums (Val.nan :: vs) = nums vs := rfl
theorem nums_cons_num (b : Rat) (vs : List Val) : nums (Val.num b :: vs) = b :: nums vs := rfl

def minStep (a b : Rat) : Rat := if b < a then b else a
def maxStep (a b : Rat) : Rat := if a < b then b else a

theorem nanMin_from_num (vs : List Val) : ∀ (a : Rat),
    vs.foldl (fun acc v => match acc, v with
      | Val.nan, x => x
      | x, Val.nan => x
      | Val.num a, Val.num b => Val.num (if b < a then b else a)) (Val.num a)
    = Val.num ((nums vs).foldl minStep a) := by
  induction vs with
  | nil => intro a; rfl
  | cons v vs ih =>
    intro a
    cases v with
    | nan => rw [nums_cons_nan]; exact ih a
    | num b => rw [nums_cons_num]; exact ih (if b < a then b else a)

theorem nanMax_from_num (vs : List Val) : ∀ (a : Rat),
    vs.foldl (fun acc v => match acc, v with
      | Val.nan, x => x
      | x, Val.nan => x
      | Val.num a, Val.num b => Val.num (if a < b then b else a)) (Val.num a)
    = Val.num ((nums vs).foldl maxStep a) := by
  induction vs with
  | nil => intro a; rfl
  | cons v vs ih =>
    intro a
    cases v with
    | nan => rw [nums_cons_nan]; exact ih a
    | num b => rw [nums_cons_num]; exact ih (if a < b then b else a)

/-- **`np.nanmin`**: NaN when the window holds no number, else the minimum of its numbers -/
theorem nanMin_eq (vs : List Val) :
    nanMin vs = match nums vs with
      | [] => Val.nan
      | q :: qs => Val.num (qs.foldl minStep q) := by
  unfold nanMin
  induction vs with
  | nil => rfl
  | cons v vs ih =>
    cases v with
    | nan => rw [nums_cons_nan]; exact ih
    | num b => rw [nums_cons_num]; exact nanMin_from_num vs b

/-- **`np.nanmax`** -/
theorem nanMax_eq (vs : List Val) :
    nanMax vs = match nums vs with
      | [] => Val.nan
      | q :: qs => Val.num (qs.foldl maxStep q) := by
  unfold nanMax
  induction vs with
  | nil => rfl
  | cons v vs ih =>
    cases v with
    | nan => rw [nums_cons_nan]; exact ih
    | num b => rw [nums_cons_num]; exact nanMax_from_num vs b

/-! ### 3. Lookups in `maskInvalid`, `coarseRanges`, `zoom0` -/

/-- a cell of the NaN-masked disparity map -/
def maskedCell (disp : Multiscale.Grid Val) (flags : Multiscale.Grid Nat) (r c : Nat) : Val :=
  if Flags.isInvalid (flags.get r c) then Val.nan else disp.get r c

theorem maskInvalid_get (disp : Multiscale.Grid Val) (flags : Multiscale.Grid Nat) (r c : Nat) (hr : r < disp.rows) (hc : c < disp.cols) :
    (maskInvalid disp flags).get r c = maskedCell disp flags r c :=
  get_tab disp.rows disp.cols (fun r c => maskedCell disp flags r c) r c hr hc

/-- the predicate "the `w × w` window around `(r, c)` lies inside the map" -/
def interiorB (off rows cols r c : Nat) : Bool := off ≤ r && r + off < rows && off ≤ c && c + off < cols

theorem interiorB_iff (off rows cols r c : Nat) :
    interiorB off rows cols r c = true ↔ off ≤ r ∧ r + off < rows ∧ off ≤ c ∧ c + off < cols := by
  simp [interiorB, and_assoc]

/-- the cell of `coarseRanges` (the local function `cell` of the model, named) -/
def coarseCell (disp : Multiscale.Grid Val) (flags : Multiscale.Grid Nat) (window_size marge : Nat) (userMin userMax : Rat)
    (r c : Nat) (isMin : Bool) : Val :=
  let off := (window_size - 1) / 2
  let masked := maskInvalid disp flags
  let umin : Val := Val.num (ratTrunc userMin)
  let umax : Val := Val.num (ratTrunc userMax)
  if !interiorB off disp.rows disp.cols r c then (if isMin then umin else umax)
  else if (masked.get r c).isNan then (if isMin then umin else umax)
  else if isMin then addRat (nanMin (window masked off r c)) (-(marge : Rat))
  else addRat (nanMax (window masked off r c)) (marge : Rat)

theorem coarseRanges_eq (disp : Multiscale.Grid Val) (flags : Multiscale.Grid Nat) (w marge : Nat) (userMin userMax : Rat) :
    coarseRanges disp flags w marge userMin userMax =
      ((List.range disp.rows).map fun r => (List.range disp.cols).map fun c =>
          coarseCell disp flags w marge userMin userMax r c true,
       (List.range disp.rows).map fun r => (List.range disp.cols).map fun c =>
          coarseCell disp flags w marge userMin userMax r c false) := rfl

/-- inside the map the window of the masked map is made of masked cells -/
theorem window_masked (disp : Multiscale.Grid Val) (flags : Multiscale.Grid Nat) (off r c : Nat)
    (hi : interiorB off disp.rows disp.cols r c = true) :
    window (maskInvalid disp flags) off r c =
      (List.range (2 * off + 1)).flatMap fun dr => (List.range (2 * off + 1)).map fun dc =>
        maskedCell disp flags (r - off + dr) (c - off + dc) := by
  rw [interiorB_iff] at hi
  unfold window
  apply List.flatMap_congr
  intro dr hdr
  apply List.map_congr_left
  intro dc hdc
  rw [List.mem_range] at hdr hdc
  exact maskInvalid_get disp flags _ _ (by omega) (by omega)

/-- the valid disparities of the window around `(pr, pc)`, as the specification lists them -/
def specValid (disp : Multiscale.Grid Val) (flags : Multiscale.Grid Nat) (off pr pc : Nat) : List Rat :=
  (List.range (2 * off + 1)).flatMap fun dr => (List.range (2 * off + 1)).filterMap fun dc =>
    let r := pr - off + dr
    let c := pc - off + dc
    if Flags.isInvalid (flags.get r c) then none
    else match disp.get r c with
      | Val.num q => some q
      | Val.nan => none

theorem numOf_maskedCell (disp : Multiscale.Grid Val) (flags : Multiscale.Grid Nat) (r c : Nat) :
    numOf (maskedCell disp flags r c) =
      if Flags.isInvalid (flags.get r c) then none
      else match disp.get r c with
        | Val.num q => some q
        | Val.nan => none := by
  unfold maskedCell
  split
  · rfl
  · cases disp.get r c <;> rfl

/-- the numbers `nanmin`/`nanmax` see in the window are the specification's valid disparities -/
theorem nums_window (disp : Multiscale.Grid Val) (flags : Multiscale.Grid Nat) (off r c : Nat)
    (hi : interiorB off disp.rows disp.cols r c = true) :
    nums (window (maskInvalid disp flags) off r c) = specValid disp flags off r c := by
  rw [window_masked disp flags off r c hi]
  unfold nums specValid
  rw [List.filterMap_flatMap]
  apply List.flatMap_congr
  intro dr _
  rw [List.filterMap_map]
  apply List.filterMap_congr
  intro dc _
  exact numOf_maskedCell disp flags _ _

/-- `zoom(order=0)` by factor 1 would copy every sample to itself -/
theorem zoomIndex_one (n i : Nat) (hi : i < n) : zoomIndex n 1 i = i := by
  unfold zoomIndex
  by_cases h : 1 * n ≤ 1
  · rw [if_pos h]; omega
  · rw [if_neg h]
    obtain ⟨m, rfl⟩ : ∃ m, n = m + 2 := ⟨n - 2, by omega⟩
    apply Nat.div_eq_of_lt_le
    · have e : i * (2 * (1 * (m + 2) - 1)) = 2 * (i * m) + 2 * i := by
        have : 1 * (m + 2) - 1 = m + 1 := by omega
        rw [this]; ring
      have e2 : 2 * i * (m + 2 - 1) = 2 * (i * m) + 2 * i := by
        have : m + 2 - 1 = m + 1 := by omega
        rw [this]; ring
      omega
    · have e : (i + 1) * (2 * (1 * (m + 2) - 1)) = 2 * (i * m) + 2 * i + 2 * m + 2 := by
        have : 1 * (m + 2) - 1 = m + 1 := by omega
        rw [this]; ring
      have e2 : 2 * i * (m + 2 - 1) = 2 * (i * m) + 2 * i := by
        have : m + 2 - 1 = m + 1 := by omega
        rw [this]; ring
      omega

/-- the grid formula used by `coarseRanges`, `zoom0`, `upsampleCrop`, … -/
abbrev tab {α} (R C : Nat) (h : Nat → Nat → α) : Multiscale.Grid α :=
  (List.range R).map fun r => (List.range C).map fun c => h r c

theorem zoom0_tab (R C f : Nat) (h : Nat → Nat → Val) (hR : 0 < R) :
    zoom0 (tab R C h) f = tab (f * R) (f * C) fun i j =>
      (tab R C h).get (zoomIndex R f i) (zoomIndex C f j) := by
  unfold zoom0
  simp only [tab, rows_tab, cols_tab R C h hR]

theorem nextLevelGrids_eq (disp : Multiscale.Grid Val) (flags : Multiscale.Grid Nat) (w marge f : Nat)
    (userMin userMax : Rat) (fineRows fineCols : Nat) :
    nextLevelGrids disp flags w marge f userMin userMax fineRows fineCols =
      (upsampleCrop (coarseRanges disp flags w marge userMin userMax).1 f fineRows fineCols,
       upsampleCrop (coarseRanges disp flags w marge userMin userMax).2 f fineRows fineCols) := rfl

/-- a cell of the upsampled, multiplied and cropped grid -/
theorem upsampleCrop_tab (R C f fineRows fineCols : Nat) (h : Nat → Nat → Val) (i j : Nat) (hf : 1 ≤ f)
    (hi : i < fineRows) (hj : j < fineCols) (hiz : i < f * R) (hjz : j < f * C) :
    (upsampleCrop (tab R C h) f fineRows fineCols).get i j =
      (h (zoomIndex R f i) (zoomIndex C f j)).map (· * (f : Rat)) := by
  have hR : 0 < R := by
    rcases Nat.eq_zero_or_pos R with h0 | h0
    · subst h0; omega
    · exact h0
  have hC : 0 < C := by
    rcases Nat.eq_zero_or_pos C with h0 | h0
    · subst h0; omega
    · exact h0
  unfold upsampleCrop
  by_cases h1 : f = 1
  · subst h1
    simp only [if_true, rows_tab, cols_tab R C h hR]
    rw [get_tab _ _ _ i j (by omega) (by omega), get_tab R C h i j (by omega) (by omega),
      zoomIndex_one R i (by omega), zoomIndex_one C j (by omega)]
  · simp only [if_neg h1, zoom0_tab R C f h hR, rows_tab, cols_tab (f * R) (f * C) _ (by omega : 0 < f * R)]
    rw [get_tab _ _ _ i j (by omega) (by omega), get_tab (f * R) (f * C) _ i j hiz hjz,
      get_tab R C h _ _ (zoomIndex_lt R f i hR hf hiz) (zoomIndex_lt C f j hC hf hjz)]

/-! ### 4. Model = specification at the parent chosen by `zoom(order=0)` -/

/-- the specification, with its list of valid window disparities named -/
theorem specInterval_eq (disp : Multiscale.Grid Val) (flags : Multiscale.Grid Nat) (w marge f : Nat)
    (userMin userMax : Rat) (pr pc : Nat) :
    specInterval disp flags w marge f userMin userMax pr pc =
      if (!interiorB ((w - 1) / 2) disp.rows disp.cols pr pc || Flags.isInvalid (flags.get pr pc)) = true then
        (Val.num ((f : Rat) * ratTrunc userMin), Val.num ((f : Rat) * ratTrunc userMax))
      else match specValid disp flags ((w - 1) / 2) pr pc with
        | [] => (Val.nan, Val.nan)
        | q :: qs => (Val.num ((f : Rat) * (qs.foldl minStep q - marge)),
                      Val.num ((f : Rat) * (qs.foldl maxStep q + marge))) := rfl

/-- **The coarse cell, multiplied by the factor, is the specified interval of that coarse pixel.**
    `hnum`: a pixel that is not flagged invalid carries a number (Pandora writes its NaN
    `invalid_disparity` on invalid pixels only); without it the code gives a valid NaN pixel the user
    interval while the statement speaks of the window (see `nan_valid_parent_differs`). -/
theorem coarseCell_spec (disp : Multiscale.Grid Val) (flags : Multiscale.Grid Nat) (w marge f : Nat)
    (userMin userMax : Rat) (pr pc : Nat) (hr : pr < disp.rows) (hc : pc < disp.cols)
    (hnum : Flags.isInvalid (flags.get pr pc) = false → (disp.get pr pc).isNan = false) :
    ((coarseCell disp flags w marge userMin userMax pr pc true).map (· * (f : Rat)),
     (coarseCell disp flags w marge userMin userMax pr pc false).map (· * (f : Rat)))
      = specInterval disp flags w marge f userMin userMax pr pc := by
  rw [specInterval_eq]
  unfold coarseCell
  dsimp only
  simp only [↓reduceIte, Bool.false_eq_true]
  by_cases hi : interiorB ((w - 1) / 2) disp.rows disp.cols pr pc = true
  · rw [maskInvalid_get disp flags pr pc hr hc, nanMin_eq, nanMax_eq, nums_window disp flags _ pr pc hi]
    simp only [hi, Bool.not_true, Bool.false_eq_true, ↓reduceIte, Bool.false_or]
    unfold maskedCell
    by_cases hv : Flags.isInvalid (flags.get pr pc) = true
    · simp only [hv, ↓reduceIte, Val.isNan, Val.map]
      rw [mul_comm, mul_comm (ratTrunc userMax : Rat)]
    · have hv' : Flags.isInvalid (flags.get pr pc) = false := by simpa using hv
      have hn := hnum hv'
      simp only [hv', Bool.false_eq_true, ↓reduceIte, hn]
      cases specValid disp flags ((w - 1) / 2) pr pc with
      | nil => rfl
      | cons q qs =>
        simp only [addRat, Val.map]
        congr 2 <;> ring
  · have hi' : interiorB ((w - 1) / 2) disp.rows disp.cols pr pc = false := by simpa using hi
    simp only [hi', Bool.not_false, ↓reduceIte, Bool.true_or, Val.map]
    rw [mul_comm, mul_comm (ratTrunc userMax : Rat)]

/-- **Model = specification.**  For every disparity map, validity mask, window size, marge, factor `f ≥ 1`,
    user interval and size of the finer level: at every fine pixel `(i, j)` inside the cropped upsampled
    grid, the pair `nextLevelGrids` holds is `specInterval` evaluated at the coarse pixel
    `(zoomIndex rows f i, zoomIndex cols f j)` — the parent that `parent_near` shows to be within one pixel
    of `(i / f, j / f)`.  No shape hypothesis is needed: model and specification read both maps through the
    same total lookup `Grid.get` (`rows` = number of rows, `cols` = length of the first row). -/
theorem nextLevelGrids_eq_spec (disp : Multiscale.Grid Val) (flags : Multiscale.Grid Nat) (w marge f : Nat)
    (userMin userMax : Rat) (fineRows fineCols i j : Nat) (hf : 1 ≤ f)
    (hi : i < fineRows) (hj : j < fineCols) (hiz : i < f * disp.rows) (hjz : j < f * disp.cols)
    (hnum : Flags.isInvalid (flags.get (zoomIndex disp.rows f i) (zoomIndex disp.cols f j)) = false →
      (disp.get (zoomIndex disp.rows f i) (zoomIndex disp.cols f j)).isNan = false) :
    ((nextLevelGrids disp flags w marge f userMin userMax fineRows fineCols).1.get i j,
     (nextLevelGrids disp flags w marge f userMin userMax fineRows fineCols).2.get i j)
      = specInterval disp flags w marge f userMin userMax (zoomIndex disp.rows f i) (zoomIndex disp.cols f j) := by
  have hR : 0 < disp.rows := by
    rcases Nat.eq_zero_or_pos disp.rows with h0 | h0
    · rw [h0] at hiz; omega
    · exact h0
  have hC : 0 < disp.cols := by
    rcases Nat.eq_zero_or_pos disp.cols with h0 | h0
    · rw [h0] at hjz; omega
    · exact h0
  rw [nextLevelGrids_eq, coarseRanges_eq]
  dsimp only
  rw [upsampleCrop_tab disp.rows disp.cols f fineRows fineCols _ i j hf hi hj hiz hjz,
    upsampleCrop_tab disp.rows disp.cols f fineRows fineCols _ i j hf hi hj hiz hjz]
  exact coarseCell_spec disp flags w marge f userMin userMax _ _
    (zoomIndex_lt disp.rows f i hR hf hiz) (zoomIndex_lt disp.cols f j hC hf hjz) hnum

/-- for factor 1 (no upsampling) the parent of `(i, j)` is `(i, j)` itself -/
theorem nextLevelGrids_eq_spec_one (disp : Multiscale.Grid Val) (flags : Multiscale.Grid Nat) (w marge : Nat)
    (userMin userMax : Rat) (fineRows fineCols i j : Nat)
    (hi : i < fineRows) (hj : j < fineCols) (hiz : i < disp.rows) (hjz : j < disp.cols)
    (hnum : Flags.isInvalid (flags.get i j) = false → (disp.get i j).isNan = false) :
    ((nextLevelGrids disp flags w marge 1 userMin userMax fineRows fineCols).1.get i j,
     (nextLevelGrids disp flags w marge 1 userMin userMax fineRows fineCols).2.get i j)
      = specInterval disp flags w marge 1 userMin userMax i j := by
  have h := nextLevelGrids_eq_spec disp flags w marge 1 userMin userMax fineRows fineCols i j (le_refl 1) hi hj
    (by omega) (by omega)
  rw [zoomIndex_one disp.rows i hiz, zoomIndex_one disp.cols j hjz] at h
  exact h hnum

/-! ### 5. What the property states about the interval -/

theorem ratTrunc_mono (a b : Rat) (h : a ≤ b) : ratTrunc a ≤ ratTrunc b := by
  unfold ratTrunc
  have fl : ∀ q : Rat, ((q.floor : Int) : Rat) ≤ q := fun q => Rat.le_floor_iff.mp (le_refl _)
  have cl : ∀ q : Rat, q ≤ ((q.ceil : Int) : Rat) := fun q => Rat.ceil_le_iff.mp (le_refl _)
  by_cases ha : 0 ≤ a
  · have hb : 0 ≤ b := le_trans ha h
    rw [if_pos ha, if_pos hb]
    exact Rat.le_floor_iff.mpr (le_trans (fl a) h)
  · rw [if_neg ha]
    by_cases hb : 0 ≤ b
    · rw [if_pos hb]
      have h1 : a.ceil ≤ 0 := Rat.ceil_le_iff.mpr (by push_cast; linarith)
      have h2 : (0 : Int) ≤ b.floor := Rat.le_floor_iff.mpr (by simpa using hb)
      omega
    · rw [if_neg hb]
      exact Rat.ceil_le_iff.mpr (le_trans h (cl b))

/-- the parent's own disparity is one of the valid disparities of its window (the window contains its centre) -/
theorem centre_mem_specValid (disp : Multiscale.Grid Val) (flags : Multiscale.Grid Nat) (off pr pc : Nat) (d : Rat)
    (hi : interiorB off disp.rows disp.cols pr pc = true)
    (hv : Flags.isInvalid (flags.get pr pc) = false) (hd : disp.get pr pc = Val.num d) :
    d ∈ specValid disp flags off pr pc := by
  rw [interiorB_iff] at hi
  unfold specValid
  refine List.mem_flatMap.2 ⟨off, List.mem_range.2 (by omega), List.mem_filterMap.2 ⟨off, List.mem_range.2 (by omega), ?_⟩⟩
  have h1 : pr - off + off = pr := by omega
  have h2 : pc - off + off = pc := by omega
  simp only [h1, h2, hv, hd, Bool.false_eq_true, if_false]

/-- `invalid_parent_full_interval`: a parent that is invalid or nearer to the border than the window radius
    hands down `f ×` the (truncated) user interval of the coarse level -/
theorem specInterval_user (disp : Multiscale.Grid Val) (flags : Multiscale.Grid Nat) (w marge f : Nat)
    (userMin userMax : Rat) (pr pc : Nat)
    (h : interiorB ((w - 1) / 2) disp.rows disp.cols pr pc = false ∨ Flags.isInvalid (flags.get pr pc) = true) :
    specInterval disp flags w marge f userMin userMax pr pc =
      (Val.num ((f : Rat) * ratTrunc userMin), Val.num ((f : Rat) * ratTrunc userMax)) := by
  rw [specInterval_eq]
  rcases h with h | h <;> simp [h]

/-- `finer_interval_rule`: a valid interior parent of disparity `d` hands down an interval that contains
    `[f·(d − marge), f·(d + marge)]` -/
theorem specInterval_contains_parent (disp : Multiscale.Grid Val) (flags : Multiscale.Grid Nat) (w marge f : Nat)
    (userMin userMax : Rat) (pr pc : Nat) (d : Rat)
    (hi : interiorB ((w - 1) / 2) disp.rows disp.cols pr pc = true)
    (hv : Flags.isInvalid (flags.get pr pc) = false) (hd : disp.get pr pc = Val.num d) :
    ∃ lo hi', specInterval disp flags w marge f userMin userMax pr pc = (Val.num lo, Val.num hi')
      ∧ lo ≤ (f : Rat) * (d - marge) ∧ (f : Rat) * (d + marge) ≤ hi' := by
  have hmem := centre_mem_specValid disp flags _ pr pc d hi hv hd
  rw [specInterval_eq]
  simp only [hi, hv, Bool.not_true, Bool.or_false, Bool.false_eq_true, if_false]
  have hf0 : (0 : Rat) ≤ (f : Rat) := Nat.cast_nonneg f
  cases hl : specValid disp flags ((w - 1) / 2) pr pc with
  | nil => rw [hl] at hmem; simp at hmem
  | cons q qs =>
    rw [hl] at hmem
    refine ⟨_, _, rfl, ?_, ?_⟩
    · have h := Filter.foldl_min_le qs q
      have hle : qs.foldl minStep q ≤ d := by
        rcases List.mem_cons.1 hmem with rfl | hm
        · exact h.1
        · exact h.2 d hm
      exact mul_le_mul_of_nonneg_left (by linarith) hf0
    · have h := Filter.foldl_max_ge qs q
      have hle : d ≤ qs.foldl maxStep q := by
        rcases List.mem_cons.1 hmem with rfl | hm
        · exact h.1
        · exact h.2 d hm
      exact mul_le_mul_of_nonneg_left (by linarith) hf0

/-- every coarse pixel hands down a non-empty interval `min ≤ max`, provided the user interval is one -/
theorem specInterval_min_le_max (disp : Multiscale.Grid Val) (flags : Multiscale.Grid Nat) (w marge f : Nat)
    (userMin userMax : Rat) (pr pc : Nat) (huser : userMin ≤ userMax)
    (hnum : Flags.isInvalid (flags.get pr pc) = false → (disp.get pr pc).isNan = false) :
    ∃ lo hi', specInterval disp flags w marge f userMin userMax pr pc = (Val.num lo, Val.num hi') ∧ lo ≤ hi' := by
  have hf0 : (0 : Rat) ≤ (f : Rat) := Nat.cast_nonneg f
  by_cases hi : interiorB ((w - 1) / 2) disp.rows disp.cols pr pc = true
  · by_cases hv : Flags.isInvalid (flags.get pr pc) = true
    · refine ⟨_, _, specInterval_user disp flags w marge f userMin userMax pr pc (Or.inr hv), ?_⟩
      exact mul_le_mul_of_nonneg_left (by exact_mod_cast ratTrunc_mono _ _ huser) hf0
    · have hv' : Flags.isInvalid (flags.get pr pc) = false := by simpa using hv
      have hn := hnum hv'
      cases hd : disp.get pr pc with
      | nan => rw [hd] at hn; simp [Val.isNan] at hn
      | num d =>
        obtain ⟨lo, hi', he, h1, h2⟩ :=
          specInterval_contains_parent disp flags w marge f userMin userMax pr pc d hi hv' hd
        refine ⟨lo, hi', he, ?_⟩
        have hm : (0 : Rat) ≤ (marge : Rat) := Nat.cast_nonneg marge
        have : (f : Rat) * (d - marge) ≤ (f : Rat) * (d + marge) :=
          mul_le_mul_of_nonneg_left (by linarith) hf0
        linarith
  · have hi' : interiorB ((w - 1) / 2) disp.rows disp.cols pr pc = false := by simpa using hi
    refine ⟨_, _, specInterval_user disp flags w marge f userMin userMax pr pc (Or.inl hi'), ?_⟩
    exact mul_le_mul_of_nonneg_left (by exact_mod_cast ratTrunc_mono _ _ huser) hf0

/-- **The interval the next level searches at a fine pixel whose parent is a valid interior pixel of
    disparity `d` contains `[f·(d − marge), f·(d + marge)]`** (stated on the model `nextLevelGrids`). -/
theorem fine_interval_contains_parent (disp : Multiscale.Grid Val) (flags : Multiscale.Grid Nat) (w marge f : Nat)
    (userMin userMax : Rat) (fineRows fineCols i j : Nat) (d : Rat) (hf : 1 ≤ f)
    (hi : i < fineRows) (hj : j < fineCols) (hiz : i < f * disp.rows) (hjz : j < f * disp.cols)
    (hint : interiorB ((w - 1) / 2) disp.rows disp.cols (zoomIndex disp.rows f i) (zoomIndex disp.cols f j) = true)
    (hv : Flags.isInvalid (flags.get (zoomIndex disp.rows f i) (zoomIndex disp.cols f j)) = false)
    (hd : disp.get (zoomIndex disp.rows f i) (zoomIndex disp.cols f j) = Val.num d) :
    ∃ lo hi',
      (nextLevelGrids disp flags w marge f userMin userMax fineRows fineCols).1.get i j = Val.num lo
      ∧ (nextLevelGrids disp flags w marge f userMin userMax fineRows fineCols).2.get i j = Val.num hi'
      ∧ lo ≤ (f : Rat) * (d - marge) ∧ (f : Rat) * (d + marge) ≤ hi' := by
  have h := nextLevelGrids_eq_spec disp flags w marge f userMin userMax fineRows fineCols i j hf hi hj hiz hjz
    (fun _ => by rw [hd]; rfl)
  obtain ⟨lo, hi', he, h1, h2⟩ :=
    specInterval_contains_parent disp flags w marge f userMin userMax _ _ d hint hv hd
  rw [he] at h
  exact ⟨lo, hi', congrArg Prod.fst h, congrArg Prod.snd h, h1, h2⟩

/-- **A fine pixel whose parent is invalid or on the border searches `f ×` the user interval of the coarse level.** -/
theorem fine_interval_user (disp : Multiscale.Grid Val) (flags : Multiscale.Grid Nat) (w marge f : Nat)
    (userMin userMax : Rat) (fineRows fineCols i j : Nat) (hf : 1 ≤ f)
    (hi : i < fineRows) (hj : j < fineCols) (hiz : i < f * disp.rows) (hjz : j < f * disp.cols)
    (h : interiorB ((w - 1) / 2) disp.rows disp.cols (zoomIndex disp.rows f i) (zoomIndex disp.cols f j) = false
      ∨ Flags.isInvalid (flags.get (zoomIndex disp.rows f i) (zoomIndex disp.cols f j)) = true) :
    (nextLevelGrids disp flags w marge f userMin userMax fineRows fineCols).1.get i j
        = Val.num ((f : Rat) * ratTrunc userMin)
    ∧ (nextLevelGrids disp flags w marge f userMin userMax fineRows fineCols).2.get i j
        = Val.num ((f : Rat) * ratTrunc userMax) := by
  -- the hypothesis of `nextLevelGrids_eq_spec` is only needed for a valid interior parent; here the cell
  -- is the user interval in the model whatever the disparity
  have hR : 0 < disp.rows := by
    rcases Nat.eq_zero_or_pos disp.rows with h0 | h0
    · rw [h0] at hiz; omega
    · exact h0
  have hC : 0 < disp.cols := by
    rcases Nat.eq_zero_or_pos disp.cols with h0 | h0
    · rw [h0] at hjz; omega
    · exact h0
  have hr := zoomIndex_lt disp.rows f i hR hf hiz
  have hc := zoomIndex_lt disp.cols f j hC hf hjz
  rw [nextLevelGrids_eq, coarseRanges_eq]
  dsimp only
  rw [upsampleCrop_tab disp.rows disp.cols f fineRows fineCols _ i j hf hi hj hiz hjz,
    upsampleCrop_tab disp.rows disp.cols f fineRows fineCols _ i j hf hi hj hiz hjz]
  unfold coarseCell
  dsimp only
  rw [maskInvalid_get disp flags _ _ hr hc]
  unfold maskedCell
  rcases h with h | h
  · simp only [h, Bool.not_false, ↓reduceIte, Bool.false_eq_true, Val.map]
    constructor <;> rw [mul_comm]
  · by_cases hint : interiorB ((w - 1) / 2) disp.rows disp.cols (zoomIndex disp.rows f i) (zoomIndex disp.cols f j) = true
    · simp only [hint, h, Bool.not_true, ↓reduceIte, Bool.false_eq_true, Val.isNan, Val.map]
      constructor <;> rw [mul_comm]
    · have hint' : interiorB ((w - 1) / 2) disp.rows disp.cols (zoomIndex disp.rows f i) (zoomIndex disp.cols f j) = false := by
        simpa using hint
      simp only [hint', Bool.not_false, ↓reduceIte, Bool.false_eq_true, Val.map]
      constructor <;> rw [mul_comm]

/-- **Every fine pixel gets a non-empty interval** (`min ≤ max`), the user interval being one. -/
theorem fine_interval_min_le_max (disp : Multiscale.Grid Val) (flags : Multiscale.Grid Nat) (w marge f : Nat)
    (userMin userMax : Rat) (fineRows fineCols i j : Nat) (hf : 1 ≤ f)
    (hi : i < fineRows) (hj : j < fineCols) (hiz : i < f * disp.rows) (hjz : j < f * disp.cols)
    (huser : userMin ≤ userMax)
    (hnum : Flags.isInvalid (flags.get (zoomIndex disp.rows f i) (zoomIndex disp.cols f j)) = false →
      (disp.get (zoomIndex disp.rows f i) (zoomIndex disp.cols f j)).isNan = false) :
    ∃ lo hi',
      (nextLevelGrids disp flags w marge f userMin userMax fineRows fineCols).1.get i j = Val.num lo
      ∧ (nextLevelGrids disp flags w marge f userMin userMax fineRows fineCols).2.get i j = Val.num hi'
      ∧ lo ≤ hi' := by
  have h := nextLevelGrids_eq_spec disp flags w marge f userMin userMax fineRows fineCols i j hf hi hj hiz hjz hnum
  obtain ⟨lo, hi', he, hle⟩ := specInterval_min_le_max disp flags w marge f userMin userMax _ _ huser hnum
  rw [he] at h
  exact ⟨lo, hi', congrArg Prod.fst h, congrArg Prod.snd h, hle⟩

/-! ### 6. The block loop of `disparity_range` -/

/-- the window `sliding_window` puts at index `(r - off, c - off)` is the window centred on `(r, c)`
    (odd side `w = 2·off + 1`) -/
theorem windowAt_centred (g : Multiscale.Grid Val) (w off r c : Nat) (hw : w = 2 * off + 1) :
    windowAt g w (r - off) (c - off) = window g off r c := by
  subst hw; rfl

/-- one band: the block loop (any split whose offsets start at the window radius) followed by the reset of
    the NaN cells computes the per-pixel formula of `coarseRanges` -/
theorem rangeBand_cell (s : Blocks.Split) (disp : Multiscale.Grid Val) (flags : Multiscale.Grid Nat)
    (w marge : Nat) (userMin userMax : Rat) (isMin : Bool)
    (hy : s.beginY = (w - 1) / 2) (hx : s.beginX = (w - 1) / 2) (hodd : w % 2 = 1)
    (hrows : w ≤ disp.rows) (hcols : w ≤ disp.cols) (r c : Nat) :
    (if ((maskInvalid disp flags).get r c).isNan then
        (if isMin then Val.num (ratTrunc userMin) else Val.num (ratTrunc userMax))
      else Blocks.blocked (s.plan (disp.rows - w + 1) (disp.cols - w + 1) [disp.rows, disp.cols])
        (rangeKernel (maskInvalid disp flags) w marge isMin)
        (fun _ _ => if isMin then Val.num (ratTrunc userMin) else Val.num (ratTrunc userMax)) r c)
      = coarseCell disp flags w marge userMin userMax r c isMin := by
  rw [Blocks.blocked_eq_direct]
  simp only [Blocks.direct, Blocks.Split.plan, hy, hx]
  unfold coarseCell
  dsimp only
  have hw : w = 2 * ((w - 1) / 2) + 1 := by omega
  have hiff : ((w - 1) / 2 ≤ r ∧ r < (w - 1) / 2 + (disp.rows - w + 1) ∧ (w - 1) / 2 ≤ c
      ∧ c < (w - 1) / 2 + (disp.cols - w + 1)) ↔ interiorB ((w - 1) / 2) disp.rows disp.cols r c = true := by
    rw [interiorB_iff]; omega
  by_cases hi : interiorB ((w - 1) / 2) disp.rows disp.cols r c = true
  · rw [if_pos (hiff.2 hi)]
    simp only [hi, Bool.not_true, Bool.false_eq_true, ↓reduceIte]
    unfold rangeKernel
    rw [windowAt_centred _ w ((w - 1) / 2) r c hw]
  · rw [if_neg (fun h => hi (hiff.1 h))]
    have hi' : interiorB ((w - 1) / 2) disp.rows disp.cols r c = false := by simpa using hi
    simp [hi']

/-- **Block independence of `disparity_range`.**  For every disparity map and validity mask, every odd
    window that fits in the map, every marge and user interval, and every split of the window array into
    chunks (any `np.arange(start, stop, step)` on both axes — the step 100 of the source is one instance)
    whose offsets start at the window radius `int((w - 1) / 2)`: the two maps filled chunk by chunk at
    accumulated offsets are the maps `coarseRanges` computes pixel by pixel. -/
theorem coarseRangesBlocked_eq (s : Blocks.Split) (disp : Multiscale.Grid Val) (flags : Multiscale.Grid Nat)
    (w marge : Nat) (userMin userMax : Rat)
    (hy : s.beginY = (w - 1) / 2) (hx : s.beginX = (w - 1) / 2) (hodd : w % 2 = 1)
    (hrows : w ≤ disp.rows) (hcols : w ≤ disp.cols) :
    coarseRangesBlocked s disp flags w marge userMin userMax = coarseRanges disp flags w marge userMin userMax := by
  rw [coarseRanges_eq]
  unfold coarseRangesBlocked rangeBandBlocked Blocks.tabulate
  dsimp only
  refine Prod.ext ?_ ?_
  · dsimp only
    apply List.map_congr_left
    intro r _
    apply List.map_congr_left
    intro c _
    exact rangeBand_cell s disp flags w marge userMin userMax true hy hx hodd hrows hcols r c
  · dsimp only
    apply List.map_congr_left
    intro r _
    apply List.map_congr_left
    intro c _
    exact rangeBand_cell s disp flags w marge userMin userMax false hy hx hodd hrows hcols r c

/-- two splits with the same initial offsets give the same maps (no hypothesis on the window or the sizes) -/
theorem coarseRangesBlocked_block_independent (s s' : Blocks.Split) (disp : Multiscale.Grid Val)
    (flags : Multiscale.Grid Nat) (w marge : Nat) (userMin userMax : Rat)
    (hy : s.beginY = s'.beginY) (hx : s.beginX = s'.beginX) :
    coarseRangesBlocked s disp flags w marge userMin userMax
      = coarseRangesBlocked s' disp flags w marge userMin userMax := by
  unfold coarseRangesBlocked rangeBandBlocked
  simp only [Blocks.blocked_eq_direct]
  simp [Blocks.direct, Blocks.Split.plan, hy, hx]

/-- the whole step through the block loop is the model the harness compares with the implementation -/
theorem nextLevelGridsBlocked_eq (s : Blocks.Split) (disp : Multiscale.Grid Val) (flags : Multiscale.Grid Nat)
    (w marge f : Nat) (userMin userMax : Rat) (fineRows fineCols : Nat)
    (hy : s.beginY = (w - 1) / 2) (hx : s.beginX = (w - 1) / 2) (hodd : w % 2 = 1)
    (hrows : w ≤ disp.rows) (hcols : w ≤ disp.cols) :
    nextLevelGridsBlocked s disp flags w marge f userMin userMax fineRows fineCols
      = nextLevelGrids disp flags w marge f userMin userMax fineRows fineCols := by
  unfold nextLevelGridsBlocked
  rw [coarseRangesBlocked_eq s disp flags w marge userMin userMax hy hx hodd hrows hcols, nextLevelGrids_eq]

/-! ### 7. The statements for the loop literals found in fixed_zoom_pyramid.py on this run -/

set_option linter.unusedVariables false in
set_option linter.unnecessarySeqFocus false in
/-- for an odd window the offsets the source starts from are the window radius of the model (whether the
    source writes `int((w - 1) / 2)` or `int(w / 2)`), and its steps are positive; which dimension each
    `np.arange` stops at is irrelevant to the result, so nothing is required of it -/
theorem source_multiscaleRange_offsets (w : Nat) (hodd : w % 2 = 1) :
    (Generated.Blocks.multiscaleRange w).beginY = (w - 1) / 2
    ∧ (Generated.Blocks.multiscaleRange w).beginX = (w - 1) / 2
    ∧ 0 < (Generated.Blocks.multiscaleRange w).stepY ∧ 0 < (Generated.Blocks.multiscaleRange w).stepX := by
  refine ⟨?_, ?_, ?_, ?_⟩ <;>
    first
    | rfl
    | (simp only [Generated.Blocks.multiscaleRange] <;> omega)

/-- `disparity_range` with the chunk loop read in the source computes `coarseRanges` -/
theorem source_multiscaleRange_spec (disp : Multiscale.Grid Val) (flags : Multiscale.Grid Nat) (w marge : Nat)
    (userMin userMax : Rat) (hodd : w % 2 = 1) (hrows : w ≤ disp.rows) (hcols : w ≤ disp.cols) :
    coarseRangesBlocked (Generated.Blocks.multiscaleRange w) disp flags w marge userMin userMax
      = coarseRanges disp flags w marge userMin userMax :=
  coarseRangesBlocked_eq _ disp flags w marge userMin userMax (source_multiscaleRange_offsets w hodd).1
    (source_multiscaleRange_offsets w hodd).2.1 hodd hrows hcols

/-- **Source loop + upsampling + crop = specification**: with the chunk loop read in the source, every fine
    pixel inside the cropped upsampled grid searches the interval the statement gives its parent. -/
theorem source_nextLevel_spec (disp : Multiscale.Grid Val) (flags : Multiscale.Grid Nat) (w marge f : Nat)
    (userMin userMax : Rat) (fineRows fineCols i j : Nat) (hf : 1 ≤ f)
    (hodd : w % 2 = 1) (hrows : w ≤ disp.rows) (hcols : w ≤ disp.cols)
    (hi : i < fineRows) (hj : j < fineCols) (hiz : i < f * disp.rows) (hjz : j < f * disp.cols)
    (hnum : Flags.isInvalid (flags.get (zoomIndex disp.rows f i) (zoomIndex disp.cols f j)) = false →
      (disp.get (zoomIndex disp.rows f i) (zoomIndex disp.cols f j)).isNan = false) :
    ((nextLevelGridsBlocked (Generated.Blocks.multiscaleRange w) disp flags w marge f userMin userMax
        fineRows fineCols).1.get i j,
     (nextLevelGridsBlocked (Generated.Blocks.multiscaleRange w) disp flags w marge f userMin userMax
        fineRows fineCols).2.get i j)
      = specInterval disp flags w marge f userMin userMax (zoomIndex disp.rows f i) (zoomIndex disp.cols f j) := by
  rw [nextLevelGridsBlocked_eq _ disp flags w marge f userMin userMax fineRows fineCols
    (source_multiscaleRange_offsets w hodd).1 (source_multiscaleRange_offsets w hodd).2.1 hodd hrows hcols]
  exact nextLevelGrids_eq_spec disp flags w marge f userMin userMax fineRows fineCols i j hf hi hj hiz hjz hnum

/-! ### 8. Non-vacuity, and why `hnum` is needed -/

/-- a 4 × 5 coarse map with one invalid pixel (bit 6) next to the interior -/
def demoDisp : Multiscale.Grid Val :=
  [[.num 1, .num 2, .num 3, .num 2, .num 1],
   [.num 0, .num 4, .num (-2), .num 5, .num 1],
   [.num 1, .num 3, .num 7, .num 2, .num 0],
   [.num 2, .num 2, .num 1, .num 1, .num 3]]
def demoFlags : Multiscale.Grid Nat :=
  [[0, 0, 0, 0, 0], [0, 0, 64, 0, 0], [0, 0, 0, 4, 0], [0, 0, 0, 0, 0]]

/-- fine pixel (3, 4) of the 7 × 9 finer level (factor 2): parent (1, 2) is invalid → user interval × 2;
    fine pixel (4, 3): parent (2, 1) is a valid interior pixel of disparity 3 whose window holds the valid
    values 0, 4, 1, 3, 7, 2, 2, 1 (the invalid −2 is ignored) → 2·[0 − 1, 7 + 1] ⊇ 2·[3 − 1, 3 + 1] -/
example : zoomIndex 4 2 3 = 1 ∧ zoomIndex 5 2 4 = 2 ∧ zoomIndex 4 2 4 = 2 ∧ zoomIndex 5 2 3 = 1 := by decide
example : (nextLevelGrids demoDisp demoFlags 3 1 2 (-7 / 2) (7 / 2) 7 9).1.get 3 4 = .num (-6)
    ∧ (nextLevelGrids demoDisp demoFlags 3 1 2 (-7 / 2) (7 / 2) 7 9).2.get 3 4 = .num 6 := by decide +kernel
example : (nextLevelGrids demoDisp demoFlags 3 1 2 (-7 / 2) (7 / 2) 7 9).1.get 4 3 = .num (-2)
    ∧ (nextLevelGrids demoDisp demoFlags 3 1 2 (-7 / 2) (7 / 2) 7 9).2.get 4 3 = .num 16 := by decide +kernel
/-- the hypotheses of `nextLevelGrids_eq_spec` / `fine_interval_contains_parent` hold there -/
example : 1 ≤ 2 ∧ 4 < 7 ∧ 3 < 9 ∧ 4 < 2 * demoDisp.rows ∧ 3 < 2 * demoDisp.cols
    ∧ interiorB ((3 - 1) / 2) demoDisp.rows demoDisp.cols 2 1 = true
    ∧ Flags.isInvalid (demoFlags.get 2 1) = false ∧ demoDisp.get 2 1 = .num 3 := by decide +kernel
/-- the specification rejects another interval: it is not trivially true -/
example : specInterval demoDisp demoFlags 3 1 2 (-7 / 2) (7 / 2) 2 1 = (.num (-2), .num 16) := by decide +kernel

/-- a split that really cuts the 2 × 3 window array of the 4 × 5 map (steps 1 and 2: 2 row chunks, 2 column
    chunks) with offsets at the radius: hypotheses of `coarseRangesBlocked_eq` satisfiable, and the blocked
    model really runs through several chunks -/
def demoSplit : Blocks.Split :=
  { startY := 1, stepY := 1, stopYDim := 0, startX := 2, stepX := 2, stopXDim := 1, beginY := 1, beginX := 1 }
example : (Blocks.arraySplit 2 (Blocks.arange 1 4 1)).length = 4 ∧ (Blocks.arraySplit 3 (Blocks.arange 2 5 2)).length = 3
    ∧ demoSplit.beginY = (3 - 1) / 2 ∧ 3 % 2 = 1 ∧ 3 ≤ demoDisp.rows ∧ 3 ≤ demoDisp.cols := by decide
example : coarseRangesBlocked demoSplit demoDisp demoFlags 3 1 (-7 / 2) (7 / 2)
    = coarseRanges demoDisp demoFlags 3 1 (-7 / 2) (7 / 2) := by decide +kernel
/-- with the split read in the source: interior valid cell (2, 2), invalid cell (1, 2), border cell (0, 0) -/
example : (coarseRangesBlocked (Generated.Blocks.multiscaleRange 3) demoDisp demoFlags 3 1 (-7 / 2) (7 / 2)).1.get 2 2 = .num 0
    ∧ (coarseRangesBlocked (Generated.Blocks.multiscaleRange 3) demoDisp demoFlags 3 1 (-7 / 2) (7 / 2)).2.get 2 2 = .num 8
    ∧ (coarseRangesBlocked (Generated.Blocks.multiscaleRange 3) demoDisp demoFlags 3 1 (-7 / 2) (7 / 2)).1.get 1 2 = .num (-3)
    ∧ (coarseRangesBlocked (Generated.Blocks.multiscaleRange 3) demoDisp demoFlags 3 1 (-7 / 2) (7 / 2)).2.get 0 0 = .num 3 := by
  decide +kernel
/-- with offsets that do not start at the radius the chunk loop writes somewhere else: the hypothesis on
    the offsets is not decorative -/
example : coarseRangesBlocked { demoSplit with beginY := 0 } demoDisp demoFlags 3 1 (-7 / 2) (7 / 2)
    ≠ coarseRanges demoDisp demoFlags 3 1 (-7 / 2) (7 / 2) := by decide +kernel

/-- **Why `hnum`.**  A pixel that is *not* flagged invalid but whose disparity is NaN: the code
    (`invalid_ind = where(isnan(tmp_disp_map))`) gives it the user interval, the statement ("valid coarse
    disparities in the window around the parent, user interval when the parent is invalid") gives it the
    window's interval.  Pandora writes NaN (`invalid_disparity: "NaN"`) on invalid pixels only, so the case
    does not arise in a run; it is the exact boundary of the theorem. -/
theorem nan_valid_parent_differs :
    (nextLevelGrids [[.num 0, .num 0, .num 0], [.num 0, .nan, .num 0], [.num 0, .num 0, .num 0]]
        [[0, 0, 0], [0, 0, 0], [0, 0, 0]] 3 0 1 (-5) 5 3 3).1.get 1 1 = .num (-5)
    ∧ (specInterval [[.num 0, .num 0, .num 0], [.num 0, .nan, .num 0], [.num 0, .num 0, .num 0]]
        [[0, 0, 0], [0, 0, 0], [0, 0, 0]] 3 0 1 (-5) 5 1 1).1 = .num 0 := by decide +kernel

end Pandora.C15
