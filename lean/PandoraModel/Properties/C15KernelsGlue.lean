/-
  C15 — what happens to the maps `disparity_range` returns, the pyramid sizes and the multiscale parameters, regenerated from
  the source (`Generated/KernelsMultiscaleGlue.lean`, written by `translator/gen_kernels_multiscale_glue.py`) and proved equal
  to the model:

  * `nextGrids_eq_cropMul`: `matching_cost_prepare`'s `grid * scale_factor` (the scalar kernel, element by element) followed by
    the crop ifs of `cv_masked` is the model's `cropMul` — hence `generatedNextLevelFull` (generated `disparity_range` +
    generated hand-over + generated multiplication + generated crop) `= nextLevelGrids`, with no hand-written link.
  * `runMultiscale_wiring`, `msUser_generated`: which attribute receives which map, which arguments are passed, the user bounds
    multiplied by the factor before the call.
  * `pyramidSizes_generated`: for every library function that yields `ceil(previous / downscale)` samples per layer and
    `max_layer + 1` layers under the pinned keyword arguments, the sizes `prepare_pyramid` returns are the model's `levelSizes`.
  * `convertPyramid_frame`: `convert_pyramid_to_dataset` writes no array that existed before the call; level 0 is the
    original dataset itself, every other level holds arrays allocated by the call.
  * `readMultiscaleParams_generated`, `paramsObject_pinned`.
-/
import PandoraModel.Properties.C15Kernels
import PandoraModel.Generated.KernelsMultiscaleGlue

set_option linter.unusedSimpArgs false
set_option linter.unusedVariables false

namespace Pandora.C15Kernels
open Pandora Pandora.PyArr Pandora.Multiscale Pandora.C15
open Pandora.Generated.KernelsMultiscaleGlue

/-! ### the maps returned by `disparity_range` become the grids of the next level -/

theorem cvMaskedCrop_eq (ny nx : Nat) (sh : Nat × Nat) :
    cvMaskedCrop ny nx sh sh
      = (((min ny sh.1, min nx sh.2), (0, 0)), ((min ny sh.1, min nx sh.2), (0, 0))) := by
  unfold cvMaskedCrop
  have e1 : min ny sh.1 = if sh.1 > ny then ny else sh.1 := by
    by_cases h : sh.1 > ny <;> simp [h, Nat.min_def] <;> omega
  have e2 : min nx sh.2 = if sh.2 > nx then nx else sh.2 := by
    by_cases h : sh.2 > nx <;> simp [h, Nat.min_def] <;> omega
  rw [e1, e2]
  by_cases h1 : sh.1 > ny <;> by_cases h2 : sh.2 > nx <;> simp [h1, h2] <;> omega

/-- **`grid * scale_factor` + the crop of `cv_masked`, regenerated = `cropMul`**, for every shape, content, factor and size of
    the finer level -/
theorem nextGrids_eq_cropMul (f fineRows fineCols : Nat) (sh : Nat × Nat) (amin amax : Arr Val) :
    nextGrids f fineRows fineCols sh amin amax
      = (cropMul sh amin f fineRows fineCols, cropMul sh amax f fineRows fineCols) := by
  unfold nextGrids cropMul
  simp only [cvMaskedCrop_eq, Blocks.tabulate, Nat.add_zero]
  refine Prod.ext ?_ ?_ <;>
  · apply List.map_congr_left
    intro i _
    apply List.map_congr_left
    intro j _
    first
      | exact congrArg (fun g => Val.map g _) (funext fun x => (mcPrepare_generated x f).1)
      | exact congrArg (fun g => Val.map g _) (funext fun x => (mcPrepare_generated x f).2.1)

/-- the grids the next level searches, with EVERY link generated: `disparity_range`, the hand-over of `run_multiscale` (first
    returned map → `disp_min`, second → `disp_max`: `runMultiscale_wiring`), `matching_cost_prepare`, `cv_masked` -/
def generatedNextLevelFull (disp : Multiscale.Grid Val) (flags : Multiscale.Grid Nat) (w marge f : Nat)
    (userMin nmaxMin nminMax userMax : Rat) (z : ZoomFn) (dm : Nat) (s0 : Store Val) (fineRows fineCols : Nat) :
    Multiscale.Grid Val × Multiscale.Grid Val :=
  let R := Generated.KernelsMultiscale.disparityRange w marge f disp.rows disp.cols (fun r c => flags.get r c)
    userMin nmaxMin nminMax userMax z dm s0
  nextGrids f fineRows fineCols (Generated.KernelsMultiscale.disparityRangeShape f disp.rows disp.cols)
    (R.1.arr R.2.1) (R.1.arr R.2.2)

/-- **Every link generated = model.** -/
theorem generatedNextLevelFull_eq (disp : Multiscale.Grid Val) (flags : Multiscale.Grid Nat) (w marge f : Nat)
    (userMin nmaxMin nminMax userMax : Rat) (z : ZoomFn) (dm : Nat) (s0 : Store Val) (fineRows fineCols : Nat)
    (hd : dm < s0.next) (hA : ∀ r c, r < disp.rows → c < disp.cols → s0.arr dm r c = disp.get r c)
    (hodd : w % 2 = 1) (hrows : w ≤ disp.rows) (hcols : w ≤ disp.cols) (hf : 1 ≤ f) (hz : ZoomIsNearest z) :
    generatedNextLevelFull disp flags w marge f userMin nmaxMin nminMax userMax z dm s0 fineRows fineCols
      = nextLevelGrids disp flags w marge f userMin userMax fineRows fineCols := by
  rw [← generatedNextLevel_eq disp flags w marge f userMin nmaxMin nminMax userMax z dm s0 fineRows fineCols hd hA hodd hrows
    hcols hf hz]
  unfold generatedNextLevelFull generatedNextLevel
  exact nextGrids_eq_cropMul _ _ _ _ _ _

/-- the specification at the `zoom` parent, about the fully generated chain -/
theorem generatedNextLevelFull_eq_spec (disp : Multiscale.Grid Val) (flags : Multiscale.Grid Nat) (w marge f : Nat)
    (userMin nmaxMin nminMax userMax : Rat) (z : ZoomFn) (dm : Nat) (s0 : Store Val) (fineRows fineCols i j : Nat)
    (hd : dm < s0.next) (hA : ∀ r c, r < disp.rows → c < disp.cols → s0.arr dm r c = disp.get r c)
    (hodd : w % 2 = 1) (hrows : w ≤ disp.rows) (hcols : w ≤ disp.cols) (hf : 1 ≤ f) (hz : ZoomIsNearest z)
    (hi : i < fineRows) (hj : j < fineCols) (hiz : i < f * disp.rows) (hjz : j < f * disp.cols)
    (hnum : Flags.isInvalid (flags.get (zoomIndex disp.rows f i) (zoomIndex disp.cols f j)) = false →
      (disp.get (zoomIndex disp.rows f i) (zoomIndex disp.cols f j)).isNan = false) :
    ((generatedNextLevelFull disp flags w marge f userMin nmaxMin nminMax userMax z dm s0 fineRows fineCols).1.get i j,
     (generatedNextLevelFull disp flags w marge f userMin nmaxMin nminMax userMax z dm s0 fineRows fineCols).2.get i j)
      = specInterval disp flags w marge f userMin userMax (zoomIndex disp.rows f i) (zoomIndex disp.cols f j) := by
  rw [generatedNextLevelFull_eq disp flags w marge f userMin nmaxMin nminMax userMax z dm s0 fineRows fineCols hd hA hodd
    hrows hcols hf hz]
  exact nextLevelGrids_eq_spec disp flags w marge f userMin userMax fineRows fineCols i j hf hi hj hiz hjz hnum

/-- `run_multiscale`: `self.disp_min, self.disp_max = multiscale_.disparity_range(self.left_disparity, self.dmin_user,
    self.dmax_user)` (and the right analogue), on the object built from the two current images and the step's section -/
theorem runMultiscale_wiring :
    rangeCallLeft = (["disp_min", "disp_max"], ["left_disparity", "dmin_user", "dmax_user"])
    ∧ rangeCallRight = (["right_disp_min", "right_disp_max"], ["right_disparity", "dmin_user_right", "dmax_user_right"])
    ∧ rangeObject = (["self.left_img", "self.right_img"], ["cfg['pipeline'][input_step]"], []) := by decide

/-- the user bounds handed to `disparity_range` are the previous ones times the factor -/
theorem msUser_generated (bound : Rat) (f : Nat) :
    msUserMin bound (f : Int) = bound * (f : Rat) ∧ msUserMax bound (f : Int) = bound * (f : Rat)
    ∧ msUserRightMin bound (f : Int) = bound * (f : Rat) ∧ msUserRightMax bound (f : Int) = bound * (f : Rat) := by
  refine ⟨?_, ?_, ?_, ?_⟩ <;> simp only [msUserMin, msUserMax, msUserRightMin, msUserRightMax] <;> push_cast <;> ring

/-! ### pyramid sizes -/

/-- the keyword arguments the hypothesis on the library is stated for -/
def pyramidPinned : PyramidArgs :=
  { sigma := "1.2", order := "1", padMode := "reflect", cval := "0", channelAxis := "channel_axis", preserveRange := "False" }

/-- the library's output-size rule (skimage `pyramid_gaussian`: `max_layer + 1` layers, each `ceil(previous / downscale)`),
    assumed for the pinned keyword arguments only, for the size and factor at hand (the library stops earlier once a layer
    has the shape of the previous one, e.g. a 1 × 1 image: outside the hypothesis) -/
def PyramidIsCeil (lib : PyramidLib) (n downscale : Nat) : Prop :=
  ∀ maxLayer, lib pyramidPinned n maxLayer downscale = levelSizesFine n downscale (maxLayer + 1)

/-- **`prepare_pyramid`'s level sizes = the model's `levelSizes`**, for every size, factor, number of scales ≥ 1 -/
theorem pyramidSizes_generated (lib : PyramidLib) (n numScales f : Nat) (hlib : PyramidIsCeil lib n f) (hs : 1 ≤ numScales) :
    pyramidSizes lib n numScales f = levelSizes n f numScales := by
  unfold pyramidSizes levelSizes
  have hp : pyramidArgs = pyramidPinned := by decide
  simp only [hp]
  rw [hlib, show numScales - 1 + 1 = numScales by omega]

/-! ### `convert_pyramid_to_dataset`: frame -/

theorem convertLevel_frame (s : Store Val) (layer : Nat × Nat) :
    (∀ k, k < s.next → (convertLevel s layer).1.arr k = s.arr k)
    ∧ s.next ≤ (convertLevel s layer).1.next
    ∧ s.next ≤ (convertLevel s layer).2.1 ∧ s.next ≤ (convertLevel s layer).2.2 := by
  unfold convertLevel
  refine ⟨?_, ?_, ?_, ?_⟩
  · intro k hk
    simp (disch := omega) only [Store.copy, alloc_arr, alloc_next, alloc_snd, if_neg]
  all_goals simp only [Store.copy, alloc_next, alloc_snd] <;> omega

theorem convertPyramidFrom_frame (orig : Nat × Nat) :
    ∀ (layers : List (Nat × Nat)) (index : Nat) (s : Store Val),
      (∀ k, k < s.next → (convertPyramidFrom orig index layers s).1.arr k = s.arr k)
      ∧ s.next ≤ (convertPyramidFrom orig index layers s).1.next
      ∧ (convertPyramidFrom orig index layers s).2.length = layers.length
      ∧ (∀ p ∈ (convertPyramidFrom orig index layers s).2, p = orig ∨ (s.next ≤ p.1 ∧ s.next ≤ p.2))
  | [], index, s => by simp [convertPyramidFrom]
  | layer :: rest, index, s => by
    unfold convertPyramidFrom
    by_cases h0 : index = 0
    · obtain ⟨a, b, c, d⟩ := convertPyramidFrom_frame orig rest (index + 1) s
      simp only [h0, if_true] at *
      refine ⟨a, b, by simp [c], ?_⟩
      intro p hp
      rcases List.mem_cons.1 hp with h | h
      · exact Or.inl h
      · exact d p h
    · obtain ⟨l1, l2, l3, l4⟩ := convertLevel_frame s layer
      obtain ⟨a, b, c, d⟩ := convertPyramidFrom_frame orig rest (index + 1) (convertLevel s layer).1
      simp only [h0, if_false]
      refine ⟨?_, by omega, by simp [c], ?_⟩
      · intro k hk
        rw [a k (by omega), l1 k hk]
      · intro p hp
        rcases List.mem_cons.1 hp with h | h
        · exact Or.inr (by rw [h]; exact ⟨l3, l4⟩)
        · rcases d p h with h' | h'
          · exact Or.inl h'
          · exact Or.inr ⟨by omega, by omega⟩

/-- **`convert_pyramid_to_dataset` does not modify its input** (fixes e40ceec, 89f7c18): for every store, original dataset and
    list of layers, every array that existed before the call keeps its content; one dataset per layer; the first one IS the
    original (image, mask); every other one is the original or made of arrays allocated by the call. -/
theorem convertPyramid_frame (orig : Nat × Nat) (layers : List (Nat × Nat)) (s : Store Val) :
    (∀ k, k < s.next → (convertPyramid orig layers s).1.arr k = s.arr k)
    ∧ (convertPyramid orig layers s).2.length = layers.length
    ∧ (layers ≠ [] → (convertPyramid orig layers s).2.head? = some orig)
    ∧ (∀ p ∈ (convertPyramid orig layers s).2, p = orig ∨ (s.next ≤ p.1 ∧ s.next ≤ p.2)) := by
  obtain ⟨a, _, c, d⟩ := convertPyramidFrom_frame orig layers 0 s
  refine ⟨a, c, ?_, d⟩
  intro hne
  cases layers with
  | nil => exact absurd rfl hne
  | cons l rest => simp [convertPyramid, convertPyramidFrom]

/-- the levels after the first are really fresh: on a store where the original arrays exist, their identities differ from
    the original's (so a later write into a coarse level cannot reach the input image or mask) -/
example : (convertPyramid (0, 1) [(2, 3), (4, 5), (6, 7)] (Store.init (List.replicate 8 (fun _ _ => Val.num 0)) (fun _ _ => Val.nan))).2
    = [(0, 1), (8, 9), (10, 11)] := by decide +kernel

/-! ### `read_multiscale_params` -/

/-- **`read_multiscale_params` regenerated = model**: the parameters of the multiscale object when the pipeline has a
    `multiscale` step, `(1, 1)` otherwise -/
theorem readMultiscaleParams_generated (has : Bool) (n f : Int) :
    readMultiscaleParams has n f = if has then (n, f) else (1, 1) := by
  cases has <;> rfl

/-- the object whose `cfg` is read is built from the two images and the `multiscale` section of `cfg["pipeline"]` (fix 7f8ab47) -/
theorem paramsObject_pinned :
    paramsObject = (["left_img", "right_img"], ["cfg['pipeline']['multiscale']"], []) := by decide

end Pandora.C15Kernels
