/-
  C13 — vertical flip of the composed run of the step models with cross-based aggregation (`fullRunCbca`,
  `C13RunCbca.lean`): instance of `runR_flip` (`C13RunFlip.lean`) with `agg := cbcaStep`, which commutes with the flip
  (`cbcaStep_vflip`, `C13CbcaFlip.lean`).
-/
import PandoraModel.Properties.C13RunCbca
import PandoraModel.Properties.C13RunFlip
import PandoraModel.Properties.C13CbcaFlip

namespace Pandora.C13
open Pandora Pandora.Locality Pandora.MC

/-- **Vertical flip of the run of the models with cross-based aggregation**: the run on the pair listed bottom-up
    gives at pixel `(r, c)` the flag word and confidence cell the run on the pair gives at `(rows - 1 - r, c)`.
    Hypotheses of `run_flip`; the float reading `ev` of a cost cell keeps NaN. -/
theorem runCbca_flip (K K' : RunCfg) (G : AggCfg) (V : CrossCheck.Variant) (CP : CrossCheck.Params)
    (x xF : MC.Input) (hf : FlipRun x xF) (ok : RunOK K K' x) (okF : RunOK K K' xF)
    (hev : K.ev .nan = .nan) (hev' : K'.ev .nan = .nan)
    (out outF : Nat → Nat → CrossCheck.PixOut)
    (hout : fullRunCbca K K' G V CP x = some out) (houtF : fullRunCbca K K' G V CP xF = some outF)
    (hin : ∀ A, afterFilterR K x (aggRow K G x) = some A → LeftInInterval CP x.L.rows x.L.cols A)
    (hinF : ∀ A, afterFilterR K xF (aggRow K G xF) = some A → LeftInInterval CP xF.L.rows xF.L.cols A)
    (r c : Nat) (hr : r < x.L.rows) (hc : c < x.L.cols) :
    outF r c = out (x.L.rows - 1 - r) c := by
  have hN := nanOutsideOK_of_mc K G x (C02.shape_of_wf x ok.mc.wf) (C02.gridOK_of_wf x ok.mc.wf) hev
  have hNs := nanOutsideOK_of_mc K' G (swapInput x) (C02.shape_of_wf _ ok.mcR.wf) (C02.gridOK_of_wf _ ok.mcR.wf) hev'
  have hNF := nanOutsideOK_of_mc K G xF (C02.shape_of_wf xF okF.mc.wf) (C02.gridOK_of_wf xF okF.mc.wf) hev
  have hNsF := nanOutsideOK_of_mc K' G (swapInput xF) (C02.shape_of_wf _ okF.mcR.wf) (C02.gridOK_of_wf _ okF.mcR.wf) hev'
  have hRF := costRows_cbca K G xF okF.mc hNF
  have hRF' := costRows_cbca K' G (swapInput xF) okF.mcR hNsF
  rw [cbcaQ_crop K G hf.params hf.gmin hf.gmax] at hRF
  rw [cbcaQ_crop K' G (paramsOf_swap_congr hf.params) hf.gminR hf.gmaxR] at hRF'
  exact runR_flip K K' V CP x xF hf ok okF
    (cbcaStep_equivariant _) (cbcaStep_vflip _).toOn (cbcaStep_equivariant _) (cbcaStep_vflip _).toOn
    (costRows_cbca K G x ok.mc hN) (costRows_cbca K' G (swapInput x) ok.mcR hNs) hRF hRF'
    out outF hout houtF hin hinF r c hr hc

end Pandora.C13
