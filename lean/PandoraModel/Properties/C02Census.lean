/-
  C02 — `Census.popcount32b` REGENERATED from the Python source (`Generated/KernelsCensus.lean`, written by
  translator/gen_kernels_census.py with the bit-operation extension of translator/pyexpr.py) returns the number of set
  bits of EVERY 32-bit argument, and no sub-expression it evaluates reaches 2^32 (so the uint32 arithmetic numpy runs
  it with never wraps).

    * `bitCount n x`                       the number of `i < n` with bit `i` of `x` set (`Nat.testBit`) — the specification
    * `popcount32b_correct`                ∀ x < 2^32, KernelsCensus.popcount32b x = bitCount 32 x
    * `popcount32b_correct_25`             the instance a 5×5 census produces: ∀ x < 2^25, … = bitCount 25 x
    * `popcount32b_le`                     ∀ x < 2^32, KernelsCensus.popcount32b x ≤ 32
    * `popcount32b_no_wrap`                ∀ x < 2^32, ∀ v ∈ KernelsCensus.popcount32bTrace x, v < 2^32
    * `popcount32b_generated_eq_model`     KernelsCensus.popcount32b = MC.popcount32b (the function the model's census uses)
    * `bitCount_xor_eq_hamming`            bitCount n (a ^^^ b) = number of positions `i < n` where the bits of a and b differ

  No `decide` over a sample and no SAT certificate: the arithmetic proof of `Lemmas/MCPopcount.lean` (sixteen base-4 digits,
  stage by stage) is applied to the base-4 digits of `x`.
-/
import PandoraModel.Model.MatchingCost
import PandoraModel.Generated.KernelsCensus
import PandoraModel.Lemmas.MCPopcount
import Mathlib.Tactic.Linarith
import Mathlib.Tactic.Ring

set_option linter.unusedSimpArgs false
set_option linter.unusedVariables false
set_option linter.unreachableTactic false
set_option linter.unusedTactic false
set_option linter.unnecessarySeqFocus false

namespace Pandora.C02Census
open Pandora Pandora.MC Pandora.MC.Popcount
open Pandora.Generated

/-! ### the specification: number of set bits -/

/-- the number of positions `i < n` at which bit `i` of `x` is set -/
def bitCount (n x : Nat) : Nat := ((List.range n).filter (fun i => x.testBit i)).length

/-- the same number, least significant bit first -/
def bitCountRec : Nat → Nat → Nat
  | 0, _ => 0
  | n + 1, x => x % 2 + bitCountRec n (x / 2)

theorem bitCount_succ (n x : Nat) : bitCount (n + 1) x = x % 2 + bitCount n (x / 2) := by
  unfold bitCount
  rw [List.range_succ_eq_map, List.filter_cons, List.filter_map]
  have h0 : x.testBit 0 = decide (x % 2 = 1) := Nat.testBit_zero x
  have hs : ((fun i => x.testBit i) ∘ Nat.succ) = (fun i => (x / 2).testBit i) := by
    funext i
    simp [Function.comp, Nat.testBit_succ]
  rw [hs, h0]
  rcases Nat.mod_two_eq_zero_or_one x with h | h <;> simp [h, List.length_map] <;> try omega

theorem bitCount_eq_rec (n : Nat) : ∀ x, bitCount n x = bitCountRec n x := by
  induction n with
  | zero => intro x; simp [bitCount, bitCountRec]
  | succ n ih => intro x; rw [bitCount_succ, ih]; rfl

theorem bitCountRec_two (n x : Nat) : bitCountRec (n + 2) x = pop2 (x % 4) + bitCountRec n (x / 4) := by
  simp only [bitCountRec, pop2]
  have : x / 2 / 2 = x / 4 := by omega
  rw [this]
  omega

/-- bits at or above the length of `x` do not count -/
theorem bitCountRec_of_lt (n : Nat) : ∀ m x, x < 2 ^ n → bitCountRec (n + m) x = bitCountRec n x := by
  induction n with
  | zero =>
    intro m x hx
    have hx0 : x = 0 := by simpa using hx
    subst hx0
    clear hx
    induction m with
    | zero => rfl
    | succ m ih =>
      have : 0 + (m + 1) = (0 + m) + 1 := by omega
      rw [this]
      simp only [bitCountRec]
      simpa [bitCountRec] using ih
  | succ n ih =>
    intro m x hx
    have : n + 1 + m = (n + m) + 1 := by omega
    rw [this]
    simp only [bitCountRec]
    rw [ih m (x / 2) (by rw [Nat.pow_succ] at hx; omega)]

/-! ### the base-4 digits of a number -/

def toDigits4 : Nat → Nat → List Nat
  | 0, _ => []
  | n + 1, x => (x % 4) :: toDigits4 n (x / 4)

theorem digits_toDigits4 (n : Nat) : ∀ x, digits 4 (toDigits4 n x) = x % 4 ^ n := by
  induction n with
  | zero => intro x; simp [toDigits4, digits, Nat.mod_one]
  | succ n ih =>
    intro x
    simp only [toDigits4, digits]
    rw [ih, Nat.pow_succ, Nat.mul_comm (4 ^ n) 4, Nat.mod_mul]

theorem sum_pop2_toDigits4 (n : Nat) : ∀ x, ((toDigits4 n x).map pop2).sum = bitCountRec (2 * n) x := by
  induction n with
  | zero => intro x; simp [toDigits4, bitCountRec]
  | succ n ih =>
    intro x
    have : 2 * (n + 1) = 2 * n + 2 := by ring
    rw [this, bitCountRec_two]
    simp only [toDigits4, List.map_cons, List.sum_cons]
    rw [ih]

/-! ### the generated function -/

/-- the function regenerated from the source is the one the model's census uses -/
theorem popcount32b_generated_eq_model : KernelsCensus.popcount32b = MC.popcount32b := by
  funext x
  unfold KernelsCensus.popcount32b MC.popcount32b
  -- the same text, or the same up to the order of the operands of `+` / `&`
  first
    | rfl
    | (simp only [Nat.and_comm, Nat.add_comm]; done)
    | (simp only []; ac_rfl)

/-- **`popcount32b` of the source = number of set bits, for every 32-bit argument** -/
theorem popcount32b_correct (x : Nat) (hx : x < 2 ^ 32) : KernelsCensus.popcount32b x = bitCount 32 x := by
  rw [popcount32b_generated_eq_model, bitCount_eq_rec]
  have hd : digits 4 (toDigits4 16 x) = x := by
    rw [digits_toDigits4]
    exact Nat.mod_eq_of_lt (by norm_num at hx ⊢; exact hx)
  have hs := sum_pop2_toDigits4 16 x
  have hl : toDigits4 16 x = [(x % 4), (x / 4 % 4), (x / 4 / 4 % 4), (x / 4 / 4 / 4 % 4), (x / 4 / 4 / 4 / 4 % 4), (x / 4 / 4 / 4 / 4 / 4 % 4), (x / 4 / 4 / 4 / 4 / 4 / 4 % 4), (x / 4 / 4 / 4 / 4 / 4 / 4 / 4 % 4), (x / 4 / 4 / 4 / 4 / 4 / 4 / 4 / 4 % 4), (x / 4 / 4 / 4 / 4 / 4 / 4 / 4 / 4 / 4 % 4), (x / 4 / 4 / 4 / 4 / 4 / 4 / 4 / 4 / 4 / 4 % 4), (x / 4 / 4 / 4 / 4 / 4 / 4 / 4 / 4 / 4 / 4 / 4 % 4), (x / 4 / 4 / 4 / 4 / 4 / 4 / 4 / 4 / 4 / 4 / 4 / 4 % 4), (x / 4 / 4 / 4 / 4 / 4 / 4 / 4 / 4 / 4 / 4 / 4 / 4 / 4 % 4), (x / 4 / 4 / 4 / 4 / 4 / 4 / 4 / 4 / 4 / 4 / 4 / 4 / 4 / 4 % 4), (x / 4 / 4 / 4 / 4 / 4 / 4 / 4 / 4 / 4 / 4 / 4 / 4 / 4 / 4 / 4 % 4)] := by
    simp only [toDigits4]
  have h := popcount32b_digits (x % 4) (x / 4 % 4) (x / 4 / 4 % 4) (x / 4 / 4 / 4 % 4) (x / 4 / 4 / 4 / 4 % 4) (x / 4 / 4 / 4 / 4 / 4 % 4) (x / 4 / 4 / 4 / 4 / 4 / 4 % 4) (x / 4 / 4 / 4 / 4 / 4 / 4 / 4 % 4) (x / 4 / 4 / 4 / 4 / 4 / 4 / 4 / 4 % 4) (x / 4 / 4 / 4 / 4 / 4 / 4 / 4 / 4 / 4 % 4) (x / 4 / 4 / 4 / 4 / 4 / 4 / 4 / 4 / 4 / 4 % 4) (x / 4 / 4 / 4 / 4 / 4 / 4 / 4 / 4 / 4 / 4 / 4 % 4) (x / 4 / 4 / 4 / 4 / 4 / 4 / 4 / 4 / 4 / 4 / 4 / 4 % 4) (x / 4 / 4 / 4 / 4 / 4 / 4 / 4 / 4 / 4 / 4 / 4 / 4 / 4 % 4) (x / 4 / 4 / 4 / 4 / 4 / 4 / 4 / 4 / 4 / 4 / 4 / 4 / 4 / 4 % 4) (x / 4 / 4 / 4 / 4 / 4 / 4 / 4 / 4 / 4 / 4 / 4 / 4 / 4 / 4 / 4 % 4)
    (Nat.mod_lt _ (by norm_num)) (Nat.mod_lt _ (by norm_num)) (Nat.mod_lt _ (by norm_num)) (Nat.mod_lt _ (by norm_num))
    (Nat.mod_lt _ (by norm_num)) (Nat.mod_lt _ (by norm_num)) (Nat.mod_lt _ (by norm_num)) (Nat.mod_lt _ (by norm_num))
    (Nat.mod_lt _ (by norm_num)) (Nat.mod_lt _ (by norm_num)) (Nat.mod_lt _ (by norm_num)) (Nat.mod_lt _ (by norm_num))
    (Nat.mod_lt _ (by norm_num)) (Nat.mod_lt _ (by norm_num)) (Nat.mod_lt _ (by norm_num)) (Nat.mod_lt _ (by norm_num))
  rw [← hl, hd] at h
  rw [h]
  rw [hl] at hs
  simp only [List.map_cons, List.map_nil, List.sum_cons, List.sum_nil] at hs
  have e : 2 * 16 = 32 := rfl
  rw [e] at hs
  rw [← hs]
  ring

/-- what a 5×5 census can produce (25 comparison bits) -/
theorem popcount32b_correct_25 (x : Nat) (hx : x < 2 ^ 25) : KernelsCensus.popcount32b x = bitCount 25 x := by
  have h32 : x < 2 ^ 32 := lt_of_lt_of_le hx (by norm_num)
  rw [popcount32b_correct x h32, bitCount_eq_rec, bitCount_eq_rec]
  exact bitCountRec_of_lt 25 7 x hx

/-- what a 3×3 census can produce (9 comparison bits) -/
theorem popcount32b_correct_9 (x : Nat) (hx : x < 2 ^ 9) : KernelsCensus.popcount32b x = bitCount 9 x := by
  have h32 : x < 2 ^ 32 := lt_of_lt_of_le hx (by norm_num)
  rw [popcount32b_correct x h32, bitCount_eq_rec, bitCount_eq_rec]
  exact bitCountRec_of_lt 9 23 x hx

theorem bitCount_le (n x : Nat) : bitCount n x ≤ n := by
  unfold bitCount
  exact le_trans (List.length_filter_le _ _) (by simp)

theorem popcount32b_le (x : Nat) (hx : x < 2 ^ 32) : KernelsCensus.popcount32b x ≤ 32 := by
  rw [popcount32b_correct x hx]
  exact bitCount_le 32 x

/-- **no 32-bit wrap-around**: every sub-expression `popcount32b` evaluates on a 32-bit argument is itself below 2^32
    (`popcount32bTrace` is printed from the same intermediate form as `popcount32b`), so numpy's uint32 arithmetic
    computes exactly what the unbounded reading computes -/
theorem popcount32b_no_wrap (x : Nat) (hx : x < 2 ^ 32) : ∀ v ∈ KernelsCensus.popcount32bTrace x, v < 2 ^ 32 := by
  intro v hv
  unfold KernelsCensus.popcount32bTrace at hv
  simp only [List.nil_append, List.mem_append, List.mem_cons, List.not_mem_nil, or_false, or_assoc] at hv
  generalize h1 : x >>> 1 = t1 at hv
  have b1 : t1 ≤ x := h1 ▸ Nat.shiftRight_le x 1
  generalize h2 : t1 &&& 1431655765 = t2 at hv
  have b2 : t2 ≤ t1 := h2 ▸ Nat.and_le_left
  generalize h3 : x - t2 = r1 at hv
  have b3 : r1 ≤ x := by omega
  generalize h4 : r1 &&& 858993459 = t3 at hv
  have b4 : t3 ≤ 858993459 := h4 ▸ Nat.and_le_right
  generalize h5 : r1 >>> 2 = t4 at hv
  have b5 : t4 ≤ r1 := h5 ▸ Nat.shiftRight_le r1 2
  generalize h6 : t4 &&& 858993459 = t5 at hv
  have b6 : t5 ≤ 858993459 := h6 ▸ Nat.and_le_right
  generalize h7 : t3 + t5 = r2 at hv
  generalize h8 : r2 >>> 4 = t6 at hv
  have b8 : t6 ≤ r2 / 16 := by rw [← h8, Nat.shiftRight_eq_div_pow]
  generalize h9 : (r2 + t6) &&& 252645135 = r3 at hv
  have b9 : r3 ≤ 252645135 := h9 ▸ Nat.and_le_right
  generalize h10 : r3 >>> 8 = t8 at hv
  have b10 : t8 ≤ r3 := h10 ▸ Nat.shiftRight_le r3 8
  generalize h11 : r3 + t8 = r4 at hv
  generalize h12 : r4 >>> 16 = t9 at hv
  have b12 : t9 ≤ r4 := h12 ▸ Nat.shiftRight_le r4 16
  generalize h13 : (r4 + t9) &&& 127 = res at hv
  have b13 : res ≤ 127 := h13 ▸ Nat.and_le_right
  norm_num at hx ⊢
  omega

/-- the number of set bits of `a ^^^ b` is the number of positions where `a` and `b` differ: what `census_cost`
    computes (`popcount32b` of the xor of two census strings) is the Hamming distance of the two strings -/
theorem bitCount_xor_eq_hamming (n a b : Nat) :
    bitCount n (a ^^^ b) = ((List.range n).filter (fun i => Bool.xor (a.testBit i) (b.testBit i))).length := by
  simp only [bitCount, Nat.testBit_xor]

/-- `census_cost` on two census strings of a `w × w` window with `w² ≤ 32`: the regenerated `popcount32b` of their xor is
    their Hamming distance -/
theorem census_cost_eq_hamming (a b : Nat) (ha : a < 2 ^ 32) (hb : b < 2 ^ 32) :
    KernelsCensus.popcount32b (a ^^^ b) = ((List.range 32).filter (fun i => Bool.xor (a.testBit i) (b.testBit i))).length := by
  rw [popcount32b_correct _ (Nat.xor_lt_two_pow ha hb), bitCount_xor_eq_hamming]

/-! ### non-vacuity -/
example : (0xFFFFFFFF : Nat) < 2 ^ 32 ∧ KernelsCensus.popcount32b 0xFFFFFFFF = 32 ∧ bitCount 32 0xFFFFFFFF = 32 := by decide +kernel
example : (0x1ABCDEF : Nat) < 2 ^ 25 ∧ bitCount 25 0x1ABCDEF = 18 := by decide +kernel

end Pandora.C02Census
