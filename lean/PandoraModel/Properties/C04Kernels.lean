/-
  C04 — the DECISIONS of `pandora/criteria.py` REGENERATED from the Python source
  (`Generated/KernelsCriteria.lean`, written by translator/gen_kernels_criteria.py with translator/pyexpr.py's typed
  tree) are equal, for all integers (no bound on any size or coordinate), to the hand model `Model/Criteria.lean`:

    * `validityMaskCol_eq`   validity_mask, whole body up to the allocate_* calls, for one column:
                             (flag word, column ∈ bit_1) = (vm1, vmBit1) — the three sign cases, the branch conditions,
                             every `np.where` predicate, and which predicate feeds which constant
    * `leftMaskedPred_eq`, `rightMaskedPred_eq`   `(r_mask != no_data) & (r_mask != valid)` = "the cell is invalid"
    * `allocLeftPx_eq`       both `+=` of allocate_left_mask = `allocLeft`
    * `validIndex_eq`        `valid_index` of the loop of allocate_right_mask = `inIdx`
    * `rangeLen_eq`          `len(range(d_min, d_max + 1))` = the number of disparities of the model's loop
    * `rightIterPx_eq`       the whole loop body (both counters, their reset on bit_1, the two `== len` tests, `+= 128`,
                             `+= 2`) = `rightIter`, and the gathered column is `c + dsp`
    * `maskInvalidPx_eq`     mask_invalid_variable_disparity_range on an all-NaN pixel = `maskInvalidVar true`
    * `maskBorderPx_eq`      the four slice assignments of mask_border = `maskBorder` (offset > 0: the call-site guard)

  and hence, through `Lemmas/C04Criteria.lean`, the set statements of the property hold of the GENERATED predicates:
  `validityMaskCol_bit1_iff` (bit_1 ⇔ In = ∅), `validityMaskCol_flag` (the word is 4·[In ≠ ∅ ∧ some d ∉ In] + 2·[In = ∅]),
  `validIndex_iff`.

  The proofs unfold both sides and decide the resulting linear integer arithmetic: flipped comparisons, commuted `&`
  operands, extra locals of the source still prove; a changed comparison, `&`↔`|`, a shifted bound, a dropped `offset`,
  swapped `d_min`/`d_max`, a swapped constant do not.
-/
import PandoraModel.Model.Criteria
import PandoraModel.Model.PyExpr
import PandoraModel.Generated.KernelsCriteria
import PandoraModel.Lemmas.C04Criteria
import Mathlib.Tactic.SplitIfs

set_option linter.unusedSimpArgs false
set_option linter.unusedVariables false
set_option linter.unusedTactic false

namespace Pandora.C04Kernels
open Pandora Pandora.Criteria Pandora.Flags Pandora.C04 Pandora.PyExpr
open Pandora.Generated.KernelsCriteria

/-- every Boolean fact produced by splitting the generated `if`s, as a proposition `omega` reads -/
macro "crit_props" : tactic => `(tactic|
  simp only [Bool.and_eq_true, Bool.or_eq_true, Bool.not_eq_true', Bool.not_eq_true, decide_eq_true_eq,
    decide_eq_false_iff_not, Bool.and_true, Bool.true_and, Bool.and_false, Bool.false_and, Bool.not_true, Bool.not_false,
    Bool.or_true, Bool.true_or, Bool.or_false, Bool.false_or, Bool.and_eq_false_iff, Bool.or_eq_false_iff, and_true, true_and, and_self, Bool.decide_and, Bool.decide_or,
    Prod.mk.injEq, decide_eq_decide, Bool.false_eq_true, Bool.true_eq_false, beq_iff_eq, bne_iff_ne,
    eq_self, false_iff, true_iff, iff_true, iff_false, ne_eq, gt_iff_lt, ge_iff_le, Int.natCast_add, not_true_eq_false, not_false_eq_true, if_true, if_false, reduceCtorEq] at *)

/-! ### `validity_mask` -/

/-- **the translated first part of `validity_mask`, for one column, is the hand model**: the flag word of the column
    and its membership in `bit_1`, for every coordinate origin, width, interval and offset -/
theorem validityMaskCol_eq (I : Input) (c : Nat) :
    validityMaskCol (I.colAt c) (I.colAt 0) I.colLast I.dmin I.dmax (I.off : Int) = ((vm1 I c : Int), vmBit1 I c) := by
  unfold validityMaskCol vm1 vmBit1 vmBit2 rightIncompleteRange rightNodataOrRangeMissing Input.colAt Input.colLast
  dsimp only []
  split_ifs <;> crit_props <;> omega

/-- bit_1 of the generated function ⇔ no disparity of the interval has its window inside the right image -/
theorem validityMaskCol_bit1_iff (I : Input) (c : Nat) (hc : ColInterior I c) (hd : I.dmin ≤ I.dmax) :
    (validityMaskCol (I.colAt c) (I.colAt 0) I.colLast I.dmin I.dmax (I.off : Int)).2 = true ↔ inSet I c = [] := by
  rw [validityMaskCol_eq]; exact vmBit1_iff I c hc hd

/-- the flag word of the generated function is `4·[part of the interval inside, part outside] + 2·[nothing inside]` -/
theorem validityMaskCol_flag (I : Input) (c : Nat) (hc : ColInterior I c) (hd : I.dmin ≤ I.dmax) :
    ∃ b2 b1 : Bool,
      (b2 = true ↔ (inSet I c ≠ [] ∧ ∃ d : Int, I.dmin ≤ d ∧ d ≤ I.dmax ∧ inIdx I c d = false))
      ∧ (b1 = true ↔ inSet I c = [])
      ∧ (validityMaskCol (I.colAt c) (I.colAt 0) I.colLast I.dmin I.dmax (I.off : Int)).1
          = (if b2 then 4 else 0) + (if b1 then 2 else 0) := by
  refine ⟨vmBit2 I c, vmBit1 I c, vmBit2_iff I c hc hd, vmBit1_iff I c hc hd, ?_⟩
  rw [validityMaskCol_eq]
  simp only [vm1, rightIncompleteRange, rightNodataOrRangeMissing]
  cases vmBit1 I c <;> cases vmBit2 I c <;> rfl

/-! ### the two allocate functions: which cells of a mask are "invalid" -/

/-- class of a mask code as `criteria.py` tests it (`== no_data_mask` is what the dilation reads) -/
def clsOfCode (m noData valid : Int) : Cls :=
  if m = noData then .nodata else if m = valid then .valid else .invalid

theorem masked_iff (m nd v : Int) : clsOfCode m nd v = Cls.invalid ↔ (¬ m = nd ∧ ¬ m = v) := by
  unfold clsOfCode
  by_cases h1 : m = nd
  · simp [h1]
  · by_cases h2 : m = v
    · rw [if_neg h1, if_pos h2]; simp [h2]
    · rw [if_neg h1, if_neg h2]; simp [h1, h2]

theorem leftMaskedPred_eq (m nd v : Int) : leftMaskedPred m nd v = (clsOfCode m nd v == Cls.invalid) := by
  unfold leftMaskedPred
  rw [Bool.eq_iff_iff, beq_iff_eq, masked_iff]
  (try crit_props) <;> (try omega)

theorem rightMaskedPred_eq (m nd v : Int) : rightMaskedPred m nd v = (clsOfCode m nd v == Cls.invalid) := by
  unfold rightMaskedPred
  rw [Bool.eq_iff_iff, beq_iff_eq, masked_iff]
  (try crit_props) <;> (try omega)

/-- **both `+=` of `allocate_left_mask`**, for a pixel whose mask cell has the code `m` -/
theorem allocLeftPx_eq (I : Input) (f r c : Nat) (m nd v : Int) (hm : I.mL r c = clsOfCode m nd v) :
    allocLeftPx (f : Int) (dilated I.rows I.cols I.off I.mL r c) m nd v = (allocLeft I f r c : Int) := by
  unfold allocLeftPx allocLeft leftNodataOrBorder inValidityMaskLeft
  rw [hm]
  have hk := masked_iff m nd v
  generalize dilated I.rows I.cols I.off I.mL r c = dl
  generalize clsOfCode m nd v = k at hk ⊢
  dsimp only []
  cases dl <;> cases k <;> (try crit_props) <;> split_ifs <;> (try crit_props) <;> (try omega)

/-! ### `allocate_right_mask` -/

/-- `valid_index` of the loop (array indices: `col_range[0] = 0`, `col_range[-1] = cols − 1`) -/
theorem validIndex_eq (I : Input) (c : Nat) (dsp : Int) :
    validIndex (c : Int) 0 ((I.cols : Int) - 1) dsp (I.off : Int) = inIdx I c dsp := by
  unfold validIndex inIdx
  dsimp only []
  rw [Bool.eq_iff_iff]
  crit_props
  omega

theorem validIndex_iff (I : Input) (c : Nat) (dsp : Int) :
    validIndex (c : Int) 0 ((I.cols : Int) - 1) dsp (I.off : Int) = true
      ↔ (I.off : Int) ≤ (c : Int) + dsp ∧ (c : Int) + dsp ≤ (I.cols : Int) - 1 - (I.off : Int) := by
  rw [validIndex_eq]; exact inIdx_iff I c dsp

/-- `len(range(d_min, d_max + 1))` is the number of iterations of the model's loop (also for an empty range) -/
theorem rangeLen_eq (a b : Int) : rangeLen a b = ((dispList a b).length : Int) := by
  rw [length_dispList]
  unfold rangeLen imax
  split_ifs <;> omega

/-- **the body of the loop over the disparities, for one pixel**: the counters `b_2_7` / `no_data_right`, their reset
    on the `bit_1` columns, the two `== len(range(…))` tests and the constants they add are the model's `rightIter`;
    the right cells are gathered at column `c + dsp` -/
theorem rightIterPx_eq (I : Input) (r c : Nat) (st : RState) (dsp : Int) :
    rightIterPx (c : Int) 0 ((I.cols : Int) - 1) dsp (I.off : Int) I.dmin I.dmax (vmBit1 I c)
        (if rInvAt I r ((c : Int) + dsp) then 1 else 0) (rDilAt I r ((c : Int) + dsp))
        (st.b27 : Int) (st.ndr : Int) (st.flag : Int)
      = (((rightIter I r c (dispList I.dmin I.dmax).length st dsp).b27 : Int),
         ((rightIter I r c (dispList I.dmin I.dmax).length st dsp).ndr : Int),
         ((rightIter I r c (dispList I.dmin I.dmax).length st dsp).flag : Int), (c : Int) + dsp) := by
  have hn := rangeLen_eq I.dmin I.dmax
  have hv := validIndex_eq I c dsp
  unfold rangeLen at hn
  unfold validIndex at hv
  unfold rightIterPx rightIter inValidityMaskRight rightNodataOrRangeMissing
  dsimp only [] at hv ⊢
  simp only [hn, hv]
  generalize (dispList I.dmin I.dmax).length = n
  generalize inIdx I c dsp = v
  generalize vmBit1 I c = b1
  generalize rInvAt I r ((c : Int) + dsp) = ri
  generalize rDilAt I r ((c : Int) + dsp) = rd
  obtain ⟨b, nd, f⟩ := st
  cases v <;> cases b1 <;> cases ri <;> cases rd <;> (try crit_props) <;> split_ifs <;> (try crit_props) <;> (try omega)

/-! ### `mask_invalid_variable_disparity_range`, `mask_border` -/

theorem pyBand_natCast (a b : Nat) : pyBand (a : Int) (b : Int) = ((a &&& b : Nat) : Int) := by
  unfold pyBand; simp

/-- **the update of a pixel whose costs are all NaN** -/
theorem maskInvalidPx_eq (f : Nat) : maskInvalidPx (f : Int) = (maskInvalidVar true f : Int) := by
  have h2 : (2 : Int) = ((2 : Nat) : Int) := rfl
  unfold maskInvalidPx maskInvalidVar rightNodataOrRangeMissing
  dsimp only []
  rw [h2, pyBand_natCast]
  by_cases h : f &&& 2 = 0
  · simp [h]
  · have h' : ¬ (((f &&& 2 : Nat) : Int) = 0) := by omega
    simp [h, h']

/-- **the four slice assignments of `mask_border`**, for a pixel of the image and a positive offset (the call sites
    test `offset > 0`: with `offset = 0` the slice `-0:` is the whole axis) -/
theorem maskBorderPx_eq (I : Input) (f r c : Nat) (ho : 0 < I.off) (hr : r < I.rows) (hc : c < I.cols) :
    maskBorderPx (r : Int) (c : Int) (I.rows : Int) (I.cols : Int) (I.off : Int) (f : Int)
      = (maskBorder I f r c : Int) := by
  unfold maskBorderPx maskBorder inBorder leftNodataOrBorder pySlice pySliceFrom pySliceTo pySliceBound
  dsimp only []
  rw [if_pos ho]
  simp only [Bool.and_eq_true, Bool.or_eq_true, decide_eq_true_eq]
  split_ifs <;> omega

/-! ### non-vacuity -/

/-- a 7-column row starting at coordinate 3, window 3, interval [-3, -1]: columns 0..2 of the interior get 2 / 4 / 0 -/
def exI : Input :=
  { rows := 3, cols := 7, off := 1, col0 := 3, dmin := -3, dmax := -1, hasL := true,
    mL := fun r c => if (r, c) = (1, 2) then Cls.invalid else Cls.valid, hasR := true,
    mR := fun r c => if c = 2 then Cls.invalid else Cls.valid }

example : (List.range 7).map (fun c => validityMaskCol (exI.colAt c) (exI.colAt 0) exI.colLast exI.dmin exI.dmax exI.off)
    = [(2, true), (2, true), (4, false), (4, false), (0, false), (0, false), (0, false)] := by decide +kernel
example : ColInterior exI 2 ∧ exI.dmin ≤ exI.dmax := by unfold ColInterior; decide
example : leftMaskedPred 2 1 0 = true ∧ leftMaskedPred 1 1 0 = false ∧ leftMaskedPred 0 1 0 = false := by decide
example : exI.mL 1 2 = clsOfCode 2 1 0 := by decide
example : allocLeftPx 4 (dilated exI.rows exI.cols exI.off exI.mL 1 2) 2 1 0 = 68 := by decide +kernel
example : rightIterPx 3 0 6 (-1) 1 (-3) (-1) false 1 false 2 0 4 = (3, 0, 132, 2) := by decide +kernel
example : maskInvalidPx 4 = 6 ∧ maskInvalidPx 6 = 6 := by decide +kernel
example : maskBorderPx 1 1 3 7 1 70 = 70 ∧ maskBorderPx 1 6 3 7 1 70 = 1 ∧ maskBorderPx 0 3 3 7 1 70 = 1 := by decide +kernel

end Pandora.C04Kernels
