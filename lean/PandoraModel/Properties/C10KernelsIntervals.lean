/-
  C10 — the glue of `MedianForIntervalsFilter.filter_disparity`, regenerated from the source
  (`Generated/KernelsIntervals.lean`, written by `translator/gen_kernels_intervals.py`), equals the composed model
  `Model/FilterIntervals.lean` (C10's filter ∘ C12's regularisation) — for every size, filter size, split, bands, mask,
  configuration and store in which the three bands are three different arrays.

  `interval_regularization` is a parameter of the generated definition; `modelReg` instantiates it with C12's model
  (`Confidence.intervalRegularization` on the materialised bands + the segments mask), which is how
  `FilterIntervals.medianForIntervals` composes the two models.
-/
import PandoraModel.Properties.C10Kernels
import PandoraModel.Properties.C10C12
import PandoraModel.Generated.KernelsIntervals

set_option linter.unusedSimpArgs false

namespace Pandora.C10KernelsIntervals
open Pandora Pandora.PyArr Pandora.Filter Pandora.FilterIntervals Pandora.C10Kernels

/-- C12's regularisation as the function of the three band contents the generated definition is parameterised by -/
def modelReg (cfg : Cfg) (ny nx : Nat) : Arr Val → Arr Val → Arr Val → Arr Val × Arr Val × Mask :=
  fun i s a =>
    let res := Confidence.intervalRegularization (toGrid ny nx i) (toGrid ny nx s) (toGrid ny nx a)
      cfg.thr cfg.kernel cfg.depth cfg.quantile
    (ofGrid res.1, ofGrid res.2, inSegments (segments cfg.thr cfg.kernel (toGrid ny nx a)))

/-- one pass of the band loop: deep copy of the band, `median_filter`, the band's content replaced -/
def bandStep (fs ny nx b : Nat) (s : Store Val) : Store Val :=
  let pc := s.copy b
  let pm := Generated.KernelsFilter.medianFilter fs ny nx pc.2 pc.1
  pm.1.set b (pm.1.arr pm.2)

theorem bandStep_spec (fs ny nx b : Nat) (s : Store Val) (_hb : b < s.next) :
    (bandStep fs ny nx b s).next = s.next + 2
    ∧ (bandStep fs ny nx b s).arr b = Filter.medianFilter (Generated.Blocks.median fs) fs ny nx (s.arr b)
    ∧ ∀ k, k < s.next → k ≠ b → (bandStep fs ny nx b s).arr k = s.arr k := by
  unfold bandStep
  simp only [copy_snd]
  obtain ⟨h1, h2, h3, h4⟩ := medianFilter_generated fs ny nx s.next (s.copy b).1 (by simp)
  simp only [copy_next] at h1 h2 h3 h4
  refine ⟨by simp [h2], ?_, ?_⟩
  · rw [set_arr_self, h1, h3, copy_arr_new]
  · intro k hk hkb
    rw [set_arr_ne _ hkb, h4 k (by omega), copy_arr_old _ _ (by omega)]

/-- **`MedianForIntervalsFilter.filter_disparity` regenerated = composed model.** -/
theorem medianForIntervals_generated (cfg : Cfg) (off ny nx inf sup amb mask : Nat) (s0 : Store Val) (f0 : Store Nat)
    (hi : inf < s0.next) (hs : sup < s0.next) (ha : amb < s0.next)
    (his : inf ≠ sup) (hai : amb ≠ inf) (has : amb ≠ sup) :
    (Generated.KernelsIntervals.medianForIntervals (modelReg cfg ny nx) cfg.fs cfg.regularization off ny nx
        inf sup amb mask s0 f0).1.arr inf
      = (FilterIntervals.medianForIntervals (Generated.Blocks.median cfg.fs)
          Generated.Constants.PANDORA_MSK_PIXEL_INTERVAL_REGULARIZED off cfg ny nx
          (s0.arr inf) (s0.arr sup) (s0.arr amb) (f0.arr mask)).inf
    ∧ (Generated.KernelsIntervals.medianForIntervals (modelReg cfg ny nx) cfg.fs cfg.regularization off ny nx
        inf sup amb mask s0 f0).1.arr sup
      = (FilterIntervals.medianForIntervals (Generated.Blocks.median cfg.fs)
          Generated.Constants.PANDORA_MSK_PIXEL_INTERVAL_REGULARIZED off cfg ny nx
          (s0.arr inf) (s0.arr sup) (s0.arr amb) (f0.arr mask)).sup
    ∧ (Generated.KernelsIntervals.medianForIntervals (modelReg cfg ny nx) cfg.fs cfg.regularization off ny nx
        inf sup amb mask s0 f0).2.arr mask
      = (FilterIntervals.medianForIntervals (Generated.Blocks.median cfg.fs)
          Generated.Constants.PANDORA_MSK_PIXEL_INTERVAL_REGULARIZED off cfg ny nx
          (s0.arr inf) (s0.arr sup) (s0.arr amb) (f0.arr mask)).flags
    ∧ (∀ k, k < s0.next → k ≠ inf → k ≠ sup →
        (Generated.KernelsIntervals.medianForIntervals (modelReg cfg ny nx) cfg.fs cfg.regularization off ny nx
          inf sup amb mask s0 f0).1.arr k = s0.arr k)
    ∧ (∀ k, k ≠ mask →
        (Generated.KernelsIntervals.medianForIntervals (modelReg cfg ny nx) cfg.fs cfg.regularization off ny nx
          inf sup amb mask s0 f0).2.arr k = f0.arr k) := by
  -- the two passes of the band loop
  obtain ⟨a1, a2, a3⟩ := bandStep_spec cfg.fs ny nx inf s0 hi
  obtain ⟨b1, b2, b3⟩ := bandStep_spec cfg.fs ny nx sup (bandStep cfg.fs ny nx inf s0) (by omega)
  generalize hs6 : bandStep cfg.fs ny nx sup (bandStep cfg.fs ny nx inf s0) = s6 at b1 b2 b3
  have hinf6 : s6.arr inf = Filter.medianFilter (Generated.Blocks.median cfg.fs) cfg.fs ny nx (s0.arr inf) := by
    rw [b3 inf (by omega) his, a2]
  have hsup6 : s6.arr sup = Filter.medianFilter (Generated.Blocks.median cfg.fs) cfg.fs ny nx (s0.arr sup) := by
    rw [b2, a3 sup hs (Ne.symm his)]
  have hold6 : ∀ k, k < s0.next → k ≠ inf → k ≠ sup → s6.arr k = s0.arr k := by
    intro k hk h1 h2
    rw [b3 k (by omega) h2, a3 k hk h1]
  have hnext6 : s6.next = s0.next + 4 := by omega
  have hgen : Generated.KernelsIntervals.medianForIntervals (modelReg cfg ny nx) cfg.fs cfg.regularization off ny nx
        inf sup amb mask s0 f0
      = if cfg.regularization then
          (let s8 := ((s6.copy inf).1.copy sup).1
           let res := modelReg cfg ny nx (s8.arr s6.next) (s8.arr (s6.next + 1)) (s8.arr amb)
           let f1 := f0.maskOr mask res.2.2 Generated.Constants.PANDORA_MSK_PIXEL_INTERVAL_REGULARIZED
           ((s8.set inf res.1).set sup res.2.1,
            if off > 0 then f1.set mask (FilterIntervals.maskBorder off ny nx (f1.arr mask)) else f1))
        else (s6, f0) := by
    rw [← hs6]; rfl
  rw [hgen]
  unfold FilterIntervals.medianForIntervals
  cases hreg : cfg.regularization
  · simp only [Bool.false_eq_true, if_false]
    exact ⟨hinf6, hsup6, trivial, hold6, fun _ _ => trivial⟩
  · simp only [if_true]
    have e0 : (((s6.copy inf).1.copy sup).1).arr s6.next = s6.arr inf := by
      simp [Store.copy, Store.alloc]
    have e1 : (((s6.copy inf).1.copy sup).1).arr (s6.next + 1) = s6.arr sup := by
      have : sup ≠ s6.next := by omega
      simp [Store.copy, Store.alloc, this]
    have e2 : ∀ k, k < s6.next → (((s6.copy inf).1.copy sup).1).arr k = s6.arr k := by
      intro k hk
      have h1 : k ≠ s6.next := by omega
      have h2 : k ≠ s6.next + 1 := by omega
      simp [Store.copy, Store.alloc, h1, h2]
    have eamb : (((s6.copy inf).1.copy sup).1).arr amb = s0.arr amb := by
      rw [e2 amb (by omega), hold6 amb ha hai has]
    rw [e0, e1, eamb, hinf6, hsup6]
    refine ⟨?_, ?_, ?_, ?_, ?_⟩
    · rw [set_arr_ne _ his, set_arr_self]; rfl
    · rw [set_arr_self]; rfl
    · by_cases ho : off > 0
      · simp only [ho, if_true, set_arr_self, Store.maskOr, modelReg]
        rfl
      · simp only [ho, if_false, set_arr_self, Store.maskOr, modelReg]
        rfl
    · intro k hk h1 h2
      rw [set_arr_ne _ h2, set_arr_ne _ h1, e2 k (by omega), hold6 k hk h1 h2]
    · intro k hk
      by_cases ho : off > 0
      · simp only [ho, if_true, set_arr_ne _ hk, Store.maskOr]
      · simp only [ho, if_false, set_arr_ne _ hk, Store.maskOr]

/-- **C10 for the regenerated step**: the bands handed to the regularisation (and left when it is off) satisfy
    `intervals_same_median`, and the mask differs from the old one by bit 11 at most (`bit11_only`), away from the
    border `mask_border` rewrites. -/
theorem medianForIntervals_generated_spec (cfg : Cfg) (off ny nx inf sup amb mask : Nat) (s0 : Store Val)
    (f0 : Store Nat) (hi : inf < s0.next) (hs : sup < s0.next) (ha : amb < s0.next)
    (his : inf ≠ sup) (hai : amb ≠ inf) (has : amb ≠ sup) (hoff : off = 0) (r c : Nat) :
    flagSpec Generated.Constants.PANDORA_MSK_PIXEL_INTERVAL_REGULARIZED (f0.arr mask r c)
      ((Generated.KernelsIntervals.medianForIntervals (modelReg cfg ny nx) cfg.fs cfg.regularization off ny nx
          inf sup amb mask s0 f0).2.arr mask r c) true = true := by
  rw [(medianForIntervals_generated cfg off ny nx inf sup amb mask s0 f0 hi hs ha his hai has).2.2.1]
  subst hoff
  unfold FilterIntervals.medianForIntervals
  cases cfg.regularization
  · simp [flagSpec]
  · simp only [if_true, Nat.lt_irrefl, gt_iff_lt, if_false]
    exact C10.regularize_flagSpec _ _ _ r c

/-- `intervals_same_median` for the regenerated step (regularisation off: the bands are left as filtered) -/
theorem medianForIntervals_generated_bands (cfg : Cfg) (off ny nx inf sup amb mask : Nat) (s0 : Store Val)
    (f0 : Store Nat) (hi : inf < s0.next) (hs : sup < s0.next) (ha : amb < s0.next)
    (his : inf ≠ sup) (hai : amb ≠ inf) (has : amb ≠ sup) (hreg : cfg.regularization = false)
    (hodd : cfg.fs % 2 = 1) (hny : cfg.fs ≤ ny) (hnx : cfg.fs ≤ nx) (r c : Nat) :
    medianCellSpec (s0.arr inf) cfg.fs ny nx r c (s0.arr inf r c)
      ((Generated.KernelsIntervals.medianForIntervals (modelReg cfg ny nx) cfg.fs cfg.regularization off ny nx
          inf sup amb mask s0 f0).1.arr inf r c) = true
    ∧ medianCellSpec (s0.arr sup) cfg.fs ny nx r c (s0.arr sup r c)
      ((Generated.KernelsIntervals.medianForIntervals (modelReg cfg ny nx) cfg.fs cfg.regularization off ny nx
          inf sup amb mask s0 f0).1.arr sup r c) = true := by
  obtain ⟨h1, h2, _⟩ := medianForIntervals_generated cfg off ny nx inf sup amb mask s0 f0 hi hs ha his hai has
  rw [h1, h2]
  unfold FilterIntervals.medianForIntervals
  simp only [hreg, Bool.false_eq_true, if_false]
  exact ⟨C10.medianBand_spec _ cfg.fs ny nx _ rfl rfl hodd hny hnx r c,
    C10.medianBand_spec _ cfg.fs ny nx _ rfl rfl hodd hny hnx r c⟩

end Pandora.C10KernelsIntervals
