/-
  C13 — locality of the sub-pixel refinement (model of C06: `Refinement.loopRefinement`).

  `loop_refinement` is two `prange` loops whose body reads and writes the pixel's own cells: seen on
  partial images the step is *pointwise* (empty cone) in the pixel's cost row, disparity and flag.
  The only non-local ingredient of the model is its error channel (the first pixel that raises makes the
  whole run raise): the theorems are therefore about runs that return — `loopRefinement_ok_iff` says
  exactly when that is, pixel by pixel, so that a crop of a map on which the run returns also returns.
-/
import PandoraModel.Model.PipelineRun
import PandoraModel.Properties.C13Util
import PandoraModel.Model.Refinement

namespace Pandora.C13
open Pandora Pandora.Locality Pandora.Refinement

def Res.toOption {α : Type} : Res α → Option α
  | .ok y => some y
  | .err _ => none

/-- **The refinement step on partial images**: pixel by pixel (a pixel on which the body raises has no
    output). -/
def refineStep (P : Params) : Img PixIn → Img PixOut :=
  fun a p => (a p).bind fun x => Res.toOption (refinePixel P x)

/-- **Refinement: empty cone.** -/
theorem refineStep_local (P : Params) : Local Cone.zero (refineStep P) :=
  pointwise_local fun o => o.bind fun x => Res.toOption (refinePixel P x)

/-- **Refinement: no dependence on absolute position.** -/
theorem refineStep_equivariant (P : Params) : Equivariant (refineStep P) := by
  intro t a
  rfl

theorem mapRes_ok_getElem? {α β : Type} (f : α → Res β) :
    ∀ (l : List α) (ys : List β), mapRes f l = .ok ys →
      ∀ i : Nat, ys[i]? = (l[i]?).bind (fun x => Res.toOption (f x))
  | [], ys, h, i => by
    simp only [mapRes, Res.ok.injEq] at h
    subst h
    simp
  | x :: xs, ys, h, i => by
    unfold mapRes at h
    cases hx : f x with
    | err e => simp [hx] at h
    | ok y =>
      cases hxs : mapRes f xs with
      | err e => simp [hx, hxs] at h
      | ok ys' =>
        simp only [hx, hxs, Res.ok.injEq] at h
        subst h
        cases i with
        | zero => simp [hx, Res.toOption]
        | succ i =>
          simp only [List.getElem?_cons_succ]
          exact mapRes_ok_getElem? f xs ys' hxs i

theorem mapRes_ok_iff {α β : Type} (f : α → Res β) :
    ∀ (l : List α), (∃ ys, mapRes f l = .ok ys) ↔ ∀ x ∈ l, ∃ y, f x = .ok y
  | [] => by simp [mapRes]
  | x :: xs => by
    have ih := mapRes_ok_iff f xs
    constructor
    · rintro ⟨ys, h⟩
      unfold mapRes at h
      cases hx : f x with
      | err e => simp [hx] at h
      | ok y =>
        cases hxs : mapRes f xs with
        | err e => simp [hx, hxs] at h
        | ok ys' =>
          intro z hz
          rcases List.mem_cons.1 hz with rfl | hz
          · exact ⟨y, hx⟩
          · exact ih.1 ⟨ys', hxs⟩ z hz
    · intro h
      obtain ⟨y, hy⟩ := h x (List.mem_cons_self ..)
      obtain ⟨ys', hys⟩ := ih.2 (fun z hz => h z (List.mem_cons_of_mem _ hz))
      exact ⟨y :: ys', by unfold mapRes; simp [hy, hys]⟩

/-- **When the run returns**: exactly when the loop body returns on every pixel. -/
theorem loopRefinement_ok_iff (P : Params) (g : List (List PixIn)) :
    (∃ o, loopRefinement P g = .ok o) ↔ ∀ row ∈ g, ∀ x ∈ row, ∃ y, refinePixel P x = .ok y := by
  unfold loopRefinement
  rw [mapRes_ok_iff]
  constructor
  · intro h row hrow
    exact (mapRes_ok_iff _ row).1 (h row hrow)
  · intro h row hrow
    exact (mapRes_ok_iff _ row).2 (h row hrow)

/-- **The model of `loop_refinement`, when it returns, is the pointwise step `refineStep`.** -/
theorem loopRefinement_is_refineStep (P : Params) (g : List (List PixIn)) (o : List (List PixOut))
    (h : loopRefinement P g = .ok o) : gridImg o = refineStep P (gridImg g) := by
  funext p
  unfold gridImg refineStep
  by_cases hp : 0 ≤ p.1 ∧ 0 ≤ p.2
  · simp only [hp, and_self, if_true]
    have h1 := mapRes_ok_getElem? (mapRes (refinePixel P)) g o h p.1.toNat
    rw [h1]
    cases hg : g[p.1.toNat]? with
    | none => simp
    | some row =>
      simp only [Option.bind_some]
      cases hrow : mapRes (refinePixel P) row with
      | err e =>
        have hm : row ∈ g := List.mem_of_getElem? hg
        obtain ⟨ys, hys⟩ := (mapRes_ok_iff (mapRes (refinePixel P)) g).1 ⟨o, h⟩ row hm
        rw [hrow] at hys
        exact absurd hys (by simp)
      | ok orow =>
        simp only [Res.toOption, Option.bind_some]
        exact mapRes_ok_getElem? (refinePixel P) row orow hrow p.2.toNat
  · simp [hp]

/-- **Refinement on a crop = on the whole map**: if both runs return, the pixel at `(i, j)` of any
    sub-grid `g'` whose cell `(i, j)` is the cell `(i + r0, j + c0)` of `g` gets the same coefficient,
    disparity and flag — whatever else the two grids contain. -/
theorem refine_crop_eq_whole (P : Params) (g g' : List (List PixIn)) (o o' : List (List PixOut))
    (h : loopRefinement P g = .ok o) (h' : loopRefinement P g' = .ok o') (i j r0 c0 : Nat)
    (hcell : (g'[i]?).bind (fun row => row[j]?) = (g[i + r0]?).bind (fun row => row[j + c0]?)) :
    (o'[i]?).bind (fun row => row[j]?) = (o[i + r0]?).bind (fun row => row[j + c0]?) := by
  have e := congrFun (loopRefinement_is_refineStep P g o h) (((i + r0 : Nat) : Int), ((j + c0 : Nat) : Int))
  have e' := congrFun (loopRefinement_is_refineStep P g' o' h') ((i : Int), (j : Int))
  unfold gridImg refineStep at e e'
  simp only [Int.natCast_nonneg, and_self, if_true, Int.toNat_natCast] at e e'
  rw [e, e', hcell]

/-! ### Non-vacuity: a 1×2 grid on which the run returns (one invalid pixel, one pixel at the end of the
    interval) -/

def exP : Params := { method := .vfit, isMax := false, subpix := 1, dmin := -1, dmax := 1 }
def exGrid : List (List PixIn) :=
  [[{ costs := [.num 3, .num 1, .num 2], d := .num 0, flag := 1, pmin := -1, pmax := 1 },
    { costs := [.num 3, .num 1, .num 2], d := .num 1, flag := 0, pmin := -1, pmax := 1 }]]

def Res.isOk {α : Type} : Res α → Bool
  | .ok _ => true
  | .err _ => false

example : Res.isOk (loopRefinement exP exGrid) = true := by decide +kernel

end Pandora.C13
