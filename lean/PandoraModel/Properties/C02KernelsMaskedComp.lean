/-
  C02 / C04 — the GENERATED per-cell decisions of `cv_masked` (`Generated/KernelsCvMasked.lean`) folded over the
  disparities the way the source loops, then the generated interval test, give the NaN pattern of the model's cost volume;
  composed with `Properties/C04C02.lean`: a cost cell is NaN ⇔ it is not `computable`, stated about the generated decisions.

    * `genStep`, `genCvMaskedNan`        one iteration on a volume of "is NaN" Booleans (the generated `cvMaskedNanCell` at
                                         the plane of the disparity, fed with the NaN-ness of the two dilated masks — the
                                         right one read at the generated column), the fold over `dispRange`, then the
                                         generated `intervalNanCell`
    * `cvMaskedFold_generated_eq`        fold of the generated iteration = NaN-ness of the fold of `MC.cvMaskedStep`, for every
                                         list of disparities, every starting volume, every cell
    * `genCvMaskedNan_eq`                = NaN-ness of `MC.costVolume` (subpix > 0)
    * `generated_nan_iff_not_computable` = `! Criteria.computable (toCv x) r c j` for every input the model covers
                                         (`MC.Shape`, `gridMin ≤ gridMax`, step_col = 1), every measure
-/
import PandoraModel.Properties.C02KernelsMasked
import PandoraModel.Properties.C04C02

set_option linter.unusedSimpArgs false
set_option linter.unusedVariables false

namespace Pandora.C02KernelsMasked
open Pandora Pandora.MC Pandora.PyExpr
open Pandora.Generated.KernelsCvMasked

/-- a volume of "this cost is NaN" -/
abbrev NanVol := Int → Int → Nat → Bool

/-- the interval `point_interval` returns for the disparity `k / sp` (the model's; regenerated for C02 in KernelsGlue) -/
def pqOf (x : Input) (k : Int) : PQ := pointInterval x.L.cols (shiftRight x.R x.sp (iRight k x.sp)).cols k x.sp

/-- one iteration of the first loop of `cv_masked` on NaN-ness, built from the generated decision -/
def genStep (x : Input) (gmin : Int) (nv : NanVol) (k : Int) : NanVol := fun r c j =>
  if j = (k - gmin * (x.sp : Int)).toNat then
    (cvMaskedNanCell c (pqOf x k).p0 (pqOf x k).p1 (pqOf x k).q0 (pqOf x k).q1 (nv r c j)
      (maskRaster x.w x.L.rows x.L.cols x.mL r c).isNan
      (maskShift x.w x.R.rows x.R.cols x.mR (min 1 (iRight k x.sp)) r
        (cvMaskedNanCell c (pqOf x k).p0 (pqOf x k).p1 (pqOf x k).q0 (pqOf x k).q1 false false false).2).isNan).1
  else nv r c j

/-- the NaN pattern after `compute_cost_volume` + `cv_masked`, from the generated decisions -/
def genCvMaskedNan (x : Input) : NanVol :=
  let gmin := gridMin x.dminG x.L.rows x.L.cols
  let gmax := gridMax x.dmaxG x.L.rows x.L.cols
  let ks := dispRange gmin gmax x.sp
  fun r c j =>
    intervalNanCell (((gmin * (x.sp : Int) + j : Int) : ℚ) / (x.sp : ℚ)) (x.dminG r c : ℚ) (x.dmaxG r c : ℚ)
      ((ks.foldl (genStep x gmin) (fun r c j => (rawPlane x (ks.getD j 0) r c).isNan)) r c j)

theorem genStep_eq (x : Input) (gmin : Int) (cv : Volume) (k : Int) :
    genStep x gmin (fun r c j => (cv r c j).isNan) k = fun r c j => ((cvMaskedStep x gmin cv k) r c j).isNan := by
  funext r c j
  unfold genStep
  by_cases hj : j = (k - gmin * (x.sp : Int)).toNat
  · rw [if_pos hj, hj]
    exact (cvMaskedStep_isNan x gmin cv k r c).symm
  · rw [if_neg hj, cvMaskedStep_other x gmin cv k r c j hj]

/-- **the fold of the generated iteration is the NaN pattern of the model's first loop**, for every list of disparities
    and every starting volume -/
theorem cvMaskedFold_generated_eq (x : Input) (gmin : Int) (ks : List Int) (cv : Volume) (r c : Int) (j : Nat) :
    (ks.foldl (genStep x gmin) (fun r c j => (cv r c j).isNan)) r c j = ((ks.foldl (cvMaskedStep x gmin) cv) r c j).isNan := by
  induction ks generalizing cv with
  | nil => rfl
  | cons k ks ih =>
    rw [List.foldl_cons, List.foldl_cons, genStep_eq]
    exact ih (cvMaskedStep x gmin cv k)

/-- the generated NaN pattern is the NaN pattern of the model's cost volume -/
theorem genCvMaskedNan_eq (x : Input) (hs : 0 < x.sp) (r c : Int) (j : Nat) :
    genCvMaskedNan x r c j = (costVolume x r c j).isNan := by
  unfold genCvMaskedNan costVolume
  rw [intervalMask_isNan x _ _ r c j hs, cvMaskedFold_generated_eq]

/-- **a cost cell is NaN ⇔ it is not computable, about the GENERATED decisions**: every measure, window, subpix, mask
    layout and grid the model covers (step_col = 1) -/
theorem generated_nan_iff_not_computable (x : Input) (h : Shape x)
    (hg : gridMin x.dminG x.L.rows x.L.cols ≤ gridMax x.dmaxG x.L.rows x.L.cols) (r c j : Nat)
    (hj : j < nDisp (gridMin x.dminG x.L.rows x.L.cols) (gridMax x.dmaxG x.L.rows x.L.cols) x.sp) :
    genCvMaskedNan x (r : Int) (c : Int) j = ! Criteria.computable (C04C02.toCv x) r c j := by
  rw [genCvMaskedNan_eq x h.sp_pos]
  exact C04C02.nan_iff_not_computable x h hg r c j hj

end Pandora.C02KernelsMasked
