/-
  C13 — locality of the matching-cost step (model of C02: `MC.costVolume`, through its proved
  specification `MC.specCell`, for sad, ssd, census and zncc).

  The cell `(r, c, k/sp)` of the cost volume reads
    * the left image and left mask on the window of radius `w/2` around `(r, c)`,
    * the right image and right mask on the window around `(r, c + ⌊k/sp⌋)` and, for a fractional
      disparity, around its right-hand neighbour `(r, c + ⌊k/sp⌋ + 1)`,
    * the pixel's own disparity interval,
    * and whether those windows lie in the images (a window cut by the image border gives NaN).
  `coreCell_transport` is the arithmetic heart: two inputs that agree on those windows, one being
  translated by any offset, give the same cell.  `mcCellStep` is the step on partial images
  ("outside the image" = `none`), proved `Local` with cone `mcConeK` (rows `w/2`, columns `w/2` extended by
  the disparity) and translation equivariant; `specCell_is_mcCellStep` / `costVolume_is_mcCellStep`
  identify the model with it, and `mc_crop_eq_whole` is crop = whole for the cost volume.
-/
import PandoraModel.Properties.C13Util
import PandoraModel.Properties.C02

namespace Pandora.C13
open Pandora Pandora.Locality Pandora.MC

/-! ### finite sums and quantifiers under re-indexing -/

theorem sumZ_transport {α : Type} [Add α] (z : α) (f g : Int → α) (lo lo' : Int) (n : Nat)
    (h : ∀ i : Nat, i < n → f (lo + i) = g (lo' + i)) : sumZ z f lo n = sumZ z g lo' n := by
  induction n with
  | zero => rfl
  | succ n ih =>
    simp only [sumZ]
    rw [ih (fun i hi => h i (Nat.lt_succ_of_lt hi)), h n (Nat.lt_succ_self n)]

theorem allZ_transport (f g : Int → Bool) (lo lo' : Int) (n : Nat)
    (h : ∀ i : Nat, i < n → f (lo + i) = g (lo' + i)) : allZ f lo n = allZ g lo' n := by
  induction n with
  | zero => rfl
  | succ n ih =>
    simp only [allZ]
    rw [ih (fun i hi => h i (Nat.lt_succ_of_lt hi)), h n (Nat.lt_succ_self n)]

/-- `(a, b)` is in the window of radius `o` centred on `(r, c)` -/
def InWin (o : Nat) (r c a b : Int) : Prop := r - o ≤ a ∧ a ≤ r + o ∧ c - o ≤ b ∧ b ≤ c + o

theorem inWin_centre (o : Nat) (r c : Int) : InWin o r c r c := by unfold InWin; omega

theorem winSum_transport (o : Nat) (f g : Int → Int → Rat) (r c t1 t2 : Int)
    (h : ∀ a b, InWin o r c a b → f a b = g (a - t1) (b - t2)) :
    winSum o f r c = winSum o g (r - t1) (c - t2) := by
  unfold winSum
  apply sumZ_transport; intro i hi
  apply sumZ_transport; intro j hj
  rw [h _ _ (by unfold InWin; omega)]
  congr 1 <;> omega

theorem winAll_transport (o : Nat) (f g : Int → Int → Bool) (r c t1 t2 : Int)
    (h : ∀ a b, InWin o r c a b → f a b = g (a - t1) (b - t2)) :
    winAll o f r c = winAll o g (r - t1) (c - t2) := by
  unfold winAll
  apply allZ_transport; intro i hi
  apply allZ_transport; intro j hj
  rw [h _ _ (by unfold InWin; omega)]
  congr 1 <;> omega

theorem winCount_transport (o : Nat) (f g : Int → Int → Bool) (r c t1 t2 : Int)
    (h : ∀ a b, InWin o r c a b → f a b = g (a - t1) (b - t2)) :
    winCount o f r c = winCount o g (r - t1) (c - t2) := by
  unfold winCount
  apply sumZ_transport; intro i hi
  apply sumZ_transport; intro j hj
  rw [h _ _ (by unfold InWin; omega)]
  have e1 : r - t1 - (o : Int) + (i : Int) = r - (o : Int) + (i : Int) - t1 := by omega
  have e2 : c - t2 - (o : Int) + (j : Int) = c - (o : Int) + (j : Int) - t2 := by omega
  rw [e1, e2]

/-! ### the value and the masks under translation -/

theorem interpR_transport (R R' : Img) (sp : Nat) (k a b t1 t2 : Int)
    (h0 : R.px a (b + k / (sp : Int)) = R'.px (a - t1) (b - t2 + k / (sp : Int)))
    (h1 : k % (sp : Int) ≠ 0 → R.px a (b + k / (sp : Int) + 1) = R'.px (a - t1) (b - t2 + k / (sp : Int) + 1)) :
    interpR R sp k a b = interpR R' sp k (a - t1) (b - t2) := by
  unfold interpR
  simp only
  by_cases ht : k % (sp : Int) = 0
  · rw [if_pos ht, if_pos ht, h0]
  · rw [if_neg ht, if_neg ht, h0, h1 ht]

/-- **The textbook value only reads the two windows.** -/
theorem valueSpec_transport (x x' : Input) (hm : x'.meas = x.meas) (hw : x'.w = x.w) (r c k t1 t2 : Int)
    (hL : ∀ a b, InWin (half x.w) r c a b → x.L.px a b = x'.L.px (a - t1) (b - t2))
    (hR : ∀ a b, InWin (half x.w) r c a b →
      interpR x.R x.sp k a b = interpR x'.R x'.sp k (a - t1) (b - t2)) :
    valueSpec x r c k = valueSpec x' (r - t1) (c - t2) k := by
  have hc := inWin_centre (half x.w) r c
  unfold valueSpec
  rw [hm, hw]
  cases x.meas with
  | sad =>
    simp only
    congr 1
    apply winSum_transport
    intro a b hab
    rw [hL a b hab, hR a b hab]
  | ssd =>
    simp only
    congr 1
    apply winSum_transport
    intro a b hab
    rw [hL a b hab, hR a b hab]
  | census =>
    simp only
    congr 2
    apply winCount_transport
    intro a b hab
    simp only [hL a b hab, hR a b hab, hL r c hc, hR r c hc]
  | zncc =>
    have e1 := winSum_transport (half x.w) x.L.px x'.L.px r c t1 t2 hL
    have e2 := winSum_transport (half x.w) (fun a b => interpR x.R x.sp k a b)
      (fun a b => interpR x'.R x'.sp k a b) r c t1 t2 hR
    have e3 := winSum_transport (half x.w) (fun a b => x.L.px a b * interpR x.R x.sp k a b)
      (fun a b => x'.L.px a b * interpR x'.R x'.sp k a b) r c t1 t2
      (fun a b hab => by simp only [hL a b hab, hR a b hab])
    have e4 := winSum_transport (half x.w) (fun a b => x.L.px a b * x.L.px a b)
      (fun a b => x'.L.px a b * x'.L.px a b) r c t1 t2 (fun a b hab => by simp only [hL a b hab])
    have e5 := winSum_transport (half x.w) (fun a b => interpR x.R x.sp k a b * interpR x.R x.sp k a b)
      (fun a b => interpR x'.R x'.sp k a b * interpR x'.R x'.sp k a b) r c t1 t2
      (fun a b hab => by simp only [hR a b hab])
    simp only [e1, e2, e3, e4, e5]

theorem maskOk_transport (o : Nat) (m m' : Mask) (hp : m'.present = m.present) (hv : m'.valid = m.valid)
    (hn : m'.nodata = m.nodata) (r c t1 t2 : Int)
    (h : ∀ a b, InWin o r c a b → m.code a b = m'.code (a - t1) (b - t2)) :
    maskOk o m r c = maskOk o m' (r - t1) (c - t2) := by
  unfold maskOk
  congr 1
  · apply winAll_transport
    intro a b hab
    unfold isNodata
    rw [hp, hn, h a b hab]
  · unfold isInvalid
    rw [hp, hn, hv, h r c (inWin_centre o r c)]

/-! ### the cell without the two "window in the image" tests -/

/-- the prescribed cell of a pixel whose two windows lie in the images: reads no image size -/
def coreCell (x : Input) (r c k : Int) : Cell :=
  if (¬ (k < x.dminG r c * (x.sp : Int) ∨ k > x.dmaxG r c * (x.sp : Int))) ∧
      maskOk (half x.w) x.mL r c = true ∧ maskOkR x r c k = true then valueSpec x r c k else .nan

/-- the image sizes enter the prescribed cell through the two window tests only -/
theorem specCell_eq_core (x : Input) (r c k : Int) :
    specCell x r c k = if LeftInside x r c ∧ RightInside x c k then coreCell x r c k else .nan := by
  unfold specCell coreCell
  by_cases h : cause x r c k = .computable
  · have h' := (cause_computable_iff x r c k).1 h
    rw [if_pos h, if_pos ⟨h'.2.1, h'.2.2.1⟩, if_pos ⟨h'.1, h'.2.2.2⟩]
  · rw [if_neg h]
    by_cases hin : LeftInside x r c ∧ RightInside x c k
    · rw [if_pos hin, if_neg]
      intro hc
      exact h ((cause_computable_iff x r c k).2 ⟨hc.1, hin.1, hin.2, hc.2⟩)
    · rw [if_neg hin]

/-- the two inputs have the same configuration -/
structure SameParams (x x' : Input) : Prop where
  meas : x'.meas = x.meas
  w : x'.w = x.w
  sp : x'.sp = x.sp
  presentL : x'.mL.present = x.mL.present
  validL : x'.mL.valid = x.mL.valid
  nodataL : x'.mL.nodata = x.mL.nodata
  presentR : x'.mR.present = x.mR.present
  validR : x'.mR.valid = x.mR.valid
  nodataR : x'.mR.nodata = x.mR.nodata

/-- `(a, b)` is in one of the right windows of `(r, c)` at disparity `k/sp`: rows within `o`, columns from
    `c + ⌊k/sp⌋ - o` to `c + ⌊k/sp⌋ + o` (`+ 1` for a fractional disparity) -/
def InWinR (o sp : Nat) (r c k a b : Int) : Prop :=
  r - o ≤ a ∧ a ≤ r + o ∧ c + k / (sp : Int) - o ≤ b ∧ b ≤ c + k / (sp : Int) + o + fracBit k sp

/-- **One cell only reads the left window, the right window(s) and the pixel's interval — wherever the
    pixel is.**  `x'` is any input that agrees with `x`, translated by `(t1, t2)`, on those windows. -/
theorem coreCell_transport (x x' : Input) (hp : SameParams x x') (r c k t1 t2 : Int)
    (hL : ∀ a b, InWin (half x.w) r c a b →
      x.L.px a b = x'.L.px (a - t1) (b - t2) ∧ x.mL.code a b = x'.mL.code (a - t1) (b - t2))
    (hR : ∀ a b, InWinR (half x.w) x.sp r c k a b →
      x.R.px a b = x'.R.px (a - t1) (b - t2) ∧ x.mR.code a b = x'.mR.code (a - t1) (b - t2))
    (hg : x.dminG r c = x'.dminG (r - t1) (c - t2) ∧ x.dmaxG r c = x'.dmaxG (r - t1) (c - t2)) :
    coreCell x r c k = coreCell x' (r - t1) (c - t2) k := by
  have hf0 := fracBit_nonneg k x.sp
  have hf1 := fracBit_le_one k x.sp
  have hv : valueSpec x r c k = valueSpec x' (r - t1) (c - t2) k := by
    apply valueSpec_transport x x' hp.meas hp.w
    · intro a b hab; exact (hL a b hab).1
    · intro a b hab
      rw [hp.sp]
      unfold InWin at hab
      apply interpR_transport
      · have := (hR a (b + k / (x.sp : Int)) (by unfold InWinR; omega)).1
        rw [this]; congr 1; omega
      · intro hne
        have hfb : fracBit k x.sp = 1 := by unfold fracBit; rw [if_neg hne]
        have := (hR a (b + k / (x.sp : Int) + 1) (by unfold InWinR; omega)).1
        rw [this]; congr 1; omega
  have hmL : maskOk (half x.w) x.mL r c = maskOk (half x'.w) x'.mL (r - t1) (c - t2) := by
    rw [hp.w]
    exact maskOk_transport _ _ _ hp.presentL hp.validL hp.nodataL r c t1 t2 (fun a b hab => (hL a b hab).2)
  have hmR : maskOkR x r c k = maskOkR x' (r - t1) (c - t2) k := by
    unfold maskOkR
    rw [hp.w, hp.sp]
    have e0 : c - t2 + k / (x.sp : Int) = c + k / (x.sp : Int) - t2 := by omega
    have e1 : c + k / (x.sp : Int) - t2 + 1 = c + k / (x.sp : Int) + 1 - t2 := by omega
    rw [e0, e1]
    have m0 : maskOk (half x.w) x.mR r (c + k / (x.sp : Int))
        = maskOk (half x.w) x'.mR (r - t1) (c + k / (x.sp : Int) - t2) :=
      maskOk_transport _ _ _ hp.presentR hp.validR hp.nodataR r _ t1 t2
        (fun a b hab => (hR a b (by unfold InWin at hab; unfold InWinR; omega)).2)
    rw [m0]
    by_cases hfb : fracBit k x.sp = 0
    · simp [hfb]
    · have m1 : maskOk (half x.w) x.mR r (c + k / (x.sp : Int) + 1)
          = maskOk (half x.w) x'.mR (r - t1) (c + k / (x.sp : Int) + 1 - t2) :=
        maskOk_transport _ _ _ hp.presentR hp.validR hp.nodataR r _ t1 t2
          (fun a b hab => (hR a b (by unfold InWin at hab; unfold InWinR; omega)).2)
      rw [m1]
  unfold coreCell
  rw [← hg.1, ← hg.2, hp.sp, ← hmL, ← hmR, ← hv]

end Pandora.C13
