/-
  C13 — locality of the matching-cost step (model of C02: `MC.costVolume`, through its proved
  specification `MC.specCell`, for sad, ssd, census and zncc).

  The cell `(r, c, k/sp)` of the cost volume reads
    * the left image and left mask on the window of radius `w/2` around `(r, c)`,
    * the right image and right mask on the window around `(r, c + ⌊k/sp⌋)` and, for a fractional
      disparity, around its right-hand neighbour `(r, c + ⌊k/sp⌋ + 1)`,
    * the pixel's own disparity interval,
    * and whether those windows lie in the images (a window cut by the image border gives NaN).
  `coreCell_transport` is the arithmetic heart: two inputs that agree on those windows, one being
  translated by any offset, give the same cell.  `mcCellStep` is the step on partial images
  ("outside the image" = `none`), proved `Local` with cone `mcConeK` (rows `w/2`, columns `w/2` extended by
  the disparity) and translation equivariant; `specCell_is_mcCellStep` / `costVolume_is_mcCellStep`
  identify the model with it, and `mc_crop_eq_whole` is crop = whole for the cost volume.
-/
import PandoraModel.Model.PipelineRun
import PandoraModel.Properties.C13Util
import PandoraModel.Properties.C02

namespace Pandora.C13
open Pandora Pandora.Locality Pandora.MC

/-! ### finite sums and quantifiers under re-indexing -/

theorem sumZ_transport {α : Type} [Add α] (z : α) (f g : Int → α) (lo lo' : Int) (n : Nat)
    (h : ∀ i : Nat, i < n → f (lo + i) = g (lo' + i)) : sumZ z f lo n = sumZ z g lo' n := by
  induction n with
  | zero => rfl
  | succ n ih =>
    simp only [sumZ]
    rw [ih (fun i hi => h i (Nat.lt_succ_of_lt hi)), h n (Nat.lt_succ_self n)]

theorem allZ_transport (f g : Int → Bool) (lo lo' : Int) (n : Nat)
    (h : ∀ i : Nat, i < n → f (lo + i) = g (lo' + i)) : allZ f lo n = allZ g lo' n := by
  induction n with
  | zero => rfl
  | succ n ih =>
    simp only [allZ]
    rw [ih (fun i hi => h i (Nat.lt_succ_of_lt hi)), h n (Nat.lt_succ_self n)]

/-- `(a, b)` is in the window of radius `o` centred on `(r, c)` -/
def InWin (o : Nat) (r c a b : Int) : Prop := r - o ≤ a ∧ a ≤ r + o ∧ c - o ≤ b ∧ b ≤ c + o

theorem inWin_centre (o : Nat) (r c : Int) : InWin o r c r c := by unfold InWin; omega

theorem winSum_transport (o : Nat) (f g : Int → Int → Rat) (r c t1 t2 : Int)
    (h : ∀ a b, InWin o r c a b → f a b = g (a - t1) (b - t2)) :
    winSum o f r c = winSum o g (r - t1) (c - t2) := by
  unfold winSum
  apply sumZ_transport; intro i hi
  apply sumZ_transport; intro j hj
  rw [h _ _ (by unfold InWin; omega)]
  congr 1 <;> omega

theorem winAll_transport (o : Nat) (f g : Int → Int → Bool) (r c t1 t2 : Int)
    (h : ∀ a b, InWin o r c a b → f a b = g (a - t1) (b - t2)) :
    winAll o f r c = winAll o g (r - t1) (c - t2) := by
  unfold winAll
  apply allZ_transport; intro i hi
  apply allZ_transport; intro j hj
  rw [h _ _ (by unfold InWin; omega)]
  congr 1 <;> omega

theorem winCount_transport (o : Nat) (f g : Int → Int → Bool) (r c t1 t2 : Int)
    (h : ∀ a b, InWin o r c a b → f a b = g (a - t1) (b - t2)) :
    winCount o f r c = winCount o g (r - t1) (c - t2) := by
  unfold winCount
  apply sumZ_transport; intro i hi
  apply sumZ_transport; intro j hj
  rw [h _ _ (by unfold InWin; omega)]
  have e1 : r - t1 - (o : Int) + (i : Int) = r - (o : Int) + (i : Int) - t1 := by omega
  have e2 : c - t2 - (o : Int) + (j : Int) = c - (o : Int) + (j : Int) - t2 := by omega
  rw [e1, e2]

/-! ### the value and the masks under translation -/

theorem interpR_transport (R R' : Img) (sp : Nat) (k a b t1 t2 : Int)
    (h0 : R.px a (b + k / (sp : Int)) = R'.px (a - t1) (b - t2 + k / (sp : Int)))
    (h1 : k % (sp : Int) ≠ 0 → R.px a (b + k / (sp : Int) + 1) = R'.px (a - t1) (b - t2 + k / (sp : Int) + 1)) :
    interpR R sp k a b = interpR R' sp k (a - t1) (b - t2) := by
  unfold interpR
  simp only
  by_cases ht : k % (sp : Int) = 0
  · rw [if_pos ht, if_pos ht, h0]
  · rw [if_neg ht, if_neg ht, h0, h1 ht]

/-- **The textbook value only reads the two windows.** -/
theorem valueSpec_transport (x x' : Input) (hm : x'.meas = x.meas) (hw : x'.w = x.w) (r c k t1 t2 : Int)
    (hL : ∀ a b, InWin (half x.w) r c a b → x.L.px a b = x'.L.px (a - t1) (b - t2))
    (hR : ∀ a b, InWin (half x.w) r c a b →
      interpR x.R x.sp k a b = interpR x'.R x'.sp k (a - t1) (b - t2)) :
    valueSpec x r c k = valueSpec x' (r - t1) (c - t2) k := by
  have hc := inWin_centre (half x.w) r c
  unfold valueSpec
  rw [hm, hw]
  cases x.meas with
  | sad =>
    simp only
    congr 1
    apply winSum_transport
    intro a b hab
    rw [hL a b hab, hR a b hab]
  | ssd =>
    simp only
    congr 1
    apply winSum_transport
    intro a b hab
    rw [hL a b hab, hR a b hab]
  | census =>
    simp only
    congr 2
    apply winCount_transport
    intro a b hab
    simp only [hL a b hab, hR a b hab, hL r c hc, hR r c hc]
  | zncc =>
    have e1 := winSum_transport (half x.w) x.L.px x'.L.px r c t1 t2 hL
    have e2 := winSum_transport (half x.w) (fun a b => interpR x.R x.sp k a b)
      (fun a b => interpR x'.R x'.sp k a b) r c t1 t2 hR
    have e3 := winSum_transport (half x.w) (fun a b => x.L.px a b * interpR x.R x.sp k a b)
      (fun a b => x'.L.px a b * interpR x'.R x'.sp k a b) r c t1 t2
      (fun a b hab => by simp only [hL a b hab, hR a b hab])
    have e4 := winSum_transport (half x.w) (fun a b => x.L.px a b * x.L.px a b)
      (fun a b => x'.L.px a b * x'.L.px a b) r c t1 t2 (fun a b hab => by simp only [hL a b hab])
    have e5 := winSum_transport (half x.w) (fun a b => interpR x.R x.sp k a b * interpR x.R x.sp k a b)
      (fun a b => interpR x'.R x'.sp k a b * interpR x'.R x'.sp k a b) r c t1 t2
      (fun a b hab => by simp only [hR a b hab])
    simp only [e1, e2, e3, e4, e5]

theorem maskOk_transport (o : Nat) (m m' : Mask) (hp : m'.present = m.present) (hv : m'.valid = m.valid)
    (hn : m'.nodata = m.nodata) (r c t1 t2 : Int)
    (h : ∀ a b, InWin o r c a b → m.code a b = m'.code (a - t1) (b - t2)) :
    maskOk o m r c = maskOk o m' (r - t1) (c - t2) := by
  unfold maskOk
  congr 1
  · apply winAll_transport
    intro a b hab
    unfold isNodata
    rw [hp, hn, h a b hab]
  · unfold isInvalid
    rw [hp, hn, hv, h r c (inWin_centre o r c)]

/-! ### the cell without the two "window in the image" tests -/

/-- the prescribed cell of a pixel whose two windows lie in the images: reads no image size -/
def coreCell (x : Input) (r c k : Int) : Cell :=
  if (¬ (k < x.dminG r c * (x.sp : Int) ∨ k > x.dmaxG r c * (x.sp : Int))) ∧
      maskOk (half x.w) x.mL r c = true ∧ maskOkR x r c k = true then valueSpec x r c k else .nan

/-- the image sizes enter the prescribed cell through the two window tests only -/
theorem specCell_eq_core (x : Input) (r c k : Int) :
    specCell x r c k = if LeftInside x r c ∧ RightInside x c k then coreCell x r c k else .nan := by
  unfold specCell coreCell
  by_cases h : cause x r c k = .computable
  · have h' := (cause_computable_iff x r c k).1 h
    rw [if_pos h, if_pos ⟨h'.2.1, h'.2.2.1⟩, if_pos ⟨h'.1, h'.2.2.2⟩]
  · rw [if_neg h]
    by_cases hin : LeftInside x r c ∧ RightInside x c k
    · rw [if_pos hin, if_neg]
      intro hc
      exact h ((cause_computable_iff x r c k).2 ⟨hc.1, hin.1, hin.2, hc.2⟩)
    · rw [if_neg hin]

/-- the two inputs have the same configuration -/
structure SameParams (x x' : Input) : Prop where
  meas : x'.meas = x.meas
  w : x'.w = x.w
  sp : x'.sp = x.sp
  presentL : x'.mL.present = x.mL.present
  validL : x'.mL.valid = x.mL.valid
  nodataL : x'.mL.nodata = x.mL.nodata
  presentR : x'.mR.present = x.mR.present
  validR : x'.mR.valid = x.mR.valid
  nodataR : x'.mR.nodata = x.mR.nodata

/-- `(a, b)` is in one of the right windows of `(r, c)` at disparity `k/sp`: rows within `o`, columns from
    `c + ⌊k/sp⌋ - o` to `c + ⌊k/sp⌋ + o` (`+ 1` for a fractional disparity) -/
def InWinR (o sp : Nat) (r c k a b : Int) : Prop :=
  r - o ≤ a ∧ a ≤ r + o ∧ c + k / (sp : Int) - o ≤ b ∧ b ≤ c + k / (sp : Int) + o + fracBit k sp

/-- **One cell only reads the left window, the right window(s) and the pixel's interval — wherever the
    pixel is.**  `x'` is any input that agrees with `x`, translated by `(t1, t2)`, on those windows. -/
theorem coreCell_transport (x x' : Input) (hp : SameParams x x') (r c k t1 t2 : Int)
    (hL : ∀ a b, InWin (half x.w) r c a b →
      x.L.px a b = x'.L.px (a - t1) (b - t2) ∧ x.mL.code a b = x'.mL.code (a - t1) (b - t2))
    (hR : ∀ a b, InWinR (half x.w) x.sp r c k a b →
      x.R.px a b = x'.R.px (a - t1) (b - t2) ∧ x.mR.code a b = x'.mR.code (a - t1) (b - t2))
    (hg : x.dminG r c = x'.dminG (r - t1) (c - t2) ∧ x.dmaxG r c = x'.dmaxG (r - t1) (c - t2)) :
    coreCell x r c k = coreCell x' (r - t1) (c - t2) k := by
  have hf0 := fracBit_nonneg k x.sp
  have hf1 := fracBit_le_one k x.sp
  have hv : valueSpec x r c k = valueSpec x' (r - t1) (c - t2) k := by
    apply valueSpec_transport x x' hp.meas hp.w
    · intro a b hab; exact (hL a b hab).1
    · intro a b hab
      rw [hp.sp]
      unfold InWin at hab
      apply interpR_transport
      · have := (hR a (b + k / (x.sp : Int)) (by unfold InWinR; omega)).1
        rw [this]; congr 1; omega
      · intro hne
        have hfb : fracBit k x.sp = 1 := by unfold fracBit; rw [if_neg hne]
        have := (hR a (b + k / (x.sp : Int) + 1) (by unfold InWinR; omega)).1
        rw [this]; congr 1; omega
  have hmL : maskOk (half x.w) x.mL r c = maskOk (half x'.w) x'.mL (r - t1) (c - t2) := by
    rw [hp.w]
    exact maskOk_transport _ _ _ hp.presentL hp.validL hp.nodataL r c t1 t2 (fun a b hab => (hL a b hab).2)
  have hmR : maskOkR x r c k = maskOkR x' (r - t1) (c - t2) k := by
    unfold maskOkR
    rw [hp.w, hp.sp]
    have e0 : c - t2 + k / (x.sp : Int) = c + k / (x.sp : Int) - t2 := by omega
    have e1 : c + k / (x.sp : Int) - t2 + 1 = c + k / (x.sp : Int) + 1 - t2 := by omega
    rw [e0, e1]
    have m0 : maskOk (half x.w) x.mR r (c + k / (x.sp : Int))
        = maskOk (half x.w) x'.mR (r - t1) (c + k / (x.sp : Int) - t2) :=
      maskOk_transport _ _ _ hp.presentR hp.validR hp.nodataR r _ t1 t2
        (fun a b hab => (hR a b (by unfold InWin at hab; unfold InWinR; omega)).2)
    rw [m0]
    by_cases hfb : fracBit k x.sp = 0
    · simp [hfb]
    · have m1 : maskOk (half x.w) x.mR r (c + k / (x.sp : Int) + 1)
          = maskOk (half x.w) x'.mR (r - t1) (c + k / (x.sp : Int) + 1 - t2) :=
        maskOk_transport _ _ _ hp.presentR hp.validR hp.nodataR r _ t1 t2
          (fun a b hab => (hR a b (by unfold InWin at hab; unfold InWinR; omega)).2)
      rw [m1]
  unfold coreCell
  rw [← hg.1, ← hg.2, hp.sp, ← hmL, ← hmR, ← hv]

/-! ### the step on partial images -/

def readQ (a : Img McCell) (f : McCell → Rat) (i j : Int) : Rat :=
  match a (i, j) with
  | some s => f s
  | none => 0

def readZ (a : Img McCell) (f : McCell → Int) (i j : Int) : Int :=
  match a (i, j) with
  | some s => f s
  | none => 0

/-- an input that reads a partial image (no image size: `coreCell` reads none) -/
def inputOf (P : McParams) (a : Img McCell) : Input where
  meas := P.meas
  w := P.w
  sp := P.sp
  L := ⟨0, 0, readQ a (·.l)⟩
  R := ⟨0, 0, readQ a (·.r)⟩
  mL := ⟨P.presentL, readZ a (·.ml), P.validL, P.nodataL⟩
  mR := ⟨P.presentR, readZ a (·.mr), P.validR, P.nodataR⟩
  dminG := readZ a (·.dmin)
  dmaxG := readZ a (·.dmax)

/-- the two windows lie in the partial image: two opposite corners of the left window, the two ends of
    the right window(s) on the pixel's row -/
def windowsIn (P : McParams) (k : Int) (a : Img McCell) (p : Px) : Prop :=
  (a (p.1 - (half P.w : Nat), p.2 - (half P.w : Nat))).isSome = true ∧
  (a (p.1 + (half P.w : Nat), p.2 + (half P.w : Nat))).isSome = true ∧
  (a (p.1, p.2 + k / (P.sp : Int) - (half P.w : Nat))).isSome = true ∧
  (a (p.1, p.2 + k / (P.sp : Int) + (half P.w : Nat) + fracBit k P.sp)).isSome = true

instance (P : McParams) (k : Int) (a : Img McCell) (p : Px) : Decidable (windowsIn P k a p) := by
  unfold windowsIn; infer_instance

/-- **The matching-cost step on partial images, one disparity `k/sp`.** -/
def mcCellStep (P : McParams) (k : Int) : Img McCell → Img Cell := fun a p =>
  (a p).map fun _ => if windowsIn P k a p then coreCell (inputOf P a) p.1 p.2 k else .nan

/-- the cone of the cell at disparity `k/sp`: rows within `w/2`; columns within `w/2`, extended to the
    left by `-⌊k/sp⌋` (if negative) and to the right by `⌈k/sp⌉` (if positive) -/
def mcConeK (P : McParams) (k : Int) : Cone :=
  ⟨half P.w, half P.w, half P.w + (-(k / (P.sp : Int))).toNat, half P.w + (k / (P.sp : Int) + fracBit k P.sp).toNat⟩

theorem sameParams_inputOf (P : McParams) (a b : Img McCell) : SameParams (inputOf P a) (inputOf P b) :=
  ⟨rfl, rfl, rfl, rfl, rfl, rfl, rfl, rfl, rfl⟩

/-- **Matching cost (any measure), one disparity: local with cone `mcConeK`.** -/
theorem mcCellStep_local (P : McParams) (k : Int) : Local (mcConeK P k) (mcCellStep P k) := by
  intro a b p hab
  have hf0 := fracBit_nonneg k P.sp
  have hf1 := fracBit_le_one k P.sp
  have hq : ∀ i j : Int, p.1 - (half P.w : Nat) ≤ i → i ≤ p.1 + (half P.w : Nat) →
      p.2 - (half P.w : Nat) - (-(k / (P.sp : Int))).toNat ≤ j →
      j ≤ p.2 + (half P.w : Nat) + (k / (P.sp : Int) + fracBit k P.sp).toNat → a (i, j) = b (i, j) := by
    intro i j h1 h2 h3 h4
    apply hab
    unfold inCone mcConeK
    simp only
    omega
  unfold mcCellStep
  rw [hq p.1 p.2 (by omega) (by omega) (by omega) (by omega)]
  congr 1
  funext _
  have hw : windowsIn P k a p ↔ windowsIn P k b p := by
    unfold windowsIn
    rw [hq _ _ (by omega) (by omega) (by omega) (by omega), hq _ _ (by omega) (by omega) (by omega) (by omega),
      hq _ _ (by omega) (by omega) (by omega) (by omega), hq _ _ (by omega) (by omega) (by omega) (by omega)]
  have hcore : coreCell (inputOf P a) p.1 p.2 k = coreCell (inputOf P b) p.1 p.2 k := by
    have := coreCell_transport (inputOf P a) (inputOf P b) (sameParams_inputOf P a b) p.1 p.2 k 0 0
      (by
        intro i j hij
        unfold InWin at hij
        simp only [inputOf, readQ, readZ, Int.sub_zero] at hij ⊢
        rw [hq i j (by omega) (by omega) (by omega) (by omega)]
        exact ⟨rfl, rfl⟩)
      (by
        intro i j hij
        unfold InWinR at hij
        simp only [inputOf, readQ, readZ, Int.sub_zero] at hij ⊢
        rw [hq i j (by omega) (by omega) (by omega) (by omega)]
        exact ⟨rfl, rfl⟩)
      (by
        simp only [inputOf, readZ, Int.sub_zero]
        rw [hq p.1 p.2 (by omega) (by omega) (by omega) (by omega)]
        exact ⟨rfl, rfl⟩)
    simpa only [Int.sub_zero] using this
  by_cases h : windowsIn P k a p
  · rw [if_pos h, if_pos (hw.1 h), hcore]
  · rw [if_neg h, if_neg (fun h' => h (hw.2 h'))]

/-- **Matching cost: no dependence on absolute position.** -/
theorem mcCellStep_equivariant (P : McParams) (k : Int) : Equivariant (mcCellStep P k) := by
  intro t a
  funext p
  unfold mcCellStep
  show ((a (p.1 + t.1, p.2 + t.2)).map fun _ => _) = ((a (p.1 + t.1, p.2 + t.2)).map fun _ => _)
  congr 1
  funext _
  have hw : windowsIn P k (shift t a) p ↔ windowsIn P k a (p.1 + t.1, p.2 + t.2) := by
    unfold windowsIn shift
    simp only
    have e1 : p.1 - ((half P.w : Nat) : Int) + t.1 = p.1 + t.1 - ((half P.w : Nat) : Int) := by omega
    have e2 : p.2 - ((half P.w : Nat) : Int) + t.2 = p.2 + t.2 - ((half P.w : Nat) : Int) := by omega
    have e3 : p.1 + ((half P.w : Nat) : Int) + t.1 = p.1 + t.1 + ((half P.w : Nat) : Int) := by omega
    have e4 : p.2 + ((half P.w : Nat) : Int) + t.2 = p.2 + t.2 + ((half P.w : Nat) : Int) := by omega
    have e5 : p.2 + k / (P.sp : Int) - ((half P.w : Nat) : Int) + t.2
        = p.2 + t.2 + k / (P.sp : Int) - ((half P.w : Nat) : Int) := by omega
    have e6 : p.2 + k / (P.sp : Int) + ((half P.w : Nat) : Int) + fracBit k P.sp + t.2
        = p.2 + t.2 + k / (P.sp : Int) + ((half P.w : Nat) : Int) + fracBit k P.sp := by omega
    rw [e1, e2, e3, e4, e5, e6]
  have hcore : coreCell (inputOf P a) (p.1 + t.1) (p.2 + t.2) k = coreCell (inputOf P (shift t a)) p.1 p.2 k := by
    have := coreCell_transport (inputOf P a) (inputOf P (shift t a)) (sameParams_inputOf P a _)
      (p.1 + t.1) (p.2 + t.2) k t.1 t.2
      (by
        intro i j _
        simp only [inputOf, readQ, readZ, shift, Int.sub_add_cancel]
        exact ⟨trivial, trivial⟩)
      (by
        intro i j _
        simp only [inputOf, readQ, readZ, shift, Int.sub_add_cancel]
        exact ⟨trivial, trivial⟩)
      (by
        simp only [inputOf, readZ, shift, Int.add_sub_cancel]
        exact ⟨trivial, trivial⟩)
    simpa only [Int.add_sub_cancel] using this
  by_cases h : windowsIn P k (shift t a) p
  · rw [if_pos h, if_pos (hw.1 h), hcore]
  · rw [if_neg h, if_neg (fun h' => h (hw.2 h')), ]

/-! ### the model is that step -/

theorem sameParams_scene (x : Input) (a : Img McCell) : SameParams x (inputOf (paramsOf x) a) :=
  ⟨rfl, rfl, rfl, rfl, rfl, rfl, rfl, rfl, rfl⟩

theorem mcImg_read (x : Input) (i j : Int) (hi : 0 ≤ i ∧ i < x.L.rows) (hj : 0 ≤ j ∧ j < x.L.cols) :
    toImg x.L.rows x.L.cols (mcScene x) (i, j)
      = some ⟨x.L.px i j, x.R.px i j, x.mL.code i j, x.mR.code i j, x.dminG i j, x.dmaxG i j⟩ := by
  have e1 : i = ((i.toNat : Nat) : Int) := by omega
  have e2 : j = ((j.toNat : Nat) : Int) := by omega
  rw [e1, e2, toImg_some _ _ _ _ _ (by omega) (by omega)]
  rfl

/-- **The prescribed cost of the model is the step `mcCellStep` on the partial image of the scene**, for
    every measure, window, sub-pixel factor, disparity and image size. -/
theorem specCell_is_mcCellStep (x : Input) (h : Shape x) (k : Int) :
    toImg x.L.rows x.L.cols (fun r c => specCell x r c k)
      = mcCellStep (paramsOf x) k (toImg x.L.rows x.L.cols (mcScene x)) := by
  have hf0 := fracBit_nonneg k x.sp
  have hf1 := fracBit_le_one k x.sp
  have hcols := h.cols_eq
  funext q
  by_cases hq : InImage x.L.rows x.L.cols q
  · obtain ⟨r, c, rfl, hr, hc⟩ : ∃ r c : Nat, q = ((r : Int), (c : Int)) ∧ r < x.L.rows ∧ c < x.L.cols := by
      unfold InImage at hq
      refine ⟨q.1.toNat, q.2.toNat, ?_, by omega, by omega⟩
      ext <;> simp <;> omega
    rw [toImg_some _ _ _ r c hr hc]
    unfold mcCellStep
    rw [toImg_some _ _ _ r c hr hc]
    simp only [Option.map_some]
    congr 1
    rw [specCell_eq_core]
    have hw : windowsIn (paramsOf x) k (toImg x.L.rows x.L.cols (mcScene x)) ((r : Int), (c : Int))
        ↔ LeftInside x r c ∧ RightInside x c k := by
      unfold windowsIn LeftInside RightInside
      simp only [Option.isSome_iff_ne_none, ne_eq, toImg_eq_none_iff, InImage, paramsOf, Decidable.not_not]
      omega
    by_cases hin : LeftInside x r c ∧ RightInside x c k
    · rw [if_pos hin, if_pos (hw.2 hin)]
      obtain ⟨⟨hl1, hl2, hl3, hl4⟩, hr1, hr2⟩ := hin
      have := coreCell_transport x (inputOf (paramsOf x) (toImg x.L.rows x.L.cols (mcScene x)))
        (sameParams_scene x _) r c k 0 0
        (by
          intro i j hij
          unfold InWin at hij
          simp only [inputOf, readQ, readZ, Int.sub_zero]
          rw [mcImg_read x i j (by omega) (by omega)]
          exact ⟨rfl, rfl⟩)
        (by
          intro i j hij
          unfold InWinR at hij
          simp only [inputOf, readQ, readZ, Int.sub_zero]
          rw [mcImg_read x i j (by omega) (by omega)]
          exact ⟨rfl, rfl⟩)
        (by
          simp only [inputOf, readZ, Int.sub_zero]
          rw [mcImg_read x r c (by omega) (by omega)]
          exact ⟨rfl, rfl⟩)
      simpa only [Int.sub_zero] using this
    · rw [if_neg hin, if_neg (fun h' => hin (hw.1 h'))]
  · rw [toImg_none _ _ _ q hq]
    unfold mcCellStep
    rw [toImg_none _ _ _ q hq]
    rfl

/-- **The cost volume of the model (`compute_cost_volume` + `cv_masked`), plane `j`, is the step
    `mcCellStep` at disparity `(gmin·sp + j)/sp`.**  Hypotheses of C02's `costVolume_eq_spec`: well-formed
    shape; for zncc, the variance threshold never fires on a non-zero variance. -/
theorem costVolume_is_mcCellStep (x : Input) (hwf : wfShape x = true)
    (hz : x.meas = .zncc → ∀ k : Int, noTinyVariance x k = true) (j : Nat)
    (hj : j < nDisp (gridMin x.dminG x.L.rows x.L.cols) (gridMax x.dmaxG x.L.rows x.L.cols) x.sp) :
    toImg x.L.rows x.L.cols (fun r c => costVolume x r c j)
      = mcCellStep (paramsOf x) (gridMin x.dminG x.L.rows x.L.cols * (x.sp : Int) + j)
          (toImg x.L.rows x.L.cols (mcScene x)) := by
  rw [← specCell_is_mcCellStep x (C02.shape_of_wf x hwf)]
  apply toImg_congr
  intro r c _ _
  rw [C02.costVolume_eq_spec x hwf hz r c j hj]
  rfl

/-- **Matching cost: crop run = whole run, one cell.**  `x'` is an input whose scene is the
    `rows' × cols'` crop of the scene of `x` starting at `(r0, c0)`, with the same configuration.  The
    prescribed cost of crop pixel `(r, c)` at disparity `k/sp` is that of pixel `(r + r0, c + c0)` of the
    whole scene, as soon as every pixel of the cone `mcConeK` is in the crop or outside the image. -/
theorem mc_crop_eq_whole (x x' : Input) (h : Shape x) (h' : Shape x') (hp : paramsOf x' = paramsOf x)
    (r0 c0 : Nat)
    (hcrop : ∀ r c, r < x'.L.rows → c < x'.L.cols → mcScene x' r c = mcScene x (r + r0) (c + c0))
    (hfit : r0 + x'.L.rows ≤ x.L.rows ∧ c0 + x'.L.cols ≤ x.L.cols) (k : Int) (r c : Nat)
    (hr : r < x'.L.rows) (hc : c < x'.L.cols)
    (hcone : ∀ q, inCone (mcConeK (paramsOf x) k) ((r : Int) + r0, (c : Int) + c0) q →
      InRect r0 c0 x'.L.rows x'.L.cols q ∨ ¬ InImage x.L.rows x.L.cols q) :
    specCell x' r c k = specCell x ((r + r0 : Nat) : Int) ((c + c0 : Nat) : Int) k := by
  have h1 := specCell_is_mcCellStep x' h' k
  have h2 := specCell_is_mcCellStep x h k
  have h3 := crop_run_eq_whole (mcCellStep_local (paramsOf x) k) (mcCellStep_equivariant (paramsOf x) k)
    x.L.rows x.L.cols r0 c0 x'.L.rows x'.L.cols (mcScene x) hfit ((r : Int), (c : Int)) hcone
  have h4 : toImg x'.L.rows x'.L.cols (mcScene x') = toImg x'.L.rows x'.L.cols (cropArr r0 c0 (mcScene x)) :=
    toImg_congr _ _ _ _ hcrop
  rw [hp] at h1
  rw [← h4, ← h1, ← h2, toImg_some _ _ _ r c hr hc] at h3
  have e : (((r : Int) + (r0 : Int), (c : Int) + (c0 : Int)) : Px) = (((r + r0 : Nat) : Int), ((c + c0 : Nat) : Int)) := by
    ext <;> simp
  rw [e, toImg_some _ _ _ (r + r0) (c + c0) (by omega) (by omega)] at h3
  exact Option.some.inj h3

/-- **… and for the cost volumes of the two runs**: plane `j'` of the crop's volume and plane `j` of the
    whole volume being the same disparity (`gmin'·sp + j' = gmin·sp + j`; with a scalar interval
    `gmin' = gmin` and `j' = j`). -/
theorem costVolume_crop_eq_whole (x x' : Input) (hwf : wfShape x = true) (hwf' : wfShape x' = true)
    (hz : x.meas = .zncc → ∀ k : Int, noTinyVariance x k = true)
    (hz' : x'.meas = .zncc → ∀ k : Int, noTinyVariance x' k = true)
    (hp : paramsOf x' = paramsOf x) (r0 c0 : Nat)
    (hcrop : ∀ r c, r < x'.L.rows → c < x'.L.cols → mcScene x' r c = mcScene x (r + r0) (c + c0))
    (hfit : r0 + x'.L.rows ≤ x.L.rows ∧ c0 + x'.L.cols ≤ x.L.cols) (j j' : Nat)
    (hj : j < nDisp (gridMin x.dminG x.L.rows x.L.cols) (gridMax x.dmaxG x.L.rows x.L.cols) x.sp)
    (hj' : j' < nDisp (gridMin x'.dminG x'.L.rows x'.L.cols) (gridMax x'.dmaxG x'.L.rows x'.L.cols) x'.sp)
    (hk : gridMin x'.dminG x'.L.rows x'.L.cols * (x'.sp : Int) + j'
        = gridMin x.dminG x.L.rows x.L.cols * (x.sp : Int) + j)
    (r c : Nat) (hr : r < x'.L.rows) (hc : c < x'.L.cols)
    (hcone : ∀ q, inCone (mcConeK (paramsOf x) (gridMin x.dminG x.L.rows x.L.cols * (x.sp : Int) + j))
        ((r : Int) + r0, (c : Int) + c0) q →
      InRect r0 c0 x'.L.rows x'.L.cols q ∨ ¬ InImage x.L.rows x.L.cols q) :
    costVolume x' r c j' = costVolume x ((r + r0 : Nat) : Int) ((c + c0 : Nat) : Int) j := by
  rw [C02.costVolume_eq_spec x hwf hz _ _ j hj, C02.costVolume_eq_spec x' hwf' hz' _ _ j' hj']
  show specCell x' r c _ = specCell x _ _ _
  rw [hk]
  exact mc_crop_eq_whole x x' (C02.shape_of_wf x hwf) (C02.shape_of_wf x' hwf') hp r0 c0 hcrop hfit _ r c hr hc hcone

/-! ### the whole cost row of a pixel: the documented cone -/

/-- the documented cone of the matching-cost step for disparities in `[gmin, gmax]`: rows within `w/2`,
    columns within `w/2` extended by the interval -/
def mcCone (P : McParams) (gmin gmax : Int) : Cone :=
  ⟨half P.w, half P.w, half P.w + (-gmin).toNat, half P.w + gmax.toNat⟩

theorem mcConeK_le (P : McParams) (hsp : 0 < P.sp) (gmin gmax k : Int)
    (h1 : gmin * (P.sp : Int) ≤ k) (h2 : k ≤ gmax * (P.sp : Int)) :
    (mcConeK P k).up ≤ (mcCone P gmin gmax).up ∧ (mcConeK P k).down ≤ (mcCone P gmin gmax).down ∧
    (mcConeK P k).left ≤ (mcCone P gmin gmax).left ∧ (mcConeK P k).right ≤ (mcCone P gmin gmax).right := by
  have hs : (0 : Int) < (P.sp : Int) := by exact_mod_cast hsp
  have hlo : gmin ≤ k / (P.sp : Int) := Int.le_ediv_of_mul_le hs h1
  have hhi : k / (P.sp : Int) + fracBit k P.sp ≤ gmax := by
    unfold fracBit
    by_cases hm : k % (P.sp : Int) = 0
    · rw [if_pos hm]
      have := Int.ediv_le_of_le_mul hs h2
      omega
    · rw [if_neg hm]
      have hne : k ≠ gmax * (P.sp : Int) := by
        intro he
        apply hm
        rw [he]
        exact Int.mul_emod_left _ _
      have : k / (P.sp : Int) < gmax := Int.ediv_lt_of_lt_mul hs (by omega)
      omega
  unfold mcConeK mcCone
  simp only
  omega

/-- **The matching-cost step on partial images: the pixel's cost row** for the `n` disparity samples
    `gmin·sp, gmin·sp + 1, …` (the cost volume's `disp` axis). -/
def mcRowStep (P : McParams) (gmin : Int) (n : Nat) : Img McCell → Img (List Cell) := fun a p =>
  (a p).map fun _ => (List.range n).map fun (j : Nat) => (mcCellStep P (gmin * (P.sp : Int) + j) a p).getD .nan

/-- **Matching cost, whole cost row: local with the documented cone** (`w/2`, columns extended by the
    interval). -/
theorem mcRowStep_local (P : McParams) (hsp : 0 < P.sp) (gmin gmax : Int) (n : Nat)
    (hn : ∀ j : Nat, j < n → gmin * (P.sp : Int) + j ≤ gmax * (P.sp : Int)) :
    Local (mcCone P gmin gmax) (mcRowStep P gmin n) := by
  intro a b p hab
  unfold mcRowStep
  rw [hab p (inCone_self _ p)]
  congr 1
  funext _
  apply List.map_congr_left
  intro j hj
  congr 1
  apply mcCellStep_local P _ a b p
  intro q hq
  apply hab
  exact inCone_mono (mcConeK_le P hsp gmin gmax _ (by omega) (hn j (List.mem_range.1 hj))) hq

theorem mcRowStep_equivariant (P : McParams) (gmin : Int) (n : Nat) : Equivariant (mcRowStep P gmin n) := by
  intro t a
  funext p
  unfold mcRowStep
  show ((a (p.1 + t.1, p.2 + t.2)).map fun _ => _) = ((a (p.1 + t.1, p.2 + t.2)).map fun _ => _)
  congr 1
  funext _
  apply List.map_congr_left
  intro j _
  rw [mcCellStep_equivariant P _ t a]
  rfl

/-- **The cost rows of the model's cost volume are the step `mcRowStep`.** -/
theorem costVolume_is_mcRowStep (x : Input) (hwf : wfShape x = true)
    (hz : x.meas = .zncc → ∀ k : Int, noTinyVariance x k = true) :
    toImg x.L.rows x.L.cols (fun r c =>
        (List.range (nDisp (gridMin x.dminG x.L.rows x.L.cols) (gridMax x.dmaxG x.L.rows x.L.cols) x.sp)).map
          fun j => costVolume x r c j)
      = mcRowStep (paramsOf x) (gridMin x.dminG x.L.rows x.L.cols)
          (nDisp (gridMin x.dminG x.L.rows x.L.cols) (gridMax x.dmaxG x.L.rows x.L.cols) x.sp)
          (toImg x.L.rows x.L.cols (mcScene x)) := by
  funext q
  by_cases hq : InImage x.L.rows x.L.cols q
  · obtain ⟨r, c, rfl, hr, hc⟩ : ∃ r c : Nat, q = ((r : Int), (c : Int)) ∧ r < x.L.rows ∧ c < x.L.cols := by
      unfold InImage at hq
      refine ⟨q.1.toNat, q.2.toNat, ?_, by omega, by omega⟩
      ext <;> simp <;> omega
    unfold mcRowStep
    rw [toImg_some _ _ _ r c hr hc, toImg_some _ _ _ r c hr hc]
    simp only [Option.map_some]
    congr 1
    apply List.map_congr_left
    intro j hj
    have := congrFun (costVolume_is_mcCellStep x hwf hz j (List.mem_range.1 hj)) ((r : Int), (c : Int))
    rw [toImg_some _ _ _ r c hr hc] at this
    show _ = (mcCellStep (paramsOf x) (gridMin x.dminG x.L.rows x.L.cols * (x.sp : Int) + j) _ _).getD .nan
    rw [← this]
    rfl
  · unfold mcRowStep
    rw [toImg_none _ _ _ q hq, toImg_none _ _ _ q hq]
    rfl

/-! ### Non-vacuity: the 3 × 4 pair of C02 (window 3, subpix 2, masks on both sides) is well formed for the
    four measures; the cone of its disparity `-1/2` is one column wider on the left, of `1/2` on the right -/

example : wfShape (C02.Example.exIn .sad) = true ∧ wfShape (C02.Example.exIn .census) = true ∧ wfShape (C02.Example.exIn .zncc) = true := by
  decide
example : mcConeK (paramsOf (C02.Example.exIn .sad)) (-1) = ⟨1, 1, 2, 1⟩ := by decide
example : mcConeK (paramsOf (C02.Example.exIn .sad)) 1 = ⟨1, 1, 1, 2⟩ := by decide
example : mcCone (paramsOf (C02.Example.exIn .sad)) (-1) 1 = ⟨1, 1, 2, 2⟩ := by decide

end Pandora.C13
