/-
  C13 — the hypotheses of `run_crop_eq_whole` in decidable form.

  `Model/PipelineRun.lean` defines Bool versions of the hypotheses (`runOKB`, `cropRunB`, `leftInIntervalB`,
  `docConeOKB`, `coneInCropB`) which the driver evaluates on the inputs of the real whole-vs-crop differential
  (`C13.hyps`).  Here: each of them implies the hypothesis it stands for, the documented cone `docCone` bounds the cone
  `runCone` of the run, and hence **`run_crop_eq_whole_of_B`**: when the Bool hypotheses evaluate to `true` on a
  (whole, crop) pair and both runs return, the crop run equals the whole run at every crop pixel whose documented cone,
  clipped to the image, lies in the crop.  The count of real cases on which the driver finds them all `true` is the
  count of implementation inputs on which the theorem applies.
-/
import PandoraModel.Properties.C13Run

namespace Pandora.C13
open Pandora Pandora.Locality Pandora.MC

theorem mcOK_of_B (x : MC.Input) (h : mcOKB x = true) : McOK x := by
  unfold mcOKB at h
  rw [Bool.and_eq_true] at h
  refine ⟨h.1, ?_⟩
  intro hz
  have h2 := h.2
  rw [hz] at h2
  exact absurd h2 (by decide)

theorem medianOK_of_B (K : RunCfg) (x : MC.Input) (h : medianOKB K x = true) : MedianOK K x := by
  unfold medianOKB at h
  simp only [Bool.and_eq_true, decide_eq_true_eq] at h
  obtain ⟨⟨⟨⟨a, b⟩, c⟩, d⟩, e⟩ := h
  exact ⟨a, b, c, d, e⟩

theorem runOK_of_B (K K' : RunCfg) (x : MC.Input) (h : runOKB K K' x = true) : RunOK K K' x := by
  unfold runOKB at h
  simp only [Bool.and_eq_true, decide_eq_true_eq, Bool.or_eq_true, Bool.not_eq_true'] at h
  obtain ⟨⟨⟨⟨⟨⟨⟨a, b⟩, c⟩, d⟩, e⟩, f⟩, g⟩, i⟩ := h
  refine ⟨mcOK_of_B x a, mcOK_of_B _ b, ⟨c, d⟩, ⟨e, f⟩, ?_, ?_⟩
  · intro hm
    cases g with
    | inl g => rw [hm] at g; cases g
    | inr g => exact medianOK_of_B K x g
  · intro hm
    cases i with
    | inl i => rw [hm] at i; cases i
    | inr i => exact medianOK_of_B K' _ i

theorem params_of_B (p q : McParams) (h : paramsEqB p q = true) : p = q := by
  unfold paramsEqB at h
  simp only [Bool.and_eq_true, decide_eq_true_eq, beq_iff_eq] at h
  obtain ⟨⟨⟨⟨⟨⟨⟨⟨a, b⟩, c⟩, d⟩, e⟩, f⟩, g⟩, i⟩, j⟩ := h
  cases p; cases q
  simp only [McParams.mk.injEq]
  exact ⟨a, b, c, d, e, f, g, i, j⟩

theorem cell_of_B (a b : McCell) (h : cellEqB a b = true) : a = b := by
  unfold cellEqB at h
  simp only [Bool.and_eq_true, decide_eq_true_eq] at h
  obtain ⟨⟨⟨⟨⟨h1, h2⟩, h3⟩, h4⟩, h5⟩, h6⟩ := h
  cases a; cases b
  simp only [McCell.mk.injEq]
  exact ⟨h1, h2, h3, h4, h5, h6⟩

theorem cropRun_of_B (x x' : MC.Input) (r0 c0 : Nat) (h : cropRunB x x' r0 c0 = true) : CropRun x x' r0 c0 := by
  unfold cropRunB at h
  simp only [Bool.and_eq_true, decide_eq_true_eq, List.all_eq_true, List.mem_range] at h
  obtain ⟨⟨⟨⟨⟨⟨⟨a, b⟩, c⟩, d⟩, e⟩, f⟩, g⟩, i⟩ := h
  exact ⟨params_of_B _ _ a, fun r c' hr hc => cell_of_B _ _ (b r hr c' hc), ⟨c, d⟩, e, f, g, i⟩

/-- **The documented cone bounds the cone of the run** (both sides with the same window and filter, the right interval
    the mirrored left one), border offset of cross-checking included. -/
theorem docCone_bounds (K K' : RunCfg) (CP : CrossCheck.Params) (x : MC.Input) (h : docConeOKB K K' x = true) :
    Cone.le (runCone K K' CP x) (docCone K CP x) := by
  unfold docConeOKB at h
  simp only [Bool.and_eq_true, decide_eq_true_eq, beq_iff_eq] at h
  obtain ⟨⟨⟨⟨hm, hw⟩, hfs⟩, hmin⟩, hmax⟩ := h
  unfold Cone.le runCone docCone pipeCone filterCone refineCone costCone mcCone ccCone Cone.add Cone.sup Cone.square
    Cone.zero
  simp only [cfgOf, paramsOf] at *
  rw [hmin, hmax, hm, hfs]
  have : MC.half (swapInput x).w = MC.half x.w := hw
  cases K.doMedian <;> simp only [if_true, Bool.false_eq_true, if_false] <;> omega

/-- the clipped-cone test of the driver implies the cone hypothesis of the theorems, for any cone below `R` -/
theorem cone_of_B (R0 R : Cone) (hle : Cone.le R0 R) (rows cols r0 c0 rows' cols' r c : Nat)
    (h : coneInCropB R rows cols r0 c0 rows' cols' r c = true) :
    ∀ q, inCone R0 ((r : Int) + r0, (c : Int) + c0) q → InRect r0 c0 rows' cols' q ∨ ¬ InImage rows cols q := by
  unfold coneInCropB at h
  simp only [Bool.and_eq_true, decide_eq_true_eq] at h
  obtain ⟨⟨⟨h1, h2⟩, h3⟩, h4⟩ := h
  intro q hq
  unfold Cone.le at hle
  unfold inCone at hq
  unfold InRect InImage
  simp only at hq
  omega

/-- **`run_crop_eq_whole` from the decidable hypotheses the driver evaluates** (`C13.hyps`): `runOKB` for both runs,
    `cropRunB`, `leftInIntervalB` for both left maps, `docConeOKB`, and the clipped documented cone of the pixel inside the
    crop (`coneInCropB`). -/
theorem run_crop_eq_whole_of_B (K K' : RunCfg) (V : CrossCheck.Variant) (CP : CrossCheck.Params) (x x' : MC.Input)
    (r0 c0 : Nat) (hc : cropRunB x x' r0 c0 = true) (ok : runOKB K K' x = true) (ok' : runOKB K K' x' = true)
    (out out' : Nat → Nat → CrossCheck.PixOut)
    (hout : fullRun K K' V CP x = some out) (hout' : fullRun K K' V CP x' = some out')
    (hin : (afterFilter K x).all (leftInIntervalB CP x.L.rows x.L.cols) = true)
    (hin' : (afterFilter K x').all (leftInIntervalB CP x'.L.rows x'.L.cols) = true)
    (hdoc : docConeOKB K K' x = true)
    (r c : Nat) (hr : r < x'.L.rows) (hcl : c < x'.L.cols)
    (hcone : coneInCropB (docCone K CP x) x.L.rows x.L.cols r0 c0 x'.L.rows x'.L.cols r c = true) :
    out' r c = out (r + r0) (c + c0) :=
  run_crop_eq_whole K K' V CP x x' r0 c0 (cropRun_of_B x x' r0 c0 hc) (runOK_of_B K K' x ok) (runOK_of_B K K' x' ok')
    out out' hout hout'
    (fun A hA => leftInInterval_of_B _ _ _ A (by rw [hA] at hin; exact hin))
    (fun A hA => leftInInterval_of_B _ _ _ A (by rw [hA] at hin'; exact hin'))
    r c hr hcl
    (cone_of_B _ _ (docCone_bounds K K' CP x hdoc) _ _ _ _ _ _ r c hcone)

/-! ### the extended run (`extRunR`: any tail of refinements and filters, both cross-checks, filling) restricted to the
    chain of `fullRunR` is `fullRunR` -/

/-- the tail "optional refinement, optional median" of the extended run gives the maps of `afterFilterR` -/
theorem afterTail_tailOf (K : RunCfg) (x : MC.Input) (R : Nat → Nat → List Val) :
    afterTail K x R (tailOf K) = afterFilterR K x R := by
  unfold afterTail tailOf afterFilterR afterRefineR
  cases hr : K.doRefine <;> cases hm : K.doMedian
  · simp [afterTailFrom]
  · simp [afterTailFrom, tailStep]
  · simp only [if_true, Bool.false_eq_true, if_false, List.append_nil, afterTailFrom, tailStep, refineGridR]
    cases Refinement.loopRefinement K.refine _ <;> simp [afterTailFrom]
  · simp only [if_true, List.cons_append, List.nil_append, afterTailFrom, tailStep, refineGridR]
    cases Refinement.loopRefinement K.refine _ <;> simp [afterTailFrom, tailStep]

/-- **the left flag words of the extended run without filling, on the chain of `fullRunR`, are those of `fullRunR`**
    (the theorems `run_crop_eq_whole`, `run_flip` therefore speak about the extended run the driver executes) -/
theorem extRunR_left_flag (K K' : RunCfg) (V : CrossCheck.Variant) (CP CP' : CrossCheck.Params) (v : Interp.Variant)
    (off : Nat) (x : MC.Input) (R R' : Nat → Nat → List Val) (l r : Interp.DMap)
    (out : Nat → Nat → CrossCheck.PixOut)
    (he : extRunR K K' (tailOf K) (tailOf K') V CP CP' ⟨none, v, off⟩ x R R' = some (l, r))
    (hf : fullRunR K K' V CP x R R' = some out) (i j : Nat) : l.flag i j = (out i j).flag := by
  unfold extRunR at he
  unfold fullRunR at hf
  rw [afterTail_tailOf, afterTail_tailOf] at he
  cases hA : afterFilterR K x R with
  | none => rw [hA] at hf; cases hf
  | some A =>
    cases hB : afterFilterR K' (swapInput x) R' with
    | none => rw [hA, hB] at hf; cases hf
    | some B =>
      rw [hA, hB] at he hf
      simp only [Option.some.injEq, Prod.mk.injEq] at he hf
      obtain ⟨hl, _⟩ := he
      subst hl hf
      rfl

/-! ### Non-vacuity: the pair of `RunExample` (3 × 9 sad pair, its 3 × 8 crop starting at column 1) satisfies the Bool
    hypotheses at crop pixel (1, 4) -/

open RunExample in
example : cropRunB exWhole exCrop 0 1 = true ∧ runOKB exK exK' exWhole = true ∧ runOKB exK exK' exCrop = true
    ∧ docConeOKB exK exK' exWhole = true
    ∧ coneInCropB (docCone exK exCP exWhole) 3 9 0 1 3 8 1 4 = true := by
  refine ⟨?_, ?_, ?_, ?_, ?_⟩ <;> decide +kernel

end Pandora.C13
