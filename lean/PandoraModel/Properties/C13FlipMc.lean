/-
  C13 — vertical flip of the matching-cost step (sad, ssd, census, zncc).

  The window folds of `Model/MatchingCost.lean` (`sumZ`, `allZ`, hence `winSum`, `winAll`, `winCount`) list
  the rows of the window top-down; on the flipped image the same rows are met bottom-up.  Sums (Rat, Nat)
  and conjunctions do not depend on that order: `sumZ_reverse`, `allZ_reverse`, then `winSum_vflip`,
  `winAll_vflip`, `winCount_vflip`, `valueSpec_vflip` (the four measures), `maskOk_vflip`, `coreCell_vflip`.
  `mcCellStep` also tests two opposite corners of the left window (`windowsIn`): on the flipped image these
  are the two *other* corners — the same test exactly when the domain is a product rows × columns
  (`windowsIn_vflip`, hypothesis `RectDom`).  Hence `mcCellStep_vflip`, `mcRowStep_vflip : VFlipOn …`.
-/
import PandoraModel.Properties.C13Flip

namespace Pandora.C13
open Pandora Pandora.Locality Pandora.MC

/-! ### folds listed in the opposite order -/

/-- taking the first term out of the fold (the operation only needs `a + b + c = a + c + b`) -/
theorem sumZ_front {α : Type} [Add α] (hr : ∀ a b c : α, a + b + c = a + c + b) (z : α) (f : Int → α)
    (lo : Int) (n : Nat) : sumZ z f lo (n + 1) = sumZ z f (lo + 1) n + f lo := by
  induction n with
  | zero => simp [sumZ]
  | succ n ih =>
    show sumZ z f lo (n + 1) + f (lo + ((n + 1 : Nat) : Int)) = (sumZ z f (lo + 1) n + f (lo + 1 + (n : Int))) + f lo
    have e : lo + ((n + 1 : Nat) : Int) = lo + 1 + (n : Int) := by omega
    rw [ih, hr, e]

/-- **A finite sum listed in the opposite order**: `Σ_{i=lo}^{lo+n-1} f i = Σ_{j=-(lo+n-1)}^{-lo} f (-j)`. -/
theorem sumZ_reverse {α : Type} [Add α] (hr : ∀ a b c : α, a + b + c = a + c + b) (z : α) (f : Int → α)
    (lo : Int) (n : Nat) : sumZ z f lo n = sumZ z (fun i => f (-i)) (-(lo + n) + 1) n := by
  induction n with
  | zero => rfl
  | succ n ih =>
    have e : -(lo + ((n + 1 : Nat) : Int)) + 1 = -(lo + (n : Int)) := by omega
    show sumZ z f lo n + f (lo + n) = sumZ z (fun i => f (-i)) (-(lo + ((n + 1 : Nat) : Int)) + 1) (n + 1)
    rw [e, sumZ_front hr z (fun i => f (-i))]
    show sumZ z f lo n + f (lo + n) = sumZ z (fun i => f (-i)) (-(lo + n) + 1) n + f (- -(lo + (n : Int)))
    rw [Int.neg_neg, ← ih]

theorem allZ_front (f : Int → Bool) (lo : Int) (n : Nat) : allZ f lo (n + 1) = (allZ f (lo + 1) n && f lo) := by
  induction n with
  | zero => simp [allZ]
  | succ n ih =>
    show (allZ f lo (n + 1) && f (lo + ((n + 1 : Nat) : Int))) = ((allZ f (lo + 1) n && f (lo + 1 + (n : Int))) && f lo)
    have e : lo + ((n + 1 : Nat) : Int) = lo + 1 + (n : Int) := by omega
    rw [ih, Bool.and_right_comm, e]

/-- **A finite conjunction listed in the opposite order.** -/
theorem allZ_reverse (f : Int → Bool) (lo : Int) (n : Nat) :
    allZ f lo n = allZ (fun i => f (-i)) (-(lo + n) + 1) n := by
  induction n with
  | zero => rfl
  | succ n ih =>
    have e : -(lo + ((n + 1 : Nat) : Int)) + 1 = -(lo + (n : Int)) := by omega
    show (allZ f lo n && f (lo + n)) = allZ (fun i => f (-i)) (-(lo + ((n + 1 : Nat) : Int)) + 1) (n + 1)
    rw [e, allZ_front (fun i => f (-i))]
    show (allZ f lo n && f (lo + n)) = (allZ (fun i => f (-i)) (-(lo + n) + 1) n && f (- -(lo + (n : Int))))
    rw [Int.neg_neg, ← ih]

theorem rat_add_right_comm (a b c : Rat) : a + b + c = a + c + b := by
  rw [Rat.add_assoc, Rat.add_comm b c, ← Rat.add_assoc]

/-- **Window sum on the flipped image**: `g` being `f` with its rows negated, the window sum of `g` around
    `(r, c)` is the window sum of `f` around `(-r, c)`. -/
theorem winSum_vflip (o : Nat) (f g : Int → Int → Rat) (r c : Int) (h : ∀ a b, g a b = f (-a) b) :
    winSum o g r c = winSum o f (-r) c := by
  unfold winSum
  rw [sumZ_reverse rat_add_right_comm (0 : Rat) (fun a => sumZ (0 : Rat) (fun b => f a b) (c - o) (2 * o + 1))
    (-r - o) (2 * o + 1)]
  have e : -(-r - (o : Int) + ((2 * o + 1 : Nat) : Int)) + 1 = r - o := by omega
  rw [e]
  simp only [h]

theorem winAll_vflip (o : Nat) (f g : Int → Int → Bool) (r c : Int) (h : ∀ a b, g a b = f (-a) b) :
    winAll o g r c = winAll o f (-r) c := by
  unfold winAll
  rw [allZ_reverse (fun a => allZ (fun b => f a b) (c - o) (2 * o + 1)) (-r - o) (2 * o + 1)]
  have e : -(-r - (o : Int) + ((2 * o + 1 : Nat) : Int)) + 1 = r - o := by omega
  rw [e]
  simp only [h]

theorem winCount_vflip (o : Nat) (f g : Int → Int → Bool) (r c : Int) (h : ∀ a b, g a b = f (-a) b) :
    winCount o g r c = winCount o f (-r) c := by
  unfold winCount
  rw [sumZ_reverse Nat.add_right_comm (0 : Nat)
    (fun a => sumZ (0 : Nat) (fun b => if f a b then 1 else 0) (c - o) (2 * o + 1)) (-r - o) (2 * o + 1)]
  have e : -(-r - (o : Int) + ((2 * o + 1 : Nat) : Int)) + 1 = r - o := by omega
  rw [e]
  simp only [h]

/-! ### the value, the masks, the cell -/

theorem interpR_vflip (R R' : Img) (h : ∀ a b, R'.px a b = R.px (-a) b) (sp : Nat) (k a b : Int) :
    interpR R' sp k a b = interpR R sp k (-a) b := by
  unfold interpR
  simp only [h]

/-- **The textbook value on the flipped pair** (sad, ssd, census, zncc): `x'` reads the images of `x` with
    rows negated. -/
theorem valueSpec_vflip (x x' : Input) (hm : x'.meas = x.meas) (hw : x'.w = x.w) (r c k : Int)
    (hL : ∀ a b, x'.L.px a b = x.L.px (-a) b)
    (hR : ∀ a b, interpR x'.R x'.sp k a b = interpR x.R x.sp k (-a) b) :
    valueSpec x' r c k = valueSpec x (-r) c k := by
  unfold valueSpec
  rw [hm, hw]
  cases x.meas with
  | sad =>
    simp only
    congr 1
    apply winSum_vflip
    intro a b
    rw [hL, hR]
  | ssd =>
    simp only
    congr 1
    apply winSum_vflip
    intro a b
    rw [hL, hR]
  | census =>
    simp only
    congr 2
    apply winCount_vflip
    intro a b
    simp only [hL, hR]
  | zncc =>
    have e1 := winSum_vflip (half x.w) x.L.px x'.L.px r c hL
    have e2 := winSum_vflip (half x.w) (fun a b => interpR x.R x.sp k a b)
      (fun a b => interpR x'.R x'.sp k a b) r c hR
    have e3 := winSum_vflip (half x.w) (fun a b => x.L.px a b * interpR x.R x.sp k a b)
      (fun a b => x'.L.px a b * interpR x'.R x'.sp k a b) r c (fun a b => by simp only [hL, hR])
    have e4 := winSum_vflip (half x.w) (fun a b => x.L.px a b * x.L.px a b)
      (fun a b => x'.L.px a b * x'.L.px a b) r c (fun a b => by simp only [hL])
    have e5 := winSum_vflip (half x.w) (fun a b => interpR x.R x.sp k a b * interpR x.R x.sp k a b)
      (fun a b => interpR x'.R x'.sp k a b * interpR x'.R x'.sp k a b) r c (fun a b => by simp only [hR])
    simp only [e1, e2, e3, e4, e5]

theorem maskOk_vflip (o : Nat) (m m' : Mask) (hp : m'.present = m.present) (hv : m'.valid = m.valid)
    (hn : m'.nodata = m.nodata) (h : ∀ a b, m'.code a b = m.code (-a) b) (r c : Int) :
    maskOk o m' r c = maskOk o m (-r) c := by
  unfold maskOk
  congr 1
  · apply winAll_vflip
    intro a b
    unfold isNodata
    rw [hp, hn, h]
  · unfold isInvalid
    rw [hp, hn, hv, h]

/-- **The cell (without the two window tests) on the flipped pair**: `x'` reads the images, masks and
    interval grids of `x` with rows negated. -/
theorem coreCell_vflip_gen (x x' : Input) (hp : SameParams x x')
    (hL : ∀ a b, x'.L.px a b = x.L.px (-a) b) (hR : ∀ a b, x'.R.px a b = x.R.px (-a) b)
    (hmL : ∀ a b, x'.mL.code a b = x.mL.code (-a) b) (hmR : ∀ a b, x'.mR.code a b = x.mR.code (-a) b)
    (hdmin : ∀ a b, x'.dminG a b = x.dminG (-a) b) (hdmax : ∀ a b, x'.dmaxG a b = x.dmaxG (-a) b)
    (r c k : Int) : coreCell x' r c k = coreCell x (-r) c k := by
  have hv : valueSpec x' r c k = valueSpec x (-r) c k :=
    valueSpec_vflip x x' hp.meas hp.w r c k hL (fun a b => by rw [hp.sp]; exact interpR_vflip _ _ hR _ _ _ _)
  have h1 : maskOk (half x'.w) x'.mL r c = maskOk (half x.w) x.mL (-r) c := by
    rw [hp.w]
    exact maskOk_vflip _ _ _ hp.presentL hp.validL hp.nodataL hmL r c
  have h2 : maskOkR x' r c k = maskOkR x (-r) c k := by
    unfold maskOkR
    rw [hp.w, hp.sp, maskOk_vflip _ _ _ hp.presentR hp.validR hp.nodataR hmR,
      maskOk_vflip _ _ _ hp.presentR hp.validR hp.nodataR hmR]
  unfold coreCell
  rw [hdmin, hdmax, hp.sp, h1, h2, hv]

/-- … for the inputs that read a partial image and its flip -/
theorem coreCell_vflip (P : McParams) (a : Locality.Img McCell) (r c k : Int) :
    coreCell (inputOf P (vflip a)) r c k = coreCell (inputOf P a) (-r) c k :=
  coreCell_vflip_gen (inputOf P a) (inputOf P (vflip a)) (sameParams_inputOf P a _)
    (fun _ _ => rfl) (fun _ _ => rfl) (fun _ _ => rfl) (fun _ _ => rfl) (fun _ _ => rfl) (fun _ _ => rfl) r c k

/-- **The window tests on the flipped image**: the two corners probed are the two other corners of the
    window; on a product domain the four corners are in the image as soon as two opposite ones are. -/
theorem windowsIn_vflip (P : McParams) (k : Int) (a : Locality.Img McCell) (ha : RectDom a) (p : Px) :
    windowsIn P k (vflip a) p ↔ windowsIn P k a (-p.1, p.2) := by
  obtain ⟨Rr, Cc, h⟩ := ha
  unfold windowsIn vflip
  simp only [h]
  have e1 : -(p.1 - ((half P.w : Nat) : Int)) = -p.1 + ((half P.w : Nat) : Int) := by omega
  have e2 : -(p.1 + ((half P.w : Nat) : Int)) = -p.1 - ((half P.w : Nat) : Int) := by omega
  rw [e1, e2]
  constructor
  · rintro ⟨⟨a1, a2⟩, ⟨b1, b2⟩, c, d⟩
    exact ⟨⟨b1, a2⟩, ⟨a1, b2⟩, c, d⟩
  · rintro ⟨⟨a1, a2⟩, ⟨b1, b2⟩, c, d⟩
    exact ⟨⟨b1, a2⟩, ⟨a1, b2⟩, c, d⟩

/-- **Matching cost (any measure), one disparity, commutes with the flip** on images whose domain is a
    product rows × columns (every array). -/
theorem mcCellStep_vflip (P : McParams) (k : Int) : VFlipOn (mcCellStep P k) := by
  intro a ha
  funext p
  unfold mcCellStep
  show ((a (-p.1, p.2)).map fun _ => _) = ((a (-p.1, p.2)).map fun _ => _)
  congr 1
  funext _
  have hw := windowsIn_vflip P k a ha p
  by_cases hin : windowsIn P k (vflip a) p
  · rw [if_pos hin, if_pos (hw.1 hin), coreCell_vflip]
  · rw [if_neg hin, if_neg (fun h' => hin (hw.2 h'))]

/-- **Matching cost, whole cost row, commutes with the flip** on images with a product domain. -/
theorem mcRowStep_vflip (P : McParams) (gmin : Int) (n : Nat) : VFlipOn (mcRowStep P gmin n) := by
  intro a ha
  funext p
  unfold mcRowStep
  show ((a (-p.1, p.2)).map fun _ => _) = ((a (-p.1, p.2)).map fun _ => _)
  congr 1
  funext _
  apply List.map_congr_left
  intro j _
  rw [mcCellStep_vflip P _ a ha]
  rfl

/-- the matching-cost steps keep the domain of the scene -/
theorem mcCellStep_sameDom (P : McParams) (k : Int) (a : Locality.Img McCell) : SameDom a (mcCellStep P k a) :=
  fun p => by unfold mcCellStep; simp only [Option.isSome_map]

theorem mcRowStep_sameDom (P : McParams) (gmin : Int) (n : Nat) (a : Locality.Img McCell) :
    SameDom a (mcRowStep P gmin n a) :=
  fun p => by unfold mcRowStep; simp only [Option.isSome_map]

/-! ### Non-vacuity: the flipped-array statement for the four measures, on any array -/

/-- the cost row of a pixel of the array listed bottom-up is the cost row of the mirrored pixel -/
theorem mcRow_flip_run (P : McParams) (gmin : Int) (n : Nat) (ny nx : Nat) (scene : Nat → Nat → McCell) (p : Px) :
    mcRowStep P gmin n (toImg ny nx (flipArr ny scene)) p
      = mcRowStep P gmin n (toImg ny nx scene) ((ny : Int) - 1 - p.1, p.2) :=
  flip_run_eq (mcRowStep_equivariant P gmin n) (mcRowStep_vflip P gmin n) ny nx scene p

/-- the example pair of C02 (3 × 4, window 3, subpix 2), each measure: every hypothesis is met -/
example (m : Measure) (p : Px) :
    mcRowStep (paramsOf (C02.Example.exIn m)) (-1) 5 (toImg 3 4 (flipArr 3 (mcScene (C02.Example.exIn m)))) p
      = mcRowStep (paramsOf (C02.Example.exIn m)) (-1) 5 (toImg 3 4 (mcScene (C02.Example.exIn m)))
          (((3 : Nat) : Int) - 1 - p.1, p.2) :=
  mcRow_flip_run _ _ _ _ _ _ _

/-- the window sum is really re-ordered: a 3 × 3 window whose rows differ -/
example : winSum 1 (fun a _ => (a : Rat)) 5 0 = 45 ∧ winSum 1 (fun a _ => ((-a : Int) : Rat)) (-5) 0 = 45 := by
  constructor <;> decide +kernel

end Pandora.C13
