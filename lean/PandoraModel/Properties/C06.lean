/-
  C06 — Refinement moves a disparity by at most half a sample, never for the worse.

  Theorems about the executable model `Model/Refinement.lean` (`vfit`, `quadratic`, `refinePixel`,
  `loopRefinement`) and its executable specification (`classify`, `clauses`, `specOK`, `specGrid`).
  Exact rational arithmetic; no bound on sizes, costs, intervals or maps.
-/
import PandoraModel.Model.Refinement
import PandoraModel.Properties.Flags
import PandoraModel.Generated.Constants
import PandoraModel.Generated.RefineCC
import Mathlib.Tactic.Linarith
import Mathlib.Tactic.Ring
import Mathlib.Tactic.FieldSimp
import Mathlib.Algebra.Order.Field.Basic

namespace Pandora.C06
open Pandora Pandora.Refinement

theorem ratAbs_eq_abs (x : ℚ) : ratAbs x = |x| := by
  unfold ratAbs
  split
  · rename_i h; rw [abs_of_neg h]
  · rename_i h; rw [abs_of_nonneg (not_lt.mp h)]

theorem stop_cond_iff (isMax : Bool) (a0 c1 a2 : ℚ) :
    (sgn isMax c1 > sgn isMax a0 ∨ sgn isMax c1 > sgn isMax a2) ↔ isExtremum isMax a0 c1 a2 = false := by
  cases isMax <;> simp [sgn, isExtremum, notWorse] <;> constructor
  · rintro (h | h) h' <;> linarith
  · intro h; by_cases h' : c1 ≤ a0
    · exact Or.inr (h h')
    · exact Or.inl (not_le.mp h')
  · rintro (h | h) h' <;> linarith
  · intro h; by_cases h' : a0 ≤ c1
    · exact Or.inr (h h')
    · exact Or.inl (not_le.mp h')

/-- what `vfit` answers on three numbers, by cases -/
theorem vfit_num (isMax : Bool) (a0 c1 a2 : ℚ) :
    vfit isMax (.num a0) c1 (.num a2) =
      if isExtremum isMax a0 c1 a2 = false then .ok ⟨0, c1, stoppedBit⟩
      else
        let a := if sgn isMax a0 > sgn isMax a2 then a0 - c1 else a2 - c1
        if |a| < tiny then .ok ⟨0, c1, 0⟩
        else .ok ⟨(a0 - a2) / (2 * a), a * ((a0 - a2) / (2 * a) - 1) + a2, 0⟩ := by
  simp only [vfit, stop_cond_iff, ratAbs_eq_abs]

theorem tiny_pos : (0 : ℚ) < tiny := by unfold tiny; norm_num

theorem ratio_bound (n a : ℚ) (ha : a ≠ 0) (h : |n| ≤ |a|) : -(1/2) ≤ n / (2 * a) ∧ n / (2 * a) ≤ 1/2 := by
  have hpos : 0 < |a| := abs_pos.mpr ha
  have : |n / (2 * a)| ≤ 1/2 := by
    rw [abs_div, abs_mul, abs_two, div_le_iff₀ (by positivity)]
    linarith
  have := abs_le.mp this
  constructor <;> linarith [this.1, this.2]

theorem abs_le_abs' (n b : ℚ) (h : (n ≤ b ∧ -b ≤ n) ∨ (n ≤ -b ∧ b ≤ n)) : |n| ≤ |b| := by
  rcases h with ⟨h1, h2⟩ | ⟨h1, h2⟩
  · exact abs_le_abs h1 (by linarith)
  · rw [← abs_neg b]; exact abs_le_abs h1 (by linarith)

/-- the V-fit shift is at most half a sample -/
theorem vfit_shift_le_half (isMax : Bool) (c0 c2 : Val) (c1 : ℚ) (r : MOut)
    (h : vfit isMax c0 c1 c2 = .ok r) : -(1/2) ≤ r.shift ∧ r.shift ≤ 1/2 := by
  cases c0 with
  | nan => simp [vfit] at h; subst h; norm_num
  | num a0 =>
  cases c2 with
  | nan => simp [vfit] at h; subst h; norm_num
  | num a2 =>
    have ht := tiny_pos
    cases isMax <;> simp only [vfit, sgn, ratAbs_eq_abs, Bool.false_eq_true, ↓reduceIte] at h <;>
      split_ifs at h <;> simp only [Res.ok.injEq] at h <;> subst h <;> simp only <;> try norm_num
    all_goals
      rename_i hstop hcmp hnt
      simp only [not_or, not_lt, gt_iff_lt] at hstop hcmp
      apply ratio_bound
      · intro h0; apply hnt; rw [h0, abs_zero]; exact ht
      · apply abs_le_abs'
        first
          | (left; constructor <;> linarith [hstop.1, hstop.2])
          | (right; constructor <;> linarith [hstop.1, hstop.2])


/-! ### closeness with tolerance 0 is equality -/
theorem close_zero (a b : ℚ) : close a b 0 = true ↔ a = b := by
  simp only [close, Bool.and_eq_true, decide_eq_true_eq]
  constructor
  · rintro ⟨h1, h2⟩; linarith
  · rintro rfl; simp

theorem close_of_eq (a b tol : ℚ) (ht : 0 ≤ tol) (h : a = b) : close a b tol = true := by
  subst h; simp [close, ht]

/-- a similarity measure is the cost `-c`: same shift, opposite fitted value -/
def negOut : Res MOut → Res MOut
  | .ok r => .ok ⟨r.shift, -r.cost, r.flag⟩
  | .err e => .err e

theorem vfit_max (a0 c1 a2 : ℚ) :
    vfit true (.num a0) c1 (.num a2) = negOut (vfit false (.num (-a0)) (-c1) (.num (-a2))) := by
  have e1 : |(-a0 - -c1)| = |a0 - c1| := by rw [show (-a0 - -c1) = -(a0 - c1) by ring, abs_neg]
  have e2 : |(-a2 - -c1)| = |a2 - c1| := by rw [show (-a2 - -c1) = -(a2 - c1) by ring, abs_neg]
  by_cases hc : -a0 > -a2 <;>
    simp only [vfit, sgn, ratAbs_eq_abs, Bool.false_eq_true, ↓reduceIte, hc, e1, e2] <;>
    split_ifs <;> simp only [negOut, neg_neg, Res.ok.injEq, MOut.mk.injEq, and_true]
  all_goals
    constructor
    · rw [show (-a0 - -a2) = -(a0 - a2) by ring]
      first
        | rw [show 2 * (-a0 - -c1) = -(2 * (a0 - c1)) by ring, neg_div_neg_eq]
        | rw [show 2 * (-a2 - -c1) = -(2 * (a2 - c1)) by ring, neg_div_neg_eq]
    · rw [show (-a0 - -a2) = -(a0 - a2) by ring]
      first
        | (rw [show 2 * (-a0 - -c1) = -(2 * (a0 - c1)) by ring, neg_div_neg_eq]; ring)
        | (rw [show 2 * (-a2 - -c1) = -(2 * (a2 - c1)) by ring, neg_div_neg_eq]; ring)

theorem quadratic_max (ff : Bool) (a0 c1 a2 : ℚ) :
    quadratic ff true (.num a0) c1 (.num a2) = negOut (quadratic ff false (.num (-a0)) (-c1) (.num (-a2))) := by
  have e1 : (2 * ((-a0 - 2 * -c1 + -a2) / 2) = 0) ↔ (2 * ((a0 - 2 * c1 + a2) / 2) = 0) := by
    constructor <;> intro h <;> linarith
  have e2 : -((-a2 - -a0) / 2) / (2 * ((-a0 - 2 * -c1 + -a2) / 2)) = -((a2 - a0) / 2) / (2 * ((a0 - 2 * c1 + a2) / 2)) := by
    rw [show -((-a2 - -a0) / 2) = -(-((a2 - a0) / 2)) by ring,
        show (2 * ((-a0 - 2 * -c1 + -a2) / 2)) = -(2 * ((a0 - 2 * c1 + a2) / 2)) by ring, neg_div_neg_eq]
  cases ff <;> simp only [quadratic, sgn, Bool.false_eq_true, ↓reduceIte, e1, e2] <;>
    split_ifs <;> simp only [negOut, neg_neg, Res.ok.injEq, MOut.mk.injEq, and_true, true_and] <;> ring

theorem close_iff (a b tol : ℚ) : close a b tol = true ↔ |a - b| ≤ tol := by
  simp only [close, Bool.and_eq_true, decide_eq_true_eq, abs_le]
  constructor <;> rintro ⟨h1, h2⟩ <;> constructor <;> linarith

/-- the slope magnitude of the symmetric V (the steeper side), cost to be minimised -/
def vslope (a0 c1 a2 : ℚ) : ℚ := if a2 - c1 ≤ a0 - c1 then a0 - c1 else a2 - c1

theorem vApexMin_iff (a0 c1 a2 x y tol : ℚ) :
    vApexMin a0 c1 a2 x y tol = true ↔
      |y + vslope a0 c1 a2 * |(-1) - x| - a0| ≤ tol ∧ |y + vslope a0 c1 a2 * |0 - x| - c1| ≤ tol
        ∧ |y + vslope a0 c1 a2 * |1 - x| - a2| ≤ tol := by
  simp only [vApexMin, vslope, Bool.and_eq_true, close_iff, ratAbs_eq_abs, and_assoc]

theorem vfit_min_spec (a0 c1 a2 tol : ℚ) (h0 : c1 ≤ a0) (h2 : c1 ≤ a2) (htol : 0 ≤ tol)
    (hnt : tiny ≤ tol ∨ vslope a0 c1 a2 = 0 ∨ tiny ≤ vslope a0 c1 a2) :
    ∃ r, vfit false (.num a0) c1 (.num a2) = .ok r ∧ r.flag = 0 ∧ -(1/2) ≤ r.shift ∧ r.shift ≤ 1/2
      ∧ r.cost ≤ c1 ∧ vApexMin a0 c1 a2 r.shift r.cost tol = true := by
  have ht := tiny_pos
  have hstop : ¬(c1 > a0 ∨ c1 > a2) := by push Not; exact ⟨h0, h2⟩
  by_cases hc : a0 > a2
  · have hm : vslope a0 c1 a2 = a0 - c1 := by unfold vslope; rw [if_pos (by linarith)]
    by_cases hty : |a0 - c1| < tiny
    · refine ⟨⟨0, c1, 0⟩, ?_, rfl, by norm_num, by norm_num, le_refl _, ?_⟩
      · simp only [vfit, sgn, ratAbs_eq_abs, Bool.false_eq_true, ↓reduceIte, hstop, hc, hty]
      · rw [vApexMin_iff, hm]
        have hpos : 0 ≤ a0 - c1 := by linarith
        rw [abs_of_nonneg hpos] at hty
        have htl : a0 - c1 ≤ tol := by
          rcases hnt with h | h | h
          · linarith
          · rw [hm] at h; linarith
          · rw [hm] at h; linarith
        simp only [sub_zero, abs_neg, abs_one, abs_zero, mul_one, mul_zero, add_zero, sub_self]
        refine ⟨?_, htol, ?_⟩
        · rw [show c1 + (a0 - c1) - a0 = 0 by ring, abs_zero]; exact htol
        · rw [abs_le]; constructor <;> linarith
    · have hne : a0 - c1 ≠ 0 := by intro h; apply hty; rw [h, abs_zero]; exact ht
      have hpos : 0 < a0 - c1 := lt_of_le_of_ne (by linarith) (Ne.symm hne)
      refine ⟨⟨(a0 - a2) / (2 * (a0 - c1)), (a0 - c1) * ((a0 - a2) / (2 * (a0 - c1)) - 1) + a2, 0⟩, ?_, rfl, ?_⟩
      · simp only [vfit, sgn, ratAbs_eq_abs, Bool.false_eq_true, ↓reduceIte, hstop, hc, hty]
      · simp only
        set x := (a0 - a2) / (2 * (a0 - c1)) with hx
        have hx2 : 2 * (a0 - c1) * x = a0 - a2 := by rw [hx]; field_simp
        have hx0 : 0 ≤ x := by rw [hx]; apply div_nonneg <;> linarith
        have hx1 : x ≤ 1/2 := by rw [hx, div_le_iff₀ (by linarith)]; linarith
        refine ⟨by linarith, hx1, by nlinarith, ?_⟩
        rw [vApexMin_iff, hm]
        rw [show (-1 : ℚ) - x = -(1 + x) by ring, abs_neg, abs_of_nonneg (by linarith : (0:ℚ) ≤ 1 + x),
            show (0 : ℚ) - x = -x by ring, abs_neg, abs_of_nonneg hx0, abs_of_nonneg (by linarith : (0:ℚ) ≤ 1 - x)]
        refine ⟨?_, ?_, ?_⟩
        · rw [show (a0 - c1) * (x - 1) + a2 + (a0 - c1) * (1 + x) - a0 = 2 * (a0 - c1) * x - (a0 - a2) by ring, hx2,
              sub_self, abs_zero]; exact htol
        · rw [show (a0 - c1) * (x - 1) + a2 + (a0 - c1) * x - c1 = 2 * (a0 - c1) * x - (a0 - a2) by ring, hx2,
              sub_self, abs_zero]; exact htol
        · rw [show (a0 - c1) * (x - 1) + a2 + (a0 - c1) * (1 - x) - a2 = 0 by ring, abs_zero]; exact htol
  · have hc' : a0 ≤ a2 := not_lt.mp hc
    have hm : vslope a0 c1 a2 = a2 - c1 := by
      unfold vslope; split
      · linarith
      · rfl
    by_cases hty : |a2 - c1| < tiny
    · refine ⟨⟨0, c1, 0⟩, ?_, rfl, by norm_num, by norm_num, le_refl _, ?_⟩
      · simp only [vfit, sgn, ratAbs_eq_abs, Bool.false_eq_true, ↓reduceIte, hstop, hc, hty]
      · rw [vApexMin_iff, hm]
        have hpos : 0 ≤ a2 - c1 := by linarith
        rw [abs_of_nonneg hpos] at hty
        have htl : a2 - c1 ≤ tol := by
          rcases hnt with h | h | h
          · linarith
          · rw [hm] at h; linarith
          · rw [hm] at h; linarith
        simp only [sub_zero, abs_neg, abs_one, abs_zero, mul_one, mul_zero, add_zero, sub_self]
        refine ⟨?_, htol, ?_⟩
        · rw [abs_le]; constructor <;> linarith
        · rw [show c1 + (a2 - c1) - a2 = 0 by ring, abs_zero]; exact htol
    · have hne : a2 - c1 ≠ 0 := by intro h; apply hty; rw [h, abs_zero]; exact ht
      have hpos : 0 < a2 - c1 := lt_of_le_of_ne (by linarith) (Ne.symm hne)
      refine ⟨⟨(a0 - a2) / (2 * (a2 - c1)), (a2 - c1) * ((a0 - a2) / (2 * (a2 - c1)) - 1) + a2, 0⟩, ?_, rfl, ?_⟩
      · simp only [vfit, sgn, ratAbs_eq_abs, Bool.false_eq_true, ↓reduceIte, hstop, hc, hty]
      · simp only
        set x := (a0 - a2) / (2 * (a2 - c1)) with hx
        have hx2 : 2 * (a2 - c1) * x = a0 - a2 := by rw [hx]; field_simp
        have hx0 : x ≤ 0 := by rw [hx]; apply div_nonpos_of_nonpos_of_nonneg <;> linarith
        have hx1 : -(1/2) ≤ x := by rw [hx, le_div_iff₀ (by linarith)]; linarith
        refine ⟨hx1, by linarith, by nlinarith, ?_⟩
        rw [vApexMin_iff, hm]
        rw [show (-1 : ℚ) - x = -(1 + x) by ring, abs_neg, abs_of_nonneg (by linarith : (0:ℚ) ≤ 1 + x),
            show (0 : ℚ) - x = -x by ring, abs_of_nonneg (by linarith : (0:ℚ) ≤ -x),
            abs_of_nonneg (by linarith : (0:ℚ) ≤ 1 - x)]
        refine ⟨?_, ?_, ?_⟩
        · rw [show (a2 - c1) * (x - 1) + a2 + (a2 - c1) * (1 + x) - a0 = 2 * (a2 - c1) * x - (a0 - a2) by ring, hx2,
              sub_self, abs_zero]; exact htol
        · rw [show (a2 - c1) * (x - 1) + a2 + (a2 - c1) * -x - c1 = 0 by ring, abs_zero]; exact htol
        · rw [show (a2 - c1) * (x - 1) + a2 + (a2 - c1) * (1 - x) - a2 = 0 by ring, abs_zero]; exact htol


theorem clamp1_id (x : ℚ) (h1 : -1 ≤ x) (h2 : x ≤ 1) : clamp1 x = x := by
  unfold clamp1; rw [if_neg (by linarith), if_neg (by linarith)]

theorem parab_eq (c0 c1 c2 t : ℚ) :
    parab c0 c1 c2 t = (c0 - 2 * c1 + c2) / 2 * (t * t) + (c2 - c0) / 2 * t + c1 := by
  unfold parab; ring

theorem parabDeriv_eq (c0 c1 c2 t : ℚ) :
    parabDeriv c0 c1 c2 t = 2 * ((c0 - 2 * c1 + c2) / 2) * t + (c2 - c0) / 2 := by
  unfold parabDeriv; ring

theorem quadratic_min_spec (ff : Bool) (a0 c1 a2 tol : ℚ) (h0 : c1 ≤ a0) (h2 : c1 ≤ a2) (htol : 0 ≤ tol) :
    (ff = false ∧ a0 = c1 ∧ a2 = c1 ∧ quadratic ff false (.num a0) c1 (.num a2) = .err .zeroDivision) ∨
    (¬(ff = false ∧ a0 = c1 ∧ a2 = c1) ∧ ∃ r, quadratic ff false (.num a0) c1 (.num a2) = .ok r ∧ r.flag = 0
      ∧ -(1/2) ≤ r.shift ∧ r.shift ≤ 1/2
      ∧ r.cost ≤ c1 ∧ parabApexPos a0 c1 a2 r.shift tol = true ∧ close (parab a0 c1 a2 r.shift) r.cost tol = true) := by
  have hstop : ¬(c1 > a0 ∨ c1 > a2) := by push Not; exact ⟨h0, h2⟩
  by_cases hz : 2 * ((a0 - 2 * c1 + a2) / 2) = 0
  · have e0 : a0 = c1 := by linarith
    have e2 : a2 = c1 := by linarith
    cases ff
    · left
      refine ⟨rfl, e0, e2, ?_⟩
      simp only [quadratic, sgn, Bool.false_eq_true, ↓reduceIte, hstop, hz]
    · -- the repaired method: (0, cost[1], 0) on a flat triple
      right
      refine ⟨by simp, ⟨0, c1, 0⟩, ?_, rfl, by norm_num, by norm_num, le_refl _, ?_, ?_⟩
      · simp only [quadratic, sgn, Bool.false_eq_true, ↓reduceIte, hstop, hz]
      · simp only [parabApexPos, parabDeriv_eq]
        apply close_of_eq _ _ _ htol
        rw [e0, e2]; ring
      · simp only [parab_eq]
        apply close_of_eq _ _ _ htol
        ring
  · right
    have hS : 0 < a0 - 2 * c1 + a2 := by
      rcases lt_or_eq_of_le (by linarith : 0 ≤ a0 - 2 * c1 + a2) with h | h
      · exact h
      · exfalso; apply hz; rw [← h]; norm_num
    refine ⟨by rintro ⟨-, rfl, rfl⟩; linarith, ?_⟩
    set x := -((a2 - a0) / 2) / (2 * ((a0 - 2 * c1 + a2) / 2)) with hx
    have hxS : (a0 - 2 * c1 + a2) * x = (a0 - a2) / 2 := by rw [hx]; field_simp; ring
    have hx1 : -(1/2) ≤ x := by nlinarith
    have hx2 : x ≤ 1/2 := by nlinarith
    have hcl : clamp1 x = x := clamp1_id x (by linarith) (by linarith)
    refine ⟨⟨x, (a0 - 2 * c1 + a2) / 2 * (x * x) + (a2 - a0) / 2 * x + c1, 0⟩, ?_, rfl, hx1, hx2, ?_, ?_, ?_⟩
    · simp only [quadratic, sgn, Bool.false_eq_true, ↓reduceIte, hstop, hz, ← hx, hcl]
    · simp only
      have : (a0 - 2 * c1 + a2) / 2 * (x * x) + (a2 - a0) / 2 * x = -((a0 - 2 * c1 + a2) * x * x) / 2 := by
        have := hxS; nlinarith
      nlinarith [mul_self_nonneg x]
    · simp only [parabApexPos, parabDeriv_eq]
      apply close_of_eq _ _ _ htol
      linarith
    · simp only [parab_eq]
      exact close_of_eq _ _ _ htol rfl

/-! ### What "optimum" means (declarative content of the two apex predicates) -/

/-- the Lagrange form really interpolates the three costs -/
theorem parab_interpolates (c0 c1 c2 : ℚ) :
    parab c0 c1 c2 (-1) = c0 ∧ parab c0 c1 c2 0 = c1 ∧ parab c0 c1 c2 1 = c2 := by
  unfold parab; refine ⟨by ring, by ring, by ring⟩

/-- a stationary point of a convex parabola is its minimum: nothing on the fitted curve is better -/
theorem parab_apex_optimal (c0 c1 c2 x : ℚ) (hconv : 0 ≤ c0 - 2 * c1 + c2)
    (hx : parabDeriv c0 c1 c2 x = 0) (t : ℚ) : parab c0 c1 c2 x ≤ parab c0 c1 c2 t := by
  have e : parab c0 c1 c2 t - parab c0 c1 c2 x
      = (t - x) * parabDeriv c0 c1 c2 x + (c0 - 2 * c1 + c2) / 2 * ((t - x) * (t - x)) := by
    unfold parab parabDeriv; ring
  rw [hx] at e
  nlinarith [mul_self_nonneg (t - x)]

/-- the apex of a V is its lowest point -/
theorem vshape_apex_optimal (m x y : ℚ) (hm : 0 ≤ m) (t : ℚ) : y ≤ y + m * |t - x| := by
  nlinarith [abs_nonneg (t - x)]

/-- a non degenerate symmetric V through three points has one apex only -/
theorem vshape_apex_unique (m c0 c1 c2 x y x' y' : ℚ) (hm : 0 < m)
    (hx : -1 ≤ x ∧ x ≤ 1) (hx' : -1 ≤ x' ∧ x' ≤ 1)
    (h0 : y + m * |(-1) - x| = c0) (_h1 : y + m * |0 - x| = c1) (h2 : y + m * |1 - x| = c2)
    (h0' : y' + m * |(-1) - x'| = c0) (h1' : y' + m * |0 - x'| = c1) (h2' : y' + m * |1 - x'| = c2) :
    x = x' ∧ y = y' := by
  rw [show (-1 : ℚ) - x = -(1 + x) by ring, abs_neg, abs_of_nonneg (by linarith : (0:ℚ) ≤ 1 + x)] at h0
  rw [abs_of_nonneg (by linarith : (0:ℚ) ≤ 1 - x)] at h2
  rw [show (-1 : ℚ) - x' = -(1 + x') by ring, abs_neg, abs_of_nonneg (by linarith : (0:ℚ) ≤ 1 + x')] at h0'
  rw [abs_of_nonneg (by linarith : (0:ℚ) ≤ 1 - x')] at h2'
  have hxx : m * x = m * x' := by linarith
  have hxe : x = x' := by
    have := mul_left_cancel₀ (ne_of_gt hm) hxx
    exact this
  subst hxe
  exact ⟨rfl, by linarith⟩

/-! ### Both measures at once -/

theorem close_neg (a b tol : ℚ) : close (-a) (-b) tol = close a b tol := by
  simp only [close]
  rw [show -a - -b = b - a by ring, show -b - -a = a - b by ring, Bool.and_comm]

theorem parab_neg (c0 c1 c2 t : ℚ) : parab (-c0) (-c1) (-c2) t = -parab c0 c1 c2 t := by
  unfold parab; ring

theorem parabDeriv_neg (c0 c1 c2 t : ℚ) : parabDeriv (-c0) (-c1) (-c2) t = -parabDeriv c0 c1 c2 t := by
  unfold parabDeriv; ring

/-- the slope magnitude seen by the specification for either measure -/
def vslopeOf (isMax : Bool) (a0 c1 a2 : ℚ) : ℚ := vslope (sgn isMax a0) (sgn isMax c1) (sgn isMax a2)

/-- the fitted point required by the statement for the method -/
def fitOK (m : Method) (isMax : Bool) (a0 c1 a2 x y tol : ℚ) : Bool :=
  match m with
  | .vfit => vApex isMax a0 c1 a2 x y tol
  | .quadratic => parabApexPos a0 c1 a2 x tol && close (parab a0 c1 a2 x) y tol

/-- **Method level.**  On three numeric costs whose centre is an extremum, the refinement method
    either returns (shift, fitted cost, no flag) with `|shift| ≤ 1/2`, the fitted cost not worse than the
    centre and the fitted point required by the statement — or it is the unrepaired `quadratic` on three
    equal costs, which raises. -/
theorem method_refine (ff : Bool) (m : Method) (isMax : Bool) (a0 c1 a2 tol : ℚ)
    (hext : isExtremum isMax a0 c1 a2 = true) (htol : 0 ≤ tol)
    (hnt : m = .vfit → (tiny ≤ tol ∨ vslopeOf isMax a0 c1 a2 = 0 ∨ tiny ≤ vslopeOf isMax a0 c1 a2)) :
    (m = .quadratic ∧ ff = false ∧ a0 = c1 ∧ a2 = c1
      ∧ runMethod ff m isMax (.num a0) c1 (.num a2) = .err .zeroDivision) ∨
    (¬(m = .quadratic ∧ ff = false ∧ a0 = c1 ∧ a2 = c1) ∧
     ∃ r, runMethod ff m isMax (.num a0) c1 (.num a2) = .ok r ∧ r.flag = 0 ∧ -(1/2) ≤ r.shift ∧ r.shift ≤ 1/2
      ∧ (if isMax then c1 ≤ r.cost else r.cost ≤ c1) ∧ fitOK m isMax a0 c1 a2 r.shift r.cost tol = true) := by
  cases isMax
  · -- cost to be minimised
    simp only [isExtremum, notWorse, Bool.false_eq_true, ↓reduceIte, Bool.and_eq_true, decide_eq_true_eq] at hext
    cases m
    · right
      obtain ⟨r, hr, hf, h1, h2, h3, h4⟩ := vfit_min_spec a0 c1 a2 tol hext.1 hext.2 htol
        (by simpa [vslopeOf, sgn] using hnt rfl)
      exact ⟨by simp, r, hr, hf, h1, h2, by simpa using h3, by simpa [fitOK, vApex, sgn] using h4⟩
    · rcases quadratic_min_spec ff a0 c1 a2 tol hext.1 hext.2 htol with
        ⟨hff, e0, e2, he⟩ | ⟨hne, r, hr, hf, h1, h2, h3, h4, h5⟩
      · left; exact ⟨rfl, hff, e0, e2, he⟩
      · right
        exact ⟨by simpa using hne, r, hr, hf, h1, h2, by simpa using h3, by simp [fitOK, h4, h5]⟩
  · -- similarity to be maximised: the same on the negated costs
    simp only [isExtremum, notWorse, ↓reduceIte, Bool.and_eq_true, decide_eq_true_eq] at hext
    cases m
    · right
      obtain ⟨r, hr, hf, h1, h2, h3, h4⟩ := vfit_min_spec (-a0) (-c1) (-a2) tol (by linarith [hext.1]) (by linarith [hext.2]) htol
        (by simpa [vslopeOf, sgn] using hnt rfl)
      refine ⟨by simp, ⟨r.shift, -r.cost, r.flag⟩, ?_, hf, h1, h2, ?_, ?_⟩
      · simp only [runMethod, vfit_max, hr, negOut]
      · simp only [↓reduceIte]; linarith
      · simpa [fitOK, vApex, sgn] using h4
    · rcases quadratic_min_spec ff (-a0) (-c1) (-a2) tol (by linarith [hext.1]) (by linarith [hext.2]) htol with
        ⟨hff, e0, e2, he⟩ | ⟨hne, r, hr, hf, h1, h2, h3, h4, h5⟩
      · left
        refine ⟨rfl, hff, by linarith, by linarith, ?_⟩
        simp only [runMethod, quadratic_max, he, negOut]
      · right
        refine ⟨?_, ⟨r.shift, -r.cost, r.flag⟩, ?_, hf, h1, h2, ?_, ?_⟩
        · rintro ⟨-, hff, e0, e2⟩; apply hne; exact ⟨hff, by linarith, by linarith⟩
        · simp only [runMethod, quadratic_max, hr, negOut]
        · simp only [↓reduceIte]; linarith
        · simp only [fitOK, Bool.and_eq_true]
          constructor
          · have := h4
            simp only [parabApexPos, parabDeriv_neg] at this ⊢
            rw [← close_neg]; simpa using this
          · have := h5
            rw [parab_neg] at this
            rw [← close_neg, neg_neg]; exact this

/-- **Method level, the stop cases**: a NaN neighbour or a centre that is not an extremum gives
    shift 0, the centre cost, and bit 3. -/
theorem method_stop (ff : Bool) (m : Method) (isMax : Bool) (c0 c2 : Val) (c1 : ℚ)
    (h : c0 = .nan ∨ c2 = .nan ∨ ∃ a0 a2, c0 = .num a0 ∧ c2 = .num a2 ∧ isExtremum isMax a0 c1 a2 = false) :
    runMethod ff m isMax c0 c1 c2 = .ok ⟨0, c1, stoppedBit⟩ := by
  rcases h with rfl | rfl | ⟨a0, a2, rfl, rfl, hne⟩
  · cases m <;> simp [runMethod, vfit, quadratic]
  · cases m <;> cases c0 <;> simp [runMethod, vfit, quadratic]
  · have := (stop_cond_iff isMax a0 c1 a2).mpr hne
    cases m <;> simp only [runMethod, vfit, quadratic, this, ↓reduceIte]

/-- the unrepaired `quadratic` raises exactly on three equal costs (given numeric neighbours and an
    extremum); the repaired one never raises -/
theorem quadratic_raises_iff (ff : Bool) (isMax : Bool) (a0 c1 a2 : ℚ) (hext : isExtremum isMax a0 c1 a2 = true) :
    quadratic ff isMax (.num a0) c1 (.num a2) = .err .zeroDivision ↔ (ff = false ∧ a0 = c1 ∧ a2 = c1) := by
  rcases method_refine ff .quadratic isMax a0 c1 a2 0 hext (le_refl _) (by simp) with
    ⟨-, hff, e0, e2, he⟩ | ⟨hne, r, hr, -⟩
  · simp only [runMethod] at he; exact ⟨fun _ => ⟨hff, e0, e2⟩, fun _ => he⟩
  · simp only [runMethod] at hr
    constructor
    · intro h; rw [hr] at h; cases h
    · intro h; exact absurd ⟨rfl, h.1, h.2.1, h.2.2⟩ hne

/-! ## Pixel level -/

theorem pyInt_of_nonneg (q : ℚ) (h : 0 ≤ q) : pyInt q = q.floor := by
  simp [pyInt, h]

theorem pyGet_inrange (l : List Val) (i : Int) (h0 : 0 ≤ i) (h1 : i < l.length) :
    pyGet l i = some (costAt l i) := by
  have hlt : i.toNat < l.length := by omega
  simp only [pyGet, costAt, h0, ↓reduceIte]
  rw [List.getElem?_eq_getElem hlt, List.getD_eq_getElem?_getD, List.getElem?_eq_getElem hlt]
  rfl

theorem pyGet_neg_one (l : List Val) (h : 0 < l.length) : ∃ v, pyGet l (-1) = some v := by
  have hlt : l.length - 1 < l.length := by omega
  refine ⟨l[l.length - 1], ?_⟩
  have : ¬ (0 : Int) ≤ -1 := by omega
  have h2 : -(-1 : Int) ≤ (l.length : Int) := by omega
  simp only [pyGet, this, ↓reduceIte, h2]
  simp [List.getElem?_eq_getElem hlt]

theorem bit3_add (f : Nat) (h : bitAt f 3 = 0) :
    bitAt (f + 8) 3 = 1 ∧ sameExceptBit3 (f + 8) f = true := by
  simp only [bitAt, sameExceptBit3, Bool.and_eq_true, beq_iff_eq] at *
  norm_num at *
  omega

theorem sameExceptBit3_refl (f : Nat) : sameExceptBit3 f f = true := by
  simp [sameExceptBit3]

theorem addFlag_zero (b : Bool) (f : Nat) : addFlag b f 0 = f := by
  cases b <;> simp [addFlag]

/-- raising bit 3: by `+=` when it is clear, by `|=` always -/
theorem addFlag_stopped (b : Bool) (f : Nat) (h : b = true ∨ bitAt f 3 = 0) :
    bitAt (addFlag b f stoppedBit) 3 = 1 ∧ sameExceptBit3 (addFlag b f stoppedBit) f = true := by
  cases b
  · rcases h with h | h
    · cases h
    · exact bit3_add f h
  · have e : stoppedBit = 8 := rfl
    simp only [addFlag, ↓reduceIte, e]
    constructor
    · have h8 : Nat.testBit 8 3 = true := by decide
      have ht : (f ||| 8).testBit 3 = true := by simp [Nat.testBit_or, h8]
      rw [Nat.testBit_eq_decide_div_mod_eq] at ht
      simpa [bitAt] using ht
    · have h1 := @Nat.or_mod_two_pow f 8 3
      have h2 := @Nat.or_div_two_pow f 8 4
      simp only [sameExceptBit3, Bool.and_eq_true, beq_iff_eq]
      constructor
      · simpa using h1
      · simpa using h2

/-- Well-formedness of a pixel (decidable): the cost row has one cell per sample of the interval,
    a valid pixel carries a disparity of its own interval, which lies inside the global one, and the
    costs outside the pixel's interval are NaN (C02/C09). -/
def wfPix (P : Params) (x : PixIn) : Bool :=
  decide (1 ≤ P.subpix)
  && decide (((x.costs.length : Int) : Rat) = (P.dmax - P.dmin) * (P.subpix : Rat) + 1)
  && decide (P.dmin ≤ x.pmin) && decide (x.pmax ≤ P.dmax)
  && (Flags.isInvalid x.flag ||
      match x.d with
      | .num dv => decide (x.pmin ≤ dv) && decide (dv ≤ x.pmax)
      | .nan => false)
  && (List.range x.costs.length).all (fun i =>
      !(decide (P.dmin + (i : Rat) / (P.subpix : Rat) < x.pmin) || decide (x.pmax < P.dmin + (i : Rat) / (P.subpix : Rat)))
        || x.costs.getD i .nan == .nan)

/-- the received disparity of a valid pixel is a sample of the interval -/
def onGridPix (P : Params) (x : PixIn) : Bool :=
  Flags.isInvalid x.flag || match x.d with
    | .num dv => onGrid P dv
    | .nan => true

/-- the interval-end test of the code (`disp == d_min or disp == d_max`) agrees with "the sample is an
    end of the interval".  True on the grid (`ends_agree_of_onGrid`); off the grid it fails exactly when
    the sample is the first one. -/
def endsAgree (P : Params) (x : PixIn) : Prop :=
  Flags.isInvalid x.flag = false → ∀ dv, x.d = .num dv →
    ((dv = P.dmin ∨ dv = P.dmax) ↔ (sampleOf P dv = 0 ∨ sampleOf P dv = (x.costs.length : Int) - 1))

/-- differences between two costs of the row are 0 or at least the `1e-15` of vfit.py -/
def notTinyCosts (costs : List Val) : Bool :=
  costs.all fun a => costs.all fun b =>
    match a, b with
    | .num p, .num q => decide (p - q = 0) || decide (tiny ≤ p - q) || decide (tiny ≤ q - p)
    | _, _ => true

/-- the move of a refined pixel is at most half a sample, exactly (no tolerance) -/
def exactHalf (P : Params) (x : PixIn) (o : PixOut) : Bool :=
  match classify P x, o.d with
  | .refine d _ _ _, .num d' =>
    decide (d' - d ≤ 1 / (2 * (P.subpix : Rat))) && decide (d - d' ≤ 1 / (2 * (P.subpix : Rat)))
  | .refine _ _ _ _, .nan => false
  | _, _ => true

/-- every clause except `inside_interval` (and the exact half-sample bound) -/
def coreOK (P : Params) (x : PixIn) (o : PixOut) (tol : Rat) : Bool :=
  (clauses P x o tol).all (fun c => c.2 || c.1 == "inside_interval") && exactHalf P x o

structure WfFacts (P : Params) (x : PixIn) : Prop where
  subpix_pos : 1 ≤ P.subpix
  len : ((x.costs.length : Int) : ℚ) = (P.dmax - P.dmin) * (P.subpix : ℚ) + 1
  pmin_ge : P.dmin ≤ x.pmin
  pmax_le : x.pmax ≤ P.dmax
  disp : Flags.isInvalid x.flag = false → ∃ dv, x.d = .num dv ∧ x.pmin ≤ dv ∧ dv ≤ x.pmax
  outside : ∀ i : Nat, i < x.costs.length →
    (P.dmin + (i : ℚ) / (P.subpix : ℚ) < x.pmin ∨ x.pmax < P.dmin + (i : ℚ) / (P.subpix : ℚ)) →
    x.costs.getD i .nan = .nan

theorem wfPix_facts (P : Params) (x : PixIn) (h : wfPix P x = true) : WfFacts P x := by
  simp only [wfPix, Bool.and_eq_true, decide_eq_true_eq, Bool.or_eq_true, List.all_eq_true, List.mem_range,
    Bool.not_eq_true', beq_iff_eq] at h
  obtain ⟨⟨⟨⟨⟨h1, h2⟩, h3⟩, h4⟩, h5⟩, h6⟩ := h
  refine ⟨h1, h2, h3, h4, ?_, ?_⟩
  · intro hv
    rcases h5 with h5 | h5
    · rw [hv] at h5; cases h5
    · cases hd : x.d with
      | nan => rw [hd] at h5; cases h5
      | num dv =>
        rw [hd] at h5
        simp only [Bool.and_eq_true, decide_eq_true_eq] at h5
        exact ⟨dv, rfl, h5.1, h5.2⟩
  · intro i hi hout
    rcases h6 i hi with h | h
    · exfalso
      simp only [Bool.or_eq_false_iff, decide_eq_false_iff_not] at h
      rcases hout with ho | ho
      · exact h.1 ho
      · exact h.2 ho
    · exact h

theorem sample_facts (P : Params) (x : PixIn) (W : WfFacts P x) (dv : ℚ) (h1 : P.dmin ≤ dv) (h2 : dv ≤ P.dmax) :
    pyInt ((dv - P.dmin) * (P.subpix : ℚ)) = sampleOf P dv ∧ 0 ≤ sampleOf P dv
      ∧ sampleOf P dv ≤ (x.costs.length : Int) - 1
      ∧ (dv ≠ P.dmax → sampleOf P dv ≤ (x.costs.length : Int) - 2) := by
  have hs : (0 : ℚ) < (P.subpix : ℚ) := by
    have := W.subpix_pos
    exact_mod_cast (by omega : 0 < P.subpix)
  have hq0 : 0 ≤ (dv - P.dmin) * (P.subpix : ℚ) := mul_nonneg (by linarith) (le_of_lt hs)
  have hlen : (x.costs.length : ℚ) = (P.dmax - P.dmin) * (P.subpix : ℚ) + 1 := by
    have := W.len; push_cast at this; exact this
  have hq1 : (dv - P.dmin) * (P.subpix : ℚ) ≤ (x.costs.length : ℚ) - 1 := by
    rw [hlen]; nlinarith
  refine ⟨pyInt_of_nonneg _ hq0, ?_, ?_, ?_⟩
  · unfold sampleOf; rw [Rat.le_floor_iff]; exact_mod_cast hq0
  · unfold sampleOf
    have := Rat.floor_le ((dv - P.dmin) * (P.subpix : ℚ))
    have h3 : (((dv - P.dmin) * (P.subpix : ℚ)).floor : ℚ) ≤ (((x.costs.length : Int) - 1 : Int) : ℚ) := by
      push_cast; linarith
    exact_mod_cast h3
  · intro hne
    have hlt : dv < P.dmax := lt_of_le_of_ne h2 hne
    have hq2 : (dv - P.dmin) * (P.subpix : ℚ) < (((x.costs.length : Int) - 1 : Int) : ℚ) := by
      push_cast; rw [hlen]; nlinarith
    have := (Rat.floor_lt_iff).mpr hq2
    unfold sampleOf; omega

theorem costAt_mem (l : List Val) (i : Int) (a : ℚ) (h : costAt l i = .num a) : Val.num a ∈ l := by
  unfold costAt at h
  split at h
  · rw [List.getD_eq_getElem?_getD] at h
    cases hg : l[i.toNat]? with
    | none => rw [hg] at h; cases h
    | some v =>
      rw [hg] at h
      simp at h
      subst h
      exact List.mem_of_getElem? hg
  · cases h

theorem notTiny_slope (costs : List Val) (h : notTinyCosts costs = true) (isMax : Bool) (a0 c1 a2 : ℚ)
    (m0 : Val.num a0 ∈ costs) (m1 : Val.num c1 ∈ costs) (m2 : Val.num a2 ∈ costs)
    (hext : isExtremum isMax a0 c1 a2 = true) :
    vslopeOf isMax a0 c1 a2 = 0 ∨ tiny ≤ vslopeOf isMax a0 c1 a2 := by
  simp only [notTinyCosts, List.all_eq_true] at h
  have h01 := h _ m0 _ m1
  have h21 := h _ m2 _ m1
  simp only [Bool.or_eq_true, decide_eq_true_eq] at h01 h21
  have ht := tiny_pos
  cases isMax <;>
    simp only [isExtremum, notWorse, Bool.false_eq_true, ↓reduceIte, Bool.and_eq_true, decide_eq_true_eq] at hext <;>
    simp only [vslopeOf, vslope, sgn, Bool.false_eq_true, ↓reduceIte] <;>
    split <;>
    · rcases h01 with (h01 | h01) | h01 <;> rcases h21 with (h21 | h21) | h21 <;>
        first
          | (left; linarith [hext.1, hext.2])
          | (right; linarith [hext.1, hext.2])

/-- **Pixel level, everything except `inside_interval`.**  The two provisos are needed by the code as it
    is and vanish with the repairs: the interval-end test must agree with the sample index (`fixEnds`
    makes it so), bit 3 must be clear (`fixOr` makes it irrelevant). -/
theorem refinePixel_core (P : Params) (x : PixIn) (tol : ℚ) (hwf : wfPix P x = true)
    (hends : P.variant.fixEnds = true ∨ endsAgree P x) (hbit : P.variant.fixOr = true ∨ bitAt x.flag 3 = 0)
    (htol : 0 ≤ tol) (hnt : P.method = .vfit → tiny ≤ tol ∨ notTinyCosts x.costs = true) :
    (∃ o, refinePixel P x = .ok o ∧ coreOK P x o tol = true) ∨
    (P.method = .quadratic ∧ P.variant.fixFlat = false ∧ refinePixel P x = .err .zeroDivision
      ∧ ∃ d c, classify P x = .refine d c c c) := by
  have W := wfPix_facts P x hwf
  by_cases hinv : Flags.isInvalid x.flag = true
  · left
    refine ⟨⟨.nan, x.d, x.flag⟩, ?_, ?_⟩
    · simp [refinePixel, hinv]
    · simp [coreOK, exactHalf, clauses, classify, hinv]
  · have hinv' : Flags.isInvalid x.flag = false := by simpa using hinv
    obtain ⟨dv, hd, hp1, hp2⟩ := W.disp hinv'
    have hd1 : P.dmin ≤ dv := le_trans W.pmin_ge hp1
    have hd2 : dv ≤ P.dmax := le_trans hp2 W.pmax_le
    obtain ⟨hpy, hs0, hs1, hs2⟩ := sample_facts P x W dv hd1 hd2
    -- the test that lets the method run says: the sample is not an end of the interval
    have hna : notAtEnd P x.costs.length dv (sampleOf P dv) = true ↔
        ¬(sampleOf P dv = 0 ∨ sampleOf P dv = (x.costs.length : Int) - 1) := by
      unfold notAtEnd
      cases hfe : P.variant.fixEnds
      · rcases hends with h | h
        · rw [hfe] at h; cases h
        · have hE := h hinv' dv hd
          simp only [Bool.false_eq_true, ↓reduceIte, Bool.and_eq_true, bne_iff_ne, ne_eq]
          rw [← hE]
          constructor
          · rintro ⟨h1, h2⟩ (h3 | h3) <;> contradiction
          · intro h3; exact ⟨fun h1 => h3 (Or.inl h1), fun h2 => h3 (Or.inr h2)⟩
      · simp only [↓reduceIte, Bool.and_eq_true, bne_iff_ne, ne_eq]
        constructor
        · rintro ⟨h1, h2⟩ (h3 | h3) <;> contradiction
        · intro h3; exact ⟨fun h1 => h3 (Or.inl h1), fun h2 => h3 (Or.inr h2)⟩
    generalize hsdef : sampleOf P dv = s at *
    have hlt : s < (x.costs.length : Int) := by omega
    have hget : pyGet x.costs s = some (costAt x.costs s) := pyGet_inrange _ _ hs0 hlt
    have hcls0 : ¬(s < 0 ∨ (x.costs.length : Int) ≤ s) := by omega
    cases hc1 : costAt x.costs s with
    | nan =>
      left
      refine ⟨⟨.nan, x.d, x.flag⟩, ?_, ?_⟩
      · simp [refinePixel, hinv', hd, hpy, hget, hc1]
      · simp [coreOK, exactHalf, clauses, classify, hinv', hd, hsdef, hcls0, hc1]
    | num c1 =>
      obtain ⟨hb1', hb2'⟩ := addFlag_stopped P.variant.fixOr x.flag hbit
      by_cases hend : s = 0 ∨ s = (x.costs.length : Int) - 1
      · -- the sample is an end of the interval: stopped
        left
        have hdd : notAtEnd P x.costs.length dv s = false := by
          by_contra hcon
          exact (hna.mp (by simpa using hcon)) hend
        refine ⟨⟨.num c1, x.d, addFlag P.variant.fixOr x.flag stoppedBit⟩, ?_, ?_⟩
        · simp [refinePixel, hinv', hd, hpy, hget, hc1, hdd]
        · simp [coreOK, exactHalf, clauses, classify, hinv', hd, hsdef, hcls0, hc1, hend, hb1', hb2']
      · -- an inner sample: the method is applied to the three costs
        have hne : notAtEnd P x.costs.length dv s = true := hna.mpr hend
        have hsl : 1 ≤ s ∧ s ≤ (x.costs.length : Int) - 2 := by omega
        have hg0 : pyGet x.costs (s - 1) = some (costAt x.costs (s - 1)) := pyGet_inrange _ _ (by omega) (by omega)
        have hg2 : pyGet x.costs (s + 1) = some (costAt x.costs (s + 1)) := pyGet_inrange _ _ (by omega) (by omega)
        have hsub : (0 : ℚ) < (P.subpix : ℚ) := by
          have := W.subpix_pos
          exact_mod_cast (by omega : 0 < P.subpix)
        -- what the model does on an inner sample, for any method answer
        have hmodel : ∀ r, runMethod P.variant.fixFlat P.method P.isMax (costAt x.costs (s - 1)) c1 (costAt x.costs (s + 1)) = .ok r →
            refinePixel P x = .ok ⟨.num r.cost, .num (dv + r.shift / (P.subpix : ℚ)), addFlag P.variant.fixOr x.flag r.flag⟩ := by
          intro r hr
          simp [refinePixel, hinv', hd, hpy, hget, hc1, hne, hg0, hg2, hr]
        have hmodelE : ∀ e, runMethod P.variant.fixFlat P.method P.isMax (costAt x.costs (s - 1)) c1 (costAt x.costs (s + 1)) = .err e →
            refinePixel P x = .err e := by
          intro e hr
          simp [refinePixel, hinv', hd, hpy, hget, hc1, hne, hg0, hg2, hr]
        -- the stop cases share their conclusion
        have hstopped : ∀ cls : Class, classify P x = cls →
            (cls = .neighbourNan ∨ cls = .notExtremum) →
            runMethod P.variant.fixFlat P.method P.isMax (costAt x.costs (s - 1)) c1 (costAt x.costs (s + 1)) = .ok ⟨0, c1, stoppedBit⟩ →
            ∃ o, refinePixel P x = .ok o ∧ coreOK P x o tol = true := by
          intro cls hcls hk hr
          refine ⟨_, hmodel _ hr, ?_⟩
          rcases hk with rfl | rfl <;>
            simp [coreOK, exactHalf, clauses, hcls, hd, hb1', hb2']
        cases hc0 : costAt x.costs (s - 1) with
        | nan =>
          left
          apply hstopped .neighbourNan
          · simp [classify, hinv', hd, hsdef, hcls0, hc1, hend, hc0]
          · exact Or.inl rfl
          · exact method_stop _ _ _ _ _ _ (Or.inl hc0)
        | num a0 =>
          cases hc2 : costAt x.costs (s + 1) with
          | nan =>
            left
            apply hstopped .neighbourNan
            · simp [classify, hinv', hd, hsdef, hcls0, hc1, hend, hc0, hc2]
            · exact Or.inl rfl
            · exact method_stop _ _ _ _ _ _ (Or.inr (Or.inl hc2))
          | num a2 =>
            by_cases hext : isExtremum P.isMax a0 c1 a2 = true
            · -- the centre is an extremum of three numbers: refined (or `quadratic` raises on a flat triple)
              have hcls : classify P x = .refine dv a0 c1 a2 := by
                simp [classify, hinv', hd, hsdef, hcls0, hc1, hend, hc0, hc2, hext]
              have hnt' : P.method = .vfit →
                  (tiny ≤ tol ∨ vslopeOf P.isMax a0 c1 a2 = 0 ∨ tiny ≤ vslopeOf P.isMax a0 c1 a2) := by
                intro hm
                rcases hnt hm with h | h
                · exact Or.inl h
                · exact Or.inr (notTiny_slope x.costs h P.isMax a0 c1 a2 (costAt_mem _ _ _ hc0) (costAt_mem _ _ _ hc1)
                    (costAt_mem _ _ _ hc2) hext)
              rcases method_refine P.variant.fixFlat P.method P.isMax a0 c1 a2 tol hext htol hnt' with
                ⟨hq, hff, e0, e2, he⟩ | ⟨-, r, hr, hf, hr1, hr2, hr3, hr4⟩
              · right
                refine ⟨hq, hff, hmodelE _ (by rw [hc0, hc2]; exact he), dv, c1, ?_⟩
                rw [hcls, e0, e2]
              · left
                refine ⟨_, hmodel r (by rw [hc0, hc2]; exact hr), ?_⟩
                have hfl : addFlag P.variant.fixOr x.flag r.flag = x.flag := by rw [hf]; exact addFlag_zero _ _
                rw [hfl]
                have hsx : (dv + r.shift / (P.subpix : ℚ) - dv) * (P.subpix : ℚ) = r.shift := by
                  field_simp; ring
                have hE1 : dv + r.shift / (P.subpix : ℚ) - dv ≤ 1 / (2 * (P.subpix : ℚ)) := by
                  rw [show dv + r.shift / (P.subpix : ℚ) - dv = r.shift / (P.subpix : ℚ) by ring,
                      show (1 : ℚ) / (2 * (P.subpix : ℚ)) = (1 / 2) / (P.subpix : ℚ) by field_simp]
                  exact div_le_div_of_nonneg_right hr2 (le_of_lt hsub)
                have hE2 : dv - (dv + r.shift / (P.subpix : ℚ)) ≤ 1 / (2 * (P.subpix : ℚ)) := by
                  rw [show dv - (dv + r.shift / (P.subpix : ℚ)) = (-r.shift) / (P.subpix : ℚ) by ring,
                      show (1 : ℚ) / (2 * (P.subpix : ℚ)) = (1 / 2) / (P.subpix : ℚ) by field_simp]
                  exact div_le_div_of_nonneg_right (by linarith) (le_of_lt hsub)
                have hhalf1 : dv + r.shift / (P.subpix : ℚ) - dv ≤ 1 / (2 * (P.subpix : ℚ)) + tol := by linarith
                have hhalf2 : dv - (dv + r.shift / (P.subpix : ℚ)) ≤ 1 / (2 * (P.subpix : ℚ)) + tol := by linarith
                have hexact : exactHalf P x ⟨.num r.cost, .num (dv + r.shift / (P.subpix : ℚ)), x.flag⟩ = true := by
                  simp only [exactHalf, hcls, Bool.and_eq_true, decide_eq_true_eq]; exact ⟨hE1, hE2⟩
                have hworse : (if P.isMax = true then decide (c1 ≤ r.cost + tol) else decide (r.cost ≤ c1 + tol)) = true := by
                  cases hM : P.isMax <;> simp [hM] at hr3 ⊢ <;> linarith
                have hflag : (x.flag == x.flag) = true := by simp
                have hsame : sameExceptBit3 x.flag x.flag = true := sameExceptBit3_refl _
                have hhalf : decide (dv + r.shift / (P.subpix : ℚ) - dv ≤ 1 / (2 * (P.subpix : ℚ)) + tol) = true
                    ∧ decide (dv - (dv + r.shift / (P.subpix : ℚ)) ≤ 1 / (2 * (P.subpix : ℚ)) + tol) = true := by
                  simp only [decide_eq_true_eq]; exact ⟨hhalf1, hhalf2⟩
                cases hm : P.method <;> rw [hm] at hr4 <;> simp only [coreOK, hexact, Bool.and_true] <;>
                  simp only [clauses, hcls, valNum?, hm, List.all_cons, List.all_nil, Bool.and_true,
                    Bool.and_eq_true, Bool.or_eq_true, fitOK, hsx] at hr4 ⊢
                · exact ⟨Or.inl hflag, Or.inl hsame, Or.inl hhalf, Or.inl hr4, Or.inl hr4, Or.inl hworse, Or.inr (by decide)⟩
                · exact ⟨Or.inl hflag, Or.inl hsame, Or.inl hhalf, Or.inl hr4.1, Or.inl hr4.2, Or.inl hworse, Or.inr (by decide)⟩
            · have hext' : isExtremum P.isMax a0 c1 a2 = false := by simpa using hext
              left
              apply hstopped .notExtremum
              · simp [classify, hinv', hd, hsdef, hcls0, hc1, hend, hc0, hc2, hext']
              · exact Or.inr rfl
              · exact method_stop _ _ _ _ _ _ (Or.inr (Or.inr ⟨a0, a2, hc0, hc2, hext'⟩))

/-! ### When the code's interval-end test agrees with the statement's -/

theorem onGrid_floor (q : ℚ) (h : q.den = 1) : ((q.floor : Int) : ℚ) = q := by
  have : q.floor = q.num := by simp [Rat.floor, h]
  rw [this]
  exact (Rat.den_eq_one_iff q).mp h

theorem floor_zero : Rat.floor 0 = 0 := Rat.floor_intCast 0

/-- for a disparity that is a sample, `d = dmin ∨ d = dmax` says "the sample is an end of the interval" -/
theorem ends_iff_onGrid (P : Params) (n : Nat) (hs : (0 : ℚ) < (P.subpix : ℚ))
    (hlen : (n : ℚ) = (P.dmax - P.dmin) * (P.subpix : ℚ) + 1) (dv : ℚ) (hg : onGrid P dv = true) :
    (dv = P.dmin ∨ dv = P.dmax) ↔ (sampleOf P dv = 0 ∨ sampleOf P dv = (n : Int) - 1) := by
  have hq := onGrid_floor _ (by simpa [onGrid] using hg)
  unfold sampleOf
  constructor
  · rintro (h | h)
    · left; rw [h]; simp [floor_zero]
    · right
      have h2 : (dv - P.dmin) * (P.subpix : ℚ) = (((n : Int) - 1 : Int) : ℚ) := by
        push_cast; rw [hlen, h]; ring
      rw [h2, Rat.floor_intCast]
  · rintro (h | h)
    · left
      rw [h] at hq
      have : (dv - P.dmin) * (P.subpix : ℚ) = 0 := by rw [← hq]; simp
      rcases mul_eq_zero.mp this with h' | h'
      · linarith
      · exact absurd h' (ne_of_gt hs)
    · right
      rw [h] at hq
      have : (dv - P.dmin) * (P.subpix : ℚ) = (P.dmax - P.dmin) * (P.subpix : ℚ) := by
        rw [← hq]; push_cast; rw [hlen]; ring
      have := mul_right_cancel₀ (ne_of_gt hs) this
      linarith

theorem ends_agree_of_onGrid (P : Params) (x : PixIn) (hwf : wfPix P x = true) (hg : onGridPix P x = true) :
    endsAgree P x := by
  have W := wfPix_facts P x hwf
  intro hinv dv hd
  have hs : (0 : ℚ) < (P.subpix : ℚ) := by
    have := W.subpix_pos
    exact_mod_cast (by omega : 0 < P.subpix)
  have hlen : (x.costs.length : ℚ) = (P.dmax - P.dmin) * (P.subpix : ℚ) + 1 := by
    have := W.len; push_cast at this; exact this
  have hgd : onGrid P dv = true := by simpa [onGridPix, hinv, hd] using hg
  exact ends_iff_onGrid P x.costs.length hs hlen dv hgd

/-- off the grid (after a filter) the two tests still agree unless the disparity designates the
    first sample — the situation of finding C06-F3 -/
theorem ends_agree_offGrid (P : Params) (x : PixIn) (hwf : wfPix P x = true)
    (hoff : ∀ dv, x.d = .num dv → onGrid P dv = false ∧ sampleOf P dv ≠ 0) : endsAgree P x := by
  have W := wfPix_facts P x hwf
  intro hinv dv hd
  obtain ⟨hng, hs0⟩ := hoff dv hd
  obtain ⟨dv', hd', hp1, hp2⟩ := W.disp hinv
  have : dv' = dv := by rw [hd] at hd'; cases hd'; rfl
  subst this
  have hd1 : P.dmin ≤ dv' := le_trans W.pmin_ge hp1
  have hd2 : dv' ≤ P.dmax := le_trans hp2 W.pmax_le
  have hs : (0 : ℚ) < (P.subpix : ℚ) := by
    have := W.subpix_pos
    exact_mod_cast (by omega : 0 < P.subpix)
  have hlen : (x.costs.length : ℚ) = (P.dmax - P.dmin) * (P.subpix : ℚ) + 1 := by
    have := W.len; push_cast at this; exact this
  have hden : ∀ k : Int, (dv' - P.dmin) * (P.subpix : ℚ) ≠ (k : ℚ) := by
    intro k hk
    have : onGrid P dv' = true := by simp [onGrid, hk]
    rw [this] at hng; cases hng
  obtain ⟨-, -, -, hs2⟩ := sample_facts P x W dv' hd1 hd2
  have hne1 : dv' ≠ P.dmin := by
    intro h; apply hden 0; rw [h]; simp
  have hne2 : dv' ≠ P.dmax := by
    intro h; apply hden ((x.costs.length : Int) - 1); push_cast; rw [hlen, h]; ring
  have := hs2 hne2
  constructor
  · rintro (h | h)
    · exact absurd h hne1
    · exact absurd h hne2
  · rintro (h | h)
    · exact absurd h hs0
    · omega

/-! ### `inside_interval` on the grid -/

theorem classify_refine_inv (P : Params) (x : PixIn) (d a0 c1 a2 : ℚ) (h : classify P x = .refine d a0 c1 a2) :
    Flags.isInvalid x.flag = false ∧ x.d = .num d ∧ 1 ≤ sampleOf P d ∧ sampleOf P d ≤ (x.costs.length : Int) - 2
      ∧ costAt x.costs (sampleOf P d - 1) = .num a0 ∧ costAt x.costs (sampleOf P d) = .num c1
      ∧ costAt x.costs (sampleOf P d + 1) = .num a2 ∧ isExtremum P.isMax a0 c1 a2 = true := by
  unfold classify at h
  split at h
  · cases h
  · rename_i hinv
    split at h
    · cases h
    · rename_i dv hd
      simp only at h
      split at h
      · cases h
      · rename_i hrange
        split at h
        · cases h
        · rename_i c1' hc1
          split at h
          · cases h
          · rename_i hend
            split at h
            · rename_i a0' a2' hc0 hc2
              split at h
              · rename_i hext
                cases h
                refine ⟨by simpa using hinv, hd, by omega, by omega, hc0, hc1, hc2, hext⟩
              · cases h
            · cases h

theorem costAt_nat (l : List Val) (i : Int) (h : 0 ≤ i) : costAt l i = l.getD i.toNat .nan := by
  simp [costAt, h]

/-- every clause named `inside_interval` -/
def insideOK (P : Params) (x : PixIn) (o : PixOut) (tol : Rat) : Bool :=
  (clauses P x o tol).all (fun c => c.1 != "inside_interval" || c.2)

/-- **On the grid a refined disparity stays inside the global interval and inside the pixel's own
    interval** (the costs outside the latter being NaN). -/
theorem inside_of_onGrid (P : Params) (x : PixIn) (o : PixOut) (tol : ℚ) (hwf : wfPix P x = true)
    (hg : onGridPix P x = true) (hx : exactHalf P x o = true) : insideOK P x o tol = true := by
  have W := wfPix_facts P x hwf
  cases hcls : classify P x with
  | refine d a0 c1 a2 =>
    obtain ⟨hinv, hd, hs1, hs2, hc0, -, hc2, -⟩ := classify_refine_inv P x d a0 c1 a2 hcls
    have hsp : (0 : ℚ) < (P.subpix : ℚ) := by
      have := W.subpix_pos
      exact_mod_cast (by omega : 0 < P.subpix)
    have hlen : (x.costs.length : ℚ) = (P.dmax - P.dmin) * (P.subpix : ℚ) + 1 := by
      have := W.len; push_cast at this; exact this
    have hgd : onGrid P d = true := by simpa [onGridPix, hinv, hd] using hg
    have hq : ((sampleOf P d : Int) : ℚ) = (d - P.dmin) * (P.subpix : ℚ) :=
      onGrid_floor _ (by simpa [onGrid] using hgd)
    generalize sampleOf P d = s at *
    -- d = dmin + s / subpix
    have hdv : d = P.dmin + (s : ℚ) / (P.subpix : ℚ) := by rw [hq]; field_simp; ring
    have hinvsp : (1 : ℚ) / (2 * (P.subpix : ℚ)) ≤ 1 / (P.subpix : ℚ) := by
      rw [div_le_div_iff₀ (by positivity) hsp]; nlinarith
    -- neighbours are numbers, hence inside the pixel's interval
    have hi0 : (0 : Int) ≤ s - 1 := by omega
    have hi2 : (0 : Int) ≤ s + 1 := by omega
    have hn0 : (s - 1).toNat < x.costs.length := by omega
    have hn2 : (s + 1).toNat < x.costs.length := by omega
    have hcast0 : (((s - 1).toNat : Nat) : ℚ) = (s : ℚ) - 1 := by
      have : (((s - 1).toNat : Nat) : Int) = s - 1 := Int.toNat_of_nonneg hi0
      have h2 : ((((s - 1).toNat : Nat) : Int) : ℚ) = ((s - 1 : Int) : ℚ) := by rw [this]
      push_cast at h2; exact h2
    have hcast2 : (((s + 1).toNat : Nat) : ℚ) = (s : ℚ) + 1 := by
      have : (((s + 1).toNat : Nat) : Int) = s + 1 := Int.toNat_of_nonneg hi2
      have h2 : ((((s + 1).toNat : Nat) : Int) : ℚ) = ((s + 1 : Int) : ℚ) := by rw [this]
      push_cast at h2; exact h2
    have hin0 : x.pmin ≤ P.dmin + ((s : ℚ) - 1) / (P.subpix : ℚ) := by
      by_contra hcon
      have := W.outside (s - 1).toNat hn0 (Or.inl (by rw [hcast0]; exact not_le.mp hcon))
      rw [costAt_nat _ _ hi0, this] at hc0; cases hc0
    have hin2 : P.dmin + ((s : ℚ) + 1) / (P.subpix : ℚ) ≤ x.pmax := by
      by_contra hcon
      have := W.outside (s + 1).toNat hn2 (Or.inr (by rw [hcast2]; exact not_le.mp hcon))
      rw [costAt_nat _ _ hi2, this] at hc2; cases hc2
    have hsub1 : ((s : ℚ) - 1) / (P.subpix : ℚ) = (s : ℚ) / (P.subpix : ℚ) - 1 / (P.subpix : ℚ) := by ring
    have hadd1 : ((s : ℚ) + 1) / (P.subpix : ℚ) = (s : ℚ) / (P.subpix : ℚ) + 1 / (P.subpix : ℚ) := by ring
    cases hod : o.d with
    | nan => simp [exactHalf, hcls, hod] at hx
    | num d' =>
      simp only [exactHalf, hcls, hod, Bool.and_eq_true, decide_eq_true_eq] at hx
      obtain ⟨hx1, hx2⟩ := hx
      have hA : P.dmin ≤ d' := by linarith [W.pmin_ge]
      have hB : d' ≤ P.dmax := by linarith [W.pmax_le]
      have hC : x.pmin ≤ d' := by linarith
      have hD : d' ≤ x.pmax := by linarith
      cases hoc : o.coeff with
      | nan => simp [insideOK, clauses, hcls, hod, hoc, valNum?]
      | num y =>
        cases hm : P.method <;>
          simp [insideOK, clauses, hcls, hod, hoc, valNum?, hm, hA, hB, hC, hD]
  | invalid => simp [insideOK, clauses, hcls]
  | illFormed => simp [insideOK, clauses, hcls]
  | centreNan => simp [insideOK, clauses, hcls]
  | atIntervalEnd => simp [insideOK, clauses, hcls]
  | neighbourNan => simp [insideOK, clauses, hcls]
  | notExtremum => simp [insideOK, clauses, hcls]

/-! ### The pixel theorem -/

theorem spec_of_core_inside (P : Params) (x : PixIn) (o : PixOut) (tol : ℚ)
    (h1 : coreOK P x o tol = true) (h2 : insideOK P x o tol = true) : specOK P x o tol = true := by
  simp only [coreOK, insideOK, specOK, Bool.and_eq_true, List.all_eq_true, Bool.or_eq_true, bne_iff_ne, ne_eq,
    beq_iff_eq] at *
  intro c hc
  rcases h1.1 c hc with h | h
  · exact h
  · rcases h2 c hc with h' | h'
    · exact absurd h h'
    · exact h'

/-- what is assumed of a pixel for the full statement: well-formed, its disparity is a sample (as
    winner-takes-all leaves it), bit 3 not yet raised (not needed once flags are or-ed) -/
def pixHyp (P : Params) (x : PixIn) : Bool :=
  wfPix P x && onGridPix P x && (P.variant.fixOr || bitAt x.flag 3 == 0)

/--
  **C06, one pixel.**  For every well-formed pixel whose disparity is a sample of the interval and
  whose bit 3 is clear, `refinePixel` either returns an output satisfying *every* clause of the
  specification (`invalid_untouched`, `stopped_iff` with its three causes, `only_bit3`,
  `shift_le_half`, `is_vfit_optimum` / `is_parabola_optimum`, `coeff_is_fitted_cost`,
  `coeff_not_worse`, `inside_interval`), or the method is the unrepaired `quadratic`, the pixel is to be
  refined on three equal costs, and the step raises (finding C06-F2: the clause `total` is false there).
  `tol` is any tolerance ≥ 0 (0 gives the exact statement, then the costs must not differ by less
  than the 1e-15 guard of vfit.py, or `tol ≥ 1e-15`).

  Full-strength statement (false of the code as it is, see the counterexamples below; true of the
  repaired code, `refinePixel_spec_repaired`): the same without `bitAt x.flag 3 = 0` and with the right
  disjunct removed.
-/
theorem refinePixel_spec (P : Params) (x : PixIn) (tol : ℚ) (hp : pixHyp P x = true) (htol : 0 ≤ tol)
    (hnt : P.method = .vfit → tiny ≤ tol ∨ notTinyCosts x.costs = true) :
    (∃ o, refinePixel P x = .ok o ∧ specOK P x o tol = true) ∨
    (P.method = .quadratic ∧ P.variant.fixFlat = false ∧ refinePixel P x = .err .zeroDivision
      ∧ ∃ d c, classify P x = .refine d c c c) := by
  simp only [pixHyp, Bool.and_eq_true, Bool.or_eq_true, beq_iff_eq] at hp
  obtain ⟨⟨hwf, hg⟩, hbit⟩ := hp
  rcases refinePixel_core P x tol hwf (Or.inr (ends_agree_of_onGrid P x hwf hg)) hbit htol hnt with ⟨o, ho, hc⟩ | h
  · left
    refine ⟨o, ho, spec_of_core_inside P x o tol hc (inside_of_onGrid P x o tol hwf hg ?_)⟩
    simp only [coreOK, Bool.and_eq_true] at hc
    exact hc.2
  · right; exact h

/-- **C06 for `vfit`**: no exception, every clause. -/
theorem vfit_pixel_spec (P : Params) (x : PixIn) (tol : ℚ) (hm : P.method = .vfit) (hp : pixHyp P x = true)
    (htol : 0 ≤ tol) (hnt : tiny ≤ tol ∨ notTinyCosts x.costs = true) :
    ∃ o, refinePixel P x = .ok o ∧ specOK P x o tol = true := by
  rcases refinePixel_spec P x tol hp htol (fun _ => hnt) with h | ⟨hq, -⟩
  · exact h
  · rw [hm] at hq; cases hq

/-- **C06 for the repaired step** (the three proposed fixes applied): for both methods, whatever the
    flag word, every well-formed pixel carrying a sample disparity satisfies every clause and the step does
    not raise. -/
theorem refinePixel_spec_repaired (P : Params) (x : PixIn) (tol : ℚ)
    (hV : P.variant = { fixFlat := true, fixOr := true, fixEnds := true })
    (hwf : wfPix P x = true) (hg : onGridPix P x = true) (htol : 0 ≤ tol)
    (hnt : P.method = .vfit → tiny ≤ tol ∨ notTinyCosts x.costs = true) :
    ∃ o, refinePixel P x = .ok o ∧ specOK P x o tol = true := by
  have hp : pixHyp P x = true := by simp [pixHyp, hwf, hg, hV]
  rcases refinePixel_spec P x tol hp htol hnt with h | ⟨-, hff, -⟩
  · exact h
  · rw [hV] at hff; cases hff

/-- **Off the grid** (a disparity as a filter leaves it), as long as it does not designate the first
    sample: every clause except `inside_interval` (findings C06-F3 and C06-F5 are exactly the two
    exceptions). -/
theorem refinePixel_spec_offGrid (P : Params) (x : PixIn) (tol : ℚ) (hwf : wfPix P x = true)
    (hoff : ∀ dv, x.d = .num dv → onGrid P dv = false ∧ sampleOf P dv ≠ 0)
    (hbit : P.variant.fixOr = true ∨ bitAt x.flag 3 = 0) (htol : 0 ≤ tol)
    (hnt : P.method = .vfit → tiny ≤ tol ∨ notTinyCosts x.costs = true) :
    (∃ o, refinePixel P x = .ok o ∧ coreOK P x o tol = true) ∨
    (P.method = .quadratic ∧ P.variant.fixFlat = false ∧ refinePixel P x = .err .zeroDivision
      ∧ ∃ d c, classify P x = .refine d c c c) :=
  refinePixel_core P x tol hwf (Or.inr (ends_agree_offGrid P x hwf hoff)) hbit htol hnt

/-- **Off the grid, repaired step**: with the interval-end test made on the sample index the proviso
    about the first sample disappears: every well-formed pixel, every clause except `inside_interval`
    (finding C06-F5 is not repaired by the proposed fixes). -/
theorem refinePixel_core_repaired (P : Params) (x : PixIn) (tol : ℚ)
    (hV : P.variant = { fixFlat := true, fixOr := true, fixEnds := true })
    (hwf : wfPix P x = true) (htol : 0 ≤ tol)
    (hnt : P.method = .vfit → tiny ≤ tol ∨ notTinyCosts x.costs = true) :
    ∃ o, refinePixel P x = .ok o ∧ coreOK P x o tol = true := by
  rcases refinePixel_core P x tol hwf (Or.inl (by rw [hV])) (Or.inl (by rw [hV])) htol hnt with h | ⟨-, hff, -⟩
  · exact h
  · rw [hV] at hff; cases hff

/-! ### Totality -/

theorem runMethod_total (ff : Bool) (m : Method) (isMax : Bool) (c0 c2 : Val) (c1 : ℚ) :
    (∃ r, runMethod ff m isMax c0 c1 c2 = .ok r) ∨
    (m = .quadratic ∧ ff = false ∧ runMethod ff m isMax c0 c1 c2 = .err .zeroDivision) := by
  cases m
  · left
    cases c0 <;> cases c2 <;> simp only [runMethod, vfit] <;> (try split_ifs) <;> exact ⟨_, rfl⟩
  · cases c0 <;> cases c2 <;> simp only [runMethod, quadratic]
    · left; exact ⟨_, rfl⟩
    · left; exact ⟨_, rfl⟩
    · left; exact ⟨_, rfl⟩
    · cases ff <;> simp only [Bool.false_eq_true, ↓reduceIte] <;> split_ifs
      · left; exact ⟨_, rfl⟩
      · right; simp
      · left; exact ⟨_, rfl⟩
      · left; exact ⟨_, rfl⟩
      · left; exact ⟨_, rfl⟩
      · left; exact ⟨_, rfl⟩

/-- **`total`, one pixel**: on every well-formed pixel — any cost curve (flat, tied, NaN-holed), any
    flag word, a disparity on or off the grid, any variant — the loop body returns, except the unrepaired
    `quadratic` dividing by zero.  In particular no index leaves the cost row (the wrap-around read of
    index -1 is legal). -/
theorem refinePixel_total (P : Params) (x : PixIn) (hwf : wfPix P x = true) :
    (∃ o, refinePixel P x = .ok o) ∨
    (P.method = .quadratic ∧ P.variant.fixFlat = false ∧ refinePixel P x = .err .zeroDivision) := by
  have W := wfPix_facts P x hwf
  by_cases hinv : Flags.isInvalid x.flag = true
  · left; simp [refinePixel, hinv]
  · have hinv' : Flags.isInvalid x.flag = false := by simpa using hinv
    obtain ⟨dv, hd, hp1, hp2⟩ := W.disp hinv'
    have hd1 : P.dmin ≤ dv := le_trans W.pmin_ge hp1
    have hd2 : dv ≤ P.dmax := le_trans hp2 W.pmax_le
    obtain ⟨hpy, hs0, hs1, hs2⟩ := sample_facts P x W dv hd1 hd2
    generalize sampleOf P dv = s at *
    have hget : pyGet x.costs s = some (costAt x.costs s) := pyGet_inrange _ _ hs0 (by omega)
    cases hc1 : costAt x.costs s with
    | nan => left; simp [refinePixel, hinv', hd, hpy, hget, hc1]
    | num c1 =>
      by_cases hne : notAtEnd P x.costs.length dv s = true
      · -- the right neighbour exists in both variants of the test
        have h2 : s ≤ (x.costs.length : Int) - 2 := by
          unfold notAtEnd at hne
          cases hfe : P.variant.fixEnds
          · simp only [hfe, Bool.false_eq_true, ↓reduceIte, Bool.and_eq_true, bne_iff_ne, ne_eq] at hne
            exact hs2 hne.2
          · simp only [hfe, ↓reduceIte, Bool.and_eq_true, bne_iff_ne, ne_eq] at hne
            omega
        have hg2 : pyGet x.costs (s + 1) = some (costAt x.costs (s + 1)) := pyGet_inrange _ _ (by omega) (by omega)
        have hg0 : ∃ v, pyGet x.costs (s - 1) = some v := by
          by_cases h0 : s = 0
          · subst h0; exact pyGet_neg_one _ (by omega)
          · exact ⟨_, pyGet_inrange _ _ (by omega) (by omega)⟩
        obtain ⟨v0, hv0⟩ := hg0
        rcases runMethod_total P.variant.fixFlat P.method P.isMax v0 (costAt x.costs (s + 1)) c1 with
          ⟨r, hr⟩ | ⟨hq, hff, hr⟩
        · left; simp [refinePixel, hinv', hd, hpy, hget, hc1, hne, hv0, hg2, hr]
        · right; exact ⟨hq, hff, by simp [refinePixel, hinv', hd, hpy, hget, hc1, hne, hv0, hg2, hr]⟩
      · left; simp [refinePixel, hinv', hd, hpy, hget, hc1, hne]

/-! ## The whole map -/

theorem mapRes_all2 {α β : Type} (f : α → Res β) (p : α → β → Bool)
    (h : ∀ a b, f a = .ok b → p a b = true) : ∀ l r, mapRes f l = .ok r → all2 p l r = true := by
  intro l
  induction l with
  | nil => intro r hr; simp only [mapRes] at hr; cases hr; rfl
  | cons a l ih =>
    intro r hr
    simp only [mapRes] at hr
    cases hfa : f a with
    | err e => rw [hfa] at hr; cases hr
    | ok b =>
      rw [hfa] at hr
      cases hl : mapRes f l with
      | err e => rw [hl] at hr; cases hr
      | ok bs =>
        rw [hl] at hr
        cases hr
        simp only [all2, Bool.and_eq_true]
        exact ⟨h a b hfa, ih bs hl⟩

theorem mapRes_ok {α β : Type} (f : α → Res β) : ∀ l, (∀ a ∈ l, ∃ b, f a = .ok b) → ∃ r, mapRes f l = .ok r := by
  intro l
  induction l with
  | nil => intro _; exact ⟨[], rfl⟩
  | cons a l ih =>
    intro h
    obtain ⟨b, hb⟩ := h a (List.mem_cons_self ..)
    obtain ⟨bs, hbs⟩ := ih (fun a' ha' => h a' (List.mem_cons_of_mem _ ha'))
    exact ⟨b :: bs, by simp only [mapRes, hb, hbs]⟩

theorem all2_mono {α β : Type} (p q : α → β → Bool) (h : ∀ a b, p a b = true → q a b = true) :
    ∀ l r, all2 p l r = true → all2 q l r = true := by
  intro l
  induction l with
  | nil => intro r hr; cases r <;> simp_all [all2]
  | cons a l ih =>
    intro r hr
    cases r with
    | nil => simp [all2] at hr
    | cons b r =>
      simp only [all2, Bool.and_eq_true] at hr ⊢
      exact ⟨h a b hr.1, ih r hr.2⟩

/-- three equal costs to be refined (the situation in which `quadratic` raises) -/
def flatRefine (P : Params) (x : PixIn) : Bool :=
  match classify P x with
  | .refine _ a b c => a == b && b == c
  | _ => false

/--
  **C06, the whole map.**  `loop_refinement` on a map of any size whose pixels are well-formed, carry
  sample disparities and have bit 3 clear — and, for the unrepaired `quadratic`, with no pixel to be
  refined on three equal costs — returns, and its output satisfies the specification at every pixel.
-/
theorem loop_spec (P : Params) (g : List (List PixIn)) (tol : ℚ)
    (hp : ∀ row ∈ g, ∀ x ∈ row, pixHyp P x = true)
    (hflat : P.method = .quadratic → P.variant.fixFlat = false → ∀ row ∈ g, ∀ x ∈ row, flatRefine P x = false)
    (htol : 0 ≤ tol)
    (hnt : P.method = .vfit → tiny ≤ tol ∨ ∀ row ∈ g, ∀ x ∈ row, notTinyCosts x.costs = true) :
    ∃ o, loopRefinement P g = .ok o ∧ specGrid P g o tol = true := by
  have hpix : ∀ row ∈ g, ∀ x ∈ row, ∃ o, refinePixel P x = .ok o ∧ specOK P x o tol = true := by
    intro row hrow x hx
    have hnt' : P.method = .vfit → tiny ≤ tol ∨ notTinyCosts x.costs = true := by
      intro hm
      rcases hnt hm with h | h
      · exact Or.inl h
      · exact Or.inr (h row hrow x hx)
    rcases refinePixel_spec P x tol (hp row hrow x hx) htol hnt' with h | ⟨hq, hff, -, d, c, hcls⟩
    · exact h
    · have := hflat hq hff row hrow x hx
      simp [flatRefine, hcls] at this
  have hrows : ∀ row ∈ g, ∃ r, mapRes (refinePixel P) row = .ok r := by
    intro row hrow
    exact mapRes_ok _ row (fun x hx => by obtain ⟨o, ho, -⟩ := hpix row hrow x hx; exact ⟨o, ho⟩)
  obtain ⟨o, ho⟩ := mapRes_ok (mapRes (refinePixel P)) g hrows
  refine ⟨o, ho, ?_⟩
  -- row by row, then pixel by pixel; membership is carried along with the row
  have key : ∀ (rows : List (List PixIn)) (outs : List (List PixOut)),
      (∀ row ∈ rows, row ∈ g) → mapRes (mapRes (refinePixel P)) rows = .ok outs →
      all2 (all2 (fun x y => specOK P x y tol)) rows outs = true := by
    intro rows
    induction rows with
    | nil => intro outs _ h; simp only [mapRes] at h; cases h; rfl
    | cons row rows ih =>
      intro outs hmem h
      simp only [mapRes] at h
      cases hr : mapRes (refinePixel P) row with
      | err e => rw [hr] at h; cases h
      | ok r =>
        rw [hr] at h
        cases hrs : mapRes (mapRes (refinePixel P)) rows with
        | err e => rw [hrs] at h; cases h
        | ok rs =>
          rw [hrs] at h; cases h
          simp only [all2, Bool.and_eq_true]
          refine ⟨?_, ih rs (fun r' hr' => hmem r' (List.mem_cons_of_mem _ hr')) hrs⟩
          have hrow : row ∈ g := hmem row (List.mem_cons_self ..)
          -- pixels of this row
          have keyp : ∀ (xs : List PixIn) (ys : List PixOut), (∀ x ∈ xs, x ∈ row) →
              mapRes (refinePixel P) xs = .ok ys → all2 (fun x y => specOK P x y tol) xs ys = true := by
            intro xs
            induction xs with
            | nil => intro ys _ h; simp only [mapRes] at h; cases h; rfl
            | cons x xs ihx =>
              intro ys hmemx h
              simp only [mapRes] at h
              cases hx : refinePixel P x with
              | err e => rw [hx] at h; cases h
              | ok y =>
                rw [hx] at h
                cases hxs : mapRes (refinePixel P) xs with
                | err e => rw [hxs] at h; cases h
                | ok ys' =>
                  rw [hxs] at h; cases h
                  simp only [all2, Bool.and_eq_true]
                  obtain ⟨o', ho', hs'⟩ := hpix row hrow x (hmemx x (List.mem_cons_self ..))
                  rw [hx] at ho'; cases ho'
                  exact ⟨hs', ihx ys' (fun x' hx' => hmemx x' (List.mem_cons_of_mem _ hx')) hxs⟩
          exact keyp row r (fun x hx => hx) hr
  exact key g o (fun row hrow => hrow) ho

/-- **C06, the whole map, repaired step**: both methods, any flag words, no exception — every map of
    well-formed pixels carrying sample disparities satisfies the specification at every pixel. -/
theorem loop_spec_repaired (P : Params) (g : List (List PixIn)) (tol : ℚ)
    (hV : P.variant = { fixFlat := true, fixOr := true, fixEnds := true })
    (hp : ∀ row ∈ g, ∀ x ∈ row, wfPix P x = true ∧ onGridPix P x = true)
    (htol : 0 ≤ tol)
    (hnt : P.method = .vfit → tiny ≤ tol ∨ ∀ row ∈ g, ∀ x ∈ row, notTinyCosts x.costs = true) :
    ∃ o, loopRefinement P g = .ok o ∧ specGrid P g o tol = true := by
  apply loop_spec P g tol _ _ htol hnt
  · intro row hrow x hx
    obtain ⟨h1, h2⟩ := hp row hrow x hx
    simp [pixHyp, h1, h2, hV]
  · intro _ hff; rw [hV] at hff; cases hff

/-- **`total` for the whole map**: with `vfit`, or with the repaired `quadratic`: any size, any cost
    curves, any flags, disparities on or off the grid (well-formed pixels only) — the step returns. -/
theorem loop_total (P : Params) (g : List (List PixIn)) (hm : P.method = .vfit ∨ P.variant.fixFlat = true)
    (hwf : ∀ row ∈ g, ∀ x ∈ row, wfPix P x = true) : ∃ o, loopRefinement P g = .ok o := by
  apply mapRes_ok
  intro row hrow
  apply mapRes_ok
  intro x hx
  rcases refinePixel_total P x (hwf row hrow x hx) with h | ⟨hq, hff, -⟩
  · exact h
  · rcases hm with hm | hm
    · rw [hm] at hq; cases hq
    · rw [hm] at hff; cases hff

/-! ## Tie to the source, non-vacuity, counterexamples -/

/-- the two constants the model uses are the ones `pandora/constants.py` defines now -/
theorem flags_tied :
    stoppedBit = Generated.Constants.PANDORA_MSK_PIXEL_STOPPED_INTERPOLATION
    ∧ Flags.pixelInvalid = Generated.Constants.PANDORA_MSK_PIXEL_INVALID := by decide

/-- bit 3 of the model is bit 3 -/
theorem stoppedBit_is_bit3 : stoppedBit = 2 ^ 3 := by decide

def exP (m : Method) (isMax : Bool) : Params := { method := m, isMax := isMax, subpix := 2, dmin := -1, dmax := 1 }
def exPix (costs : List Val) (d : Rat) (flag : Nat) : PixIn :=
  { costs := costs, d := .num d, flag := flag, pmin := -1, pmax := 1 }

/-- non-vacuity: a refined pixel (vfit, min), a stopped one, an invalid one satisfy the hypotheses, and
    the theorem's conclusion is the expected concrete output -/
example : pixHyp (exP .vfit false) (exPix [.num 5, .num 4, .num 1, .num 2, .num 7] 0 4) = true
    ∧ classify (exP .vfit false) (exPix [.num 5, .num 4, .num 1, .num 2, .num 7] 0 4) = .refine 0 4 1 2
    ∧ notTinyCosts [.num 5, .num 4, .num 1, .num 2, .num 7] = true
    ∧ refinePixel (exP .vfit false) (exPix [.num 5, .num 4, .num 1, .num 2, .num 7] 0 4)
        = .ok ⟨.num (0 : Rat), .num ((1 : Rat) / 6), 4⟩ := by decide +kernel

example : pixHyp (exP .quadratic true) (exPix [.num 1, .nan, .num 3, .num 2, .num 0] 0 0) = true
    ∧ classify (exP .quadratic true) (exPix [.num 1, .nan, .num 3, .num 2, .num 0] 0 0) = .neighbourNan
    ∧ flatRefine (exP .quadratic true) (exPix [.num 1, .nan, .num 3, .num 2, .num 0] 0 0) = false := by
  decide +kernel

example : pixHyp (exP .quadratic false) (exPix [.num 6, .num 3, .num 1, .num 2, .num 0] 0 2048) = true
    ∧ flatRefine (exP .quadratic false) (exPix [.num 6, .num 3, .num 1, .num 2, .num 0] 0 2048) = false
    ∧ refinePixel (exP .quadratic false) (exPix [.num 6, .num 3, .num 1, .num 2, .num 0] 0 2048)
        = .ok ⟨.num ((23 : Rat) / 24), .num ((1 : Rat) / 12), 2048⟩ := by
  decide +kernel

/-- **C06-F2** (clause `total` is false of the code): `quadratic` on three equal costs raises, on a
    pixel that satisfies every hypothesis of `refinePixel_spec`. -/
theorem quadratic_flat_counterexample :
    pixHyp (exP .quadratic false) (exPix [.num 3, .num 1, .num 1, .num 1, .num 3] 0 0) = true
    ∧ refinePixel (exP .quadratic false) (exPix [.num 3, .num 1, .num 1, .num 1, .num 3] 0 0) = .err .zeroDivision := by
  decide +kernel

/-- **C06-F4** (clauses `stopped_iff`, `only_bit3`): bit 3 already raised, the pixel stops again, `+=`
    turns 8 into 16: bit 3 cleared, bit 4 raised. -/
theorem bit3_twice_counterexample :
    wfPix (exP .vfit false) (exPix [.num 1, .num 4, .num 5, .num 2, .num 7] (-1) 8) = true
    ∧ onGridPix (exP .vfit false) (exPix [.num 1, .num 4, .num 5, .num 2, .num 7] (-1) 8) = true
    ∧ refinePixel (exP .vfit false) (exPix [.num 1, .num 4, .num 5, .num 2, .num 7] (-1) 8)
        = .ok ⟨.num 1, .num (-1), 16⟩
    ∧ failing (exP .vfit false) (exPix [.num 1, .num 4, .num 5, .num 2, .num 7] (-1) 8) ⟨.num 1, .num (-1), 16⟩ 0
        = ["stopped_iff", "only_bit3"] := by
  decide +kernel

/-- **C06-F3** (clause `stopped_iff`): a disparity strictly between the first two samples designates
    sample 0 — an end of the interval — but is refined, with the cost of `dmax` (index -1 wraps around) as
    its left neighbour. -/
theorem offgrid_wraparound_counterexample :
    wfPix (exP .vfit false) (exPix [.num 1, .num 8, .num 3, .num 5, .num 4] (-7/8) 0) = true
    ∧ classify (exP .vfit false) (exPix [.num 1, .num 8, .num 3, .num 5, .num 4] (-7/8) 0) = .atIntervalEnd
    ∧ refinePixel (exP .vfit false) (exPix [.num 1, .num 8, .num 3, .num 5, .num 4] (-7/8) 0)
        = .ok ⟨.num (-1), .num (-7/8 + (-2/7) / 2), 0⟩
    ∧ failing (exP .vfit false) (exPix [.num 1, .num 8, .num 3, .num 5, .num 4] (-7/8) 0)
        ⟨.num (-1), .num (-7/8 + (-2/7) / 2), 0⟩ 0 = ["stopped_iff"] := by
  decide +kernel

/-- **C06-F5** (clause `inside_interval`): a disparity a quarter of a sample below `dmax`, centre and
    right neighbour tied: moved by half a sample, past the end of the interval. -/
theorem offgrid_past_end_counterexample :
    wfPix (exP .vfit false) (exPix [.num 9, .num 9, .num 5, .num 1, .num 1] (7/8) 0) = true
    ∧ refinePixel (exP .vfit false) (exPix [.num 9, .num 9, .num 5, .num 1, .num 1] (7/8) 0)
        = .ok ⟨.num (-1), .num (7/8 + (1/2) / 2), 0⟩
    ∧ failing (exP .vfit false) (exPix [.num 9, .num 9, .num 5, .num 1, .num 1] (7/8) 0)
        ⟨.num (-1), .num (7/8 + (1/2) / 2), 0⟩ 0 = ["inside_interval"] := by
  decide +kernel


/-- the repaired model on the inputs of the four counterexamples: the flat triple is left in place
    without a flag, bit 3 stays bit 3, the off-grid pixel at sample 0 is stopped; the off-grid pixel next
    to `dmax` still leaves the interval (C06-F5 is not repaired by the proposed fixes) -/
def exPfixed (m : Method) : Params :=
  { variant := { fixFlat := true, fixOr := true, fixEnds := true }, method := m, isMax := false, subpix := 2, dmin := -1, dmax := 1 }

theorem repaired_on_counterexamples :
    refinePixel (exPfixed .quadratic) (exPix [.num 3, .num 1, .num 1, .num 1, .num 3] 0 0) = .ok ⟨.num 1, .num 0, 0⟩
    ∧ refinePixel (exPfixed .vfit) (exPix [.num 1, .num 4, .num 5, .num 2, .num 7] (-1) 8) = .ok ⟨.num 1, .num (-1), 8⟩
    ∧ refinePixel (exPfixed .vfit) (exPix [.num 1, .num 8, .num 3, .num 5, .num 4] (-7/8) 0) = .ok ⟨.num 1, .num (-7/8), 8⟩
    ∧ failing (exPfixed .vfit) (exPix [.num 9, .num 9, .num 5, .num 1, .num 1] (7/8) 0)
        ⟨.num (-1), .num (7/8 + (1/2) / 2), 0⟩ 0 = ["inside_interval"] := by
  decide +kernel


/-! ## The source as it is now (`Generated/RefineCC.lean`, regenerated from the source text on every run) -/

/-- the literals of vfit.py / quadratic.py are the ones the model uses: the `1e-15` guard, the clamp to [-1, 1] -/
theorem source_literals :
    tiny = mkRat (Generated.RefineCC.vfitGuardNum : Int) Generated.RefineCC.vfitGuardDen
    ∧ (∀ x : Rat, clamp1 x =
        if x < mkRat Generated.RefineCC.clampLo Generated.RefineCC.clampLoDen
        then mkRat Generated.RefineCC.clampLo Generated.RefineCC.clampLoDen
        else if mkRat Generated.RefineCC.clampHi Generated.RefineCC.clampHiDen < x
        then mkRat Generated.RefineCC.clampHi Generated.RefineCC.clampHiDen else x) := by
  constructor
  · decide +kernel
  · intro x
    have e1 : mkRat Generated.RefineCC.clampLo Generated.RefineCC.clampLoDen = -1 := by decide +kernel
    have e2 : mkRat Generated.RefineCC.clampHi Generated.RefineCC.clampHiDen = 1 := by decide +kernel
    rw [e1, e2]; rfl

/-- which repairs the source carries, read from its text (`+=` or `|=`, the form of the interval-end test,
    the `alpha == 0` guard) -/
def sourceVariant : Variant :=
  { fixFlat := Generated.RefineCC.quadraticFlatGuard, fixOr := Generated.RefineCC.flagUpdateIsOr,
    fixEnds := Generated.RefineCC.endTestOnIndex }

/-- **C06 for the source as it is now**: `refinePixel_spec` at the variant regenerated from the source. -/
theorem source_pixel_spec (P : Params) (x : PixIn) (tol : ℚ) (_hP : P.variant = sourceVariant)
    (hp : pixHyp P x = true) (htol : 0 ≤ tol)
    (hnt : P.method = .vfit → tiny ≤ tol ∨ notTinyCosts x.costs = true) :
    (∃ o, refinePixel P x = .ok o ∧ specOK P x o tol = true) ∨
    (P.method = .quadratic ∧ P.variant.fixFlat = false ∧ refinePixel P x = .err .zeroDivision
      ∧ ∃ d c, classify P x = .refine d c c c) :=
  refinePixel_spec P x tol hp htol hnt

end Pandora.C06
