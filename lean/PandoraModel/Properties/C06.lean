/- C06 — theorems (placeholder until the property is built). -/
