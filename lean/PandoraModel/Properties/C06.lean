/- C06 — theorems (work in progress). -/
import PandoraModel.Model.Refinement
import PandoraModel.Properties.Flags

namespace Pandora.C06
open Pandora Pandora.Refinement

theorem clamp1_le (x : Rat) : clamp1 x ≤ 1 := by
  unfold clamp1
  split
  · decide +kernel
  · split
    · exact Rat.le_refl
    · rename_i h1 h2; exact Rat.not_lt.mp h2

end Pandora.C06
