/-
  C10 ∘ C12 — `median_for_intervals` as one step: C10's filter and flag model with C12's model of
  `interval_regularization` as the producer of the regularised bands and of `mask_regularization`
  (`Model/FilterIntervals.lean`).  `DESIGN_NOTES/C10.md` used `interval_regularization` as a primitive
  ("its mask is an input of the flag model"); here the mask is the one C12's model computes.

  For every image size, filter size, block split (offsets at the radius), ambiguity map, threshold,
  kernel, depth, and every validity mask:

    `intervals_noreg`               without regularisation: the two bands are the medians, the mask is untouched
    `intervals_bands_median`        the bands handed to the regularisation satisfy C10's per-cell median
                                    specification (`medianBand_spec`)
    `intervals_flags`               with regularisation, away from the rewritten border: the mask is
                                    `flag |= bit 11` exactly on `mask_regularization` = the pixels of the
                                    low-confidence segments of C12's model (`inSegments`), `flagSpec` holds,
    `intervals_bit11_iff`           bit 11 after ⇔ bit 11 before ∨ the pixel lies in a segment,
    `intervals_bit11_lowConfidence` … i.e. (threshold ≤ 1) its confidence flag is `false`: the sliding minimum of
                                    the confidence from ambiguity is below the threshold (`IntervalRuns.inSegments_iff`),
    `intervals_other_bits`, `intervals_validity`   every other bit and the validity are unchanged,
    `intervals_border`              with `offset_row_col > 0` the border carries bit 0 only
    `regularization_frame`          a pixel outside every segment keeps both bounds (C12's fold writes inside
                                    the segments only) — hence
    `changed_implies_flagged`       **every pixel whose bound the regularisation changed carries bit 11**;
    `flagged_unchanged_example`     the converse is false (a flagged pixel whose bounds did not move): bit 11
                                    marks the *segments*, not the changed pixels
    `intervals_widen`               C12's `quantile1_widens` carried to the filter step: with quantile 1 the
                                    final interval contains the median-filtered one at every pixel
    `intervals_twice_flags`         applying the step twice leaves the mask of one application (the segments
                                    depend on the ambiguity band only; `|=` is idempotent)
-/
import PandoraModel.Model.FilterIntervals
import PandoraModel.Properties.C10
import PandoraModel.Lemmas.C12Regul
import PandoraModel.Lemmas.IntervalRuns

namespace Pandora.C10C12
open Pandora Pandora.Filter Pandora.Confidence Pandora.FilterIntervals

/-! ### 0. Grids and arrays -/

theorem cell?_toGrid (ny nx : Nat) (img : Img) (r c : Nat) (hr : r < ny) (hc : c < nx) :
    C12.cell? (toGrid ny nx img) r c = some (img r c) := by
  simp [C12.cell?, toGrid, hr, hc]

theorem ofGrid_of_cell? {g : Grid Val} {r c : Nat} {v : Val} (h : C12.cell? g r c = some v) : ofGrid g r c = v := by
  unfold C12.cell? at h
  cases hg : g[r]? with
  | none => rw [hg] at h; cases h
  | some row =>
    rw [hg] at h
    simp only [Option.bind_some] at h
    simp [ofGrid, cell, List.getD_eq_getElem?_getD, hg, h]

/-! ### 1. C12's fold writes inside the segments only -/

theorem foldl_frame (segs : List (Pos × Pos)) (x1 x2 : (Pos × Pos) × List Bool → Val) (r c : Nat)
    (hout : inSegments segs r c = false) :
    ∀ (todo : List ((Pos × Pos) × List Bool)), (∀ sg ∈ todo, sg.1 ∈ segs) → ∀ (acc : Grid Val × Grid Val),
      C12.cell? (todo.foldl (fun (acc : Grid Val × Grid Val) (sg : (Pos × Pos) × List Bool) =>
          (setRange acc.1 sg.1.1.1 sg.1.1.2 sg.1.2.2 (x1 sg), setRange acc.2 sg.1.1.1 sg.1.1.2 sg.1.2.2 (x2 sg))) acc).1 r c
        = C12.cell? acc.1 r c ∧
      C12.cell? (todo.foldl (fun (acc : Grid Val × Grid Val) (sg : (Pos × Pos) × List Bool) =>
          (setRange acc.1 sg.1.1.1 sg.1.1.2 sg.1.2.2 (x1 sg), setRange acc.2 sg.1.1.1 sg.1.1.2 sg.1.2.2 (x2 sg))) acc).2 r c
        = C12.cell? acc.2 r c := by
  intro todo
  induction todo with
  | nil => intro _ acc; exact ⟨rfl, rfl⟩
  | cons sg rest ih =>
    intro hmem acc
    rw [List.foldl_cons]
    obtain ⟨h1, h2⟩ := ih (fun s hs => hmem s (by simp [hs])) _
    rw [h1, h2]
    have hnot : ¬ (r = sg.1.1.1 ∧ sg.1.1.2 ≤ c ∧ c ≤ sg.1.2.2) := by
      intro ⟨e1, e2, e3⟩
      have hin := hmem sg (by simp)
      simp only [inSegments, List.any_eq_false, Bool.and_eq_true, decide_eq_true_eq, not_and] at hout
      exact hout sg.1 hin ⟨e1.symm, e2⟩ e3
    simp only [C12.cell?_setRange, hnot, if_false]
    constructor <;> (cases C12.cell? _ r c <;> rfl)

/-- **frame of the regularisation**: a pixel outside every segment keeps both bounds -/
theorem graphRegularization_frame (inf sup : Grid Val) (segs : List (Pos × Pos)) (graph : List (List Bool)) (q : Rat)
    (r c : Nat) (hout : inSegments segs r c = false) :
    C12.cell? (graphRegularization inf sup segs graph q).1 r c = C12.cell? inf r c ∧
    C12.cell? (graphRegularization inf sup segs graph q).2 r c = C12.cell? sup r c := by
  have h := foldl_frame segs (fun sg => nanQuantile (aggValues inf segs sg.2) (1 - q))
    (fun sg => nanQuantile (aggValues sup segs sg.2) q) r c hout (segs.zip graph)
    (fun sg hsg => (List.of_mem_zip (a := sg.1) (b := sg.2) hsg).1) (inf, sup)
  exact h

theorem regularization_frame (inf sup amb : Grid Val) (thr : Rat) (k depth : Nat) (q : Rat) (r c : Nat)
    (hout : inSegments (segments thr k amb) r c = false) :
    C12.cell? (intervalRegularization inf sup amb thr k depth q).1 r c = C12.cell? inf r c ∧
    C12.cell? (intervalRegularization inf sup amb thr k depth q).2 r c = C12.cell? sup r c := by
  unfold intervalRegularization
  exact graphRegularization_frame inf sup _ _ q r c hout

/-! ### 2. The step -/

section Step
variable (s : Blocks.Split) (off : Nat) (cfg : Cfg) (ny nx : Nat) (inf sup amb : Img) (flags : Nat → Nat → Nat)

/-- the result of the step with the documented bit -/
abbrev step : Out := medianForIntervals s Flags.intervalRegularized off cfg ny nx inf sup amb flags

/-- the segments of the low-confidence zones of the ambiguity band -/
abbrev segs : List (Pos × Pos) := segments cfg.thr cfg.kernel (toGrid ny nx amb)

/-- **without regularisation** the two bands are their medians and the mask is untouched -/
theorem intervals_noreg (h : cfg.regularization = false) :
    (step s off cfg ny nx inf sup amb flags).inf = medianFilter s cfg.fs ny nx inf ∧
    (step s off cfg ny nx inf sup amb flags).sup = medianFilter s cfg.fs ny nx sup ∧
    (step s off cfg ny nx inf sup amb flags).flags = flags := by
  simp [medianForIntervals, h]

/-- the bands the regularisation receives (the final bands when there is no regularisation) satisfy C10's
    per-cell specification of the median filter, "valid" meaning "not NaN in the band" -/
theorem intervals_bands_median (hy : s.beginY = cfg.fs / 2) (hx : s.beginX = cfg.fs / 2) (hodd : cfg.fs % 2 = 1)
    (hny : cfg.fs ≤ ny) (hnx : cfg.fs ≤ nx) (r c : Nat) :
    medianCellSpec inf cfg.fs ny nx r c (inf r c) (medianFilter s cfg.fs ny nx inf r c) = true ∧
    medianCellSpec sup cfg.fs ny nx r c (sup r c) (medianFilter s cfg.fs ny nx sup r c) = true :=
  ⟨C10.medianBand_spec s cfg.fs ny nx inf hy hx hodd hny hnx r c,
   C10.medianBand_spec s cfg.fs ny nx sup hy hx hodd hny hnx r c⟩

/-- `mask_regularization` of the step is C12's segments -/
theorem intervals_regMask (h : cfg.regularization = true) :
    (step s off cfg ny nx inf sup amb flags).regMask = inSegments (segs cfg ny nx amb) := by
  simp [medianForIntervals, h]

/-- **the mask after a regularising step**, at a pixel `mask_border` does not rewrite: the flag with bit 11
    or-ed in exactly when the pixel lies in a segment of C12's model -/
theorem intervals_flags (h : cfg.regularization = true) (r c : Nat)
    (hb : off = 0 ∨ FlagSteps.inBorder ny nx off r c = false) :
    (step s off cfg ny nx inf sup amb flags).flags r c =
      regularizeFlags Flags.intervalRegularized (inSegments (segs cfg ny nx amb)) flags r c := by
  simp only [medianForIntervals, h, if_true]
  rcases hb with h0 | hnb
  · simp [h0]
  · by_cases ho : off > 0
    · simp [ho, maskBorder, hnb]
    · simp [ho]

/-- C10's `bit11_only` for the composed step -/
theorem intervals_flagSpec (h : cfg.regularization = true) (r c : Nat)
    (hb : off = 0 ∨ FlagSteps.inBorder ny nx off r c = false) :
    flagSpec Flags.intervalRegularized (flags r c) ((step s off cfg ny nx inf sup amb flags).flags r c) true = true := by
  rw [intervals_flags s off cfg ny nx inf sup amb flags h r c hb]
  exact C10.regularize_flagSpec _ _ _ r c

/-- **bit 11 after the step ⇔ it was set before, or the pixel lies in a low-confidence segment** -/
theorem intervals_bit11_iff (h : cfg.regularization = true) (r c : Nat)
    (hb : off = 0 ∨ FlagSteps.inBorder ny nx off r c = false) :
    ((step s off cfg ny nx inf sup amb flags).flags r c).testBit 11 =
      ((flags r c).testBit 11 || inSegments (segs cfg ny nx amb) r c) := by
  rw [intervals_flags s off cfg ny nx inf sup amb flags h r c hb]
  unfold regularizeFlags
  have h11 : Flags.intervalRegularized = 2 ^ 11 := by decide
  cases inSegments (segs cfg ny nx amb) r c
  · simp
  · simp only [if_true, Bool.or_true]
    rw [Nat.testBit_or, h11, Nat.testBit_two_pow]
    simp

/-- the row of the ambiguity band the regularisation reads -/
def ambRow (nx : Nat) (amb : Img) (r : Nat) : List Val := (List.range nx).map fun c => amb r c

/-- **bit 11, declaratively** (`ambiguity_threshold ≤ 1`, which the schema enforces): after a regularising
    step a pixel carries bit 11 iff it carried it before, or its confidence flag is `false` — the minimum of the
    confidence-from-ambiguity over the `ambiguity_kernel_size` window around it (row padded with ones) is below
    the threshold, the last column excepted (`Lemmas/IntervalRuns.lean`: the segments of C12's model are
    exactly the runs of `false` flags) -/
theorem intervals_bit11_lowConfidence (h : cfg.regularization = true) (hthr : cfg.thr ≤ 1) (r c : Nat) (hr : r < ny)
    (hb : off = 0 ∨ FlagSteps.inBorder ny nx off r c = false) :
    ((step s off cfg ny nx inf sup amb flags).flags r c).testBit 11 = true ↔
      ((flags r c).testBit 11 = true ∨ (confidentFlags cfg.thr cfg.kernel (ambRow nx amb r))[c]? = some false) := by
  rw [intervals_bit11_iff s off cfg ny nx inf sup amb flags h r c hb, Bool.or_eq_true,
    IntervalRuns.inSegments_iff cfg.thr cfg.kernel (toGrid ny nx amb) hthr r c]
  have hrow : (toGrid ny nx amb)[r]? = some (ambRow nx amb r) := by simp [toGrid, ambRow, hr]
  constructor
  · rintro (h1 | ⟨row, h2, h3⟩)
    · exact Or.inl h1
    · rw [hrow] at h2; cases h2; exact Or.inr h3
  · rintro (h1 | h3)
    · exact Or.inl h1
    · exact Or.inr ⟨_, hrow, h3⟩

/-- every other bit of the mask is unchanged -/
theorem intervals_other_bits (h : cfg.regularization = true) (r c : Nat)
    (hb : off = 0 ∨ FlagSteps.inBorder ny nx off r c = false) (i : Nat) (hi : i ≠ 11) :
    ((step s off cfg ny nx inf sup amb flags).flags r c).testBit i = (flags r c).testBit i := by
  rw [intervals_flags s off cfg ny nx inf sup amb flags h r c hb]
  unfold regularizeFlags
  cases inSegments (segs cfg ny nx amb) r c
  · simp
  · simp only [if_true]
    exact C10.regularize_other_bits _ i hi

/-- whether the pixel is invalid is unchanged -/
theorem intervals_validity (h : cfg.regularization = true) (r c : Nat)
    (hb : off = 0 ∨ FlagSteps.inBorder ny nx off r c = false) :
    Flags.isInvalid ((step s off cfg ny nx inf sup amb flags).flags r c) = Flags.isInvalid (flags r c) := by
  rw [intervals_flags s off cfg ny nx inf sup amb flags h r c hb]
  unfold regularizeFlags
  cases inSegments (segs cfg ny nx amb) r c
  · simp
  · simp only [if_true]
    exact C10.regularize_validity _

/-- with `offset_row_col > 0` the border pixels carry `PANDORA_MSK_PIXEL_LEFT_NODATA_OR_BORDER` only -/
theorem intervals_border (h : cfg.regularization = true) (r c : Nat) (ho : off > 0)
    (hb : FlagSteps.inBorder ny nx off r c = true) :
    (step s off cfg ny nx inf sup amb flags).flags r c = Flags.leftNodataOrBorder := by
  simp [medianForIntervals, h, ho, maskBorder, hb]

/-- outside the segments the final bands are the median-filtered bands -/
theorem intervals_frame (h : cfg.regularization = true) (r c : Nat) (hr : r < ny) (hc : c < nx)
    (hout : inSegments (segs cfg ny nx amb) r c = false) :
    (step s off cfg ny nx inf sup amb flags).inf r c = medianFilter s cfg.fs ny nx inf r c ∧
    (step s off cfg ny nx inf sup amb flags).sup r c = medianFilter s cfg.fs ny nx sup r c := by
  simp only [medianForIntervals, h, if_true]
  obtain ⟨h1, h2⟩ := regularization_frame (toGrid ny nx (medianFilter s cfg.fs ny nx inf))
    (toGrid ny nx (medianFilter s cfg.fs ny nx sup)) (toGrid ny nx amb) cfg.thr cfg.kernel cfg.depth cfg.quantile r c hout
  rw [cell?_toGrid ny nx _ r c hr hc] at h1 h2
  exact ⟨ofGrid_of_cell? h1, ofGrid_of_cell? h2⟩

/-- **every pixel whose bound the regularisation changed is in `mask_regularization`** — and therefore
    carries bit 11 (`intervals_bit11_iff`) -/
theorem changed_implies_flagged (h : cfg.regularization = true) (r c : Nat) (hr : r < ny) (hc : c < nx)
    (hch : (step s off cfg ny nx inf sup amb flags).inf r c ≠ medianFilter s cfg.fs ny nx inf r c ∨
           (step s off cfg ny nx inf sup amb flags).sup r c ≠ medianFilter s cfg.fs ny nx sup r c) :
    (step s off cfg ny nx inf sup amb flags).regMask r c = true := by
  rw [intervals_regMask s off cfg ny nx inf sup amb flags h]
  cases hs : inSegments (segs cfg ny nx amb) r c with
  | true => rfl
  | false =>
    obtain ⟨h1, h2⟩ := intervals_frame s off cfg ny nx inf sup amb flags h r c hr hc hs
    rcases hch with e | e
    · exact absurd h1 e
    · exact absurd h2 e

theorem changed_implies_bit11 (h : cfg.regularization = true) (r c : Nat) (hr : r < ny) (hc : c < nx)
    (hb : off = 0 ∨ FlagSteps.inBorder ny nx off r c = false)
    (hch : (step s off cfg ny nx inf sup amb flags).inf r c ≠ medianFilter s cfg.fs ny nx inf r c ∨
           (step s off cfg ny nx inf sup amb flags).sup r c ≠ medianFilter s cfg.fs ny nx sup r c) :
    ((step s off cfg ny nx inf sup amb flags).flags r c).testBit 11 = true := by
  have hm := changed_implies_flagged s off cfg ny nx inf sup amb flags h r c hr hc hch
  rw [intervals_regMask s off cfg ny nx inf sup amb flags h] at hm
  rw [intervals_bit11_iff s off cfg ny nx inf sup amb flags h r c hb, hm, Bool.or_true]

/-- **C12's `quantile1_widens` carried to the filter step**: with `quantile_regularization = 1` (or without
    regularisation) every finite median-filtered lower bound stays finite and does not increase, every
    finite median-filtered upper bound stays finite and does not decrease — the final interval of a pixel
    contains the median-filtered one -/
theorem intervals_widen (hq : cfg.regularization = true → cfg.quantile = 1) (r c : Nat) (hr : r < ny) (hc : c < nx) :
    (∀ a, medianFilter s cfg.fs ny nx inf r c = .num a →
      ∃ a', (step s off cfg ny nx inf sup amb flags).inf r c = .num a' ∧ a' ≤ a) ∧
    (∀ a, medianFilter s cfg.fs ny nx sup r c = .num a →
      ∃ a', (step s off cfg ny nx inf sup amb flags).sup r c = .num a' ∧ a ≤ a') := by
  by_cases h : cfg.regularization = true
  · have hq1 := hq h
    simp only [medianForIntervals, h, if_true, hq1]
    obtain ⟨w1, w2⟩ := C12.intervalRegularization_widens (toGrid ny nx (medianFilter s cfg.fs ny nx inf))
      (toGrid ny nx (medianFilter s cfg.fs ny nx sup)) (toGrid ny nx amb) cfg.thr cfg.kernel cfg.depth
    constructor
    · intro a ha
      obtain ⟨a', h1, hle⟩ := w1 r c a (by rw [cell?_toGrid ny nx _ r c hr hc, ha])
      exact ⟨a', ofGrid_of_cell? h1, hle⟩
    · intro a ha
      obtain ⟨a', h1, hle⟩ := w2 r c a (by rw [cell?_toGrid ny nx _ r c hr hc, ha])
      exact ⟨a', ofGrid_of_cell? h1, hle⟩
  · have h' : cfg.regularization = false := by simpa using h
    simp only [medianForIntervals, h', Bool.false_eq_true, if_false]
    exact ⟨fun a ha => ⟨a, ha, le_refl _⟩, fun a ha => ⟨a, ha, le_refl _⟩⟩

/-- **applying the step twice leaves the mask of one application**: the second application sees the same
    ambiguity band, hence the same segments; `|=` is idempotent (C10's `regularize_idempotent`) and so is
    `mask_border` -/
theorem intervals_twice_flags :
    (medianForIntervals s Flags.intervalRegularized off cfg ny nx
        (step s off cfg ny nx inf sup amb flags).inf (step s off cfg ny nx inf sup amb flags).sup amb
        (step s off cfg ny nx inf sup amb flags).flags).flags =
      (step s off cfg ny nx inf sup amb flags).flags := by
  by_cases h : cfg.regularization = true
  · simp only [medianForIntervals, h, if_true]
    by_cases ho : off > 0
    · simp only [ho, if_true]
      funext r c
      simp only [maskBorder]
      by_cases hb : FlagSteps.inBorder ny nx off r c = true
      · simp [hb]
      · have hb' : FlagSteps.inBorder ny nx off r c = false := by simpa using hb
        simp only [hb', Bool.false_eq_true, if_false, regularizeFlags, maskBorder]
        cases inSegments (segments cfg.thr cfg.kernel (toGrid ny nx amb)) r c <;> simp [Nat.or_assoc]
    · simp only [ho, if_false]
      exact C10.regularize_idempotent _ _ _
  · have h' : cfg.regularization = false := by simpa using h
    simp [medianForIntervals, h']

end Step

/-! ### 3. Non-vacuity, and the converse that does not hold -/

def gridImg (g : List (List Rat)) : Img := fun r c => .num ((g.getD r []).getD c 0)

def demoInf : Img := gridImg [[-3, -2, -4, -1, -3, -2], [-2, -2, -2, -5, -1, -2], [-1, -3, -2, -2, -6, -1]]
def demoSup : Img := gridImg [[1, 2, 4, 1, 3, 2], [2, 2, 2, 5, 1, 2], [1, 3, 2, 2, 6, 1]]
/-- confidence from ambiguity: three low-confidence runs (threshold 1/2) -/
def demoAmb : Img := gridImg [[1, 1/4, 1/4, 1, 1, 1], [1, 1, 1, 1/4, 1/4, 1], [1/4, 1, 1, 1, 1, 1]]
/-- a pixel that already carries bit 11 (and bit 3), an occluded pixel inside a segment -/
def demoFlags : Nat → Nat → Nat :=
  fun r c => if r = 0 ∧ c = 1 then 2048 + 8 else if r = 1 ∧ c = 3 then 256 else 0
def demoCfg : Cfg := { fs := 1, regularization := true, thr := 1 / 2, kernel := 1, depth := 0, quantile := 1 }

/-- the segments of C12's model on the scene, and the mask after the step: bit 11 or-ed in on the three
    segments (2056 stays 2056, the occluded pixel becomes 2304), nothing else -/
example :
    segs demoCfg 3 6 demoAmb = [((0, 1), (0, 2)), ((1, 3), (1, 4)), ((2, 0), (2, 0))] ∧
    Blocks.tabulate 3 6 (step (Generated.Blocks.median 1) 0 demoCfg 3 6 demoInf demoSup demoAmb demoFlags).flags =
      [[0, 2056, 2048, 0, 0, 0], [0, 0, 0, 2304, 2048, 0], [2048, 0, 0, 0, 0, 0]] := by
  decide +kernel

/-- the hypotheses of `intervals_bit11_lowConfidence` on the scene: threshold 1/2 ≤ 1; the confidence flags of
    row 0 (kernel 1: the pixel's own confidence) are `false` exactly on the run of 1/4 -/
example :
    demoCfg.thr ≤ 1 ∧
    confidentFlags demoCfg.thr demoCfg.kernel (ambRow 6 demoAmb 0) = [true, false, false, true, true, true] ∧
    confidentFlags demoCfg.thr 3 (ambRow 6 demoAmb 0) = [false, false, false, false, true, true] := by
  decide +kernel

/-- the hypotheses of `changed_implies_bit11` are satisfiable: at (0, 1) the lower bound moved from −2 to −4 -/
example :
    (step (Generated.Blocks.median 1) 0 demoCfg 3 6 demoInf demoSup demoAmb demoFlags).inf 0 1 = .num (-4) ∧
    medianFilter (Generated.Blocks.median 1) demoCfg.fs 3 6 demoInf 0 1 = .num (-2) ∧
    (step (Generated.Blocks.median 1) 0 demoCfg 3 6 demoInf demoSup demoAmb demoFlags).sup 0 1 = .num 4 := by
  decide +kernel

/-- **the converse of `changed_implies_flagged` is false**: pixel (2, 0) is a segment of its own, its bounds
    are their own minimum and maximum — unchanged — and it is flagged.  Bit 11 marks the low-confidence
    segments, which contain the pixels whose bounds changed; it does not mark exactly those. -/
theorem flagged_unchanged_example :
    (step (Generated.Blocks.median 1) 0 demoCfg 3 6 demoInf demoSup demoAmb demoFlags).inf 2 0 =
      medianFilter (Generated.Blocks.median 1) demoCfg.fs 3 6 demoInf 2 0 ∧
    (step (Generated.Blocks.median 1) 0 demoCfg 3 6 demoInf demoSup demoAmb demoFlags).sup 2 0 =
      medianFilter (Generated.Blocks.median 1) demoCfg.fs 3 6 demoSup 2 0 ∧
    (step (Generated.Blocks.median 1) 0 demoCfg 3 6 demoInf demoSup demoAmb demoFlags).regMask 2 0 = true ∧
    (step (Generated.Blocks.median 1) 0 demoCfg 3 6 demoInf demoSup demoAmb demoFlags).flags 2 0 = 2048 ∧
    demoFlags 2 0 = 0 := by
  decide +kernel

/-- filter size 3, depth 1, `offset_row_col = 1`: the interior segment pixels get bit 11, the border is 1 -/
example :
    Blocks.tabulate 3 6 (step (Generated.Blocks.median 3) 1 { demoCfg with fs := 3, depth := 1 } 3 6
      demoInf demoSup demoAmb demoFlags).flags =
      [[1, 1, 1, 1, 1, 1], [1, 0, 0, 2304, 2048, 1], [1, 1, 1, 1, 1, 1]] := by
  decide +kernel

end Pandora.C10C12
