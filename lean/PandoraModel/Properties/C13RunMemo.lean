/-
  C13 — the memoised evaluation of the composed run (every stage tabulated on the image once and read back:
  `Maps.memo`, `afterTailMemo`, `extRunMemo` of `Model/PipelineRun.lean`, what the driver executes) IS the literal run
  (`afterTail`, `extRunR`, hence `fullRunR` on its chain).

  `MapsEqIn`: two pairs of maps agree on the image.  Every step of the tail maps `MapsEqIn` inputs to `MapsEqIn` outputs
  (`StepReadsInside`): proved for the refinement (any parameters), for the median filter (odd size that fits, block loops
  starting at the radius: C10's identification) and for the bilateral filter (window that fits, block loops starting at
  `w / 2`); for other parameters of the two filters it is a named hypothesis.  The cross-checks read the maps through
  `Blocks.tabulate` only, so that after the tail the two runs are EQUAL (not only equal on the image).
-/
import PandoraModel.Properties.C13RunBool
import PandoraModel.Properties.C13Bilateral

namespace Pandora.C13
open Pandora Pandora.Locality Pandora.MC

/-- the two pairs of maps agree on the `rows × cols` image -/
def MapsEqIn (rows cols : Nat) (a b : Maps) : Prop :=
  ∀ r c, r < rows → c < cols → a.disp r c = b.disp r c ∧ a.flag r c = b.flag r c

theorem MapsEqIn.refl (rows cols : Nat) (a : Maps) : MapsEqIn rows cols a a := fun _ _ _ _ => ⟨rfl, rfl⟩

theorem memo_eqIn (rows cols : Nat) (m : Maps) : MapsEqIn rows cols (Maps.memo rows cols m) m := by
  intro r c hr hc
  exact ⟨tabulate_getD rows cols m.disp .nan r c hr hc, tabulate_getD rows cols m.flag 0 r c hr hc⟩

theorem MapsEqIn.trans {rows cols : Nat} {a b c : Maps} (h1 : MapsEqIn rows cols a b) (h2 : MapsEqIn rows cols b c) :
    MapsEqIn rows cols a c := fun r k hr hk => ⟨(h1 r k hr hk).1.trans (h2 r k hr hk).1, (h1 r k hr hk).2.trans (h2 r k hr hk).2⟩

theorem tabulate_congr {β : Type} (rows cols : Nat) (f g : Nat → Nat → β)
    (h : ∀ r c, r < rows → c < cols → f r c = g r c) : Blocks.tabulate rows cols f = Blocks.tabulate rows cols g := by
  unfold Blocks.tabulate
  apply List.map_congr_left
  intro r hr
  apply List.map_congr_left
  intro c hc
  exact h r c (List.mem_range.1 hr) (List.mem_range.1 hc)

/-- two results of a step: both raise, or both return maps that agree on the image -/
def ResEqIn (rows cols : Nat) : Option Maps → Option Maps → Prop
  | some a, some b => MapsEqIn rows cols a b
  | none, none => True
  | _, _ => False

/-- the step reads its input maps inside the image only -/
def StepReadsInside (K : RunCfg) (x : MC.Input) (R : Nat → Nat → List Val) (s : TailStep) : Prop :=
  ∀ a b, MapsEqIn x.L.rows x.L.cols a b → ResEqIn x.L.rows x.L.cols (tailStep K x R a s) (tailStep K x R b s)

theorem ResEqIn.of_eq (rows cols : Nat) (u : Option Maps) : ResEqIn rows cols u u := by
  cases u with
  | none => trivial
  | some a => exact MapsEqIn.refl rows cols a

/-- **refinement** (any parameters): it reads the maps through `Blocks.tabulate` -/
theorem refine_readsInside (K : RunCfg) (x : MC.Input) (R : Nat → Nat → List Val) (P : Refinement.Params) :
    StepReadsInside K x R (.refine P) := by
  intro a b hab
  have e : tailStep K x R a (.refine P) = tailStep K x R b (.refine P) := by
    unfold tailStep
    rw [tabulate_congr x.L.rows x.L.cols _ (fun r c =>
      (⟨R r c, b.disp r c, b.flag r c, ((x.dminG (r : Int) (c : Int) : Int) : Rat), ((x.dmaxG (r : Int) (c : Int) : Int) : Rat)⟩ :
        Refinement.PixIn)) (fun r c hr hc => by rw [(hab r c hr hc).1, (hab r c hr hc).2])]
  rw [e]
  exact ResEqIn.of_eq _ _ _

theorem eqIn_of_toImg {β : Type} (ny nx : Nat) (u v : Nat → Nat → β) (h : toImg ny nx u = toImg ny nx v) :
    ∀ r c, r < ny → c < nx → u r c = v r c := by
  intro r c hr hc
  have := congrFun h ((r : Int), (c : Int))
  rw [toImg_some _ _ _ r c hr hc, toImg_some _ _ _ r c hr hc] at this
  exact Option.some.inj this

/-- **median filter**, odd size that fits the image, block loops starting at the radius -/
theorem median_readsInside (K : RunCfg) (x : MC.Input) (R : Nat → Nat → List Val) (fs : Nat) (s : Blocks.Split)
    (hy : s.beginY = fs / 2) (hx : s.beginX = fs / 2) (hodd : fs % 2 = 1) (hny : fs ≤ x.L.rows) (hnx : fs ≤ x.L.cols) :
    StepReadsInside K x R (.median fs s) := by
  intro a b hab
  show MapsEqIn _ _ _ _
  intro r c hr hc
  refine ⟨?_, (hab r c hr hc).2⟩
  have ha := medianFilterDisparity_is_medianStep s K.invalidMask fs x.L.rows x.L.cols a.flag a.disp hy hx hodd hny hnx
  have hb := medianFilterDisparity_is_medianStep s K.invalidMask fs x.L.rows x.L.cols b.flag b.disp hy hx hodd hny hnx
  have hz : toImg x.L.rows x.L.cols (zipArr a.disp a.flag) = toImg x.L.rows x.L.cols (zipArr b.disp b.flag) :=
    toImg_congr _ _ _ _ (fun r c hr hc => by unfold zipArr; rw [(hab r c hr hc).1, (hab r c hr hc).2])
  rw [hz, ← hb] at ha
  exact eqIn_of_toImg _ _ _ _ ha r c hr hc

/-- **bilateral filter**, window that fits the image, block loops starting at `w / 2` -/
theorem bilateral_readsInside (K : RunCfg) (x : MC.Input) (R : Nat → Nat → List Val) (wts : Filter.Weights) (w : Nat)
    (s : Blocks.Split) (hy : s.beginY = w / 2) (hx : s.beginX = w / 2) (hw : 0 < w) (hny : w ≤ x.L.rows)
    (hnx : w ≤ x.L.cols) : StepReadsInside K x R (.bilateral wts w s) := by
  intro a b hab
  show MapsEqIn _ _ _ _
  intro r c hr hc
  refine ⟨?_, (hab r c hr hc).2⟩
  have ha := bilateralFilterDisparity_is_bilateralStep s wts K.invalidMask w x.L.rows x.L.cols a.flag a.disp hy hx hw hny hnx
  have hb := bilateralFilterDisparity_is_bilateralStep s wts K.invalidMask w x.L.rows x.L.cols b.flag b.disp hy hx hw hny hnx
  have hz : toImg x.L.rows x.L.cols (zipArr a.disp a.flag) = toImg x.L.rows x.L.cols (zipArr b.disp b.flag) :=
    toImg_congr _ _ _ _ (fun r c hr hc => by unfold zipArr; rw [(hab r c hr hc).1, (hab r c hr hc).2])
  rw [hz, ← hb] at ha
  exact eqIn_of_toImg _ _ _ _ ha r c hr hc

/-- the memoised tail and the literal tail, from starting maps that agree on the image -/
theorem afterTailMemoFrom_eqIn (K : RunCfg) (x : MC.Input) (R : Nat → Nat → List Val) :
    ∀ (tail : List TailStep), (∀ s ∈ tail, StepReadsInside K x R s) → ∀ a b, MapsEqIn x.L.rows x.L.cols a b →
      ResEqIn x.L.rows x.L.cols (afterTailMemoFrom K x R tail a) (afterTailFrom K x R tail b) := by
  intro tail
  induction tail with
  | nil => intro _ a b hab; exact hab
  | cons s rest ih =>
    intro hs a b hab
    have h1 := hs s (List.mem_cons_self ..) a b hab
    unfold afterTailMemoFrom afterTailFrom
    cases ha : tailStep K x R a s with
    | none =>
      cases hb : tailStep K x R b s with
      | none => trivial
      | some b' => rw [ha, hb] at h1; exact h1.elim
    | some a' =>
      cases hb : tailStep K x R b s with
      | none => rw [ha, hb] at h1; exact h1.elim
      | some b' =>
        rw [ha, hb] at h1
        simp only [Option.map_some, Option.bind_some]
        exact ih (fun t ht => hs t (List.mem_cons_of_mem _ ht)) _ _ ((memo_eqIn _ _ a').trans h1)

theorem afterTailMemo_eqIn (K : RunCfg) (x : MC.Input) (R : Nat → Nat → List Val) (tail : List TailStep)
    (hs : ∀ s ∈ tail, StepReadsInside K x R s) :
    ResEqIn x.L.rows x.L.cols (afterTailMemo K x R tail) (afterTail K x R tail) :=
  afterTailMemoFrom_eqIn K x R tail hs _ _ (memo_eqIn _ _ _)

theorem leftDataset_congr (rows cols : Nat) (a b : Maps) (h : MapsEqIn rows cols a b) :
    leftDataset rows cols a = leftDataset rows cols b := by
  unfold leftDataset
  rw [tabulate_congr rows cols a.disp b.disp (fun r c hr hc => (h r c hr hc).1),
    tabulate_congr rows cols a.flag b.flag (fun r c hr hc => (h r c hr hc).2)]

/-- **The memoised run is the literal run**: when every step of the two tails reads its input maps inside the image
    (`refine_readsInside`, `median_readsInside`, `bilateral_readsInside`), `extRunMemo = extRunR` — both cross-checks,
    the filling, left and right, every pixel. -/
theorem extRunMemo_eq (K K' : RunCfg) (tail tail' : List TailStep) (V : CrossCheck.Variant) (CP CP' : CrossCheck.Params)
    (F : FillCfg) (x : MC.Input) (R R' : Nat → Nat → List Val)
    (hs : ∀ s ∈ tail, StepReadsInside K x R s) (hs' : ∀ s ∈ tail', StepReadsInside K' (swapInput x) R' s)
    (hsh : (swapInput x).L.rows = x.L.rows ∧ (swapInput x).L.cols = x.L.cols) :
    extRunMemo K K' tail tail' V CP CP' F x R R' = extRunR K K' tail tail' V CP CP' F x R R' := by
  have h1 := afterTailMemo_eqIn K x R tail hs
  have h2 := afterTailMemo_eqIn K' (swapInput x) R' tail' hs'
  rw [hsh.1, hsh.2] at h2
  unfold extRunMemo extRunR
  cases hA : afterTailMemo K x R tail <;> cases hA' : afterTail K x R tail <;> rw [hA, hA'] at h1 <;>
    cases hB : afterTailMemo K' (swapInput x) R' tail' <;> cases hB' : afterTail K' (swapInput x) R' tail' <;>
    rw [hB, hB'] at h2 <;> first | exact h1.elim | exact h2.elim | rfl | skip
  rename_i A A' B B'
  simp only
  rw [leftDataset_congr _ _ A A' h1, leftDataset_congr _ _ B B' h2]

/-- the tail of `fullRunR` under the hypotheses of `RunOK`: every step reads inside -/
theorem tailOf_readsInside (K : RunCfg) (x : MC.Input) (R : Nat → Nat → List Val) (hmed : K.doMedian = true → MedianOK K x) :
    ∀ s ∈ tailOf K, StepReadsInside K x R s := by
  intro s hs
  unfold tailOf at hs
  simp only [List.mem_append] at hs
  cases hs with
  | inl h =>
    cases hr : K.doRefine <;> rw [hr] at h <;> simp at h
    subst h
    exact refine_readsInside K x R _
  | inr h =>
    cases hm : K.doMedian <;> rw [hm] at h <;> simp at h
    subst h
    have ok := hmed hm
    exact median_readsInside K x R _ _ ok.beginY ok.beginX ok.odd ok.rows ok.cols

end Pandora.C13
