/-
  C13 — vertical flip of the bilateral filter, for an odd window width `w` and spatial weights that are
  symmetric in the row direction (`gauss_spatial_kernel` is: it depends on the squared distance to the centre).

  The kernel `nansum(window * weights) / nansum(weights)` lists the window row-major; on the flipped image the
  rows come bottom-up — a permutation of the cells, and `nansum` does not depend on the order.  The step tests
  the first and last cells of its window (`winIn`), so, like the matching cost, it commutes with the flip on
  images whose domain is a product rows × columns.
-/
import PandoraModel.Properties.C13FlipPipeline

namespace Pandora.C13
open Pandora Pandora.Locality Pandora.Filter

/-- `np.nansum` does not depend on the order -/
theorem nansum_perm {l₁ l₂ : List Val} (h : List.Perm l₁ l₂) : nansum l₁ = nansum l₂ := by
  unfold nansum nums
  exact (h.filterMap _).sum_eq

/-- the spatial weights are the same on rows `i` and `w - 1 - i` -/
def RowSymmetric (wts : Weights) (w : Nat) : Prop :=
  ∀ i j, i < w → j < w → wts.spatial (w - 1 - i) j = wts.spatial i j

/-- **The bilateral kernel on the window listed bottom-up** (odd width, row-symmetric spatial weights). -/
theorem bilateralKernel_flipRows (wts : Weights) (w : Nat) (hodd : w % 2 = 1) (hsym : RowSymmetric wts w)
    (win : Nat → Nat → Val) :
    bilateralKernel wts w (w / 2) (fun i j => win (w - 1 - i) j) = bilateralKernel wts w (w / 2) win := by
  have hc : w - 1 - w / 2 = w / 2 := by omega
  have e1 : (cells w).map (cellWeight wts (fun i j => win (w - 1 - i) j) (win (w / 2) (w / 2)))
      = ((cells w).map (fun p => (w - 1 - p.1, p.2))).map (cellWeight wts win (win (w / 2) (w / 2))) := by
    rw [List.map_map]
    apply List.map_congr_left
    intro p hp
    have := (C10.mem_cells w p.1 p.2).1 hp
    simp only [Function.comp, cellWeight]
    rw [hsym p.1 p.2 this.1 this.2]
  have e2 : (cells w).map (fun p => (fun i j => win (w - 1 - i) j) p.1 p.2
        * cellWeight wts (fun i j => win (w - 1 - i) j) (win (w / 2) (w / 2)) p)
      = ((cells w).map (fun p => (w - 1 - p.1, p.2))).map
          (fun p => win p.1 p.2 * cellWeight wts win (win (w / 2) (w / 2)) p) := by
    rw [List.map_map]
    apply List.map_congr_left
    intro p hp
    have := (C10.mem_cells w p.1 p.2).1 hp
    simp only [Function.comp, cellWeight]
    rw [hsym p.1 p.2 this.1 this.2]
  have p1 := nansum_perm ((cells_flipRows_perm w).map (cellWeight wts win (win (w / 2) (w / 2))))
  have p2 := nansum_perm ((cells_flipRows_perm w).map
    (fun p => win p.1 p.2 * cellWeight wts win (win (w / 2) (w / 2)) p))
  unfold bilateralKernel
  simp only [hc]
  simp only at e2
  rw [e1, e2, p1, p2]

theorem winIn_vflip (w : Nat) (hodd : w % 2 = 1) (a : Locality.Img (Val × Nat)) (ha : RectDom a) (p : Px) :
    winIn w (vflip a) p ↔ winIn w a (-p.1, p.2) := by
  obtain ⟨Rr, Cc, h⟩ := ha
  have hc : w - 1 - w / 2 = w / 2 := by omega
  unfold winIn vflip
  simp only [h, hc]
  have e1 : -(p.1 - ((w / 2 : Nat) : Int)) = -p.1 + ((w / 2 : Nat) : Int) := by omega
  have e2 : -(p.1 + ((w / 2 : Nat) : Int)) = -p.1 - ((w / 2 : Nat) : Int) := by omega
  rw [e1, e2]
  constructor
  · rintro ⟨⟨a1, a2⟩, b1, b2⟩
    exact ⟨⟨b1, a2⟩, a1, b2⟩
  · rintro ⟨⟨a1, a2⟩, b1, b2⟩
    exact ⟨⟨b1, a2⟩, a1, b2⟩

/-- **The bilateral filter of odd width with row-symmetric spatial weights commutes with the flip** on
    images whose domain is a product rows × columns. -/
theorem bilateralStep_vflip (wts : Weights) (invalidMask w : Nat) (hodd : w % 2 = 1) (hsym : RowSymmetric wts w) :
    VFlipOn (bilateralStep wts invalidMask w) := by
  intro a ha
  funext p
  unfold bilateralStep
  show ((a (-p.1, p.2)).map fun x => _) = ((a (-p.1, p.2)).map fun x => _)
  congr 1
  funext x
  have hw := winIn_vflip w hodd a ha p
  have hk : bilateralKernel wts w (w / 2) (winOf invalidMask w (vflip a) p)
      = bilateralKernel wts w (w / 2) (winOf invalidMask w a (-p.1, p.2)) := by
    rw [← bilateralKernel_flipRows wts w hodd hsym (winOf invalidMask w a (-p.1, p.2))]
    apply bilateralKernel_congr wts w (w / 2) _ _ (by omega)
    intro i j hi hj
    unfold winOf vflip
    simp only
    congr 3
    omega
  by_cases hin : winIn w (vflip a) p
  · rw [if_pos hin, if_pos (hw.1 hin), hk]
  · rw [if_neg hin, if_neg (fun h' => hin (hw.2 h'))]

/-- the pipeline with a filter that commutes with the flip on product domains, the map before the filter
    having a product domain (true when refinement is off or never raises, and the flags are defined on the
    scene) -/
theorem filtStage_vflipOn (C : PipeCfg) {agg : AggStep} (hA : VFlipOn agg)
    {flagL : Img McCell → Img Nat} (hF : VFlipOn flagL) (doRefine : Bool)
    (hdom : ∀ a, RectDom a → RectDom (refineStage C agg flagL doRefine a))
    {filt : Img (Val × Nat) → Img Val} (hM : VFlipOn filt) :
    VFlipOn (filtStage C agg flagL doRefine filt) :=
  VFlipOn.pair (VFlipOn.comp (refineStage_vflip C hA hF doRefine) hdom hM)
    (VFlipOn.map (refineStage_vflip C hA hF doRefine) (fun x => x.2))

/-- **The pipeline with the bilateral filter commutes with the flip.** -/
theorem bilateralStage_vflip (C : PipeCfg) {agg : AggStep} (hA : VFlipOn agg)
    {flagL : Img McCell → Img Nat} (hF : VFlipOn flagL) (doRefine : Bool)
    (hdom : ∀ a, RectDom a → RectDom (refineStage C agg flagL doRefine a))
    (wts : Weights) (w : Nat) (hodd : w % 2 = 1) (hsym : RowSymmetric wts w) :
    VFlipOn (filtStage C agg flagL doRefine (bilateralStep wts C.invalidMask w)) :=
  filtStage_vflipOn C hA hF doRefine hdom (bilateralStep_vflip wts C.invalidMask w hodd hsym)

/-! ### Non-vacuity: weights that depend on the squared distance to the centre of a 3 × 3 window are
    row-symmetric; the array-level statement for any array -/

def exWts : Weights := ⟨fun i j => 1 / (1 + (((i : Int) - 1) * ((i : Int) - 1) + ((j : Int) - 1) * ((j : Int) - 1) : Int)), fun d => 1 / (1 + d * d)⟩

theorem exWts_rowSymmetric : RowSymmetric exWts 3 := by
  intro i j hi hj
  have hi' : i = 0 ∨ i = 1 ∨ i = 2 := by omega
  rcases hi' with rfl | rfl | rfl <;> rfl

example (ny nx : Nat) (data : Nat → Nat → Val × Nat) (p : Px) :
    bilateralStep exWts 1 3 (toImg ny nx (flipArr ny data)) p
      = bilateralStep exWts 1 3 (toImg ny nx data) ((ny : Int) - 1 - p.1, p.2) :=
  flip_run_eq (bilateralStep_equivariant exWts 1 3) (bilateralStep_vflip exWts 1 3 (by decide) exWts_rowSymmetric) ny nx data p

end Pandora.C13
