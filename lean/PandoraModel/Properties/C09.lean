/-
  C09 — The requested disparity interval is honoured and does not leak into costs.

  First half (costs): theorems over the matching-cost model of C02 (`Model/MatchingCost.lean`):
  the cost of a pixel at a disparity does not depend on the other requested disparities.
  Second half (final disparity): proved for the step whose model lives here (winner-takes-all,
  `Model/IntervalWta.lean`); refinement / filters / filling are checked on the implementation only.
-/
import PandoraModel.Properties.C02
import PandoraModel.Lemmas.MCGrid
import PandoraModel.Model.IntervalWta

namespace Pandora.C09
open Pandora Pandora.MC Pandora.IntervalWta

/-- two inputs that differ only by the requested disparities -/
structure SameButGrids (x y : Input) : Prop where
  meas : x.meas = y.meas
  w : x.w = y.w
  sp : x.sp = y.sp
  L : x.L = y.L
  R : x.R = y.R
  mL : x.mL = y.mL
  mR : x.mR = y.mR

/-- the disparity `k/sp` lies in the pixel's own interval -/
def InPixelInterval (x : Input) (r c k : Int) : Prop :=
  x.dminG r c * (x.sp : Int) ≤ k ∧ k ≤ x.dmaxG r c * (x.sp : Int)

/-! ### the specification does not look at the other disparities -/

theorem cause_indep (x y : Input) (h : SameButGrids x y) (r c k : Int)
    (hx : InPixelInterval x r c k) (hy : InPixelInterval y r c k) : cause x r c k = cause y r c k := by
  obtain ⟨h1, h2, h3, h4, h5, h6, h7⟩ := h
  unfold InPixelInterval at hx hy
  unfold cause
  have ex : ¬ (k < x.dminG r c * (x.sp : Int) ∨ k > x.dmaxG r c * (x.sp : Int)) := by omega
  have ey : ¬ (k < y.dminG r c * (y.sp : Int) ∨ k > y.dmaxG r c * (y.sp : Int)) := by omega
  simp only [if_neg ex, if_neg ey]
  simp only [h2, h3, h4, h5, h6, h7]

theorem valueSpec_indep (x y : Input) (h : SameButGrids x y) (r c k : Int) : valueSpec x r c k = valueSpec y r c k := by
  obtain ⟨h1, h2, h3, h4, h5, _, _⟩ := h
  unfold valueSpec
  simp only [h1, h2, h3, h4, h5]

theorem specCell_indep (x y : Input) (h : SameButGrids x y) (r c k : Int)
    (hx : InPixelInterval x r c k) (hy : InPixelInterval y r c k) : specCell x r c k = specCell y r c k := by
  unfold specCell
  rw [cause_indep x y h r c k hx hy, valueSpec_indep x y h r c k]

/-! ### the model does not either -/

theorem specCellWith_indep (x y : Input) (h : SameButGrids x y) (val : Int → Int → Int → Cell) (r c k : Int)
    (hx : InPixelInterval x r c k) (hy : InPixelInterval y r c k) :
    specCellWith val x r c k = specCellWith val y r c k := by
  unfold specCellWith
  rw [cause_indep x y h r c k hx hy]

/-- `cost_indep`: for two runs that differ only by the requested intervals (scalar or per-pixel grids), the
    cost of pixel `(r, c)` at the disparity `k/sp` — sample `jx` of the first volume, `jy` of the second — is the
    same cell, as soon as `k/sp` lies in the pixel's interval in both runs.  `val` is the value function of the
    measure (`valueSpec x` for sad/ssd/zncc, `valueCensusBits x` for census): it does not mention the grids. -/
theorem cost_indep (x y : Input) (h : SameButGrids x y) (hx : Shape x) (hy : Shape y)
    (hgx : gridMin x.dminG x.L.rows x.L.cols ≤ gridMax x.dmaxG x.L.rows x.L.cols)
    (hgy : gridMin y.dminG y.L.rows y.L.cols ≤ gridMax y.dmaxG y.L.rows y.L.cols)
    (val : Int → Int → Int → Cell) (hrx : RawOK x val) (hry : RawOK y val) (r c k : Int) (jx jy : Nat)
    (hjx : jx < nDisp (gridMin x.dminG x.L.rows x.L.cols) (gridMax x.dmaxG x.L.rows x.L.cols) x.sp)
    (hjy : jy < nDisp (gridMin y.dminG y.L.rows y.L.cols) (gridMax y.dmaxG y.L.rows y.L.cols) y.sp)
    (hkx : k = gridMin x.dminG x.L.rows x.L.cols * (x.sp : Int) + jx)
    (hky : k = gridMin y.dminG y.L.rows y.L.cols * (y.sp : Int) + jy)
    (hix : InPixelInterval x r c k) (hiy : InPixelInterval y r c k) :
    costVolume x r c jx = costVolume y r c jy := by
  rw [C02.costVolume_eq_specWith_of_raw x hx val hgx hrx r c jx hjx,
    C02.costVolume_eq_specWith_of_raw y hy val hgy hry r c jy hjy]
  rw [← hkx, ← hky]
  exact specCellWith_indep x y h val r c k hix hiy

/-- `grid_outside_nan`: outside the pixel's own interval the cost is NaN (whatever the measure) -/
theorem outside_pixel_interval_nan (x : Input) (r c : Int) (j : Nat)
    (hout : ¬ InPixelInterval x r c (gridMin x.dminG x.L.rows x.L.cols * (x.sp : Int) + j)) :
    costVolume x r c j = .nan := by
  unfold InPixelInterval at hout
  unfold costVolume intervalMask
  simp only
  rw [if_pos (by omega)]

/-- the input with the scalar interval `[a, b]` (what `add_disparity` builds: two constant grids) -/
def withScalar (x : Input) (a b : Int) : Input := { x with dminG := fun _ _ => a, dmaxG := fun _ _ => b }

theorem sameButGrids_withScalar (x : Input) (a b a' b' : Int) : SameButGrids (withScalar x a b) (withScalar x a' b') :=
  ⟨rfl, rfl, rfl, rfl, rfl, rfl, rfl⟩

theorem shape_withScalar (x : Input) (a b : Int) (h : Shape x) : Shape (withScalar x a b) :=
  ⟨h.odd, h.sp_pos, h.rows_eq, h.cols_eq, h.cols_pos⟩

theorem rawOK_withScalar (x : Input) (a b : Int) (val : Int → Int → Int → Cell) (h : RawOK x val) :
    RawOK (withScalar x a b) val := h

/-- `slice_of_larger`: the volume computed for `[a, b]` is the slice of the volume computed for any larger
    interval `[a', b'] ⊇ [a, b]`: sample `j` of the first is sample `j + (a - a')·sp` of the second. -/
theorem slice_of_larger (x : Input) (h : Shape x) (val : Int → Int → Int → Cell) (hraw : RawOK x val) (hrows : 0 < x.L.rows)
    (a b a' b' : Int) (hab : a ≤ b) (ha : a' ≤ a) (hb : b ≤ b') (r c : Int) (j : Nat)
    (hj : j < nDisp a b x.sp) :
    costVolume (withScalar x a b) r c j = costVolume (withScalar x a' b') r c (j + ((a - a') * (x.sp : Int)).toNat) := by
  have hs := h.sp_pos
  have hs' : (0 : Int) < x.sp := by exact_mod_cast hs
  have hcols := h.cols_pos
  have g1 : gridMin (withScalar x a b).dminG x.L.rows x.L.cols = a := gridMin_const a _ _ hrows hcols
  have g2 : gridMax (withScalar x a b).dmaxG x.L.rows x.L.cols = b := gridMax_const b _ _ hrows hcols
  have g3 : gridMin (withScalar x a' b').dminG x.L.rows x.L.cols = a' := gridMin_const a' _ _ hrows hcols
  have g4 : gridMax (withScalar x a' b').dmaxG x.L.rows x.L.cols = b' := gridMax_const b' _ _ hrows hcols
  have hn1 := nDisp_eq a b x.sp hs hab
  have hn2 := nDisp_eq a' b' x.sp hs (by omega)
  have hnn : 0 ≤ (a - a') * (x.sp : Int) := Int.mul_nonneg (by omega) (le_of_lt hs')
  have hjb : (j : Int) ≤ (b - a) * (x.sp : Int) := by
    have : 0 ≤ (b - a) * (x.sp : Int) := Int.mul_nonneg (by omega) (le_of_lt hs')
    omega
  have hmul1 : (b - a) * (x.sp : Int) = b * x.sp - a * x.sp := by ring
  have hmul2 : (a - a') * (x.sp : Int) = a * x.sp - a' * x.sp := by ring
  have hmul3 : (b' - a') * (x.sp : Int) = b' * x.sp - a' * x.sp := by ring
  have hbb : b * (x.sp : Int) ≤ b' * x.sp := Int.mul_le_mul_of_nonneg_right hb (le_of_lt hs')
  have haa : a' * (x.sp : Int) ≤ a * x.sp := Int.mul_le_mul_of_nonneg_right ha (le_of_lt hs')
  apply cost_indep (withScalar x a b) (withScalar x a' b') (sameButGrids_withScalar x a b a' b')
    (shape_withScalar x a b h) (shape_withScalar x a' b' h) (by show gridMin _ x.L.rows x.L.cols ≤ gridMax _ x.L.rows x.L.cols; rw [g1, g2]; exact hab)
    (by show gridMin _ x.L.rows x.L.cols ≤ gridMax _ x.L.rows x.L.cols; rw [g3, g4]; omega)
    val (rawOK_withScalar x a b val hraw) (rawOK_withScalar x a' b' val hraw) r c (a * (x.sp : Int) + j)
  · show j < nDisp (gridMin (withScalar x a b).dminG x.L.rows x.L.cols) (gridMax (withScalar x a b).dmaxG x.L.rows x.L.cols) x.sp
    rw [g1, g2]; exact hj
  · show j + ((a - a') * (x.sp : Int)).toNat < nDisp (gridMin (withScalar x a' b').dminG x.L.rows x.L.cols) (gridMax (withScalar x a' b').dmaxG x.L.rows x.L.cols) x.sp
    rw [g3, g4, hn2]; omega
  · show a * (x.sp : Int) + j = gridMin (withScalar x a b).dminG x.L.rows x.L.cols * (x.sp : Int) + j
    rw [g1]
  · show a * (x.sp : Int) + j = gridMin (withScalar x a' b').dminG x.L.rows x.L.cols * (x.sp : Int) + ((j + ((a - a') * (x.sp : Int)).toNat : Nat) : Int)
    rw [g3]; push_cast; omega
  · show a * (x.sp : Int) ≤ a * (x.sp : Int) + j ∧ a * (x.sp : Int) + j ≤ b * (x.sp : Int)
    omega
  · show a' * (x.sp : Int) ≤ a * (x.sp : Int) + j ∧ a * (x.sp : Int) + j ≤ b' * (x.sp : Int)
    omega

/-- `grid_inside_same`: per-pixel grids give, inside each pixel's interval, the cost of the scalar run over
    any interval `[a, b]` that contains the pixel's interval -/
theorem grid_inside_same (x : Input) (h : Shape x) (val : Int → Int → Int → Cell) (hraw : RawOK x val) (hrows : 0 < x.L.rows)
    (hg : gridMin x.dminG x.L.rows x.L.cols ≤ gridMax x.dmaxG x.L.rows x.L.cols)
    (a b : Int) (hab : a ≤ b) (r c : Int) (j j' : Nat)
    (hj : j < nDisp (gridMin x.dminG x.L.rows x.L.cols) (gridMax x.dmaxG x.L.rows x.L.cols) x.sp)
    (hj' : j' < nDisp a b x.sp)
    (hk : gridMin x.dminG x.L.rows x.L.cols * (x.sp : Int) + j = a * (x.sp : Int) + j')
    (hin : InPixelInterval x r c (gridMin x.dminG x.L.rows x.L.cols * (x.sp : Int) + j)) :
    costVolume x r c j = costVolume (withScalar x a b) r c j' := by
  have hs := h.sp_pos
  have hs' : (0 : Int) < x.sp := by exact_mod_cast hs
  have hcols := h.cols_pos
  have g1 : gridMin (withScalar x a b).dminG x.L.rows x.L.cols = a := gridMin_const a _ _ hrows hcols
  have g2 : gridMax (withScalar x a b).dmaxG x.L.rows x.L.cols = b := gridMax_const b _ _ hrows hcols
  have hn := nDisp_eq a b x.sp hs hab
  have hnn : 0 ≤ (b - a) * (x.sp : Int) := Int.mul_nonneg (by omega) (le_of_lt hs')
  have hmul : (b - a) * (x.sp : Int) = b * x.sp - a * x.sp := by ring
  apply cost_indep x (withScalar x a b) ⟨rfl, rfl, rfl, rfl, rfl, rfl, rfl⟩ h (shape_withScalar x a b h) hg
    (by show gridMin _ x.L.rows x.L.cols ≤ gridMax _ x.L.rows x.L.cols; rw [g1, g2]; exact hab)
    val hraw (rawOK_withScalar x a b val hraw) r c
    (gridMin x.dminG x.L.rows x.L.cols * (x.sp : Int) + j) j j' hj
  · show j' < nDisp (gridMin (withScalar x a b).dminG x.L.rows x.L.cols) (gridMax (withScalar x a b).dmaxG x.L.rows x.L.cols) x.sp
    rw [g1, g2]; exact hj'
  · rfl
  · show _ = gridMin (withScalar x a b).dminG x.L.rows x.L.cols * (x.sp : Int) + j'
    rw [g1]; exact hk
  · exact hin
  · show a * (x.sp : Int) ≤ _ ∧ _ ≤ b * (x.sp : Int)
    rw [hk]; omega

/-! ### the stored interval is the interval searched -/

/-- `stored_interval`: the first and last disparity coordinates of the cost volume (what
    `disparity_interval` stores) are the global minimum and maximum of the requested interval(s) -/
theorem stored_interval (gmin gmax : Int) (sp : Nat) (hs : 0 < sp) (hg : gmin ≤ gmax) :
    (dispRange gmin gmax sp).head? = some (gmin * (sp : Int)) ∧
    (dispRange gmin gmax sp).getLast? = some (gmax * (sp : Int)) := by
  have hs' : (0 : Int) < sp := by exact_mod_cast hs
  have hnn : 0 ≤ (gmax - gmin) * (sp : Int) := Int.mul_nonneg (by omega) (le_of_lt hs')
  rw [dispRange_eq gmin gmax sp hs hg]
  constructor
  · rw [List.range_succ_eq_map]
    simp
  · rw [List.range_succ, List.map_append]
    simp only [List.map_cons, List.map_nil, List.getLast?_append, List.getLast?_singleton]
    simp only [Option.some_or]
    congr 1
    have : (((gmax - gmin) * (sp : Int)).toNat : Int) = (gmax - gmin) * sp := Int.toNat_of_nonneg hnn
    rw [this]; ring

/-! ### winner-takes-all stays inside the pixel's interval -/

theorem argBest_lt (better : Cell → Cell → Bool) (f : Nat → Ext) (n : Nat) (hn : 0 < n) : argBest better f n < n := by
  induction n using Nat.strongRecOn with
  | _ n ih =>
    match n, hn with
    | 1, _ => simp [argBest]
    | n + 2, _ =>
      simp only [argBest]
      split
      · omega
      · have := ih (n + 1) (by omega) (by omega); omega

/-- if some cost is a number, the cost at the chosen index is a number -/
theorem argBest_fin (better : Cell → Cell → Bool) (f : Nat → Ext) (n : Nat)
    (h : ∃ j, j < n ∧ ∃ c, f j = .fin c) : ∃ c, f (argBest better f n) = .fin c := by
  induction n using Nat.strongRecOn with
  | _ n ih =>
    match n with
    | 0 => obtain ⟨j, hj, _⟩ := h; omega
    | 1 =>
      obtain ⟨j, hj, c, hc⟩ := h
      have : j = 0 := by omega
      subst this
      exact ⟨c, by simpa [argBest] using hc⟩
    | n + 2 =>
      simp only [argBest]
      split
      · rename_i hb
        cases hf : f (n + 1) with
        | fin c => exact ⟨c, rfl⟩
        | worst => rw [hf] at hb; simp [extBetter] at hb
      · rename_i hb
        obtain ⟨j, hj, c, hc⟩ := h
        by_cases hjn : j = n + 1
        · subst hjn
          cases hfb : f (argBest better f (n + 1)) with
          | fin c' => exact ⟨c', rfl⟩
          | worst => rw [hc, hfb] at hb; simp [extBetter] at hb
        · exact ih (n + 1) (by omega) ⟨j, by omega, c, hc⟩

/-- `after_disp_in_pixel_interval`: whatever the measure (any strict order `better`), the index chosen by
    winner-takes-all on the costs of a pixel is a sample of the range with a numeric cost; hence — by
    `outside_pixel_interval_nan` — its disparity lies inside the pixel's own `[min, max]`, and inside the
    global interval. -/
theorem wta_in_pixel_interval (x : Input) (better : Cell → Cell → Bool) (r c : Int) (j : Nat)
    (hw : wta better (fun j => costVolume x r c j)
      (nDisp (gridMin x.dminG x.L.rows x.L.cols) (gridMax x.dmaxG x.L.rows x.L.cols) x.sp) = some j) :
    j < nDisp (gridMin x.dminG x.L.rows x.L.cols) (gridMax x.dmaxG x.L.rows x.L.cols) x.sp ∧
    (costVolume x r c j).isNan = false ∧
    InPixelInterval x r c (gridMin x.dminG x.L.rows x.L.cols * (x.sp : Int) + j) := by
  set n := nDisp (gridMin x.dminG x.L.rows x.L.cols) (gridMax x.dmaxG x.L.rows x.L.cols) x.sp with hn
  unfold wta at hw
  split at hw
  · simp at hw
  · rename_i hall
    simp only [Option.some.injEq] at hw
    -- some cost is a number
    have hex : ∃ i, i < n ∧ ∃ cl, subst (costVolume x r c i) = .fin cl := by
      by_contra hne
      apply hall
      rw [allZ_iff]
      intro i hi
      simp only [zero_add, Int.toNat_natCast]
      by_contra hnn
      apply hne
      refine ⟨i, hi, costVolume x r c i, ?_⟩
      unfold subst
      simp only [Bool.not_eq_true] at hnn
      simp [hnn]
    have hpos : 0 < n := by obtain ⟨i, hi, _⟩ := hex; omega
    have hlt := argBest_lt better (fun j => subst (costVolume x r c j)) n hpos
    obtain ⟨cl, hcl⟩ := argBest_fin better (fun j => subst (costVolume x r c j)) n hex
    rw [hw] at hlt hcl
    have hnum : (costVolume x r c j).isNan = false := by
      unfold subst at hcl
      by_contra hne
      simp only [Bool.not_eq_false] at hne
      simp [hne] at hcl
    refine ⟨hlt, hnum, ?_⟩
    by_contra hout
    have := outside_pixel_interval_nan x r c j hout
    rw [this] at hnum
    simp [Cell.isNan] at hnum

/-- the pixel's own interval lies inside the global one -/
theorem pixel_interval_in_global (x : Input) (r c k : Int) (hr : 0 ≤ r ∧ r < x.L.rows) (hc : 0 ≤ c ∧ c < x.L.cols)
    (h : InPixelInterval x r c k) :
    gridMin x.dminG x.L.rows x.L.cols * (x.sp : Int) ≤ k ∧ k ≤ gridMax x.dmaxG x.L.rows x.L.cols * (x.sp : Int) := by
  have hs' : (0 : Int) ≤ x.sp := by exact_mod_cast (Nat.zero_le _)
  have h1 := Int.mul_le_mul_of_nonneg_right (gridMin_le x.dminG x.L.rows x.L.cols r c hr hc) hs'
  have h2 := Int.mul_le_mul_of_nonneg_right (le_gridMax x.dmaxG x.L.rows x.L.cols r c hr hc) hs'
  unfold InPixelInterval at h
  omega

end Pandora.C09
