/- C09 — theorems (placeholder until the property is built). -/
