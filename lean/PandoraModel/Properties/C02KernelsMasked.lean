/-
  C02 (shared with C04, C09) — the per-cell decisions "this cost becomes NaN" of `AbstractMatchingCost.cv_masked` and
  `masks_dilatation`, REGENERATED from the Python source (`Generated/KernelsCvMasked.lean`, written by
  translator/gen_kernels_cv_masked.py), are the pieces of the matching-cost model:

    (a) `gridOutside_eq`, `gridOutside_iff`   `np.logical_or(disp[dsp] < disp_min, disp[dsp] > disp_max)` at the sample
        `k / sp` against integer bounds is the model's `k < dmin·sp ∨ k > dmax·sp`; for any rational bounds it is
        `d < lo ∨ hi < d` (strict on both sides)
        `intervalMask_isNan`      NaN-ness after the second loop = generated `intervalNanCell`
        `costVolume_nan_of_gridOutside`   C09's `grid_outside_nan` stated on the GENERATED decision: where it holds the
        cost of the model's volume is NaN, whatever the measure
    (b) `iMaskRight_eq`, `cvMaskedStep_isNan`, `cvMaskedStep_other`   one iteration of the first loop, at the plane `dsp`
        of the disparity and elsewhere: the generated guard `p_mask.size > 0`, column membership `p0 ≤ c < p1`, the nested
        guard `q_mask.size > 0`, the left cell at `c` and the right cell at the generated column `q0 + (c − p0)`
    (c) `leftMaskNan_eq`, `rightMaskNan_eq`, `left/rightDilInput_eq`   the dilated mask of each image is NaN where the
        generated predicate says, with THAT image's `valid_pixels` / `no_data_mask`, and the array handed to
        `binary_dilation` is `code = no_data_mask` of that image

  Not proved here: the fold of (b) over the disparities and its composition with (a) into `nan_iff_not_computable`
  (Properties/C04C02.lean proves that about the hand model `cvMaskedStep` / `intervalMask`, which (a)–(c) tie to the source).
-/
import PandoraModel.Model.MatchingCost
import PandoraModel.Model.PyExpr
import PandoraModel.Generated.KernelsCvMasked
import Mathlib.Tactic.Linarith
import Mathlib.Tactic.FieldSimp
import Mathlib.Tactic.SplitIfs
import Mathlib.Algebra.Order.Field.Basic

set_option linter.unusedSimpArgs false
set_option linter.unusedVariables false
set_option linter.unusedTactic false
set_option linter.unreachableTactic false

namespace Pandora.C02KernelsMasked
open Pandora Pandora.MC Pandora.PyExpr
open Pandora.Generated.KernelsCvMasked

/-! ### (a) the interval of the pixel -/

/-- for any rational sample and bounds (fractional bounds included): strictly below the lower or strictly above the upper -/
theorem gridOutside_iff (d lo hi : ℚ) : gridOutside d lo hi = true ↔ (d < lo ∨ hi < d) := by
  unfold gridOutside
  simp only [Bool.or_eq_true, decide_eq_true_eq, gt_iff_lt]
  first
    | done
    | exact Iff.rfl
    | exact or_comm
    | (constructor <;> intro h <;> rcases h with h | h <;> first | exact Or.inl h | exact Or.inr h)

/-- at the sample `k / sp`, against integer bounds, the generated test is the model's integer test -/
theorem gridOutside_eq (k a b : Int) (sp : Nat) (hs : 0 < sp) :
    gridOutside ((k : ℚ) / (sp : ℚ)) (a : ℚ) (b : ℚ) = decide (k < a * (sp : Int) ∨ k > b * (sp : Int)) := by
  have hs' : (0 : ℚ) < (sp : ℚ) := by exact_mod_cast hs
  rw [Bool.eq_iff_iff, gridOutside_iff, decide_eq_true_eq, div_lt_iff₀ hs', lt_div_iff₀ hs']
  constructor
  · rintro (h | h)
    · left; exact_mod_cast h
    · right; exact_mod_cast h
  · rintro (h | h)
    · left; exact_mod_cast h
    · right; exact_mod_cast h

/-- NaN-ness after the second loop of `cv_masked` is the generated per-cell decision -/
theorem intervalMask_isNan (x : Input) (gmin : Int) (cv : Volume) (r c : Int) (j : Nat) (hs : 0 < x.sp) :
    (intervalMask x gmin cv r c j).isNan
      = intervalNanCell (((gmin * (x.sp : Int) + j : Int) : ℚ) / (x.sp : ℚ)) (x.dminG r c : ℚ) (x.dmaxG r c : ℚ) (cv r c j).isNan := by
  have h := gridOutside_eq (gmin * (x.sp : Int) + j) (x.dminG r c) (x.dmaxG r c) x.sp hs
  unfold gridOutside at h
  unfold intervalNanCell intervalMask
  simp only [h]
  by_cases hc : (gmin * (x.sp : Int) + (j : Int) < x.dminG r c * (x.sp : Int) ∨ gmin * (x.sp : Int) + (j : Int) > x.dmaxG r c * (x.sp : Int))
  · simp [hc, Cell.isNan]
  · simp [hc]

/-- **`grid_outside_nan` on the generated decision**: where the generated test of the source says "outside the pixel's own
    interval", the cost of the model's volume is NaN, for every measure, window, mask and grid -/
theorem costVolume_nan_of_gridOutside (x : Input) (r c : Int) (j : Nat) (hs : 0 < x.sp)
    (h : gridOutside (((gridMin x.dminG x.L.rows x.L.cols * (x.sp : Int) + j : Int) : ℚ) / (x.sp : ℚ))
          (x.dminG r c : ℚ) (x.dmaxG r c : ℚ) = true) :
    costVolume x r c j = .nan := by
  rw [gridOutside_eq _ _ _ _ hs, decide_eq_true_eq] at h
  unfold costVolume intervalMask
  simp only
  rw [if_pos h]

/-- … and inside it the second loop leaves the cell alone -/
theorem intervalMask_of_not_gridOutside (x : Input) (gmin : Int) (cv : Volume) (r c : Int) (j : Nat) (hs : 0 < x.sp)
    (h : gridOutside (((gmin * (x.sp : Int) + j : Int) : ℚ) / (x.sp : ℚ)) (x.dminG r c : ℚ) (x.dmaxG r c : ℚ) = false) :
    intervalMask x gmin cv r c j = cv r c j := by
  rw [gridOutside_eq _ _ _ _ hs, decide_eq_false_iff_not] at h
  unfold intervalMask
  simp only
  rw [if_neg h]

/-! ### (b) the masks added per disparity -/

theorem addMask_isNan (c : Cell) (m : Val) : (c.addMask m).isNan = (c.isNan || m.isNan) := by
  cases m <;> cases c <;> rfl

theorem imax_pos (a : Int) : (0 < imax a 0) ↔ 0 < a := by
  unfold imax; split_ifs <;> omega

theorem iMaskRight_eq (i : Nat) : iMaskRight (i : Int) = ((min 1 i : Nat) : Int) := by
  unfold iMaskRight imin
  split_ifs <;> omega

/-- **one iteration of the first loop, at the plane of its disparity**: NaN-ness after = the generated decision, fed with
    the NaN-ness of the left mask at `c` and of the right mask at the generated column -/
theorem cvMaskedStep_isNan (x : Input) (gmin : Int) (cv : Volume) (k r c : Int) :
    ((cvMaskedStep x gmin cv k) r c (k - gmin * (x.sp : Int)).toNat).isNan
      = (cvMaskedNanCell c
          (pointInterval x.L.cols (shiftRight x.R x.sp (iRight k x.sp)).cols k x.sp).p0
          (pointInterval x.L.cols (shiftRight x.R x.sp (iRight k x.sp)).cols k x.sp).p1
          (pointInterval x.L.cols (shiftRight x.R x.sp (iRight k x.sp)).cols k x.sp).q0
          (pointInterval x.L.cols (shiftRight x.R x.sp (iRight k x.sp)).cols k x.sp).q1
          (cv r c (k - gmin * (x.sp : Int)).toNat).isNan
          (maskRaster x.w x.L.rows x.L.cols x.mL r c).isNan
          (maskShift x.w x.R.rows x.R.cols x.mR (min 1 (iRight k x.sp)) r
            (cvMaskedNanCell c
              (pointInterval x.L.cols (shiftRight x.R x.sp (iRight k x.sp)).cols k x.sp).p0
              (pointInterval x.L.cols (shiftRight x.R x.sp (iRight k x.sp)).cols k x.sp).p1
              (pointInterval x.L.cols (shiftRight x.R x.sp (iRight k x.sp)).cols k x.sp).q0
              (pointInterval x.L.cols (shiftRight x.R x.sp (iRight k x.sp)).cols k x.sp).q1 false false false).2).isNan).1 := by
  unfold cvMaskedStep cvMaskedNanCell
  simp only
  generalize pointInterval x.L.cols (shiftRight x.R x.sp (iRight k x.sp)).cols k x.sp = pq
  generalize (cv r c (k - gmin * (x.sp : Int)).toNat) = cell
  generalize maskRaster x.w x.L.rows x.L.cols x.mL r c = ml
  generalize maskShift x.w x.R.rows x.R.cols x.mR (min 1 (iRight k x.sp)) r (pq.q0 + (c - pq.p0)) = mr
  have e1 : (0 < pq.p1 - pq.p0) ↔ pq.p0 < pq.p1 := by omega
  have e2 : (0 < pq.q1 - pq.q0) ↔ pq.q0 < pq.q1 := by omega
  simp only [gt_iff_lt, imax_pos, e1, e2]
  by_cases h1 : pq.p0 < pq.p1 <;> by_cases h2 : pq.p0 ≤ c <;> by_cases h3 : c < pq.p1 <;> by_cases h4 : pq.q0 < pq.q1 <;>
    simp [h1, h2, h3, h4, addMask_isNan, Bool.or_assoc]

/-- … and every other plane is left alone -/
theorem cvMaskedStep_other (x : Input) (gmin : Int) (cv : Volume) (k r c : Int) (j : Nat)
    (hj : j ≠ (k - gmin * (x.sp : Int)).toNat) : (cvMaskedStep x gmin cv k) r c j = cv r c j := by
  unfold cvMaskedStep
  simp only
  rw [if_neg (fun h => hj h.1)]

/-! ### (c) `masks_dilatation`: which convention is read for which image -/

theorem leftDilInput_eq (m vL ndL vR ndR : Int) : leftDilInput m vL ndL vR ndR = decide (m = ndL) := by
  unfold leftDilInput
  first | rfl | (rw [Bool.eq_iff_iff]; simp only [decide_eq_true_eq]; omega)

theorem rightDilInput_eq (m vL ndL vR ndR : Int) : rightDilInput m vL ndL vR ndR = decide (m = ndR) := by
  unfold rightDilInput
  first | rfl | (rw [Bool.eq_iff_iff]; simp only [decide_eq_true_eq]; omega)

/-- the left mask: NaN where the code is neither the LEFT image's `valid_pixels` nor its `no_data_mask`, or the dilation
    of the left nodata cells reaches the pixel — whatever the right image's convention -/
theorem leftMaskNan_eq (w rows cols : Nat) (m : Mask) (hp : m.present = true) (r c : Int) (vR ndR : Int) :
    (maskRaster w rows cols m r c).isNan
      = leftMaskNan (m.code r c) m.valid m.nodata vR ndR (dilated w rows cols m r c) := by
  unfold maskRaster leftMaskNan
  rw [if_pos hp]
  cases hd : dilated w rows cols m r c <;>
    by_cases h1 : m.code r c = m.valid <;> by_cases h2 : m.code r c = m.nodata <;>
    simp [h1, h2, hd, Val.isNan, eq_comm]

/-- the right mask, with the RIGHT image's convention — whatever the left image's -/
theorem rightMaskNan_eq (w rows cols : Nat) (m : Mask) (hp : m.present = true) (r c : Int) (vL ndL : Int) :
    (maskRaster w rows cols m r c).isNan
      = rightMaskNan (m.code r c) vL ndL m.valid m.nodata (dilated w rows cols m r c) := by
  unfold maskRaster rightMaskNan
  rw [if_pos hp]
  cases hd : dilated w rows cols m r c <;>
    by_cases h1 : m.code r c = m.valid <;> by_cases h2 : m.code r c = m.nodata <;>
    simp [h1, h2, hd, Val.isNan, eq_comm]

/-! ### non-vacuity -/
example : gridOutside ((3 : ℚ) / 2) 1 1 = true ∧ gridOutside ((3 : ℚ) / 2) 1 ((3 : ℚ) / 2) = false := by decide +kernel
example : cvMaskedNanCell 2 0 5 1 6 false false true = (true, 3) := by decide +kernel
example : leftMaskNan 9 0 1 5 7 false = true ∧ rightMaskNan 5 0 1 5 7 false = false ∧ rightMaskNan 0 0 1 5 7 false = true := by decide

end Pandora.C02KernelsMasked
