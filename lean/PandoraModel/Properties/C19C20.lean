/-
  C19 ∘ C20 (∘ C05 / C17) — the `margins` entry of the saved configuration is C20's `expectedEntries` /
  `expectedGlobal` of the saved pipeline: a function of the saved pipeline (and of the image shape, which
  the bilateral margin reads) alone.  Hence `cfg/config.json` is a fix-point of `main`.

  `Model/Margins.lean` + `Properties/C20.lean` are about lists of `StepCfg` (name, method, window size,
  filter size, sigma, step) and prove what the machine's `GlobalMargins` holds after `check_conf`, under
  hypotheses on the pipeline (`KnownKinds`, distinct names, starts with the matching cost step, every
  margin non-negative).  `Model/Config.lean` + C05 are about the dictionaries `check_conf` returns.  Here:

    1. the adapter `stepCfgsOf` (checked pipeline dictionary → `List StepCfg`) and the model of
       `GlobalMargins.to_dict()` (`globalToJ`)
    2. what the schemas of the source enforce on the four parameters the margins read
       (`exprLower_sound`, `generated_marginSafe`, `accepted_goodCfg`)
    3. C20's hypotheses, discharged for every pipeline `check_pipeline_section` accepts
       (`accepted_pipeline_facts`): the two models of the check callbacks agree that no `Margins(...)`
       constructor raises on an accepted pipeline (`accepted_margins_defined`)
    4. `saved_margins_expected`   the `margins` entry of the saved configuration = `expectedMarginsJ` of
                                  the saved pipeline; uses `mainFacts.addsMargins` as regenerated
       `margins_shape_independent` without a bilateral filter the image shape is not read
       `main_config_defined`, `main_config_fixpoint`   the file `main` writes exists for every accepted
                                  configuration and, fed back, is written again unchanged
-/
import PandoraModel.Properties.C19C05
import PandoraModel.Properties.C20

namespace Pandora.C19C20
open Pandora Pandora.Config Pandora.Margins Pandora.Save Pandora.SaveConfig Pandora.Generated.Schemas
open Pandora.C19C05

/-! ### 1. Adapter: the checked pipeline as C20's `List StepCfg`; `GlobalMargins.to_dict()` -/

theorem stepCfgOfJ_name (n : String) (v : JVal) : (stepCfgOfJ n v).name = n := by
  cases v <;> rfl

theorem stepCfgsOf_names (M : Dict) : (stepCfgsOf M).map (·.name) = Dict.keys M := by
  simp [stepCfgsOf, Dict.keys, stepCfgOfJ_name]

/-! ### 2. What the schemas enforce on the parameters the margins read -/

/-- the least integer a list of integer literals contains (`none`: empty, or not all integers) -/
def listLower : List JVal → Option Int
  | [] => none
  | [.int a] => some a
  | .int a :: rest =>
    match listLower rest with
    | some b => some (min a b)
    | none => none
  | _ => none

/-- a lower bound a lambda body enforces on its integer argument (recognised forms: `x >= b`, `x > b`,
    `x in (…)`, and any conjunction whose first conjunct is one of these) -/
def exprLower : Expr → Option Int
  | .cmp .ge .var (.lit (.int b)) => some b
  | .cmp .gt .var (.lit (.int b)) => some (b + 1)
  | .isIn .var items => listLower items
  | .and a _ => exprLower a
  | _ => none

theorem listLower_sound : ∀ (items : List JVal) (b : Int), listLower items = some b →
    ∀ it ∈ items, ∃ j, it = .int j ∧ b ≤ j := by
  intro items
  induction items with
  | nil => intro b h; simp [listLower] at h
  | cons x rest ih =>
    intro b h it hit
    cases x with
    | int a =>
      cases rest with
      | nil =>
        simp only [listLower, Option.some.injEq] at h
        simp only [List.mem_cons, List.not_mem_nil, or_false] at hit
        exact ⟨a, hit, by omega⟩
      | cons y ys =>
        simp only [listLower] at h
        cases hr : listLower (y :: ys) with
        | none => simp [hr] at h
        | some b' =>
          simp only [hr, Option.some.injEq] at h
          rcases List.mem_cons.1 hit with e | e
          · exact ⟨a, e, by omega⟩
          · obtain ⟨j, hj, hle⟩ := ih b' hr it e
            exact ⟨j, hj, by omega⟩
    | _ => simp [listLower] at h

theorem numOf_int {v : JVal} {i : Int} (h : intOf? v = some i) : v.toNum? = some (.int i) := by
  cases v <;> simp [intOf?] at h <;> simp [JVal.toNum?, h]

/-- a body of a recognised form, evaluated on an integer (or bool) argument it accepts, bounds it -/
theorem exprLower_sound : ∀ (e : Expr) (b : Int), exprLower e = some b →
    ∀ (v : JVal) (i : Int), intOf? v = some i → e.holds v = true → b ≤ i := by
  intro e
  fun_induction exprLower e with
  | case1 b0 =>
    intro b h v i hv hh
    simp only [Option.some.injEq] at h
    subst h
    have hn := numOf_int hv
    simp only [Expr.holds, Expr.eval, pyCmp, hn] at hh
    simpa [JVal.toNum?, cmpNum, Num.le, JVal.truthy] using hh
  | case2 b0 =>
    intro b h v i hv hh
    simp only [Option.some.injEq] at h
    subst h
    have hn := numOf_int hv
    simp only [Expr.holds, Expr.eval, pyCmp, hn] at hh
    have : b0 < i := by simpa [JVal.toNum?, cmpNum, Num.lt, JVal.truthy] using hh
    omega
  | case3 items =>
    intro b h v i hv hh
    simp only [Expr.holds, Expr.eval, JVal.truthy, List.any_eq_true] at hh
    obtain ⟨it, hit, heq⟩ := hh
    obtain ⟨j, rfl, hle⟩ := listLower_sound items b h it hit
    have hn := numOf_int hv
    simp only [pyEq, hn] at heq
    have : i = j := by simpa [JVal.toNum?, Num.eq] using heq
    omega
  | case4 a c iha =>
    intro b h v i hv hh
    apply iha b h v i hv
    simp only [Expr.holds, Expr.eval] at hh ⊢
    cases ha : Expr.eval v a with
    | none => simp [ha] at hh
    | some va =>
      simp only [ha] at hh ⊢
      by_cases ht : va.truthy = true
      · exact ht
      · simp [ht] at hh
  | case5 e _ _ _ _ =>
    intro b h
    cases h

/-- the lower bound a schema `And(int, lambda)` enforces -/
def schemaLower : Schema → Option Int
  | .all [.type .int, .func e] => exprLower e
  | _ => none

theorem schemaLower_sound (o : Oracle) (s : Schema) (b : Int) (h : schemaLower s = some b) (v : JVal)
    (ha : Schema.accepts o s v = true) : ∃ i, intOf? v = some i ∧ b ≤ i := by
  unfold schemaLower at h
  split at h
  · rename_i e
    rw [C17W.all2, Bool.and_eq_true] at ha
    obtain ⟨ht, hf⟩ := ha
    rw [C17W.func_accepts] at hf
    have hi : ∃ i, intOf? v = some i := by
      cases v <;> simp [Schema.accepts, PyType.isInstance] at ht <;> simp [intOf?]
    obtain ⟨i, hi⟩ := hi
    exact ⟨i, hi, exprLower_sound e b h v i hi hf⟩
  · cases h

/-- `And(float, lambda x: x > 0)` -/
def positiveFloatS : Schema := .all [.type .float, .func (.cmp .gt .var (.lit (.int 0)))]

theorem positiveFloat_sound (o : Oracle) (v : JVal) (ha : Schema.accepts o positiveFloatS v = true) :
    0 ≤ ratOfJ 6 (some v) := by
  rw [positiveFloatS, C17W.all2, Bool.and_eq_true] at ha
  obtain ⟨ht, hf⟩ := ha
  rw [C17W.func_accepts] at hf
  cases v <;> simp [Schema.accepts, PyType.isInstance] at ht
  rename_i f
  cases f with
  | num q =>
    simp only [Expr.holds, Expr.eval, pyCmp, JVal.toNum?, cmpNum, Num.lt, FVal.lt, FVal.ofInt, JVal.truthy,
      decide_eq_true_eq] at hf
    simp only [ratOfJ]
    have : ((0 : Int) : Rat) < q := hf
    have h0 : ((0 : Int) : Rat) = 0 := by norm_num
    rw [h0] at this
    exact le_of_lt this
  | _ => simp [ratOfJ]

/-- the schema of a class polices the four parameters the margins read: whenever it has an entry
    `window_size` / `filter_size` / `step`, the entry is an `And(int, lambda)` of a recognised form with
    lower bound ≥ 1 / 0 / 0; an entry `sigma_space` is `And(float, lambda x: x > 0)` -/
def marginSafe (c : ClassDesc) : Bool :=
  c.schema.all fun e =>
    (e.1 != "window_size" || (match schemaLower e.2.2 with | some b => decide (1 ≤ b) | none => false)) &&
    (e.1 != "filter_size" || (match schemaLower e.2.2 with | some b => decide (0 ≤ b) | none => false)) &&
    (e.1 != "step" || (match schemaLower e.2.2 with | some b => decide (0 ≤ b) | none => false)) &&
    (e.1 != "sigma_space" || decide (e.2.2 = positiveFloatS))

/-- every class registered in the source is `marginSafe` (re-proved on every run against the regenerated
    schemas) -/
theorem generated_marginSafe : C05.allClasses.all (fun kc => marginSafe kc.2) = true := by decide

/-- the parameters of a step are in the domain where no margin is negative -/
def GoodCfg (c : StepCfg) : Prop :=
  1 ≤ c.windowSize ∧ 0 ≤ c.filterSize ∧ 0 ≤ c.sigmaSpace ∧ 0 ≤ c.stepParam

theorem intOfJ_bound (o : Oracle) (entries : List (String × Bool × Schema)) (out : Dict) (k : String) (d lb : Int)
    (hd : lb ≤ d)
    (hacc : Schema.accepts o (.dict entries) (.obj out) = true)
    (hsafe : ∀ e ∈ entries, e.1 = k → ∃ b, schemaLower e.2.2 = some b ∧ lb ≤ b) :
    lb ≤ intOfJ d (Dict.lookup out k) := by
  obtain ⟨hent, hkeys⟩ := (Merge.dict_accepts_iff o entries out).1 hacc
  cases hl : Dict.lookup out k with
  | none => simpa [intOfJ] using hd
  | some v =>
    obtain ⟨e, he, hek⟩ := hkeys (k, v) (Merge.mem_of_lookup out k v hl)
    simp only at hek
    have := hent e he
    rw [hek, hl] at this
    obtain ⟨b, hb, hle⟩ := hsafe e he hek
    obtain ⟨i, hi, hbi⟩ := schemaLower_sound o e.2.2 b hb v this
    simp only [intOfJ, hi, Option.getD_some]
    omega

/-- **accepted ⇒ in the domain**: a dictionary a `marginSafe` class's schema accepts reads as a `GoodCfg` -/
theorem accepted_goodCfg (o : Oracle) (c : ClassDesc) (hsafe : marginSafe c = true) (n : String) (out : Dict)
    (hacc : Schema.accepts o (.dict c.schema) (.obj out) = true) : GoodCfg (stepCfgOfJ n (.obj out)) := by
  simp only [marginSafe, List.all_eq_true, Bool.and_eq_true, Bool.or_eq_true, bne_iff_ne, ne_eq,
    decide_eq_true_eq] at hsafe
  have key : ∀ (k : String) (lb : Int),
      (∀ e ∈ c.schema, e.1 = k → (match schemaLower e.2.2 with | some b => decide (lb ≤ b) | none => false) = true) →
      ∀ e ∈ c.schema, e.1 = k → ∃ b, schemaLower e.2.2 = some b ∧ lb ≤ b := by
    intro k lb h e he hek
    have := h e he hek
    cases hs : schemaLower e.2.2 with
    | none => simp [hs] at this
    | some b => simp only [hs, decide_eq_true_eq] at this; exact ⟨b, rfl, this⟩
  refine ⟨?_, ?_, ?_, ?_⟩
  · apply intOfJ_bound o c.schema out "window_size" 5 1 (by decide) hacc
    apply key
    intro e he hek
    rcases (hsafe e he).1.1.1 with h | h
    · exact absurd hek h
    · exact h
  · apply intOfJ_bound o c.schema out "filter_size" 3 0 (by decide) hacc
    apply key
    intro e he hek
    rcases (hsafe e he).1.1.2 with h | h
    · exact absurd hek h
    · exact h
  · show 0 ≤ ratOfJ 6 (Dict.lookup out "sigma_space")
    obtain ⟨hent, hkeys⟩ := (Merge.dict_accepts_iff o c.schema out).1 hacc
    cases hl : Dict.lookup out "sigma_space" with
    | none => simp [ratOfJ]
    | some v =>
      obtain ⟨e, he, hek⟩ := hkeys ("sigma_space", v) (Merge.mem_of_lookup out _ v hl)
      simp only at hek
      have := hent e he
      rw [hek, hl] at this
      rcases (hsafe e he).2 with h | h
      · exact absurd hek h
      · rw [h] at this
        exact positiveFloat_sound o v this
  · apply intOfJ_bound o c.schema out "step" 1 0 (by decide) hacc
    apply key
    intro e he hek
    rcases (hsafe e he).1.2 with h | h
    · exact absurd hek h
    · exact h

/-! ### 3. C20's hypotheses hold of every accepted pipeline -/

theorem nonneg_valid (m : M4) (h : m.nonneg) : m.valid = true := by
  simpa [M4.valid, M4.nonneg, and_assoc] using h

/-- in the domain, every registration of a checking round carries non-negative margins -/
theorem entries_valid (rows cols : Int) (hr : 0 ≤ rows) (hc : 0 ≤ cols) :
    ∀ (p : List StepCfg) (step : Int), 0 ≤ step → (∀ c ∈ p, GoodCfg c) →
      ∀ e ∈ C20.entries rows cols p step, e.m.valid = true := by
  intro p
  induction p with
  | nil => intro _ _ _ e he; simp [C20.entries] at he
  | cons c cs ih =>
    intro step hs hg e he
    obtain ⟨hw, hf, hsig, hsp⟩ := hg c (by simp)
    simp only [C20.entries, entryOf] at he
    cases hk : Machine.Kind.ofName? (Machine.kindOf c.name) with
    | none => simp [hk] at he
    | some k =>
      simp only [hk] at he
      have hs' : 0 ≤ stepAfter step c k := by
        unfold stepAfter
        split
        · exact hsp
        · exact hs
      rcases List.mem_cons.1 he with e1 | e1
      · subst e1
        exact nonneg_valid _ (C20.documentedMargin_nonneg k c rows cols _ hw hf hs' hr hc hsig)
      · exact ih _ hs' (fun x hx => hg x (by simp [hx])) e e1

/-- **C20's hypotheses, discharged**: for every pipeline `check_pipeline_section` accepts (registry and
    schemas of the source, fresh machine), the checked pipeline read as `List StepCfg` has only step kinds
    as names, distinct names, starts with its matching cost step, and every step's parameters are in the
    domain where the margins are non-negative -/
theorem accepted_pipeline_facts {o : Oracle} {fl : MachineFlags} {P : Dict} {l r : ImgInfo}
    {m m' : CState} {out : Dict} (hfresh : C05W.FreshFor fl m) (hwf : Merge.wfDict P = true)
    (h : checkPipelineSection o fl registry [("pipeline", .obj P)] l r m = .ok (out, m')) :
    C20.KnownKinds (stepCfgsOf m'.pipelineCfg) ∧
    ((stepCfgsOf m'.pipelineCfg).map (·.name)).Nodup ∧
    C20.StartsWithMatchingCost (stepCfgsOf m'.pipelineCfg) ∧
    (∀ c ∈ stepCfgsOf m'.pipelineCfg, GoodCfg c) := by
  obtain ⟨_, hkeys, hsteps⟩ := C05W.checkPipelineSection_structure hfresh hwf h
  obtain ⟨hpath, _, _⟩ := (C05W.checkPipelineSection_ok_iff o fl P l r m hfresh hwf).1 ⟨out, m', h⟩
  have hndP := Merge.wfDict_keys_nodup P hwf
  have hndM : (Dict.keys m'.pipelineCfg).Nodup := by rw [hkeys]; exact hndP
  refine ⟨?_, by rw [stepCfgsOf_names]; exact hndM, ?_, ?_⟩
  · intro c hc
    simp only [stepCfgsOf, List.mem_map] at hc
    obtain ⟨kv, hkv, rfl⟩ := hc
    rw [stepCfgOfJ_name]
    have hin : kv.1 ∈ Dict.keys P := by rw [← hkeys]; exact List.mem_map_of_mem (f := (·.1)) hkv
    obtain ⟨kind, _, _, _, hkind, _⟩ := hsteps kv.1 hin
    simp [hkind]
  · cases hM : m'.pipelineCfg with
    | nil => simp [stepCfgsOf, C20.StartsWithMatchingCost]
    | cons kv rest =>
      simp only [stepCfgsOf, List.map_cons, C20.StartsWithMatchingCost, stepCfgOfJ_name]
      rw [hM] at hkeys
      cases hP : Dict.keys P with
      | nil => rw [hP] at hkeys; simp [Dict.keys] at hkeys
      | cons n ns =>
        rw [hP] at hkeys hpath
        simp only [Dict.keys, List.map_cons, List.cons.injEq] at hkeys
        rw [hkeys.1]
        simp only [Machine.isPath] at hpath
        cases hk : Machine.Kind.ofName? (Machine.kindOf n) with
        | none => simp [hk] at hpath
        | some k =>
          simp only [hk] at hpath
          cases k <;> simp [Machine.documented] at hpath ⊢
  · intro c hc
    simp only [stepCfgsOf, List.mem_map] at hc
    obtain ⟨kv, hkv, rfl⟩ := hc
    have hin : kv.1 ∈ Dict.keys P := by rw [← hkeys]; exact List.mem_map_of_mem (f := (·.1)) hkv
    obtain ⟨kind, cfgU, kd, outn, _, _, hkd, hcon, hM⟩ := hsteps kv.1 hin
    have hl := Merge.lookup_of_mem m'.pipelineCfg kv.1 kv.2 hndM hkv
    rw [hM] at hl
    simp only [Option.some.injEq] at hl
    rw [← hl]
    obtain ⟨meth, c, _, hf, hcc⟩ := C05W.construct_ok hcon
    have hall := C05W.mem_allClasses (C05W.kindDesc_some hkd).1 (C05W.findClass_some hf).1
    have hsafe := generated_marginSafe
    rw [List.all_eq_true] at hsafe
    exact accepted_goodCfg o c (hsafe _ hall) kv.1 outn (C05.classCheck_ok hcc).2

/-- **the two models of the check callbacks agree that no margin registration raises**: on an accepted
    pipeline (where `Config.lean`'s callbacks return normally) C20's model of the margin bookkeeping —
    which refuses negative margins and a key present in both dictionaries — is defined, and is C20's
    specification -/
theorem accepted_margins_defined {o : Oracle} {fl : MachineFlags} {P : Dict} {l r : ImgInfo}
    {m m' : CState} {out : Dict} (hfresh : C05W.FreshFor fl m) (hwf : Merge.wfDict P = true)
    (h : checkPipelineSection o fl registry [("pipeline", .obj P)] l r m = .ok (out, m'))
    (rows cols : Nat) :
    machineMargins rows cols rows cols m'.pipelineCfg =
      some { cumulatives := expectedEntries .cumulative rows cols (stepCfgsOf m'.pipelineCfg) 1,
             nonCumulatives := expectedEntries .nonCumulative rows cols (stepCfgsOf m'.pipelineCfg) 1 } := by
  obtain ⟨hk, hnd, hmc, hgood⟩ := accepted_pipeline_facts hfresh hwf h
  have hv := entries_valid rows cols (Int.natCast_nonneg _) (Int.natCast_nonneg _) _ 1 (by decide) hgood
  unfold machineMargins
  rw [C20.second_round_noop _ _ _ hk hnd hmc hv, C20.margins_listed _ _ _ hk hnd hv]
  rfl

/-! ### 4. The `margins` entry of the saved configuration -/

theorem globalToJ_expected (rows cols : Int) (p : List StepCfg) :
    globalToJ { cumulatives := expectedEntries .cumulative rows cols p 1,
                nonCumulatives := expectedEntries .nonCumulative rows cols p 1 } = expectedMarginsJ rows cols p := by
  simp [globalToJ, expectedMarginsJ, C20.global_formula]

/-- the shape (rows, cols) of the image a completed side names -/
def shapeOf (files : Files) (S : Dict) : Option (Nat × Nat) :=
  (C17W.imgOf files S).map fun fi => (fi.height, fi.width)

/-- **Model of `cfg/config.json`** as `main` writes it from `check_conf`'s result `out`: the machine's
    margins (registered by the check callbacks from the checked steps and the shapes of the two images
    `out` names), `to_dict()`, stored under `margins` as the regenerated `mainFacts` say -/
def savedFile (files : Files) (out : Dict) : Option Dict :=
  match sideDict out "left", sideDict out "right" with
  | some L, some R =>
    match shapeOf files L, shapeOf files R with
    | some (rows, cols), some (rows2, cols2) =>
      savedConfig Pandora.Generated.mainFacts Pandora.Generated.runWritesIndicator out rows cols rows2 cols2
    | _, _ => none
  | _, _ => none

/-- `check_conf`, then what `main` saves -/
def mainConfig (files : Files) (fl : MachineFlags) (user : Dict) (m : CState) : Option Dict :=
  match checkConf files inputSchemas fl registry user m with
  | .ok (out, _) => savedFile files out
  | .error _ => none

/-- the margins do not read `indicator`: what `run` writes into the pipeline leaves C20's reading unchanged -/
theorem stepCfgsOf_runPipeline (M : Dict) : stepCfgsOf (runPipeline M) = stepCfgsOf M := by
  simp only [stepCfgsOf, runPipeline, List.map_map]
  apply List.map_congr_left
  intro kv _
  simp only [Function.comp, runStep]
  by_cases hcvc : Machine.kindOf kv.1 = "cost_volume_confidence"
  · simp only [hcvc, if_true]
    cases hv : kv.2 with
    | obj step =>
      simp only [stepCfgOfJ]
      rw [lookup_setKey_ne _ _ _ _ (by decide), lookup_setKey_ne _ _ _ _ (by decide),
        lookup_setKey_ne _ _ _ _ (by decide), lookup_setKey_ne _ _ _ _ (by decide),
        lookup_setKey_ne _ _ _ _ (by decide)]
    | _ => simp [hv]
  · simp [hcvc]

theorem stepCfgsOf_afterRun (w : Bool) (M : Dict) : stepCfgsOf (afterRunPipeline w M) = stepCfgsOf M := by
  cases w
  · rfl
  · simp [afterRunPipeline, stepCfgsOf_runPipeline]

/-- **The saved margins are C20's expected margins of the saved pipeline.**  For every configuration
    `check_conf` accepts, `main` writes a file; its `pipeline` entry `M` is the checked pipeline with the
    indicators `run` wrote, and its `margins` entry is `expectedMarginsJ rows cols (stepCfgsOf M)`:
    cumulative entries = the steps of `M` whose kind cumulates, in order, with the documented margins;
    non-cumulative entries = the filters; global = per side the larger of the cumulative sum and each
    non-cumulative one — a function of the saved pipeline and of the shape of the left image the saved
    input names, and of nothing else.
    Facts about `main` used: `mainFacts.addsMargins` (the entry is the machine's `margins.to_dict()`),
    `mainFacts.writesRightDisp = false` (the saved `input` is `check_conf`'s). -/
theorem saved_margins_expected (files : Files) (fl : MachineFlags) (user kvs P : Dict) (m m' : CState) (out : Dict)
    (hin : Dict.lookup user "input" = some (.obj kvs)) (hpi : Dict.lookup user "pipeline" = some (.obj P))
    (hnd : (Dict.keys kvs).Nodup) (hfresh : C05W.FreshFor fl m) (hwf : Merge.wfDict P = true)
    (h : checkConf files inputSchemas fl registry user m = .ok (out, m')) :
    ∃ saved L M rows cols,
      savedFile files out = some saved ∧
      sideDict saved "left" = some L ∧ shapeOf files L = some (rows, cols) ∧
      Dict.lookup saved "pipeline" = some (.obj M) ∧
      Dict.lookup saved "margins" = some (expectedMarginsJ rows cols (stepCfgsOf M)) ∧
      saved = mainSavedDict Pandora.Generated.mainFacts (afterRun Pandora.Generated.runWritesIndicator out)
        (expectedMarginsJ rows cols (stepCfgsOf M)) := by
  obtain ⟨L', R', M, hci, hcp, hout⟩ := (C05C.checkConf_ok_iff files fl user kvs P m m' out hin hpi hnd hfresh hwf).1 h
  obtain ⟨_, _, L2, R2, _, _, _, _, _, hform, hshape⟩ := (C17W.checkInputSection_ok_iff files fl kvs _ hnd).1 hci
  simp only [List.cons.injEq, Prod.mk.injEq, JVal.obj.injEq, true_and, and_true] at hshape
  obtain ⟨rfl, rfl⟩ := hshape
  have hM : M = m'.pipelineCfg := by
    obtain ⟨hs, _, _⟩ := C05W.checkPipelineSection_structure hfresh hwf hcp
    simpa using hs
  -- the two images have one shape
  unfold C17W.formOk at hform
  cases hl : C17W.imgOf files L' with
  | none => simp [hl] at hform
  | some iml =>
    cases hr : C17W.imgOf files R' with
    | none => simp [hl, hr] at hform
    | some imr =>
      simp only [hl, hr, Bool.and_eq_true, beq_iff_eq] at hform
      obtain ⟨⟨⟨⟨hw, hh⟩, _⟩, _⟩, _⟩ := hform
      have hmm := accepted_margins_defined hfresh hwf hcp iml.height iml.width
      rw [← hM] at hmm
      have hsaved : savedFile files out = some (mainSavedDict Pandora.Generated.mainFacts
          (afterRun Pandora.Generated.runWritesIndicator out)
          (expectedMarginsJ iml.height iml.width (stepCfgsOf (afterRunPipeline Pandora.Generated.runWritesIndicator M)))) := by
        rw [stepCfgsOf_afterRun, hout]
        simp only [savedFile, savedConfig, sideDict, Dict.lookup, if_true, shapeOf, hl, hr, Option.map_some,
          show ("input" : String) = "pipeline" ↔ False by decide, show ("left" : String) = "right" ↔ False by decide,
          if_false, ← hw, ← hh, hmm, globalToJ_expected]
      refine ⟨_, L', afterRunPipeline Pandora.Generated.runWritesIndicator M, iml.height, iml.width, hsaved, ?_,
        by simp [shapeOf, hl], ?_, ?_, rfl⟩
      · rw [hout, afterRun_shape]
        simp [mainSavedDict, source_main_facts.1, source_main_facts.2, sideDict, Dict.lookup, Dict.setKey]
      · rw [hout, afterRun_shape]
        simp [mainSavedDict, source_main_facts.1, source_main_facts.2, Dict.lookup, Dict.setKey]
      · rw [hout, afterRun_shape]
        simp [mainSavedDict, source_main_facts.1, source_main_facts.2, Dict.lookup, Dict.setKey]

/-- `main` writes a configuration file for every configuration `check_conf` accepts (no margin
    registration raises) -/
theorem main_config_defined (files : Files) (fl : MachineFlags) (user kvs P : Dict) (m m' : CState) (out : Dict)
    (hin : Dict.lookup user "input" = some (.obj kvs)) (hpi : Dict.lookup user "pipeline" = some (.obj P))
    (hnd : (Dict.keys kvs).Nodup) (hfresh : C05W.FreshFor fl m) (hwf : Merge.wfDict P = true)
    (h : checkConf files inputSchemas fl registry user m = .ok (out, m')) :
    ∃ saved, mainConfig files fl user m = some saved := by
  obtain ⟨saved, _, _, _, _, hs, _⟩ := saved_margins_expected files fl user kvs P m m' out hin hpi hnd hfresh hwf h
  exact ⟨saved, by simp [mainConfig, h, hs]⟩

/-- the shapes and the margins `savedFile` reads do not see what `run` wrote: the file `main` would write
    from the configuration after `run` is the file it writes from `check_conf`'s result -/
theorem savedFile_afterRun (files : Files) (I : JVal) (M : Dict) :
    savedFile files (afterRun Pandora.Generated.runWritesIndicator [("input", I), ("pipeline", .obj M)]) =
      savedFile files [("input", I), ("pipeline", .obj M)] := by
  rw [afterRun_shape]
  simp only [savedFile, savedConfig, sideDict, Dict.lookup, if_true,
    show ("input" : String) = "pipeline" ↔ False by decide, if_false, afterRun_shape, afterRunPipeline_idem,
    machineMargins, stepCfgsOf_afterRun]

/-- **`cfg/config.json` is a fix-point of `main`** (C05 ∘ C17 ∘ C19 ∘ C20): the file `main` writes for an
    accepted configuration, given to `main` again (fresh machine), is accepted and written again
    unchanged — same input section, same steps and parameters, same indicators, same margins. -/
theorem main_config_fixpoint (files : Files) (fl : MachineFlags) (user kvs P : Dict) (m : CState) (saved : Dict)
    (hin : Dict.lookup user "input" = some (.obj kvs)) (hpi : Dict.lookup user "pipeline" = some (.obj P))
    (hnd : C17W.NodupSection kvs) (hfresh : C05W.FreshFor fl m) (hwf : Merge.wfDict P = true)
    (h : mainConfig files fl user m = some saved) (m2 : CState) (hfresh2 : C05W.FreshFor fl m2) :
    mainConfig files fl saved m2 = some saved := by
  unfold mainConfig at h
  cases hc : checkConf files inputSchemas fl registry user m with
  | error e => simp [hc] at h
  | ok res =>
    obtain ⟨out, m'⟩ := res
    simp only [hc] at h
    obtain ⟨saved', _, _, _, _, hs, _, _, _, _, heq⟩ :=
      saved_margins_expected files fl user kvs P m m' out hin hpi hnd.1 hfresh hwf hc
    rw [hs] at h
    simp only [Option.some.injEq] at h
    subst h
    obtain ⟨m2', h2⟩ := saved_config_replays_any Pandora.Generated.runWritesIndicator files fl user kvs P m m' out
      hin hpi hnd hfresh hwf hc Pandora.Generated.mainFacts source_main_facts.1 (expectedMarginsJ _ _ (stepCfgsOf _)) m2 hfresh2
    rw [← heq] at h2
    obtain ⟨L', R', M, _, _, hout⟩ := (C05C.checkConf_ok_iff files fl user kvs P m m' out hin hpi hnd.1 hfresh hwf).1 hc
    have : savedFile files (afterRun Pandora.Generated.runWritesIndicator out) = savedFile files out := by
      rw [hout]; exact savedFile_afterRun files _ M
    simp [mainConfig, h2, this, hs]

/-- the margin of a step reads the image shape only for a bilateral filter -/
theorem documentedMargin_shape (k : Machine.Kind) (c : StepCfg) (rows cols rows' cols' step : Int)
    (h : k = .filter → (c.method == "bilateral") = false) :
    documentedMargin k c rows cols step = documentedMargin k c rows' cols' step := by
  cases k <;> simp only [documentedMargin]
  simp [h rfl]

/-- **without a bilateral filter the saved margins do not depend on the image**: they are a function of
    the saved pipeline alone -/
theorem margins_shape_independent (reg : Reg) (rows cols rows' cols' : Int) :
    ∀ (p : List StepCfg) (step : Int), (∀ c ∈ p, (c.method == "bilateral") = false) →
      expectedEntries reg rows cols p step = expectedEntries reg rows' cols' p step := by
  intro p
  induction p with
  | nil => intro _ _; rfl
  | cons c cs ih =>
    intro step h
    have hc := h c (by simp)
    have hcs : ∀ x ∈ cs, (x.method == "bilateral") = false := fun x hx => h x (by simp [hx])
    simp only [expectedEntries]
    cases hk : Machine.Kind.ofName? (Machine.kindOf c.name) with
    | none => exact ih step hcs
    | some k =>
      simp only
      rw [ih _ hcs, documentedMargin_shape k c rows cols rows' cols' _ (fun _ => hc)]

theorem expectedMarginsJ_shape_independent (rows cols rows' cols' : Int) (p : List StepCfg)
    (h : ∀ c ∈ p, (c.method == "bilateral") = false) :
    expectedMarginsJ rows cols p = expectedMarginsJ rows' cols' p := by
  unfold expectedMarginsJ
  rw [margins_shape_independent .cumulative rows cols rows' cols' p 1 h,
    margins_shape_independent .nonCumulative rows cols rows' cols' p 1 h]

/-! ### 5. Non-vacuity: a concrete run -/

/-- a configuration with a suffixed confidence step (`run` writes its indicator `".amb"` into the saved
    pipeline), a bilateral filter (its margin reads the image shape: 5 × 6 pixels, `int(3 · 6 + 1) = 19`,
    hence 5), a median filter after the validation, defaults everywhere -/
def exUser : Dict :=
  [("input", .obj [("left", .obj [("img", .str "l.tif"), ("disp", .list [.int (-3), .int 2])]),
                   ("right", .obj [("img", .str "r.tif")])]),
   ("pipeline", .obj [
     ("matching_cost", .obj [("matching_cost_method", .str "sad"), ("window_size", .int 7)]),
     ("cost_volume_confidence.amb", .obj [("confidence_method", .str "ambiguity")]),
     ("disparity", .obj [("disparity_method", .str "wta")]),
     ("filter", .obj [("filter_method", .str "bilateral")]),
     ("validation", .obj [("validation_method", .str "cross_checking_accurate")]),
     ("filter.after", .obj [("filter_method", .str "median")])])]

def exMargins : JVal :=
  .obj [("cumulative margins", .obj [
          ("matching_cost", .obj [("left", .int 3), ("up", .int 3), ("right", .int 3), ("down", .int 3)]),
          ("disparity", .obj [("left", .int 0), ("up", .int 0), ("right", .int 0), ("down", .int 0)])]),
        ("non-cumulative margins", .obj [
          ("filter", .obj [("left", .int 5), ("up", .int 5), ("right", .int 5), ("down", .int 5)]),
          ("filter.after", .obj [("left", .int 3), ("up", .int 3), ("right", .int 3), ("down", .int 3)])]),
        ("global margins", .obj [("left", .int 5), ("up", .int 5), ("right", .int 5), ("down", .int 5)])]

/-- `main` on the concrete configuration: the saved file ends with the expected margins, holds the
    indicator `run` wrote, and `main` on the saved file writes it again -/
example :
    (mainConfig C17.fs machineFlags exUser {}).bind (fun s => Dict.lookup s "margins") = some exMargins ∧
    ((mainConfig C17.fs machineFlags exUser {}).bind (fun s => Dict.lookup s "pipeline")).bind
      (fun p => match p with
        | .obj M => (Dict.lookup M "cost_volume_confidence.amb").bind fun st =>
            match st with | .obj d => Dict.lookup d "indicator" | _ => none
        | _ => none) = some (.str ".amb") ∧
    ((mainConfig C17.fs machineFlags exUser {}).bind (fun s => mainConfig C17.fs machineFlags s {})) =
      mainConfig C17.fs machineFlags exUser {} ∧
    (mainConfig C17.fs machineFlags exUser {}).isSome = true := by
  decide +kernel

/-- the recognisers see the bounds of the source: `window_size` of census ≥ 3, of sad / ssd ≥ 1 -/
example :
    (Census.schema.find? (·.1 == "window_size")).map (fun e => schemaLower e.2.2) = some (some 3) ∧
    (SadSsd.schema.find? (·.1 == "window_size")).map (fun e => schemaLower e.2.2) = some (some 1) ∧
    (MedianFilter.schema.find? (·.1 == "filter_size")).map (fun e => schemaLower e.2.2) = some (some 1) ∧
    (BilateralFilter.schema.find? (·.1 == "sigma_space")).map (fun e => decide (e.2.2 = positiveFloatS)) = some true := by
  decide

end Pandora.C19C20
