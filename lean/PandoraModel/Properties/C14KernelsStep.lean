/-
  C14 — the whole `interpolated_disparity` step (both classes) regenerated from the source as an array program over
  two stores that calls the regenerated kernels (`Generated/KernelsInterpStep.lean`, `translator/gen_kernels_interp_step.py`),
  equals the model step `Interp.interpolate` on every pixel of the map — for every map, mask, size, border offset and
  store — and writes no array that existed before the call (the dataset ends up holding two FRESH arrays).

  Arrays have no cells outside the map, the model's index functions do: the statements are about the cells inside
  (`Interp.Agree`), and the second pass of the model only reads cells inside (`*_congr`).
-/
import PandoraModel.Properties.C14Kernels
import PandoraModel.Properties.C14
import PandoraModel.Lemmas.InterpCongr
import PandoraModel.Generated.KernelsInterpStep

set_option linter.unusedSimpArgs false

namespace Pandora.C14KernelsStep
open Pandora Pandora.Interp Pandora.Flags Pandora.PyArr Pandora.PyLoops Pandora.C14Kernels
open Pandora.Generated.KernelsInterpStep

/-- the dataset's two arrays as a map of the model -/
def dmapOf (rows cols : Nat) (d : Arr Val) (f : Arr Nat) : DMap := ⟨rows, cols, d, f⟩

/-! ### agreement inside the map -/

theorem _root_.Pandora.Interp.Agree.refl (m : DMap) : Agree m m := ⟨rfl, rfl, fun _ _ _ _ => rfl, fun _ _ _ _ => rfl⟩

theorem _root_.Pandora.Interp.Agree.trans {a b c : DMap} (h1 : Agree a b) (h2 : Agree b c) : Agree a c :=
  ⟨h1.rows.trans h2.rows, h1.cols.trans h2.cols,
   fun r c hr hc => (h1.disp r c hr hc).trans (h2.disp r c (h1.rows ▸ hr) (h1.cols ▸ hc)),
   fun r c hr hc => (h1.flag r c hr hc).trans (h2.flag r c (h1.rows ▸ hr) (h1.cols ▸ hc))⟩

theorem _root_.Pandora.Interp.Agree.validAt {m m' : DMap} (h : Agree m m') {p : Int × Int} (hp : m.inside p = true) :
    m.validAt p = m'.validAt p := by
  have := inside_toNat hp
  simp only [DMap.validAt, DMap.valid, h.flag _ _ this.1 this.2]

theorem _root_.Pandora.Interp.Agree.dispAt {m m' : DMap} (h : Agree m m') {p : Int × Int} (hp : m.inside p = true) :
    m.dispAt p = m'.dispAt p := by
  have := inside_toNat hp
  simp only [DMap.dispAt, h.disp _ _ this.1 this.2]

/-! ### the second passes only read cells inside the map -/

theorem scanLoop_congr {m m' : DMap} (h : Agree m m') (init : Val) (pos : Nat → Int × Int) :
    ∀ fuel i, scanLoop init m pos fuel i = scanLoop init m' pos fuel i
  | 0, _ => rfl
  | fuel + 1, i => by
    simp only [scanLoop, ← h.inside]
    by_cases hi : m.inside (pos i) = true
    · simp only [hi, Bool.not_true, Bool.false_eq_true, if_false, h.validAt hi, h.dispAt hi,
        scanLoop_congr h init pos fuel (i + 1)]
    · simp [hi]

theorem mismMcPixel_congr {m m' : DMap} (h : Agree m m') (v : Variant) (r c : Nat) (hr : r < m.rows) (hc : c < m.cols) :
    mismMcPixel v m r c = mismMcPixel v m' r c := by
  unfold mismMcPixel
  simp only [h.flag r c hr hc, h.disp r c hr hc, ← h.rows, ← h.cols, scanLoop_congr h]

theorem scanAcc_congr {m m' : DMap} (h : Agree m m') (d : Int × Int) :
    ∀ fuel p, scanAcc m d fuel p = scanAcc m' d fuel p
  | 0, _ => rfl
  | fuel + 1, p => by
    simp only [scanAcc, ← h.inside]
    by_cases hi : m.inside (p.1 + d.2, p.2 + d.1) = true
    · simp only [hi, Bool.not_true, Bool.false_eq_true, if_false, h.validAt hi, h.dispAt hi,
        scanAcc_congr h d fuel _]
    · simp [hi]

theorem occlSgmPixel_congr {m m' : DMap} (h : Agree m m') (v : Variant) (r c : Nat) (hr : r < m.rows) (hc : c < m.cols) :
    occlSgmPixel v m r c = occlSgmPixel v m' r c := by
  unfold occlSgmPixel Interp.findValidNeighbors
  simp only [h.flag r c hr hc, h.disp r c hr hc, ← h.rows, ← h.cols, scanAcc_congr h]

theorem lift_agree (pix : DMap → Nat → Nat → Val × Nat)
    (hc : ∀ m m', Agree m m' → ∀ r c, r < m.rows → c < m.cols → pix m r c = pix m' r c)
    {m m' : DMap} (h : Agree m m') : Agree (lift pix m) (lift pix m') :=
  ⟨h.rows, h.cols, fun r c hr hc' => by simp only [lift, hc m m' h r c hr hc'],
   fun r c hr hc' => by simp only [lift, hc m m' h r c hr hc']⟩

/-! ### one kernel call -/

/-- a regenerated map kernel run on the dataset's arrays agrees, inside the map, with the model's pass -/
theorem runKernel_agree
    (k : (Int → Int → Val) → Int → Int → (Int → Int → Int) → Int → Int → Int → Int → Res (Val × Int))
    (pix : DMap → Nat → Nat → Val × Nat)
    (hk : ∀ (m : DMap) (r c : Nat), r < m.rows → c < m.cols →
      k (embedDisp m) m.rows m.cols (embedFlag m) m.rows m.cols r c = .ok ((pix m r c).1, (((pix m r c).2 : Nat) : Int)))
    (rows cols : Nat) (d : Arr Val) (f : Arr Nat) :
    Agree (dmapOf rows cols (runKernel k rows cols d f).1 (runKernel k rows cols d f).2)
      (lift pix (dmapOf rows cols d f)) := by
  refine ⟨rfl, rfl, ?_, ?_⟩
  · intro r c hr hc
    have h := hk (dmapOf rows cols d f) r c hr hc
    unfold embedDisp embedFlag dmapOf at h
    simp only [dmapOf] at hr hc
    simp only [dmapOf, runKernel, lift, hr, hc, and_self, if_true]
    rw [h]
  · intro r c hr hc
    have h := hk (dmapOf rows cols d f) r c hr hc
    unfold embedDisp embedFlag dmapOf at h
    simp only [dmapOf] at hr hc
    simp only [dmapOf, runKernel, lift, hr, hc, and_self, if_true]
    rw [h]
    simp

/-! ### the two steps -/

theorem set_self {α : Type} (s : Store α) (k : Nat) (a : Arr α) : (s.set k a).arr k = a := by simp [Store.set]

theorem alloc2_arr {α : Type} (s : Store α) (a b : Arr α) : ((s.alloc a).1.alloc b).1.arr (s.next + 1) = b := by
  simp [Store.alloc]

theorem maskBorder_flag (off rows cols : Nat) (M : DMap) (hR : M.rows = rows) (hC : M.cols = cols) (g : Arr Nat) (r c : Nat)
    (hg : g r c = M.flag r c) (ho : off > 0) :
    maskBorderArr off rows cols g r c = (maskBorder off M).flag r c := by
  have hc : Generated.Constants.PANDORA_MSK_PIXEL_LEFT_NODATA_OR_BORDER = leftNodataOrBorder := by decide
  simp only [maskBorderArr, maskBorder, isBorder, hR, hC, hc, hg, ho, decide_true, Bool.true_and]

theorem border_const : Generated.Constants.PANDORA_MSK_PIXEL_LEFT_NODATA_OR_BORDER = leftNodataOrBorder := by decide

/-- **`McCnnInterpolation.interpolated_disparity` regenerated = model step**, with its frame: the dataset ends up
    holding two fresh arrays that agree with `Interp.interpolate … .mccnn` on every pixel; no array that existed before
    the call is written (in particular the two arrays the dataset held). -/
theorem mccnn_step_generated (off rows cols dm vm : Nat) (m0 : Store Val) (f0 : Store Nat) :
    Agree (dmapOf rows cols
        ((interpolatedDisparityMcCnn off rows cols dm vm m0 f0).1.arr (interpolatedDisparityMcCnn off rows cols dm vm m0 f0).2.2.1)
        ((interpolatedDisparityMcCnn off rows cols dm vm m0 f0).2.1.arr (interpolatedDisparityMcCnn off rows cols dm vm m0 f0).2.2.2))
      (interpolate ⟨true, .or⟩ .mccnn off (dmapOf rows cols (m0.arr dm) (f0.arr vm)))
    ∧ (∀ k, k < m0.next → (interpolatedDisparityMcCnn off rows cols dm vm m0 f0).1.arr k = m0.arr k)
    ∧ (∀ k, k < f0.next → (interpolatedDisparityMcCnn off rows cols dm vm m0 f0).2.1.arr k = f0.arr k)
    ∧ m0.next ≤ (interpolatedDisparityMcCnn off rows cols dm vm m0 f0).2.2.1
    ∧ f0.next ≤ (interpolatedDisparityMcCnn off rows cols dm vm m0 f0).2.2.2 := by
  have a1 := runKernel_agree Generated.KernelsInterp.occlusionMcCnnPx (occlMcPixel ⟨true, .or⟩)
    occlusionMcCnn_generated_eq rows cols (m0.arr dm) (f0.arr vm)
  generalize hk1 : runKernel Generated.KernelsInterp.occlusionMcCnnPx rows cols (m0.arr dm) (f0.arr vm) = k1 at a1
  have a2 := runKernel_agree Generated.KernelsInterp.mismatchMcCnnPx (mismMcPixel ⟨true, .or⟩)
    mismatchMcCnn_generated_eq rows cols k1.1 k1.2
  have a2' : Agree (dmapOf rows cols
        (runKernel Generated.KernelsInterp.mismatchMcCnnPx rows cols k1.1 k1.2).1
        (runKernel Generated.KernelsInterp.mismatchMcCnnPx rows cols k1.1 k1.2).2)
      (mismMc ⟨true, .or⟩ (occlMc ⟨true, .or⟩ (dmapOf rows cols (m0.arr dm) (f0.arr vm)))) :=
    a2.trans (lift_agree _ (fun m m' h r c hr hc => mismMcPixel_congr h _ r c hr hc) a1)
  generalize hk2 : runKernel Generated.KernelsInterp.mismatchMcCnnPx rows cols k1.1 k1.2 = k2 at a2'
  have hgen : interpolatedDisparityMcCnn off rows cols dm vm m0 f0
      = (((m0.alloc k1.1).1.alloc k2.1).1,
         (if off > 0 then ((f0.alloc k1.2).1.alloc k2.2).1.set (f0.next + 1) (maskBorderArr off rows cols k2.2)
          else ((f0.alloc k1.2).1.alloc k2.2).1),
         m0.next + 1, f0.next + 1) := by
    unfold interpolatedDisparityMcCnn
    simp [Store.alloc, hk1, hk2]
    refine ⟨by congr!, ?_⟩
    by_cases ho : 0 < off <;> simp [ho] <;> congr!
  rw [hgen]
  refine ⟨?_, ?_, ?_, by simp, by simp⟩
  · have hd : ((m0.alloc k1.1).1.alloc k2.1).1.arr (m0.next + 1) = k2.1 := by simp [Store.alloc]
    simp only [hd, interpolate, mccnn]
    refine ⟨a2'.rows, a2'.cols, fun r c hr hc => ?_, fun r c hr hc => ?_⟩
    · simpa [maskBorder, dmapOf] using a2'.disp r c hr hc
    · have hf := a2'.flag r c hr hc
      simp only [dmapOf] at hf hr hc ⊢
      by_cases ho : off > 0
      · rw [if_pos ho, set_self]
        exact maskBorder_flag off rows cols _ rfl rfl k2.2 r c hf ho
      · rw [if_neg ho, alloc2_arr]
        simpa [maskBorder, ho] using hf
  · intro k hk
    have h1 : k ≠ m0.next := by omega
    have h2 : k ≠ m0.next + 1 := by omega
    simp [Store.alloc, h1, h2]
  · intro k hk
    have h1 : k ≠ f0.next := by omega
    have h2 : k ≠ f0.next + 1 := by omega
    by_cases ho : off > 0 <;> simp [Store.alloc, Store.set, h1, h2, ho]

/-- **`SgmInterpolation.interpolated_disparity` regenerated = model step** (mismatch pass, then occlusion pass; no
    `mask_border`), with the same frame. -/
theorem sgm_step_generated (off rows cols dm vm : Nat) (m0 : Store Val) (f0 : Store Nat) :
    Agree (dmapOf rows cols
        ((interpolatedDisparitySgm off rows cols dm vm m0 f0).1.arr (interpolatedDisparitySgm off rows cols dm vm m0 f0).2.2.1)
        ((interpolatedDisparitySgm off rows cols dm vm m0 f0).2.1.arr (interpolatedDisparitySgm off rows cols dm vm m0 f0).2.2.2))
      (interpolate ⟨true, .or⟩ .sgm off (dmapOf rows cols (m0.arr dm) (f0.arr vm)))
    ∧ (∀ k, k < m0.next → (interpolatedDisparitySgm off rows cols dm vm m0 f0).1.arr k = m0.arr k)
    ∧ (∀ k, k < f0.next → (interpolatedDisparitySgm off rows cols dm vm m0 f0).2.1.arr k = f0.arr k)
    ∧ m0.next ≤ (interpolatedDisparitySgm off rows cols dm vm m0 f0).2.2.1
    ∧ f0.next ≤ (interpolatedDisparitySgm off rows cols dm vm m0 f0).2.2.2 := by
  have a1 := runKernel_agree Generated.KernelsInterp.mismatchSgmPx (mismSgmPixel ⟨true, .or⟩)
    mismatchSgm_generated_eq rows cols (m0.arr dm) (f0.arr vm)
  generalize hk1 : runKernel Generated.KernelsInterp.mismatchSgmPx rows cols (m0.arr dm) (f0.arr vm) = k1 at a1
  have a2 := runKernel_agree Generated.KernelsInterp.occlusionSgmPx (occlSgmPixel ⟨true, .or⟩)
    occlusionSgm_generated_eq rows cols k1.1 k1.2
  have a2' : Agree (dmapOf rows cols
        (runKernel Generated.KernelsInterp.occlusionSgmPx rows cols k1.1 k1.2).1
        (runKernel Generated.KernelsInterp.occlusionSgmPx rows cols k1.1 k1.2).2)
      (occlSgm ⟨true, .or⟩ (mismSgm ⟨true, .or⟩ (dmapOf rows cols (m0.arr dm) (f0.arr vm)))) :=
    a2.trans (lift_agree _ (fun m m' h r c hr hc => occlSgmPixel_congr h _ r c hr hc) a1)
  generalize hk2 : runKernel Generated.KernelsInterp.occlusionSgmPx rows cols k1.1 k1.2 = k2 at a2'
  have hgen : interpolatedDisparitySgm off rows cols dm vm m0 f0
      = (((m0.alloc k1.1).1.alloc k2.1).1, ((f0.alloc k1.2).1.alloc k2.2).1, m0.next + 1, f0.next + 1) := by
    unfold interpolatedDisparitySgm
    simp [Store.alloc, hk1, hk2]
    constructor <;> congr!
  rw [hgen]
  refine ⟨?_, ?_, ?_, by simp, by simp⟩
  · have hd : ((m0.alloc k1.1).1.alloc k2.1).1.arr (m0.next + 1) = k2.1 := by simp [Store.alloc]
    have hf : ((f0.alloc k1.2).1.alloc k2.2).1.arr (f0.next + 1) = k2.2 := by simp [Store.alloc]
    simp only [hd, hf, interpolate, sgm]
    exact a2'
  · intro k hk
    have h1 : k ≠ m0.next := by omega
    have h2 : k ≠ m0.next + 1 := by omega
    simp [Store.alloc, h1, h2]
  · intro k hk
    have h1 : k ≠ f0.next := by omega
    have h2 : k ≠ f0.next + 1 := by omega
    simp [Store.alloc, h1, h2]

/-! ### the specification only reads the output inside the map: transfer to the generated step -/

theorem midOf_agree (meth : Method) (a : DMap) {b b' : DMap} (h : Agree b b') (hR : b.rows = a.rows) (hC : b.cols = a.cols) :
    Agree (midOf meth a b) (midOf meth a b') := by
  cases meth
  · refine ⟨rfl, rfl, fun r c hr hc => ?_, fun r c hr hc => ?_⟩ <;>
      simp only [midOf] at hr hc ⊢ <;>
      simp only [h.disp r c (hR ▸ hr) (hC ▸ hc), h.flag r c (hR ▸ hr) (hC ▸ hc)]
  · refine ⟨rfl, rfl, fun r c hr hc => ?_, fun r c hr hc => ?_⟩ <;>
      simp only [midOf] at hr hc ⊢ <;>
      simp only [h.disp r c (hR ▸ hr) (hC ▸ hc), h.flag r c (hR ▸ hr) (hC ▸ hc)]

theorem sourcesOf_congr (meth : Method) (a : DMap) {b b' : DMap} (h : Agree b b') (hR : b.rows = a.rows)
    (hC : b.cols = a.cols) (r c : Nat) : sourcesOf meth a b r c = sourcesOf meth a b' r c := by
  unfold sourcesOf
  rw [sourcesMc_congr (midOf_agree .mccnn a h hR hC), sourcesSgm_congr (midOf_agree .sgm a h hR hC)]

theorem pixelOK_congr (meth : Method) (off : Nat) (a : DMap) {b b' : DMap} (h : Agree b b') (hR : b.rows = a.rows)
    (hC : b.cols = a.cols) (r c : Nat) (hr : r < a.rows) (hc : c < a.cols) :
    pixelOK meth off a b r c = pixelOK meth off a b' r c := by
  unfold pixelOK clausesAt viewAt
  rw [sourcesOf_congr meth a h hR hC, h.flag r c (hR ▸ hr) (hC ▸ hc), h.disp r c (hR ▸ hr) (hC ▸ hc)]

/-- **The specification of C14 does not see cells outside the map**: two outputs that agree inside satisfy it together. -/
theorem spec_congr (meth : Method) (off : Nat) (a : DMap) {b b' : DMap} (h : Agree b b') (hR : b.rows = a.rows)
    (hC : b.cols = a.cols) : spec meth off a b = spec meth off a b' := by
  unfold spec
  rw [← h.rows, ← h.cols]
  congr 1
  rw [Bool.eq_iff_iff]
  simp only [List.all_eq_true, List.mem_range]
  constructor
  · intro H r hr c hc
    rw [← pixelOK_congr meth off a h hR hC r c hr hc]; exact H r hr c hc
  · intro H r hr c hc
    rw [pixelOK_congr meth off a h hR hC r c hr hc]; exact H r hr c hc

/-- **C14 for the GENERATED mc-cnn step**: every clause (`unflagged_untouched`, `filled_bits`, `filled_finite`,
    `filled_from_valid`, `filled_between_min_max`, `no_source_stays_invalid`, `filled_when_source`, `border_bit0_only`, …)
    holds at every pixel between the arrays the dataset held before the call and the arrays the generated
    `interpolatedDisparityMcCnn` leaves in it — every well-formed map, size, offset, store. -/
theorem mccnn_step_spec (off rows cols dm vm : Nat) (m0 : Store Val) (f0 : Store Nat)
    (hwf : wf .or .mccnn off (dmapOf rows cols (m0.arr dm) (f0.arr vm)) = true) :
    spec .mccnn off (dmapOf rows cols (m0.arr dm) (f0.arr vm))
      (dmapOf rows cols
        ((interpolatedDisparityMcCnn off rows cols dm vm m0 f0).1.arr (interpolatedDisparityMcCnn off rows cols dm vm m0 f0).2.2.1)
        ((interpolatedDisparityMcCnn off rows cols dm vm m0 f0).2.1.arr (interpolatedDisparityMcCnn off rows cols dm vm m0 f0).2.2.2))
      = true := by
  rw [spec_congr .mccnn off (dmapOf rows cols (m0.arr dm) (f0.arr vm)) (mccnn_step_generated off rows cols dm vm m0 f0).1 rfl rfl]
  exact C14.spec_holds ⟨true, .or⟩ rfl .mccnn off _ hwf

/-- **C14 for the GENERATED sgm step.** -/
theorem sgm_step_spec (off rows cols dm vm : Nat) (m0 : Store Val) (f0 : Store Nat)
    (hwf : wf .or .sgm off (dmapOf rows cols (m0.arr dm) (f0.arr vm)) = true) :
    spec .sgm off (dmapOf rows cols (m0.arr dm) (f0.arr vm))
      (dmapOf rows cols
        ((interpolatedDisparitySgm off rows cols dm vm m0 f0).1.arr (interpolatedDisparitySgm off rows cols dm vm m0 f0).2.2.1)
        ((interpolatedDisparitySgm off rows cols dm vm m0 f0).2.1.arr (interpolatedDisparitySgm off rows cols dm vm m0 f0).2.2.2))
      = true := by
  rw [spec_congr .sgm off (dmapOf rows cols (m0.arr dm) (f0.arr vm)) (sgm_step_generated off rows cols dm vm m0 f0).1 rfl rfl]
  exact C14.spec_holds ⟨true, .or⟩ rfl .sgm off _ hwf

/-- the attribute each class leaves, as read in the source -/
theorem attrs_source : Generated.KernelsInterpStep.attrs
    = [("McCnnInterpolation", "mc-cnn"), ("SgmInterpolation", "sgm")] := by decide

end Pandora.C14KernelsStep
