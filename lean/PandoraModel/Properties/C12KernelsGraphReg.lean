/-
  C12 — the aggregation loop of `pandora/interval_tools.py: graph_regularization` REGENERATED from the Python source
  (`Generated/KernelsRegul.lean: graphRegularization`, translator/gen_kernels_regul.py; idioms of `Model/PyAgg.lean`;
  `np.nanquantile` a parameter) is, with the model's `nanQuantile` for that library function, the hand model's
  `Confidence.graphRegularization` — for every pair of grids, every list of segments, every graph with one row per segment
  and every quantile.  So: the values aggregated for segment `i` are exactly the pixels of the segments `j` with
  `graph[i, j]`, in order; the lower bound written is the quantile `1 − q` of the aggregated lower bounds, the upper bound
  the quantile `q` of the aggregated upper bounds, over the pixels of segment `i`.
-/
import PandoraModel.Properties.C12KernelsRegul
import PandoraModel.Model.PyAgg
import PandoraModel.Lemmas.C12Regul

set_option linter.unusedSimpArgs false
set_option linter.unusedVariables false

namespace Pandora.C12KernelsRegul
open Pandora Pandora.Confidence Pandora.PyAgg

theorem sel_map {α β : Type} (f : α → β) (a : List α) (m : List Bool) : sel (a.map f) m = (sel a m).map f := by
  induction a generalizing m with
  | nil => simp [sel]
  | cons x a ih =>
    cases m with
    | nil => simp [sel]
    | cons b m =>
      have := ih m
      simp only [sel, List.map_cons, List.zip_cons_cons, List.filterMap_cons] at this ⊢
      cases b <;> simp [this]

theorem flatMap_range_getD {α β : Type} (S : List α) (d : α) (f : α → List β) :
    (List.range S.length).flatMap (fun j => f (S.getD j d)) = S.flatMap f := by
  induction S with
  | nil => rfl
  | cons x S ih =>
    rw [List.length_cons, List.range_succ_eq_map, List.flatMap_cons, List.flatMap_map]
    simp only [List.getD_cons_zero, List.flatMap_cons, List.nil_append, Function.comp_def, List.getD_cons_succ]
    rw [ih]

/-- the values gathered through the selected coordinate arrays are the model's `aggValues` -/
theorem agg_eq (g : Grid Val) (segs : List (Pos × Pos)) (m : List Bool) :
    concat (min (sel (segs.map Prod.fst) m).length (sel (segs.map Prod.snd) m).length)
        (fun j => slice g (PyAgg.cell (sel (segs.map Prod.fst) m) j 0) (PyAgg.cell (sel (segs.map Prod.fst) m) j 1)
          (PyAgg.cell (sel (segs.map Prod.snd) m) j 1 + 1))
      = aggValues g segs m := by
  rw [sel_map, sel_map]
  have hagg : aggValues g segs m = (sel segs m).flatMap (fun s => rowSlice g s.1.1 s.1.2 s.2.2) := by
    unfold aggValues sel
    induction segs generalizing m with
    | nil => simp
    | cons x segs ih =>
      cases m with
      | nil => simp
      | cons b m =>
        have := ih m
        obtain ⟨l, r⟩ := x
        cases b <;> simp [this]
  rw [hagg, ← flatMap_range_getD (sel segs m) ((0, 0), (0, 0))]
  simp only [concat, List.length_map, Nat.min_self]
  apply List.flatMap_congr
  intro j hj
  have hj' : j < (sel segs m).length := by simpa using hj
  have e : ∀ c : Nat, ((c : Int) + 1).toNat = c + 1 := by intro c; omega
  simp [PyAgg.cell, slice, rowSlice, List.getD_eq_getElem?_getD, List.getElem?_map, List.getElem?_eq_getElem hj', e]

theorem setSlice_eq (g : Grid Val) (r lo hi : Nat) (x : Val) :
    setSlice g (r : Int) (lo : Int) ((hi : Int) + 1) x = setRange g r lo hi x := by
  unfold setSlice setRange
  congr 1
  funext i row
  have e : ((hi : Int) + 1).toNat = hi + 1 := by omega
  simp only [Int.toNat_natCast, e]
  split
  · congr 1
    funext j v
    have : (lo ≤ j ∧ j < hi + 1) ↔ (lo ≤ j ∧ j ≤ hi) := by omega
    simp only [this]
  · rfl

theorem foldl_range' {σ β : Type} (l : List β) (F : σ → β → σ) (step : Nat → σ → σ) (k : Nat) (init : σ)
    (h : ∀ i (hi : i < l.length) s, step (k + i) s = F s l[i]) :
    (List.range' k l.length).foldl (fun s i => step i s) init = l.foldl F init := by
  induction l generalizing k init with
  | nil => rfl
  | cons x l ih =>
    have h0 := h 0 (by simp) init
    simp only [Nat.add_zero, List.getElem_cons_zero] at h0
    simp only [List.length_cons, List.range'_succ, List.foldl_cons, h0]
    apply ih
    intro i hi s
    have := h (i + 1) (by simpa using hi) s
    simpa [Nat.add_assoc, Nat.add_comm 1 i] using this

/-- **`graph_regularization`: the generated aggregation loop is the hand model** (with the model's `nanQuantile` for
    `np.nanquantile`), for every grids, segments, graph with one row per segment, quantile. -/
theorem graphRegularization_generated_eq (inf sup : Grid Val) (segs : List (Pos × Pos)) (graph : List (List Bool)) (q : Rat)
    (hg : graph.length = segs.length) :
    Generated.KernelsRegul.graphRegularization nanQuantile inf sup (segs.map Prod.fst) (segs.map Prod.snd) graph q
      = Confidence.graphRegularization inf sup segs graph q := by
  unfold Generated.KernelsRegul.graphRegularization Confidence.graphRegularization forRange
  have hl : (segs.zip graph).length = graph.length := by simp [hg]
  rw [List.range_eq_range', ← hl]
  apply foldl_range'
  intro i hi s
  have hi1 : i < segs.length := by simp at hi; omega
  have hi2 : i < graph.length := by simp at hi; omega
  simp only [Generated.KernelsRegul.graphRegStep, Nat.zero_add, agg_eq, List.getElem_zip]
  have hrow : graph.getD i [] = graph[i] := by simp [List.getD_eq_getElem?_getD, List.getElem?_eq_getElem hi2]
  have c0 : PyAgg.cell (segs.map Prod.fst) i 0 = ((segs[i].1.1 : Nat) : Int) := by
    simp [PyAgg.cell, List.getD_eq_getElem?_getD, List.getElem?_map, List.getElem?_eq_getElem hi1]
  have c1 : PyAgg.cell (segs.map Prod.fst) i 1 = ((segs[i].1.2 : Nat) : Int) := by
    simp [PyAgg.cell, List.getD_eq_getElem?_getD, List.getElem?_map, List.getElem?_eq_getElem hi1]
  have c2 : PyAgg.cell (segs.map Prod.snd) i 1 = ((segs[i].2.2 : Nat) : Int) := by
    simp [PyAgg.cell, List.getD_eq_getElem?_getD, List.getElem?_map, List.getElem?_eq_getElem hi1]
  rw [hrow, c0, c1, c2, setSlice_eq, setSlice_eq]

/-- the whole chain: the model's `interval_regularization` is the GENERATED `graph_regularization` run on the GENERATED
    `create_connected_graph` of the model's segments -/
theorem intervalRegularization_all_generated (inf sup amb : Grid Val) (thr : Rat) (k depth : Nat) (q : Rat) :
    intervalRegularization inf sup amb thr k depth q
      = (let segs := (borders thr k amb).1.zip (borders thr k amb).2
         Generated.KernelsRegul.graphRegularization nanQuantile inf sup (segs.map Prod.fst) (segs.map Prod.snd)
           (Generated.KernelsRegul.createConnectedGraph segs.length (blOf segs) (brOf segs) depth) q) := by
  simp only [intervalRegularization]
  rw [createConnectedGraph_generated_eq, graphRegularization_generated_eq]
  simp [Confidence.connectedGraph]
  split <;> simp

/-- **quantile1_widens, on the regenerated source**: the GENERATED `graph_regularization` on the GENERATED
    `create_connected_graph` of the segments, quantile 1: every finite lower bound stays finite and does not increase, every
    finite upper bound stays finite and does not decrease — any grids, ambiguity map, threshold, kernel, depth -/
theorem quantile1_widens_generated (inf sup amb : Grid Val) (thr : Rat) (k depth : Nat) :
    let segs := (borders thr k amb).1.zip (borders thr k amb).2
    let out := Generated.KernelsRegul.graphRegularization nanQuantile inf sup (segs.map Prod.fst) (segs.map Prod.snd)
      (Generated.KernelsRegul.createConnectedGraph segs.length (blOf segs) (brOf segs) depth) 1
    (∀ r c a, C12.cell? inf r c = some (Val.num a) → ∃ a', C12.cell? out.1 r c = some (Val.num a') ∧ a' ≤ a)
    ∧ (∀ r c a, C12.cell? sup r c = some (Val.num a) → ∃ a', C12.cell? out.2 r c = some (Val.num a') ∧ a ≤ a') := by
  have h := C12.intervalRegularization_widens inf sup amb thr k depth
  rw [intervalRegularization_all_generated] at h
  exact h

end Pandora.C12KernelsRegul
