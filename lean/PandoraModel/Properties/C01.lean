/-
  C01 — Accepted pipelines are exactly the documented automaton and run as written.

  All theorems are about the executable model `Model/Machine.lean` instantiated with the tables the
  translator regenerated from `pandora/state_machine.py` on this run (`Generated/Transitions.lean`).
-/
import PandoraModel.Model.Machine
import PandoraModel.Generated.Transitions

namespace Pandora.C01
open Pandora.Machine

/-! ### 1. The generated tables are the documented machine (finite: `decide`) -/

/-- what the check phase must answer for a trigger `check_<kind>` in state `st` -/
def checkFireSpec (st : St) (k : Kind) : Fire :=
  match documented st k with
  | some st' => Fire.fired st'.name [] [checkCbOf k]
  | none => Fire.cantTrigger

/-- what the run phase must answer: as documented, except that `multiscale` goes back to `begin`
    for the next scale, and does nothing at the last scale -/
def runFireSpec (st : St) (k : Kind) (notLast : Bool) : Fire :=
  match documented st k with
  | none => Fire.cantTrigger
  | some st' =>
    match k with
    | .multiscale => if notLast then Fire.fired St.begin.name [] ["run_multiscale"] else Fire.condFalse []
    | .matchingCost => Fire.fired st'.name ["matching_cost_prepare"] ["matching_cost_run"]
    | k => Fire.fired st'.name [] [k.name ++ "_run"]

def CheckTableOK (tbl : List Transition) : Bool :=
  (St.all.all fun st => Kind.all.all fun k => [true, false].all fun b =>
    decide (fireAt tbl st.name b ("check_" ++ k.name) = checkFireSpec st k))
  && tbl.all (fun t => Kind.all.any (fun k => t.trigger == "check_" ++ k.name))

def RunTableOK (tbl : List Transition) : Bool :=
  (St.all.all fun st => Kind.all.all fun k => [true, false].all fun b =>
    decide (fireAt tbl st.name b k.name = runFireSpec st k b))
  && tbl.all (fun t => Kind.all.any (fun k => t.trigger == k.name))

/-- The check table in the source is the documented automaton. -/
theorem checkTable_documented : CheckTableOK Generated.transitionsCheck = true := by decide

/-- The run table in the source mirrors it (multiscale: conditional return to `begin`). -/
theorem runTable_documented : RunTableOK Generated.transitionsRun = true := by decide


/-! ### 2. Helper facts -/

theorem St.mem_all (st : St) : st ∈ St.all := by cases st <;> simp [St.all]
theorem Kind.mem_all (k : Kind) : k ∈ Kind.all := by cases k <;> simp [Kind.all]

theorem ofName_some {s : String} {k : Kind} (h : Kind.ofName? s = some k) : s = k.name := by
  unfold Kind.ofName? at h
  have := List.find?_some h
  exact (by simpa using this : k.name = s).symm

theorem ofName_none {s : String} (h : Kind.ofName? s = none) : ∀ k : Kind, s ≠ k.name := by
  intro k hk
  unfold Kind.ofName? at h
  rw [List.find?_eq_none] at h
  have := h k (Kind.mem_all k)
  simp [hk] at this

theorem append_left_cancel {p a b : String} (h : p ++ a = p ++ b) : a = b := by
  have h' := congrArg String.toList h
  simp only [String.toList_append] at h'
  exact String.toList_inj.mp (List.append_cancel_left h')

theorem fire_check_kind {tbl} (hT : CheckTableOK tbl = true) (st : St) (k : Kind) (b : Bool) :
    fireAt tbl st.name b ("check_" ++ k.name) = checkFireSpec st k := by
  unfold CheckTableOK at hT
  simp only [Bool.and_eq_true, List.all_eq_true] at hT
  have h := hT.1 st (St.mem_all st) k (Kind.mem_all k) b (by cases b <;> simp)
  simpa using h

theorem fire_check_unknown {tbl} (hT : CheckTableOK tbl = true) (st : String) (b : Bool) (s : String)
    (hs : ∀ k : Kind, s ≠ k.name) : fireAt tbl st b ("check_" ++ s) = Fire.unknownEvent := by
  unfold CheckTableOK at hT
  simp only [Bool.and_eq_true, List.all_eq_true, List.any_eq_true] at hT
  have hnone : tbl.any (fun t => t.trigger == "check_" ++ s) = false := by
    rw [List.any_eq_false]
    intro t ht
    obtain ⟨k, _, hk⟩ := hT.2 t ht
    intro heq
    have h1 : t.trigger = "check_" ++ k.name := by simpa using hk
    have h2 : t.trigger = "check_" ++ s := by simpa using heq
    exact hs k (append_left_cancel (h2.symm.trans h1))
  simp [fireAt, hnone]

theorem fire_run_kind {tbl} (hT : RunTableOK tbl = true) (st : St) (k : Kind) (b : Bool) :
    fireAt tbl st.name b k.name = runFireSpec st k b := by
  unfold RunTableOK at hT
  simp only [Bool.and_eq_true, List.all_eq_true] at hT
  have h := hT.1 st (St.mem_all st) k (Kind.mem_all k) b (by cases b <;> simp)
  simpa using h

theorem fire_run_unknown {tbl} (hT : RunTableOK tbl = true) (st : String) (b : Bool) (s : String)
    (hs : ∀ k : Kind, s ≠ k.name) : fireAt tbl st b s = Fire.unknownEvent := by
  unfold RunTableOK at hT
  simp only [Bool.and_eq_true, List.all_eq_true, List.any_eq_true] at hT
  have hnone : tbl.any (fun t => t.trigger == s) = false := by
    rw [List.any_eq_false]
    intro t ht
    obtain ⟨k, _, hk⟩ := hT.2 t ht
    intro heq
    have h1 : t.trigger = k.name := by simpa using hk
    have h2 : t.trigger = s := by simpa using heq
    exact hs k (h2.symm.trans h1)
  simp [fireAt, hnone]


/-! ### 3. The check phase -/

/-- the check callback of step `n` succeeds in round `second` -/
def cbOk (env : CheckEnv) (second : Bool) (n : String) : Bool :=
  match Kind.ofName? (kindOf n) with
  | some k => decide (env.outcome (checkCbOf k) n second = CbOutcome.ok)
  | none => true

/-- some step of the pipeline sets `right_disp_map` when checked -/
def setsRightIn (env : CheckEnv) (names : List String) : Bool :=
  names.any fun n =>
    match Kind.ofName? (kindOf n) with
    | some k => env.setsRight (checkCbOf k)
    | none => false

theorem checkLoop_path {tbl} (hT : CheckTableOK tbl = true) (env : CheckEnv) (second : Bool) :
    ∀ (names : List String) (st : St) (m : MState) (tr : Trace),
      m.table = tbl → m.state = st.name → isPath st names = true →
      (∀ n ∈ names, cbOk env second n = true) →
      checkLoop env second names m tr =
        (Res.ok,
         { m with state := (pathEnd st names).name,
                  rightDispMap := m.rightDispMap || setsRightIn env names },
         tr ++ expectedCheckRound second names) := by
  intro names
  induction names with
  | nil =>
    intro st m tr _ hs _ _
    simp [checkLoop, pathEnd, setsRightIn, expectedCheckRound, ← hs]
  | cons n ns ih =>
    intro st m tr ht hs hp hok
    simp only [isPath] at hp
    cases hk : Kind.ofName? (kindOf n) with
    | none => simp [hk] at hp
    | some k =>
      simp only [hk] at hp
      cases hd : documented st k with
      | none => simp [hd] at hp
      | some st' =>
        simp only [hd] at hp
        have hkn : kindOf n = k.name := ofName_some hk
        have hfire : fire m ("check_" ++ kindOf n) = Fire.fired st'.name [] [checkCbOf k] := by
          unfold fire
          rw [ht, hs, hkn, fire_check_kind hT]
          simp [checkFireSpec, hd]
        have hokn : env.outcome (checkCbOf k) n second = CbOutcome.ok := by
          have := hok n (by simp)
          simpa [cbOk, hk] using this
        have hoks : ∀ x ∈ ns, cbOk env second x = true := fun x hx => hok x (by simp [hx])
        simp only [checkLoop, checkStep, hfire, runCheckCbs, hokn]
        split
        · rename_i hsr
          rw [ih st' _ _ (by simp [ht]) (by simp) hp hoks]
          simp [pathEnd, hk, hd, setsRightIn, expectedCheckRound, hsr, List.flatMap_cons]
        · rename_i hsr
          rw [ih st' _ _ (by simp [ht]) (by simp) hp hoks]
          simp [pathEnd, hk, hd, setsRightIn, expectedCheckRound, hsr, List.flatMap_cons]


theorem checkLoop_ok_iff {tbl} (hT : CheckTableOK tbl = true) (env : CheckEnv) (second : Bool) :
    ∀ (names : List String) (st : St) (m : MState) (tr : Trace),
      m.table = tbl → m.state = st.name →
      ((checkLoop env second names m tr).1 = Res.ok ↔
        (isPath st names = true ∧ ∀ n ∈ names, cbOk env second n = true)) := by
  intro names
  induction names with
  | nil => intro st m tr _ _; simp [checkLoop, isPath]
  | cons n ns ih =>
    intro st m tr ht hs
    cases hk : Kind.ofName? (kindOf n) with
    | none =>
      have hfire : fire m ("check_" ++ kindOf n) = Fire.unknownEvent := by
        unfold fire; rw [ht]; exact fire_check_unknown hT _ _ _ (ofName_none hk)
      simp [checkLoop, checkStep, hfire, isPath, hk]
    | some k =>
      have hkn : kindOf n = k.name := ofName_some hk
      cases hd : documented st k with
      | none =>
        have hfire : fire m ("check_" ++ kindOf n) = Fire.cantTrigger := by
          unfold fire; rw [ht, hs, hkn, fire_check_kind hT]; simp [checkFireSpec, hd]
        simp [checkLoop, checkStep, hfire, isPath, hk, hd]
      | some st' =>
        have hfire : fire m ("check_" ++ kindOf n) = Fire.fired st'.name [] [checkCbOf k] := by
          unfold fire; rw [ht, hs, hkn, fire_check_kind hT]; simp [checkFireSpec, hd]
        cases ho : env.outcome (checkCbOf k) n second with
        | ok =>
          simp only [checkLoop, checkStep, hfire, runCheckCbs, ho]
          split
          · rw [ih st' _ _ (by simp [ht]) (by simp)]
            simp [isPath, hk, hd, cbOk, ho]
          · rw [ih st' _ _ (by simp [ht]) (by simp)]
            simp [isPath, hk, hd, cbOk, ho]
        | seqErr => simp [checkLoop, checkStep, hfire, runCheckCbs, ho, cbOk, hk]
        | otherErr => simp [checkLoop, checkStep, hfire, runCheckCbs, ho, cbOk, hk]

/-- A list that is not a path is rejected with the *sequencing* error (when no earlier callback
    raised something else first). -/
theorem checkLoop_not_path_seqErr {tbl} (hT : CheckTableOK tbl = true) (env : CheckEnv) (second : Bool) :
    ∀ (names : List String) (st : St) (m : MState) (tr : Trace),
      m.table = tbl → m.state = st.name → isPath st names = false →
      (∀ n ∈ names, cbOk env second n = true) →
      (checkLoop env second names m tr).1 = Res.seqErr := by
  intro names
  induction names with
  | nil => intro st m tr _ _ hp; simp [isPath] at hp
  | cons n ns ih =>
    intro st m tr ht hs hp hok
    cases hk : Kind.ofName? (kindOf n) with
    | none =>
      have hfire : fire m ("check_" ++ kindOf n) = Fire.unknownEvent := by
        unfold fire; rw [ht]; exact fire_check_unknown hT _ _ _ (ofName_none hk)
      simp [checkLoop, checkStep, hfire]
    | some k =>
      have hkn : kindOf n = k.name := ofName_some hk
      cases hd : documented st k with
      | none =>
        have hfire : fire m ("check_" ++ kindOf n) = Fire.cantTrigger := by
          unfold fire; rw [ht, hs, hkn, fire_check_kind hT]; simp [checkFireSpec, hd]
        simp [checkLoop, checkStep, hfire]
      | some st' =>
        have hfire : fire m ("check_" ++ kindOf n) = Fire.fired st'.name [] [checkCbOf k] := by
          unfold fire; rw [ht, hs, hkn, fire_check_kind hT]; simp [checkFireSpec, hd]
        have hokn : env.outcome (checkCbOf k) n second = CbOutcome.ok := by
          have := hok n (by simp)
          simpa [cbOk, hk] using this
        have hp' : isPath st' ns = false := by simpa [isPath, hk, hd] using hp
        have hoks : ∀ x ∈ ns, cbOk env second x = true := fun x hx => hok x (by simp [hx])
        simp only [checkLoop, checkStep, hfire, runCheckCbs, hokn]
        split
        · exact ih st' _ _ (by simp [ht]) (by simp) hp' hoks
        · exact ih st' _ _ (by simp [ht]) (by simp) hp' hoks


theorem removeTable_self (tbl : List Transition) (m : MState) (h : m.table = tbl) :
    (removeTable tbl m).table = [] := by
  simp only [removeTable, h, List.filter_eq_nil_iff]
  intro t ht
  simp only [Bool.not_eq_eq_eq_not, Bool.not_true, Bool.not_eq_false, List.any_eq_true]
  exact ⟨t, ht, by simp⟩

/-- the environment hypothesis tied to the source by `rightWriters_documented` below:
    among the check callbacks only `validation_check_conf` sets `right_disp_map` -/
def RightOnlyValidation (env : CheckEnv) : Prop :=
  ∀ cb, env.setsRight cb = (cb == "validation_check_conf")

theorem setsRightIn_eq_hasValidation (env : CheckEnv) (hR : RightOnlyValidation env) (names : List String) :
    setsRightIn env names = hasKind .validation names := by
  unfold setsRightIn hasKind
  congr 1
  funext n
  cases hk : Kind.ofName? (kindOf n) with
  | none =>
    have := ofName_none hk Kind.validation
    simp [this]
  | some k =>
    rw [ofName_some hk]
    have h := hR (checkCbOf k)
    simp only [h]
    cases k <;> decide

theorem checkRound_accepts {tbl} (hT : CheckTableOK tbl = true) (env : CheckEnv) (second : Bool)
    (names : List String) (m : MState) (tr : Trace)
    (hs : m.state = "begin") (ht : m.table = []) (hp : isPath .begin names = true)
    (hok : ∀ n ∈ names, cbOk env second n = true) :
    checkRound tbl env second names m tr =
      (Res.ok, { m with rightDispMap := m.rightDispMap || setsRightIn env names },
       tr ++ expectedCheckRound second names) := by
  unfold checkRound
  have h := checkLoop_path hT env second names .begin { m with table := m.table ++ tbl } tr
    (by simp [ht]) (by simp [hs, St.name]) hp hok
  simp only [h]
  have hrm := removeTable_self tbl
    { m with table := m.table ++ tbl, state := (pathEnd St.begin names).name,
             rightDispMap := m.rightDispMap || setsRightIn env names } (by simp [ht])
  simp only [removeTable] at hrm ⊢
  simp [hrm, ← hs, ← ht]

/-- **Acceptance.** On a machine in its initial state, a pipeline that spells a path of the
    documented machine and whose steps all have valid parameters is accepted; the check callbacks
    ran once each, in the configured order (and once more, right/left exchanged, when a validation
    step is present); the machine is back in `begin` with no transition left. -/
theorem checkConf_accepts {tbl} (hT : CheckTableOK tbl = true) (env : CheckEnv)
    (hR : RightOnlyValidation env) (names : List String) (m : MState)
    (hs : m.state = "begin") (ht : m.table = []) (hp : isPath .begin names = true)
    (hok1 : ∀ n ∈ names, cbOk env false n = true)
    (hok2 : (m.rightDispMap || hasKind .validation names) = true → ∀ n ∈ names, cbOk env true n = true) :
    checkConf tbl env names m [] =
      (Res.ok, { m with rightDispMap := m.rightDispMap || hasKind .validation names },
       expectedCheckRound false names ++
         (if (m.rightDispMap || hasKind .validation names) then expectedCheckRound true names else [])) := by
  unfold checkConf
  rw [checkRound_accepts hT env false names m [] hs ht hp hok1, setsRightIn_eq_hasValidation env hR]
  simp only [List.nil_append]
  cases hr : (m.rightDispMap || hasKind .validation names) with
  | false => simp
  | true =>
    simp only [if_true]
    rw [checkRound_accepts hT env true names _ _ (by simp [hs]) (by simp [ht]) hp (hok2 hr),
      setsRightIn_eq_hasValidation env hR]
    simp

/-- On a fresh machine the trace is exactly `expectedCheck`. -/
theorem checkConf_accepts_fresh {tbl} (hT : CheckTableOK tbl = true) (env : CheckEnv)
    (hR : RightOnlyValidation env) (names : List String)
    (hp : isPath .begin names = true)
    (hok1 : ∀ n ∈ names, cbOk env false n = true)
    (hok2 : hasKind .validation names = true → ∀ n ∈ names, cbOk env true n = true) :
    checkConf tbl env names {} [] =
      (Res.ok, { rightDispMap := hasKind .validation names }, expectedCheck names) := by
  have := checkConf_accepts hT env hR names {} rfl rfl hp hok1 (by simpa using hok2)
  simpa [expectedCheck] using this

/-- **Acceptance is exactly path-hood plus valid parameters** (first round shown; the second round
    re-checks the same steps with the images exchanged). -/
theorem checkConf_ok_imp {tbl} (hT : CheckTableOK tbl = true) (env : CheckEnv)
    (names : List String) (m : MState) (hs : m.state = "begin") (ht : m.table = []) :
    (checkConf tbl env names m []).1 = Res.ok →
      isPath .begin names = true ∧ ∀ n ∈ names, cbOk env false n = true := by
  intro h
  unfold checkConf checkRound at h
  have hiff := checkLoop_ok_iff hT env false names .begin { m with table := m.table ++ tbl } []
    (by simp [ht]) (by simp [hs, St.name])
  apply hiff.mp
  generalize hres : checkLoop env false names { m with table := m.table ++ tbl } [] = res at h
  obtain ⟨r, m2, tr2⟩ := res
  cases r <;> simp_all

/-- **Rejection is the sequencing error**: a list that does not spell a path is refused with the
    sequencing error, whatever the history of the (initial-state) machine. -/
theorem checkConf_rejects_not_path {tbl} (hT : CheckTableOK tbl = true) (env : CheckEnv)
    (names : List String) (m : MState) (hs : m.state = "begin") (ht : m.table = [])
    (hp : isPath .begin names = false) (hok : ∀ n ∈ names, cbOk env false n = true) :
    (checkConf tbl env names m []).1 = Res.seqErr := by
  unfold checkConf checkRound
  have h := checkLoop_not_path_seqErr hT env false names .begin { m with table := m.table ++ tbl } []
    (by simp [ht]) (by simp [hs, St.name]) hp hok
  generalize hres : checkLoop env false names { m with table := m.table ++ tbl } [] = res at h
  obtain ⟨r, m2, tr2⟩ := res
  simp at h
  subst h
  simp [hres]


/-! ### 4. The run phase -/

theorem emit_eq (cb n : String) (m : MState) :
    emit cb n m = sideEvents cb n m.currentScale m.rightDispMap := by
  unfold emit sideEvents; rfl

theorem documented_ne_begin {st st' : St} {k : Kind} (h : documented st k = some st') :
    (st'.name == "begin") = false := by
  cases st <;> cases k <;> simp [documented] at h <;> subst h <;> decide

/-- the machine after step `n` of kind `k` fired from `st` (documented destination `st'`) -/
def afterStep (m : MState) (k : Kind) (st' : St) : MState :=
  match k with
  | .multiscale =>
    if m.currentScale = 0 then m
    else { m with state := "begin", currentScale := m.currentScale - 1 }
  | _ => { m with state := st'.name }

theorem runStep_spec {tbl} (hT : RunTableOK tbl = true) (n : String) (m : MState) (tr : Trace)
    (st st' : St) (k : Kind) (ht : m.table = tbl) (hs : m.state = st.name)
    (hk : Kind.ofName? (kindOf n) = some k) (hd : documented st k = some st') :
    runStep n m tr = (Res.ok, afterStep m k st', tr ++ stepEvents n m.currentScale m.rightDispMap) := by
  have hkn : kindOf n = k.name := ofName_some hk
  have hfire : fire m (kindOf n) = runFireSpec st k (m.currentScale != 0) := by
    unfold fire; rw [ht, hs, hkn, fire_run_kind hT]
  unfold runStep
  rw [hfire]
  cases k <;>
    simp [runFireSpec, hd, runCbs, emit_eq, decrementsScale, afterStep, stepEvents, hk, runCbsOf,
      Kind.name, List.flatMap_cons] <;>
    (by_cases h0 : m.currentScale = 0 <;> simp [h0, runCbs, emit_eq, decrementsScale, St.name])


/-- last scale (`current_scale = 0`): every step of the path runs once, in order -/
theorem runScale_last {tbl} (hT : RunTableOK tbl = true) :
    ∀ (names : List String) (st : St) (m : MState) (tr : Trace),
      m.table = tbl → m.state = st.name → m.currentScale = 0 → isPath st names = true →
      runScale names m tr =
        (Res.ok, { m with state := (pathEnd st names).name },
         tr ++ names.flatMap (fun n => stepEvents n 0 m.rightDispMap)) := by
  intro names
  induction names with
  | nil => intro st m tr _ hs _ _; simp [runScale, pathEnd, ← hs]
  | cons n ns ih =>
    intro st m tr ht hs hc hp
    simp only [isPath] at hp
    cases hk : Kind.ofName? (kindOf n) with
    | none => simp [hk] at hp
    | some k =>
      simp only [hk] at hp
      cases hd : documented st k with
      | none => simp [hd] at hp
      | some st' =>
        simp only [hd] at hp
        have hstep := runStep_spec hT n m tr st st' k ht hs hk hd
        have hnb : ((afterStep m k st').state == "begin") = false := by
          cases k <;> simp [afterStep, hc, documented_ne_begin hd]
          -- multiscale at the last scale: the machine stays in disp_map
          cases st <;> simp [documented] at hd
          simp [hs, St.name]
        have hstate : (afterStep m k st').state = st'.name := by
          cases k <;> simp [afterStep, hc]
          cases st <;> simp [documented] at hd
          subst hd; simp [hs]
        simp only [runScale, hstep, hnb]
        rw [ih st' (afterStep m k st') _ (by cases k <;> simp [afterStep, hc, ht]) hstate
          (by cases k <;> simp [afterStep, hc]) hp]
        have hr : (afterStep m k st').rightDispMap = m.rightDispMap := by
          cases k <;> simp [afterStep, hc]
        simp [hr, hc, pathEnd, hk, hd, List.flatMap_cons, List.append_assoc]
        cases k <;> simp [afterStep, hc]


theorem hasKind_cons (k : Kind) (n : String) (ns : List String) :
    hasKind k (n :: ns) = (kindOf n == k.name || hasKind k ns) := by
  simp [hasKind]

/-- a coarse scale (`current_scale = s + 1`): the steps up to and including the first multiscale
    step run once, then the machine is back in `begin` one scale finer -/
theorem runScale_coarse {tbl} (hT : RunTableOK tbl = true) (s : Nat) :
    ∀ (names : List String) (st : St) (m : MState) (tr : Trace),
      m.table = tbl → m.state = st.name → m.currentScale = s + 1 → isPath st names = true →
      hasKind .multiscale names = true →
      runScale names m tr =
        (Res.ok, { m with state := "begin", currentScale := s },
         tr ++ (uptoMultiscale names).flatMap (fun n => stepEvents n (s + 1) m.rightDispMap)) := by
  intro names
  induction names with
  | nil => intro st m tr _ _ _ _ hm; simp [hasKind] at hm
  | cons n ns ih =>
    intro st m tr ht hs hc hp hm
    simp only [isPath] at hp
    cases hk : Kind.ofName? (kindOf n) with
    | none => simp [hk] at hp
    | some k =>
      simp only [hk] at hp
      cases hd : documented st k with
      | none => simp [hd] at hp
      | some st' =>
        simp only [hd] at hp
        have hstep := runStep_spec hT n m tr st st' k ht hs hk hd
        have hkn : kindOf n = k.name := ofName_some hk
        by_cases hmk : k = Kind.multiscale
        · subst hmk
          simp [runScale, hstep, afterStep, hc, uptoMultiscale, hkn]
        · have hne : (kindOf n == Kind.multiscale.name) = false := by
            rw [hkn]; cases k <;> first | decide | exact absurd rfl hmk
          have hm' : hasKind .multiscale ns = true := by
            rw [hasKind_cons, hne] at hm; simpa using hm
          have hafter : afterStep m k st' = { m with state := st'.name } := by
            cases k <;> first | rfl | exact absurd rfl hmk
          simp only [runScale, hstep, hafter, documented_ne_begin hd]
          rw [ih st' _ _ (by simp [ht]) (by simp) (by simp [hc]) hp hm']
          simp [uptoMultiscale, hne, hc, List.flatMap_cons, List.append_assoc]


/-- the scale loop: coarse scales first, then the full pipeline at scale 0 -/
theorem runScales_spec {tbl} (hT : RunTableOK tbl = true) (names : List String)
    (hp : isPath .begin names = true) :
    ∀ (k : Nat) (m : MState) (tr : Trace),
      m.table = tbl → m.state = "begin" → m.currentScale + 1 = k →
      (2 ≤ k → hasKind .multiscale names = true) →
      runScales names k m tr =
        (Res.ok, { m with state := (pathEnd .begin names).name, currentScale := 0 },
         tr ++ (expectedCoarse names m.rightDispMap (k - 1)
                ++ names.flatMap (fun n => stepEvents n 0 m.rightDispMap))) := by
  intro k
  induction k with
  | zero => intro m tr _ _ hc; omega
  | succ j ih =>
    intro m tr ht hs hc hms
    have hcj : m.currentScale = j := by omega
    cases j with
    | zero =>
      have h := runScale_last hT names .begin m tr ht (by simp [hs, St.name]) hcj hp
      simp [runScales, h, expectedCoarse, hcj]
    | succ i =>
      have h := runScale_coarse hT i names .begin m tr ht (by simp [hs, St.name]) hcj hp (hms (by omega))
      have hunf : runScales names (i + 1 + 1) m tr =
          (match runScale names m tr with
           | (Res.ok, m', tr') => runScales names (i + 1) m' tr'
           | r => r) := rfl
      rw [hunf, h]
      simp only []
      rw [ih _ _ (by simp [ht]) (by simp) (by simp) (fun h2 => hms (by omega))]
      simp [expectedCoarse, List.append_assoc]

theorem contains_validation_hasKind (names : List String) (h : names.contains "validation" = true) :
    hasKind .validation names = true := by
  simp only [List.contains_iff_mem] at h
  simp only [hasKind, List.any_eq_true]
  exact ⟨"validation", h, by decide⟩

/-- **An accepted pipeline runs as written.** On a machine in its initial state that has checked
    the pipeline (`right_disp_map` set iff a validation step is present), `pandora.run` raises no
    sequencing error, each configured step takes effect exactly once per processed scale, in the
    configured order, on the left data and — iff there is a validation step — on the right data
    immediately after; the machine is back in `begin` with no transition left. -/
theorem run_accepts {tbl} (hT : RunTableOK tbl = true) (names : List String) (n : Nat) (m : MState)
    (hs : m.state = "begin") (ht : m.table = []) (hp : isPath .begin names = true)
    (hn : 1 ≤ n) (hms : 2 ≤ n → hasKind .multiscale names = true)
    (hr : m.rightDispMap = hasKind .validation names) :
    runPipeline tbl names n m [] =
      (Res.ok, { m with numScales := n, currentScale := 0 },
       expectedRun names n (hasKind .validation names)) := by
  unfold runPipeline
  have hr' : (runPrepare tbl names n m).rightDispMap = hasKind .validation names := by
    simp only [runPrepare]
    split
    · rename_i hc; exact (contains_validation_hasKind names hc).symm
    · exact hr
  have h := runScales_spec hT names hp n (runPrepare tbl names n m) []
    (by simp [runPrepare, ht]) (by simp [runPrepare, hs]) (by simp [runPrepare]; omega) hms
  have hns : (runPrepare tbl names n m).numScales = n := by simp [runPrepare]
  simp only [hns, h, hr']
  have hrm := removeTable_self tbl
    { runPrepare tbl names n m with state := (pathEnd St.begin names).name, currentScale := 0 }
    (by simp [runPrepare, ht])
  simp only [removeTable] at hrm ⊢
  simp [hrm, expectedRun, ← hs, ← ht]
  simp [hr]


/-! ### 5. Histories of check / run calls on one machine object -/

inductive Op where
  | check
  | run (numScales : Nat)
  deriving Repr, DecidableEq

def stepOp (tblC tblR : List Transition) (env : CheckEnv) (names : List String) (m : MState) :
    Op → Res × MState × Trace
  | .check => checkConf tblC env names m []
  | .run n => runPipeline tblR names n m []

def expectedOp (names : List String) : Op → Trace
  | .check => expectedCheck names
  | .run n => expectedRun names n (hasKind .validation names)

/-- the number of scales a run is asked for is what the configuration can express:
    1, or more only when the pipeline has a multiscale step -/
def Op.wf (names : List String) : Op → Prop
  | .check => True
  | .run n => 1 ≤ n ∧ (2 ≤ n → hasKind .multiscale names = true)

/-- every call of the history succeeds with the expected trace -/
def AllOk (tblC tblR : List Transition) (env : CheckEnv) (names : List String) :
    List Op → MState → Prop
  | [], _ => True
  | op :: ops, m =>
    (stepOp tblC tblR env names m op).1 = Res.ok ∧
    (stepOp tblC tblR env names m op).2.2 = expectedOp names op ∧
    AllOk tblC tblR env names ops (stepOp tblC tblR env names m op).2.1

/-- machine invariant between successful calls -/
def Inv (names : List String) (m : MState) : Prop :=
  m.state = "begin" ∧ m.table = [] ∧ m.rightDispMap = hasKind .validation names

theorem history_inv {tblC tblR} (hC : CheckTableOK tblC = true) (hRn : RunTableOK tblR = true)
    (env : CheckEnv) (hR : RightOnlyValidation env) (names : List String)
    (hp : isPath .begin names = true)
    (hok1 : ∀ n ∈ names, cbOk env false n = true)
    (hok2 : hasKind .validation names = true → ∀ n ∈ names, cbOk env true n = true) :
    ∀ (ops : List Op) (m : MState), Inv names m → (∀ op ∈ ops, op.wf names) →
      AllOk tblC tblR env names ops m := by
  intro ops
  induction ops with
  | nil => intro m _ _; trivial
  | cons op ops ih =>
    intro m hinv hwf
    obtain ⟨hs, ht, hr⟩ := hinv
    cases op with
    | check =>
      have h := checkConf_accepts hC env hR names m hs ht hp hok1
        (by rw [hr]; simpa using hok2)
      simp only [AllOk, stepOp, h, hr, Bool.or_self, expectedOp, expectedCheck, true_and]
      exact ih _ ⟨hs, ht, by simp⟩ (fun o ho => hwf o (by simp [ho]))
    | run n =>
      have hw : Op.wf names (.run n) := hwf _ (by simp)
      have h := run_accepts hRn names n m hs ht hp hw.1 hw.2 hr
      simp only [AllOk, stepOp, h, expectedOp, true_and]
      exact ih _ ⟨hs, ht, hr⟩ (fun o ho => hwf o (by simp [ho]))

/-- **Every history** `check p, then any sequence of check p / run p` on one fresh machine object:
    every call succeeds and produces the same trace as the first call of its kind — a second check
    or run of the same pipeline on the same machine behaves identically. -/
theorem history_identical {tblC tblR} (hC : CheckTableOK tblC = true) (hRn : RunTableOK tblR = true)
    (env : CheckEnv) (hR : RightOnlyValidation env) (names : List String)
    (hp : isPath .begin names = true)
    (hok1 : ∀ n ∈ names, cbOk env false n = true)
    (hok2 : hasKind .validation names = true → ∀ n ∈ names, cbOk env true n = true)
    (ops : List Op) (hwf : ∀ op ∈ ops, op.wf names) :
    AllOk tblC tblR env names (.check :: ops) {} := by
  have h := checkConf_accepts_fresh hC env hR names hp hok1 hok2
  simp only [AllOk, stepOp, h, expectedOp, true_and]
  exact history_inv hC hRn env hR names hp hok1 hok2 ops _ ⟨rfl, rfl, rfl⟩ hwf

/-! ### 6. The theorems instantiated with the tables of the source -/

theorem source_accepts_iff_path (env : CheckEnv) (names : List String) :
    (checkConf Generated.transitionsCheck env names {} []).1 = Res.ok →
      isPath .begin names = true ∧ ∀ n ∈ names, cbOk env false n = true :=
  checkConf_ok_imp checkTable_documented env names {} rfl rfl

theorem source_accepts (env : CheckEnv) (hR : RightOnlyValidation env) (names : List String)
    (hp : isPath .begin names = true)
    (hok1 : ∀ n ∈ names, cbOk env false n = true)
    (hok2 : hasKind .validation names = true → ∀ n ∈ names, cbOk env true n = true) :
    checkConf Generated.transitionsCheck env names {} [] =
      (Res.ok, { rightDispMap := hasKind .validation names }, expectedCheck names) :=
  checkConf_accepts_fresh checkTable_documented env hR names hp hok1 hok2

theorem source_rejects (env : CheckEnv) (names : List String)
    (hp : isPath .begin names = false) (hok : ∀ n ∈ names, cbOk env false n = true) :
    (checkConf Generated.transitionsCheck env names {} []).1 = Res.seqErr :=
  checkConf_rejects_not_path checkTable_documented env names {} rfl rfl hp hok

theorem source_history (env : CheckEnv) (hR : RightOnlyValidation env) (names : List String)
    (hp : isPath .begin names = true)
    (hok1 : ∀ n ∈ names, cbOk env false n = true)
    (hok2 : hasKind .validation names = true → ∀ n ∈ names, cbOk env true n = true)
    (ops : List Op) (hwf : ∀ op ∈ ops, op.wf names) :
    AllOk Generated.transitionsCheck Generated.transitionsRun env names (.check :: ops) {} :=
  history_identical checkTable_documented runTable_documented env hR names hp hok1 hok2 ops hwf

/-! ### 6b. The environment hypotheses are what the source says (attribute write sets, `decide`) -/

def writersOf (a : String) : List String :=
  match Generated.attrWriters.find? (fun p => p.1 == a) with
  | some p => p.2
  | none => []

def checkCallbacks : List String := Generated.transitionsCheck.flatMap (fun t => t.prepare ++ t.after)
def runCallbacks : List String := Generated.transitionsRun.flatMap (fun t => t.prepare ++ t.after)

/-- `RightOnlyValidation`: among the check callbacks only `validation_check_conf` assigns
    `right_disp_map`; no run callback assigns it (only `run_prepare` does, as modelled). -/
theorem rightWriters_documented :
    checkCallbacks.filter (fun cb => (writersOf "right_disp_map").contains cb) = ["validation_check_conf"]
    ∧ runCallbacks.filter (fun cb => (writersOf "right_disp_map").contains cb) = [] := by decide

/-- `decrementsScale`: among the run callbacks only `run_multiscale` assigns `current_scale`. -/
theorem scaleWriters_documented :
    runCallbacks.filter (fun cb => (writersOf "current_scale").contains cb) = ["run_multiscale"]
    ∧ checkCallbacks.filter (fun cb => (writersOf "current_scale").contains cb) = []
    ∧ runCallbacks.all (fun cb => decrementsScale cb == (writersOf "current_scale").contains cb) = true := by
  decide

/-- no method assigns `self.state` directly (only the library and `set_state` change it) -/
theorem state_not_assigned : writersOf "state" = [] := by decide

/-! ### 7. Non-vacuity: a concrete pipeline meets the hypotheses, and the traces are what one expects -/

def exampleEnv : CheckEnv :=
  { outcome := fun _ _ _ => CbOutcome.ok, setsRight := fun cb => cb == "validation_check_conf" }

def examplePipeline : List String :=
  ["matching_cost", "aggregation", "disparity", "filter", "refinement", "validation", "filter.1", "multiscale"]

example : isPath .begin examplePipeline = true := by decide
example : hasKind .validation examplePipeline = true ∧ hasKind .multiscale examplePipeline = true := by decide
example : isPath .begin ["matching_cost", "filter"] = false := by decide
example : isPath .begin ["disparity"] = false := by decide
example : RightOnlyValidation exampleEnv := fun _ => rfl
example : (expectedRun ["matching_cost", "disparity", "multiscale", "filter"] 2 false).length = 8 := by decide
example : (checkConf Generated.transitionsCheck exampleEnv ["matching_cost", "disparity", "validation"] {} []).1 = Res.ok := by
  decide

end Pandora.C01
