/-
  C13 — vertical flip of cross-based cost aggregation.

  (1) array level: `flipInput inp` lists the rows of the images, of the masks and of the cost volume bottom-up (same
      configuration).  `specAgg_flip` : `specAgg (flipInput inp) (H - 1 - y) x dsp = specAgg inp y x dsp` — the 3×3
      pre-filter commutes with the row flip (the window listed bottom-up is a permutation, the interior test is
      symmetric), the cross support of the flipped image at the flipped pixel has `top` and `bot` exchanged
      (`crossSupport_flip`), the facing column does not look at rows, the region is the region flipped row-wise: same
      cells, rows met in the other order (`sumRange_reverse`).  `aggregate_flip` : for `Cbca.aggregate`.
  (2) `cbcaStep_vflip : VFlip (cbcaStep Q)` — on EVERY partial image (no `RectDom` needed): the view of the flipped
      image is the view with negated row offsets, `vUp`/`vDn` are exchanged, the window of the negated view is the
      flipped window (inside its size; `specAgg_crop_eq_whole` with an empty translation removes what lies outside).
  (3) the pipeline theorems `pipeline_flip`, `filter_flip`, `pipeline_flip_flags`, `pipeline_flip_flags_both`,
      `filter_flip_flags` with `agg := cbcaStep Q`; `aggregate_flip_run` (arrays, through the step).
-/
import PandoraModel.Properties.C13CbcaStep
import PandoraModel.Properties.C13FlipFlags

namespace Pandora.C13
open Pandora Pandora.Locality

/-! ### `Cbca.nanmedian` does not depend on the order of the window -/

theorem cbca_insertSorted_eq (x : Rat) (l : List Rat) :
    Cbca.insertSorted x l = List.orderedInsert (· ≤ ·) x l := by
  induction l with
  | nil => rfl
  | cons y ys ih => simp [Cbca.insertSorted, List.orderedInsert, ih]

theorem cbca_sortR_eq (l : List Rat) : Cbca.sortR l = List.insertionSort (· ≤ ·) l := by
  induction l with
  | nil => rfl
  | cons x xs ih => simp [Cbca.sortR, List.insertionSort, ih, cbca_insertSorted_eq]

theorem cbca_finites_eq (l : List Val) :
    Cbca.finites l = l.filterMap (fun v => match v with | .num q => some q | .nan => none) := by
  induction l with
  | nil => rfl
  | cons v t ih => cases v <;> simp [Cbca.finites, ih]

theorem cbca_nanmedian_perm {l₁ l₂ : List Val} (h : List.Perm l₁ l₂) : Cbca.nanmedian l₁ = Cbca.nanmedian l₂ := by
  have hp : List.Perm (Cbca.sortR (Cbca.finites l₁)) (Cbca.sortR (Cbca.finites l₂)) := by
    rw [cbca_sortR_eq, cbca_sortR_eq, cbca_finites_eq, cbca_finites_eq]
    exact ((List.perm_insertionSort _ _).trans (h.filterMap _)).trans (List.perm_insertionSort _ _).symm
  have hs : ∀ l, List.Pairwise (· ≤ ·) (Cbca.sortR l) := by
    intro l; rw [cbca_sortR_eq]; exact List.pairwise_insertionSort _ l
  have he : Cbca.sortR (Cbca.finites l₁) = Cbca.sortR (Cbca.finites l₂) :=
    hp.eq_of_pairwise (le := fun (a b : Rat) => a ≤ b) (fun a b _ _ h1 h2 => Rat.le_antisymm h1 h2) (hs _) (hs _)
  unfold Cbca.nanmedian
  rw [he]

/-! ### the pre-filter -/

theorem perm_rows3 {α : Type} (a1 a2 a3 b1 b2 b3 c1 c2 c3 : α) :
    List.Perm [c1, c2, c3, b1, b2, b3, a1, a2, a3] [a1, a2, a3, b1, b2, b3, c1, c2, c3] := by
  have h : List.Perm ([c1, c2, c3] ++ ([b1, b2, b3] ++ [a1, a2, a3])) ([a1, a2, a3] ++ ([b1, b2, b3] ++ [c1, c2, c3])) := by
    refine (List.perm_append_comm).trans ?_
    rw [← List.append_assoc [a1, a2, a3]]
    exact List.Perm.append_right _ List.perm_append_comm
  simpa using h

/-- **`median3` commutes with the row flip**: `g'` is `g` listed bottom-up (on the `H` rows of the image) -/
theorem median3_flip (H W : Nat) (g g' : Cbca.Img) (hg : ∀ r c, r < H → g' r c = g (H - 1 - r) c) (y x : Nat)
    (hy : y < H) : Cbca.median3 H W g' y x = Cbca.median3 H W g (H - 1 - y) x := by
  unfold Cbca.median3
  rw [hg y x hy]
  by_cases c1 : 1 ≤ y ∧ y + 1 < H ∧ 1 ≤ x ∧ x + 1 < W
  · have c2 : 1 ≤ H - 1 - y ∧ H - 1 - y + 1 < H ∧ 1 ≤ x ∧ x + 1 < W := by omega
    rw [if_pos c1, if_pos c2]
    have hw : List.Perm (Cbca.window3 g' y x) (Cbca.window3 g (H - 1 - y) x) := by
      unfold Cbca.window3
      have e1 : H - 1 - (y - 1) = H - 1 - y + 1 := by omega
      have e2 : H - 1 - (y + 1) = H - 1 - y - 1 := by omega
      rw [hg (y - 1) _ (by omega), hg (y - 1) _ (by omega), hg (y - 1) _ (by omega),
        hg y _ hy, hg y _ hy, hg y _ hy,
        hg (y + 1) _ (by omega), hg (y + 1) _ (by omega), hg (y + 1) _ (by omega), e1, e2]
      exact perm_rows3 _ _ _ _ _ _ _ _ _
    rw [cbca_nanmedian_perm hw]
  · have c2 : ¬ (1 ≤ H - 1 - y ∧ H - 1 - y + 1 < H ∧ 1 ≤ x ∧ x + 1 < W) := by omega
    rw [if_neg c1, if_neg c2]

/-- the input listed bottom-up: rows of the two images, of the two masks and of the cost volume; same configuration -/
def flipInput (inp : Cbca.Input) : Cbca.Input :=
  { inp with
    imL := fun y x => inp.imL (inp.H - 1 - y) x
    mskL := fun y x => inp.mskL (inp.H - 1 - y) x
    imR := fun y x => inp.imR (inp.H - 1 - y) x
    mskR := fun y x => inp.mskR (inp.H - 1 - y) x
    cv := fun y x d => inp.cv (inp.H - 1 - y) x d }

theorem filteredL_flip (inp : Cbca.Input) (y x : Nat) (hy : y < inp.H) :
    (flipInput inp).filteredL y x = inp.filteredL (inp.H - 1 - y) x := by
  unfold Cbca.Input.filteredL
  refine median3_flip inp.H inp.W _ _ ?_ y x hy
  intro _ _ _; rfl

theorem filteredR_flip (inp : Cbca.Input) (k y x : Nat) (hy : y < inp.H) :
    (flipInput inp).filteredR k y x = inp.filteredR k (inp.H - 1 - y) x := by
  unfold Cbca.Input.filteredR
  by_cases hk : k = 0
  · rw [if_pos hk, if_pos hk]
    refine median3_flip inp.H inp.W _ _ ?_ y x hy
    intro _ _ _; rfl
  · rw [if_neg hk, if_neg hk]
    refine median3_flip inp.H (inp.W - 1) _ _ ?_ y x hy
    intro _ _ _; rfl

/-! ### the cross support: `top` and `bot` are exchanged -/

def swapTB (a : Cbca.Arms) : Cbca.Arms := ⟨a.left, a.right, a.bot, a.top⟩

/-- **The cross support of the image listed bottom-up, at the flipped pixel, is the cross support with `top` and `bot`
    exchanged** (the rooms `y` and `h - 1 - y` are exchanged; an arm never reads beyond its room). -/
theorem crossSupport_flip (mr : Cbca.MinRule) (h w dist : Nat) (I : Rat) (img img' : Cbca.Img)
    (hflip : ∀ y x, y < h → img' y x = img (h - 1 - y) x) (ya xa : Nat) (hya : ya < h) :
    Cbca.crossSupport mr h w dist I img' ya xa = swapTB (Cbca.crossSupport mr h w dist I img (h - 1 - ya) xa) := by
  unfold Cbca.crossSupport
  rw [hflip ya xa hya]
  split
  · unfold swapTB
    simp only
    congr 1
    · apply armCoded_transport' mr I _ _ dist _ _ rfl
      intro j _
      exact hflip ya _ hya
    · apply armCoded_transport' mr I _ _ dist _ _ rfl
      intro j _
      exact hflip ya _ hya
    · have e : h - 1 - (h - 1 - ya) = ya := by omega
      apply armCoded_transport' mr I _ _ dist _ _ (by rw [e])
      intro j hj
      show img' (ya - j) xa = img (h - 1 - ya + j) xa
      rw [hflip (ya - j) xa (by omega)]
      congr 1; omega
    · apply armCoded_transport' mr I _ _ dist _ _ rfl
      intro j hj
      show img' (ya + j) xa = img (h - 1 - ya - j) xa
      rw [hflip (ya + j) xa (by omega)]
      congr 1; omega
  · rfl

theorem crop_flip (inp : Cbca.Input) (f f' : Cbca.Img) (hf : ∀ y x, y < inp.H → f' y x = f (inp.H - 1 - y) x)
    (y x : Nat) (hy : y < inp.h) : Cbca.crop inp.off f' y x = Cbca.crop inp.off f (inp.h - 1 - y) x := by
  unfold Cbca.Input.h at *
  unfold Cbca.crop
  rw [hf (y + inp.off) _ (by omega)]
  congr 1; omega

theorem crossL_flip (inp : Cbca.Input) (ya xa : Nat) (hya : ya < inp.h) :
    (flipInput inp).crossL ya xa = swapTB (inp.crossL (inp.h - 1 - ya) xa) :=
  crossSupport_flip inp.mr inp.h inp.w inp.dist inp.I _ _
    (fun y x hy => crop_flip inp _ _ (fun y x hy => filteredL_flip inp y x hy) y x hy) ya xa hya

theorem crossR_flip (inp : Cbca.Input) (k ya xa : Nat) (hya : ya < inp.h) :
    (flipInput inp).crossR k ya xa = swapTB (inp.crossR k (inp.h - 1 - ya) xa) :=
  crossSupport_flip inp.mr inp.h (inp.wr k) inp.dist inp.I _ _
    (fun y x hy => crop_flip inp _ _ (fun y x hy => filteredR_flip inp k y x hy) y x hy) ya xa hya

/-! ### the region: same cells, rows met bottom-up -/

theorem sumRange_reverse (f g : Nat → Rat) :
    ∀ n a b, (∀ i, i < n → f (a + i) = g (b + (n - 1 - i))) → C11.sumRange f a n = C11.sumRange g b n := by
  intro n
  induction n with
  | zero => intro _ _ _; rfl
  | succ n ih =>
    intro a b h
    have hs := C11.sumRange_split g b 1 n
    rw [Nat.add_comm 1 n] at hs
    rw [hs]
    simp only [C11.sumRange]
    rw [ih a (b + 1) (fun i hi => by rw [h i (by omega)]; congr 1; omega), h n (by omega)]
    have e : b + (n + 1 - 1 - n) = b + 0 := by omega
    rw [e]
    ring

theorem sumRangeN_reverse (f g : Nat → Nat) :
    ∀ n a b, (∀ i, i < n → f (a + i) = g (b + (n - 1 - i))) → Cbca.sumRangeN f a n = Cbca.sumRangeN g b n := by
  intro n
  induction n with
  | zero => intro _ _ _; rfl
  | succ n ih =>
    intro a b h
    have hs := C11.sumRangeN_split g b 1 n
    rw [Nat.add_comm 1 n] at hs
    rw [hs]
    simp only [Cbca.sumRangeN]
    rw [ih a (b + 1) (fun i hi => by rw [h i (by omega)]; congr 1; omega), h n (by omega)]
    have e : b + (n + 1 - 1 - n) = b + 0 := by omega
    rw [e]
    omega

/-- **The region sum and the region size of the flipped plane at the flipped pixel** (planes abstract: same facing
    columns, arms with `top`/`bot` exchanged at the flipped pixel, costs listed bottom-up, vertical arms inside the
    `h` rows). -/
theorem region_flip (P P' : Cbca.Plane) (h : Nat) (hd : P'.d = P.d) (hWr : P'.Wr = P.Wr)
    (hL : ∀ y x, y < h → P'.armsL y x = swapTB (P.armsL (h - 1 - y) x))
    (hR : ∀ y x, y < h → P'.armsR y x = swapTB (P.armsR (h - 1 - y) x))
    (hcv : ∀ y x, y < h → P'.cv y x = P.cv (h - 1 - y) x)
    (ya xa : Nat) (hya : ya < h)
    (hin : (P.armsL (h - 1 - ya) xa).top ≤ h - 1 - ya ∧ h - 1 - ya + (P.armsL (h - 1 - ya) xa).bot < h) :
    Cbca.specSum P' ya xa = Cbca.specSum P (h - 1 - ya) xa ∧
    Cbca.specCount P' ya xa = Cbca.specCount P (h - 1 - ya) xa := by
  cases hrc : Cbca.rightCol P.d P.Wr xa with
  | none =>
    have r := region_none P (h - 1 - ya) xa hrc
    have r' := region_none P' ya xa (by rw [hd, hWr]; exact hrc)
    rw [r.1, r.2, r'.1, r'.2, hcv ya xa hya]
    exact ⟨rfl, rfl⟩
  | some xr =>
    have hrc' : Cbca.rightCol P'.d P'.Wr xa = some xr := by rw [hd, hWr]; exact hrc
    -- horizontal arms and costs of a row
    have hrow : ∀ y', y' < h → Cbca.hLeft P' xa y' = Cbca.hLeft P xa (h - 1 - y') ∧
        Cbca.hRight P' xa y' = Cbca.hRight P xa (h - 1 - y') := by
      intro y' hy'
      have e' := hLeft_of_rightCol P' xa xr y' hrc'
      have e := hLeft_of_rightCol P xa xr (h - 1 - y') hrc
      rw [e'.1, e'.2, e.1, e.2, hL y' xa hy', hR y' xr hy']
      exact ⟨rfl, rfl⟩
    have hcomb : Cbca.comb P (h - 1 - ya) xa = some ⟨
        min (P.armsL (h - 1 - ya) xa).left (P.armsR (h - 1 - ya) xr).left,
        min (P.armsL (h - 1 - ya) xa).right (P.armsR (h - 1 - ya) xr).right,
        min (P.armsL (h - 1 - ya) xa).top (P.armsR (h - 1 - ya) xr).top,
        min (P.armsL (h - 1 - ya) xa).bot (P.armsR (h - 1 - ya) xr).bot⟩ := by
      unfold Cbca.comb; rw [hrc]
    have hcomb' : Cbca.comb P' ya xa = some ⟨
        min (P.armsL (h - 1 - ya) xa).left (P.armsR (h - 1 - ya) xr).left,
        min (P.armsL (h - 1 - ya) xa).right (P.armsR (h - 1 - ya) xr).right,
        min (P.armsL (h - 1 - ya) xa).bot (P.armsR (h - 1 - ya) xr).bot,
        min (P.armsL (h - 1 - ya) xa).top (P.armsR (h - 1 - ya) xr).top⟩ := by
      unfold Cbca.comb; rw [hrc']; simp only [hL ya xa hya, hR ya xr hya, swapTB]
    have hi := hin
    generalize hT : min (P.armsL (h - 1 - ya) xa).top (P.armsR (h - 1 - ya) xr).top = T at hcomb hcomb'
    generalize hB : min (P.armsL (h - 1 - ya) xa).bot (P.armsR (h - 1 - ya) xr).bot = B at hcomb hcomb'
    have hTy : T ≤ h - 1 - ya := by omega
    have hBy : B ≤ ya := by omega
    have hidx : ∀ i, i < B + T + 1 → ya - B + i < h ∧ h - 1 - (ya - B + i) = h - 1 - ya - T + (B + T + 1 - 1 - i) := by
      intro i hi'; omega
    constructor
    · unfold Cbca.specSum Cbca.regionOf
      rw [hcomb, hcomb']
      simp only
      rw [C11.sum_region, C11.sum_region, Nat.add_comm T B]
      apply sumRange_reverse
      intro i hi'
      obtain ⟨h1, h2⟩ := hidx i hi'
      have hr := hrow _ h1
      rw [← h2, hr.1, hr.2]
      apply C11.sumRange_congr
      intro j _
      rw [hcv _ _ h1]
    · unfold Cbca.specCount Cbca.regionOf
      rw [hcomb, hcomb']
      simp only
      rw [C11.length_region, C11.length_region, Nat.add_comm T B]
      apply sumRangeN_reverse
      intro i hi'
      obtain ⟨h1, h2⟩ := hidx i hi'
      have hr := hrow _ h1
      rw [← h2, hr.1, hr.2]

/-! ### the whole step, arrays -/

/-- **Cross-based aggregation of the input listed bottom-up = the aggregation, read bottom-up** (the specification
    side: region mean inside the aggregated area, untouched margin). -/
theorem specAgg_flip (inp : Cbca.Input) (dsp y x : Nat) (hy : y < inp.H) :
    specAgg (flipInput inp) (inp.H - 1 - y) x dsp = specAgg inp y x dsp := by
  unfold specAgg
  have hAeq : Cbca.inArea (flipInput inp) (inp.H - 1 - y) x = Cbca.inArea inp y x := by
    unfold Cbca.inArea Cbca.Input.h Cbca.Input.w
    show decide (inp.off ≤ inp.H - 1 - y ∧ inp.H - 1 - y < inp.off + (inp.H - 2 * inp.off) ∧ inp.off ≤ x ∧
      x < inp.off + (inp.W - 2 * inp.off)) = decide (inp.off ≤ y ∧ y < inp.off + (inp.H - 2 * inp.off) ∧ inp.off ≤ x ∧
      x < inp.off + (inp.W - 2 * inp.off))
    apply decide_eq_decide.2
    omega
  rw [hAeq]
  by_cases hA : Cbca.inArea inp y x = true
  · rw [if_pos hA, if_pos hA]
    have hA' := hA
    unfold Cbca.inArea at hA'
    simp only [decide_eq_true_eq] at hA'
    have hh : inp.h = inp.H - 2 * inp.off := rfl
    obtain ⟨Y, hY⟩ : ∃ Y, y = Y + inp.off := ⟨y - inp.off, by omega⟩
    subst hY
    have hYh : Y < inp.h := by omega
    obtain ⟨xa, hxa⟩ : ∃ xa, x = xa + inp.off := ⟨x - inp.off, by omega⟩
    subst hxa
    have hxw : xa < inp.w := by omega
    have e1 : inp.H - 1 - (Y + inp.off) - (flipInput inp).off = inp.h - 1 - Y := by
      show inp.H - 1 - (Y + inp.off) - inp.off = _
      omega
    have e3 : xa + inp.off - (flipInput inp).off = xa := Nat.add_sub_cancel (n := xa) (m := inp.off)
    have e4 : inp.h - 1 - (inp.h - 1 - Y) = Y := by omega
    rw [e1, e3, Nat.add_sub_cancel, Nat.add_sub_cancel]
    have hcvf : ∀ y x, y < inp.h → ((flipInput inp).plane dsp).cv y x = (inp.plane dsp).cv (inp.h - 1 - y) x := by
      intro y x hy'
      show inp.cv (inp.H - 1 - (y + inp.off)) (x + inp.off) dsp = inp.cv (inp.h - 1 - y + inp.off) (x + inp.off) dsp
      congr 1
      omega
    have hreg := region_flip (inp.plane dsp) ((flipInput inp).plane dsp) inp.h rfl rfl
      (fun y x hy => crossL_flip inp y x hy) (fun y x hy => crossR_flip inp _ y x hy) hcvf
      (inp.h - 1 - Y) xa (by omega)
      (by
        rw [e4]
        have := (crossL_in inp Y xa hYh hxw).2
        exact ⟨this.1, this.2.1⟩)
    rw [e4] at hreg
    unfold aggSpec
    rw [hcvf (inp.h - 1 - Y) xa (by omega), e4, hreg.1, hreg.2]
  · rw [if_neg hA, if_neg hA]
    show inp.cv (inp.H - 1 - (inp.H - 1 - y)) x dsp = inp.cv y x dsp
    congr 1
    omega

/-- `nanOutside` (hypothesis of C11's theorem) is kept by the flip: the facing column does not look at rows -/
theorem nanOutside_flip (inp : Cbca.Input) (dsp : Nat) (hN : Cbca.nanOutside (inp.plane dsp) = true) :
    Cbca.nanOutside ((flipInput inp).plane dsp) = true := by
  unfold Cbca.nanOutside at *
  simp only [List.all_eq_true, List.mem_range] at *
  intro y hy x hx
  have hy' : y < inp.h := hy
  have := hN (inp.h - 1 - y) (by show inp.h - 1 - y < inp.h; omega) x hx
  have hcv : ((flipInput inp).plane dsp).cv y x = (inp.plane dsp).cv (inp.h - 1 - y) x := by
    show inp.cv (inp.H - 1 - (y + inp.off)) (x + inp.off) dsp = inp.cv (inp.h - 1 - y + inp.off) (x + inp.off) dsp
    congr 1
    unfold Cbca.Input.h at *
    omega
  rw [hcv]
  exact this

/-- **The model: aggregating the input listed bottom-up gives the aggregated volume listed bottom-up.** -/
theorem aggregate_flip (inp : Cbca.Input) (dsp : Nat) (hN : Cbca.nanOutside (inp.plane dsp) = true) (y x : Nat)
    (hy : y < inp.H) :
    Cbca.aggregate (flipInput inp) (inp.H - 1 - y) x dsp = Cbca.aggregate inp y x dsp := by
  rw [aggregate_eq_specAgg _ dsp (nanOutside_flip inp dsp hN), aggregate_eq_specAgg inp dsp hN]
  exact specAgg_flip inp dsp y x hy

/-! ### the step on partial images -/

/-- the view with negated row offsets -/
def negView (v : View) : View := fun di dj => v (-di) dj

theorem view_vflip (a : Locality.Img CbcaCell) (p : Px) : view (vflip a) p = negView (view a (-p.1, p.2)) := by
  funext di dj
  unfold view vflip negView
  simp only
  congr 1
  ext
  · simp only; omega
  · rfl

theorem vUp_negView (Q : CbcaParams) (v : View) : vUp Q (negView v) = vDn Q v := by
  unfold vUp vDn negView
  simp only [Int.neg_neg]

theorem vDn_negView (Q : CbcaParams) (v : View) : vDn Q (negView v) = vUp Q v := rfl

theorem vLf_negView (Q : CbcaParams) (v : View) : vLf Q (negView v) = vLf Q v := by
  unfold vLf negView
  simp only [Int.neg_zero]

theorem vRt_negView (Q : CbcaParams) (v : View) : vRt Q (negView v) = vRt Q v := by
  unfold vRt negView
  simp only [Int.neg_zero]

/-- the window of the negated view is the window listed bottom-up (inside its size) -/
theorem winCell_negView (v : View) (u dn l W i j : Nat) (hi : i < dn + 1 + u) :
    winCell (negView v) dn l (dn + 1 + u) W i j = winCell v u l (u + 1 + dn) W (u + 1 + dn - 1 - i) j := by
  unfold winCell negView
  by_cases hj : j < W
  · rw [if_pos ⟨hi, hj⟩, if_pos ⟨by omega, hj⟩]
    congr 1
    omega
  · rw [if_neg (fun h => hj h.2), if_neg (fun h => hj h.2)]

/-- **The aggregated cost row does not see the negation of the row offsets** -/
theorem cbcaAt_negView (Q : CbcaParams) (v : View) : cbcaAt Q (negView v) = cbcaAt Q v := by
  unfold cbcaAt windowInput
  rw [vUp_negView, vDn_negView, vLf_negView, vRt_negView]
  generalize vUp Q v = u
  generalize vDn Q v = dn
  generalize vLf Q v = l
  generalize vRt Q v = r
  apply List.map_congr_left
  intro dsp _
  have hflip := specAgg_flip (mkInp Q (u + 1 + dn) (l + 1 + r) (winScene v u l (u + 1 + dn) (l + 1 + r))
    (winCv v u l (u + 1 + dn) (l + 1 + r))) dsp u l (by show u < u + 1 + dn; omega)
  have e : (mkInp Q (u + 1 + dn) (l + 1 + r) (winScene v u l (u + 1 + dn) (l + 1 + r))
    (winCv v u l (u + 1 + dn) (l + 1 + r))).H - 1 - u = dn := by
    show u + 1 + dn - 1 - u = dn
    omega
  rw [e] at hflip
  rw [← hflip]
  have hsc : ∀ i j, i < dn + 1 + u →
      winScene (negView v) dn l (dn + 1 + u) (l + 1 + r) i j
        = winScene v u l (u + 1 + dn) (l + 1 + r) (u + 1 + dn - 1 - i) j := by
    intro i j hi
    unfold winScene
    rw [winCell_negView v u dn l _ i j hi]
  have hc : CropOf (flipInput (mkInp Q (u + 1 + dn) (l + 1 + r) (winScene v u l (u + 1 + dn) (l + 1 + r))
      (winCv v u l (u + 1 + dn) (l + 1 + r))))
      (mkInp Q (dn + 1 + u) (l + 1 + r) (winScene (negView v) dn l (dn + 1 + u) (l + 1 + r))
        (winCv (negView v) dn l (dn + 1 + u) (l + 1 + r))) 0 0 := by
    refine ⟨rfl, rfl, rfl, rfl, rfl, rfl, rfl, rfl, rfl, ?_, ?_, ?_, ?_, ?_, ?_⟩
    · show 0 + (dn + 1 + u) ≤ u + 1 + dn
      omega
    · show 0 + (l + 1 + r) ≤ l + 1 + r
      omega
    · intro i j hi _
      show (winScene (negView v) dn l (dn + 1 + u) (l + 1 + r) i j).l = _
      rw [hsc i j hi]; rfl
    · intro i j hi _
      show (winScene (negView v) dn l (dn + 1 + u) (l + 1 + r) i j).ml = _
      rw [hsc i j hi]; rfl
    · intro i j hi _
      show (winScene (negView v) dn l (dn + 1 + u) (l + 1 + r) i j).r = _
      rw [hsc i j hi]; rfl
    · intro i j hi _
      show (winScene (negView v) dn l (dn + 1 + u) (l + 1 + r) i j).mr = _
      rw [hsc i j hi]; rfl
  exact specAgg_crop_eq_whole _ _ 0 0 hc dsp dsp rfl
    (by
      intro i j hi _
      show winCv (negView v) dn l (dn + 1 + u) (l + 1 + r) i j dsp
        = winCv v u l (u + 1 + dn) (l + 1 + r) (u + 1 + dn - 1 - (i + 0)) (j + 0) dsp
      unfold winCv
      rw [winCell_negView v u dn l _ i j hi]
      rfl)
    dn l (by show dn < dn + 1 + u; omega) (by show l < l + 1 + r; omega) (Or.inl rfl)
    (Or.inl (by show 0 + (dn + 1 + u) = u + 1 + dn; omega)) (Or.inl rfl)
    (Or.inl (by show 0 + (l + 1 + r) = l + 1 + r; omega))

/-- **Cross-based aggregation commutes with the vertical flip** — on every partial image. -/
theorem cbcaStep_vflip (Q : CbcaParams) : VFlip (cbcaStep Q) := by
  intro a
  funext p
  show (a (-p.1, p.2)).map (fun _ => cbcaAt Q (view (vflip a) p))
    = (a (-p.1, p.2)).map (fun _ => cbcaAt Q (view a (-p.1, p.2)))
  rw [view_vflip, cbcaAt_negView]

/-! ### arrays, through the step -/

/-- **Flipped run = run read bottom-up, for the model on arrays, through the step** (`aggregate_is_cbcaStep`,
    `flip_run_eq`): same conclusion as `aggregate_flip`, for all the planes `dsp < n` at once. -/
theorem aggregate_flip_run (inp : Cbca.Input) (n : Nat) (gmin gmax : Int)
    (hN : ∀ dsp, dsp < n → Cbca.nanOutside (inp.plane dsp) = true)
    (hg : ∀ dsp, dsp < n → (gmin : ℚ) ≤ inp.disp dsp ∧ inp.disp dsp ≤ (gmax : ℚ))
    (r c : Nat) (hr : r < inp.H) (hc : c < inp.W) (dsp : Nat) (hdsp : dsp < n) :
    Cbca.aggregate (flipInput inp) r c dsp = Cbca.aggregate inp (inp.H - 1 - r) c dsp := by
  have h1 := congrFun (aggregate_is_cbcaStep (flipInput inp) n gmin gmax
    (fun d hd => nanOutside_flip inp d (hN d hd)) hg) ((r : Int), (c : Int))
  have h2 := congrFun (aggregate_is_cbcaStep inp n gmin gmax hN hg) (((inp.H - 1 - r : Nat) : Int), (c : Int))
  have h3 := flip_run_eq (cbcaStep_equivariant (cbcaParamsOf inp n gmin gmax))
    (cbcaStep_vflip (cbcaParamsOf inp n gmin gmax)).toOn inp.H inp.W (cbcaScene inp n) ((r : Int), (c : Int))
  change toImg inp.H inp.W _ _ = cbcaStep (cbcaParamsOf inp n gmin gmax)
    (toImg inp.H inp.W (flipArr inp.H (cbcaScene inp n))) _ at h1
  have e : (((inp.H : Int) - 1 - (((r : Int), (c : Int)) : Px).1, (((r : Int), (c : Int)) : Px).2) : Px)
      = (((inp.H - 1 - r : Nat) : Int), (c : Int)) := by
    ext
    · simp only; omega
    · rfl
  rw [h3, e, ← h2, toImg_some _ _ _ r c hr hc, toImg_some _ _ _ (inp.H - 1 - r) c (by omega) hc] at h1
  exact List.map_inj_left.1 (Option.some.inj h1) dsp (List.mem_range.2 hdsp)

/-! ### the pipeline with cross-based aggregation -/

/-- **Vertical flip of the whole pipeline with `agg := cbcaStep Q`** (flags and right map abstract) -/
theorem pipeline_flip_cbca (C : PipeCfg) (Q : CbcaParams)
    {flagL : Locality.Img McCell → Locality.Img Nat} (hFe : Equivariant flagL) (hF : VFlipOn flagL)
    (doRefine doMedian : Bool) (hodd : doMedian = true → C.fs % 2 = 1)
    {dispR : Locality.Img McCell → Locality.Img Val} (hRe : Equivariant dispR) (hR : VFlipOn dispR)
    (V : CrossCheck.Variant) (CP : CrossCheck.Params)
    (ny nx : Nat) (scene : Nat → Nat → McCell) (p : Px) :
    ccStage C (cbcaStep Q) flagL doRefine doMedian dispR V CP (toImg ny nx (flipArr ny scene)) p
      = ccStage C (cbcaStep Q) flagL doRefine doMedian dispR V CP (toImg ny nx scene) ((ny : Int) - 1 - p.1, p.2) :=
  pipeline_flip C (cbcaStep_equivariant Q) (cbcaStep_vflip Q).toOn hFe hF doRefine doMedian hodd hRe hR V CP
    ny nx scene p

theorem filter_flip_cbca (C : PipeCfg) (Q : CbcaParams)
    {flagL : Locality.Img McCell → Locality.Img Nat} (hFe : Equivariant flagL) (hF : VFlipOn flagL)
    (doRefine doMedian : Bool) (hodd : doMedian = true → C.fs % 2 = 1)
    (ny nx : Nat) (scene : Nat → Nat → McCell) (p : Px) :
    filterStage C (cbcaStep Q) flagL doRefine doMedian (toImg ny nx (flipArr ny scene)) p
      = filterStage C (cbcaStep Q) flagL doRefine doMedian (toImg ny nx scene) ((ny : Int) - 1 - p.1, p.2) :=
  filter_flip C (cbcaStep_equivariant Q) (cbcaStep_vflip Q).toOn hFe hF doRefine doMedian hodd ny nx scene p

/-- … with the criteria flags: only the right map keeps a hypothesis -/
theorem pipeline_flip_flags_cbca (C : PipeCfg) (Q : CbcaParams)
    (doRefine doMedian : Bool) (hodd : doMedian = true → C.fs % 2 = 1)
    {dispR : Locality.Img McCell → Locality.Img Val} (hRe : Equivariant dispR) (hR : VFlipOn dispR)
    (V : CrossCheck.Variant) (CP : CrossCheck.Params)
    (ny nx : Nat) (scene : Nat → Nat → McCell) (p : Px) :
    ccStage C (cbcaStep Q) (pipeFlags C) doRefine doMedian dispR V CP (toImg ny nx (flipArr ny scene)) p
      = ccStage C (cbcaStep Q) (pipeFlags C) doRefine doMedian dispR V CP (toImg ny nx scene)
          ((ny : Int) - 1 - p.1, p.2) :=
  pipeline_flip_flags C (cbcaStep_equivariant Q) (cbcaStep_vflip Q).toOn doRefine doMedian hodd hRe hR V CP
    ny nx scene p

/-- **The full pipeline `[matching cost; cbca; wta; (refinement); (median); cross-checking]`, criteria flags, the
    right map from the same pipeline on the swapped pair: no hypothesis is left** but the odd filter size. -/
theorem pipeline_flip_flags_both_cbca (C C' : PipeCfg) (Q : CbcaParams)
    (doRefine doMedian : Bool) (hodd : doMedian = true → C.fs % 2 = 1) (hodd' : doMedian = true → C'.fs % 2 = 1)
    (V : CrossCheck.Variant) (CP : CrossCheck.Params)
    (ny nx : Nat) (scene : Nat → Nat → McCell) (p : Px) :
    ccStage C (cbcaStep Q) (pipeFlags C) doRefine doMedian
        (rightDisp C' (cbcaStep Q) (pipeFlags C') doRefine doMedian) V CP (toImg ny nx (flipArr ny scene)) p
      = ccStage C (cbcaStep Q) (pipeFlags C) doRefine doMedian
        (rightDisp C' (cbcaStep Q) (pipeFlags C') doRefine doMedian) V CP (toImg ny nx scene)
        ((ny : Int) - 1 - p.1, p.2) :=
  pipeline_flip_flags_both C C' (cbcaStep_equivariant Q) (cbcaStep_vflip Q).toOn doRefine doMedian hodd hodd'
    V CP ny nx scene p

theorem filter_flip_flags_cbca (C : PipeCfg) (Q : CbcaParams)
    (doRefine doMedian : Bool) (hodd : doMedian = true → C.fs % 2 = 1)
    (ny nx : Nat) (scene : Nat → Nat → McCell) (p : Px) :
    filterStage C (cbcaStep Q) (pipeFlags C) doRefine doMedian (toImg ny nx (flipArr ny scene)) p
      = filterStage C (cbcaStep Q) (pipeFlags C) doRefine doMedian (toImg ny nx scene) ((ny : Int) - 1 - p.1, p.2) :=
  filter_flip_flags C (cbcaStep_equivariant Q) (cbcaStep_vflip Q).toOn doRefine doMedian hodd ny nx scene p

/-! ### Non-vacuity -/

/-- the 6 × 8 scene of `C13Cbca` listed bottom-up: row 3 of the flipped run is row 2 of the run -/
example : Cbca.aggregate (flipInput exWhole) (6 - 1 - 2) 3 0 = Cbca.aggregate exWhole 2 3 0 :=
  aggregate_flip exWhole 0 (by decide +kernel) 2 3 (by decide)

/-- the flipped scene is another scene: its top-left left-image value is the bottom-left one of the scene -/
example : (flipInput exWhole).imL 0 3 = 15 ∧ exWhole.imL 0 3 = 0 := by decide +kernel

example : Cbca.aggregate (flipInput exWhole) 1 3 0 = Cbca.aggregate exWhole (6 - 1 - 1) 3 0 :=
  aggregate_flip_run exWhole 1 0 0 exWhole_nanOutside exWhole_interval 1 3 (by decide) (by decide) 0 (by decide)

/-- the full pipeline with cbca (`exCfg`, `exQ` of `C13CbcaStep`), criteria flags on both sides, cross-checking:
    every hypothesis is met, for every scene array -/
example (ny nx : Nat) (scene : Nat → Nat → McCell) (p : Px) :
    ccStage exCfg (cbcaStep exQ) (pipeFlags exCfg) true true
        (rightDisp exCfg (cbcaStep exQ) (pipeFlags exCfg) true true) .ruleFix C07.exParams
        (toImg ny nx (flipArr ny scene)) p
      = ccStage exCfg (cbcaStep exQ) (pipeFlags exCfg) true true
        (rightDisp exCfg (cbcaStep exQ) (pipeFlags exCfg) true true) .ruleFix C07.exParams
        (toImg ny nx scene) ((ny : Int) - 1 - p.1, p.2) :=
  pipeline_flip_flags_both_cbca exCfg exCfg exQ true true (fun _ => by decide) (fun _ => by decide)
    .ruleFix C07.exParams ny nx scene p

end Pandora.C13
