/- C14 — theorems (placeholder until the property is built). -/
