/-
  C14 — Occlusion/mismatch filling touches only flagged pixels, fills from valid ones.

  The model (`Model/Interp.lean`) is parametrised by the text of the kernels (`Variant`): with or without the
  guards of e1d31ca ("fill only when a finite source is in sight"), raising the new bit with `+=` or with `|=`
  (7723010).  The variant of the current source is read by the translator (`sourceVariant`); the main theorem is
  proved for every guarded variant and instantiated at the source's (`spec_holds_source`).
-/
import PandoraModel.Lemmas.InterpFlags
import PandoraModel.Lemmas.InterpScan
import PandoraModel.Lemmas.InterpSort
import PandoraModel.Lemmas.InterpOccl
import PandoraModel.Lemmas.InterpCongr
import PandoraModel.Generated.Interp
import PandoraModel.Generated.Constants

namespace Pandora.C14
open Pandora Pandora.Interp Pandora.Flags

/-! ### 1. The data of the kernels in the source are the data of the model (finite: `decide`) -/

/-- the direction tables of the three kernels that scan are those of the model -/
theorem source_dirs :
    Generated.Interp.dirsMismatchMcCnnDoubled = dirs16
    ∧ Generated.Interp.dirsMismatchSgm = dirs8 ∧ Generated.Interp.dirsOcclusionSgm = dirs8 := by decide

/-- the flag updates the model follows, for a kernel text that raises its bits with operator `o` -/
def expectedFlagOps (o : String) : List (String × List (String × String × Bool)) :=
  [("interpolate_occlusion_mc_cnn",
      [("-", "PANDORA_MSK_PIXEL_OCCLUSION", true), (o, "PANDORA_MSK_PIXEL_FILLED_OCCLUSION", true),
       ("-", "PANDORA_MSK_PIXEL_OCCLUSION", true), (o, "PANDORA_MSK_PIXEL_FILLED_OCCLUSION", true)]),
   ("interpolate_mismatch_mc_cnn",
      [("-", "PANDORA_MSK_PIXEL_MISMATCH", false), (o, "PANDORA_MSK_PIXEL_FILLED_MISMATCH", false)]),
   ("interpolate_mismatch_sgm",
      [("-", "PANDORA_MSK_PIXEL_MISMATCH", false), (o, "PANDORA_MSK_PIXEL_OCCLUSION", false),
       ("-", "PANDORA_MSK_PIXEL_MISMATCH", false), (o, "PANDORA_MSK_PIXEL_FILLED_MISMATCH", false)]),
   ("interpolate_occlusion_sgm",
      [("-", "PANDORA_MSK_PIXEL_OCCLUSION", false), (o, "PANDORA_MSK_PIXEL_FILLED_OCCLUSION", false)])]

/-- the flag updates (with the raising operator read from the source), the tested constants, the loop
    bounds and the order of the passes are those the model follows -/
theorem source_flag_ops :
    (Generated.Interp.raiseOp = "+" ∨ Generated.Interp.raiseOp = "|")
    ∧ Generated.Interp.flagOps = expectedFlagOps Generated.Interp.raiseOp
    ∧ Generated.Interp.tested =
      [("interpolate_occlusion_mc_cnn",
          ["PANDORA_MSK_PIXEL_OCCLUSION", "PANDORA_MSK_PIXEL_INVALID", "PANDORA_MSK_PIXEL_INVALID"]),
       ("interpolate_mismatch_mc_cnn", ["PANDORA_MSK_PIXEL_MISMATCH", "PANDORA_MSK_PIXEL_INVALID"]),
       ("interpolate_mismatch_sgm", ["PANDORA_MSK_PIXEL_MISMATCH", "PANDORA_MSK_PIXEL_OCCLUSION"]),
       ("interpolate_occlusion_sgm", ["PANDORA_MSK_PIXEL_OCCLUSION"]),
       ("find_valid_neighbors", ["PANDORA_MSK_PIXEL_INVALID"])]
    ∧ Generated.Interp.pathRanges =
      [("interpolate_occlusion_mc_cnn", []), ("interpolate_mismatch_mc_cnn", [["1", "max_path_length"]]),
       ("interpolate_mismatch_sgm", []), ("interpolate_occlusion_sgm", []),
       ("find_valid_neighbors", [["max_path_length"]])]
    ∧ Generated.Interp.pathBounds =
      [("interpolate_occlusion_mc_cnn", []), ("interpolate_mismatch_mc_cnn", ["max_path_length=max(nrow,ncol)"]),
       ("interpolate_mismatch_sgm", []), ("interpolate_occlusion_sgm", []),
       ("find_valid_neighbors", ["max_path_length=max(nrow,ncol)"])]
    ∧ Generated.Interp.passOrder =
      [("McCnnInterpolation", ["interpolate_occlusion_mc_cnn", "interpolate_mismatch_mc_cnn", "mask_border"]),
       ("SgmInterpolation", ["interpolate_mismatch_sgm", "interpolate_occlusion_sgm"])] := by decide

/-- the six constants the kernels use have the documented values the model uses -/
theorem source_constants :
    Generated.Constants.PANDORA_MSK_PIXEL_INVALID = pixelInvalid
    ∧ Generated.Constants.PANDORA_MSK_PIXEL_OCCLUSION = occlusion
    ∧ Generated.Constants.PANDORA_MSK_PIXEL_MISMATCH = mismatch
    ∧ Generated.Constants.PANDORA_MSK_PIXEL_FILLED_OCCLUSION = filledOcclusion
    ∧ Generated.Constants.PANDORA_MSK_PIXEL_FILLED_MISMATCH = filledMismatch
    ∧ Generated.Constants.PANDORA_MSK_PIXEL_LEFT_NODATA_OR_BORDER = leftNodataOrBorder := by decide

/-- the guards of e1d31ca, as the translator prints them -/
def expectedGuards : List (String × List String) :=
  [("interpolate_occlusion_mc_cnn", []),
   ("interpolate_mismatch_mc_cnn", ["np.isfinite(interp_mismatched).any()"]),
   ("interpolate_mismatch_sgm", ["np.isfinite(valid_neighbors).any()"]),
   ("interpolate_occlusion_sgm", ["np.sum(np.isfinite(valid_neighbors)) >= 2"])]

/-- The variant of the model that reads like the source: guarded iff the accumulator starts at NaN and the
    three guards are there; `+=` or `|=` as read. -/
def sourceVariant : Variant :=
  { guard := decide (Generated.Interp.accInit = "nan") && decide (Generated.Interp.guards = expectedGuards),
    op := if Generated.Interp.raiseOp = "+" then .add else .or }

/-- the source is guarded (e1d31ca is in) — the main theorem needs it -/
theorem source_guarded : sourceVariant.guard = true := by decide

/-! ### 2. Well-formed inputs, as propositions -/

theorem allPx_iff (a : DMap) (p : Nat → Nat → Bool) :
    allPx a p = true ↔ ∀ r c, r < a.rows → c < a.cols → p r c = true := by
  simp only [allPx, List.all_eq_true, List.mem_range]
  constructor
  · intro h r c hr hc; exact h r hr c hc
  · intro h r hr c hc; exact h r c hr hc

/-- what `wf op meth off a = true` says, pixel by pixel (all pixels inside the image); the three "no stale
    filled bit" facts are available for the `+=` form only -/
structure WFp (op : RaiseOp) (meth : Method) (off : Nat) (a : DMap) : Prop where
  vf : ∀ r c, r < a.rows → c < a.cols → a.valid r c = true → ∃ q, a.disp r c = .num q
  one : ∀ r c, r < a.rows → c < a.cols → (a.flag r c).testBit 8 = true → (a.flag r c).testBit 9 = false
  st8 : op = .add → ∀ r c, r < a.rows → c < a.cols → (a.flag r c).testBit 8 = true → (a.flag r c).testBit 4 = false
  st9 : op = .add → ∀ r c, r < a.rows → c < a.cols → (a.flag r c).testBit 9 = true → (a.flag r c).testBit 5 = false
  st9s : op = .add → meth = .sgm → ∀ r c, r < a.rows → c < a.cols → (a.flag r c).testBit 9 = true →
    (a.flag r c).testBit 4 = false
  bc : ∀ r c, r < a.rows → c < a.cols → (decide (off > 0) && isBorder a off r c) = true → a.flag r c = leftNodataOrBorder

theorem wf_elim {op : RaiseOp} {meth : Method} {off : Nat} {a : DMap} (h : wf op meth off a = true) :
    WFp op meth off a := by
  unfold wf at h
  simp only [Bool.and_eq_true] at h
  obtain ⟨⟨⟨h1, h2⟩, h3⟩, h4⟩ := h
  unfold validFinite at h1; unfold oneFlag at h2; unfold borderClean at h4
  rw [allPx_iff] at h1 h2 h4
  have hst : op = .add → ∀ r c, r < a.rows → c < a.cols →
      ((!hasBit (a.flag r c) occlusion || !hasBit (a.flag r c) filledOcclusion)
        && (!hasBit (a.flag r c) mismatch || !hasBit (a.flag r c) filledMismatch)
        && (!(decide (meth = .sgm) && hasBit (a.flag r c) mismatch) || !hasBit (a.flag r c) filledOcclusion)) = true := by
    intro hop
    subst hop
    have h3' : noStaleFill meth a = true := by simpa using h3
    unfold noStaleFill at h3'
    rw [allPx_iff] at h3'
    exact h3'
  refine ⟨?_, ?_, ?_, ?_, ?_, ?_⟩
  · intro r c hr hc hv
    have := h1 r c hr hc
    rw [hv] at this
    cases hd : a.disp r c with
    | nan => rw [hd] at this; simp [Val.isNum, Val.isNan] at this
    | num q => exact ⟨q, rfl⟩
  · intro r c hr hc h8
    have := h2 r c hr hc
    rw [occlusion_pow, mismatch_pow, hasBit_two_pow, hasBit_two_pow, h8] at this
    simpa using this
  · intro hop r c hr hc h8
    have := hst hop r c hr hc
    simp only [occlusion_pow, mismatch_pow, filledOcclusion_pow, filledMismatch_pow, hasBit_two_pow, h8,
      Bool.and_eq_true, Bool.or_eq_true, Bool.not_eq_true', Bool.false_or, Bool.not_true] at this
    exact this.1.1
  · intro hop r c hr hc h9
    have := hst hop r c hr hc
    simp only [occlusion_pow, mismatch_pow, filledOcclusion_pow, filledMismatch_pow, hasBit_two_pow, h9,
      Bool.and_eq_true, Bool.or_eq_true, Bool.not_eq_true', Bool.false_or, Bool.not_true] at this
    exact this.1.2
  · intro hop hm r c hr hc h9
    have := hst hop r c hr hc
    simp only [occlusion_pow, mismatch_pow, filledOcclusion_pow, filledMismatch_pow, hasBit_two_pow, h9, hm,
      Bool.and_eq_true, Bool.or_eq_true, Bool.not_eq_true', Bool.false_or, Bool.not_true, decide_true,
      Bool.true_and] at this
    exact this.2
  · intro r c hr hc hb
    have := h4 r c hr hc
    rw [hb] at this
    simpa using this

/-! ### 3. "Between two valid disparities of the input map" -/

/-- `q` lies between the disparities of two valid pixels of `a` -/
def Bdd (a : DMap) (q : Rat) : Prop :=
  (∃ r c v, r < a.rows ∧ c < a.cols ∧ a.valid r c = true ∧ a.disp r c = .num v ∧ v ≤ q) ∧
  (∃ r c v, r < a.rows ∧ c < a.cols ∧ a.valid r c = true ∧ a.disp r c = .num v ∧ q ≤ v)

theorem betweenValid_iff (a : DMap) (q : Rat) : betweenValid a q = true ↔ Bdd a q := by
  unfold betweenValid Bdd
  simp only [Bool.and_eq_true, List.any_eq_true, List.mem_range]
  constructor
  · rintro ⟨⟨r, hr, c, hc, hv, hd⟩, ⟨r', hr', c', hc', hv', hd'⟩⟩
    constructor
    · cases hx : a.disp r c with
      | nan => rw [hx] at hd; simp at hd
      | num v => rw [hx] at hd; exact ⟨r, c, v, hr, hc, hv, hx, by simpa using hd⟩
    · cases hx : a.disp r' c' with
      | nan => rw [hx] at hd'; simp at hd'
      | num v => rw [hx] at hd'; exact ⟨r', c', v, hr', hc', hv', hx, by simpa using hd'⟩
  · rintro ⟨⟨r, c, v, hr, hc, hv, hd, hle⟩, ⟨r', c', v', hr', hc', hv', hd', hle'⟩⟩
    exact ⟨⟨r, hr, c, hc, hv, by rw [hd]; simpa using hle⟩, ⟨r', hr', c', hc', hv', by rw [hd']; simpa using hle'⟩⟩

theorem Bdd.self {a : DMap} {r c : Nat} {q : Rat} (hr : r < a.rows) (hc : c < a.cols)
    (hv : a.valid r c = true) (hd : a.disp r c = .num q) : Bdd a q :=
  ⟨⟨r, c, q, hr, hc, hv, hd, le_refl _⟩, ⟨r, c, q, hr, hc, hv, hd, le_refl _⟩⟩

theorem Bdd.between {a : DMap} {x y q : Rat} (hx : Bdd a x) (hy : Bdd a y) (h1 : x ≤ q) (h2 : q ≤ y) : Bdd a q := by
  obtain ⟨⟨r, c, v, hr, hc, hv, hd, hle⟩, _⟩ := hx
  obtain ⟨_, ⟨r', c', v', hr', hc', hv', hd', hle'⟩⟩ := hy
  exact ⟨⟨r, c, v, hr, hc, hv, hd, le_trans hle h1⟩, ⟨r', c', v', hr', hc', hv', hd', le_trans h2 hle'⟩⟩

/-- the median of bounded numbers is bounded -/
theorem Bdd.median {a : DMap} {l : List Rat} (hl : ∀ x ∈ l, Bdd a x) {q : Rat} (h : median l = .num q) : Bdd a q := by
  obtain ⟨x, hx, y, hy, h1, h2⟩ := median_between h
  exact Bdd.between (hl x hx) (hl y hy) h1 h2

/-! ### 4. The four kernels, one pixel, in terms of the specification's notions -/

theorem hasBit_occlusion (f : Nat) : hasBit f occlusion = f.testBit 8 := by rw [occlusion_pow, hasBit_two_pow]
theorem hasBit_mismatch (f : Nat) : hasBit f mismatch = f.testBit 9 := by rw [mismatch_pow, hasBit_two_pow]

theorem not_valid_of_bit8 {m : DMap} {r c : Nat} (h : (m.flag r c).testBit 8 = true) : m.valid r c = false := by
  unfold DMap.valid; apply not_valid_of_flagged; rw [flagged_eq, h]; rfl

theorem not_valid_of_bit9 {m : DMap} {r c : Nat} (h : (m.flag r c).testBit 9 = true) : m.valid r c = false := by
  unfold DMap.valid; apply not_valid_of_flagged; rw [flagged_eq, h]; simp

theorem occlMc_unflagged (v : Variant) (m : DMap) (r c : Nat) (h : (m.flag r c).testBit 8 = false) :
    (occlMc v m).disp r c = m.disp r c ∧ (occlMc v m).flag r c = m.flag r c := by
  have : ((m.flag r c &&& occlusion) != 0) = false := by
    have := hasBit_occlusion (m.flag r c); unfold hasBit at this; rw [this, h]
  simp only [occlMc, lift, occlMcPixel, this, Bool.false_eq_true, if_false, and_self]

/-- mc-cnn occlusion (either operator): the nearest valid pixel on the left, otherwise on the right, gives the
    disparity and `-= OCCLUSION`, `(+=|‖=) FILLED_OCCLUSION` are applied; without valid pixel in the row nothing changes -/
theorem occlMc_flagged (v : Variant) (m : DMap) (r c : Nat) (hc : c < m.cols) (h : (m.flag r c).testBit 8 = true) :
    (∀ x, sourceOcclMc m r c = some x →
        (occlMc v m).disp r c = x ∧ (occlMc v m).flag r c = raise v.op (m.flag r c - occlusion) filledOcclusion) ∧
    (sourceOcclMc m r c = none → (occlMc v m).disp r c = m.disp r c ∧ (occlMc v m).flag r c = m.flag r c) := by
  have h8 : ((m.flag r c &&& occlusion) != 0) = true := by
    have := hasBit_occlusion (m.flag r c); unfold hasBit at this; rw [this, h]
  have hcore := occlMcCore_eq m r c hc (not_valid_of_bit8 h)
  simp only [occlMc, lift, occlMcPixel, h8, if_true]
  constructor
  · intro x hx; rw [hx] at hcore; rw [hcore]; simp [b2n]
  · intro hn; rw [hn] at hcore; rw [hcore]; simp [b2n, raise_zero]

theorem mismMc_unflagged (v : Variant) (m : DMap) (r c : Nat) (h : (m.flag r c).testBit 9 = false) :
    (mismMc v m).disp r c = m.disp r c ∧ (mismMc v m).flag r c = m.flag r c := by
  have : ((m.flag r c &&& mismatch) != 0) = false := by
    have := hasBit_mismatch (m.flag r c); unfold hasBit at this; rw [this, h]
  simp only [mismMc, lift, mismMcPixel, this, Bool.false_eq_true, if_false, and_self]

/-- guarded mc-cnn mismatch: no source → untouched; otherwise the median of the sources, bit 9 → bit 5 -/
theorem mismMcV_flagged {op : RaiseOp} (m : DMap) (r c : Nat) (hr : r < m.rows) (hc : c < m.cols)
    (h : (m.flag r c).testBit 9 = true) :
    (nums (sourcesMc m r c) = [] →
      (mismMc (Variant.mk true op) m).disp r c = m.disp r c ∧ (mismMc (Variant.mk true op) m).flag r c = m.flag r c) ∧
    (nums (sourcesMc m r c) ≠ [] →
      (mismMc (Variant.mk true op) m).disp r c = median (nums (sourcesMc m r c))
      ∧ (mismMc (Variant.mk true op) m).flag r c = raise op (m.flag r c - mismatch) filledMismatch) := by
  have h9 : ((m.flag r c &&& mismatch) != 0) = true := by
    have := hasBit_mismatch (m.flag r c); unfold hasBit at this; rw [this, h]
  have hint : (dirs16.map fun d => scanLoop .nan m (posMc r c d) (max m.cols m.rows - 1) 1)
      = dirs16.map fun d => (firstValid m (rayPts m (posMc r c d))).getD .nan := by
    apply List.map_congr_left; intro d hd; exact scanMc_nan_eq m r c hr hc d hd
  have hn : nums (dirs16.map fun d => scanLoop .nan m (posMc r c d) (max m.cols m.rows - 1) 1) = nums (sourcesMc m r c) := by
    rw [hint, nums_map_getD]; rfl
  simp only [mismMc, lift, mismMcPixel, h9, if_true, Bool.true_and, nanmedian]
  rw [hn]
  constructor
  · intro h0; simp [h0]
  · intro h0
    have : (nums (sourcesMc m r c)).isEmpty = false := by
      cases hl : nums (sourcesMc m r c) with
      | nil => exact absurd hl h0
      | cons x t => rfl
    simp [this]

/-! ### 5. From "what happened to the pixel" to the nine clauses -/

/-- what happened to pixel `(r, c)` between the map `a` before and the map `b` after filling -/
inductive Outcome (meth : Method) (off : Nat) (a b : DMap) (r c : Nat) : Prop
  | untouched (hf : flagged (a.flag r c) = false) (hd : b.disp r c = a.disp r c) (hg : b.flag r c = a.flag r c)
      (hb : (decide (off > 0) && isBorder a off r c) = true → a.flag r c = leftNodataOrBorder)
  | unfilled (hf : flagged (a.flag r c) = true) (hb : (decide (off > 0) && isBorder a off r c) = false)
      (hs : enoughSources meth (kindOf meth a r c) (sourcesOf meth a b r c).length = false)
      (hg : b.flag r c = unfilledFlag (kindOf meth a r c) (a.flag r c)) (hfg : flagged (b.flag r c) = true)
  | filled (hf : flagged (a.flag r c) = true) (hb : (decide (off > 0) && isBorder a off r c) = false)
      (hg : b.flag r c = filledFlag (kindOf meth a r c) (a.flag r c)) (hng : flagged (b.flag r c) = false)
      (q : Rat) (hd : b.disp r c = .num q)
      (hv : valueOK meth (kindOf meth a r c) (sourcesOf meth a b r c) (.num q) = true)
      (hbd : betweenValid a q = true)
      (he : enoughSources meth (kindOf meth a r c) (sourcesOf meth a b r c).length = true)

theorem isInvalid_of_flagged {f : Nat} (h : flagged f = true) : isInvalid f = true := by
  have := not_valid_of_flagged h
  unfold isInvalid; simpa using this

theorem enoughSources_pos {meth : Method} {k : Kind} {n : Nat} (h : enoughSources meth k n = true) : 1 ≤ n := by
  cases meth <;> cases k <;> simp [enoughSources] at h <;> omega

theorem pixelOK_of_outcome {meth : Method} {off : Nat} {a b : DMap} {r c : Nat}
    (h : Outcome meth off a b r c) : pixelOK meth off a b r c = true := by
  unfold pixelOK clausesAt
  simp only [List.all_cons, List.all_nil, Bool.and_true, Bool.and_eq_true]
  cases h with
  | untouched hf hd hg hb =>
    have hbits : hasBit (a.flag r c) mismatch = false := by
      unfold flagged at hf; simp only [Bool.or_eq_false_iff] at hf; exact hf.2
    refine ⟨?_, ?_, ?_, ?_, ?_, ?_, ?_, ?_, ?_⟩ <;>
      simp only [Clause.ok, cUnflagged, cFilledBits, cFilledFinite, cFilledFromValid, cFilledBetween, cNoSource,
        cFilledWhenSource, cSgmMismatch, cBorder, viewAt, View.filled, hf, hd, hg, hbits] <;> simp
    by_cases hbo : (decide (off > 0) && isBorder a off r c) = true
    · exact Or.inr (hb hbo)
    · left; simp at hbo; by_cases h0 : off = 0
      · exact Or.inl h0
      · exact Or.inr (hbo (Nat.pos_of_ne_zero h0))
  | unfilled hf hb hs hg hfg =>
    refine ⟨?_, ?_, ?_, ?_, ?_, ?_, ?_, ?_, ?_⟩
    · simp [Clause.ok, cUnflagged, viewAt, hf]
    · simp [Clause.ok, cFilledBits, viewAt, hg]
    · simp [Clause.ok, cFilledFinite, viewAt, View.filled, hf, hfg]
    · simp [Clause.ok, cFilledFromValid, viewAt, View.filled, hf, hfg]
    · simp [Clause.ok, cFilledBetween, viewAt, View.filled, hf, hfg]
    · simp [Clause.ok, cNoSource, viewAt, hfg, isInvalid_of_flagged hfg]
    · simp [Clause.ok, cFilledWhenSource, viewAt, hs]
    · simp only [Clause.ok, cSgmMismatch, viewAt, hb, hg]
      cases meth with
      | mccnn => simp
      | sgm =>
        by_cases h9 : hasBit (a.flag r c) mismatch = true
        · by_cases h8 : hasBit (a.flag r c) occlusion = true
          · simp [h8]
          · simp only [Bool.not_eq_true] at h8
            by_cases ht : touchesOcclusion a r c = true
            · simp [kindOf, h8, h9, ht, unfilledFlag]
            · simp only [Bool.not_eq_true] at ht
              simp [kindOf, h8, h9, ht, unfilledFlag]
        · simp only [Bool.not_eq_true] at h9
          simp [h9]
    · simp [Clause.ok, cBorder, viewAt, hb]
  | filled hf hb hg hng q hd hv hbd he =>
    have hne : (sourcesOf meth a b r c).isEmpty = false := by
      have := enoughSources_pos he
      cases hs : sourcesOf meth a b r c with
      | nil => rw [hs] at this; simp at this
      | cons x t => rfl
    refine ⟨?_, ?_, ?_, ?_, ?_, ?_, ?_, ?_, ?_⟩
    · simp [Clause.ok, cUnflagged, viewAt, hf]
    · simp [Clause.ok, cFilledBits, viewAt, hg]
    · simp [Clause.ok, cFilledFinite, viewAt, hd, Val.isNum, Val.isNan]
    · simp only [Clause.ok, cFilledFromValid, viewAt, hd, hv]; simp
    · simp only [Clause.ok, cFilledBetween, viewAt, hd, Val.get, hbd]; simp
    · simp [Clause.ok, cNoSource, viewAt, hne]
    · simp [Clause.ok, cFilledWhenSource, viewAt, hng]
    · simp only [Clause.ok, cSgmMismatch, viewAt, hb, hg]
      cases meth with
      | mccnn => simp
      | sgm =>
        by_cases h9 : hasBit (a.flag r c) mismatch = true
        · by_cases h8 : hasBit (a.flag r c) occlusion = true
          · simp [h8]
          · simp only [Bool.not_eq_true] at h8
            by_cases ht : touchesOcclusion a r c = true
            · simp [kindOf, h8, h9, ht, filledFlag]
            · simp only [Bool.not_eq_true] at ht
              simp [kindOf, h8, h9, ht, filledFlag]
        · simp only [Bool.not_eq_true] at h9
          simp [h9]
    · simp [Clause.ok, cBorder, viewAt, hb]


/-! ### 6. mc-cnn (guarded, either operator) -/

theorem one_testBit8 : (leftNodataOrBorder).testBit 8 = false := by decide
theorem one_testBit9 : (leftNodataOrBorder).testBit 9 = false := by decide

section mccnnV
variable {op : RaiseOp} {off : Nat} {a : DMap}

theorem mccnn_disp (v : Variant) (off : Nat) (a : DMap) (r c : Nat) :
    (mccnn v off a).disp r c = (mismMc v (occlMc v a)).disp r c := rfl

theorem mccnn_flag (v : Variant) (off : Nat) (a : DMap) (r c : Nat) :
    (mccnn v off a).flag r c =
      if (decide (off > 0) && isBorder a off r c) = true then leftNodataOrBorder
      else (mismMc v (occlMc v a)).flag r c := rfl

theorem not_border_of_bit {meth : Method} {k : Nat} (hwf : WFp op meth off a) {r c : Nat} (hr : r < a.rows)
    (hc : c < a.cols) (h1 : (leftNodataOrBorder).testBit k = false) (hk : (a.flag r c).testBit k = true) :
    (decide (off > 0) && isBorder a off r c) = false := by
  cases hb : (decide (off > 0) && isBorder a off r c)
  · rfl
  · have := hwf.bc r c hr hc hb; rw [this, h1] at hk; cases hk

theorem occlMc_valid_bdd {r c : Nat} (hr : r < a.rows) (hc : c < a.cols)
    (hv : (occlMc (Variant.mk true op) a).valid r c = true) {q : Rat} (hd : (occlMc (Variant.mk true op) a).disp r c = .num q) : Bdd a q := by
  by_cases h8 : (a.flag r c).testBit 8 = true
  · obtain ⟨hs, hn⟩ := occlMc_flagged (Variant.mk true op) a r c hc h8
    cases hsrc : sourceOcclMc a r c with
    | none =>
      exfalso
      have : (occlMc (Variant.mk true op) a).valid r c = false := by
        apply not_valid_of_bit8; rw [(hn hsrc).2]; exact h8
      rw [this] at hv; cases hv
    | some v =>
      obtain ⟨j, hj, hvj, hdj⟩ := sourceOcclMc_pixel hc hsrc
      rw [(hs v hsrc).1] at hd
      exact Bdd.self hr hj hvj (hdj.trans hd)
  · simp only [Bool.not_eq_true] at h8
    have := occlMc_unflagged (Variant.mk true op) a r c h8
    unfold DMap.valid at hv
    rw [this.2] at hv; rw [this.1] at hd
    exact Bdd.self hr hc hv hd

theorem mc_sources_bdd (r c : Nat) : ∀ q ∈ nums (sourcesMc (occlMc (Variant.mk true op) a) r c), Bdd a q := by
  intro q hq
  rw [mem_nums] at hq
  unfold sourcesMc at hq
  rw [List.mem_filterMap] at hq
  obtain ⟨d, _, hd⟩ := hq
  obtain ⟨r', c', hr', hc', hv, hdisp⟩ := ray_source_pixel hd
  exact occlMc_valid_bdd (op := op) (a := a) hr' hc' hv hdisp


theorem mccnnV_at_occl (hwf : WFp op .mccnn off a) {r c : Nat} (hr : r < a.rows) (hc : c < a.cols)
    (h8 : (a.flag r c).testBit 8 = true) :
    (mccnn (Variant.mk true op) off a).disp r c = (occlMc (Variant.mk true op) a).disp r c
    ∧ (mccnn (Variant.mk true op) off a).flag r c = (occlMc (Variant.mk true op) a).flag r c := by
  have h9 : (a.flag r c).testBit 9 = false := hwf.one r c hr hc h8
  have h4 : op = .add → (a.flag r c).testBit 4 = false := fun h => hwf.st8 h r c hr hc h8
  have hnb := not_border_of_bit hwf hr hc one_testBit8 h8
  have hm1 : ((occlMc (Variant.mk true op) a).flag r c).testBit 9 = false := by
    obtain ⟨hs, hn⟩ := occlMc_flagged (Variant.mk true op) a r c hc h8
    cases hsrc : sourceOcclMc a r c with
    | none => rw [(hn hsrc).2]; exact h9
    | some v =>
      rw [(hs v hsrc).2, upd_occl h8 h4, occlusion_pow, filledOcclusion_pow, testBit_replaceBit]; simp [h9]
  have := mismMc_unflagged (Variant.mk true op) (occlMc (Variant.mk true op) a) r c hm1
  rw [mccnn_disp, mccnn_flag, hnb]
  exact ⟨this.1, by simpa using this.2⟩

theorem midOf_mccnnV_agree (hwf : WFp op .mccnn off a) :
    Agree (midOf .mccnn a (mccnn (Variant.mk true op) off a)) (occlMc (Variant.mk true op) a) := by
  refine ⟨rfl, rfl, ?_, ?_⟩
  · intro r c hr hc
    simp only [midOf, hasBit_occlusion]
    by_cases h8 : (a.flag r c).testBit 8 = true
    · simp [h8, (mccnnV_at_occl hwf hr hc h8).1]
    · simp only [Bool.not_eq_true] at h8
      simp [h8, (occlMc_unflagged (Variant.mk true op) a r c h8).1]
  · intro r c hr hc
    simp only [midOf, hasBit_occlusion]
    by_cases h8 : (a.flag r c).testBit 8 = true
    · simp [h8, (mccnnV_at_occl hwf hr hc h8).2]
    · simp only [Bool.not_eq_true] at h8
      simp [h8, (occlMc_unflagged (Variant.mk true op) a r c h8).2]

theorem mccnnV_outcome (hwf : WFp op .mccnn off a) {r c : Nat} (hr : r < a.rows) (hc : c < a.cols) :
    Outcome .mccnn off a (mccnn (Variant.mk true op) off a) r c := by
  by_cases h8 : (a.flag r c).testBit 8 = true
  · have h9 : (a.flag r c).testBit 9 = false := hwf.one r c hr hc h8
    have h4 : op = .add → (a.flag r c).testBit 4 = false := fun h => hwf.st8 h r c hr hc h8
    have hnb := not_border_of_bit hwf hr hc one_testBit8 h8
    have hfl : flagged (a.flag r c) = true := by rw [flagged_eq, h8]; rfl
    have hk : kindOf .mccnn a r c = .occl := by simp [kindOf, hasBit_occlusion, h8]
    obtain ⟨hb1, hb2⟩ := mccnnV_at_occl hwf hr hc h8
    obtain ⟨hs, hn⟩ := occlMc_flagged (Variant.mk true op) a r c hc h8
    cases hsrc : sourceOcclMc a r c with
    | none =>
      have hg0 : (mccnn (Variant.mk true op) off a).flag r c = a.flag r c := by rw [hb2, (hn hsrc).2]
      refine Outcome.unfilled hfl hnb ?_ (by rw [hk, hg0]; rfl) (by rw [hg0]; exact hfl)
      simp [sourcesOf, hk, hsrc, nums, enoughSources]
    | some v =>
      obtain ⟨j, hj, hvj, hdj⟩ := sourceOcclMc_pixel hc hsrc
      obtain ⟨q, hq⟩ := hwf.vf r j hr hj hvj
      have hvq : v = .num q := hdj.symm.trans hq
      have hg : (mccnn (Variant.mk true op) off a).flag r c = replaceBit (a.flag r c) occlusion filledOcclusion := by
        rw [hb2, (hs v hsrc).2, upd_occl h8 h4]
      have hsrcs : sourcesOf .mccnn a (mccnn (Variant.mk true op) off a) r c = [q] := by
        simp [sourcesOf, hk, hsrc, hvq, nums]
      refine Outcome.filled hfl hnb (by rw [hk]; exact hg) ?_ q (by rw [hb1, (hs v hsrc).1, hvq]) ?_ ?_ ?_
      · rw [hg, flagged_eq, occlusion_pow, filledOcclusion_pow, testBit_replaceBit, testBit_replaceBit]; simp [h9]
      · rw [hk, hsrcs]; simp [valueOK]
      · rw [betweenValid_iff]; exact Bdd.self hr hj hvj hq
      · rw [hk, hsrcs]; simp [enoughSources]
  · simp only [Bool.not_eq_true] at h8
    obtain ⟨ho1, ho2⟩ := occlMc_unflagged (Variant.mk true op) a r c h8
    by_cases h9 : (a.flag r c).testBit 9 = true
    · have h5 : op = .add → (a.flag r c).testBit 5 = false := fun h => hwf.st9 h r c hr hc h9
      have hnb := not_border_of_bit hwf hr hc one_testBit9 h9
      have hfl : flagged (a.flag r c) = true := by rw [flagged_eq, h9]; simp
      have hk : kindOf .mccnn a r c = .mism := by simp [kindOf, hasBit_occlusion, hasBit_mismatch, h8, h9]
      have h9' : ((occlMc (Variant.mk true op) a).flag r c).testBit 9 = true := by rw [ho2]; exact h9
      have hsrcs : sourcesOf .mccnn a (mccnn (Variant.mk true op) off a) r c = nums (sourcesMc (occlMc (Variant.mk true op) a) r c) := by
        simp only [sourcesOf, hk]
        rw [sourcesMc_congr (midOf_mccnnV_agree hwf)]
      obtain ⟨hempty, hfill⟩ := mismMcV_flagged (occlMc (Variant.mk true op) a) r c hr hc h9'
      by_cases hne : nums (sourcesMc (occlMc (Variant.mk true op) a) r c) = []
      · have hg0 : (mccnn (Variant.mk true op) off a).flag r c = a.flag r c := by
          rw [mccnn_flag, hnb]; simp only [Bool.false_eq_true, if_false]; rw [(hempty hne).2, ho2]
        refine Outcome.unfilled hfl hnb ?_ (by rw [hk, hg0]; rfl) (by rw [hg0]; exact hfl)
        rw [hk, hsrcs, hne]; simp [enoughSources]
      · have hg : (mccnn (Variant.mk true op) off a).flag r c = replaceBit (a.flag r c) mismatch filledMismatch := by
          rw [mccnn_flag, hnb]; simp only [Bool.false_eq_true, if_false]
          rw [(hfill hne).2, ho2, upd_mism h9 h5]
        have hd : (mccnn (Variant.mk true op) off a).disp r c = median (nums (sourcesMc (occlMc (Variant.mk true op) a) r c)) := by
          rw [mccnn_disp]; exact (hfill hne).1
        cases hmed : median (nums (sourcesMc (occlMc (Variant.mk true op) a) r c)) with
        | nan => exact absurd ((median_eq_nan_iff _).mp hmed) hne
        | num q =>
          refine Outcome.filled hfl hnb (by rw [hk]; exact hg) ?_ q (by rw [hd, hmed]) ?_ ?_ ?_
          · rw [hg, flagged_eq, mismatch_pow, filledMismatch_pow, testBit_replaceBit, testBit_replaceBit]; simp [h8]
          · rw [hk, hsrcs]; simp [valueOK, hmed]
          · rw [betweenValid_iff]; exact Bdd.median (mc_sources_bdd r c) hmed
          · rw [hk, hsrcs]; simp only [enoughSources, decide_eq_true_eq]
            cases hl : nums (sourcesMc (occlMc (Variant.mk true op) a) r c) with
            | nil => exact absurd hl hne
            | cons x t => simp
    · simp only [Bool.not_eq_true] at h9
      have hfl : flagged (a.flag r c) = false := by rw [flagged_eq, h8, h9]; rfl
      have h9' : ((occlMc (Variant.mk true op) a).flag r c).testBit 9 = false := by rw [ho2]; exact h9
      obtain ⟨hm1, hm2⟩ := mismMc_unflagged (Variant.mk true op) (occlMc (Variant.mk true op) a) r c h9'
      refine Outcome.untouched hfl (by rw [mccnn_disp, hm1, ho1]) ?_ (hwf.bc r c hr hc)
      rw [mccnn_flag]
      by_cases hb : (decide (off > 0) && isBorder a off r c) = true
      · rw [if_pos hb, hwf.bc r c hr hc hb]
      · rw [if_neg hb, hm2, ho2]

end mccnnV

/-! ### 7. sgm (guarded, either operator) -/

section sgmV
variable {op : RaiseOp} {off : Nat} {a : DMap}

theorem bit8_false_of_bit9 (hwf : WFp op .sgm off a) {r c : Nat} (hr : r < a.rows) (hc : c < a.cols)
    (h9 : (a.flag r c).testBit 9 = true) : (a.flag r c).testBit 8 = false := by
  cases h8 : (a.flag r c).testBit 8
  · rfl
  · have := hwf.one r c hr hc h8; rw [this] at h9; cases h9

theorem kindOf_sgm_mism {r c : Nat} (h8 : (a.flag r c).testBit 8 = false) (h9 : (a.flag r c).testBit 9 = true) :
    kindOf .sgm a r c = if touchesOcclusion a r c then .mismAsOccl else .mism := by
  simp [kindOf, hasBit_occlusion, hasBit_mismatch, h8, h9]

theorem sgm_input_sources_bdd (r c : Nat) : ∀ q ∈ nums (sourcesSgm a r c), Bdd a q := by
  intro q hq
  rw [mem_nums] at hq
  unfold sourcesSgm at hq
  rw [List.mem_filterMap] at hq
  obtain ⟨d, _, hd⟩ := hq
  obtain ⟨r', c', hr', hc', hv, hdisp⟩ := ray_source_pixel hd
  exact Bdd.self hr' hc' hv hdisp

theorem isSecondLowestAbs_mem {l : List Rat} {q : Rat} (h : isSecondLowestAbs l q = true) : q ∈ l := by
  unfold isSecondLowestAbs at h
  simp only [Bool.and_eq_true] at h
  exact List.contains_iff_mem.mp h.1.1


theorem mismSgmV_unflagged (m : DMap) (r c : Nat) (h : (m.flag r c).testBit 9 = false) :
    (mismSgm (Variant.mk true op) m).disp r c = m.disp r c ∧ (mismSgm (Variant.mk true op) m).flag r c = m.flag r c := by
  have : ((m.flag r c &&& mismatch) != 0) = false := by
    have := hasBit_mismatch (m.flag r c); unfold hasBit at this; rw [this, h]
  simp only [mismSgm, lift, mismSgmPixel, this, Bool.false_eq_true, if_false, and_self]

theorem mismSgmV_touch (m : DMap) (r c : Nat) (hr : r < m.rows) (hc : c < m.cols) (h : (m.flag r c).testBit 9 = true)
    (ht : touchesOcclusion m r c = true) :
    (mismSgm (Variant.mk true op) m).disp r c = m.disp r c
    ∧ (mismSgm (Variant.mk true op) m).flag r c = raise op (m.flag r c - mismatch) occlusion := by
  have h9 : ((m.flag r c &&& mismatch) != 0) = true := by
    have := hasBit_mismatch (m.flag r c); unfold hasBit at this; rw [this, h]
  have h3 := occlusionSum3x3_ne_zero m r c hr hc
  rw [ht] at h3
  simp only [mismSgm, lift, mismSgmPixel, h9, h3, if_true, and_self]

theorem mismSgmV_fill (m : DMap) (r c : Nat) (hr : r < m.rows) (hc : c < m.cols) (h : (m.flag r c).testBit 9 = true)
    (ht : touchesOcclusion m r c = false) :
    (nums (sourcesSgm m r c) = [] →
      (mismSgm (Variant.mk true op) m).disp r c = m.disp r c ∧ (mismSgm (Variant.mk true op) m).flag r c = m.flag r c) ∧
    (nums (sourcesSgm m r c) ≠ [] →
      (mismSgm (Variant.mk true op) m).disp r c = median (nums (sourcesSgm m r c))
      ∧ (mismSgm (Variant.mk true op) m).flag r c = raise op (m.flag r c - mismatch) filledMismatch) := by
  have h9 : ((m.flag r c &&& mismatch) != 0) = true := by
    have := hasBit_mismatch (m.flag r c); unfold hasBit at this; rw [this, h]
  have h3 := occlusionSum3x3_ne_zero m r c hr hc
  rw [ht] at h3
  have hn : nums (findValidNeighbors m r c) = nums (sourcesSgm m r c) := by
    rw [findValidNeighbors_eq m r c hr hc, nums_map_getD]; rfl
  simp only [mismSgm, lift, mismSgmPixel, h9, h3, if_true, Bool.false_eq_true, if_false, Bool.true_and, nanmedian]
  rw [hn]
  constructor
  · intro h0; simp [h0]
  · intro h0
    have : (nums (sourcesSgm m r c)).isEmpty = false := by
      cases hl : nums (sourcesSgm m r c) with
      | nil => exact absurd hl h0
      | cons x t => rfl
    simp [this]

theorem occlSgmV_unflagged (m : DMap) (r c : Nat) (h : (m.flag r c).testBit 8 = false) :
    (occlSgm (Variant.mk true op) m).disp r c = m.disp r c ∧ (occlSgm (Variant.mk true op) m).flag r c = m.flag r c := by
  have : ((m.flag r c &&& occlusion) != 0) = false := by
    have := hasBit_occlusion (m.flag r c); unfold hasBit at this; rw [this, h]
  simp only [occlSgm, lift, occlSgmPixel, this, Bool.false_eq_true, if_false, and_self]

theorem occlSgmV_flagged (m : DMap) (r c : Nat) (hr : r < m.rows) (hc : c < m.cols) (h : (m.flag r c).testBit 8 = true) :
    ((nums (sourcesSgm m r c)).length < 2 →
      (occlSgm (Variant.mk true op) m).disp r c = m.disp r c ∧ (occlSgm (Variant.mk true op) m).flag r c = m.flag r c) ∧
    (2 ≤ (nums (sourcesSgm m r c)).length →
      (∃ q, (occlSgm (Variant.mk true op) m).disp r c = .num q ∧ isSecondLowestAbs (nums (sourcesSgm m r c)) q = true)
      ∧ (occlSgm (Variant.mk true op) m).flag r c = raise op (m.flag r c - occlusion) filledOcclusion) := by
  have h8 : ((m.flag r c &&& occlusion) != 0) = true := by
    have := hasBit_occlusion (m.flag r c); unfold hasBit at this; rw [this, h]
  have hn : nums (findValidNeighbors m r c) = nums (sourcesSgm m r c) := by
    rw [findValidNeighbors_eq m r c hr hc, nums_map_getD]; rfl
  simp only [occlSgm, lift, occlSgmPixel, h8, if_true, Bool.true_and]
  rw [hn]
  constructor
  · intro hlt; simp [hlt]
  · intro h2
    have : ¬ (nums (sourcesSgm m r c)).length < 2 := by omega
    simp only [this, decide_false, Bool.false_eq_true, if_false, and_true]
    rw [← hn] at h2 ⊢
    exact secondLowestAbs_spec _ h2

theorem sgmV_eq (a : DMap) : sgm (Variant.mk true op) a = occlSgm (Variant.mk true op) (mismSgm (Variant.mk true op) a) := rfl

/-- a mismatch not touching an occlusion: what the repaired first pass produced is final -/
theorem sgmV_at_mism (hwf : WFp op .sgm off a) {r c : Nat} (hr : r < a.rows) (hc : c < a.cols)
    (h9 : (a.flag r c).testBit 9 = true) (ht : touchesOcclusion a r c = false) :
    (sgm (Variant.mk true op) a).disp r c = (mismSgm (Variant.mk true op) a).disp r c
    ∧ (sgm (Variant.mk true op) a).flag r c = (mismSgm (Variant.mk true op) a).flag r c := by
  have h8 := bit8_false_of_bit9 hwf hr hc h9
  have h5 : op = .add → (a.flag r c).testBit 5 = false := fun h => hwf.st9 h r c hr hc h9
  obtain ⟨he, hf⟩ := mismSgmV_fill (op := op) a r c hr hc h9 ht
  have : ((mismSgm (Variant.mk true op) a).flag r c).testBit 8 = false := by
    by_cases h0 : nums (sourcesSgm a r c) = []
    · rw [(he h0).2]; exact h8
    · rw [(hf h0).2, upd_mism h9 h5, mismatch_pow, filledMismatch_pow, testBit_replaceBit]; simp [h8]
  rw [sgmV_eq]
  exact occlSgmV_unflagged _ r c this

theorem midOf_sgmV_agree (hwf : WFp op .sgm off a) :
    Agree (midOf .sgm a (sgm (Variant.mk true op) a)) (mismSgm (Variant.mk true op) a) := by
  refine ⟨rfl, rfl, ?_, ?_⟩
  · intro r c hr hc
    by_cases h9 : (a.flag r c).testBit 9 = true
    · have h8 := bit8_false_of_bit9 hwf hr hc h9
      cases ht : touchesOcclusion a r c
      · have hk : kindOf .sgm a r c = .mism := by rw [kindOf_sgm_mism h8 h9, ht]; rfl
        simp only [midOf, hk, if_true]
        exact (sgmV_at_mism hwf hr hc h9 ht).1
      · have hk : kindOf .sgm a r c = .mismAsOccl := by rw [kindOf_sgm_mism h8 h9, ht]; rfl
        simp only [midOf, hk]
        rw [(mismSgmV_touch (op := op) a r c hr hc h9 ht).1]; simp
    · simp only [Bool.not_eq_true] at h9
      have hk : kindOf .sgm a r c ≠ .mism := by
        simp only [kindOf, hasBit_occlusion, hasBit_mismatch, h9]
        cases (a.flag r c).testBit 8 <;> simp
      simp only [midOf, hk, if_false]
      exact (mismSgmV_unflagged (op := op) a r c h9).1.symm
  · intro r c hr hc
    by_cases h9 : (a.flag r c).testBit 9 = true
    · have h8 := bit8_false_of_bit9 hwf hr hc h9
      cases ht : touchesOcclusion a r c
      · have hk : kindOf .sgm a r c = .mism := by rw [kindOf_sgm_mism h8 h9, ht]; rfl
        simp only [midOf, hk]
        exact (sgmV_at_mism hwf hr hc h9 ht).2
      · have hk : kindOf .sgm a r c = .mismAsOccl := by rw [kindOf_sgm_mism h8 h9, ht]; rfl
        simp only [midOf, hk]
        rw [(mismSgmV_touch (op := op) a r c hr hc h9 ht).2, upd_mism_occl h9 h8]
    · simp only [Bool.not_eq_true] at h9
      have := (mismSgmV_unflagged (op := op) a r c h9).2
      simp only [midOf, kindOf, hasBit_occlusion, hasBit_mismatch, h9]
      cases (a.flag r c).testBit 8 <;> simp [this]

theorem mismSgmV_valid_bdd (hwf : WFp op .sgm off a) {r c : Nat} (hr : r < a.rows) (hc : c < a.cols)
    (hv : (mismSgm (Variant.mk true op) a).valid r c = true) {q : Rat}
    (hd : (mismSgm (Variant.mk true op) a).disp r c = .num q) : Bdd a q := by
  by_cases h9 : (a.flag r c).testBit 9 = true
  · have h8 := bit8_false_of_bit9 hwf hr hc h9
    cases ht : touchesOcclusion a r c
    · obtain ⟨he, hf⟩ := mismSgmV_fill (op := op) a r c hr hc h9 ht
      by_cases h0 : nums (sourcesSgm a r c) = []
      · exfalso
        have : (mismSgm (Variant.mk true op) a).valid r c = false := by
          apply not_valid_of_bit9; rw [(he h0).2]; exact h9
        rw [this] at hv; cases hv
      · rw [(hf h0).1] at hd
        exact Bdd.median (sgm_input_sources_bdd r c) hd
    · exfalso
      have : (mismSgm (Variant.mk true op) a).valid r c = false := by
        apply not_valid_of_bit8
        rw [(mismSgmV_touch (op := op) a r c hr hc h9 ht).2, upd_mism_occl h9 h8, mismatch_pow, occlusion_pow, testBit_replaceBit]
        simp
      rw [this] at hv; cases hv
  · simp only [Bool.not_eq_true] at h9
    have := mismSgmV_unflagged (op := op) a r c h9
    unfold DMap.valid at hv
    rw [this.2] at hv; rw [this.1] at hd
    exact Bdd.self hr hc hv hd

theorem sgmV_sources_bdd (hwf : WFp op .sgm off a) (r c : Nat) :
    ∀ q ∈ nums (sourcesSgm (mismSgm (Variant.mk true op) a) r c), Bdd a q := by
  intro q hq
  rw [mem_nums] at hq
  unfold sourcesSgm at hq
  rw [List.mem_filterMap] at hq
  obtain ⟨d, _, hd⟩ := hq
  obtain ⟨r', c', hr', hc', hv, hdisp⟩ := ray_source_pixel hd
  exact mismSgmV_valid_bdd hwf hr' hc' hv hdisp

/-- a pixel handled as an occlusion (bit 8 after the repaired first pass): filled from two or more
    sources, left as it is otherwise -/
theorem sgmV_occl (hwf : WFp op .sgm off a) {r c : Nat} (hr : r < a.rows) (hc : c < a.cols)
    (hk : kindOf .sgm a r c = .occl ∨ kindOf .sgm a r c = .mismAsOccl)
    (hfl : flagged (a.flag r c) = true) (hnb : (decide (off > 0) && isBorder a off r c) = false)
    (h8 : ((mismSgm (Variant.mk true op) a).flag r c).testBit 8 = true)
    (h4 : op = .add → ((mismSgm (Variant.mk true op) a).flag r c).testBit 4 = false)
    (hun : (mismSgm (Variant.mk true op) a).flag r c = unfilledFlag (kindOf .sgm a r c) (a.flag r c))
    (hfi : replaceBit ((mismSgm (Variant.mk true op) a).flag r c) occlusion filledOcclusion
            = filledFlag (kindOf .sgm a r c) (a.flag r c))
    (hnf : flagged (filledFlag (kindOf .sgm a r c) (a.flag r c)) = false) :
    Outcome .sgm off a (sgm (Variant.mk true op) a) r c := by
  have hsrcs : sourcesOf .sgm a (sgm (Variant.mk true op) a) r c
      = nums (sourcesSgm (mismSgm (Variant.mk true op) a) r c) := by
    rcases hk with hk | hk <;> simp only [sourcesOf, hk] <;> rw [sourcesSgm_congr (midOf_sgmV_agree hwf)]
  obtain ⟨hlt, hge⟩ := occlSgmV_flagged (mismSgm (Variant.mk true op) a) r c hr hc h8
  by_cases h2 : 2 ≤ (nums (sourcesSgm (mismSgm (Variant.mk true op) a) r c)).length
  · obtain ⟨⟨q, hq, hs⟩, hg⟩ := hge h2
    have hg' : (sgm (Variant.mk true op) a).flag r c = filledFlag (kindOf .sgm a r c) (a.flag r c) := by
      rw [sgmV_eq, hg, upd_occl h8 h4, hfi]
    refine Outcome.filled hfl hnb hg' (by rw [hg']; exact hnf) q (by rw [sgmV_eq]; exact hq) ?_ ?_ ?_
    · rw [hsrcs]; rcases hk with hk | hk <;> simp [hk, valueOK, hs]
    · rw [betweenValid_iff]; exact sgmV_sources_bdd hwf r c q (isSecondLowestAbs_mem hs)
    · rw [hsrcs]; rcases hk with hk | hk <;> simpa [hk, enoughSources] using h2
  · have hlt' : (nums (sourcesSgm (mismSgm (Variant.mk true op) a) r c)).length < 2 := by omega
    have hg' : (sgm (Variant.mk true op) a).flag r c = unfilledFlag (kindOf .sgm a r c) (a.flag r c) := by
      rw [sgmV_eq, (hlt hlt').2, hun]
    refine Outcome.unfilled hfl hnb ?_ hg' ?_
    · rw [hsrcs]; rcases hk with hk | hk <;> simpa [hk, enoughSources] using hlt'
    · rw [sgmV_eq, (hlt hlt').2, flagged_eq, h8]; rfl

theorem sgmV_outcome (hwf : WFp op .sgm off a) {r c : Nat} (hr : r < a.rows) (hc : c < a.cols) :
    Outcome .sgm off a (sgm (Variant.mk true op) a) r c := by
  have hborder : ∀ k, (leftNodataOrBorder).testBit k = false → (a.flag r c).testBit k = true →
      (decide (off > 0) && isBorder a off r c) = false := by
    intro k h1 hk
    cases hb : (decide (off > 0) && isBorder a off r c)
    · rfl
    · have := hwf.bc r c hr hc hb; rw [this, h1] at hk; cases hk
  by_cases h8 : (a.flag r c).testBit 8 = true
  · -- occlusion
    have h9 : (a.flag r c).testBit 9 = false := hwf.one r c hr hc h8
    have h4 : op = .add → (a.flag r c).testBit 4 = false := fun h => hwf.st8 h r c hr hc h8
    have hfl : flagged (a.flag r c) = true := by rw [flagged_eq, h8]; rfl
    have hk : kindOf .sgm a r c = .occl := by simp [kindOf, hasBit_occlusion, h8]
    obtain ⟨_, hm2⟩ := mismSgmV_unflagged (op := op) a r c h9
    refine sgmV_occl hwf hr hc (Or.inl hk) hfl (hborder 8 one_testBit8 h8) (by rw [hm2]; exact h8)
      (by rw [hm2]; exact h4) (by rw [hm2, hk]; rfl) (by rw [hm2, hk]; rfl) ?_
    rw [hk]; simp only [filledFlag]
    rw [flagged_eq, occlusion_pow, filledOcclusion_pow, testBit_replaceBit, testBit_replaceBit]; simp [h9]
  · simp only [Bool.not_eq_true] at h8
    by_cases h9 : (a.flag r c).testBit 9 = true
    · have h5 : op = .add → (a.flag r c).testBit 5 = false := fun h => hwf.st9 h r c hr hc h9
      have h4 : op = .add → (a.flag r c).testBit 4 = false := fun h => hwf.st9s h rfl r c hr hc h9
      have hnb := hborder 9 one_testBit9 h9
      have hfl : flagged (a.flag r c) = true := by rw [flagged_eq, h9]; simp
      cases ht : touchesOcclusion a r c
      · -- plain mismatch
        have hk : kindOf .sgm a r c = .mism := by rw [kindOf_sgm_mism h8 h9, ht]; rfl
        obtain ⟨hb1, hb2⟩ := sgmV_at_mism hwf hr hc h9 ht
        obtain ⟨he, hf⟩ := mismSgmV_fill (op := op) a r c hr hc h9 ht
        have hsrcs : sourcesOf .sgm a (sgm (Variant.mk true op) a) r c = nums (sourcesSgm a r c) := by
          simp only [sourcesOf, hk]
        by_cases hne : nums (sourcesSgm a r c) = []
        · have hg0 : (sgm (Variant.mk true op) a).flag r c = a.flag r c := by rw [hb2, (he hne).2]
          refine Outcome.unfilled hfl hnb ?_ (by rw [hk, hg0]; rfl) (by rw [hg0]; exact hfl)
          rw [hk, hsrcs, hne]; simp [enoughSources]
        · have hg : (sgm (Variant.mk true op) a).flag r c = replaceBit (a.flag r c) mismatch filledMismatch := by
            rw [hb2, (hf hne).2, upd_mism h9 h5]
          cases hmed : median (nums (sourcesSgm a r c)) with
          | nan => exact absurd ((median_eq_nan_iff _).mp hmed) hne
          | num q =>
            refine Outcome.filled hfl hnb (by rw [hk]; exact hg) ?_ q (by rw [hb1, (hf hne).1, hmed]) ?_ ?_ ?_
            · rw [hg, flagged_eq, mismatch_pow, filledMismatch_pow, testBit_replaceBit, testBit_replaceBit]; simp [h8]
            · rw [hk, hsrcs]; simp [valueOK, hmed]
            · rw [betweenValid_iff]; exact Bdd.median (sgm_input_sources_bdd r c) hmed
            · rw [hk, hsrcs]; simp only [enoughSources, decide_eq_true_eq]
              cases hl : nums (sourcesSgm a r c) with
              | nil => exact absurd hl hne
              | cons x t => simp
      · -- mismatch touching an occlusion
        have hk : kindOf .sgm a r c = .mismAsOccl := by rw [kindOf_sgm_mism h8 h9, ht]; rfl
        obtain ⟨_, hm2⟩ := mismSgmV_touch (op := op) a r c hr hc h9 ht
        have hf1 : (mismSgm (Variant.mk true op) a).flag r c = replaceBit (a.flag r c) (2 ^ 9) (2 ^ 8) := by
          rw [hm2, upd_mism_occl h9 h8, mismatch_pow, occlusion_pow]
        refine sgmV_occl hwf hr hc (Or.inr hk) hfl hnb (by rw [hf1, testBit_replaceBit]; simp)
          (by intro hop; rw [hf1, testBit_replaceBit]; simp [h4 hop]) (by rw [hf1, hk]; simp [unfilledFlag, mismatch_pow, occlusion_pow]) ?_ ?_
        · rw [hf1, hk, occlusion_pow, filledOcclusion_pow, replaceBit_twice _ 9 8 4 h8 (by decide)]
          simp [filledFlag, mismatch_pow, filledOcclusion_pow]
        · rw [hk]; simp only [filledFlag]
          rw [flagged_eq, mismatch_pow, filledOcclusion_pow, testBit_replaceBit, testBit_replaceBit]; simp [h8]
    · -- neither bit
      simp only [Bool.not_eq_true] at h9
      have hfl : flagged (a.flag r c) = false := by rw [flagged_eq, h8, h9]; rfl
      obtain ⟨hm1, hm2⟩ := mismSgmV_unflagged (op := op) a r c h9
      have h8' : ((mismSgm (Variant.mk true op) a).flag r c).testBit 8 = false := by rw [hm2]; exact h8
      obtain ⟨ho1, ho2⟩ := occlSgmV_unflagged (mismSgm (Variant.mk true op) a) r c h8'
      exact Outcome.untouched hfl (by rw [sgmV_eq, ho1, hm1]) (by rw [sgmV_eq, ho2, hm2]) (hwf.bc r c hr hc)

end sgmV

/-! ### 8. The theorems that carry the property -/

/-- MAIN (per pixel).  For every guarded text of the kernels (`+=` or `|=`), every well-formed map of any size
    and every pixel inside it: what happened to the pixel is one of the three outcomes the statement allows. -/
theorem outcome (v : Variant) (hg : v.guard = true) (meth : Method) (off : Nat) (a : DMap)
    (hwf : wf v.op meth off a = true) {r c : Nat} (hr : r < a.rows) (hc : c < a.cols) :
    Outcome meth off a (interpolate v meth off a) r c := by
  obtain ⟨g, op⟩ := v
  simp only at hg; subst hg
  cases meth with
  | mccnn => exact mccnnV_outcome (wf_elim hwf) hr hc
  | sgm => exact sgmV_outcome (wf_elim hwf) hr hc

theorem pixel_ok (v : Variant) (hg : v.guard = true) (meth : Method) (off : Nat) (a : DMap)
    (hwf : wf v.op meth off a = true) {r c : Nat} (hr : r < a.rows) (hc : c < a.cols) :
    pixelOK meth off a (interpolate v meth off a) r c = true :=
  pixelOK_of_outcome (outcome v hg meth off a hwf hr hc)

/-- FULL STRENGTH.  Every guarded text of the kernels, every well-formed map of any size, both methods: the
    whole specification holds (all nine clauses at every pixel). -/
theorem spec_holds (v : Variant) (hg : v.guard = true) (meth : Method) (off : Nat) (a : DMap)
    (hwf : wf v.op meth off a = true) : spec meth off a (interpolate v meth off a) = true := by
  unfold spec
  have h1 : (interpolate v meth off a).rows = a.rows := by cases meth <;> rfl
  have h2 : (interpolate v meth off a).cols = a.cols := by cases meth <;> rfl
  simp only [h1, h2, decide_true, Bool.true_and, List.all_eq_true, List.mem_range]
  intro r hr c hc
  exact pixel_ok v hg meth off a hwf hr hc

/-- THE PROPERTY FOR THE CURRENT SOURCE: the variant the translator read from
    `pandora/validation/interpolated_disparity.py` on this run is guarded, and for it the specification holds
    on every well-formed map.  With `|=` (7723010) `wf` no longer asks for "no stale filled bit". -/
theorem spec_holds_source (meth : Method) (off : Nat) (a : DMap) (hwf : wf sourceVariant.op meth off a = true) :
    spec meth off a (interpolate sourceVariant meth off a) = true :=
  spec_holds sourceVariant source_guarded meth off a hwf

/-- only pixels flagged 8 or 9 can change — every other pixel keeps its disparity and its flags bit for bit -/
theorem unflagged_untouched (v : Variant) (hg : v.guard = true) (meth : Method) (off : Nat) (a : DMap)
    (hwf : wf v.op meth off a = true) {r c : Nat} (hr : r < a.rows) (hc : c < a.cols)
    (hf : flagged (a.flag r c) = false) :
    (interpolate v meth off a).disp r c = a.disp r c ∧ (interpolate v meth off a).flag r c = a.flag r c := by
  cases outcome v hg meth off a hwf hr hc with
  | untouched _ hd hg' _ => exact ⟨hd, hg'⟩
  | unfilled hf' => rw [hf] at hf'; cases hf'
  | filled hf' => rw [hf] at hf'; cases hf'

/-- a flagged pixel is never on the border and ends with bit 8 replaced by 4 / bit 9 by 5 (sgm: by 4 when it
    touches an occlusion) and a finite disparity, or stays flagged (bit 9 → 8 for an sgm mismatch touching an
    occlusion) with too few sources; no other bit ever changes -/
theorem filled_bits (v : Variant) (hg : v.guard = true) (meth : Method) (off : Nat) (a : DMap)
    (hwf : wf v.op meth off a = true) {r c : Nat} (hr : r < a.rows) (hc : c < a.cols)
    (hf : flagged (a.flag r c) = true) :
    (decide (off > 0) && isBorder a off r c) = false ∧
    (((interpolate v meth off a).flag r c = filledFlag (kindOf meth a r c) (a.flag r c)
        ∧ ∃ q, (interpolate v meth off a).disp r c = .num q)
      ∨ ((interpolate v meth off a).flag r c = unfilledFlag (kindOf meth a r c) (a.flag r c)
          ∧ flagged ((interpolate v meth off a).flag r c) = true
          ∧ enoughSources meth (kindOf meth a r c) (sourcesOf meth a (interpolate v meth off a) r c).length = false)) := by
  cases outcome v hg meth off a hwf hr hc with
  | untouched hf' => rw [hf] at hf'; cases hf'
  | unfilled _ hb hs hg' hfg => exact ⟨hb, Or.inr ⟨hg', hfg, hs⟩⟩
  | filled _ hb hg' _ q hd => exact ⟨hb, Or.inl ⟨hg', q, hd⟩⟩

/-- mc-cnn masks the border whatever the input and the variant: border pixels end with bit 0 only -/
theorem border_bit0_only_mccnn (v : Variant) (off : Nat) (a : DMap) (r c : Nat)
    (h : (decide (off > 0) && isBorder a off r c) = true) : (mccnn v off a).flag r c = leftNodataOrBorder := by
  rw [mccnn_flag, if_pos h]

/-- border pixels end with bit 0 only, both methods (sgm: because they are left untouched) -/
theorem border_bit0_only (v : Variant) (hg : v.guard = true) (meth : Method) (off : Nat) (a : DMap)
    (hwf : wf v.op meth off a = true) {r c : Nat} (hr : r < a.rows) (hc : c < a.cols)
    (h : (decide (off > 0) && isBorder a off r c) = true) :
    (interpolate v meth off a).flag r c = leftNodataOrBorder := by
  have hf1 := (wf_elim hwf).bc r c hr hc h
  have hf : flagged (a.flag r c) = false := by rw [hf1]; decide
  rw [(unflagged_untouched v hg meth off a hwf hr hc hf).2, hf1]

/-! ### 9. Why the guards and `|=` are needed: the same statement is false of the earlier texts of the kernels
    (findings F6a–F6d repaired by e1d31ca, F4 repaired by 7723010; inputs in `corpus/C14/`), and non-vacuity -/

/-- a map from nested lists (cells outside read as NaN / 0) -/
def mapOf (disp : List (List Val)) (flag : List (List Nat)) : DMap :=
  { rows := flag.length, cols := (flag.headD []).length,
    disp := fun r c => (disp.getD r []).getD c .nan, flag := fun r c => (flag.getD r []).getD c 0 }

def okOf (cl : View → Clause) (v : Variant) (meth : Method) (off : Nat) (a : DMap) (r c : Nat) : Bool :=
  (cl (viewAt meth off a (interpolate v meth off a) r c)).ok

/-- the kernels before e1d31ca and 7723010 / with the guards only / as they are now -/
def vOld : Variant := ⟨false, .add⟩
def vGuardAdd : Variant := ⟨true, .add⟩
def vNow : Variant := ⟨true, .or⟩

/-- F6a (corpus f6a_mccnn_mismatch_nan.json), unguarded kernels: a mismatch with no valid pixel on its 16 scan
    lines is filled with NaN and marked "filled mismatch"; the guarded kernels leave it flagged. -/
def exF6a : DMap := mapOf [[.num 5, .num 6, .nan, .num 8, .num 9]] [[1, 1, 512, 1, 1]]

theorem mccnn_mismatch_nan_counterexample :
    wf .add .mccnn 0 exF6a = true
    ∧ (mccnn vOld 0 exF6a).disp 0 2 = .nan ∧ (mccnn vOld 0 exF6a).flag 0 2 = 32
    ∧ okOf cFilledFinite vOld .mccnn 0 exF6a 0 2 = false ∧ okOf cNoSource vOld .mccnn 0 exF6a 0 2 = false
    ∧ spec .mccnn 0 exF6a (interpolate vOld .mccnn 0 exF6a) = false
    ∧ (mccnn vNow 0 exF6a).flag 0 2 = 512 := by decide

/-- F6b (corpus f6b_mccnn_mismatch_zero.json), unguarded kernels: two scan lines of the mismatch at (0,0) run
    their max(rows, cols) − 1 = 2 steps inside the image on invalid pixels: the 0 of `np.zeros` enters the median
    twice, the only valid pixel in sight carries 7, the pixel is filled with 0 — outside [7, 7].  Now: 7. -/
def exF6b : DMap := mapOf [[.nan, .nan, .nan], [.nan, .num 7, .nan]] [[512, 2, 2], [2, 0, 2]]

theorem mccnn_mismatch_zero_counterexample :
    wf .add .mccnn 0 exF6b = true
    ∧ (mccnn vOld 0 exF6b).disp 0 0 = .num 0 ∧ (mccnn vOld 0 exF6b).flag 0 0 = 32
    ∧ sourcesOf .mccnn exF6b (mccnn vOld 0 exF6b) 0 0 = [7]
    ∧ okOf (cFilledFromValid .mccnn) vOld .mccnn 0 exF6b 0 0 = false
    ∧ okOf (cFilledBetween exF6b) vOld .mccnn 0 exF6b 0 0 = false
    ∧ spec .mccnn 0 exF6b (interpolate vOld .mccnn 0 exF6b) = false
    ∧ (mccnn vNow 0 exF6b).disp 0 0 = .num 7 := by decide

/-- F6c (corpus f6c_sgm_mismatch_nan.json), unguarded: sgm mismatch without valid pixel on its 8 scan lines. -/
def exF6c : DMap :=
  mapOf [[.num 5, .num 6, .num 7], [.num 1, .nan, .num 3], [.num 1, .num 4, .num (-1)]] [[1, 1, 1], [1, 512, 1], [1, 1, 1]]

theorem sgm_mismatch_nan_counterexample :
    wf .add .sgm 0 exF6c = true
    ∧ (sgm vOld exF6c).disp 1 1 = .nan ∧ (sgm vOld exF6c).flag 1 1 = 32
    ∧ okOf cFilledFinite vOld .sgm 0 exF6c 1 1 = false ∧ okOf cNoSource vOld .sgm 0 exF6c 1 1 = false
    ∧ spec .sgm 0 exF6c (interpolate vOld .sgm 0 exF6c) = false
    ∧ (sgm vNow exF6c).flag 1 1 = 512 := by decide

/-- F6d (corpus f6d_sgm_occlusion_nan.json), unguarded: sgm occlusion with a single valid pixel in sight:
    `argsort(|·|)[1]` points at a NaN. -/
def exF6d : DMap :=
  mapOf [[.num 5, .num 6, .num 7], [.num 1, .nan, .num 3], [.num 1, .num 4, .num (-1)]] [[1, 1, 1], [0, 256, 1], [1, 1, 1]]

theorem sgm_occlusion_nan_counterexample :
    wf .add .sgm 0 exF6d = true
    ∧ sourcesOf .sgm exF6d (sgm vOld exF6d) 1 1 = [1]
    ∧ (sgm vOld exF6d).disp 1 1 = .nan ∧ (sgm vOld exF6d).flag 1 1 = 16
    ∧ okOf cFilledFinite vOld .sgm 0 exF6d 1 1 = false
    ∧ spec .sgm 0 exF6d (interpolate vOld .sgm 0 exF6d) = false
    ∧ (sgm vNow exF6d).flag 1 1 = 256 := by decide

/-- F4 (corpus f4_stale_filled_bit.json): an occlusion that already carries bit 4 (left by an earlier validation
    step with filling).  With `+=` (even with the guards) bit 4 + bit 4 carries into bit 5 and the specification
    fails — this is why the add-form needs `noStaleFill`; with `|=` the map is well-formed, the pixel ends with
    bit 4 and the whole specification holds. -/
def exF4 : DMap := mapOf [[.num 3, .nan, .num 4]] [[0, 272, 0]]

theorem stale_filled_bit_add_counterexample :
    noStaleFill .mccnn exF4 = false ∧ wf .add .mccnn 0 exF4 = false
    ∧ (mccnn vGuardAdd 0 exF4).flag 0 1 = 32 ∧ filledFlag .occl 272 = 16
    ∧ okOf cFilledBits vGuardAdd .mccnn 0 exF4 0 1 = false
    ∧ spec .mccnn 0 exF4 (interpolate vGuardAdd .mccnn 0 exF4) = false := by decide

theorem stale_filled_bit_or_ok :
    wf .or .mccnn 0 exF4 = true ∧ (mccnn vNow 0 exF4).flag 0 1 = 16 ∧ (mccnn vNow 0 exF4).disp 0 1 = .num 3
    ∧ spec .mccnn 0 exF4 (interpolate vNow .mccnn 0 exF4) = true := by decide

/-- non-vacuity, mc-cnn: an occlusion filled from its left (3) and a mismatch filled with the median of
    {4,4,4,3,3,3,5,5,5,4,4} = 4 (the filled occlusion is one of the sources, three times); a second mismatch in a
    corner without anything in sight would stay flagged. -/
def exOkMc : DMap := mapOf [[.num 3, .nan, .nan, .num 5], [.num 4, .num 4, .num 4, .num 4]] [[0, 256, 512, 0], [0, 0, 0, 0]]

example : wf .or .mccnn 0 exOkMc = true
    ∧ (mccnn vNow 0 exOkMc).disp 0 1 = .num 3 ∧ (mccnn vNow 0 exOkMc).flag 0 1 = 16
    ∧ (mccnn vNow 0 exOkMc).disp 0 2 = .num 4 ∧ (mccnn vNow 0 exOkMc).flag 0 2 = 32
    ∧ spec .mccnn 0 exOkMc (interpolate vNow .mccnn 0 exOkMc) = true := by decide

/-- non-vacuity, sgm: an occlusion (second lowest |d| of its 7 finite neighbours 6, 5, 4, 1, 2, 3, −2: the tie
    |2| = |−2| goes to the first in direction order, 2) and a mismatch touching it (handled as an occlusion:
    −2 among {−2, 1, 6}), offset 1 with a clean border on a 5×5 map. -/
def exOkSgm : DMap :=
  mapOf [[.nan, .nan, .nan, .nan, .nan], [.nan, .num 1, .num 2, .num 3, .nan], [.nan, .num 4, .nan, .num (-2), .nan],
         [.nan, .num 5, .num 6, .nan, .nan], [.nan, .nan, .nan, .nan, .nan]]
        [[1, 1, 1, 1, 1], [1, 0, 0, 0, 1], [1, 0, 256, 0, 1], [1, 0, 0, 512, 1], [1, 1, 1, 1, 1]]

example : wf .or .sgm 1 exOkSgm = true
    ∧ (sgm vNow exOkSgm).disp 2 2 = .num 2 ∧ (sgm vNow exOkSgm).flag 2 2 = 16
    ∧ (sgm vNow exOkSgm).disp 3 3 = .num (-2) ∧ (sgm vNow exOkSgm).flag 3 3 = 16
    ∧ spec .sgm 1 exOkSgm (interpolate vNow .sgm 1 exOkSgm) = true := by decide

end Pandora.C14
