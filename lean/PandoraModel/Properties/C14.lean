/-
  C14 — Occlusion/mismatch filling touches only flagged pixels, fills from valid ones.
-/
import PandoraModel.Lemmas.InterpFlags
import PandoraModel.Lemmas.InterpScan
import PandoraModel.Lemmas.InterpSort
import PandoraModel.Lemmas.InterpOccl
import PandoraModel.Lemmas.InterpCongr
import PandoraModel.Model.InterpRepaired
import PandoraModel.Generated.Interp
import PandoraModel.Generated.Constants

namespace Pandora.C14
open Pandora Pandora.Interp Pandora.Flags

/-! ### 1. The data of the kernels in the source are the data of the model (finite: `decide`) -/

/-- the direction tables of the three kernels that scan are those of the model -/
theorem source_dirs :
    Generated.Interp.dirsMismatchMcCnnDoubled = dirs16
    ∧ Generated.Interp.dirsMismatchSgm = dirs8 ∧ Generated.Interp.dirsOcclusionSgm = dirs8 := by decide

/-- the flag updates, the tested constants, the loop bounds and the order of the passes are those the
    model follows -/
theorem source_flag_ops :
    Generated.Interp.flagOps =
      [("interpolate_occlusion_mc_cnn",
          [("-", "PANDORA_MSK_PIXEL_OCCLUSION", true), ("+", "PANDORA_MSK_PIXEL_FILLED_OCCLUSION", true),
           ("-", "PANDORA_MSK_PIXEL_OCCLUSION", true), ("+", "PANDORA_MSK_PIXEL_FILLED_OCCLUSION", true)]),
       ("interpolate_mismatch_mc_cnn",
          [("-", "PANDORA_MSK_PIXEL_MISMATCH", false), ("+", "PANDORA_MSK_PIXEL_FILLED_MISMATCH", false)]),
       ("interpolate_mismatch_sgm",
          [("-", "PANDORA_MSK_PIXEL_MISMATCH", false), ("+", "PANDORA_MSK_PIXEL_OCCLUSION", false),
           ("-", "PANDORA_MSK_PIXEL_MISMATCH", false), ("+", "PANDORA_MSK_PIXEL_FILLED_MISMATCH", false)]),
       ("interpolate_occlusion_sgm",
          [("-", "PANDORA_MSK_PIXEL_OCCLUSION", false), ("+", "PANDORA_MSK_PIXEL_FILLED_OCCLUSION", false)])]
    ∧ Generated.Interp.tested =
      [("interpolate_occlusion_mc_cnn",
          ["PANDORA_MSK_PIXEL_OCCLUSION", "PANDORA_MSK_PIXEL_INVALID", "PANDORA_MSK_PIXEL_INVALID"]),
       ("interpolate_mismatch_mc_cnn", ["PANDORA_MSK_PIXEL_MISMATCH", "PANDORA_MSK_PIXEL_INVALID"]),
       ("interpolate_mismatch_sgm", ["PANDORA_MSK_PIXEL_MISMATCH", "PANDORA_MSK_PIXEL_OCCLUSION"]),
       ("interpolate_occlusion_sgm", ["PANDORA_MSK_PIXEL_OCCLUSION"]),
       ("find_valid_neighbors", ["PANDORA_MSK_PIXEL_INVALID"])]
    ∧ Generated.Interp.pathRanges =
      [("interpolate_occlusion_mc_cnn", []), ("interpolate_mismatch_mc_cnn", [["1", "max_path_length"]]),
       ("interpolate_mismatch_sgm", []), ("interpolate_occlusion_sgm", []),
       ("find_valid_neighbors", [["max_path_length"]])]
    ∧ Generated.Interp.passOrder =
      [("McCnnInterpolation", ["interpolate_occlusion_mc_cnn", "interpolate_mismatch_mc_cnn", "mask_border"]),
       ("SgmInterpolation", ["interpolate_mismatch_sgm", "interpolate_occlusion_sgm"])] := by decide

/-- the six constants the kernels use have the documented values the model uses -/
theorem source_constants :
    Generated.Constants.PANDORA_MSK_PIXEL_INVALID = pixelInvalid
    ∧ Generated.Constants.PANDORA_MSK_PIXEL_OCCLUSION = occlusion
    ∧ Generated.Constants.PANDORA_MSK_PIXEL_MISMATCH = mismatch
    ∧ Generated.Constants.PANDORA_MSK_PIXEL_FILLED_OCCLUSION = filledOcclusion
    ∧ Generated.Constants.PANDORA_MSK_PIXEL_FILLED_MISMATCH = filledMismatch
    ∧ Generated.Constants.PANDORA_MSK_PIXEL_LEFT_NODATA_OR_BORDER = leftNodataOrBorder := by decide


/-! ### 2. Well-formed inputs, as propositions -/

theorem allPx_iff (a : DMap) (p : Nat → Nat → Bool) :
    allPx a p = true ↔ ∀ r c, r < a.rows → c < a.cols → p r c = true := by
  simp only [allPx, List.all_eq_true, List.mem_range]
  constructor
  · intro h r c hr hc; exact h r hr c hc
  · intro h r hr c hc; exact h r c hr hc

/-- what `wf meth off a = true` says, pixel by pixel (all pixels inside the image) -/
structure WFp (meth : Method) (off : Nat) (a : DMap) : Prop where
  vf : ∀ r c, r < a.rows → c < a.cols → a.valid r c = true → ∃ q, a.disp r c = .num q
  one : ∀ r c, r < a.rows → c < a.cols → (a.flag r c).testBit 8 = true → (a.flag r c).testBit 9 = false
  st8 : ∀ r c, r < a.rows → c < a.cols → (a.flag r c).testBit 8 = true → (a.flag r c).testBit 4 = false
  st9 : ∀ r c, r < a.rows → c < a.cols → (a.flag r c).testBit 9 = true → (a.flag r c).testBit 5 = false
  st9s : meth = .sgm → ∀ r c, r < a.rows → c < a.cols → (a.flag r c).testBit 9 = true → (a.flag r c).testBit 4 = false
  bc : ∀ r c, r < a.rows → c < a.cols → (decide (off > 0) && isBorder a off r c) = true → a.flag r c = leftNodataOrBorder

theorem wf_elim {meth : Method} {off : Nat} {a : DMap} (h : wf meth off a = true) : WFp meth off a := by
  unfold wf at h
  simp only [Bool.and_eq_true] at h
  obtain ⟨⟨⟨h1, h2⟩, h3⟩, h4⟩ := h
  unfold validFinite at h1; unfold oneFlag at h2; unfold noStaleFill at h3; unfold borderClean at h4
  rw [allPx_iff] at h1 h2 h3 h4
  refine ⟨?_, ?_, ?_, ?_, ?_, ?_⟩
  · intro r c hr hc hv
    have := h1 r c hr hc
    rw [hv] at this
    cases hd : a.disp r c with
    | nan => rw [hd] at this; simp [Val.isNum, Val.isNan] at this
    | num q => exact ⟨q, rfl⟩
  · intro r c hr hc h8
    have := h2 r c hr hc
    rw [occlusion_pow, mismatch_pow, hasBit_two_pow, hasBit_two_pow, h8] at this
    simpa using this
  · intro r c hr hc h8
    have := h3 r c hr hc
    simp only [occlusion_pow, mismatch_pow, filledOcclusion_pow, filledMismatch_pow, hasBit_two_pow, h8,
      Bool.and_eq_true, Bool.or_eq_true, Bool.not_eq_true', Bool.false_or, Bool.not_true] at this
    exact this.1.1
  · intro r c hr hc h9
    have := h3 r c hr hc
    simp only [occlusion_pow, mismatch_pow, filledOcclusion_pow, filledMismatch_pow, hasBit_two_pow, h9,
      Bool.and_eq_true, Bool.or_eq_true, Bool.not_eq_true', Bool.false_or, Bool.not_true] at this
    exact this.1.2
  · intro hm r c hr hc h9
    have := h3 r c hr hc
    simp only [occlusion_pow, mismatch_pow, filledOcclusion_pow, filledMismatch_pow, hasBit_two_pow, h9, hm,
      Bool.and_eq_true, Bool.or_eq_true, Bool.not_eq_true', Bool.false_or, Bool.not_true, decide_true,
      Bool.true_and] at this
    exact this.2
  · intro r c hr hc hb
    have := h4 r c hr hc
    rw [hb] at this
    simpa using this


/-! ### 3. "Between two valid disparities of the input map" -/

/-- `q` lies between the disparities of two valid pixels of `a` -/
def Bdd (a : DMap) (q : Rat) : Prop :=
  (∃ r c v, r < a.rows ∧ c < a.cols ∧ a.valid r c = true ∧ a.disp r c = .num v ∧ v ≤ q) ∧
  (∃ r c v, r < a.rows ∧ c < a.cols ∧ a.valid r c = true ∧ a.disp r c = .num v ∧ q ≤ v)

theorem betweenValid_iff (a : DMap) (q : Rat) : betweenValid a q = true ↔ Bdd a q := by
  unfold betweenValid Bdd
  simp only [Bool.and_eq_true, List.any_eq_true, List.mem_range]
  constructor
  · rintro ⟨⟨r, hr, c, hc, hv, hd⟩, ⟨r', hr', c', hc', hv', hd'⟩⟩
    constructor
    · cases hx : a.disp r c with
      | nan => rw [hx] at hd; simp at hd
      | num v => rw [hx] at hd; exact ⟨r, c, v, hr, hc, hv, hx, by simpa using hd⟩
    · cases hx : a.disp r' c' with
      | nan => rw [hx] at hd'; simp at hd'
      | num v => rw [hx] at hd'; exact ⟨r', c', v, hr', hc', hv', hx, by simpa using hd'⟩
  · rintro ⟨⟨r, c, v, hr, hc, hv, hd, hle⟩, ⟨r', c', v', hr', hc', hv', hd', hle'⟩⟩
    exact ⟨⟨r, hr, c, hc, hv, by rw [hd]; simpa using hle⟩, ⟨r', hr', c', hc', hv', by rw [hd']; simpa using hle'⟩⟩

theorem Bdd.self {a : DMap} {r c : Nat} {q : Rat} (hr : r < a.rows) (hc : c < a.cols)
    (hv : a.valid r c = true) (hd : a.disp r c = .num q) : Bdd a q :=
  ⟨⟨r, c, q, hr, hc, hv, hd, le_refl _⟩, ⟨r, c, q, hr, hc, hv, hd, le_refl _⟩⟩

theorem Bdd.between {a : DMap} {x y q : Rat} (hx : Bdd a x) (hy : Bdd a y) (h1 : x ≤ q) (h2 : q ≤ y) : Bdd a q := by
  obtain ⟨⟨r, c, v, hr, hc, hv, hd, hle⟩, _⟩ := hx
  obtain ⟨_, ⟨r', c', v', hr', hc', hv', hd', hle'⟩⟩ := hy
  exact ⟨⟨r, c, v, hr, hc, hv, hd, le_trans hle h1⟩, ⟨r', c', v', hr', hc', hv', hd', le_trans h2 hle'⟩⟩

/-- the median of bounded numbers is bounded -/
theorem Bdd.median {a : DMap} {l : List Rat} (hl : ∀ x ∈ l, Bdd a x) {q : Rat} (h : median l = .num q) : Bdd a q := by
  obtain ⟨x, hx, y, hy, h1, h2⟩ := median_between h
  exact Bdd.between (hl x hx) (hl y hy) h1 h2

/-! ### 4. The four kernels, one pixel, in terms of the specification's notions -/

theorem hasBit_occlusion (f : Nat) : hasBit f occlusion = f.testBit 8 := by rw [occlusion_pow, hasBit_two_pow]
theorem hasBit_mismatch (f : Nat) : hasBit f mismatch = f.testBit 9 := by rw [mismatch_pow, hasBit_two_pow]

theorem not_valid_of_bit8 {m : DMap} {r c : Nat} (h : (m.flag r c).testBit 8 = true) : m.valid r c = false := by
  unfold DMap.valid; apply not_valid_of_flagged; rw [flagged_eq, h]; rfl

theorem not_valid_of_bit9 {m : DMap} {r c : Nat} (h : (m.flag r c).testBit 9 = true) : m.valid r c = false := by
  unfold DMap.valid; apply not_valid_of_flagged; rw [flagged_eq, h]; simp

theorem occlMc_unflagged (m : DMap) (r c : Nat) (h : (m.flag r c).testBit 8 = false) :
    (occlMc m).disp r c = m.disp r c ∧ (occlMc m).flag r c = m.flag r c := by
  have : ((m.flag r c &&& occlusion) != 0) = false := by
    have := hasBit_occlusion (m.flag r c); unfold hasBit at this; rw [this, h]
  simp only [occlMc, occlMcPixel, this, Bool.false_eq_true, if_false, and_self]

theorem occlMc_flagged (m : DMap) (r c : Nat) (hc : c < m.cols) (h : (m.flag r c).testBit 8 = true) :
    (∀ v, sourceOcclMc m r c = some v →
        (occlMc m).disp r c = v ∧ (occlMc m).flag r c = m.flag r c - occlusion + filledOcclusion) ∧
    (sourceOcclMc m r c = none → (occlMc m).disp r c = m.disp r c ∧ (occlMc m).flag r c = m.flag r c) := by
  have h8 : ((m.flag r c &&& occlusion) != 0) = true := by
    have := hasBit_occlusion (m.flag r c); unfold hasBit at this; rw [this, h]
  have := occlMcPixel_eq m r c hc h8 (not_valid_of_bit8 h)
  simp only [occlMc]
  constructor
  · intro v hv; rw [hv] at this; rw [this]; exact ⟨rfl, rfl⟩
  · intro hn; rw [hn] at this; rw [this]; exact ⟨rfl, rfl⟩

theorem mismMc_unflagged (m : DMap) (r c : Nat) (h : (m.flag r c).testBit 9 = false) :
    (mismMc m).disp r c = m.disp r c ∧ (mismMc m).flag r c = m.flag r c := by
  have : ((m.flag r c &&& mismatch) != 0) = false := by
    have := hasBit_mismatch (m.flag r c); unfold hasBit at this; rw [this, h]
  simp only [mismMc, mismMcPixel, this, Bool.false_eq_true, if_false, and_self]

theorem mismMc_flag (m : DMap) (r c : Nat) (h : (m.flag r c).testBit 9 = true) :
    (mismMc m).flag r c = m.flag r c - mismatch + filledMismatch := by
  have : ((m.flag r c &&& mismatch) != 0) = true := by
    have := hasBit_mismatch (m.flag r c); unfold hasBit at this; rw [this, h]
  simp only [mismMc, mismMcPixel, this, if_true]

/-- mc-cnn mismatch, when no scan line runs to its end inside the image: the median of the first valid
    pixels on the 16 rays -/
theorem mismMc_disp (m : DMap) (r c : Nat) (hc : c < m.cols) (h : (m.flag r c).testBit 9 = true)
    (hno : anyRunOff m r c = false) : (mismMc m).disp r c = median (nums (sourcesMc m r c)) := by
  have h9 : ((m.flag r c &&& mismatch) != 0) = true := by
    have := hasBit_mismatch (m.flag r c); unfold hasBit at this; rw [this, h]
  simp only [mismMc, mismMcPixel, h9, if_true, nanmedian]
  congr 1
  unfold sourcesMc
  rw [← nums_map_getD]
  congr 1
  apply List.map_congr_left
  intro d hd
  rw [scanMc_eq m r c hc d]
  have : runOff m r c d = false := by
    unfold anyRunOff at hno
    rw [List.any_eq_false] at hno
    simpa using hno d hd
  simp [this]


/-! ### 5. From "what happened to the pixel" to the nine clauses -/

/-- what happened to pixel `(r, c)` between the map `a` before and the map `b` after filling -/
inductive Outcome (meth : Method) (off : Nat) (a b : DMap) (r c : Nat) : Prop
  | untouched (hf : flagged (a.flag r c) = false) (hd : b.disp r c = a.disp r c) (hg : b.flag r c = a.flag r c)
      (hb : (decide (off > 0) && isBorder a off r c) = true → a.flag r c = leftNodataOrBorder)
  | unfilled (hf : flagged (a.flag r c) = true) (hb : (decide (off > 0) && isBorder a off r c) = false)
      (hs : enoughSources meth (kindOf meth a r c) (sourcesOf meth a b r c).length = false)
      (hg : b.flag r c = unfilledFlag (kindOf meth a r c) (a.flag r c)) (hfg : flagged (b.flag r c) = true)
  | filled (hf : flagged (a.flag r c) = true) (hb : (decide (off > 0) && isBorder a off r c) = false)
      (hg : b.flag r c = filledFlag (kindOf meth a r c) (a.flag r c)) (hng : flagged (b.flag r c) = false)
      (q : Rat) (hd : b.disp r c = .num q)
      (hv : valueOK meth (kindOf meth a r c) (sourcesOf meth a b r c) (.num q) = true)
      (hbd : betweenValid a q = true)
      (he : enoughSources meth (kindOf meth a r c) (sourcesOf meth a b r c).length = true)

theorem isInvalid_of_flagged {f : Nat} (h : flagged f = true) : isInvalid f = true := by
  have := not_valid_of_flagged h
  unfold isInvalid; simpa using this

theorem enoughSources_pos {meth : Method} {k : Kind} {n : Nat} (h : enoughSources meth k n = true) : 1 ≤ n := by
  cases meth <;> cases k <;> simp [enoughSources] at h <;> omega

theorem pixelOK_of_outcome {meth : Method} {off : Nat} {a b : DMap} {r c : Nat}
    (h : Outcome meth off a b r c) : pixelOK meth off a b r c = true := by
  unfold pixelOK clausesAt
  simp only [List.all_cons, List.all_nil, Bool.and_true, Bool.and_eq_true]
  cases h with
  | untouched hf hd hg hb =>
    have hbits : hasBit (a.flag r c) mismatch = false := by
      unfold flagged at hf; simp only [Bool.or_eq_false_iff] at hf; exact hf.2
    refine ⟨?_, ?_, ?_, ?_, ?_, ?_, ?_, ?_, ?_⟩ <;>
      simp only [Clause.ok, cUnflagged, cFilledBits, cFilledFinite, cFilledFromValid, cFilledBetween, cNoSource,
        cFilledWhenSource, cSgmMismatch, cBorder, viewAt, View.filled, hf, hd, hg, hbits] <;> simp
    by_cases hbo : (decide (off > 0) && isBorder a off r c) = true
    · exact Or.inr (hb hbo)
    · left; simp at hbo; by_cases h0 : off = 0
      · exact Or.inl h0
      · exact Or.inr (hbo (Nat.pos_of_ne_zero h0))
  | unfilled hf hb hs hg hfg =>
    refine ⟨?_, ?_, ?_, ?_, ?_, ?_, ?_, ?_, ?_⟩
    · simp [Clause.ok, cUnflagged, viewAt, hf]
    · simp [Clause.ok, cFilledBits, viewAt, hg]
    · simp [Clause.ok, cFilledFinite, viewAt, View.filled, hf, hfg]
    · simp [Clause.ok, cFilledFromValid, viewAt, View.filled, hf, hfg]
    · simp [Clause.ok, cFilledBetween, viewAt, View.filled, hf, hfg]
    · simp [Clause.ok, cNoSource, viewAt, hfg, isInvalid_of_flagged hfg]
    · simp [Clause.ok, cFilledWhenSource, viewAt, hs]
    · simp only [Clause.ok, cSgmMismatch, viewAt, hb, hg]
      cases meth with
      | mccnn => simp
      | sgm =>
        by_cases h9 : hasBit (a.flag r c) mismatch = true
        · by_cases h8 : hasBit (a.flag r c) occlusion = true
          · simp [h8]
          · simp only [Bool.not_eq_true] at h8
            by_cases ht : touchesOcclusion a r c = true
            · simp [kindOf, h8, h9, ht, unfilledFlag]
            · simp only [Bool.not_eq_true] at ht
              simp [kindOf, h8, h9, ht, unfilledFlag]
        · simp only [Bool.not_eq_true] at h9
          simp [h9]
    · simp [Clause.ok, cBorder, viewAt, hb]
  | filled hf hb hg hng q hd hv hbd he =>
    have hne : (sourcesOf meth a b r c).isEmpty = false := by
      have := enoughSources_pos he
      cases hs : sourcesOf meth a b r c with
      | nil => rw [hs] at this; simp at this
      | cons x t => rfl
    refine ⟨?_, ?_, ?_, ?_, ?_, ?_, ?_, ?_, ?_⟩
    · simp [Clause.ok, cUnflagged, viewAt, hf]
    · simp [Clause.ok, cFilledBits, viewAt, hg]
    · simp [Clause.ok, cFilledFinite, viewAt, hd, Val.isNum, Val.isNan]
    · simp only [Clause.ok, cFilledFromValid, viewAt, hd, hv]; simp
    · simp only [Clause.ok, cFilledBetween, viewAt, hd, Val.get, hbd]; simp
    · simp [Clause.ok, cNoSource, viewAt, hne]
    · simp [Clause.ok, cFilledWhenSource, viewAt, hng]
    · simp only [Clause.ok, cSgmMismatch, viewAt, hb, hg]
      cases meth with
      | mccnn => simp
      | sgm =>
        by_cases h9 : hasBit (a.flag r c) mismatch = true
        · by_cases h8 : hasBit (a.flag r c) occlusion = true
          · simp [h8]
          · simp only [Bool.not_eq_true] at h8
            by_cases ht : touchesOcclusion a r c = true
            · simp [kindOf, h8, h9, ht, filledFlag]
            · simp only [Bool.not_eq_true] at ht
              simp [kindOf, h8, h9, ht, filledFlag]
        · simp only [Bool.not_eq_true] at h9
          simp [h9]
    · simp [Clause.ok, cBorder, viewAt, hb]


/-! ### 6. mc-cnn -/

theorem one_testBit8 : (leftNodataOrBorder).testBit 8 = false := by decide
theorem one_testBit9 : (leftNodataOrBorder).testBit 9 = false := by decide

section mccnn
variable {off : Nat} {a : DMap}

theorem mccnn_disp (off : Nat) (a : DMap) (r c : Nat) : (mccnn off a).disp r c = (mismMc (occlMc a)).disp r c := rfl

theorem mccnn_flag (off : Nat) (a : DMap) (r c : Nat) :
    (mccnn off a).flag r c =
      if (decide (off > 0) && isBorder a off r c) = true then leftNodataOrBorder else (mismMc (occlMc a)).flag r c := rfl

theorem not_border_of_bit {k : Nat} (hwf : WFp .mccnn off a) {r c : Nat} (hr : r < a.rows) (hc : c < a.cols)
    (h1 : (leftNodataOrBorder).testBit k = false) (hk : (a.flag r c).testBit k = true) :
    (decide (off > 0) && isBorder a off r c) = false := by
  cases hb : (decide (off > 0) && isBorder a off r c)
  · rfl
  · have := hwf.bc r c hr hc hb; rw [this, h1] at hk; cases hk

/-- an occlusion pixel of the input: what the first pass produced is final -/
theorem mccnn_at_occl (hwf : WFp .mccnn off a) {r c : Nat} (hr : r < a.rows) (hc : c < a.cols)
    (h8 : (a.flag r c).testBit 8 = true) :
    (mccnn off a).disp r c = (occlMc a).disp r c ∧ (mccnn off a).flag r c = (occlMc a).flag r c := by
  have h9 : (a.flag r c).testBit 9 = false := hwf.one r c hr hc h8
  have h4 : (a.flag r c).testBit 4 = false := hwf.st8 r c hr hc h8
  have hnb := not_border_of_bit hwf hr hc one_testBit8 h8
  have hm1 : ((occlMc a).flag r c).testBit 9 = false := by
    obtain ⟨hs, hn⟩ := occlMc_flagged a r c hc h8
    cases hsrc : sourceOcclMc a r c with
    | none => rw [(hn hsrc).2]; exact h9
    | some v =>
      rw [(hs v hsrc).2, fill_occl h8 h4, occlusion_pow, filledOcclusion_pow, testBit_replaceBit]; simp [h9]
  have := mismMc_unflagged (occlMc a) r c hm1
  rw [mccnn_disp, mccnn_flag, hnb]
  exact ⟨this.1, by simpa using this.2⟩

/-- the map between the two passes, as the specification reads it off input and output, is the map
    the first pass produced -/
theorem midOf_mccnn_agree (hwf : WFp .mccnn off a) : Agree (midOf .mccnn a (mccnn off a)) (occlMc a) := by
  refine ⟨rfl, rfl, ?_, ?_⟩
  · intro r c hr hc
    simp only [midOf, hasBit_occlusion]
    by_cases h8 : (a.flag r c).testBit 8 = true
    · simp [h8, (mccnn_at_occl hwf hr hc h8).1]
    · simp only [Bool.not_eq_true] at h8
      simp [h8, (occlMc_unflagged a r c h8).1]
  · intro r c hr hc
    simp only [midOf, hasBit_occlusion]
    by_cases h8 : (a.flag r c).testBit 8 = true
    · simp [h8, (mccnn_at_occl hwf hr hc h8).2]
    · simp only [Bool.not_eq_true] at h8
      simp [h8, (occlMc_unflagged a r c h8).2]

/-- a valid pixel of the map after occlusion filling carries a disparity between two valid disparities
    of the input -/
theorem occlMc_valid_bdd {r c : Nat} (hr : r < a.rows) (hc : c < a.cols)
    (hv : (occlMc a).valid r c = true) {q : Rat} (hd : (occlMc a).disp r c = .num q) : Bdd a q := by
  by_cases h8 : (a.flag r c).testBit 8 = true
  · obtain ⟨hs, hn⟩ := occlMc_flagged a r c hc h8
    cases hsrc : sourceOcclMc a r c with
    | none =>
      exfalso
      have : (occlMc a).valid r c = false := by
        apply not_valid_of_bit8; rw [(hn hsrc).2]; exact h8
      rw [this] at hv; cases hv
    | some v =>
      obtain ⟨j, hj, hvj, hdj⟩ := sourceOcclMc_pixel hc hsrc
      rw [(hs v hsrc).1] at hd
      exact Bdd.self hr hj hvj (hdj.trans hd)
  · simp only [Bool.not_eq_true] at h8
    have := occlMc_unflagged a r c h8
    unfold DMap.valid at hv
    rw [this.2] at hv; rw [this.1] at hd
    exact Bdd.self hr hc hv hd

theorem mc_sources_bdd (r c : Nat) : ∀ q ∈ nums (sourcesMc (occlMc a) r c), Bdd a q := by
  intro q hq
  rw [mem_nums] at hq
  unfold sourcesMc at hq
  rw [List.mem_filterMap] at hq
  obtain ⟨d, _, hd⟩ := hq
  obtain ⟨r', c', hr', hc', hv, hdisp⟩ := ray_source_pixel hd
  exact occlMc_valid_bdd (a := a) hr' hc' hv hdisp

theorem mccnn_outcome (hwf : WFp .mccnn off a) {r c : Nat} (hr : r < a.rows) (hc : c < a.cols)
    (hok : okAt .mccnn a (occlMc a) r c = true) : Outcome .mccnn off a (mccnn off a) r c := by
  by_cases h8 : (a.flag r c).testBit 8 = true
  · -- occlusion
    have h9 : (a.flag r c).testBit 9 = false := hwf.one r c hr hc h8
    have h4 : (a.flag r c).testBit 4 = false := hwf.st8 r c hr hc h8
    have hnb := not_border_of_bit hwf hr hc one_testBit8 h8
    have hfl : flagged (a.flag r c) = true := by rw [flagged_eq, h8]; rfl
    have hk : kindOf .mccnn a r c = .occl := by simp [kindOf, hasBit_occlusion, h8]
    obtain ⟨hb1, hb2⟩ := mccnn_at_occl hwf hr hc h8
    obtain ⟨hs, hn⟩ := occlMc_flagged a r c hc h8
    cases hsrc : sourceOcclMc a r c with
    | none =>
      have hg0 : (mccnn off a).flag r c = a.flag r c := by rw [hb2, (hn hsrc).2]
      refine Outcome.unfilled hfl hnb ?_ (by rw [hk, hg0]; rfl) (by rw [hg0]; exact hfl)
      simp [sourcesOf, hk, hsrc, nums, enoughSources]
    | some v =>
      obtain ⟨j, hj, hvj, hdj⟩ := sourceOcclMc_pixel hc hsrc
      obtain ⟨q, hq⟩ := hwf.vf r j hr hj hvj
      have hvq : v = .num q := hdj.symm.trans hq
      have hg : (mccnn off a).flag r c = replaceBit (a.flag r c) occlusion filledOcclusion := by
        rw [hb2, (hs v hsrc).2, fill_occl h8 h4]
      have hsrcs : sourcesOf .mccnn a (mccnn off a) r c = [q] := by
        simp [sourcesOf, hk, hsrc, hvq, nums]
      refine Outcome.filled hfl hnb (by rw [hk]; exact hg) ?_ q (by rw [hb1, (hs v hsrc).1, hvq]) ?_ ?_ ?_
      · rw [hg, flagged_eq, occlusion_pow, filledOcclusion_pow, testBit_replaceBit, testBit_replaceBit]; simp [h9]
      · rw [hk, hsrcs]; simp [valueOK]
      · rw [betweenValid_iff]; exact Bdd.self hr hj hvj hq
      · rw [hk, hsrcs]; simp [enoughSources]
  · simp only [Bool.not_eq_true] at h8
    obtain ⟨ho1, ho2⟩ := occlMc_unflagged a r c h8
    by_cases h9 : (a.flag r c).testBit 9 = true
    · -- mismatch
      have h5 : (a.flag r c).testBit 5 = false := hwf.st9 r c hr hc h9
      have hnb := not_border_of_bit hwf hr hc one_testBit9 h9
      have hfl : flagged (a.flag r c) = true := by rw [flagged_eq, h9]; simp
      have hk : kindOf .mccnn a r c = .mism := by simp [kindOf, hasBit_occlusion, hasBit_mismatch, h8, h9]
      have h9' : ((occlMc a).flag r c).testBit 9 = true := by rw [ho2]; exact h9
      simp only [okAt, hk, Bool.and_eq_true, Bool.not_eq_true'] at hok
      have hg : (mccnn off a).flag r c = replaceBit (a.flag r c) mismatch filledMismatch := by
        rw [mccnn_flag, hnb]; simp only [Bool.false_eq_true, if_false]
        rw [mismMc_flag _ r c h9', ho2, fill_mism h9 h5]
      have hsrcs : sourcesOf .mccnn a (mccnn off a) r c = nums (sourcesMc (occlMc a) r c) := by
        simp only [sourcesOf, hk]
        rw [sourcesMc_congr (midOf_mccnn_agree hwf)]
      have hd : (mccnn off a).disp r c = median (nums (sourcesMc (occlMc a) r c)) := by
        rw [mccnn_disp]; exact mismMc_disp _ r c hc h9' hok.1
      have hne : nums (sourcesMc (occlMc a) r c) ≠ [] := by
        intro h0; rw [h0] at hok; simp at hok
      cases hmed : median (nums (sourcesMc (occlMc a) r c)) with
      | nan => exact absurd ((median_eq_nan_iff _).mp hmed) hne
      | num q =>
        refine Outcome.filled hfl hnb (by rw [hk]; exact hg) ?_ q (by rw [hd, hmed]) ?_ ?_ ?_
        · rw [hg, flagged_eq, mismatch_pow, filledMismatch_pow, testBit_replaceBit, testBit_replaceBit]; simp [h8]
        · rw [hk, hsrcs]; simp [valueOK, hmed]
        · rw [betweenValid_iff]; exact Bdd.median (mc_sources_bdd r c) hmed
        · rw [hk, hsrcs]; simp only [enoughSources, decide_eq_true_eq]
          cases hl : nums (sourcesMc (occlMc a) r c) with
          | nil => exact absurd hl hne
          | cons x t => simp
    · -- neither bit
      simp only [Bool.not_eq_true] at h9
      have hfl : flagged (a.flag r c) = false := by rw [flagged_eq, h8, h9]; rfl
      have h9' : ((occlMc a).flag r c).testBit 9 = false := by rw [ho2]; exact h9
      obtain ⟨hm1, hm2⟩ := mismMc_unflagged (occlMc a) r c h9'
      refine Outcome.untouched hfl (by rw [mccnn_disp, hm1, ho1]) ?_ (hwf.bc r c hr hc)
      rw [mccnn_flag]
      by_cases hb : (decide (off > 0) && isBorder a off r c) = true
      · rw [if_pos hb, hwf.bc r c hr hc hb]
      · rw [if_neg hb, hm2, ho2]

end mccnn


/-! ### 7. sgm -/

section sgm
variable {off : Nat} {a : DMap}

theorem mismSgm_unflagged (m : DMap) (r c : Nat) (h : (m.flag r c).testBit 9 = false) :
    (mismSgm m).disp r c = m.disp r c ∧ (mismSgm m).flag r c = m.flag r c := by
  have : ((m.flag r c &&& mismatch) != 0) = false := by
    have := hasBit_mismatch (m.flag r c); unfold hasBit at this; rw [this, h]
  simp only [mismSgm, mismSgmPixel, this, Bool.false_eq_true, if_false, and_self]

theorem mismSgm_touch (m : DMap) (r c : Nat) (hr : r < m.rows) (hc : c < m.cols) (h : (m.flag r c).testBit 9 = true)
    (ht : touchesOcclusion m r c = true) :
    (mismSgm m).disp r c = m.disp r c ∧ (mismSgm m).flag r c = m.flag r c - mismatch + occlusion := by
  have h9 : ((m.flag r c &&& mismatch) != 0) = true := by
    have := hasBit_mismatch (m.flag r c); unfold hasBit at this; rw [this, h]
  have h3 := occlusionSum3x3_ne_zero m r c hr hc
  rw [ht] at h3
  simp only [mismSgm, mismSgmPixel, h9, h3, if_true, and_self]

theorem mismSgm_fill (m : DMap) (r c : Nat) (hr : r < m.rows) (hc : c < m.cols) (h : (m.flag r c).testBit 9 = true)
    (ht : touchesOcclusion m r c = false) :
    (mismSgm m).disp r c = median (nums (sourcesSgm m r c))
    ∧ (mismSgm m).flag r c = m.flag r c - mismatch + filledMismatch := by
  have h9 : ((m.flag r c &&& mismatch) != 0) = true := by
    have := hasBit_mismatch (m.flag r c); unfold hasBit at this; rw [this, h]
  have h3 := occlusionSum3x3_ne_zero m r c hr hc
  rw [ht] at h3
  simp only [mismSgm, mismSgmPixel, h9, h3, if_true, Bool.false_eq_true, if_false, and_true, nanmedian]
  rw [findValidNeighbors_eq m r c hr hc, nums_map_getD]
  rfl

theorem occlSgm_unflagged (m : DMap) (r c : Nat) (h : (m.flag r c).testBit 8 = false) :
    (occlSgm m).disp r c = m.disp r c ∧ (occlSgm m).flag r c = m.flag r c := by
  have : ((m.flag r c &&& occlusion) != 0) = false := by
    have := hasBit_occlusion (m.flag r c); unfold hasBit at this; rw [this, h]
  simp only [occlSgm, occlSgmPixel, this, Bool.false_eq_true, if_false, and_self]

/-- sgm occlusion with at least two finite sources: a finite entry of second-lowest absolute value -/
theorem occlSgm_flagged (m : DMap) (r c : Nat) (hr : r < m.rows) (hc : c < m.cols) (h : (m.flag r c).testBit 8 = true)
    (h2 : 2 ≤ (nums (sourcesSgm m r c)).length) :
    (∃ q, (occlSgm m).disp r c = .num q ∧ isSecondLowestAbs (nums (sourcesSgm m r c)) q = true)
    ∧ (occlSgm m).flag r c = m.flag r c - occlusion + filledOcclusion := by
  have h8 : ((m.flag r c &&& occlusion) != 0) = true := by
    have := hasBit_occlusion (m.flag r c); unfold hasBit at this; rw [this, h]
  have hn : nums (findValidNeighbors m r c) = nums (sourcesSgm m r c) := by
    rw [findValidNeighbors_eq m r c hr hc, nums_map_getD]; rfl
  simp only [occlSgm, occlSgmPixel, h8, if_true, and_true]
  rw [← hn] at h2 ⊢
  exact secondLowestAbs_spec _ h2

theorem occlSgm_flag (m : DMap) (r c : Nat) (h : (m.flag r c).testBit 8 = true) :
    (occlSgm m).flag r c = m.flag r c - occlusion + filledOcclusion := by
  have h8 : ((m.flag r c &&& occlusion) != 0) = true := by
    have := hasBit_occlusion (m.flag r c); unfold hasBit at this; rw [this, h]
  simp only [occlSgm, occlSgmPixel, h8, if_true]

theorem bit8_false_of_bit9 (hwf : WFp .sgm off a) {r c : Nat} (hr : r < a.rows) (hc : c < a.cols)
    (h9 : (a.flag r c).testBit 9 = true) : (a.flag r c).testBit 8 = false := by
  cases h8 : (a.flag r c).testBit 8
  · rfl
  · have := hwf.one r c hr hc h8; rw [this] at h9; cases h9

/-- a mismatch not touching an occlusion: what the first pass produced is final -/
theorem sgm_at_mism (hwf : WFp .sgm off a) {r c : Nat} (hr : r < a.rows) (hc : c < a.cols)
    (h9 : (a.flag r c).testBit 9 = true) (ht : touchesOcclusion a r c = false) :
    (sgm a).disp r c = (mismSgm a).disp r c ∧ (sgm a).flag r c = (mismSgm a).flag r c := by
  have h8 := bit8_false_of_bit9 hwf hr hc h9
  have h5 := hwf.st9 r c hr hc h9
  have : ((mismSgm a).flag r c).testBit 8 = false := by
    rw [(mismSgm_fill a r c hr hc h9 ht).2, fill_mism h9 h5, mismatch_pow, filledMismatch_pow, testBit_replaceBit]
    simp [h8]
  exact occlSgm_unflagged (mismSgm a) r c this

theorem kindOf_sgm_mism {r c : Nat} (h8 : (a.flag r c).testBit 8 = false) (h9 : (a.flag r c).testBit 9 = true) :
    kindOf .sgm a r c = if touchesOcclusion a r c then .mismAsOccl else .mism := by
  simp [kindOf, hasBit_occlusion, hasBit_mismatch, h8, h9]

theorem midOf_sgm_agree (hwf : WFp .sgm off a) : Agree (midOf .sgm a (sgm a)) (mismSgm a) := by
  refine ⟨rfl, rfl, ?_, ?_⟩
  · intro r c hr hc
    by_cases h9 : (a.flag r c).testBit 9 = true
    · have h8 := bit8_false_of_bit9 hwf hr hc h9
      cases ht : touchesOcclusion a r c
      · have hk : kindOf .sgm a r c = .mism := by rw [kindOf_sgm_mism h8 h9, ht]; rfl
        simp only [midOf, hk, if_true]
        exact (sgm_at_mism hwf hr hc h9 ht).1
      · have hk : kindOf .sgm a r c = .mismAsOccl := by rw [kindOf_sgm_mism h8 h9, ht]; rfl
        simp only [midOf, hk]
        rw [(mismSgm_touch a r c hr hc h9 ht).1]; simp
    · simp only [Bool.not_eq_true] at h9
      have hk : kindOf .sgm a r c ≠ .mism := by
        simp only [kindOf, hasBit_occlusion, hasBit_mismatch, h9]
        cases (a.flag r c).testBit 8 <;> simp
      simp only [midOf, hk, if_false]
      exact (mismSgm_unflagged a r c h9).1.symm
  · intro r c hr hc
    by_cases h9 : (a.flag r c).testBit 9 = true
    · have h8 := bit8_false_of_bit9 hwf hr hc h9
      cases ht : touchesOcclusion a r c
      · have hk : kindOf .sgm a r c = .mism := by rw [kindOf_sgm_mism h8 h9, ht]; rfl
        simp only [midOf, hk]
        exact (sgm_at_mism hwf hr hc h9 ht).2
      · have hk : kindOf .sgm a r c = .mismAsOccl := by rw [kindOf_sgm_mism h8 h9, ht]; rfl
        simp only [midOf, hk]
        rw [(mismSgm_touch a r c hr hc h9 ht).2, mism_to_occl h9 h8]
    · simp only [Bool.not_eq_true] at h9
      have := (mismSgm_unflagged a r c h9).2
      simp only [midOf, kindOf, hasBit_occlusion, hasBit_mismatch, h9]
      cases (a.flag r c).testBit 8 <;> simp [this]

theorem sgm_input_sources_bdd (r c : Nat) : ∀ q ∈ nums (sourcesSgm a r c), Bdd a q := by
  intro q hq
  rw [mem_nums] at hq
  unfold sourcesSgm at hq
  rw [List.mem_filterMap] at hq
  obtain ⟨d, _, hd⟩ := hq
  obtain ⟨r', c', hr', hc', hv, hdisp⟩ := ray_source_pixel hd
  exact Bdd.self hr' hc' hv hdisp

/-- a valid pixel of the map after the mismatch pass carries a disparity between two valid disparities
    of the input -/
theorem mismSgm_valid_bdd (hwf : WFp .sgm off a) {r c : Nat} (hr : r < a.rows) (hc : c < a.cols)
    (hv : (mismSgm a).valid r c = true) {q : Rat} (hd : (mismSgm a).disp r c = .num q) : Bdd a q := by
  by_cases h9 : (a.flag r c).testBit 9 = true
  · have h8 := bit8_false_of_bit9 hwf hr hc h9
    cases ht : touchesOcclusion a r c
    · rw [(mismSgm_fill a r c hr hc h9 ht).1] at hd
      exact Bdd.median (sgm_input_sources_bdd r c) hd
    · exfalso
      have : (mismSgm a).valid r c = false := by
        apply not_valid_of_bit8
        rw [(mismSgm_touch a r c hr hc h9 ht).2, mism_to_occl h9 h8, mismatch_pow, occlusion_pow, testBit_replaceBit]
        simp
      rw [this] at hv; cases hv
  · simp only [Bool.not_eq_true] at h9
    have := mismSgm_unflagged a r c h9
    unfold DMap.valid at hv
    rw [this.2] at hv; rw [this.1] at hd
    exact Bdd.self hr hc hv hd

theorem sgm_sources_bdd (hwf : WFp .sgm off a) (r c : Nat) : ∀ q ∈ nums (sourcesSgm (mismSgm a) r c), Bdd a q := by
  intro q hq
  rw [mem_nums] at hq
  unfold sourcesSgm at hq
  rw [List.mem_filterMap] at hq
  obtain ⟨d, _, hd⟩ := hq
  obtain ⟨r', c', hr', hc', hv, hdisp⟩ := ray_source_pixel hd
  exact mismSgm_valid_bdd hwf hr' hc' hv hdisp

theorem isSecondLowestAbs_mem {l : List Rat} {q : Rat} (h : isSecondLowestAbs l q = true) : q ∈ l := by
  unfold isSecondLowestAbs at h
  simp only [Bool.and_eq_true] at h
  exact List.contains_iff_mem.mp h.1.1

/-- a pixel handled as an occlusion by sgm (bit 8 after the first pass), with two sources -/
theorem sgm_occl_core (hwf : WFp .sgm off a) {r c : Nat} (hr : r < a.rows) (hc : c < a.cols)
    (h8 : ((mismSgm a).flag r c).testBit 8 = true) (h2 : 2 ≤ (nums (sourcesSgm (mismSgm a) r c)).length) :
    ∃ q, (sgm a).disp r c = .num q ∧ isSecondLowestAbs (nums (sourcesSgm (mismSgm a) r c)) q = true
      ∧ betweenValid a q = true := by
  obtain ⟨⟨q, hq, hs⟩, _⟩ := occlSgm_flagged (mismSgm a) r c hr hc h8 h2
  refine ⟨q, hq, hs, ?_⟩
  rw [betweenValid_iff]
  exact sgm_sources_bdd hwf r c q (isSecondLowestAbs_mem hs)

theorem sgm_outcome (hwf : WFp .sgm off a) {r c : Nat} (hr : r < a.rows) (hc : c < a.cols)
    (hok : okAt .sgm a (mismSgm a) r c = true) : Outcome .sgm off a (sgm a) r c := by
  have hborder : ∀ k, (leftNodataOrBorder).testBit k = false → (a.flag r c).testBit k = true →
      (decide (off > 0) && isBorder a off r c) = false := by
    intro k h1 hk
    cases hb : (decide (off > 0) && isBorder a off r c)
    · rfl
    · have := hwf.bc r c hr hc hb; rw [this, h1] at hk; cases hk
  by_cases h8 : (a.flag r c).testBit 8 = true
  · -- occlusion
    have h9 : (a.flag r c).testBit 9 = false := hwf.one r c hr hc h8
    have h4 : (a.flag r c).testBit 4 = false := hwf.st8 r c hr hc h8
    have hnb := hborder 8 one_testBit8 h8
    have hfl : flagged (a.flag r c) = true := by rw [flagged_eq, h8]; rfl
    have hk : kindOf .sgm a r c = .occl := by simp [kindOf, hasBit_occlusion, h8]
    obtain ⟨_, hm2⟩ := mismSgm_unflagged a r c h9
    have h8' : ((mismSgm a).flag r c).testBit 8 = true := by rw [hm2]; exact h8
    simp only [okAt, hk, decide_eq_true_eq] at hok
    obtain ⟨q, hq, hs, hbd⟩ := sgm_occl_core hwf hr hc h8' hok
    have hg : (sgm a).flag r c = replaceBit (a.flag r c) occlusion filledOcclusion := by
      show (occlSgm (mismSgm a)).flag r c = _
      rw [occlSgm_flag _ r c h8', hm2, fill_occl h8 h4]
    have hsrcs : sourcesOf .sgm a (sgm a) r c = nums (sourcesSgm (mismSgm a) r c) := by
      simp only [sourcesOf, hk]; rw [sourcesSgm_congr (midOf_sgm_agree hwf)]
    refine Outcome.filled hfl hnb (by rw [hk]; exact hg) ?_ q hq ?_ hbd ?_
    · rw [hg, flagged_eq, occlusion_pow, filledOcclusion_pow, testBit_replaceBit, testBit_replaceBit]; simp [h9]
    · rw [hk, hsrcs]; simp [valueOK, hs]
    · rw [hk, hsrcs]; simpa [enoughSources] using hok
  · simp only [Bool.not_eq_true] at h8
    by_cases h9 : (a.flag r c).testBit 9 = true
    · have h5 : (a.flag r c).testBit 5 = false := hwf.st9 r c hr hc h9
      have h4 : (a.flag r c).testBit 4 = false := hwf.st9s rfl r c hr hc h9
      have hnb := hborder 9 one_testBit9 h9
      have hfl : flagged (a.flag r c) = true := by rw [flagged_eq, h9]; simp
      cases ht : touchesOcclusion a r c
      · -- mismatch filled as a mismatch
        have hk : kindOf .sgm a r c = .mism := by rw [kindOf_sgm_mism h8 h9, ht]; rfl
        simp only [okAt, hk, Bool.not_eq_true'] at hok
        obtain ⟨hb1, hb2⟩ := sgm_at_mism hwf hr hc h9 ht
        obtain ⟨hm1, hm2⟩ := mismSgm_fill a r c hr hc h9 ht
        have hg : (sgm a).flag r c = replaceBit (a.flag r c) mismatch filledMismatch := by
          rw [hb2, hm2, fill_mism h9 h5]
        have hsrcs : sourcesOf .sgm a (sgm a) r c = nums (sourcesSgm a r c) := by simp only [sourcesOf, hk]
        have hne : nums (sourcesSgm a r c) ≠ [] := by intro h0; rw [h0] at hok; simp at hok
        cases hmed : median (nums (sourcesSgm a r c)) with
        | nan => exact absurd ((median_eq_nan_iff _).mp hmed) hne
        | num q =>
          refine Outcome.filled hfl hnb (by rw [hk]; exact hg) ?_ q (by rw [hb1, hm1, hmed]) ?_ ?_ ?_
          · rw [hg, flagged_eq, mismatch_pow, filledMismatch_pow, testBit_replaceBit, testBit_replaceBit]; simp [h8]
          · rw [hk, hsrcs]; simp [valueOK, hmed]
          · rw [betweenValid_iff]; exact Bdd.median (sgm_input_sources_bdd r c) hmed
          · rw [hk, hsrcs]; simp only [enoughSources, decide_eq_true_eq]
            cases hl : nums (sourcesSgm a r c) with
            | nil => exact absurd hl hne
            | cons x t => simp
      · -- mismatch touching an occlusion: handled as an occlusion
        have hk : kindOf .sgm a r c = .mismAsOccl := by rw [kindOf_sgm_mism h8 h9, ht]; rfl
        simp only [okAt, hk, decide_eq_true_eq] at hok
        obtain ⟨_, hm2⟩ := mismSgm_touch a r c hr hc h9 ht
        have hf1 : (mismSgm a).flag r c = replaceBit (a.flag r c) (2 ^ 9) (2 ^ 8) := by
          rw [hm2, mism_to_occl h9 h8, mismatch_pow, occlusion_pow]
        have h8' : ((mismSgm a).flag r c).testBit 8 = true := by rw [hf1, testBit_replaceBit]; simp
        have h4' : ((mismSgm a).flag r c).testBit 4 = false := by rw [hf1, testBit_replaceBit]; simp [h4]
        obtain ⟨q, hq, hs, hbd⟩ := sgm_occl_core hwf hr hc h8' hok
        have hg : (sgm a).flag r c = replaceBit (a.flag r c) mismatch filledOcclusion := by
          show (occlSgm (mismSgm a)).flag r c = _
          rw [occlSgm_flag _ r c h8', fill_occl h8' h4', hf1, occlusion_pow, filledOcclusion_pow, mismatch_pow,
            replaceBit_twice _ 9 8 4 h8 (by decide)]
        have hsrcs : sourcesOf .sgm a (sgm a) r c = nums (sourcesSgm (mismSgm a) r c) := by
          simp only [sourcesOf, hk]; rw [sourcesSgm_congr (midOf_sgm_agree hwf)]
        refine Outcome.filled hfl hnb (by rw [hk]; exact hg) ?_ q hq ?_ hbd ?_
        · rw [hg, flagged_eq, mismatch_pow, filledOcclusion_pow, testBit_replaceBit, testBit_replaceBit]; simp [h8]
        · rw [hk, hsrcs]; simp [valueOK, hs]
        · rw [hk, hsrcs]; simpa [enoughSources] using hok
    · -- neither bit
      simp only [Bool.not_eq_true] at h9
      have hfl : flagged (a.flag r c) = false := by rw [flagged_eq, h8, h9]; rfl
      obtain ⟨hm1, hm2⟩ := mismSgm_unflagged a r c h9
      have h8' : ((mismSgm a).flag r c).testBit 8 = false := by rw [hm2]; exact h8
      obtain ⟨ho1, ho2⟩ := occlSgm_unflagged (mismSgm a) r c h8'
      exact Outcome.untouched hfl (by show (occlSgm (mismSgm a)).disp r c = _; rw [ho1, hm1])
        (by show (occlSgm (mismSgm a)).flag r c = _; rw [ho2, hm2]) (hwf.bc r c hr hc)

end sgm


/-! ### 8. The theorems that carry the property -/

theorem okAt_of_unflagged {meth : Method} {a mid : DMap} {r c : Nat} (h : flagged (a.flag r c) = false) :
    okAt meth a mid r c = true := by
  unfold flagged at h
  simp only [Bool.or_eq_false_iff] at h
  have hk : kindOf meth a r c = .none := by simp [kindOf, h.1, h.2]
  unfold okAt; rw [hk]; cases meth <;> rfl

theorem okAt_mccnn_occl {a mid : DMap} {r c : Nat} (h : hasBit (a.flag r c) occlusion = true) :
    okAt .mccnn a mid r c = true := by
  have hk : kindOf .mccnn a r c = .occl := by simp [kindOf, h]
  unfold okAt; rw [hk]

/-- MAIN (per pixel).  For every well-formed map of any size, every pixel that is not in one of the
    four "fills from nothing" situations (`okAt`) satisfies all the clauses of C14 after filling. -/
theorem outcome (meth : Method) (off : Nat) (a : DMap) (hwf : wf meth off a = true) {r c : Nat}
    (hr : r < a.rows) (hc : c < a.cols) (hok : okAt meth a (firstPass meth a) r c = true) :
    Outcome meth off a (interpolate meth off a) r c := by
  cases meth with
  | mccnn => exact mccnn_outcome (wf_elim hwf) hr hc hok
  | sgm => exact sgm_outcome (wf_elim hwf) hr hc hok

theorem pixel_ok (meth : Method) (off : Nat) (a : DMap) (hwf : wf meth off a = true) {r c : Nat}
    (hr : r < a.rows) (hc : c < a.cols) (hok : okAt meth a (firstPass meth a) r c = true) :
    pixelOK meth off a (interpolate meth off a) r c = true :=
  pixelOK_of_outcome (outcome meth off a hwf hr hc hok)

/-
  Full-strength statement (FALSE of the code, see the counterexamples of section 9):
      ∀ meth off a, wf meth off a = true → spec meth off a (interpolate meth off a) = true
  What is proved: the same under `noTrigger meth a = true` (no flagged pixel is in one of the four
  situations in which the code fills from nothing).  What is missing is exactly findings F6a–F6d.
-/
theorem spec_holds_partial (meth : Method) (off : Nat) (a : DMap) (hwf : wf meth off a = true)
    (hnt : noTrigger meth a = true) : spec meth off a (interpolate meth off a) = true := by
  unfold noTrigger at hnt
  rw [allPx_iff] at hnt
  unfold spec
  have h1 : (interpolate meth off a).rows = a.rows := by cases meth <;> rfl
  have h2 : (interpolate meth off a).cols = a.cols := by cases meth <;> rfl
  simp only [h1, h2, decide_true, Bool.true_and, List.all_eq_true, List.mem_range]
  intro r hr c hc
  exact pixel_ok meth off a hwf hr hc (hnt r c hr hc)

/-- FULL STRENGTH: only pixels flagged 8 or 9 can change — every other pixel keeps its disparity and
    its flags bit for bit (any well-formed map, both methods, including maps full of defect situations). -/
theorem unflagged_untouched (meth : Method) (off : Nat) (a : DMap) (hwf : wf meth off a = true) {r c : Nat}
    (hr : r < a.rows) (hc : c < a.cols) (hf : flagged (a.flag r c) = false) :
    (interpolate meth off a).disp r c = a.disp r c ∧ (interpolate meth off a).flag r c = a.flag r c := by
  cases outcome meth off a hwf hr hc (okAt_of_unflagged hf) with
  | untouched _ hd hg _ => exact ⟨hd, hg⟩
  | unfilled hf' => rw [hf] at hf'; cases hf'
  | filled hf' => rw [hf] at hf'; cases hf'

/-- FULL STRENGTH: mc-cnn masks the border whatever the input is: border pixels end with bit 0 only. -/
theorem border_bit0_only_mccnn (off : Nat) (a : DMap) (r c : Nat)
    (h : (decide (off > 0) && isBorder a off r c) = true) : (mccnn off a).flag r c = leftNodataOrBorder := by
  rw [mccnn_flag, if_pos h]

/-- FULL STRENGTH: border pixels end with bit 0 only, both methods (sgm: because they are left untouched). -/
theorem border_bit0_only (meth : Method) (off : Nat) (a : DMap) (hwf : wf meth off a = true) {r c : Nat}
    (hr : r < a.rows) (hc : c < a.cols) (h : (decide (off > 0) && isBorder a off r c) = true) :
    (interpolate meth off a).flag r c = leftNodataOrBorder := by
  have hf1 := (wf_elim hwf).bc r c hr hc h
  have hf : flagged (a.flag r c) = false := by rw [hf1]; decide
  rw [(unflagged_untouched meth off a hwf hr hc hf).2, hf1]

/-- FULL STRENGTH: an occlusion pixel under mc-cnn satisfies every clause: it takes the disparity of the
    nearest valid pixel on its left (otherwise on its right) and bit 8 becomes bit 4, or — without any valid
    pixel in its row — it stays as it was. -/
theorem mccnn_occlusion_full (off : Nat) (a : DMap) (hwf : wf .mccnn off a = true) {r c : Nat}
    (hr : r < a.rows) (hc : c < a.cols) (h8 : hasBit (a.flag r c) occlusion = true) :
    pixelOK .mccnn off a (mccnn off a) r c = true :=
  pixel_ok .mccnn off a hwf hr hc (okAt_mccnn_occl h8)

/-- FULL STRENGTH (flags): whatever the sources, a flagged pixel is never on the border and ends with
    bit 8 replaced by 4 / bit 9 by 5 (sgm: by 4 when it touches an occlusion), or with its flags unchanged
    (only mc-cnn occlusions without source); in particular no other bit ever changes. -/
theorem filled_bits (meth : Method) (off : Nat) (a : DMap) (hwf : wf meth off a = true) {r c : Nat}
    (hr : r < a.rows) (hc : c < a.cols) (hf : flagged (a.flag r c) = true) :
    (decide (off > 0) && isBorder a off r c) = false ∧
    ((interpolate meth off a).flag r c = filledFlag (kindOf meth a r c) (a.flag r c)
      ∨ ((interpolate meth off a).flag r c = a.flag r c ∧ meth = .mccnn ∧ kindOf meth a r c = .occl
          ∧ sourceOcclMc a r c = none)) := by
  have hw := wf_elim hwf
  rw [flagged_eq] at hf
  cases meth with
  | mccnn =>
    by_cases h8 : (a.flag r c).testBit 8 = true
    · have hnb := not_border_of_bit hw hr hc one_testBit8 h8
      have hk : kindOf .mccnn a r c = .occl := by simp [kindOf, hasBit_occlusion, h8]
      obtain ⟨_, hb2⟩ := mccnn_at_occl hw hr hc h8
      obtain ⟨hs, hn⟩ := occlMc_flagged a r c hc h8
      refine ⟨hnb, ?_⟩
      cases hsrc : sourceOcclMc a r c with
      | none => exact Or.inr ⟨by show (mccnn off a).flag r c = _; rw [hb2, (hn hsrc).2], rfl, hk, rfl⟩
      | some v =>
        left; show (mccnn off a).flag r c = _
        rw [hb2, (hs v hsrc).2, fill_occl h8 (hw.st8 r c hr hc h8), hk]; rfl
    · simp only [Bool.not_eq_true] at h8
      have h9 : (a.flag r c).testBit 9 = true := by rw [h8] at hf; simpa using hf
      have hnb := not_border_of_bit hw hr hc one_testBit9 h9
      have hk : kindOf .mccnn a r c = .mism := by simp [kindOf, hasBit_occlusion, hasBit_mismatch, h8, h9]
      obtain ⟨_, ho2⟩ := occlMc_unflagged a r c h8
      have h9' : ((occlMc a).flag r c).testBit 9 = true := by rw [ho2]; exact h9
      refine ⟨hnb, Or.inl ?_⟩
      show (mccnn off a).flag r c = _
      rw [mccnn_flag, hnb]; simp only [Bool.false_eq_true, if_false]
      rw [mismMc_flag _ r c h9', ho2, fill_mism h9 (hw.st9 r c hr hc h9), hk]; rfl
  | sgm =>
    have hborder : ∀ k, (leftNodataOrBorder).testBit k = false → (a.flag r c).testBit k = true →
        (decide (off > 0) && isBorder a off r c) = false := by
      intro k h1 hk
      cases hb : (decide (off > 0) && isBorder a off r c)
      · rfl
      · have := hw.bc r c hr hc hb; rw [this, h1] at hk; cases hk
    by_cases h8 : (a.flag r c).testBit 8 = true
    · have h9 : (a.flag r c).testBit 9 = false := hw.one r c hr hc h8
      have hk : kindOf .sgm a r c = .occl := by simp [kindOf, hasBit_occlusion, h8]
      obtain ⟨_, hm2⟩ := mismSgm_unflagged a r c h9
      have h8' : ((mismSgm a).flag r c).testBit 8 = true := by rw [hm2]; exact h8
      refine ⟨hborder 8 one_testBit8 h8, Or.inl ?_⟩
      show (occlSgm (mismSgm a)).flag r c = _
      rw [occlSgm_flag _ r c h8', hm2, fill_occl h8 (hw.st8 r c hr hc h8), hk]; rfl
    · simp only [Bool.not_eq_true] at h8
      have h9 : (a.flag r c).testBit 9 = true := by rw [h8] at hf; simpa using hf
      have h5 := hw.st9 r c hr hc h9
      have h4 := hw.st9s rfl r c hr hc h9
      refine ⟨hborder 9 one_testBit9 h9, Or.inl ?_⟩
      cases ht : touchesOcclusion a r c
      · have hk : kindOf .sgm a r c = .mism := by rw [kindOf_sgm_mism h8 h9, ht]; rfl
        show (sgm a).flag r c = _
        rw [(sgm_at_mism hw hr hc h9 ht).2, (mismSgm_fill a r c hr hc h9 ht).2, fill_mism h9 h5, hk]; rfl
      · have hk : kindOf .sgm a r c = .mismAsOccl := by rw [kindOf_sgm_mism h8 h9, ht]; rfl
        have hf1 : (mismSgm a).flag r c = replaceBit (a.flag r c) (2 ^ 9) (2 ^ 8) := by
          rw [(mismSgm_touch a r c hr hc h9 ht).2, mism_to_occl h9 h8, mismatch_pow, occlusion_pow]
        have h8' : ((mismSgm a).flag r c).testBit 8 = true := by rw [hf1, testBit_replaceBit]; simp
        have h4' : ((mismSgm a).flag r c).testBit 4 = false := by rw [hf1, testBit_replaceBit]; simp [h4]
        show (occlSgm (mismSgm a)).flag r c = _
        rw [occlSgm_flag _ r c h8', fill_occl h8' h4', hf1, hk, occlusion_pow, filledOcclusion_pow,
          replaceBit_twice _ 9 8 4 h8 (by decide)]
        simp [filledFlag, mismatch_pow, filledOcclusion_pow]


/-! ### 9. Counterexamples to the full-strength statement (findings F6a–F6d, F4), replayed on the
    implementation from `corpus/C14/`, and non-vacuity of the hypotheses -/

/-- a map from nested lists (cells outside read as NaN / 0) -/
def mapOf (disp : List (List Val)) (flag : List (List Nat)) : DMap :=
  { rows := flag.length, cols := (flag.headD []).length,
    disp := fun r c => (disp.getD r []).getD c .nan, flag := fun r c => (flag.getD r []).getD c 0 }

def okOf (cl : View → Clause) (meth : Method) (off : Nat) (a : DMap) (r c : Nat) : Bool :=
  (cl (viewAt meth off a (interpolate meth off a) r c)).ok

/-- F6a (corpus f6a_mccnn_mismatch_nan.json): a mismatch with no valid pixel on its 16 scan lines is
    filled with NaN and marked "filled mismatch". -/
def exF6a : DMap := mapOf [[.num 5, .num 6, .nan, .num 8, .num 9]] [[1, 1, 512, 1, 1]]

theorem mccnn_mismatch_nan_counterexample :
    wf .mccnn 0 exF6a = true
    ∧ (mccnn 0 exF6a).disp 0 2 = .nan ∧ (mccnn 0 exF6a).flag 0 2 = 32
    ∧ okOf cFilledFinite .mccnn 0 exF6a 0 2 = false ∧ okOf cNoSource .mccnn 0 exF6a 0 2 = false
    ∧ spec .mccnn 0 exF6a (interpolate .mccnn 0 exF6a) = false := by decide

/-- F6b (corpus f6b_mccnn_mismatch_zero.json): two scan lines of the mismatch at (0,0) run their
    max(rows, cols) − 1 = 2 steps inside the image on invalid pixels: the 0 of `np.zeros` enters the median
    twice, the only valid pixel in sight carries 7, the pixel is filled with 0 — outside [7, 7]. -/
def exF6b : DMap := mapOf [[.nan, .nan, .nan], [.nan, .num 7, .nan]] [[512, 2, 2], [2, 0, 2]]

theorem mccnn_mismatch_zero_counterexample :
    wf .mccnn 0 exF6b = true
    ∧ (mccnn 0 exF6b).disp 0 0 = .num 0 ∧ (mccnn 0 exF6b).flag 0 0 = 32
    ∧ sourcesOf .mccnn exF6b (mccnn 0 exF6b) 0 0 = [7]
    ∧ okOf (cFilledFromValid .mccnn) .mccnn 0 exF6b 0 0 = false
    ∧ okOf (cFilledBetween exF6b) .mccnn 0 exF6b 0 0 = false
    ∧ spec .mccnn 0 exF6b (interpolate .mccnn 0 exF6b) = false := by decide

/-- F6c (corpus f6c_sgm_mismatch_nan.json): sgm, mismatch without valid pixel on its 8 scan lines. -/
def exF6c : DMap :=
  mapOf [[.num 5, .num 6, .num 7], [.num 1, .nan, .num 3], [.num 1, .num 4, .num (-1)]] [[1, 1, 1], [1, 512, 1], [1, 1, 1]]

theorem sgm_mismatch_nan_counterexample :
    wf .sgm 0 exF6c = true
    ∧ (sgm exF6c).disp 1 1 = .nan ∧ (sgm exF6c).flag 1 1 = 32
    ∧ okOf cFilledFinite .sgm 0 exF6c 1 1 = false ∧ okOf cNoSource .sgm 0 exF6c 1 1 = false
    ∧ spec .sgm 0 exF6c (interpolate .sgm 0 exF6c) = false := by decide

/-- F6d (corpus f6d_sgm_occlusion_nan.json): sgm, occlusion with a single valid pixel in sight:
    `argsort(|·|)[1]` points at a NaN. -/
def exF6d : DMap :=
  mapOf [[.num 5, .num 6, .num 7], [.num 1, .nan, .num 3], [.num 1, .num 4, .num (-1)]] [[1, 1, 1], [0, 256, 1], [1, 1, 1]]

theorem sgm_occlusion_nan_counterexample :
    wf .sgm 0 exF6d = true
    ∧ sourcesOf .sgm exF6d (sgm exF6d) 1 1 = [1]
    ∧ (sgm exF6d).disp 1 1 = .nan ∧ (sgm exF6d).flag 1 1 = 16
    ∧ okOf cFilledFinite .sgm 0 exF6d 1 1 = false
    ∧ spec .sgm 0 exF6d (interpolate .sgm 0 exF6d) = false := by decide

/-- F4 (corpus f4_stale_filled_bit.json): outside `wf` — an occlusion that already carries bit 4 (left by an
    earlier validation step with filling) ends with bit 5 instead of bit 4: `+=` carries. -/
def exF4 : DMap := mapOf [[.num 3, .nan, .num 4]] [[0, 272, 0]]

theorem stale_filled_bit_counterexample :
    noStaleFill .mccnn exF4 = false ∧ (mccnn 0 exF4).flag 0 1 = 32
    ∧ filledFlag .occl 272 = 16 ∧ okOf cFilledBits .mccnn 0 exF4 0 1 = false := by decide

/-- non-vacuity, mc-cnn: a well-formed map without defect situation, an occlusion filled from its left
    (3) and a mismatch filled with the median of {4,4,4,3,3,3,5,5,5,4,4} = 4 (the filled occlusion is one of
    the sources, three times). -/
def exOkMc : DMap := mapOf [[.num 3, .nan, .nan, .num 5], [.num 4, .num 4, .num 4, .num 4]] [[0, 256, 512, 0], [0, 0, 0, 0]]

example : wf .mccnn 0 exOkMc = true ∧ noTrigger .mccnn exOkMc = true
    ∧ (mccnn 0 exOkMc).disp 0 1 = .num 3 ∧ (mccnn 0 exOkMc).flag 0 1 = 16
    ∧ (mccnn 0 exOkMc).disp 0 2 = .num 4 ∧ (mccnn 0 exOkMc).flag 0 2 = 32
    ∧ spec .mccnn 0 exOkMc (interpolate .mccnn 0 exOkMc) = true := by decide

/-- non-vacuity, sgm: an occlusion (second lowest |d| of its 7 finite neighbours 6, 5, 4, 1, 2, 3, −2: the tie
    |2| = |−2| goes to the first in direction order, 2) and a mismatch touching it (handled as an occlusion:
    −2 among {−2, 1, 6}), offset 1 with a clean border on a 5×5 map. -/
def exOkSgm : DMap :=
  mapOf [[.nan, .nan, .nan, .nan, .nan], [.nan, .num 1, .num 2, .num 3, .nan], [.nan, .num 4, .nan, .num (-2), .nan],
         [.nan, .num 5, .num 6, .nan, .nan], [.nan, .nan, .nan, .nan, .nan]]
        [[1, 1, 1, 1, 1], [1, 0, 0, 0, 1], [1, 0, 256, 0, 1], [1, 0, 0, 512, 1], [1, 1, 1, 1, 1]]

example : wf .sgm 1 exOkSgm = true ∧ noTrigger .sgm exOkSgm = true
    ∧ (sgm exOkSgm).disp 2 2 = .num 2 ∧ (sgm exOkSgm).flag 2 2 = 16
    ∧ (sgm exOkSgm).disp 3 3 = .num (-2) ∧ (sgm exOkSgm).flag 3 3 = 16
    ∧ spec .sgm 1 exOkSgm (interpolate .sgm 1 exOkSgm) = true := by decide


/-! ### 10. The code with `proposed_fixes/C14-fill-from-nothing.diff` applied satisfies the full-strength
    statement (`Model/InterpRepaired.lean`, variant `guard`) -/

namespace R
open Pandora.Interp.Repaired

/-- the variant with the first patch only -/
def vg : Variant := { guard := true, bitops := false }

theorem upd_vg (f old new : Nat) : upd vg f old new = f - old + new := rfl

theorem scanLoopI_eq (init : Val) (m : DMap) (pos : Nat → Int × Int) : ∀ fuel i, scanLoopI init m pos fuel i =
    match (List.range' i fuel).find? (stopAt m pos) with
    | none => init
    | some j => if m.inside (pos j) then m.dispAt (pos j) else .nan := by
  intro fuel
  induction fuel with
  | zero => intro i; simp [scanLoopI]
  | succ n ih =>
    intro i
    rw [List.range'_succ, List.find?_cons]
    unfold scanLoopI
    by_cases hin : m.inside (pos i) = true
    · by_cases hv : m.validAt (pos i) = true
      · simp [stopAt, hin, hv]
      · simp only [Bool.not_eq_true] at hv
        simp [stopAt, hin, hv, ih (i + 1)]
    · simp only [Bool.not_eq_true] at hin
      simp [stopAt, hin]

/-- with a NaN-initialised accumulator the mc-cnn scan is exactly "first valid pixel of the ray, or NaN" -/
theorem scanMcR_eq (m : DMap) (r c : Nat) (hr : r < m.rows) (hc : c < m.cols) (d : Int × Int) (hd : d ∈ dirs16) :
    scanLoopI .nan m (posMc r c d) (max m.cols m.rows - 1) 1 = (firstValid m (rayPts m (posMc r c d))).getD .nan := by
  have hM : max m.cols m.rows = (max m.cols m.rows - 1) + 1 := by
    have : 1 ≤ max m.cols m.rows := Nat.le_trans (by omega) (Nat.le_max_left m.cols m.rows)
    omega
  rw [scanLoopI_eq, firstValid_rayPts]
  generalize hS : List.range' 1 (max m.cols m.rows - 1) = S
  have hfull : List.range' 1 (max m.cols m.rows) = S ++ [max m.cols m.rows] := by
    rw [← hS]; conv => lhs; rw [hM]
    rw [List.range'_concat]; simp; omega
  rw [hfull, List.find?_append]
  cases hf : S.find? (stopAt m (posMc r c d)) with
  | none =>
    have hout := ray_leaves_mc hr hc hd (Nat.le_refl (max m.cols m.rows))
    simp [stopAt, hout]
  | some j =>
    simp only [Option.some_or]
    by_cases hin : m.inside (posMc r c d j) = true <;> simp [hin]

theorem occlMcPixelR_eq (m : DMap) (r c : Nat) : Repaired.occlMcPixel vg m r c = Interp.occlMcPixel m r c := by
  unfold Repaired.occlMcPixel Interp.occlMcPixel
  simp only [upd_vg]
  split
  · split
    · cases (List.map (fun k => m.valid r (c + k)) (List.range (m.cols - c))).getD
        (argmaxBool (List.map (fun k => m.valid r (c + k)) (List.range (m.cols - c)))) false <;> simp [b2n]
    · cases (List.map (fun j => m.valid r j) (List.range (c + 1))).reverse.getD
        (argmaxBool (List.map (fun j => m.valid r j) (List.range (c + 1))).reverse) false <;> simp [b2n]
  · rfl

theorem firstPass_mccnnR (a : DMap) : lift (Repaired.occlMcPixel vg) a = occlMc a := by
  unfold lift occlMc
  congr 1 <;> funext r c <;> rw [occlMcPixelR_eq]

theorem mismMcR_unflagged (m : DMap) (r c : Nat) (h : (m.flag r c).testBit 9 = false) :
    (lift (Repaired.mismMcPixel vg) m).disp r c = m.disp r c ∧ (lift (Repaired.mismMcPixel vg) m).flag r c = m.flag r c := by
  have : ((m.flag r c &&& mismatch) != 0) = false := by
    have := hasBit_mismatch (m.flag r c); unfold hasBit at this; rw [this, h]
  simp only [lift, Repaired.mismMcPixel, this, Bool.false_eq_true, if_false, and_self]

/-- repaired mc-cnn mismatch: no source → untouched; otherwise the median of the sources, bit 9 → bit 5 -/
theorem mismMcR_flagged (m : DMap) (r c : Nat) (hr : r < m.rows) (hc : c < m.cols) (h : (m.flag r c).testBit 9 = true) :
    (nums (sourcesMc m r c) = [] →
      (lift (Repaired.mismMcPixel vg) m).disp r c = m.disp r c ∧ (lift (Repaired.mismMcPixel vg) m).flag r c = m.flag r c) ∧
    (nums (sourcesMc m r c) ≠ [] →
      (lift (Repaired.mismMcPixel vg) m).disp r c = median (nums (sourcesMc m r c))
      ∧ (lift (Repaired.mismMcPixel vg) m).flag r c = m.flag r c - mismatch + filledMismatch) := by
  have h9 : ((m.flag r c &&& mismatch) != 0) = true := by
    have := hasBit_mismatch (m.flag r c); unfold hasBit at this; rw [this, h]
  have hint : (dirs16.map fun d => scanLoopI .nan m (posMc r c d) (max m.cols m.rows - 1) 1)
      = dirs16.map fun d => (firstValid m (rayPts m (posMc r c d))).getD .nan := by
    apply List.map_congr_left; intro d hd; exact scanMcR_eq m r c hr hc d hd
  have hn : nums (dirs16.map fun d => scanLoopI .nan m (posMc r c d) (max m.cols m.rows - 1) 1) = nums (sourcesMc m r c) := by
    rw [hint, nums_map_getD]; rfl
  simp only [lift, Repaired.mismMcPixel, h9, if_true, vg, upd, Bool.true_and, Bool.false_eq_true, if_false, nanmedian]
  rw [hn]
  constructor
  · intro h0; simp [h0]
  · intro h0
    have : (nums (sourcesMc m r c)).isEmpty = false := by
      cases hl : nums (sourcesMc m r c) with
      | nil => exact absurd hl h0
      | cons x t => rfl
    simp [this]

section mccnnR
variable {off : Nat} {a : DMap}

theorem mccnnR_disp (off : Nat) (a : DMap) (r c : Nat) :
    (Repaired.interpolate vg .mccnn off a).disp r c = (lift (Repaired.mismMcPixel vg) (occlMc a)).disp r c := by
  show (maskBorder off (lift (Repaired.mismMcPixel vg) (lift (Repaired.occlMcPixel vg) a))).disp r c = _
  rw [firstPass_mccnnR]; rfl

theorem mccnnR_flag (off : Nat) (a : DMap) (r c : Nat) :
    (Repaired.interpolate vg .mccnn off a).flag r c =
      if (decide (off > 0) && isBorder a off r c) = true then leftNodataOrBorder
      else (lift (Repaired.mismMcPixel vg) (occlMc a)).flag r c := by
  show (maskBorder off (lift (Repaired.mismMcPixel vg) (lift (Repaired.occlMcPixel vg) a))).flag r c = _
  rw [firstPass_mccnnR]; rfl

theorem mccnnR_at_occl (hwf : WFp .mccnn off a) {r c : Nat} (hr : r < a.rows) (hc : c < a.cols)
    (h8 : (a.flag r c).testBit 8 = true) :
    (Repaired.interpolate vg .mccnn off a).disp r c = (occlMc a).disp r c
    ∧ (Repaired.interpolate vg .mccnn off a).flag r c = (occlMc a).flag r c := by
  have h9 : (a.flag r c).testBit 9 = false := hwf.one r c hr hc h8
  have h4 : (a.flag r c).testBit 4 = false := hwf.st8 r c hr hc h8
  have hnb := not_border_of_bit hwf hr hc one_testBit8 h8
  have hm1 : ((occlMc a).flag r c).testBit 9 = false := by
    obtain ⟨hs, hn⟩ := occlMc_flagged a r c hc h8
    cases hsrc : sourceOcclMc a r c with
    | none => rw [(hn hsrc).2]; exact h9
    | some v =>
      rw [(hs v hsrc).2, fill_occl h8 h4, occlusion_pow, filledOcclusion_pow, testBit_replaceBit]; simp [h9]
  have := mismMcR_unflagged (occlMc a) r c hm1
  rw [mccnnR_disp, mccnnR_flag, hnb]
  exact ⟨this.1, by simpa using this.2⟩

theorem midOf_mccnnR_agree (hwf : WFp .mccnn off a) :
    Agree (midOf .mccnn a (Repaired.interpolate vg .mccnn off a)) (occlMc a) := by
  refine ⟨rfl, rfl, ?_, ?_⟩
  · intro r c hr hc
    simp only [midOf, hasBit_occlusion]
    by_cases h8 : (a.flag r c).testBit 8 = true
    · simp [h8, (mccnnR_at_occl hwf hr hc h8).1]
    · simp only [Bool.not_eq_true] at h8
      simp [h8, (occlMc_unflagged a r c h8).1]
  · intro r c hr hc
    simp only [midOf, hasBit_occlusion]
    by_cases h8 : (a.flag r c).testBit 8 = true
    · simp [h8, (mccnnR_at_occl hwf hr hc h8).2]
    · simp only [Bool.not_eq_true] at h8
      simp [h8, (occlMc_unflagged a r c h8).2]

theorem mccnnR_outcome (hwf : WFp .mccnn off a) {r c : Nat} (hr : r < a.rows) (hc : c < a.cols) :
    Outcome .mccnn off a (Repaired.interpolate vg .mccnn off a) r c := by
  by_cases h8 : (a.flag r c).testBit 8 = true
  · have h9 : (a.flag r c).testBit 9 = false := hwf.one r c hr hc h8
    have h4 : (a.flag r c).testBit 4 = false := hwf.st8 r c hr hc h8
    have hnb := not_border_of_bit hwf hr hc one_testBit8 h8
    have hfl : flagged (a.flag r c) = true := by rw [flagged_eq, h8]; rfl
    have hk : kindOf .mccnn a r c = .occl := by simp [kindOf, hasBit_occlusion, h8]
    obtain ⟨hb1, hb2⟩ := mccnnR_at_occl hwf hr hc h8
    obtain ⟨hs, hn⟩ := occlMc_flagged a r c hc h8
    cases hsrc : sourceOcclMc a r c with
    | none =>
      have hg0 : (Repaired.interpolate vg .mccnn off a).flag r c = a.flag r c := by rw [hb2, (hn hsrc).2]
      refine Outcome.unfilled hfl hnb ?_ (by rw [hk, hg0]; rfl) (by rw [hg0]; exact hfl)
      simp [sourcesOf, hk, hsrc, nums, enoughSources]
    | some v =>
      obtain ⟨j, hj, hvj, hdj⟩ := sourceOcclMc_pixel hc hsrc
      obtain ⟨q, hq⟩ := hwf.vf r j hr hj hvj
      have hvq : v = .num q := hdj.symm.trans hq
      have hg : (Repaired.interpolate vg .mccnn off a).flag r c = replaceBit (a.flag r c) occlusion filledOcclusion := by
        rw [hb2, (hs v hsrc).2, fill_occl h8 h4]
      have hsrcs : sourcesOf .mccnn a (Repaired.interpolate vg .mccnn off a) r c = [q] := by
        simp [sourcesOf, hk, hsrc, hvq, nums]
      refine Outcome.filled hfl hnb (by rw [hk]; exact hg) ?_ q (by rw [hb1, (hs v hsrc).1, hvq]) ?_ ?_ ?_
      · rw [hg, flagged_eq, occlusion_pow, filledOcclusion_pow, testBit_replaceBit, testBit_replaceBit]; simp [h9]
      · rw [hk, hsrcs]; simp [valueOK]
      · rw [betweenValid_iff]; exact Bdd.self hr hj hvj hq
      · rw [hk, hsrcs]; simp [enoughSources]
  · simp only [Bool.not_eq_true] at h8
    obtain ⟨ho1, ho2⟩ := occlMc_unflagged a r c h8
    by_cases h9 : (a.flag r c).testBit 9 = true
    · have h5 : (a.flag r c).testBit 5 = false := hwf.st9 r c hr hc h9
      have hnb := not_border_of_bit hwf hr hc one_testBit9 h9
      have hfl : flagged (a.flag r c) = true := by rw [flagged_eq, h9]; simp
      have hk : kindOf .mccnn a r c = .mism := by simp [kindOf, hasBit_occlusion, hasBit_mismatch, h8, h9]
      have h9' : ((occlMc a).flag r c).testBit 9 = true := by rw [ho2]; exact h9
      have hsrcs : sourcesOf .mccnn a (Repaired.interpolate vg .mccnn off a) r c = nums (sourcesMc (occlMc a) r c) := by
        simp only [sourcesOf, hk]
        rw [sourcesMc_congr (midOf_mccnnR_agree hwf)]
      obtain ⟨hempty, hfill⟩ := mismMcR_flagged (occlMc a) r c hr hc h9'
      by_cases hne : nums (sourcesMc (occlMc a) r c) = []
      · have hg0 : (Repaired.interpolate vg .mccnn off a).flag r c = a.flag r c := by
          rw [mccnnR_flag, hnb]; simp only [Bool.false_eq_true, if_false]; rw [(hempty hne).2, ho2]
        refine Outcome.unfilled hfl hnb ?_ (by rw [hk, hg0]; rfl) (by rw [hg0]; exact hfl)
        rw [hk, hsrcs, hne]; simp [enoughSources]
      · have hg : (Repaired.interpolate vg .mccnn off a).flag r c = replaceBit (a.flag r c) mismatch filledMismatch := by
          rw [mccnnR_flag, hnb]; simp only [Bool.false_eq_true, if_false]
          rw [(hfill hne).2, ho2, fill_mism h9 h5]
        have hd : (Repaired.interpolate vg .mccnn off a).disp r c = median (nums (sourcesMc (occlMc a) r c)) := by
          rw [mccnnR_disp]; exact (hfill hne).1
        cases hmed : median (nums (sourcesMc (occlMc a) r c)) with
        | nan => exact absurd ((median_eq_nan_iff _).mp hmed) hne
        | num q =>
          refine Outcome.filled hfl hnb (by rw [hk]; exact hg) ?_ q (by rw [hd, hmed]) ?_ ?_ ?_
          · rw [hg, flagged_eq, mismatch_pow, filledMismatch_pow, testBit_replaceBit, testBit_replaceBit]; simp [h8]
          · rw [hk, hsrcs]; simp [valueOK, hmed]
          · rw [betweenValid_iff]; exact Bdd.median (mc_sources_bdd r c) hmed
          · rw [hk, hsrcs]; simp only [enoughSources, decide_eq_true_eq]
            cases hl : nums (sourcesMc (occlMc a) r c) with
            | nil => exact absurd hl hne
            | cons x t => simp
    · simp only [Bool.not_eq_true] at h9
      have hfl : flagged (a.flag r c) = false := by rw [flagged_eq, h8, h9]; rfl
      have h9' : ((occlMc a).flag r c).testBit 9 = false := by rw [ho2]; exact h9
      obtain ⟨hm1, hm2⟩ := mismMcR_unflagged (occlMc a) r c h9'
      refine Outcome.untouched hfl (by rw [mccnnR_disp, hm1, ho1]) ?_ (hwf.bc r c hr hc)
      rw [mccnnR_flag]
      by_cases hb : (decide (off > 0) && isBorder a off r c) = true
      · rw [if_pos hb, hwf.bc r c hr hc hb]
      · rw [if_neg hb, hm2, ho2]

end mccnnR

section sgmR
variable {off : Nat} {a : DMap}

theorem mismSgmR_unflagged (m : DMap) (r c : Nat) (h : (m.flag r c).testBit 9 = false) :
    (lift (Repaired.mismSgmPixel vg) m).disp r c = m.disp r c ∧ (lift (Repaired.mismSgmPixel vg) m).flag r c = m.flag r c := by
  have : ((m.flag r c &&& mismatch) != 0) = false := by
    have := hasBit_mismatch (m.flag r c); unfold hasBit at this; rw [this, h]
  simp only [lift, Repaired.mismSgmPixel, this, Bool.false_eq_true, if_false, and_self]

theorem mismSgmR_touch (m : DMap) (r c : Nat) (hr : r < m.rows) (hc : c < m.cols) (h : (m.flag r c).testBit 9 = true)
    (ht : touchesOcclusion m r c = true) :
    (lift (Repaired.mismSgmPixel vg) m).disp r c = m.disp r c
    ∧ (lift (Repaired.mismSgmPixel vg) m).flag r c = m.flag r c - mismatch + occlusion := by
  have h9 : ((m.flag r c &&& mismatch) != 0) = true := by
    have := hasBit_mismatch (m.flag r c); unfold hasBit at this; rw [this, h]
  have h3 := occlusionSum3x3_ne_zero m r c hr hc
  rw [ht] at h3
  simp only [lift, Repaired.mismSgmPixel, h9, h3, if_true, upd_vg, and_self]

theorem mismSgmR_fill (m : DMap) (r c : Nat) (hr : r < m.rows) (hc : c < m.cols) (h : (m.flag r c).testBit 9 = true)
    (ht : touchesOcclusion m r c = false) :
    (nums (sourcesSgm m r c) = [] →
      (lift (Repaired.mismSgmPixel vg) m).disp r c = m.disp r c ∧ (lift (Repaired.mismSgmPixel vg) m).flag r c = m.flag r c) ∧
    (nums (sourcesSgm m r c) ≠ [] →
      (lift (Repaired.mismSgmPixel vg) m).disp r c = median (nums (sourcesSgm m r c))
      ∧ (lift (Repaired.mismSgmPixel vg) m).flag r c = m.flag r c - mismatch + filledMismatch) := by
  have h9 : ((m.flag r c &&& mismatch) != 0) = true := by
    have := hasBit_mismatch (m.flag r c); unfold hasBit at this; rw [this, h]
  have h3 := occlusionSum3x3_ne_zero m r c hr hc
  rw [ht] at h3
  have hn : nums (findValidNeighbors m r c) = nums (sourcesSgm m r c) := by
    rw [findValidNeighbors_eq m r c hr hc, nums_map_getD]; rfl
  simp only [lift, Repaired.mismSgmPixel, h9, h3, if_true, Bool.false_eq_true, if_false, vg, upd, Bool.true_and, nanmedian]
  rw [hn]
  constructor
  · intro h0; simp [h0]
  · intro h0
    have : (nums (sourcesSgm m r c)).isEmpty = false := by
      cases hl : nums (sourcesSgm m r c) with
      | nil => exact absurd hl h0
      | cons x t => rfl
    simp [this]

theorem occlSgmR_unflagged (m : DMap) (r c : Nat) (h : (m.flag r c).testBit 8 = false) :
    (lift (Repaired.occlSgmPixel vg) m).disp r c = m.disp r c ∧ (lift (Repaired.occlSgmPixel vg) m).flag r c = m.flag r c := by
  have : ((m.flag r c &&& occlusion) != 0) = false := by
    have := hasBit_occlusion (m.flag r c); unfold hasBit at this; rw [this, h]
  simp only [lift, Repaired.occlSgmPixel, this, Bool.false_eq_true, if_false, and_self]

theorem occlSgmR_flagged (m : DMap) (r c : Nat) (hr : r < m.rows) (hc : c < m.cols) (h : (m.flag r c).testBit 8 = true) :
    ((nums (sourcesSgm m r c)).length < 2 →
      (lift (Repaired.occlSgmPixel vg) m).disp r c = m.disp r c ∧ (lift (Repaired.occlSgmPixel vg) m).flag r c = m.flag r c) ∧
    (2 ≤ (nums (sourcesSgm m r c)).length →
      (∃ q, (lift (Repaired.occlSgmPixel vg) m).disp r c = .num q ∧ isSecondLowestAbs (nums (sourcesSgm m r c)) q = true)
      ∧ (lift (Repaired.occlSgmPixel vg) m).flag r c = m.flag r c - occlusion + filledOcclusion) := by
  have h8 : ((m.flag r c &&& occlusion) != 0) = true := by
    have := hasBit_occlusion (m.flag r c); unfold hasBit at this; rw [this, h]
  have hn : nums (findValidNeighbors m r c) = nums (sourcesSgm m r c) := by
    rw [findValidNeighbors_eq m r c hr hc, nums_map_getD]; rfl
  simp only [lift, Repaired.occlSgmPixel, h8, if_true, vg, upd, Bool.true_and, Bool.false_eq_true, if_false]
  rw [hn]
  constructor
  · intro hlt; simp [hlt]
  · intro h2
    have : ¬ (nums (sourcesSgm m r c)).length < 2 := by omega
    simp only [this, decide_false, Bool.false_eq_true, if_false, and_true]
    rw [← hn] at h2 ⊢
    exact secondLowestAbs_spec _ h2

theorem sgmR_eq (off : Nat) (a : DMap) :
    Repaired.interpolate vg .sgm off a = lift (Repaired.occlSgmPixel vg) (lift (Repaired.mismSgmPixel vg) a) := rfl

/-- a mismatch not touching an occlusion: what the repaired first pass produced is final -/
theorem sgmR_at_mism (hwf : WFp .sgm off a) {r c : Nat} (hr : r < a.rows) (hc : c < a.cols)
    (h9 : (a.flag r c).testBit 9 = true) (ht : touchesOcclusion a r c = false) :
    (Repaired.interpolate vg .sgm off a).disp r c = (lift (Repaired.mismSgmPixel vg) a).disp r c
    ∧ (Repaired.interpolate vg .sgm off a).flag r c = (lift (Repaired.mismSgmPixel vg) a).flag r c := by
  have h8 := bit8_false_of_bit9 hwf hr hc h9
  have h5 := hwf.st9 r c hr hc h9
  obtain ⟨he, hf⟩ := mismSgmR_fill a r c hr hc h9 ht
  have : ((lift (Repaired.mismSgmPixel vg) a).flag r c).testBit 8 = false := by
    by_cases h0 : nums (sourcesSgm a r c) = []
    · rw [(he h0).2]; exact h8
    · rw [(hf h0).2, fill_mism h9 h5, mismatch_pow, filledMismatch_pow, testBit_replaceBit]; simp [h8]
  rw [sgmR_eq]
  exact occlSgmR_unflagged _ r c this

theorem midOf_sgmR_agree (hwf : WFp .sgm off a) :
    Agree (midOf .sgm a (Repaired.interpolate vg .sgm off a)) (lift (Repaired.mismSgmPixel vg) a) := by
  refine ⟨rfl, rfl, ?_, ?_⟩
  · intro r c hr hc
    by_cases h9 : (a.flag r c).testBit 9 = true
    · have h8 := bit8_false_of_bit9 hwf hr hc h9
      cases ht : touchesOcclusion a r c
      · have hk : kindOf .sgm a r c = .mism := by rw [kindOf_sgm_mism h8 h9, ht]; rfl
        simp only [midOf, hk, if_true]
        exact (sgmR_at_mism hwf hr hc h9 ht).1
      · have hk : kindOf .sgm a r c = .mismAsOccl := by rw [kindOf_sgm_mism h8 h9, ht]; rfl
        simp only [midOf, hk]
        rw [(mismSgmR_touch a r c hr hc h9 ht).1]; simp
    · simp only [Bool.not_eq_true] at h9
      have hk : kindOf .sgm a r c ≠ .mism := by
        simp only [kindOf, hasBit_occlusion, hasBit_mismatch, h9]
        cases (a.flag r c).testBit 8 <;> simp
      simp only [midOf, hk, if_false]
      exact (mismSgmR_unflagged a r c h9).1.symm
  · intro r c hr hc
    by_cases h9 : (a.flag r c).testBit 9 = true
    · have h8 := bit8_false_of_bit9 hwf hr hc h9
      cases ht : touchesOcclusion a r c
      · have hk : kindOf .sgm a r c = .mism := by rw [kindOf_sgm_mism h8 h9, ht]; rfl
        simp only [midOf, hk]
        exact (sgmR_at_mism hwf hr hc h9 ht).2
      · have hk : kindOf .sgm a r c = .mismAsOccl := by rw [kindOf_sgm_mism h8 h9, ht]; rfl
        simp only [midOf, hk]
        rw [(mismSgmR_touch a r c hr hc h9 ht).2, mism_to_occl h9 h8]
    · simp only [Bool.not_eq_true] at h9
      have := (mismSgmR_unflagged a r c h9).2
      simp only [midOf, kindOf, hasBit_occlusion, hasBit_mismatch, h9]
      cases (a.flag r c).testBit 8 <;> simp [this]

theorem mismSgmR_valid_bdd (hwf : WFp .sgm off a) {r c : Nat} (hr : r < a.rows) (hc : c < a.cols)
    (hv : (lift (Repaired.mismSgmPixel vg) a).valid r c = true) {q : Rat}
    (hd : (lift (Repaired.mismSgmPixel vg) a).disp r c = .num q) : Bdd a q := by
  by_cases h9 : (a.flag r c).testBit 9 = true
  · have h8 := bit8_false_of_bit9 hwf hr hc h9
    cases ht : touchesOcclusion a r c
    · obtain ⟨he, hf⟩ := mismSgmR_fill a r c hr hc h9 ht
      by_cases h0 : nums (sourcesSgm a r c) = []
      · exfalso
        have : (lift (Repaired.mismSgmPixel vg) a).valid r c = false := by
          apply not_valid_of_bit9; rw [(he h0).2]; exact h9
        rw [this] at hv; cases hv
      · rw [(hf h0).1] at hd
        exact Bdd.median (sgm_input_sources_bdd r c) hd
    · exfalso
      have : (lift (Repaired.mismSgmPixel vg) a).valid r c = false := by
        apply not_valid_of_bit8
        rw [(mismSgmR_touch a r c hr hc h9 ht).2, mism_to_occl h9 h8, mismatch_pow, occlusion_pow, testBit_replaceBit]
        simp
      rw [this] at hv; cases hv
  · simp only [Bool.not_eq_true] at h9
    have := mismSgmR_unflagged a r c h9
    unfold DMap.valid at hv
    rw [this.2] at hv; rw [this.1] at hd
    exact Bdd.self hr hc hv hd

theorem sgmR_sources_bdd (hwf : WFp .sgm off a) (r c : Nat) :
    ∀ q ∈ nums (sourcesSgm (lift (Repaired.mismSgmPixel vg) a) r c), Bdd a q := by
  intro q hq
  rw [mem_nums] at hq
  unfold sourcesSgm at hq
  rw [List.mem_filterMap] at hq
  obtain ⟨d, _, hd⟩ := hq
  obtain ⟨r', c', hr', hc', hv, hdisp⟩ := ray_source_pixel hd
  exact mismSgmR_valid_bdd hwf hr' hc' hv hdisp

/-- a pixel handled as an occlusion (bit 8 after the repaired first pass): filled from two or more
    sources, left as it is otherwise -/
theorem sgmR_occl (hwf : WFp .sgm off a) {r c : Nat} (hr : r < a.rows) (hc : c < a.cols)
    (hk : kindOf .sgm a r c = .occl ∨ kindOf .sgm a r c = .mismAsOccl)
    (hfl : flagged (a.flag r c) = true) (hnb : (decide (off > 0) && isBorder a off r c) = false)
    (h8 : ((lift (Repaired.mismSgmPixel vg) a).flag r c).testBit 8 = true)
    (h4 : ((lift (Repaired.mismSgmPixel vg) a).flag r c).testBit 4 = false)
    (hun : (lift (Repaired.mismSgmPixel vg) a).flag r c = unfilledFlag (kindOf .sgm a r c) (a.flag r c))
    (hfi : replaceBit ((lift (Repaired.mismSgmPixel vg) a).flag r c) occlusion filledOcclusion
            = filledFlag (kindOf .sgm a r c) (a.flag r c))
    (hnf : flagged (filledFlag (kindOf .sgm a r c) (a.flag r c)) = false) :
    Outcome .sgm off a (Repaired.interpolate vg .sgm off a) r c := by
  have hsrcs : sourcesOf .sgm a (Repaired.interpolate vg .sgm off a) r c
      = nums (sourcesSgm (lift (Repaired.mismSgmPixel vg) a) r c) := by
    rcases hk with hk | hk <;> simp only [sourcesOf, hk] <;> rw [sourcesSgm_congr (midOf_sgmR_agree hwf)]
  obtain ⟨hlt, hge⟩ := occlSgmR_flagged (lift (Repaired.mismSgmPixel vg) a) r c hr hc h8
  by_cases h2 : 2 ≤ (nums (sourcesSgm (lift (Repaired.mismSgmPixel vg) a) r c)).length
  · obtain ⟨⟨q, hq, hs⟩, hg⟩ := hge h2
    have hg' : (Repaired.interpolate vg .sgm off a).flag r c = filledFlag (kindOf .sgm a r c) (a.flag r c) := by
      rw [sgmR_eq, hg, fill_occl h8 h4, hfi]
    refine Outcome.filled hfl hnb hg' (by rw [hg']; exact hnf) q (by rw [sgmR_eq]; exact hq) ?_ ?_ ?_
    · rw [hsrcs]; rcases hk with hk | hk <;> simp [hk, valueOK, hs]
    · rw [betweenValid_iff]; exact sgmR_sources_bdd hwf r c q (isSecondLowestAbs_mem hs)
    · rw [hsrcs]; rcases hk with hk | hk <;> simpa [hk, enoughSources] using h2
  · have hlt' : (nums (sourcesSgm (lift (Repaired.mismSgmPixel vg) a) r c)).length < 2 := by omega
    have hg' : (Repaired.interpolate vg .sgm off a).flag r c = unfilledFlag (kindOf .sgm a r c) (a.flag r c) := by
      rw [sgmR_eq, (hlt hlt').2, hun]
    refine Outcome.unfilled hfl hnb ?_ hg' ?_
    · rw [hsrcs]; rcases hk with hk | hk <;> simpa [hk, enoughSources] using hlt'
    · rw [sgmR_eq, (hlt hlt').2, flagged_eq, h8]; rfl

theorem sgmR_outcome (hwf : WFp .sgm off a) {r c : Nat} (hr : r < a.rows) (hc : c < a.cols) :
    Outcome .sgm off a (Repaired.interpolate vg .sgm off a) r c := by
  have hborder : ∀ k, (leftNodataOrBorder).testBit k = false → (a.flag r c).testBit k = true →
      (decide (off > 0) && isBorder a off r c) = false := by
    intro k h1 hk
    cases hb : (decide (off > 0) && isBorder a off r c)
    · rfl
    · have := hwf.bc r c hr hc hb; rw [this, h1] at hk; cases hk
  by_cases h8 : (a.flag r c).testBit 8 = true
  · -- occlusion
    have h9 : (a.flag r c).testBit 9 = false := hwf.one r c hr hc h8
    have h4 : (a.flag r c).testBit 4 = false := hwf.st8 r c hr hc h8
    have hfl : flagged (a.flag r c) = true := by rw [flagged_eq, h8]; rfl
    have hk : kindOf .sgm a r c = .occl := by simp [kindOf, hasBit_occlusion, h8]
    obtain ⟨_, hm2⟩ := mismSgmR_unflagged a r c h9
    refine sgmR_occl hwf hr hc (Or.inl hk) hfl (hborder 8 one_testBit8 h8) (by rw [hm2]; exact h8)
      (by rw [hm2]; exact h4) (by rw [hm2, hk]; rfl) (by rw [hm2, hk]; rfl) ?_
    rw [hk]; simp only [filledFlag]
    rw [flagged_eq, occlusion_pow, filledOcclusion_pow, testBit_replaceBit, testBit_replaceBit]; simp [h9]
  · simp only [Bool.not_eq_true] at h8
    by_cases h9 : (a.flag r c).testBit 9 = true
    · have h5 : (a.flag r c).testBit 5 = false := hwf.st9 r c hr hc h9
      have h4 : (a.flag r c).testBit 4 = false := hwf.st9s rfl r c hr hc h9
      have hnb := hborder 9 one_testBit9 h9
      have hfl : flagged (a.flag r c) = true := by rw [flagged_eq, h9]; simp
      cases ht : touchesOcclusion a r c
      · -- plain mismatch
        have hk : kindOf .sgm a r c = .mism := by rw [kindOf_sgm_mism h8 h9, ht]; rfl
        obtain ⟨hb1, hb2⟩ := sgmR_at_mism hwf hr hc h9 ht
        obtain ⟨he, hf⟩ := mismSgmR_fill a r c hr hc h9 ht
        have hsrcs : sourcesOf .sgm a (Repaired.interpolate vg .sgm off a) r c = nums (sourcesSgm a r c) := by
          simp only [sourcesOf, hk]
        by_cases hne : nums (sourcesSgm a r c) = []
        · have hg0 : (Repaired.interpolate vg .sgm off a).flag r c = a.flag r c := by rw [hb2, (he hne).2]
          refine Outcome.unfilled hfl hnb ?_ (by rw [hk, hg0]; rfl) (by rw [hg0]; exact hfl)
          rw [hk, hsrcs, hne]; simp [enoughSources]
        · have hg : (Repaired.interpolate vg .sgm off a).flag r c = replaceBit (a.flag r c) mismatch filledMismatch := by
            rw [hb2, (hf hne).2, fill_mism h9 h5]
          cases hmed : median (nums (sourcesSgm a r c)) with
          | nan => exact absurd ((median_eq_nan_iff _).mp hmed) hne
          | num q =>
            refine Outcome.filled hfl hnb (by rw [hk]; exact hg) ?_ q (by rw [hb1, (hf hne).1, hmed]) ?_ ?_ ?_
            · rw [hg, flagged_eq, mismatch_pow, filledMismatch_pow, testBit_replaceBit, testBit_replaceBit]; simp [h8]
            · rw [hk, hsrcs]; simp [valueOK, hmed]
            · rw [betweenValid_iff]; exact Bdd.median (sgm_input_sources_bdd r c) hmed
            · rw [hk, hsrcs]; simp only [enoughSources, decide_eq_true_eq]
              cases hl : nums (sourcesSgm a r c) with
              | nil => exact absurd hl hne
              | cons x t => simp
      · -- mismatch touching an occlusion
        have hk : kindOf .sgm a r c = .mismAsOccl := by rw [kindOf_sgm_mism h8 h9, ht]; rfl
        obtain ⟨_, hm2⟩ := mismSgmR_touch a r c hr hc h9 ht
        have hf1 : (lift (Repaired.mismSgmPixel vg) a).flag r c = replaceBit (a.flag r c) (2 ^ 9) (2 ^ 8) := by
          rw [hm2, mism_to_occl h9 h8, mismatch_pow, occlusion_pow]
        refine sgmR_occl hwf hr hc (Or.inr hk) hfl hnb (by rw [hf1, testBit_replaceBit]; simp)
          (by rw [hf1, testBit_replaceBit]; simp [h4]) (by rw [hf1, hk]; simp [unfilledFlag, mismatch_pow, occlusion_pow]) ?_ ?_
        · rw [hf1, hk, occlusion_pow, filledOcclusion_pow, replaceBit_twice _ 9 8 4 h8 (by decide)]
          simp [filledFlag, mismatch_pow, filledOcclusion_pow]
        · rw [hk]; simp only [filledFlag]
          rw [flagged_eq, mismatch_pow, filledOcclusion_pow, testBit_replaceBit, testBit_replaceBit]; simp [h8]
    · -- neither bit
      simp only [Bool.not_eq_true] at h9
      have hfl : flagged (a.flag r c) = false := by rw [flagged_eq, h8, h9]; rfl
      obtain ⟨hm1, hm2⟩ := mismSgmR_unflagged a r c h9
      have h8' : ((lift (Repaired.mismSgmPixel vg) a).flag r c).testBit 8 = false := by rw [hm2]; exact h8
      obtain ⟨ho1, ho2⟩ := occlSgmR_unflagged (lift (Repaired.mismSgmPixel vg) a) r c h8'
      exact Outcome.untouched hfl (by rw [sgmR_eq, ho1, hm1]) (by rw [sgmR_eq, ho2, hm2]) (hwf.bc r c hr hc)

end sgmR

/-- FULL STRENGTH, repaired code.  With `proposed_fixes/C14-fill-from-nothing.diff` applied, every well-formed map
    of any size, both methods: the whole specification holds — no hypothesis about sources is left. -/
theorem spec_holds_repaired (meth : Method) (off : Nat) (a : DMap) (hwf : wf meth off a = true) :
    spec meth off a (Repaired.interpolate vg meth off a) = true := by
  unfold spec
  have h1 : (Repaired.interpolate vg meth off a).rows = a.rows := by cases meth <;> rfl
  have h2 : (Repaired.interpolate vg meth off a).cols = a.cols := by cases meth <;> rfl
  simp only [h1, h2, decide_true, Bool.true_and, List.all_eq_true, List.mem_range]
  intro r hr c hc
  apply pixelOK_of_outcome
  cases meth with
  | mccnn => exact mccnnR_outcome (wf_elim hwf) hr hc
  | sgm => exact sgmR_outcome (wf_elim hwf) hr hc

/-- the repaired code on the inputs of the counterexamples: the pixels stay flagged -/
example : (Repaired.interpolate vg .mccnn 0 exF6a).flag 0 2 = 512 ∧ (Repaired.interpolate vg .mccnn 0 exF6b).disp 0 0 = .num 7
    ∧ (Repaired.interpolate vg .sgm 0 exF6c).flag 1 1 = 512 ∧ (Repaired.interpolate vg .sgm 0 exF6d).flag 1 1 = 256
    ∧ spec .mccnn 0 exF6a (Repaired.interpolate vg .mccnn 0 exF6a) = true
    ∧ spec .mccnn 0 exF6b (Repaired.interpolate vg .mccnn 0 exF6b) = true
    ∧ spec .sgm 0 exF6c (Repaired.interpolate vg .sgm 0 exF6c) = true
    ∧ spec .sgm 0 exF6d (Repaired.interpolate vg .sgm 0 exF6d) = true := by decide

end R

end Pandora.C14
