/-
  C14 — Occlusion/mismatch filling touches only flagged pixels, fills from valid ones.
-/
import PandoraModel.Model.Interp
import PandoraModel.Generated.Interp
import PandoraModel.Generated.Constants

namespace Pandora.C14
open Pandora Pandora.Interp Pandora.Flags

/-! ### 1. The data of the kernels in the source are the data of the model (finite: `decide`) -/

/-- the direction tables of the three kernels that scan are those of the model -/
theorem source_dirs :
    Generated.Interp.dirsMismatchMcCnnDoubled = dirs16
    ∧ Generated.Interp.dirsMismatchSgm = dirs8 ∧ Generated.Interp.dirsOcclusionSgm = dirs8 := by decide

/-- the flag updates, the tested constants, the loop bounds and the order of the passes are those the
    model follows -/
theorem source_flag_ops :
    Generated.Interp.flagOps =
      [("interpolate_occlusion_mc_cnn",
          [("-", "PANDORA_MSK_PIXEL_OCCLUSION", true), ("+", "PANDORA_MSK_PIXEL_FILLED_OCCLUSION", true),
           ("-", "PANDORA_MSK_PIXEL_OCCLUSION", true), ("+", "PANDORA_MSK_PIXEL_FILLED_OCCLUSION", true)]),
       ("interpolate_mismatch_mc_cnn",
          [("-", "PANDORA_MSK_PIXEL_MISMATCH", false), ("+", "PANDORA_MSK_PIXEL_FILLED_MISMATCH", false)]),
       ("interpolate_mismatch_sgm",
          [("-", "PANDORA_MSK_PIXEL_MISMATCH", false), ("+", "PANDORA_MSK_PIXEL_OCCLUSION", false),
           ("-", "PANDORA_MSK_PIXEL_MISMATCH", false), ("+", "PANDORA_MSK_PIXEL_FILLED_MISMATCH", false)]),
       ("interpolate_occlusion_sgm",
          [("-", "PANDORA_MSK_PIXEL_OCCLUSION", false), ("+", "PANDORA_MSK_PIXEL_FILLED_OCCLUSION", false)])]
    ∧ Generated.Interp.tested =
      [("interpolate_occlusion_mc_cnn",
          ["PANDORA_MSK_PIXEL_OCCLUSION", "PANDORA_MSK_PIXEL_INVALID", "PANDORA_MSK_PIXEL_INVALID"]),
       ("interpolate_mismatch_mc_cnn", ["PANDORA_MSK_PIXEL_MISMATCH", "PANDORA_MSK_PIXEL_INVALID"]),
       ("interpolate_mismatch_sgm", ["PANDORA_MSK_PIXEL_MISMATCH", "PANDORA_MSK_PIXEL_OCCLUSION"]),
       ("interpolate_occlusion_sgm", ["PANDORA_MSK_PIXEL_OCCLUSION"]),
       ("find_valid_neighbors", ["PANDORA_MSK_PIXEL_INVALID"])]
    ∧ Generated.Interp.pathRanges =
      [("interpolate_occlusion_mc_cnn", []), ("interpolate_mismatch_mc_cnn", [["1", "max_path_length"]]),
       ("interpolate_mismatch_sgm", []), ("interpolate_occlusion_sgm", []),
       ("find_valid_neighbors", [["max_path_length"]])]
    ∧ Generated.Interp.passOrder =
      [("McCnnInterpolation", ["interpolate_occlusion_mc_cnn", "interpolate_mismatch_mc_cnn", "mask_border"]),
       ("SgmInterpolation", ["interpolate_mismatch_sgm", "interpolate_occlusion_sgm"])] := by decide

/-- the six constants the kernels use have the documented values the model uses -/
theorem source_constants :
    Generated.Constants.PANDORA_MSK_PIXEL_INVALID = pixelInvalid
    ∧ Generated.Constants.PANDORA_MSK_PIXEL_OCCLUSION = occlusion
    ∧ Generated.Constants.PANDORA_MSK_PIXEL_MISMATCH = mismatch
    ∧ Generated.Constants.PANDORA_MSK_PIXEL_FILLED_OCCLUSION = filledOcclusion
    ∧ Generated.Constants.PANDORA_MSK_PIXEL_FILLED_MISMATCH = filledMismatch
    ∧ Generated.Constants.PANDORA_MSK_PIXEL_LEFT_NODATA_OR_BORDER = leftNodataOrBorder := by decide

end Pandora.C14
